import OpusModel.Basic
/-
  OpusModel.Ext — transcription of src/extensions.c (packet extensions in the
  padding area of a code-3 packet).

  Conventions.
  * The padding area is a byte array `d` (`Array Nat`, for O(1) reads in the compiled
    driver; the API functions take `Bytes`); C pointers into it are offsets (`Nat`).
    `last_long` may be NULL: `Option Nat`.  `src_data` is NULL only while
    `src_len = 0` (it is never dereferenced then); it is modelled as an offset.
  * C `opus_int32` lengths (`len`, `curr_len`, …) are `Int`; `-1` results of the
    two skip functions are `none`.
  * A read of a byte that is not inside `d` gives `.oob`; a reachable
    `celt_assert` that fails gives `.abort` (ENABLE_HARDENING build).
  * `opus_extension_iterator_next` is recursive in C (extensions.c:271) and has a
    `for`/`while` nest; here it is split into `repeatPhase` (lines 164-224) and
    `mainLoop` (lines 230-293), both defined by well-founded recursion
    (no fuel).  The loops over `next` (`count`, `parse`, …) terminate by the
    measure `Iter.mu`, shown to decrease in `next_decreases`.
-/
set_option linter.unusedVariables false
namespace Opus.Ext
open Opus

/-- Result of `skip_extension(_payload)`: `none` = `-1`, else
    `(new data offset, remaining len, header_size)`. -/
abbrev Skip := Option (Nat × Int × Nat)

/-- The lacing loop of a long extension with `L=1` (extensions.c:74-81).
    Returns `(data offset after the length bytes, len, bytes, header_size)`. -/
def lacing (d : Array Nat) (p : Nat) (len : Int) (bytes hs : Nat) :
    Res (Option (Nat × Int × Nat × Nat)) :=
  if len < 1 then .ok none
  else match d[p]? with
    | none => .oob
    | some l =>
      if l = 255 then lacing d (p + 1) (len - 256) (bytes + 255) (hs + 1)
      else .ok (some (p + 1, len - (l + 1), bytes + l, hs + 1))
termination_by len.toNat
decreasing_by omega

/-- `skip_extension_payload` (extensions.c:45-90). -/
def skipPayload (d : Array Nat) (p : Nat) (len : Int) (idByte : Nat) (tsl : Int) : Res Skip :=
  let id := idByte / 2
  let l := idByte % 2
  if (id = 0 ∧ l = 1) ∨ id = 2 then .ok (some (p, len, 0))
  else if 0 < id ∧ id < 32 then
    if len < l then .ok none else .ok (some (p + l, len - l, 0))
  else if l = 0 then
    if len < tsl then .ok none else .ok (some (p + (len - tsl).toNat, tsl, 0))
  else
    match lacing d p len 0 0 with
    | .ok none => .ok none
    | .ok (some (p', len', bytes, hs)) =>
      if len' < 0 then .ok none else .ok (some (p' + bytes, len', hs))
    | .err e => .err e
    | .oob => .oob
    | .abort => .abort

/-- `skip_extension` (extensions.c:98-118). -/
def skipExtension (d : Array Nat) (p : Nat) (len : Int) : Res Skip :=
  if len = 0 then .ok (some (p, 0, 0))
  else if len < 1 then .ok none
  else match d[p]? with
    | none => .oob
    | some b =>
      match skipPayload d (p + 1) (len - 1) b 0 with
      | .ok none => .ok none
      | .ok (some (p', len', hs)) => .ok (some (p', len', hs + 1))
      | .err e => .err e
      | .oob => .oob
      | .abort => .abort

/-! ### Facts about the skip functions needed for the termination arguments -/

theorem lacing_spec (d : Array Nat) (p : Nat) (len : Int) (bytes hs : Nat) :
    ∀ {p' : Nat} {len' : Int} {bytes' hs' : Nat},
    lacing d p len bytes hs = .ok (some (p', len', bytes', hs')) →
    len' < len ∧ (p' : Int) + bytes' + len' = p + bytes + len ∧ hs < hs' ∧
      (p' : Int) - p = (hs' : Int) - hs ∧ bytes ≤ bytes' := by
  fun_induction lacing d p len bytes hs with
  | case1 => intro _ _ _ _ h; simp at h
  | case2 => intro _ _ _ _ h; simp at h
  | case3 p len bytes hs hlt hsome ih => intro _ _ _ _ h; have := ih h; omega
  | case4 p len bytes hs hlt l hsome hne => intro _ _ _ _ h; simp at h; omega

theorem skipPayload_spec {d : Array Nat} {p : Nat} {len : Int} {idByte : Nat} {tsl : Int}
    {p' : Nat} {len' : Int} {hs : Nat}
    (h : skipPayload d p len idByte tsl = .ok (some (p', len', hs))) :
    len' ≤ len ∧ (0 ≤ len → 0 ≤ tsl → 0 ≤ len') ∧ ((p' : Int) + len' = p + len) ∧ p + hs ≤ p' := by
  unfold skipPayload at h
  simp only at h
  split at h
  · simp at h; omega
  · split at h
    · split at h
      · simp at h
      · simp at h; omega
    · split at h
      · split at h
        · simp at h
        · simp at h; omega
      · split at h
        · simp at h
        · rename_i p1 l1 b1 h1 heq
          have := lacing_spec _ _ _ _ _ heq
          split at h
          · simp at h
          · simp at h; omega
        all_goals simp at h

theorem skipExtension_spec {d : Array Nat} {p : Nat} {len : Int}
    {p' : Nat} {len' : Int} {hs : Nat}
    (h : skipExtension d p len = .ok (some (p', len', hs))) :
    0 ≤ len' ∧ (0 < len → len' < len) ∧ ((p' : Int) + len' = p + len) ∧ p + hs ≤ p' := by
  unfold skipExtension at h
  split at h
  · simp at h; omega
  · split at h
    · simp at h
    · split at h
      · simp at h
      · split at h
        · simp at h
        · rename_i heq
          have := skipPayload_spec heq
          simp at h; omega
        all_goals simp at h

/-! ### The iterator -/

/-- `OpusExtensionIterator` (opus_private.h:50-66); pointers are offsets into `data`. -/
structure Iter where
  data : Array Nat
  len : Int
  currData : Nat
  repeatData : Nat
  lastLong : Option Nat
  srcData : Nat
  currLen : Int
  repeatLen : Int
  srcLen : Int
  tsl : Int            -- trailing_short_len
  nbFrames : Nat
  frameMax : Int
  currFrame : Nat
  repeatFrame : Nat
  repeatL : Nat
  deriving Repr, DecidableEq

/-- An extension as reported by the iterator: `off = ext->data - iter->data`. -/
structure ExtRef where
  id : Nat
  frame : Nat
  off : Nat
  len : Int
  deriving Repr, DecidableEq

/-- Return value of `opus_extension_iterator_next`: `1` with an extension, `0`, or
    `OPUS_INVALID_PACKET`. -/
inductive Step where
  | ext (e : ExtRef)
  | done
  | invalid
  deriving Repr, DecidableEq

/-- `opus_extension_iterator_init` (extensions.c:120-133).  Only the first `len`
    bytes of `d` belong to the iterator. -/
def iterInit (d : Bytes) (len : Int) (nbFrames : Int) : Res Iter :=
  if len < 0 then .abort
  else if nbFrames < 0 ∨ nbFrames > 48 then .abort
  else .ok { data := (d.take len.toNat).toArray, len := len, currData := 0, repeatData := 0, lastLong := none,
             srcData := 0, currLen := len, repeatLen := 0, srcLen := 0, tsl := 0,
             nbFrames := nbFrames.toNat, frameMax := nbFrames, currFrame := 0, repeatFrame := 0,
             repeatL := 0 }

/-- `opus_extension_iterator_reset` (extensions.c:137-143). -/
def iterReset (it : Iter) : Iter :=
  { it with repeatData := 0, currData := 0, lastLong := none, currLen := it.len,
            repeatFrame := 0, currFrame := 0, tsl := 0 }

/-- `opus_extension_iterator_set_frame_max` (extensions.c:149-152). -/
def iterSetFrameMax (it : Iter) (frameMax : Int) : Iter := { it with frameMax := frameMax }

/-- The "we are in the process of repeating some extensions" block of
    `opus_extension_iterator_next` (extensions.c:164-224), entered with
    `repeat_frame > 0`.  `some step` = the function returned from inside the block,
    `none` = the block ran to its end (`repeat_frame = 0` again). -/
def repeatPhase (it : Iter) : Res (Iter × Option Step) :=
  if it.repeatFrame < it.nbFrames then
    if 0 < it.srcLen then
      match it.data[it.srcData]? with
      | none => .oob
      | some rb =>
        match hsk : skipExtension it.data it.srcData it.srcLen with
        | .ok none => .abort                                   -- celt_assert(iter->src_len >= 0)  :174
        | .ok (some (sp, sl, _)) =>
          let it1 := { it with srcData := sp, srcLen := sl }
          if rb ≤ 3 then repeatPhase it1
          else
            let rb' := if it.repeatL = 0 ∧ it.repeatFrame + 1 ≥ it.nbFrames ∧ some sp = it.lastLong
                       then rb - rb % 2 else rb
            match skipPayload it.data it.currData it.currLen rb' it.tsl with
            | .ok none => .ok ({ it1 with currLen := -1 }, some .invalid)
            | .ok (some (cp, cl, hs)) =>
              let it2 := { it1 with currData := cp, currLen := cl }
              if (cp : Int) ≠ it.len - cl then .abort          -- celt_assert :192
              else if it.frameMax ≤ it.repeatFrame then repeatPhase it2
              else .ok (it2, some (.ext { id := rb' / 2, frame := it.repeatFrame,
                                          off := it.currData + hs,
                                          len := (cp : Int) - it.currData - hs }))
            | .err e => .err e
            | .oob => .oob
            | .abort => .abort
        | .err e => .err e
        | .oob => .oob
        | .abort => .abort
    else
      repeatPhase { it with srcData := it.repeatData, srcLen := it.repeatLen,
                            repeatFrame := it.repeatFrame + 1 }
  else
    let it1 := { it with repeatData := it.currData, lastLong := none }
    let it2 := if it.repeatL = 0 then
        let cf := it.currFrame + 1
        { it1 with currFrame := cf, currLen := if cf ≥ it.nbFrames then 0 else it1.currLen }
      else it1
    .ok ({ it2 with repeatFrame := 0 }, none)
termination_by (it.nbFrames - it.repeatFrame, it.srcLen.toNat)
decreasing_by
  all_goals simp_wf
  · have := skipExtension_spec hsk
    right; omega
  · have := skipExtension_spec hsk
    right; omega
  · left; omega

theorem repeatPhase_currLen_le (it : Iter) : ∀ (it' : Iter) (s : Option Step),
    repeatPhase it = .ok (it', s) → it'.currLen.toNat ≤ it.currLen.toNat := by
  fun_induction repeatPhase it <;> intro it' s h
  all_goals (try (simp at h; done))
  all_goals (try (rename_i ih; have hih := ih _ _ h))
  all_goals (try have hsp := skipPayload_spec ‹skipPayload _ _ _ _ _ = Res.ok (some _)›)
  all_goals (try (simp only [Res.ok.injEq, Prod.mk.injEq] at h; obtain ⟨rfl, _⟩ := h))
  all_goals (try (simp +zetaDelta at *))
  all_goals (try omega)
  all_goals (repeat' split)
  all_goals (simp; try omega)

/-- The main `while (iter->curr_len > 0)` loop of `opus_extension_iterator_next`
    (extensions.c:230-293).  The recursive call at line 271 (`id == 2`) is unfolded:
    it cannot take the `curr_len < 0` exit, enters the repeat block
    (`repeat_frame = curr_frame+1 > 0`), then re-tests `frame_max` (line 227). -/
def mainLoop (it : Iter) : Res (Iter × Step) :=
  if 0 < it.currLen then
    match it.data[it.currData]? with
    | none => .oob
    | some b0 =>
      let id := b0 / 2
      let l := b0 % 2
      match hsk : skipExtension it.data it.currData it.currLen with
      | .ok none => .ok ({ it with currLen := -1 }, .invalid)
      | .ok (some (cp, cl, hs)) =>
        let it1 := { it with currData := cp, currLen := cl }
        if (cp : Int) ≠ it.len - cl then .abort                  -- celt_assert :242
        else if id = 1 then
          if l = 1 ∧ it.data[it.currData + 1]? = none then .oob   -- curr_data0[1]
          else
            let inc := if l = 0 then 1 else (it.data[it.currData + 1]?).getD 0
            if inc = 0 then mainLoop it1                          -- `continue` :249
            else
              let cf := it.currFrame + inc
              if it.nbFrames ≤ cf then .ok ({ it1 with currFrame := cf, currLen := -1 }, .invalid)
              else mainLoop { it1 with currFrame := cf,
                                       currLen := if it.frameMax ≤ cf then 0 else cl,
                                       repeatData := cp, lastLong := none, tsl := 0 }
        else if id = 2 then
          let it2 := { it1 with repeatL := l, repeatFrame := it.currFrame + 1,
                                repeatLen := (it.currData : Int) - it.repeatData,
                                srcData := it.repeatData,
                                srcLen := (it.currData : Int) - it.repeatData }
          match hrp : repeatPhase it2 with
          | .ok (it3, some s) => .ok (it3, s)
          | .ok (it3, none) =>
            if it3.frameMax ≤ it3.currFrame then .ok (it3, .done) else mainLoop it3
          | .err e => .err e
          | .oob => .oob
          | .abort => .abort
        else if 2 < id then
          let it2 := if 32 ≤ id then { it1 with lastLong := some cp, tsl := 0 }
                     else { it1 with tsl := it.tsl + l }
          .ok (it2, .ext { id := id, frame := it.currFrame, off := it.currData + hs,
                           len := (cp : Int) - it.currData - hs })
        else mainLoop it1
      | .err e => .err e
      | .oob => .oob
      | .abort => .abort
  else .ok (it, .done)
termination_by it.currLen.toNat
decreasing_by
  all_goals simp_wf
  all_goals have h1 := skipExtension_spec hsk
  · omega
  · split <;> omega
  · have h2 := repeatPhase_currLen_le _ _ _ hrp
    simp [it2, it1] at h2; omega
  · omega

/-- `opus_extension_iterator_next` (extensions.c:158-294). -/
def next (it : Iter) : Res (Iter × Step) :=
  if it.currLen < 0 then .ok (it, .invalid)
  else if 0 < it.repeatFrame then
    match repeatPhase it with
    | .ok (it', some s) => .ok (it', s)
    | .ok (it', none) =>
      if it'.frameMax ≤ it'.currFrame then .ok (it', .done) else mainLoop it'
    | .err e => .err e
    | .oob => .oob
    | .abort => .abort
  else if it.frameMax ≤ it.currFrame then .ok (it, .done)
  else mainLoop it

/-! ### Termination measure for loops over `next` -/

/-- Lexicographic measure: remaining bytes, remaining repeat frames, remaining source bytes. -/
def Iter.mu (it : Iter) : Nat × Nat × Nat :=
  (it.currLen.toNat, if 0 < it.repeatFrame then it.nbFrames - it.repeatFrame + 1 else 0, it.srcLen.toNat)

theorem repeatPhase_ext (it : Iter) : ∀ (it' : Iter) (e : ExtRef),
    repeatPhase it = .ok (it', some (.ext e)) →
    it'.currLen.toNat ≤ it.currLen.toNat ∧ it'.nbFrames = it.nbFrames ∧
    it.repeatFrame ≤ it'.repeatFrame ∧ it'.repeatFrame < it'.nbFrames ∧
    (it.repeatFrame < it'.repeatFrame ∨ it'.srcLen.toNat < it.srcLen.toNat) := by
  fun_induction repeatPhase it <;> intro it' s h
  all_goals (try (simp at h; done))
  all_goals (try (rename_i ih; have hih := ih _ _ h))
  all_goals (try have hsp := skipPayload_spec ‹skipPayload _ _ _ _ _ = Res.ok (some _)›)
  all_goals (try have hse := skipExtension_spec ‹skipExtension _ _ _ = Res.ok (some _)›)
  all_goals (try (simp only [Res.ok.injEq, Prod.mk.injEq] at h; obtain ⟨rfl, _⟩ := h))
  all_goals (try (simp +zetaDelta at *))
  all_goals (try omega)

theorem mainLoop_ext (it : Iter) : ∀ (it' : Iter) (e : ExtRef),
    mainLoop it = .ok (it', .ext e) → it'.currLen.toNat < it.currLen.toNat := by
  fun_induction mainLoop it <;> intro it' s h
  all_goals (try (simp at h; done))
  all_goals (try (rename_i ih; have hih := ih _ _ h))
  all_goals (try have hse := skipExtension_spec ‹skipExtension _ _ _ = Res.ok (some _)›)
  all_goals (try have hrp := repeatPhase_currLen_le _ _ _ ‹repeatPhase _ = _›)
  all_goals (try (simp only [Res.ok.injEq, Prod.mk.injEq] at h; obtain ⟨rfl, _⟩ := h))
  all_goals (try (simp +zetaDelta at *))
  all_goals (try omega)
  all_goals (repeat' split)
  all_goals (simp; try omega)

theorem next_decreases {it it' : Iter} {e : ExtRef} (h : next it = .ok (it', .ext e)) :
    Prod.Lex (· < ·) (Prod.Lex (· < ·) (· < ·)) it'.mu it.mu := by
  unfold next at h
  split at h
  · simp at h
  · split at h
    · rename_i hrf
      split at h
      · rename_i it1 s heq
        simp only [Res.ok.injEq, Prod.mk.injEq] at h
        obtain ⟨rfl, rfl⟩ := h
        have := repeatPhase_ext _ _ _ heq
        unfold Iter.mu
        by_cases hlt : it1.currLen.toNat < it.currLen.toNat
        · exact Prod.Lex.left _ _ hlt
        · have heq1 : it1.currLen.toNat = it.currLen.toNat := by omega
          rw [heq1]
          apply Prod.Lex.right
          have h1 : 0 < it1.repeatFrame := by omega
          simp only [h1, hrf, if_true]
          by_cases hlt2 : it.repeatFrame < it1.repeatFrame
          · apply Prod.Lex.left; omega
          · have heq2 : it1.repeatFrame = it.repeatFrame := by omega
            rw [heq2, this.2.1]
            apply Prod.Lex.right; omega
      · rename_i it1 heq
        have h1 := repeatPhase_currLen_le _ _ _ heq
        split at h
        · simp at h
        · have h2 := mainLoop_ext _ _ _ h
          exact Prod.Lex.left _ _ (by simp; omega)
      all_goals simp at h
    · split at h
      · simp at h
      · have h2 := mainLoop_ext _ _ _ h
        exact Prod.Lex.left _ _ (by simp; omega)

/-! ### Loops over the iterator -/

/-- `opus_extension_iterator_find` (extensions.c:296-310). -/
def find (it : Iter) (id : Int) : Res (Iter × Step) :=
  match h : next it with
  | .ok (it', .ext e) => if (e.id : Int) = id then .ok (it', .ext e) else find it' id
  | .ok (it', s) => .ok (it', s)
  | .err e => .err e
  | .oob => .oob
  | .abort => .abort
termination_by it.mu
decreasing_by exact next_decreases h

/-- The `for` loop of `opus_packet_extensions_count` (extensions.c:320). -/
def countLoop (it : Iter) (n : Nat) : Res Nat :=
  match h : next it with
  | .ok (it', .ext _) => countLoop it' (n + 1)
  | .ok (_, _) => .ok n
  | .err e => .err e
  | .oob => .oob
  | .abort => .abort
termination_by it.mu
decreasing_by exact next_decreases h

/-- `opus_packet_extensions_count` (extensions.c:314-322). -/
def count (d : Bytes) (len : Int) (nbFrames : Int) : Res Nat :=
  match iterInit d len nbFrames with
  | .ok it => countLoop it 0
  | .err e => .err e
  | .oob => .oob
  | .abort => .abort

/-- The loop of `opus_packet_extensions_count_ext` (extensions.c:333-335);
    `cnt` is `nb_frame_exts[0..nb_frames)`. -/
def countExtLoop (it : Iter) (n : Nat) (cnt : List Nat) : Res (Nat × List Nat) :=
  match h : next it with
  | .ok (it', .ext e) =>
    match cnt[e.frame]? with
    | none => .oob                                   -- nb_frame_exts[ext.frame]++ outside the array
    | some c => countExtLoop it' (n + 1) (cnt.set e.frame (c + 1))
  | .ok (_, _) => .ok (n, cnt)
  | .err e => .err e
  | .oob => .oob
  | .abort => .abort
termination_by it.mu
decreasing_by exact next_decreases h

/-- `opus_packet_extensions_count_ext` (extensions.c:326-337). -/
def countExt (d : Bytes) (len : Int) (nbFrames : Int) : Res (Nat × List Nat) :=
  match iterInit d len nbFrames with
  | .ok it => countExtLoop it 0 (List.replicate it.nbFrames 0)
  | .err e => .err e
  | .oob => .oob
  | .abort => .abort

/-- The loop of `opus_packet_extensions_parse` (extensions.c:353-361); `cap` is the
    caller's `*nb_extensions`. -/
def parseLoop (it : Iter) (cap : Int) (acc : Array ExtRef) : Res (Array ExtRef) :=
  match h : next it with
  | .ok (it', .ext e) =>
    if (acc.size : Int) = cap then .err .bufferTooSmall else parseLoop it' cap (acc.push e)
  | .ok (_, .done) => .ok acc
  | .ok (_, .invalid) => .err .invalidPacket
  | .err e => .err e
  | .oob => .oob
  | .abort => .abort
termination_by it.mu
decreasing_by exact next_decreases h

/-- `opus_packet_extensions_parse` (extensions.c:344-364) with `extensions != NULL`.
    On success the list has `*nb_extensions` entries, in bitstream order. -/
def parse (d : Bytes) (len : Int) (cap : Int) (nbFrames : Int) : Res (List ExtRef) :=
  match iterInit d len nbFrames with
  | .ok it =>
    match parseLoop it cap #[] with
    | .ok a => .ok a.toList
    | .err e => .err e
    | .oob => .oob
    | .abort => .abort
  | .err e => .err e
  | .oob => .oob
  | .abort => .abort

/-- Cumulative sums `nb_frames_cum[0..nb_frames]` (extensions.c:384-391). -/
def cumCounts : List Int → Int → List Int
  | [], prev => [prev]
  | c :: cs, prev => prev :: cumCounts cs (c + prev)

/-- The loop of `opus_packet_extensions_parse_ext` (extensions.c:393-403).  `out` is the
    caller's `extensions[0..cap)` (unset entries `none`). -/
def parseExtLoop (it : Iter) (cap : Int) (cum : List Int) (out : Array (Option ExtRef)) (n : Nat) :
    Res (Array (Option ExtRef) × Nat) :=
  match h : next it with
  | .ok (it', .ext e) =>
    match cum[e.frame]?, cum[e.frame + 1]? with
    | some idx, some nxt =>
      if cap ≤ idx then .err .bufferTooSmall
      else if ¬ idx + 1 ≤ nxt then .abort            -- celt_assert(idx < nb_frames_cum[ext.frame+1]) :401
      else if idx < 0 then .oob
      else parseExtLoop it' cap (cum.set e.frame (idx + 1)) (out.setIfInBounds idx.toNat (some e)) (n + 1)
    | _, _ => .oob
  | .ok (_, .done) => .ok (out, n)
  | .ok (_, .invalid) => .err .invalidPacket
  | .err e => .err e
  | .oob => .oob
  | .abort => .abort
termination_by it.mu
decreasing_by exact next_decreases h

/-- `opus_packet_extensions_parse_ext` (extensions.c:371-406).  Returns the first
    `*nb_extensions` entries of the caller's array (frame order). -/
def parseExt (d : Bytes) (len : Int) (cap : Int) (nbFrameExts : List Int) (nbFrames : Int) :
    Res (List (Option ExtRef)) :=
  if nbFrames > 48 then .abort
  else if nbFrameExts.length ≠ nbFrames.toNat then .oob
  else
    match iterInit d len nbFrames with
    | .ok it =>
      match parseExtLoop it cap (cumCounts nbFrameExts 0) (Array.replicate cap.toNat none) 0 with
      | .ok (a, n) => .ok (a.toList.take n)
      | .err e => .err e
      | .oob => .oob
      | .abort => .abort
    | .err e => .err e
    | .oob => .oob
    | .abort => .abort

/-! ### Generation -/

/-- `opus_extension_data` as an input of the generator: `data` holds the bytes at
    `ext->data` (at least `len` of them are needed when they are copied). -/
structure Ext where
  id : Int
  frame : Int
  data : Bytes
  len : Int
  deriving Repr, DecidableEq

/-- Payload of an extension reported by the iterator, as generator input. -/
def ExtRef.toExt (d : Bytes) (e : ExtRef) : Ext :=
  { id := e.id, frame := e.frame, data := (d.drop e.off).take e.len.toNat, len := e.len }

/-- Constant inputs of one `opus_packet_extensions_generate` call.  `dry` = `data == NULL`. -/
structure GCfg where
  len : Int
  dry : Bool
  exts : Array Ext
  nbFrames : Nat

/-- Mutable locals of `opus_packet_extensions_generate` other than the output
    (`pos` is the size of the output array, which is threaded separately). -/
structure GSt where
  written : Nat
  currFrame : Nat
  minIdx : List Nat
  repIdx : List Nat
  deriving Repr

def rdN (l : List Nat) (i : Nat) : Res Nat :=
  match l[i]? with
  | some v => .ok v
  | none => .oob

def rdE (a : Array Ext) (i : Nat) : Res Ext :=
  match a[i]? with
  | some v => .ok v
  | none => .oob

/-- Bytes copied by `OPUS_COPY(&data[pos], ext->data, ext->len)`; a dry run copies nothing
    (zeros stand in so that `pos` is the output size in both modes). -/
def payloadBytes (c : GCfg) (e : Ext) : Res Bytes :=
  if c.dry then .ok (List.replicate e.len.toNat 0)
  else if (e.data.length : Int) < e.len then .oob
  else .ok (e.data.take e.len.toNat)

/-- `write_extension_payload` (extensions.c:408-444); `pos = out.size`. -/
def writeExtPayload (c : GCfg) (out : Array Nat) (e : Ext) (last : Bool) : Res (Array Nat) :=
  if ¬ (3 ≤ e.id ∧ e.id ≤ 127) then .abort
  else if e.id < 32 then
    if e.len < 0 ∨ e.len > 1 then .err .badArg
    else if e.len > 0 then
      if c.len - out.size < e.len then .err .bufferTooSmall
      else if c.dry then .ok (out.push 0)
      else match e.data[0]? with
        | none => .oob
        | some b => .ok (out.push b)
    else .ok out
  else
    if e.len < 0 then .err .badArg
    else
      let lengthBytes : Int := if last then 0 else 1 + e.len / 255
      if c.len - out.size < lengthBytes + e.len then .err .bufferTooSmall
      else
        let out1 := if last then out
                    else (out ++ Array.replicate (e.len / 255).toNat 255).push (e.len % 255).toNat
        match payloadBytes c e with
        | .ok bs => .ok (out1 ++ bs.toArray)
        | .err er => .err er
        | .oob => .oob
        | .abort => .abort

/-- `write_extension` (extensions.c:446-454). -/
def writeExt (c : GCfg) (out : Array Nat) (e : Ext) (last : Bool) : Res (Array Nat) :=
  if c.len - out.size < 1 then .err .bufferTooSmall
  else if ¬ (3 ≤ e.id ∧ e.id ≤ 127) then .abort
  else
    let b : Int := e.id * 2 + (if e.id < 32 then e.len else if last then 0 else 1)
    writeExtPayload c (out.push (b % 256).toNat) e last

/-- First loop nest of the generator (extensions.c:475-484): validation and
    `frame_min_idx` / `frame_max_idx`. -/
def scanLoop (exts : Array Ext) (nbFrames : Int) (i : Nat) (mn mx : List Nat) : Res (List Nat × List Nat) :=
  if i < exts.size then
    match exts[i]? with
    | none => .oob
    | some e =>
      if e.frame < 0 ∨ nbFrames ≤ e.frame then .err .badArg
      else if e.id < 3 ∨ 127 < e.id then .err .badArg
      else
        let f := e.frame.toNat
        scanLoop exts nbFrames (i + 1) (mn.set f (min (mn.getD f 0) i)) (mx.set f (max (mx.getD f 0) (i + 1)))
  else .ok (mn, mx)
termination_by exts.size - i

/-- "Test if we can repeat this extension in future frames" (extensions.c:502-517):
    `true` iff the `for g` loop ran to `nb_frames`. -/
def canRepeat (exts : Array Ext) (mx rep : List Nat) (nbF : Nat) (e : Ext) (g : Nat) : Res Bool :=
  if g < nbF then
    match rdN rep g, rdN mx g with
    | .ok r, .ok m =>
      if m ≤ r then .ok false
      else match rdE exts r with
        | .ok x =>
          if x.frame ≠ g then .abort                 -- celt_assert :505
          else if x.id ≠ e.id then .ok false
          else if x.id < 32 ∧ x.len ≠ e.len then .ok false
          else canRepeat exts mx rep nbF e (g + 1)
        | .err er => .err er
        | .oob => .oob
        | .abort => .abort
    | _, _ => .oob
  else .ok true
termination_by nbF - g

/-- `for (j=…; j<hi && extensions[j].frame != g; j++);` (extensions.c:546-547). -/
def skipToFrame (exts : Array Ext) (g : Nat) (j hi : Nat) : Res Nat :=
  if j < hi then
    match rdE exts j with
    | .ok x => if x.frame ≠ g then skipToFrame exts g (j + 1) hi else .ok j
    | .err er => .err er
    | .oob => .oob
    | .abort => .abort
  else .ok j
termination_by hi - j

/-- "Advance the repeat pointers" (extensions.c:543-549). -/
def advanceRep (exts : Array Ext) (mx : List Nat) (nbF : Nat) (g : Nat) (rep : List Nat) : Res (List Nat) :=
  if g < nbF then
    match rdN rep g, rdN mx g with
    | .ok r, .ok m =>
      match skipToFrame exts g (r + 1) m with
      | .ok j => advanceRep exts mx nbF (g + 1) (rep.set g j)
      | .err er => .err er
      | .oob => .oob
      | .abort => .abort
    | _, _ => .oob
  else .ok rep
termination_by nbF - g

/-- Result of the repeat detection for one frame: `frame_repeat_idx`, `repeat_count`,
    `last_long_idx` (`none` = -1). -/
structure Det where
  rep : List Nat
  repeatCount : Nat
  lastLong : Option Nat
  deriving Repr

/-- Repeat detection loop for frame `f` (extensions.c:496-555). -/
def detectLoop (exts : Array Ext) (mx : List Nat) (nbF f : Nat) (i hi : Nat) (s : Det) : Res Det :=
  if i < hi then
    match rdE exts i with
    | .ok e =>
      if e.frame = f then
        match canRepeat exts mx s.rep nbF e (f + 1) with
        | .ok false => .ok s                                        -- `break` :517
        | .ok true =>
          match (if 32 ≤ e.id then (match rdN s.rep (nbF - 1) with
                                    | .ok v => Res.ok (some v)
                                    | .err er => .err er
                                    | .oob => .oob
                                    | .abort => .abort)
                 else .ok s.lastLong), advanceRep exts mx nbF (f + 1) s.rep with
          | .ok ll, .ok rep' =>
            detectLoop exts mx nbF f (i + 1) hi
              { rep := rep'.set f i, repeatCount := s.repeatCount + 1, lastLong := ll }
          | .abort, _ => .abort
          | _, .abort => .abort
          | .err er, _ => .err er
          | _, .err er => .err er
          | _, _ => .oob
        | .err er => .err er
        | .oob => .oob
        | .abort => .abort
      else detectLoop exts mx nbF f (i + 1) hi s
    | .err er => .err er
    | .oob => .oob
    | .abort => .abort
  else .ok s
termination_by hi - i

/-- Repeated payloads of frame `g` (extensions.c:598-607). -/
def repeatsOfFrame (c : GCfg) (g : Nat) (last : Bool) (lastLong : Option Nat) (j hi : Nat)
    (out : Array Nat) (written : Nat) : Res (Array Nat × Nat) :=
  if j < hi then
    match rdE c.exts j with
    | .ok x =>
      if x.frame = g then
        match writeExtPayload c out x (last && lastLong == some j) with
        | .ok out' => repeatsOfFrame c g last lastLong (j + 1) hi out' (written + 1)
        | .err er => .err er
        | .oob => .oob
        | .abort => .abort
      else repeatsOfFrame c g last lastLong (j + 1) hi out written
    | .err er => .err er
    | .oob => .oob
    | .abort => .abort
  else .ok (out, written)
termination_by hi - j

/-- `for (g=f+1; g<nb_frames; g++)` of the repeat emission (extensions.c:595-609). -/
def repeatsLoop (c : GCfg) (last : Bool) (lastLong : Option Nat) (g : Nat)
    (out : Array Nat) (s : GSt) : Res (Array Nat × GSt) :=
  if g < c.nbFrames then
    match rdN s.minIdx g, rdN s.repIdx g with
    | .ok lo, .ok hi =>
      match repeatsOfFrame c g last lastLong lo hi out s.written with
      | .ok (out', w') =>
        repeatsLoop c last lastLong (g + 1) out'
          { s with written := w', minIdx := s.minIdx.set g (max lo hi) }
      | .err er => .err er
      | .oob => .oob
      | .abort => .abort
    | _, _ => .oob
  else .ok (out, s)
termination_by c.nbFrames - g

/-- "Insert separator when needed" (extensions.c:561-576). -/
def writeSep (c : GCfg) (out : Array Nat) (f currFrame : Nat) : Res (Array Nat) :=
  if f ≠ currFrame then
    let diff : Int := (f : Int) - currFrame
    if c.len - out.size < 2 then .err .bufferTooSmall
    else if diff = 1 then .ok (out.push 2)
    else .ok ((out.push 3).push (diff % 256).toNat)
  else .ok out

/-- Emission loop for frame `f` (extensions.c:557-613). -/
def writeFrameLoop (c : GCfg) (f : Nat) (det : Det) (i hi : Nat) (out : Array Nat) (s : GSt) :
    Res (Array Nat × GSt) :=
  if i < hi then
    match rdE c.exts i with
    | .ok e =>
      if e.frame = f then
        match writeSep c out f s.currFrame with
        | .ok out1 =>
          match writeExt c out1 e ((s.written : Int) = (c.exts.size : Int) - 1) with
          | .ok out2 =>
            let s1 := { s with written := s.written + 1, currFrame := f }
            if 0 < det.repeatCount ∧ s.repIdx[f]? = some i then
              let nbRepeated := det.repeatCount * (c.nbFrames - (f + 1))
              let last : Bool := s1.written + nbRepeated = c.exts.size ∨ (det.lastLong = none ∧ hi ≤ i + 1)
              if c.len - out2.size < 1 then .err .bufferTooSmall
              else
                match repeatsLoop c last det.lastLong (f + 1) (out2.push (if last then 4 else 5)) s1 with
                | .ok (out3, s3) =>
                  writeFrameLoop c f det (i + 1) hi out3
                    { s3 with currFrame := if last then s3.currFrame + 1 else s3.currFrame }
                | .err er => .err er
                | .oob => .oob
                | .abort => .abort
            else writeFrameLoop c f det (i + 1) hi out2 s1
          | .err er => .err er
          | .oob => .oob
          | .abort => .abort
        | .err er => .err er
        | .oob => .oob
        | .abort => .abort
      else writeFrameLoop c f det (i + 1) hi out s
    | .err er => .err er
    | .oob => .oob
    | .abort => .abort
  else .ok (out, s)
termination_by hi - i

/-- The `for (f=0;f<nb_frames;f++)` loop (extensions.c:486-614). -/
def framesLoop (c : GCfg) (mx : List Nat) (f : Nat) (out : Array Nat) (s : GSt) : Res (Array Nat × GSt) :=
  if f < c.nbFrames then
    match rdN s.minIdx f, rdN mx f with
    | .ok lo, .ok hi =>
      let det0 : Det := { rep := s.repIdx, repeatCount := 0, lastLong := none }
      match (if f + 1 < c.nbFrames then detectLoop c.exts mx c.nbFrames f lo hi det0 else .ok det0) with
      | .ok det =>
        match writeFrameLoop c f det lo hi out { s with repIdx := det.rep } with
        | .ok (out', s') => framesLoop c mx (f + 1) out' s'
        | .err er => .err er
        | .oob => .oob
        | .abort => .abort
      | .err er => .err er
      | .oob => .oob
      | .abort => .abort
    | _, _ => .oob
  else .ok (out, s)
termination_by c.nbFrames - f

/-- `opus_packet_extensions_generate` (extensions.c:456-630).  Returns the bytes
    `data[0..ret)`; for a dry run (`data == NULL`) only their number is meaningful. -/
def generate (dry : Bool) (len : Int) (exts : Array Ext) (nbFrames : Int) (pad : Bool) : Res (Array Nat) :=
  if len < 0 then .abort                                     -- celt_assert(len >= 0)
  else if 48 < nbFrames then .err .badArg
  else
    let nbF := nbFrames.toNat
    match scanLoop exts nbFrames 0 (List.replicate nbF exts.size) (List.replicate nbF 0) with
    | .ok (mn, mx) =>
      let c : GCfg := { len, dry, exts, nbFrames := nbF }
      match framesLoop c mx 0 #[] { written := 0, currFrame := 0, minIdx := mn, repIdx := mn } with
      | .ok (out, s) =>
        if s.written ≠ exts.size then .abort                 -- celt_assert(written == nb_extensions)
        else if pad ∧ (out.size : Int) < len then
          .ok (Array.replicate (len - out.size).toNat 1 ++ out)
        else .ok out
      | .err er => .err er
      | .oob => .oob
      | .abort => .abort
    | .err er => .err er
    | .oob => .oob
    | .abort => .abort

/-- Dry run: `opus_packet_extensions_generate(NULL, len, …)` returns the size. -/
def generateDry (len : Int) (exts : Array Ext) (nbFrames : Int) (pad : Bool) : Res Nat :=
  match generate true len exts nbFrames pad with
  | .ok out => .ok out.size
  | .err er => .err er
  | .oob => .oob
  | .abort => .abort

end Opus.Ext
