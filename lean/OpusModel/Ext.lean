import OpusModel.Basic
/-
  OpusModel.Ext — transcription of src/extensions.c (packet extensions in the
  padding area of a code-3 packet).

  Conventions.
  * The padding area is a byte array `d` (`Array Nat`, for O(1) reads in the compiled
    driver; the API functions take `Bytes`); C pointers into it are offsets (`Nat`).
    `last_long` may be NULL: `Option Nat`.  `src_data` is NULL only while
    `src_len = 0` (it is never dereferenced then); it is modelled as an offset.
  * C `opus_int32` lengths (`len`, `curr_len`, …) are `Int`; `-1` results of the
    two skip functions are `none`.
  * A read of a byte that is not inside `d` gives `.oob`; a reachable
    `celt_assert` that fails gives `.abort` (ENABLE_HARDENING build).
  * `opus_extension_iterator_next` is recursive in C (extensions.c:271) and has a
    `for`/`while` nest; here it is split into `repeatPhase` (lines 164-224) and
    `mainLoop` (lines 230-293), both defined by well-founded recursion
    (no fuel).  The loops over `next` (`count`, `parse`, …) terminate by the
    measure `Iter.mu`, shown to decrease in `next_decreases`.
-/
set_option linter.unusedVariables false
namespace Opus.Ext
open Opus

/-- Result of `skip_extension(_payload)`: `none` = `-1`, else
    `(new data offset, remaining len, header_size)`. -/
abbrev Skip := Option (Nat × Int × Nat)

/-- The lacing loop of a long extension with `L=1` (extensions.c:74-81).
    Returns `(data offset after the length bytes, len, bytes, header_size)`. -/
def lacing (d : Array Nat) (p : Nat) (len : Int) (bytes hs : Nat) :
    Res (Option (Nat × Int × Nat × Nat)) :=
  if len < 1 then .ok none
  else match d[p]? with
    | none => .oob
    | some l =>
      if l = 255 then lacing d (p + 1) (len - 256) (bytes + 255) (hs + 1)
      else .ok (some (p + 1, len - (l + 1), bytes + l, hs + 1))
termination_by len.toNat
decreasing_by omega

/-- `skip_extension_payload` (extensions.c:45-90). -/
def skipPayload (d : Array Nat) (p : Nat) (len : Int) (idByte : Nat) (tsl : Int) : Res Skip :=
  let id := idByte / 2
  let l := idByte % 2
  if (id = 0 ∧ l = 1) ∨ id = 2 then .ok (some (p, len, 0))
  else if 0 < id ∧ id < 32 then
    if len < l then .ok none else .ok (some (p + l, len - l, 0))
  else if l = 0 then
    if len < tsl then .ok none else .ok (some (p + (len - tsl).toNat, tsl, 0))
  else
    match lacing d p len 0 0 with
    | .ok none => .ok none
    | .ok (some (p', len', bytes, hs)) =>
      if len' < 0 then .ok none else .ok (some (p' + bytes, len', hs))
    | .err e => .err e
    | .oob => .oob
    | .abort => .abort

/-- `skip_extension` (extensions.c:98-118). -/
def skipExtension (d : Array Nat) (p : Nat) (len : Int) : Res Skip :=
  if len = 0 then .ok (some (p, 0, 0))
  else if len < 1 then .ok none
  else match d[p]? with
    | none => .oob
    | some b =>
      match skipPayload d (p + 1) (len - 1) b 0 with
      | .ok none => .ok none
      | .ok (some (p', len', hs)) => .ok (some (p', len', hs + 1))
      | .err e => .err e
      | .oob => .oob
      | .abort => .abort

/-! ### Facts about the skip functions needed for the termination arguments -/

theorem lacing_spec (d : Array Nat) (p : Nat) (len : Int) (bytes hs : Nat) :
    ∀ {p' : Nat} {len' : Int} {bytes' hs' : Nat},
    lacing d p len bytes hs = .ok (some (p', len', bytes', hs')) →
    len' < len ∧ (p' : Int) + bytes' + len' = p + bytes + len ∧ hs < hs' ∧
      (p' : Int) - p = (hs' : Int) - hs ∧ bytes ≤ bytes' := by
  fun_induction lacing d p len bytes hs with
  | case1 => intro _ _ _ _ h; simp at h
  | case2 => intro _ _ _ _ h; simp at h
  | case3 p len bytes hs hlt hsome ih => intro _ _ _ _ h; have := ih h; omega
  | case4 p len bytes hs hlt l hsome hne => intro _ _ _ _ h; simp at h; omega

theorem skipPayload_spec {d : Array Nat} {p : Nat} {len : Int} {idByte : Nat} {tsl : Int}
    {p' : Nat} {len' : Int} {hs : Nat}
    (h : skipPayload d p len idByte tsl = .ok (some (p', len', hs))) :
    len' ≤ len ∧ (0 ≤ len → 0 ≤ tsl → 0 ≤ len') ∧ ((p' : Int) + len' = p + len) ∧ p + hs ≤ p' := by
  unfold skipPayload at h
  simp only at h
  split at h
  · simp at h; omega
  · split at h
    · split at h
      · simp at h
      · simp at h; omega
    · split at h
      · split at h
        · simp at h
        · simp at h; omega
      · split at h
        · simp at h
        · rename_i p1 l1 b1 h1 heq
          have := lacing_spec _ _ _ _ _ heq
          split at h
          · simp at h
          · simp at h; omega
        all_goals simp at h

theorem skipExtension_spec {d : Array Nat} {p : Nat} {len : Int}
    {p' : Nat} {len' : Int} {hs : Nat}
    (h : skipExtension d p len = .ok (some (p', len', hs))) :
    0 ≤ len' ∧ (0 < len → len' < len) ∧ ((p' : Int) + len' = p + len) ∧ p + hs ≤ p' := by
  unfold skipExtension at h
  split at h
  · simp at h; omega
  · split at h
    · simp at h
    · split at h
      · simp at h
      · split at h
        · simp at h
        · rename_i heq
          have := skipPayload_spec heq
          simp at h; omega
        all_goals simp at h

/-! ### The iterator -/

/-- `OpusExtensionIterator` (opus_private.h:50-66); pointers are offsets into `data`. -/
structure Iter where
  data : Array Nat
  len : Int
  currData : Nat
  repeatData : Nat
  lastLong : Option Nat
  srcData : Nat
  currLen : Int
  repeatLen : Int
  srcLen : Int
  tsl : Int            -- trailing_short_len
  nbFrames : Nat
  frameMax : Int
  currFrame : Nat
  repeatFrame : Nat
  repeatL : Nat
  deriving Repr, DecidableEq

/-- An extension as reported by the iterator: `off = ext->data - iter->data`. -/
structure ExtRef where
  id : Nat
  frame : Nat
  off : Nat
  len : Int
  deriving Repr, DecidableEq

/-- Return value of `opus_extension_iterator_next`: `1` with an extension, `0`, or
    `OPUS_INVALID_PACKET`. -/
inductive Step where
  | ext (e : ExtRef)
  | done
  | invalid
  deriving Repr, DecidableEq

/-- `opus_extension_iterator_init` (extensions.c:120-133).  Only the first `len`
    bytes of `d` belong to the iterator. -/
def iterInit (d : Bytes) (len : Int) (nbFrames : Int) : Res Iter :=
  if len < 0 then .abort
  else if nbFrames < 0 ∨ nbFrames > 48 then .abort
  else .ok { data := (d.take len.toNat).toArray, len := len, currData := 0, repeatData := 0, lastLong := none,
             srcData := 0, currLen := len, repeatLen := 0, srcLen := 0, tsl := 0,
             nbFrames := nbFrames.toNat, frameMax := nbFrames, currFrame := 0, repeatFrame := 0,
             repeatL := 0 }

/-- `opus_extension_iterator_reset` (extensions.c:137-143). -/
def iterReset (it : Iter) : Iter :=
  { it with repeatData := 0, currData := 0, lastLong := none, currLen := it.len,
            repeatFrame := 0, currFrame := 0, tsl := 0 }

/-- `opus_extension_iterator_set_frame_max` (extensions.c:149-152). -/
def iterSetFrameMax (it : Iter) (frameMax : Int) : Iter := { it with frameMax := frameMax }

/-- Outcome of one pass through the body of `while (iter->src_len > 0)`:
    `cont` = `continue` (next iteration), `ret` = `return` from `next`. -/
inductive RFlow where
  | cont (it : Iter)
  | ret (it : Iter) (s : Step)

/-- Body of `while (iter->src_len > 0)` inside the repeat block
    (extensions.c:168-205); entered with `src_len > 0`. -/
def repeatBody (it : Iter) : Res RFlow :=
  match it.data[it.srcData]? with                                 -- repeat_id_byte = *iter->src_data  :170
  | none => .oob
  | some rb =>
    match skipExtension it.data it.srcData it.srcLen with
    | .ok none => .abort                                          -- celt_assert(iter->src_len >= 0)  :174
    | .ok (some (sp, sl, _)) =>
      let it1 := { it with srcData := sp, srcLen := sl }
      if rb ≤ 3 then .ok (.cont it1)                              -- `continue` :176
      else
        let rb' := if it.repeatL = 0 ∧ it.repeatFrame + 1 ≥ it.nbFrames ∧ some sp = it.lastLong
                   then rb - rb % 2 else rb                       -- repeat_id_byte &= ~1  :183
        match skipPayload it.data it.currData it.currLen rb' it.tsl with
        | .ok none => .ok (.ret { it1 with currLen := -1 } .invalid)
        | .ok (some (cp, cl, hs)) =>
          let it2 := { it1 with currData := cp, currLen := cl }
          if (cp : Int) ≠ it.len - cl then .abort                 -- celt_assert :192
          else if it.frameMax ≤ it.repeatFrame then .ok (.cont it2)   -- `continue` :197
          else .ok (.ret it2 (.ext { id := rb' / 2, frame := it.repeatFrame,
                                     off := it.currData + hs,
                                     len := (cp : Int) - it.currData - hs }))
        | .err e => .err e
        | .oob => .oob
        | .abort => .abort
    | .err e => .err e
    | .oob => .oob
    | .abort => .abort

/-- One pass through the body consumes source bytes and never gives back packet bytes. -/
theorem repeatBody_cont {it it1 : Iter} (h : repeatBody it = .ok (.cont it1)) (hs : 0 < it.srcLen) :
    it1.nbFrames = it.nbFrames ∧ it1.repeatFrame = it.repeatFrame ∧
    it1.srcLen.toNat < it.srcLen.toNat ∧ it1.currLen.toNat ≤ it.currLen.toNat := by
  unfold repeatBody at h
  split at h
  · simp at h
  · split at h
    · simp at h
    · rename_i hsk
      have h1 := skipExtension_spec hsk
      simp only at h
      split at h
      · simp only [Res.ok.injEq, RFlow.cont.injEq] at h; subst h; simp; omega
      · split at h
        · simp at h
        · rename_i hsp
          have h2 := skipPayload_spec hsp
          split at h
          · simp at h
          · split at h
            · simp only [Res.ok.injEq, RFlow.cont.injEq] at h; subst h; simp; omega
            · simp at h
        all_goals simp at h
    all_goals simp at h

theorem repeatBody_ret {it it1 : Iter} {s : Step} (h : repeatBody it = .ok (.ret it1 s)) (hs : 0 < it.srcLen) :
    it1.nbFrames = it.nbFrames ∧ it1.repeatFrame = it.repeatFrame ∧
    it1.srcLen.toNat < it.srcLen.toNat ∧ it1.currLen.toNat ≤ it.currLen.toNat := by
  unfold repeatBody at h
  split at h
  · simp at h
  · split at h
    · simp at h
    · rename_i hsk
      have h1 := skipExtension_spec hsk
      simp only at h
      split at h
      · simp at h
      · split at h
        · simp only [Res.ok.injEq, RFlow.ret.injEq] at h; obtain ⟨rfl, _⟩ := h; simp; omega
        · rename_i hsp
          have h2 := skipPayload_spec hsp
          split at h
          · simp at h
          · split at h
            · simp at h
            · simp only [Res.ok.injEq, RFlow.ret.injEq] at h; obtain ⟨rfl, _⟩ := h; simp; omega
        all_goals simp at h
    all_goals simp at h

/-- "We finished repeating extensions" (extensions.c:211-223). -/
def repeatEnd (it : Iter) : Iter :=
  let it1 := { it with repeatData := it.currData, lastLong := none }
  let it2 := if it.repeatL = 0 then
      let cf := it.currFrame + 1
      { it1 with currFrame := cf, currLen := if cf ≥ it.nbFrames then 0 else it1.currLen }
    else it1
  { it2 with repeatFrame := 0 }

/-- The "we are in the process of repeating some extensions" block of
    `opus_extension_iterator_next` (extensions.c:164-224), entered with
    `repeat_frame > 0`.  `some step` = the function returned from inside the block,
    `none` = the block ran to its end (`repeat_frame = 0` again). -/
def repeatPhase (it : Iter) : Res (Iter × Option Step) :=
  if it.repeatFrame < it.nbFrames then
    if 0 < it.srcLen then
      match h : repeatBody it with
      | .ok (.cont it1) => repeatPhase it1
      | .ok (.ret it1 s) => .ok (it1, some s)
      | .err e => .err e
      | .oob => .oob
      | .abort => .abort
    else
      -- "We finished repeating the extensions for this frame."  :207-209
      repeatPhase { it with srcData := it.repeatData, srcLen := it.repeatLen,
                            repeatFrame := it.repeatFrame + 1 }
  else .ok (repeatEnd it, none)
termination_by (it.nbFrames - it.repeatFrame, it.srcLen.toNat)
decreasing_by
  · simp_wf
    have := repeatBody_cont h (by assumption)
    rw [this.1, this.2.1]; right; exact this.2.2.1
  · simp_wf; left; omega

theorem repeatEnd_currLen_le (it : Iter) : (repeatEnd it).currLen.toNat ≤ it.currLen.toNat := by
  unfold repeatEnd
  simp only
  split
  · split <;> simp
  · simp

theorem repeatPhase_currLen_le (it : Iter) : ∀ (it' : Iter) (s : Option Step),
    repeatPhase it = .ok (it', s) → it'.currLen.toNat ≤ it.currLen.toNat := by
  fun_induction repeatPhase it with
  | case1 it hrf hsl it1 hb ih =>
    intro it' s h; have := ih _ _ h; have := repeatBody_cont hb hsl; omega
  | case2 it hrf hsl it1 s1 hb =>
    intro it' s h
    simp only [Res.ok.injEq, Prod.mk.injEq] at h; obtain ⟨rfl, _⟩ := h
    exact (repeatBody_ret hb hsl).2.2.2
  | case3 => intro _ _ h; simp at h
  | case4 => intro _ _ h; simp at h
  | case5 => intro _ _ h; simp at h
  | case6 it hrf hsl ih => intro it' s h; exact ih _ _ h
  | case7 it hrf =>
    intro it' s h
    simp only [Res.ok.injEq, Prod.mk.injEq] at h; obtain ⟨rfl, _⟩ := h
    exact repeatEnd_currLen_le it

/-- Outcome of one pass through the body of `while (iter->curr_len > 0)`:
    `cont` = next iteration, `ret` = `return`, `rep` = the recursive call of line 271 with
    `repeat_frame = curr_frame+1 > 0`. -/
inductive MFlow where
  | cont (it : Iter)
  | ret (it : Iter) (s : Step)
  | rep (it : Iter)

/-- Body of the main `while (iter->curr_len > 0)` loop (extensions.c:231-291);
    entered with `curr_len > 0`. -/
def mainBody (it : Iter) : Res MFlow :=
  match it.data[it.currData]? with
  | none => .oob
  | some b0 =>
    let id := b0 / 2
    let l := b0 % 2
    match skipExtension it.data it.currData it.currLen with
    | .ok none => .ok (.ret { it with currLen := -1 } .invalid)
    | .ok (some (cp, cl, hs)) =>
      let it1 := { it with currData := cp, currLen := cl }
      if (cp : Int) ≠ it.len - cl then .abort                  -- celt_assert :242
      else if id = 1 then
        if l = 1 ∧ it.data[it.currData + 1]? = none then .oob   -- curr_data0[1]
        else
          let inc := if l = 0 then 1 else (it.data[it.currData + 1]?).getD 0
          if inc = 0 then .ok (.cont it1)                       -- `continue` :249
          else
            let cf := it.currFrame + inc
            if it.nbFrames ≤ cf then .ok (.ret { it1 with currFrame := cf, currLen := -1 } .invalid)
            else .ok (.cont { it1 with currFrame := cf,
                                       currLen := if it.frameMax ≤ cf then 0 else cl,
                                       repeatData := cp, lastLong := none, tsl := 0 })
      else if id = 2 then
        .ok (.rep { it1 with repeatL := l, repeatFrame := it.currFrame + 1,
                             repeatLen := (it.currData : Int) - it.repeatData,
                             srcData := it.repeatData,
                             srcLen := (it.currData : Int) - it.repeatData })
      else if 2 < id then
        let it2 := if 32 ≤ id then { it1 with lastLong := some cp, tsl := 0 }
                   else { it1 with tsl := it.tsl + l }
        .ok (.ret it2 (.ext { id := id, frame := it.currFrame, off := it.currData + hs,
                              len := (cp : Int) - it.currData - hs }))
      else .ok (.cont it1)
    | .err e => .err e
    | .oob => .oob
    | .abort => .abort

/-- Every pass through the main body that does not fail consumes at least one packet byte. -/
theorem mainBody_dec {it : Iter} (hl : 0 < it.currLen) :
    (∀ it1, mainBody it = .ok (.cont it1) → it1.currLen.toNat < it.currLen.toNat) ∧
    (∀ it1, mainBody it = .ok (.rep it1) → it1.currLen.toNat < it.currLen.toNat) ∧
    (∀ it1 e, mainBody it = .ok (.ret it1 (.ext e)) → it1.currLen.toNat < it.currLen.toNat) := by
  unfold mainBody
  split
  · simp
  · split
    · simp
    · rename_i hsk
      have h1 := skipExtension_spec hsk
      have h2 := h1.2.1 hl
      simp only
      refine ⟨?_, ?_, ?_⟩
      · intro it1 h
        repeat' (split at h)
        all_goals (simp only [Res.ok.injEq, MFlow.cont.injEq, reduceCtorEq] at h)
        all_goals (subst h; simp only; try split)
        all_goals omega
      · intro it1 h
        repeat' (split at h)
        all_goals (simp only [Res.ok.injEq, MFlow.rep.injEq, reduceCtorEq] at h)
        all_goals (subst h; simp only; omega)
      · intro it1 e h
        repeat' (split at h)
        all_goals (simp only [Res.ok.injEq, MFlow.ret.injEq, reduceCtorEq, and_false] at h)
        all_goals (obtain ⟨rfl, _⟩ := h; simp only; omega)
    all_goals simp

/-- The main `while (iter->curr_len > 0)` loop of `opus_extension_iterator_next`
    (extensions.c:230-293).  The recursive call at line 271 (`id == 2`) is unfolded:
    it cannot take the `curr_len < 0` exit, enters the repeat block
    (`repeat_frame = curr_frame+1 > 0`), then re-tests `frame_max` (line 227). -/
def mainLoop (it : Iter) : Res (Iter × Step) :=
  if 0 < it.currLen then
    match h : mainBody it with
    | .ok (.cont it1) => mainLoop it1
    | .ok (.ret it1 s) => .ok (it1, s)
    | .ok (.rep it2) =>
      match hrp : repeatPhase it2 with
      | .ok (it3, some s) => .ok (it3, s)
      | .ok (it3, none) =>
        if it3.frameMax ≤ it3.currFrame then .ok (it3, .done) else mainLoop it3
      | .err e => .err e
      | .oob => .oob
      | .abort => .abort
    | .err e => .err e
    | .oob => .oob
    | .abort => .abort
  else .ok (it, .done)
termination_by it.currLen.toNat
decreasing_by
  · exact (mainBody_dec (by assumption)).1 _ h
  · have h1 := (mainBody_dec (by assumption)).2.1 _ h
    have h2 := repeatPhase_currLen_le _ _ _ hrp
    omega

/-- `opus_extension_iterator_next` (extensions.c:158-294). -/
def next (it : Iter) : Res (Iter × Step) :=
  if it.currLen < 0 then .ok (it, .invalid)
  else if 0 < it.repeatFrame then
    match repeatPhase it with
    | .ok (it', some s) => .ok (it', s)
    | .ok (it', none) =>
      if it'.frameMax ≤ it'.currFrame then .ok (it', .done) else mainLoop it'
    | .err e => .err e
    | .oob => .oob
    | .abort => .abort
  else if it.frameMax ≤ it.currFrame then .ok (it, .done)
  else mainLoop it

/-! ### Termination measure for loops over `next` -/

/-- Lexicographic measure: remaining bytes, remaining repeat frames, remaining source bytes. -/
def Iter.mu (it : Iter) : Nat × Nat × Nat :=
  (it.currLen.toNat, if 0 < it.repeatFrame then it.nbFrames - it.repeatFrame + 1 else 0, it.srcLen.toNat)

theorem repeatPhase_ext (it : Iter) : ∀ (it' : Iter) (e : ExtRef),
    repeatPhase it = .ok (it', some (.ext e)) →
    it'.currLen.toNat ≤ it.currLen.toNat ∧ it'.nbFrames = it.nbFrames ∧
    it.repeatFrame ≤ it'.repeatFrame ∧ it'.repeatFrame < it'.nbFrames ∧
    (it.repeatFrame < it'.repeatFrame ∨ it'.srcLen.toNat < it.srcLen.toNat) := by
  fun_induction repeatPhase it with
  | case1 it hrf hsl it1 hb ih =>
    intro it' s h; have := ih _ _ h; have := repeatBody_cont hb hsl; omega
  | case2 it hrf hsl it1 s1 hb =>
    intro it' s h
    simp only [Res.ok.injEq, Prod.mk.injEq] at h; obtain ⟨rfl, _⟩ := h
    have := repeatBody_ret hb hsl; omega
  | case3 => intro _ _ h; simp at h
  | case4 => intro _ _ h; simp at h
  | case5 => intro _ _ h; simp at h
  | case6 it hrf hsl ih => intro it' s h; have := ih _ _ h; simp at this; omega
  | case7 it hrf => intro it' s h; simp at h

theorem mainLoop_ext (it : Iter) : ∀ (it' : Iter) (e : ExtRef),
    mainLoop it = .ok (it', .ext e) → it'.currLen.toNat < it.currLen.toNat := by
  fun_induction mainLoop it with
  | case1 it hl it1 hb ih =>
    intro it' e h; have := ih _ _ h; have := (mainBody_dec hl).1 _ hb; omega
  | case2 it hl it1 s hb =>
    intro it' e h
    simp only [Res.ok.injEq, Prod.mk.injEq] at h; obtain ⟨rfl, rfl⟩ := h
    exact (mainBody_dec hl).2.2 _ _ hb
  | case3 it hl it2 hb it3 s hrp =>
    intro it' e h
    simp only [Res.ok.injEq, Prod.mk.injEq] at h; obtain ⟨rfl, rfl⟩ := h
    have h1 := (mainBody_dec hl).2.1 _ hb
    have h2 := repeatPhase_currLen_le _ _ _ hrp
    omega
  | case4 it hl it2 hb it3 hrp hfm => intro it' e h; simp at h
  | case5 it hl it2 hb it3 hrp hfm ih =>
    intro it' e h
    have := ih _ _ h
    have h1 := (mainBody_dec hl).2.1 _ hb
    have h2 := repeatPhase_currLen_le _ _ _ hrp
    omega
  | case6 => intro _ _ h; simp at h
  | case7 => intro _ _ h; simp at h
  | case8 => intro _ _ h; simp at h
  | case9 => intro _ _ h; simp at h
  | case10 => intro _ _ h; simp at h
  | case11 => intro _ _ h; simp at h
  | case12 => intro _ _ h; simp at h

theorem next_decreases {it it' : Iter} {e : ExtRef} (h : next it = .ok (it', .ext e)) :
    Prod.Lex (· < ·) (Prod.Lex (· < ·) (· < ·)) it'.mu it.mu := by
  unfold next at h
  split at h
  · simp at h
  · split at h
    · rename_i hrf
      split at h
      · rename_i it1 s heq
        simp only [Res.ok.injEq, Prod.mk.injEq] at h
        obtain ⟨rfl, rfl⟩ := h
        have := repeatPhase_ext _ _ _ heq
        unfold Iter.mu
        by_cases hlt : it1.currLen.toNat < it.currLen.toNat
        · exact Prod.Lex.left _ _ hlt
        · have heq1 : it1.currLen.toNat = it.currLen.toNat := by omega
          rw [heq1]
          apply Prod.Lex.right
          have h1 : 0 < it1.repeatFrame := by omega
          simp only [h1, hrf, if_true]
          by_cases hlt2 : it.repeatFrame < it1.repeatFrame
          · apply Prod.Lex.left; omega
          · have heq2 : it1.repeatFrame = it.repeatFrame := by omega
            rw [heq2, this.2.1]
            apply Prod.Lex.right; omega
      · rename_i it1 heq
        have h1 := repeatPhase_currLen_le _ _ _ heq
        split at h
        · simp at h
        · have h2 := mainLoop_ext _ _ _ h
          exact Prod.Lex.left _ _ (by simp; omega)
      all_goals simp at h
    · split at h
      · simp at h
      · have h2 := mainLoop_ext _ _ _ h
        exact Prod.Lex.left _ _ (by simp; omega)

/-! ### Loops over the iterator -/

/-- `opus_extension_iterator_find` (extensions.c:296-310). -/
def find (it : Iter) (id : Int) : Res (Iter × Step) :=
  match h : next it with
  | .ok (it', .ext e) => if (e.id : Int) = id then .ok (it', .ext e) else find it' id
  | .ok (it', s) => .ok (it', s)
  | .err e => .err e
  | .oob => .oob
  | .abort => .abort
termination_by it.mu
decreasing_by exact next_decreases h

/-- The `for` loop of `opus_packet_extensions_count` (extensions.c:320). -/
def countLoop (it : Iter) (n : Nat) : Res Nat :=
  match h : next it with
  | .ok (it', .ext _) => countLoop it' (n + 1)
  | .ok (_, _) => .ok n
  | .err e => .err e
  | .oob => .oob
  | .abort => .abort
termination_by it.mu
decreasing_by exact next_decreases h

/-- `opus_packet_extensions_count` (extensions.c:314-322). -/
def count (d : Bytes) (len : Int) (nbFrames : Int) : Res Nat :=
  match iterInit d len nbFrames with
  | .ok it => countLoop it 0
  | .err e => .err e
  | .oob => .oob
  | .abort => .abort

/-- The loop of `opus_packet_extensions_count_ext` (extensions.c:333-335);
    `cnt` is `nb_frame_exts[0..nb_frames)`. -/
def countExtLoop (it : Iter) (n : Nat) (cnt : List Nat) : Res (Nat × List Nat) :=
  match h : next it with
  | .ok (it', .ext e) =>
    match cnt[e.frame]? with
    | none => .oob                                   -- nb_frame_exts[ext.frame]++ outside the array
    | some c => countExtLoop it' (n + 1) (cnt.set e.frame (c + 1))
  | .ok (_, _) => .ok (n, cnt)
  | .err e => .err e
  | .oob => .oob
  | .abort => .abort
termination_by it.mu
decreasing_by exact next_decreases h

/-- `opus_packet_extensions_count_ext` (extensions.c:326-337). -/
def countExt (d : Bytes) (len : Int) (nbFrames : Int) : Res (Nat × List Nat) :=
  match iterInit d len nbFrames with
  | .ok it => countExtLoop it 0 (List.replicate it.nbFrames 0)
  | .err e => .err e
  | .oob => .oob
  | .abort => .abort

/-- The loop of `opus_packet_extensions_parse` (extensions.c:353-361); `cap` is the
    caller's `*nb_extensions`. -/
def parseLoop (it : Iter) (cap : Int) (acc : Array ExtRef) : Res (Array ExtRef) :=
  match h : next it with
  | .ok (it', .ext e) =>
    if (acc.size : Int) = cap then .err .bufferTooSmall else parseLoop it' cap (acc.push e)
  | .ok (_, .done) => .ok acc
  | .ok (_, .invalid) => .err .invalidPacket
  | .err e => .err e
  | .oob => .oob
  | .abort => .abort
termination_by it.mu
decreasing_by exact next_decreases h

/-- `opus_packet_extensions_parse` (extensions.c:344-364) with `extensions != NULL`.
    On success the list has `*nb_extensions` entries, in bitstream order. -/
def parse (d : Bytes) (len : Int) (cap : Int) (nbFrames : Int) : Res (List ExtRef) :=
  match iterInit d len nbFrames with
  | .ok it =>
    match parseLoop it cap #[] with
    | .ok a => .ok a.toList
    | .err e => .err e
    | .oob => .oob
    | .abort => .abort
  | .err e => .err e
  | .oob => .oob
  | .abort => .abort

/-- Cumulative sums `nb_frames_cum[0..nb_frames]` (extensions.c:384-391). -/
def cumCounts : List Int → Int → List Int
  | [], prev => [prev]
  | c :: cs, prev => prev :: cumCounts cs (c + prev)

/-- The loop of `opus_packet_extensions_parse_ext` (extensions.c:393-403).  `out` is the
    caller's `extensions[0..cap)` (unset entries `none`). -/
def parseExtLoop (it : Iter) (cap : Int) (cum : List Int) (out : Array (Option ExtRef)) (n : Nat) :
    Res (Array (Option ExtRef) × Nat) :=
  match h : next it with
  | .ok (it', .ext e) =>
    match cum[e.frame]?, cum[e.frame + 1]? with
    | some idx, some nxt =>
      if cap ≤ idx then .err .bufferTooSmall
      else if ¬ idx + 1 ≤ nxt then .abort            -- celt_assert(idx < nb_frames_cum[ext.frame+1]) :401
      else if idx < 0 then .oob
      else parseExtLoop it' cap (cum.set e.frame (idx + 1)) (out.setIfInBounds idx.toNat (some e)) (n + 1)
    | _, _ => .oob
  | .ok (_, .done) => .ok (out, n)
  | .ok (_, .invalid) => .err .invalidPacket
  | .err e => .err e
  | .oob => .oob
  | .abort => .abort
termination_by it.mu
decreasing_by exact next_decreases h

/-- `opus_packet_extensions_parse_ext` (extensions.c:371-406).  Returns the first
    `*nb_extensions` entries of the caller's array (frame order). -/
def parseExt (d : Bytes) (len : Int) (cap : Int) (nbFrameExts : List Int) (nbFrames : Int) :
    Res (List (Option ExtRef)) :=
  if nbFrames > 48 then .abort
  else if nbFrameExts.length ≠ nbFrames.toNat then .oob
  else
    match iterInit d len nbFrames with
    | .ok it =>
      match parseExtLoop it cap (cumCounts nbFrameExts 0) (Array.replicate cap.toNat none) 0 with
      | .ok (a, n) => .ok (a.toList.take n)
      | .err e => .err e
      | .oob => .oob
      | .abort => .abort
    | .err e => .err e
    | .oob => .oob
    | .abort => .abort

/-! ### Generation -/

/-- `opus_extension_data` as an input of the generator: `data` holds the bytes at
    `ext->data` (at least `len` of them are needed when they are copied). -/
structure Ext where
  id : Int
  frame : Int
  data : Bytes
  len : Int
  deriving Repr, DecidableEq

/-- Payload of an extension reported by the iterator, as generator input. -/
def ExtRef.toExt (d : Bytes) (e : ExtRef) : Ext :=
  { id := e.id, frame := e.frame, data := (d.drop e.off).take e.len.toNat, len := e.len }

/-! The generator is modelled in two layers.  `genOps` walks the C control flow of
    `opus_packet_extensions_generate` and emits, in program order, the buffer actions the C code
    performs (`Op`): every `if (len-pos < k) return OPUS_BUFFER_TOO_SMALL` as `need k`, every
    `if (data) data[pos] = b; pos++` as `put b`, every payload copy as `copy`.  Nothing else in the
    function depends on `len`, `pos` or the bytes written, so the action sequence is a function of
    the extension list and `nb_frames` only.  `runOps` executes the actions against a buffer of
    `len` bytes (`data == NULL`: dry run).  A return other than BUFFER_TOO_SMALL (`BAD_ARG`, a failed
    assertion, a read outside the caller's arrays) ends the action sequence (`W.res`). -/

/-- One buffer action of the generator. -/
inductive Op where
  | need (k : Int)                 -- `if (len-pos < k) return OPUS_BUFFER_TOO_SMALL;`
  | put (b : Nat)                  -- `if (data) data[pos] = b;  pos++;`
  | copy (src : Bytes) (n : Nat)   -- `if (data) OPUS_COPY(&data[pos], src, n);  pos += n;`
  deriving Repr, DecidableEq

/-- Buffer actions emitted so far, and the value (or early return) of the computation. -/
structure W (α : Type) where
  ops : List Op
  res : Res α

def W.bind {α β : Type} (x : W α) (f : α → W β) : W β :=
  match x.res with
  | .ok a => let y := f a; { ops := x.ops ++ y.ops, res := y.res }
  | .err e => { ops := x.ops, res := .err e }
  | .oob => { ops := x.ops, res := .oob }
  | .abort => { ops := x.ops, res := .abort }

instance : Monad W where
  pure a := { ops := [], res := .ok a }
  bind := W.bind

/-- Emit buffer actions. -/
def W.emit (l : List Op) : W Unit := { ops := l, res := .ok () }
/-- A step that touches no buffer (array read, argument check, assertion). -/
def W.lift {α : Type} (r : Res α) : W α := { ops := [], res := r }

/-- Execute one action at `pos = out.size` in a buffer of `len` bytes (`dry`: `data == NULL`;
    zeros stand in for the bytes that a dry run does not write, so that `pos = out.size` in both modes). -/
def runOp (dry : Bool) (len : Int) (out : Array Nat) : Op → Res (Array Nat)
  | .need k => if len - out.size < k then .err .bufferTooSmall else .ok out
  | .put b => .ok (out.push (if dry then 0 else b))
  | .copy src n =>
    if dry then .ok (out ++ Array.replicate n 0)
    else if src.length < n then .oob          -- the caller's `ext->data` holds fewer than `n` bytes
    else .ok (out ++ (src.take n).toArray)

/-- Execute a sequence of actions. -/
def runOps (dry : Bool) (len : Int) : List Op → Array Nat → Res (Array Nat)
  | [], out => .ok out
  | op :: ops, out =>
    match runOp dry len out op with
    | .ok out' => runOps dry len ops out'
    | .err e => .err e
    | .oob => .oob
    | .abort => .abort

/-- Mutable locals of `opus_packet_extensions_generate` other than `pos`. -/
structure GSt where
  written : Nat
  currFrame : Nat
  minIdx : List Nat
  repIdx : List Nat
  deriving Repr

def rdN (l : List Nat) (i : Nat) : Res Nat :=
  match l[i]? with
  | some v => .ok v
  | none => .oob

def rdE (a : Array Ext) (i : Nat) : Res Ext :=
  match a[i]? with
  | some v => .ok v
  | none => .oob

/-- `write_extension_payload` (extensions.c:408-444). -/
def wPayload (e : Ext) (last : Bool) : W Unit :=
  if ¬ (3 ≤ e.id ∧ e.id ≤ 127) then W.lift .abort                 -- celt_assert :410
  else if e.id < 32 then
    if e.len < 0 ∨ e.len > 1 then W.lift (.err .badArg)
    else if e.len > 0 then W.emit [.need e.len, .copy e.data 1]     -- data[pos] = ext->data[0]
    else pure ()
  else
    if e.len < 0 then W.lift (.err .badArg)
    else
      let lengthBytes : Int := if last then 0 else 1 + e.len / 255
      W.emit ([.need (lengthBytes + e.len)]
        ++ (if last then []
            else List.replicate (e.len / 255).toNat (.put 255) ++ [.put (e.len % 255).toNat])
        ++ [.copy e.data e.len.toNat])

/-- `write_extension` (extensions.c:446-454). -/
def wExt (e : Ext) (last : Bool) : W Unit := do
  W.emit [.need 1]
  if ¬ (3 ≤ e.id ∧ e.id ≤ 127) then W.lift .abort                  -- celt_assert :450
  else
    let b : Int := e.id * 2 + (if e.id < 32 then e.len else if last then 0 else 1)
    W.emit [.put (b % 256).toNat]
    wPayload e last

/-- First loop nest of the generator (extensions.c:475-484): validation and
    `frame_min_idx` / `frame_max_idx`. -/
def scanLoop (exts : Array Ext) (nbFrames : Int) (i : Nat) (mn mx : List Nat) : Res (List Nat × List Nat) :=
  if i < exts.size then
    match exts[i]? with
    | none => .oob
    | some e =>
      if e.frame < 0 ∨ nbFrames ≤ e.frame then .err .badArg
      else if e.id < 3 ∨ 127 < e.id then .err .badArg
      else
        let f := e.frame.toNat
        scanLoop exts nbFrames (i + 1) (mn.set f (min (mn.getD f 0) i)) (mx.set f (max (mx.getD f 0) (i + 1)))
  else .ok (mn, mx)
termination_by exts.size - i

/-- "Test if we can repeat this extension in future frames" (extensions.c:502-517):
    `true` iff the `for g` loop ran to `nb_frames`. -/
def canRepeat (exts : Array Ext) (mx rep : List Nat) (nbF : Nat) (e : Ext) (g : Nat) : Res Bool :=
  if g < nbF then
    match rdN rep g, rdN mx g with
    | .ok r, .ok m =>
      if m ≤ r then .ok false
      else match rdE exts r with
        | .ok x =>
          if x.frame ≠ g then .abort                 -- celt_assert :505
          else if x.id ≠ e.id then .ok false
          else if x.id < 32 ∧ x.len ≠ e.len then .ok false
          else canRepeat exts mx rep nbF e (g + 1)
        | .err er => .err er
        | .oob => .oob
        | .abort => .abort
    | _, _ => .oob
  else .ok true
termination_by nbF - g

/-- `for (j=…; j<hi && extensions[j].frame != g; j++);` (extensions.c:546-547). -/
def skipToFrame (exts : Array Ext) (g : Nat) (j hi : Nat) : Res Nat :=
  if j < hi then
    match rdE exts j with
    | .ok x => if x.frame ≠ g then skipToFrame exts g (j + 1) hi else .ok j
    | .err er => .err er
    | .oob => .oob
    | .abort => .abort
  else .ok j
termination_by hi - j

/-- "Advance the repeat pointers" (extensions.c:543-549). -/
def advanceRep (exts : Array Ext) (mx : List Nat) (nbF : Nat) (g : Nat) (rep : List Nat) : Res (List Nat) :=
  if g < nbF then
    match rdN rep g, rdN mx g with
    | .ok r, .ok m =>
      match skipToFrame exts g (r + 1) m with
      | .ok j => advanceRep exts mx nbF (g + 1) (rep.set g j)
      | .err er => .err er
      | .oob => .oob
      | .abort => .abort
    | _, _ => .oob
  else .ok rep
termination_by nbF - g

/-- Result of the repeat detection for one frame: `frame_repeat_idx`, `repeat_count`,
    `last_long_idx` (`none` = -1).  (`trailing_short_len` is computed by the C code, :489-527, but
    never read.) -/
structure Det where
  rep : List Nat
  repeatCount : Nat
  lastLong : Option Nat
  deriving Repr

/-- Repeat detection loop for frame `f` (extensions.c:496-555). -/
def detectLoop (exts : Array Ext) (mx : List Nat) (nbF f : Nat) (i hi : Nat) (s : Det) : Res Det :=
  if i < hi then
    match rdE exts i with
    | .ok e =>
      if e.frame = f then
        match canRepeat exts mx s.rep nbF e (f + 1) with
        | .ok false => .ok s                                        -- `break` :517
        | .ok true =>
          match (if 32 ≤ e.id then (match rdN s.rep (nbF - 1) with
                                    | .ok v => Res.ok (some v)
                                    | .err er => .err er
                                    | .oob => .oob
                                    | .abort => .abort)
                 else .ok s.lastLong), advanceRep exts mx nbF (f + 1) s.rep with
          | .ok ll, .ok rep' =>
            detectLoop exts mx nbF f (i + 1) hi
              { rep := rep'.set f i, repeatCount := s.repeatCount + 1, lastLong := ll }
          | .abort, _ => .abort
          | _, .abort => .abort
          | .err er, _ => .err er
          | _, .err er => .err er
          | _, _ => .oob
        | .err er => .err er
        | .oob => .oob
        | .abort => .abort
      else detectLoop exts mx nbF f (i + 1) hi s
    | .err er => .err er
    | .oob => .oob
    | .abort => .abort
  else .ok s
termination_by hi - i

/-- Repeated payloads of frame `g` (extensions.c:598-607); returns `written`. -/
def wRepeatsOfFrame (exts : Array Ext) (g : Nat) (last : Bool) (lastLong : Option Nat) (j hi : Nat)
    (written : Nat) : W Nat :=
  if j < hi then do
    let x ← W.lift (rdE exts j)
    if x.frame = g then do
      wPayload x (last && lastLong == some j)
      wRepeatsOfFrame exts g last lastLong (j + 1) hi (written + 1)
    else wRepeatsOfFrame exts g last lastLong (j + 1) hi written
  else pure written
termination_by hi - j

/-- `for (g=f+1; g<nb_frames; g++)` of the repeat emission (extensions.c:595-609). -/
def wRepeatsLoop (exts : Array Ext) (nbF : Nat) (last : Bool) (lastLong : Option Nat) (g : Nat)
    (s : GSt) : W GSt :=
  if g < nbF then do
    let lo ← W.lift (rdN s.minIdx g)
    let hi ← W.lift (rdN s.repIdx g)
    let w' ← wRepeatsOfFrame exts g last lastLong lo hi s.written
    wRepeatsLoop exts nbF last lastLong (g + 1) { s with written := w', minIdx := s.minIdx.set g (max lo hi) }
  else pure s
termination_by nbF - g

/-- "Insert separator when needed" (extensions.c:561-576). -/
def wSep (f currFrame : Nat) : W Unit :=
  if f ≠ currFrame then
    let diff : Int := (f : Int) - currFrame
    if diff = 1 then W.emit [.need 2, .put 2]
    else W.emit [.need 2, .put 3, .put (diff % 256).toNat]
  else pure ()

/-- Emission loop for frame `f` (extensions.c:557-613). -/
def wFrameLoop (exts : Array Ext) (nbF : Nat) (f : Nat) (det : Det) (i hi : Nat) (s : GSt) : W GSt :=
  if i < hi then do
    let e ← W.lift (rdE exts i)
    if e.frame = f then do
      wSep f s.currFrame
      wExt e ((s.written : Int) = (exts.size : Int) - 1)
      let s1 := { s with written := s.written + 1, currFrame := f }
      if 0 < det.repeatCount ∧ s.repIdx[f]? = some i then do
        let nbRepeated := det.repeatCount * (nbF - (f + 1))
        let last : Bool := s1.written + nbRepeated = exts.size ∨ (det.lastLong = none ∧ hi ≤ i + 1)
        W.emit [.need 1, .put (if last then 4 else 5)]               -- the repeat indicator
        let s3 ← wRepeatsLoop exts nbF last det.lastLong (f + 1) s1
        wFrameLoop exts nbF f det (i + 1) hi
          { s3 with currFrame := if last then s3.currFrame + 1 else s3.currFrame }
      else wFrameLoop exts nbF f det (i + 1) hi s1
    else wFrameLoop exts nbF f det (i + 1) hi s
  else pure s
termination_by hi - i

/-- The `for (f=0;f<nb_frames;f++)` loop (extensions.c:486-614). -/
def wFramesLoop (exts : Array Ext) (nbF : Nat) (mx : List Nat) (f : Nat) (s : GSt) : W GSt :=
  if f < nbF then do
    let lo ← W.lift (rdN s.minIdx f)
    let hi ← W.lift (rdN mx f)
    let det0 : Det := { rep := s.repIdx, repeatCount := 0, lastLong := none }
    let det ← W.lift (if f + 1 < nbF then detectLoop exts mx nbF f lo hi det0 else .ok det0)
    let s' ← wFrameLoop exts nbF f det lo hi { s with repIdx := det.rep }
    wFramesLoop exts nbF mx (f + 1) s'
  else pure s
termination_by nbF - f

/-- The buffer actions of `opus_packet_extensions_generate` up to the final padding step
    (extensions.c:470-615), for `0 ≤ nb_frames ≤ 48`. -/
def genOps (exts : Array Ext) (nbF : Nat) : W Unit := do
  let (mn, mx) ← W.lift (scanLoop exts nbF 0 (List.replicate nbF exts.size) (List.replicate nbF 0))
  let s ← wFramesLoop exts nbF mx 0 { written := 0, currFrame := 0, minIdx := mn, repIdx := mn }
  if s.written ≠ exts.size then W.lift .abort                    -- celt_assert(written == nb_extensions)
  else pure ()

/-- `opus_packet_extensions_generate` (extensions.c:456-630).  Returns the bytes
    `data[0..ret)`; for a dry run (`data == NULL`) only their number is meaningful. -/
def generate (dry : Bool) (len : Int) (exts : Array Ext) (nbFrames : Int) (pad : Bool) : Res (Array Nat) :=
  if len < 0 then .abort                                     -- celt_assert(len >= 0)
  else if 48 < nbFrames then .err .badArg
  else
    let w := genOps exts nbFrames.toNat
    match runOps dry len w.ops #[] with
    | .ok out =>
      match w.res with
      | .ok _ =>
        if pad ∧ (out.size : Int) < len then
          .ok (Array.replicate (len - out.size).toNat (if dry then 0 else 1) ++ out)
        else .ok out
      | .err er => .err er
      | .oob => .oob
      | .abort => .abort
    | .err er => .err er
    | .oob => .oob
    | .abort => .abort

/-- Dry run: `opus_packet_extensions_generate(NULL, len, …)` returns the size. -/
def generateDry (len : Int) (exts : Array Ext) (nbFrames : Int) (pad : Bool) : Res Nat :=
  match generate true len exts nbFrames pad with
  | .ok out => .ok out.size
  | .err er => .err er
  | .oob => .oob
  | .abort => .abort

end Opus.Ext
