import OpusModel.SilkPlcConcealFix
/-
  OpusModel.SilkPlcGlue — bit-exact value model of silk_PLC_glue_frames (silk/PLC.c:433-493): the energy of the
  concealed frame is remembered; the first good frame after a loss is faded in from
  sqrt(concealed energy / decoded energy) with a 4x steeper slope.
-/
namespace Opus.SilkPlc
open Opus Opus.SilkParams

/-- The members of `silk_decoder_state` that silk_PLC_glue_frames reads or writes. -/
structure GlueSt where
  lossCnt : Int
  lastFrameLost : Int
  concEnergy : Int
  concEnergyShift : Int
  deriving DecidableEq, Repr

/-- The per-sample ramp PLC.c:481-487: `frame[i] = silk_SMULWB( gain_Q16, frame[i] )` (stored into an
    `opus_int16`), `gain_Q16 += slope_Q16`, stop once `gain_Q16 > 1 << 16`. -/
def glueRamp (slope : Int) : List Int → Int → List Int
  | [], _ => []
  | x :: xs, g =>
    let y := wrap16 (smulwb g x)
    if g + slope > 65536 then y :: xs else y :: glueRamp slope xs (g + slope)

/-- The normalised pair `(conc_energy, energy)` of PLC.c:455-459. -/
def glueNormalize (concE concSh e sh : Int) : Int × Int :=
  if sh > concSh then (shrI concE (sh - concSh).toNat, e)
  else if sh < concSh then (concE, shrI e (concSh - sh).toNat)
  else (concE, e)

/-- `LZ` of PLC.c:466-467. -/
def glueLZ (concE : Int) : Int := clz32 concE - 1

/-- `gain_Q16` and `slope_Q16` of PLC.c:466-476 from the normalised energies (`energy > conc_energy`):
    also the shifted `conc_energy`, which is stored back into the state. -/
def glueGain (concE e : Int) (length : Int) : Int × Int × Int :=
  let lz := glueLZ concE
  let concE' := lshift32 concE lz.toNat
  let e' := shrI e (max (24 - lz) 0).toNat
  let frac := div32 concE' (max e' 1)
  let gain := lshift32 (sqrtApprox frac) 4
  let slope := lshift32 (div32 (65536 - gain) length) 2
  (gain, slope, concE')

/-- `silk_PLC_glue_frames(psDec, frame, length)` with `length = frame.length`. -/
def glueFrames (s : GlueSt) (frame : List Int) : List Int × GlueSt :=
  if s.lossCnt ≠ 0 then
    let r := sumSqrShift frame
    (frame, { s with concEnergy := r.1, concEnergyShift := r.2, lastFrameLost := 1 })
  else if s.lastFrameLost ≠ 0 then
    let r := sumSqrShift frame
    let n := glueNormalize s.concEnergy s.concEnergyShift r.1 r.2
    if n.2 > n.1 then
      let g := glueGain n.1 n.2 frame.length
      (glueRamp g.2.1 frame g.1, { s with concEnergy := g.2.2, lastFrameLost := 0 })
    else (frame, { s with concEnergy := n.1, lastFrameLost := 0 })
  else (frame, { s with lastFrameLost := 0 })

end Opus.SilkPlc
