import OpusModel.CeltSymsEnc
import OpusModel.CeltBands
/-
  OpusModel.CeltBandsEnc — the symbol WRITES of `celt_encode_with_ec` behind `clt_compute_allocation` (property C17,
  CELT frame round trip): `quant_fine_energy`, `quant_all_bands(encode = 1, …)`, the anti-collapse bit and
  `quant_energy_finalise`, with every signal-driven decision an input popped from the decision stream exactly where
  the symbol is written:

    quant_bands.c:360-396   quant_fine_energy: `q2` per band and channel            → ec_enc_bits(q2, fine_quant[i])
    bands.c:766-878         compute_theta, encode side: the QUANTISED `itheta` (0 … qn; after the theta_round /
                            avoid_split_noise logic, which is float- and signal-driven) → ec_encode with the step or the
                            triangular PDF, or ec_enc_uint(itheta, qn+1); the `inv` flag → ec_enc_bit_logp(inv, 2)
    bands.c:917-946         quant_band_n1: the sign                                  → ec_enc_bits(sign, 1)
    bands.c:1046-1070       quant_partition leaf: the PVQ codeword index `icwrs(N, iy)` of alg_quant's pulse vector
                            (a bijection with the vectors: C17 `cwrsi_icwrs` / `icwrs_cwrsi`) → ec_enc_uint(idx, V(N,K))
    bands.c:1296-1346       quant_band_stereo, N == 2: the side sign                 → ec_enc_bits(sign, 1)
    celt_encoder.c:2397-2410  anti-collapse flag → ec_enc_bits(on, 1); quant_energy_finalise: `q2` → ec_enc_bits(q2, 1)

  bands.c is ONE code for both directions (`ctx->encode` only selects the `ec_enc_*` or the `ec_dec_*` call), so all
  the integer arithmetic that decides which symbol comes next with which parameters — `compute_qn`, the mid/side split
  `mbits/sbits/rebalance`, `bits2pulses`/`pulses2bits` with the "never bust the budget" loop, the band budget `b`,
  `balance`, the dual-stereo → intensity switch — is shared with C03's decoder model OpusModel/CeltBands.lean
  (read-only): its PURE functions are used here as they are; only the functions that thread the coder are mirrored.
  `theta_rdo` (bands.c:1600-1660) encodes a band twice and keeps one result by restoring the coder: only the surviving
  trial is in the stream, and that is what is modelled (the harness drops the other one by following the coder states).
  Core Lean only.
-/
namespace Opus.CeltBandsEnc
open Opus Opus.RangeCoder Opus.CeltSymsFrozen Opus.CeltSymsEnc
open Opus.CeltBands (computeQn thetaDelta adjustDelta splitBits rebal rowOf cacheAt p2b lowerQ pvqFt bandB bandBudget
  BandsIn Theta)

/-- `ctx->remaining_bits` and the encoder model state (coder, calls, remaining decisions). -/
structure ESt where
  rem : Int
  s : St

/-- `ec_enc_uint(v, ft)`; the value is the next decision -/
def ESt.uint (e : ESt) (ft : Nat) : Nat × ESt :=
  (e.s.pop.1.toNat, { e with s := e.s.pop.2.emit (.uint e.s.pop.1.toNat ft) })

/-- `ec_enc_bits(v, n)` -/
def ESt.raw (e : ESt) (n : Nat) : Nat × ESt :=
  (e.s.pop.1.toNat, { e with s := e.s.pop.2.emit (.bits e.s.pop.1.toNat n) })

/-- `ec_enc_bit_logp(v, logp)` -/
def ESt.bit (e : ESt) (logp : Nat) : Nat × ESt :=
  ((if e.s.pop.1 ≠ 0 then 1 else 0), { e with s := e.s.pop.2.emit (.bitLogp (if e.s.pop.1 ≠ 0 then 1 else 0) logp) })

/-! ### compute_theta, encode side -/

/-- Step PDF (bands.c:782-792): `ec_encode(x<=x0 ? p0*x : (x-1-x0)+(x0+1)*p0, x<=x0 ? p0*(x+1) : (x-x0)+(x0+1)*p0, ft)`. -/
def thetaStep (e : ESt) (qn : Nat) : Nat × ESt :=
  let x := e.s.pop.1.toNat
  let x0 := qn / 2
  (x, { e with s := e.s.pop.2.emit (.encode (if x ≤ x0 then 3 * x else (x - 1 - x0) + (x0 + 1) * 3)
                                           (if x ≤ x0 then 3 * (x + 1) else (x - x0) + (x0 + 1) * 3) (3 * (x0 + 1) + x0)) })

/-- Triangular PDF (bands.c:812-823): `ft = ((qn>>1)+1)^2`,
    `fl = itheta <= qn>>1 ? itheta*(itheta+1)>>1 : ft - ((qn+1-itheta)*(qn+2-itheta)>>1)`,
    `fs = itheta <= qn>>1 ? itheta+1 : qn+1-itheta`. -/
def triFt (qn : Nat) : Nat := (qn / 2 + 1) * (qn / 2 + 1)

def triFl (qn x : Nat) : Nat :=
  if x ≤ qn / 2 then x * (x + 1) / 2 else (qn / 2 + 1) * (qn / 2 + 1) - (qn + 1 - x) * (qn + 2 - x) / 2

def triFs (qn x : Nat) : Nat := if x ≤ qn / 2 then x + 1 else qn + 1 - x

def thetaTri (e : ESt) (qn : Nat) : Nat × ESt :=
  (e.s.pop.1.toNat,
   { e with s := e.s.pop.2.emit (.encode (triFl qn e.s.pop.1.toNat) (triFl qn e.s.pop.1.toNat + triFs qn e.s.pop.1.toNat)
                                        (triFt qn)) })

/-- The symbol writes of `compute_theta` (bands.c:766-878): the scaled `itheta`. -/
def thetaWrite (stereo : Bool) (N : Nat) (b : Int) (B0 qn : Nat) (e : ESt) : Nat × ESt :=
  if qn ≠ 1 then
    ((if stereo ∧ N > 2 then thetaStep e qn else if B0 > 1 ∨ stereo then e.uint (qn + 1) else thetaTri e qn).1 * 16384 / qn,
     (if stereo ∧ N > 2 then thetaStep e qn else if B0 > 1 ∨ stereo then e.uint (qn + 1) else thetaTri e qn).2)
  else if stereo then
    if b > 16 ∧ e.rem > 16 then (0, (e.bit 2).2) else (0, e)
  else (0, e)

/-- `compute_theta`, encode side. -/
def computeTheta (i intensity : Nat) (stereo : Bool) (N : Nat) (b : Int) (B0 : Nat) (lm : Int) (e : ESt) : Theta × ESt :=
  let r := thetaWrite stereo N b B0
    (if stereo ∧ i ≥ intensity then 1
     else computeQn N b ((logN.getD i 0 + lm * 8) / 2 - (if stereo ∧ N = 2 then 16 else 4)) (logN.getD i 0 + lm * 8) stereo) e
  ({ itheta := r.1, delta := thetaDelta N r.1, qalloc := (tellFrac r.2.s.e : Int) - tellFrac e.s.e,
     b := b - ((tellFrac r.2.s.e : Int) - tellFrac e.s.e) }, r.2)

/-! ### quant_partition, quant_band, quant_band_stereo -/

/-- The no-split case of `quant_partition`: `alg_quant` → `encode_pulses` → `ec_enc_uint(icwrs(N, iy), V(N,K))`. -/
def leaf (i lm1 N : Nat) (b : Int) (e : ESt) : ESt :=
  let r := lowerQ (rowOf lm1 i) (Rate.bits2pulsesRow (cacheAt (rowOf lm1 i)) b)
    (p2b (rowOf lm1 i) (Rate.bits2pulsesRow (cacheAt (rowOf lm1 i)) b))
    (e.rem - p2b (rowOf lm1 i) (Rate.bits2pulsesRow (cacheAt (rowOf lm1 i)) b))
  if r.1 ≠ 0 then ({ e with rem := r.2 }.uint (pvqFt N (Rate.getPulses r.1))).2
  else { e with rem := r.2 }

def splitRun (f : Int → ESt → ESt) (mbits sbits : Int) (itheta : Nat) (e : ESt) : ESt :=
  if mbits ≥ sbits then
    f (rebal sbits (mbits - (e.rem - (f mbits e).rem)) (itheta ≠ 0)) (f mbits e)
  else
    f (rebal mbits (sbits - (e.rem - (f sbits e).rem)) (itheta ≠ 16384)) (f sbits e)

def splitGo (f : Int → ESt → ESt) (th : Theta) (delta : Int) (e : ESt) : ESt :=
  splitRun f (splitBits th.b delta) (th.b - splitBits th.b delta) th.itheta { e with rem := e.rem - th.qalloc }

/-- `quant_partition`, encode side: first argument `LM+1`. -/
def quantPartition (i : Nat) : Nat → Nat → Int → Nat → ESt → ESt
  | 0, N, b, _, e => leaf i 0 N b e
  | lm + 1, N, b, B, e =>
    if b > (cacheAt (rowOf (lm + 1) i) (cacheAt (rowOf (lm + 1) i) 0) : Int) + 12 ∧ N > 2 then
      splitGo (fun bits e' => quantPartition i lm (N / 2) bits ((B + 1) / 2) e')
        (computeTheta i 0 false (N / 2) b B ((lm : Int) - 1) e).1
        (adjustDelta B (computeTheta i 0 false (N / 2) b B ((lm : Int) - 1) e).1.itheta
          (computeTheta i 0 false (N / 2) b B ((lm : Int) - 1) e).1.delta (N / 2) ((lm : Int) - 1))
        (computeTheta i 0 false (N / 2) b B ((lm : Int) - 1) e).2
    else leaf i (lm + 1) N b e

/-- One channel of `quant_band_n1`. -/
def n1One (e : ESt) : ESt :=
  if e.rem ≥ 8 then { (e.raw 1).2 with rem := (e.raw 1).2.rem - 8 } else e

def quantBand (i lm1 N : Nat) (B : Nat) (tf : Int) (b : Int) (e : ESt) : ESt :=
  if N = 1 then n1One e else quantPartition i lm1 N b (bandB N B tf) e

/-- The `N == 2` case of `quant_band_stereo`. -/
def stereoN2 (i lm1 : Nat) (B : Nat) (tf : Int) (th : Theta) (e : ESt) : ESt :=
  if th.itheta ≠ 0 ∧ th.itheta ≠ 16384 then
    quantBand i lm1 2 B tf (th.b - 8) ({ e with rem := e.rem - (th.qalloc + 8) }.raw 1).2
  else quantBand i lm1 2 B tf th.b { e with rem := e.rem - th.qalloc }

def quantBandStereo (i lm1 N : Nat) (B : Nat) (tf : Int) (intensity : Nat) (b : Int) (e : ESt) : ESt :=
  if N = 1 then n1One (n1One e)
  else if N = 2 then
    stereoN2 i lm1 B tf (computeTheta i intensity true N b B ((lm1 : Int) - 1) e).1
      (computeTheta i intensity true N b B ((lm1 : Int) - 1) e).2
  else
    splitGo (quantBand i lm1 N B tf) (computeTheta i intensity true N b B ((lm1 : Int) - 1) e).1
      (computeTheta i intensity true N b B ((lm1 : Int) - 1) e).1.delta
      (computeTheta i intensity true N b B ((lm1 : Int) - 1) e).2

/-! ### quant_all_bands -/

def bandOne (p : BandsIn) (i : Nat) (dual : Bool) (b : Int) (e : ESt) : ESt :=
  if dual then
    quantBand i (p.LM + 1) (2 ^ p.LM * (eBands.getD (i + 1) 0 - eBands.getD i 0)) p.B (p.tfRes.getD (i - p.start) 0) (b / 2)
      (quantBand i (p.LM + 1) (2 ^ p.LM * (eBands.getD (i + 1) 0 - eBands.getD i 0)) p.B (p.tfRes.getD (i - p.start) 0) (b / 2) e)
  else if p.C = 2 then
    quantBandStereo i (p.LM + 1) (2 ^ p.LM * (eBands.getD (i + 1) 0 - eBands.getD i 0)) p.B (p.tfRes.getD (i - p.start) 0)
      p.intensity b e
  else
    quantBand i (p.LM + 1) (2 ^ p.LM * (eBands.getD (i + 1) 0 - eBands.getD i 0)) p.B (p.tfRes.getD (i - p.start) 0) b e

/-- The band loop (bands.c:1486-1680). -/
def bandLoop (p : BandsIn) : Nat → Nat → Bool → Int → ESt → ESt
  | 0, _, _, _, e => e
  | k + 1, i, dual, balance, e =>
    bandLoop p k (i + 1) (dual && !decide (i = p.intensity))
      ((if i ≠ p.start then balance - tellFrac e.s.e else balance) + p.pulses.getD (i - p.start) 0 + tellFrac e.s.e)
      (bandOne p i (dual && !decide (i = p.intensity))
        (bandBudget p i (if i ≠ p.start then balance - tellFrac e.s.e else balance) (p.totalBits - tellFrac e.s.e - 1))
        { e with rem := p.totalBits - tellFrac e.s.e - 1 })

/-! ### Fine energy, finalise -/

def rawN (bits : Nat) : Nat → ESt → ESt
  | 0, e => e
  | n + 1, e => rawN bits n (e.raw bits).2

/-- `quant_fine_energy`. -/
def fineLoop (C : Nat) : List Int → ESt → ESt
  | [], e => e
  | fq :: r, e => fineLoop C r (if fq > 0 then rawN fq.toNat C e else e)

def finalPass (C : Nat) (prio : Int) : List (Int × Int) → Int → ESt → Int × ESt
  | [], bl, e => (bl, e)
  | (fq, pr) :: r, bl, e =>
    if bl < C then (bl, e)
    else if fq ≥ 8 ∨ pr ≠ prio then finalPass C prio r bl e
    else finalPass C prio r (bl - C) (rawN 1 C e)

/-- `quant_energy_finalise`. -/
def finalise (C : Nat) (fp : List (Int × Int)) (bitsLeft : Int) (e : ESt) : ESt :=
  (finalPass C 1 fp (finalPass C 0 fp bitsLeft e).1 (finalPass C 0 fp bitsLeft e).2).2

/-! ### The rest of the frame -/

/-- what `quant_all_bands` is called with (celt_encoder.c:2390-2394) -/
def bandsIn (cfg : EncCfg) (h : EncHdr) : BandsIn :=
  { start := cfg.start, end_ := cfg.end_, C := cfg.C, LM := cfg.LM, B := if h.isTransient ≠ 0 then 2 ^ cfg.LM else 1,
    tfRes := h.tfRes, pulses := h.alloc.bands.map (·.pulses), intensity := h.alloc.intensity.toNat,
    codedBands := h.alloc.codedBands, totalBits := ((h.size * 64 : Nat) : Int) - h.antiCollapseRsv }

/-- Everything behind `clt_compute_allocation`: fine energy, band data, anti-collapse bit, finalise. -/
def afterAlloc (cfg : EncCfg) (h : EncHdr) (e : ESt) : ESt :=
  let e1 := bandLoop (bandsIn cfg h) (cfg.end_ - cfg.start) cfg.start (h.alloc.dualStereo ≠ 0) h.alloc.balance
    (fineLoop cfg.C (h.alloc.bands.map (·.ebits)) e)
  let e2 := if h.antiCollapseRsv > 0 then (e1.raw 1).2 else e1
  finalise cfg.C (h.alloc.bands.map fun x => (x.ebits, x.prio)) (((h.size * 8 : Nat) : Int) - tell e2.s.e) e2

/-- A whole CELT frame as the encoder writes it (up to, not including, `ec_enc_done`). -/
structure EncFrame where
  hdr : EncHdr
  ops : List Op          -- all coder calls of the frame
  fin : Enc              -- coder context at the end (`st->rng = enc->rng`)

def encFrame (cfg : EncCfg) (s0 : St) : Res EncFrame :=
  match encHeader cfg s0 with
  | .ok h =>
    .ok { hdr := h, ops := (afterAlloc cfg h { rem := 0, s := { e := h.enc, ops := h.ops, ds := h.rest } }).s.ops,
          fin := (afterAlloc cfg h { rem := 0, s := { e := h.enc, ops := h.ops, ds := h.rest } }).s.e }
  | .err e => .err e
  | .oob => .oob
  | .abort => .abort

end Opus.CeltBandsEnc
