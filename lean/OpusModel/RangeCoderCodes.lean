import OpusModel.RangeCoder
import OpusModel.Laplace
import OpusModel.Cwrs
/-
  OpusModel.RangeCoderCodes — the two codes the CELT layer is built from, as sequences of range-coder
  calls (executable; used by the driver suite `rangecoder cseq`).

  C sources:  celt/laplace.c:51-132 (`ec_laplace_encode`, `ec_laplace_decode`): the interval arithmetic
              is `Opus.Laplace.encode/decode` (property C17); here it is connected to the calls
              `ec_encode_bin(enc, fl, fl+fs, 15)` resp. `ec_decode_bin(dec, 15)` +
              `ec_dec_update(dec, fl, IMIN(fl+fs,32768), 32768)`.
              celt/cwrs.c:461-464, 539-541 (`encode_pulses`, `decode_pulses`): `icwrs`/`cwrsi`/`V` are
              `Opus.Cwrs` (property C17); here they are connected to `ec_enc_uint(enc, icwrs(y), V(N,K))`
              resp. `cwrsi(N, K, ec_dec_uint(dec, V(N,K)), y)`.
  A `celt_assert` that fires is `.abort`, a read outside a row of the PVQ table is `.oob`.
  Core Lean only.
-/
namespace Opus.RangeCoder
open Opus

/-- One coding step of the layer above the range coder. -/
inductive Code where
  | op (o : Op)                             -- a plain range-coder call
  | laplace (value : Int) (fs decay : Nat)  -- ec_laplace_encode(enc, &value, fs, decay) / ec_laplace_decode
  | pulses (y : List Int) (k : Nat)         -- encode_pulses(y, N, K, enc) / decode_pulses(y, N, K, dec), N = |y|
  deriving Repr, Inhabited

/-- What the decoder side of a `Code` returns. -/
inductive CodeVal where
  | sym (x : Nat)        -- value returned by the range-decoder call
  | lap (v : Int)        -- return value of ec_laplace_decode
  | vec (y : List Int)   -- the vector written by decode_pulses
  deriving Repr, DecidableEq, Inhabited

/-- The range-coder calls the encoder side makes (laplace.c:97, cwrs.c:463). -/
def Code.encOps : Code → Res (List Op)
  | .op o => .ok [o]
  | .laplace value fs decay => do
    let r ← Laplace.encode value fs decay
    pure [.encodeBin r.1 r.2.1 15]
  | .pulses y k => do
    let r ← Cwrs.encodePulses Cwrs.Utab y k
    pure [.uint r.1 r.2]

/-- All range-coder calls of a list of coding steps. -/
def codesOps : List Code → Res (List Op)
  | [] => .ok []
  | c :: cs => do
    let a ← c.encOps
    let b ← codesOps cs
    pure (a ++ b)

/-- `ec_enc_init`, the coding steps, `ec_enc_done`. -/
def encodeCodes (buf : List Nat) (size : Nat) (cs : List Code) : Res Enc := do
  let ops ← codesOps cs
  pure (encodeAll buf size ops)

/-- The decoder side of one coding step (laplace.c:100-132, cwrs.c:539-541): `(value, ctx)`. -/
def decCode (d : Dec) : Code → Res (CodeVal × Dec)
  | .op o => .ok (.sym (decOp d o).1, (decOp d o).2)
  | .laplace _ fs decay => do
    let t ← Laplace.decode (decodeBin d 15).1 fs decay
    pure (.lap t.1, decUpdate (decodeBin d 15).2 t.2.1 t.2.2 32768)
  | .pulses y k => do
    let ft ← Cwrs.decodePulsesFt Cwrs.Utab y.length k
    let ys ← Cwrs.cwrsi Cwrs.Utab y.length k (decUint d ft).1
    pure (.vec ys.1, (decUint d ft).2)

/-- The decoder over a list of coding steps. -/
def decCodes (d : Dec) : List Code → Res (List CodeVal × Dec)
  | [] => .ok ([], d)
  | c :: cs => do
    let r ← decCode d c
    let rs ← decCodes r.2 cs
    pure (r.1 :: rs.1, rs.2)

end Opus.RangeCoder
