import OpusModel.Basic
import OpusModel.SilkParams.Fix
import OpusModel.Gen.SilkResampRom
/-
  OpusModel.SilkResamp — bit-exact executable model of the SILK resampler (slice SilkResamp of property C03):
    silk/resampler.c                 silk_resampler_init (:79-171), silk_resampler (:175-215)
    silk/resampler_private_up2_HQ.c  silk_resampler_private_up2_HQ (:38-100), _wrapper (:103-112)
    silk/resampler_private_IIR_FIR.c _INTERPOL (:36-65), silk_resampler_private_IIR_FIR (:67-107)
    silk/resampler_private_AR2.c     silk_resampler_private_AR2 (:36-55)
    silk/resampler_private_down_FIR.c _INTERPOL (:36-143), silk_resampler_private_down_FIR (:146-194)
  with the coefficient tables of silk/resampler_rom.c / .h regenerated into OpusModel/Gen/SilkResampRom.lean.

  The code is integer code in the float build as well, so the model is a frozen bit-exact reference.

  Conventions.  Samples and state words are `Int`s; sizes and lengths are `Nat`s.  The macros are those of
  OpusModel/SilkParams/Fix.lean (C18): `smulwb`, `smlawb`, `smulbb`, `smulww`, `lshift32`, `rshiftRound`, `sat16`
  (the OPUS_FAST_INT64 variants, celt/arch.h:122): `smulwb`/`smlawb` truncate a 64-bit result to 32 bits
  (implementation-defined in C, two's complement with gcc — "wraps by design"), `lshift32` goes through
  `opus_uint32`.  `silk_ADD32`/`silk_SUB32`/`silk_SMLABB` are plain C `+`/`-` on `opus_int32`
  (SigProc_FIX.h:465,469; macros.h:73): a signed overflow there would be undefined behaviour.  The model writes
  them `add32`/`sub32`/`smlabb` = the unbounded result reduced by `wrap32` (what the compiled code computes).
  OpusProofs/SilkResampRange.lean proves that the reduction is the identity for the `silk_SMLABB` sum of
  IIR_FIR_INTERPOL on every `opus_int16` buffer (so the C code has no overflow there); for the all-pass / AR2
  recursions on filter states no such bound is proved, and the harness runs under UBSan.

  Array accesses are checked: `window l i n` reads `l[i .. i+n)` and answers `.oob` when that leaves the array,
  `blit` writes a block and answers `.oob` likewise.  `.abort` = a `celt_assert` of the C code fires (the library
  is built with ENABLE_HARDENING, so it aborts) — or the state is one on which the C loop would not terminate
  (`invRatio_Q16 <= 0`, never produced by silk_resampler_init).
-/
namespace Opus.SilkResamp
open Opus.SilkParams (wrap16 wrap32 sat16 lshift32 rshiftRound smulbb smulwb smlawb smulww)
open Opus.Gen.SilkResampRom

/-- `silk_ADD32(a, b)` = `a + b` on `opus_int32` (SigProc_FIX.h:465), reduced to 32 bits. -/
def add32 (a b : Int) : Int := wrap32 (a + b)
/-- `silk_SUB32(a, b)` = `a - b` on `opus_int32` (SigProc_FIX.h:469), reduced to 32 bits. -/
def sub32 (a b : Int) : Int := wrap32 (a - b)
/-- `silk_SMLABB(a, b, c)` = `a + (opus_int16)b * (opus_int16)c` (macros.h:73), reduced to 32 bits. -/
def smlabb (a b c : Int) : Int := add32 a (smulbb b c)

/-- Checked read of `l[i .. i+n)`. -/
def window (l : List Int) (i : Int) (n : Nat) : Res (List Int) :=
  if 0 ≤ i ∧ i.toNat + n ≤ l.length then .ok ((l.drop i.toNat).take n) else .oob

/-- Checked block write `l[off .. off+src.length) := src`. -/
def blit (l : List Int) (off : Nat) (src : List Int) : Res (List Int) :=
  if off + src.length ≤ l.length then .ok (l.take off ++ src ++ l.drop (off + src.length)) else .oob

/-- `mapM` for `Res`, structurally. -/
def mapRes {α β} (f : α → Res β) : List α → Res (List β)
  | [] => .ok []
  | a :: as =>
    match f a with
    | .ok b =>
      match mapRes f as with
      | .ok bs => .ok (b :: bs)
      | .err e => .err e
      | .oob => .oob
      | .abort => .abort
    | .err e => .err e
    | .oob => .oob
    | .abort => .abort

/-! ## State (silk/resampler_structs.h:41-57) -/

/-- `sIIR[ SILK_RESAMPLER_MAX_IIR_ORDER ]` (6 words; `Gen.szSIIR`). -/
structure IIR where
  s0 : Int
  s1 : Int
  s2 : Int
  s3 : Int
  s4 : Int
  s5 : Int
  deriving DecidableEq, Repr

def IIR.zero : IIR := ⟨0, 0, 0, 0, 0, 0⟩
def IIR.toList (s : IIR) : List Int := [s.s0, s.s1, s.s2, s.s3, s.s4, s.s5]

/-- The fields silk_resampler_init computes and silk_resampler never changes.  `coefId` names the table
    `S->Coefs` points to: 0 = NULL, 1 = 3_4, 2 = 2_3, 3 = 1_2, 4 = 1_3, 5 = 1_4, 6 = 1_6. -/
structure Cfg where
  fn : Int            -- resampler_function
  batchSize : Nat
  invRatio : Int      -- invRatio_Q16
  firOrder : Nat
  firFracs : Int
  fsIn : Nat          -- Fs_in_kHz
  fsOut : Nat         -- Fs_out_kHz
  inputDelay : Nat
  coefId : Nat
  deriving DecidableEq, Repr

/-- The resampler state.  `sFIR` is the union `sFIR.i32[36]` / `sFIR.i16[36]` seen through the view the selected
    kernel uses (IIR_FIR: `i16`, of which it touches `[0, 8)`; down_FIR: `i32`, of which it touches
    `[0, FIR_Order)`); both views have 36 elements and start at the same address, and one state only ever uses
    one of them (the function selector never changes after init, which zeroes the union). -/
structure RS where
  cfg : Cfg
  sIIR : IIR
  sFIR : List Int
  delayBuf : List Int
  deriving DecidableEq, Repr

def coefsOf (id : Nat) : List Int :=
  match id with
  | 1 => coefs34 | 2 => coefs23 | 3 => coefs12 | 4 => coefs13 | 5 => coefs14 | 6 => coefs16
  | _ => []

/-! ## silk_resampler_private_up2_HQ (resampler_private_up2_HQ.c:38-100) -/

def hq0 (i : Nat) : Int := up2hq0.getD i 0
def hq1 (i : Nat) : Int := up2hq1.getD i 0

/-- One all-pass section with `silk_SMULWB` (:58-61, :64-67, :79-82, :85-88): `(out, S')`. -/
def apSec (inp s c : Int) : Int × Int :=
  let y := sub32 inp s
  let x := smulwb y c
  (add32 s x, add32 inp x)

/-- Third all-pass section, `X = silk_SMLAWB( Y, Y, c )` (:70-73, :91-94). -/
def apSec3 (inp s c : Int) : Int × Int :=
  let y := sub32 inp s
  let x := smlawb y y c
  (add32 s x, add32 inp x)

/-- Loop body :53-98 for one input sample: new state, even output sample, odd output sample. -/
def up2hqStep (S : IIR) (x : Int) : IIR × Int × Int :=
  let in32 := lshift32 x 10
  let a1 := apSec in32 S.s0 (hq0 0)
  let a2 := apSec a1.1 S.s1 (hq0 1)
  let a3 := apSec3 a2.1 S.s2 (hq0 2)
  let b1 := apSec in32 S.s3 (hq1 0)
  let b2 := apSec b1.1 S.s4 (hq1 1)
  let b3 := apSec3 b2.1 S.s5 (hq1 2)
  (⟨a1.2, a2.2, a3.2, b1.2, b2.2, b3.2⟩, sat16 (rshiftRound a3.1 10), sat16 (rshiftRound b3.1 10))

/-- The whole loop: `out[2k]`, `out[2k+1]` for every input sample. -/
def up2hq (S : IIR) : List Int → IIR × List Int
  | [] => (S, [])
  | x :: xs =>
    let r := up2hqStep S x
    let t := up2hq r.1 xs
    (t.1, r.2.1 :: r.2.2 :: t.2)

/-! ## Interpolation loops `for( index_Q16 = 0; index_Q16 < max_index_Q16; index_Q16 += index_increment_Q16 )` -/

/-- Number of iterations of the loop for a positive increment: the indices are `0, inc, 2·inc, …` below `maxIdx`. -/
def interpCount (maxIdx inc : Int) : Nat := ((maxIdx + inc - 1) / inc).toNat

/-- The loop: one output sample per index.  A non-positive increment (on which the C loop would not end) is
    answered `.abort`; silk_resampler_init never produces one. -/
def interpol (sample : Int → Res Int) (maxIdx inc : Int) : Res (List Int) :=
  if inc ≤ 0 then .abort
  else mapRes (fun j : Nat => sample ((j : Int) * inc)) (List.range (interpCount maxIdx inc))

/-- Row `silk_resampler_frac_FIR_12[ i ]` with its 4 entries (resampler_rom.c:89). -/
def fracRow (i : Int) : Res (List Int) :=
  if 0 ≤ i then
    match fracFir12[i.toNat]? with
    | some r => window r 0 4
    | none => .oob
  else .oob

/-- Body of silk_resampler_private_IIR_FIR_INTERPOL (:48-62) for one `index_Q16`.  The first product is
    `silk_SMULBB` (:52), i.e. `silk_SMLABB` onto 0. -/
def iirFirSample (buf : List Int) (idx : Int) : Res Int := do
  let ti := smulwb (idx % 65536) 12
  let w ← window buf (idx / 65536) 8
  let ra ← fracRow ti
  let rb ← fracRow (11 - ti)
  let res := (w.zip (ra ++ rb.reverse)).foldl (fun acc p => smlabb acc p.1 p.2) 0
  pure (sat16 (rshiftRound res 15))

/-- Symmetric FIR of orders 24 / 36 (down_FIR.c:86-107, :109-136): `silk_ADD32( buf_ptr[ k ], buf_ptr[ order-1-k ] )`
    times `FIR_Coefs[ k ]`, accumulated with `silk_SMLAWB` (the first term `silk_SMULWB` = `silk_SMLAWB` onto 0). -/
def firSym (order : Nat) (coefs buf : List Int) (idx : Int) : Res Int := do
  let w ← window buf (idx / 65536) order
  let c ← window coefs 2 (order / 2)
  let pairs := List.zipWith add32 (w.take (order / 2)) ((w.drop (order / 2)).reverse)
  let res := (pairs.zip c).foldl (fun acc p => smlawb acc p.1 p.2) 0
  pure (sat16 (rshiftRound res 6))

/-- Body of silk_resampler_private_down_FIR_INTERPOL for one `index_Q16`: `switch( FIR_Order )` (:53-141). -/
def downFirSample (order : Nat) (fracs : Int) (coefs buf : List Int) (idx : Int) : Res Int :=
  if order = 18 then do
    let w ← window buf (idx / 65536) 18                                        -- :57
    let ind := smulwb (idx % 65536) fracs                                      -- :60
    let ra ← window coefs (2 + 9 * ind) 9                                      -- :63
    let rb ← window coefs (2 + 9 * (fracs - 1 - ind)) 9                        -- :73
    let res := ((w.take 9 ++ (w.drop 9).reverse).zip (ra ++ rb)).foldl (fun acc p => smlawb acc p.1 p.2) 0
    pure (sat16 (rshiftRound res 6))                                           -- :85
  else if order = 24 then firSym 24 coefs buf idx
  else if order = 36 then firSym 36 coefs buf idx
  else .abort                                                                  -- :139 celt_assert( 0 )

/-! ## silk_resampler_private_AR2 (resampler_private_AR2.c:36-55) -/

/-- Loop body :47-53: `(S[0]', S[1]', out_Q8[k])`. -/
def ar2Step (s0 s1 a0 a1 x : Int) : Int × Int × Int :=
  let out32 := add32 s0 (lshift32 x 8)
  let o4 := lshift32 out32 2
  (smlawb s1 o4 a0, smulwb o4 a1, out32)

def ar2 (s0 s1 a0 a1 : Int) : List Int → Int × Int × List Int
  | [] => (s0, s1, [])
  | x :: xs =>
    let r := ar2Step s0 s1 a0 a1 x
    let t := ar2 r.1 r.2.1 a0 a1 xs
    (t.1, t.2.1, r.2.2 :: t.2.2)

/-! ## silk_resampler_private_down_FIR (down_FIR.c:146-194) -/

/-- The `while( 1 )` loop :163-187.  `head` = `buf[0 .. FIR_Order)`.  Result: `(sIIR[0], sIIR[1], buf[nSamplesIn ..
    +FIR_Order) of the last batch, output)`.  (`0 < n` only guards the recursion: with `batchSize = 0` the C loop
    does not end either.) -/
def downFirLoop (c : Cfg) (coefs : List Int) (s0 s1 : Int) (head xs : List Int) :
    Res (Int × Int × List Int × List Int) :=
  let n := min xs.length c.batchSize                                            -- :164
  match window coefs 0 2 with
  | .ok [a0, a1] =>
    let f := ar2 s0 s1 a0 a1 (xs.take n)                                        -- :167
    let buf := head ++ f.2.2
    if c.batchSize + c.firOrder < buf.length then .oob                          -- ALLOC :157
    else
      match interpol (downFirSample c.firOrder c.firFracs coefs buf) (lshift32 n 16) c.invRatio with  -- :169-173
      | .ok outs =>
        match window buf n c.firOrder with                                      -- :180 / :190
        | .ok head' =>
          if _h : 1 < (xs.drop n).length ∧ 0 < n then                            -- :178
            match downFirLoop c coefs f.1 f.2.1 head' (xs.drop n) with
            | .ok r => .ok (r.1, r.2.1, r.2.2.1, outs ++ r.2.2.2)
            | .err e => .err e
            | .oob => .oob
            | .abort => .abort
          else .ok (f.1, f.2.1, head', outs)
        | .err e => .err e
        | .oob => .oob
        | .abort => .abort
      | .err e => .err e
      | .oob => .oob
      | .abort => .abort
  | .ok _ => .oob
  | .err e => .err e
  | .oob => .oob
  | .abort => .abort
termination_by xs.length
decreasing_by
  simp only [List.length_drop]
  have : n ≤ xs.length := Nat.min_le_left _ _
  omega

/-! ## silk_resampler_private_IIR_FIR (IIR_FIR.c:67-107) -/

/-- The `while( 1 )` loop :86-103.  `head` = `buf[0 .. 8)`.  Result `(sIIR, buf[2·nSamplesIn .. +8), output)`. -/
def iirFirLoop (c : Cfg) (S : IIR) (head xs : List Int) : Res (IIR × List Int × List Int) :=
  let n := min xs.length c.batchSize                                            -- :87
  let u := up2hq S (xs.take n)                                                  -- :90
  let buf := head ++ u.2
  if 2 * c.batchSize + orderFir12 < buf.length then .oob                        -- ALLOC :79
  else
    match interpol (iirFirSample buf) (lshift32 n 17) c.invRatio with           -- :92-93
    | .ok outs =>
      match window buf (2 * n) orderFir12 with                                  -- :99 / :106
      | .ok head' =>
        if _h : 0 < (xs.drop n).length ∧ 0 < n then                              -- :97
          match iirFirLoop c u.1 head' (xs.drop n) with
          | .ok r => .ok (r.1, r.2.1, outs ++ r.2.2)
          | .err e => .err e
          | .oob => .oob
          | .abort => .abort
        else .ok (u.1, head', outs)
      | .err e => .err e
      | .oob => .oob
      | .abort => .abort
    | .err e => .err e
    | .oob => .oob
    | .abort => .abort
termination_by xs.length
decreasing_by
  simp only [List.length_drop]
  have : n ≤ xs.length := Nat.min_le_left _ _
  omega

/-! ## The kernel call `switch( S->resampler_function )` (resampler.c:193-209) on one block -/

def kernel (S : RS) (xs : List Int) : Res (RS × List Int) :=
  if S.cfg.fn = useUp2HQ then                                                   -- up2_HQ_wrapper :103-112
    let u := up2hq S.sIIR xs
    .ok ({ S with sIIR := u.1 }, u.2)
  else if S.cfg.fn = useIIRFIR then do
    let head ← window S.sFIR 0 orderFir12                                       -- IIR_FIR.c:82
    let r ← iirFirLoop S.cfg S.sIIR head xs
    let sf ← blit S.sFIR 0 r.2.1                                                -- :106
    pure ({ S with sIIR := r.1, sFIR := sf }, r.2.2)
  else if S.cfg.fn = useDownFIR then do
    let head ← window S.sFIR 0 S.cfg.firOrder                                   -- down_FIR.c:160
    let r ← downFirLoop S.cfg (coefsOf S.cfg.coefId) S.sIIR.s0 S.sIIR.s1 head xs
    let sf ← blit S.sFIR 0 r.2.2.1                                              -- :192
    pure ({ S with sIIR := { S.sIIR with s0 := r.1, s1 := r.2.1 }, sFIR := sf }, r.2.2.2)
  else .ok (S, xs)                                                              -- default: memcpy :207-208

/-! ## silk_resampler (resampler.c:175-215) -/

/-- One call.  `xs` = `in[0 .. inLen)`.  The output of the second kernel call is written at `&out[ Fs_out_kHz ]`;
    the model concatenates the two outputs, and `OpusProps.C03SilkResamp.resampler_first_call_fills_one_ms`
    proves that the first call writes exactly `Fs_out_kHz` samples, so the two descriptions agree. -/
def resampler (S : RS) (xs : List Int) : Res (RS × List Int) :=
  let c := S.cfg
  if xs.length < c.fsIn then .abort                                             -- :185 celt_assert( inLen >= Fs_in_kHz )
  else if c.fsIn < c.inputDelay then .abort                                     -- :187
  else do
    let nSamples := c.fsIn - c.inputDelay                                       -- :189
    let first ← window xs 0 nSamples
    let db ← blit S.delayBuf c.inputDelay first                                 -- :192
    let in1 ← window db 0 c.fsIn
    let in2 ← window xs nSamples (xs.length - c.fsIn)
    let r1 ← kernel { S with delayBuf := db } in1
    let r2 ← kernel r1.1 in2
    let tail ← window xs ((xs.length : Int) - c.inputDelay) c.inputDelay        -- :212
    let db2 ← blit r2.1.delayBuf 0 tail
    pure ({ r2.1 with delayBuf := db2 }, r1.2 ++ r2.2)

/-! ## silk_resampler_init (resampler.c:79-171) -/

/-- `rateID( R )` (:70). -/
def rateId (r : Int) : Int :=
  ((r / 4096 - (if r > 16000 then 1 else 0)) / (if r > 24000 then 2 else 1)) - 1

def matrixAt (m : List (List Int)) (i j : Int) : Res Int :=
  if 0 ≤ i ∧ 0 ≤ j then
    match m[i.toNat]? with
    | some row => match row[j.toNat]? with
      | some v => .ok v
      | none => .oob
    | none => .oob
  else .oob

/-- `while( silk_SMULWW( invRatio_Q16, Fs_Hz_out ) < silk_LSHIFT32( Fs_Hz_in, up2x ) ) invRatio_Q16++` (:165-167),
    by structural recursion on the number of increments still possible inside `opus_int32` (see `invLoop`). -/
def invLoopF : Nat → Int → Int → Int → Int
  | 0, inv, _, _ => inv
  | k + 1, inv, fsOut, target => if smulww inv fsOut < target then invLoopF k (inv + 1) fsOut target else inv

/-- The loop :165-167.  The counter handed to `invLoopF` is `INT32_MAX - invRatio_Q16`, exactly the number of
    increments after which `invRatio_Q16++` would overflow `opus_int32`; it is not an approximation of the loop
    (for the 30 accepted rate pairs the loop runs at most a few times — OpusProofs/SilkResampInit.lean). -/
def invLoop (inv fsOut target : Int) : Int := invLoopF (2147483647 - inv).toNat inv fsOut target

def isRate5 (r : Int) : Bool := r = 8000 || r = 12000 || r = 16000 || r = 24000 || r = 48000
def isRate3 (r : Int) : Bool := r = 8000 || r = 12000 || r = 16000

/-- Function selection :113-159: `(resampler_function, up2x, FIR_Fracs, FIR_Order, coefId)`; `none` = "None
    available" (:151-153, celt_assert( 0 )). -/
def selectFn (fsIn fsOut : Int) : Option (Int × Nat × Int × Nat × Nat) :=
  if fsOut > fsIn then
    if fsOut = fsIn * 2 then some (useUp2HQ, 0, 0, 0, 0)
    else some (useIIRFIR, 1, 0, 0, 0)
  else if fsOut < fsIn then
    if fsOut * 4 = fsIn * 3 then some (useDownFIR, 0, 3, downOrderFir0, 1)
    else if fsOut * 3 = fsIn * 2 then some (useDownFIR, 0, 2, downOrderFir0, 2)
    else if fsOut * 2 = fsIn then some (useDownFIR, 0, 1, downOrderFir1, 3)
    else if fsOut * 3 = fsIn then some (useDownFIR, 0, 1, downOrderFir2, 4)
    else if fsOut * 4 = fsIn then some (useDownFIR, 0, 1, downOrderFir2, 5)
    else if fsOut * 6 = fsIn then some (useDownFIR, 0, 1, downOrderFir2, 6)
    else none
  else some (useCopy, 0, 0, 0, 0)

def zeros (n : Nat) : List Int := List.replicate n 0

def init (fsIn fsOut : Int) (forEnc : Bool) : Res RS :=
  let ok := if forEnc then isRate5 fsIn && isRate3 fsOut else isRate3 fsIn && isRate5 fsOut   -- :92-93, :100-101
  if !ok then .abort                                                            -- :94 / :102 celt_assert( 0 )
  else
    match matrixAt (if forEnc then delayMatrixEnc else delayMatrixDec) (rateId fsIn) (rateId fsOut) with  -- :97, :105
    | .ok delay =>
      match selectFn fsIn fsOut with
      | none => .abort
      | some (fn, up2x, fracs, order, cid) =>
        let fsInK := Int.tdiv fsIn 1000                                         -- :108
        let fsOutK := Int.tdiv fsOut 1000                                       -- :109
        let inv0 := lshift32 (Int.tdiv (lshift32 fsIn (14 + up2x)) fsOut) 2    -- :163
        let inv := invLoop inv0 fsOut (lshift32 fsIn up2x)
        .ok { cfg := { fn := fn, batchSize := (fsInK * maxBatchSizeMs).toNat, invRatio := inv, firOrder := order,
                       firFracs := fracs, fsIn := fsInK.toNat, fsOut := fsOutK.toNat, inputDelay := delay.toNat,
                       coefId := cid },
              sIIR := IIR.zero, sFIR := zeros szSFIRi32, delayBuf := zeros szDelayBuf }               -- memset :89
    | .err e => .err e
    | .oob => .oob
    | .abort => .abort

/-! ## silk_resampler_init in a build whose `celt_assert` is a no-op (neither ENABLE_HARDENING nor
      ENABLE_ASSERTIONS): the `return -1` paths (:95, :103, :153) and the state they leave -/

/-- What `silk_memset( S, 0, sizeof( silk_resampler_state_struct ) )` (:89) leaves. -/
def RS.zero : RS :=
  { cfg := { fn := 0, batchSize := 0, invRatio := 0, firOrder := 0, firFracs := 0, fsIn := 0, fsOut := 0,
             inputDelay := 0, coefId := 0 },
    sIIR := IIR.zero, sFIR := zeros szSFIRi32, delayBuf := zeros szDelayBuf }

/-- Return value and state after silk_resampler_init without assertions.  A rejected rate (:95 / :103) returns
    -1 right after the memset; "None available" (:153) returns -1 after inputDelay, Fs_in_kHz, Fs_out_kHz,
    batchSize and resampler_function were stored (never reached for a pair that passed the rate check:
    `OpusProofs.SilkResamp.selectFn_isSome`). -/
def initRet (fsIn fsOut : Int) (forEnc : Bool) : Res (Int × RS) :=
  let ok := if forEnc then isRate5 fsIn && isRate3 fsOut else isRate3 fsIn && isRate5 fsOut
  if !ok then .ok (-1, RS.zero)
  else
    match init fsIn fsOut forEnc with
    | .ok S => .ok (0, S)
    | .abort =>
      match matrixAt (if forEnc then delayMatrixEnc else delayMatrixDec) (rateId fsIn) (rateId fsOut) with
      | .ok delay =>
        .ok (-1, { cfg := { fn := useDownFIR, batchSize := (Int.tdiv fsIn 1000 * maxBatchSizeMs).toNat, invRatio := 0,
                            firOrder := 0, firFracs := 0, fsIn := (Int.tdiv fsIn 1000).toNat,
                            fsOut := (Int.tdiv fsOut 1000).toNat, inputDelay := delay.toNat, coefId := 0 },
                   sIIR := IIR.zero, sFIR := zeros szSFIRi32, delayBuf := zeros szDelayBuf })
      | _ => .oob
    | .oob => .oob
    | .err e => .err e

/-! ## Call histories -/

/-- Consecutive calls of silk_resampler on one state: the outputs of the calls, and the final state. -/
def run (S : RS) : List (List Int) → Res (RS × List (List Int))
  | [] => .ok (S, [])
  | xs :: rest =>
    match resampler S xs with
    | .ok r =>
      match run r.1 rest with
      | .ok t => .ok (t.1, r.2 :: t.2)
      | .err e => .err e
      | .oob => .oob
      | .abort => .abort
    | .err e => .err e
    | .oob => .oob
    | .abort => .abort

end Opus.SilkResamp
