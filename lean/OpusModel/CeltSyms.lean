import OpusModel.Basic
import OpusModel.RangeCoder
import OpusModel.Laplace
import OpusModel.CeltSymsFrozen
/-
  OpusModel.CeltSyms — the *symbol layer of the CELT frame header* (property C03, stage 2): every range-decoder
  read of `celt_decode_with_ec_dred` from its first symbol up to the call of `clt_compute_allocation`, in order,
  with its parameters, under the budget conditions of the C code.  Output: the decoded header fields, the trace of
  entropy-decoder calls and the arguments / decoder state with which the bit allocation is entered.

  C sources transcribed (pinned tree):
    celt/celt_decoder.c:1105-1256   celt_decode_with_ec_dred: silence flag, post-filter, transient, intra, spread,
                                    dynalloc loop, allocation trim, anti-collapse reservation
    celt/celt_decoder.c:452-489     tf_decode
    celt/quant_bands.c:427-489      unquant_coarse_energy (symbol reads only; the energy arithmetic is DSP)
    celt/laplace.c:100-132          ec_laplace_decode — via OpusModel/Laplace.lean (owned by C17, read-only)
    celt/celt.c:273-282             init_caps

  Conventions: as in OpusModel/SilkSyms.lean — FROZEN tables (OpusModel/CeltSymsFrozen.lean, proved equal to the
  regenerated ones), composite functions in match style, constants of the C code as literals
  (BITRES 3, SPREAD_NORMAL 2, default trim 5, tf logp 2/4 and 4/5, dynalloc_logp 6 → ≥ 2, …).
  C `int` arithmetic is unbounded `Int`/`Nat`; `opus_uint32` budgets in `tf_decode` never wrap (storage ≤ 1275).
  The only unbounded C loop, the dynalloc `while`, is well-founded on `cap[i] - boost` (each round adds
  `quanta ≥ 1`); `Laplace.decode` reports `.abort` when one of laplace.c's `celt_assert`s would fire.
  Core Lean only.
-/
namespace Opus.CeltSyms
open Opus Opus.RangeCoder Opus.CeltSymsFrozen

/-- One call of the entropy decoder, as the harness records it. -/
inductive CEv where
  | bit (logp v : Nat)                        -- ec_dec_bit_logp
  | uint (ft v : Nat)                         -- ec_dec_uint
  | raw (n v : Nat)                           -- ec_dec_bits
  | icdf (ftb : Nat) (tbl : List Nat) (v : Nat)   -- ec_dec_icdf
  | bin (bits fm : Nat)                       -- ec_decode_bin
  | upd (fl fh ft : Nat)                      -- ec_dec_update
  | dec (ft fs : Nat)                         -- ec_decode
  deriving Repr, DecidableEq, Inhabited

/-- Static configuration of a CELT frame as `opus_decode_frame` sets it up. -/
structure CeltCfg where
  start : Nat      -- st->start: 0, or 17 in hybrid frames
  end_ : Nat       -- st->end: 13 / 17 / 19 / 21 by bandwidth
  C : Nat          -- st->stream_channels
  LM : Nat         -- log2(frame_size / 120)
  deriving Repr, DecidableEq

/-! ### Global flags -/

/-- Silence flag (celt_decoder.c:1108-1113): `(silence, ctx, trace)`. -/
def readSilence (total : Int) (c : Dec) : Nat × Dec × List CEv :=
  if tell c ≥ total then (1, c, [])
  else if tell c = 1 then
    match decBitLogp c 15 with
    | (v, c1) => (v, c1, [.bit 15 v])
  else (0, c, [])

/-- "Pretend we've read all the remaining bits" (celt_decoder.c:1114-1119): the local `tell` and the context. -/
def applySilence (total t0 : Int) (sil : Nat) (c : Dec) : Int × Dec :=
  if sil ≠ 0 then (total, { c with nbitsTotal := ((c.nbitsTotal : Int) + (total - tell c)).toNat })
  else (t0, c)

/-- Post-filter parameters (celt_decoder.c:1133-1143). -/
structure PostFilter where
  on : Nat := 0
  octave : Nat := 0
  pitch : Nat := 0      -- postfilter_pitch
  qg : Nat := 0
  tapset : Nat := 0
  deriving Repr, DecidableEq, Inhabited

/-- The body of `if(ec_dec_bit_logp(dec, 1))` (celt_decoder.c:1136-1142). -/
def readPostFilterOn (total : Int) (c : Dec) : PostFilter × Dec × List CEv :=
  match decUint c 6 with
  | (octave, c1) =>
  match decBits c1 (4 + octave) with
  | (pb, c2) =>
  match decBits c2 3 with
  | (qg, c3) =>
    if tell c3 + 2 ≤ total then
      match decIcdf c3 tapsetIcdf 2 with
      | (ts, c4) =>
        ({ on := 1, octave, pitch := 16 * 2 ^ octave + pb - 1, qg, tapset := ts }, c4,
         [.uint 6 octave, .raw (4 + octave) pb, .raw 3 qg, .icdf 2 tapsetIcdf ts])
    else
      ({ on := 1, octave, pitch := 16 * 2 ^ octave + pb - 1, qg, tapset := 0 }, c3,
       [.uint 6 octave, .raw (4 + octave) pb, .raw 3 qg])

/-- Post-filter block (celt_decoder.c:1131-1144): `(params, tell, ctx, trace)`; `tellV` is the C local `tell`. -/
def readPostFilter (start : Nat) (total tellV : Int) (c : Dec) : PostFilter × Int × Dec × List CEv :=
  if start = 0 ∧ tellV + 16 ≤ total then
    match decBitLogp c 1 with
    | (b, c1) =>
      if b ≠ 0 then
        match readPostFilterOn total c1 with
        | (pf, c2, tr) => (pf, tell c2, c2, .bit 1 b :: tr)
      else ({}, tell c1, c1, [.bit 1 b])
  else ({}, tellV, c, [])

/-- Transient flag (celt_decoder.c:1146-1152): `(isTransient, tell, ctx, trace)`. -/
def readTransient (LM : Nat) (total tellV : Int) (c : Dec) : Nat × Int × Dec × List CEv :=
  if LM > 0 ∧ tellV + 3 ≤ total then
    match decBitLogp c 3 with
    | (b, c1) => (b, tell c1, c1, [.bit 3 b])
  else (0, tellV, c, [])

/-- Intra flag (celt_decoder.c:1160). -/
def readIntra (total tellV : Int) (c : Dec) : Nat × Dec × List CEv :=
  if tellV + 3 ≤ total then
    match decBitLogp c 3 with
    | (b, c1) => (b, c1, [.bit 3 b])
  else (0, c, [])

/-! ### Coarse energy (quant_bands.c:427-489) -/

/-- `(qi>>1)^-(qi&1)` for the `small_energy_icdf` symbol. -/
def smallMap (q : Nat) : Int := if q % 2 = 1 then -((q / 2 : Nat) : Int) - 1 else ((q / 2 : Nat) : Int)

/-- One coarse-energy symbol of band `i` (quant_bands.c:457-477) with probability model row `prob`. -/
def coarseOne (prob : List Nat) (i : Nat) (c : Dec) : Res (Int × Dec × List CEv) :=
  if ((c.storage * 8 : Nat) : Int) - tell c ≥ 15 then
    match decodeBin c 15 with
    | (fm, c1) =>
      match Laplace.decode fm (prob.getD (2 * min i 20) 0 * 128) (prob.getD (2 * min i 20 + 1) 0 * 64) with
      | .ok (v, fl, fh) => .ok (v, decUpdate c1 fl fh 32768, [.bin 15 fm, .upd fl fh 32768])
      | _ => .abort
  else if ((c.storage * 8 : Nat) : Int) - tell c ≥ 2 then
    match decIcdf c smallEnergyIcdf 2 with
    | (q, c1) => .ok (smallMap q, c1, [.icdf 2 smallEnergyIcdf q])
  else if ((c.storage * 8 : Nat) : Int) - tell c ≥ 1 then
    match decBitLogp c 1 with
    | (b, c1) => .ok (-(b : Int), c1, [.bit 1 b])
  else .ok (-1, c, [])

/-- The channel loop `do … while (++c < C)` for band `i`: `n` channels. -/
def coarseChans (prob : List Nat) (i : Nat) : Nat → Dec → Res (List Int × Dec × List CEv)
  | 0, c => .ok ([], c, [])
  | n + 1, c =>
    match coarseOne prob i c with
    | .ok (q, c1, t1) =>
      match coarseChans prob i n c1 with
      | .ok (qs, c2, t2) => .ok (q :: qs, c2, t1 ++ t2)
      | r => r
    | _ => .abort

/-- The band loop over `i = start .. end-1` (`k` bands left). -/
def coarseBands (prob : List Nat) (C : Nat) : Nat → Nat → Dec → Res (List Int × Dec × List CEv)
  | 0, _, c => .ok ([], c, [])
  | k + 1, i, c =>
    match coarseChans prob i C c with
    | .ok (q, c1, t1) =>
      match coarseBands prob C k (i + 1) c1 with
      | .ok (qs, c2, t2) => .ok (q ++ qs, c2, t1 ++ t2)
      | r => r
    | r => r

/-- `unquant_coarse_energy`: the decoded `qi` in band-major order. -/
def coarseEnergy (cfg : CeltCfg) (intra : Nat) (c : Dec) : Res (List Int × Dec × List CEv) :=
  coarseBands ((eProbModel.getD cfg.LM []).getD intra []) cfg.C (cfg.end_ - cfg.start) cfg.start c

/-! ### tf_decode (celt_decoder.c:452-489) -/

/-- The first loop of `tf_decode` over `k` bands: `(tf_res[] raw, tf_changed, ctx, trace)`;
    `logp`, `curr`, `changed`, `tellV` are the C locals, `budget` the (already reduced) budget. -/
def tfLoop (isT : Bool) (budget : Int) : Nat → Nat → Nat → Nat → Int → Dec → List Nat × Nat × Dec × List CEv
  | 0, _, _, changed, _, c => ([], changed, c, [])
  | k + 1, logp, curr, changed, tellV, c =>
    if tellV + logp ≤ budget then
      match decBitLogp c logp with
      | (b, c1) =>
        match tfLoop isT budget k (if isT then 4 else 5) (curr ^^^ b) (changed ||| (curr ^^^ b)) (tell c1) c1 with
        | (rs, ch, c2, tr) => ((curr ^^^ b) :: rs, ch, c2, .bit logp b :: tr)
    else
      match tfLoop isT budget k (if isT then 4 else 5) curr changed tellV c with
      | (rs, ch, c2, tr) => (curr :: rs, ch, c2, tr)

/-- `tf_select_table[LM][idx]`. -/
def tfTable (LM idx : Nat) : Int := (tfSelectTable.getD LM []).getD idx 0

/-- The tail of `tf_decode` (celt_decoder.c:478-488): `tf_select` is read only if a bit was reserved for it and the
    two candidate rows of `tf_select_table` differ; then `tf_res[]` is mapped through the table. -/
def tfFinish (cfg : CeltCfg) (isT rsv : Nat) (raw : List Nat) (changed : Nat) (c1 : Dec) (tr : List CEv) :
    List Int × Nat × Dec × List CEv :=
  if rsv ≠ 0 ∧ tfTable cfg.LM (4 * isT + 0 + changed) ≠ tfTable cfg.LM (4 * isT + 2 + changed) then
    match decBitLogp c1 1 with
    | (sel, c2) => (raw.map (fun r => tfTable cfg.LM (4 * isT + 2 * sel + r)), sel, c2, tr ++ [.bit 1 sel])
  else (raw.map (fun r => tfTable cfg.LM (4 * isT + r)), 0, c1, tr)

/-- `tf_select_rsv` (celt_decoder.c:463-464). -/
def tfRsv (cfg : CeltCfg) (isT : Nat) (c : Dec) : Nat :=
  if cfg.LM > 0 ∧ tell c + ((if isT ≠ 0 then 2 else 4 : Nat) : Int) + 1 ≤ ((c.storage * 8 : Nat) : Int) then 1 else 0

/-- `tf_decode`: `(tf_res[] after the table, tf_select, ctx, trace)`. -/
def tfDecode (cfg : CeltCfg) (isT : Nat) (c : Dec) : List Int × Nat × Dec × List CEv :=
  match tfLoop (isT ≠ 0) (((c.storage * 8 : Nat) : Int) - tfRsv cfg isT c) (cfg.end_ - cfg.start)
          (if isT ≠ 0 then 2 else 4) 0 0 (tell c) c with
  | (raw, changed, c1, tr) => tfFinish cfg isT (tfRsv cfg isT c) raw changed c1 tr

/-! ### Spread, dynalloc, trim -/

/-- Spread decision (celt_decoder.c:1199-1202). -/
def readSpread (total : Int) (c : Dec) : Nat × Dec × List CEv :=
  if tell c + 4 ≤ total then
    match decIcdf c spreadIcdf 5 with
    | (v, c1) => (v, c1, [.icdf 5 spreadIcdf v])
  else (2, c, [])

/-- `init_caps` for band `i` (celt.c:279-280). -/
def capOf (cfg : CeltCfg) (i : Nat) : Nat :=
  (cacheCaps.getD (nbEBands * (2 * cfg.LM + cfg.C - 1) + i) 0 + 64) * cfg.C *
    ((eBands.getD (i + 1) 0 - eBands.getD i 0) * 2 ^ cfg.LM) / 4

/-- `quanta` of band `i` (celt_decoder.c:1221-1224). -/
def quantaOf (cfg : CeltCfg) (i : Nat) : Nat :=
  let width := cfg.C * (eBands.getD (i + 1) 0 - eBands.getD i 0) * 2 ^ cfg.LM
  min (width * 8) (max 48 width)

/-- The `while` of the dynalloc loop for one band (celt_decoder.c:1227-1237):
    `(boost, total_bits, ctx, trace)`; `tellF` is `ec_tell_frac`, `totalF` the shrinking `total_bits<<BITRES`. -/
def boostLoop (cap quanta : Nat) (logp boost : Nat) (totalF : Int) (c : Dec) : Nat × Int × Dec × List CEv :=
  if _h : (tellFrac c : Int) + logp * 8 < totalF ∧ boost < cap ∧ 0 < quanta then
    match decBitLogp c logp with
    | (flag, c1) =>
      if flag = 0 then (boost, totalF, c1, [.bit logp flag])
      else
        match boostLoop cap quanta 1 (boost + quanta) (totalF - quanta) c1 with
        | (b, t, c2, tr) => (b, t, c2, .bit logp flag :: tr)
  else (boost, totalF, c, [])
termination_by cap - boost
decreasing_by omega

/-- The band loop of the dynalloc decoding: `(offsets[], total_bits, ctx, trace)`. -/
def dynalloc (cfg : CeltCfg) : Nat → Nat → Nat → Int → Dec → List Nat × Int × Dec × List CEv
  | 0, _, _, totalF, c => ([], totalF, c, [])
  | k + 1, i, dlogp, totalF, c =>
    match boostLoop (capOf cfg i) (quantaOf cfg i) dlogp 0 totalF c with
    | (boost, t1, c1, tr1) =>
      match dynalloc cfg k (i + 1) (if boost > 0 then max 2 (dlogp - 1) else dlogp) t1 c1 with
      | (bs, t2, c2, tr2) => (boost :: bs, t2, c2, tr1 ++ tr2)

/-- Allocation trim (celt_decoder.c:1245-1246). -/
def readTrim (totalF : Int) (c : Dec) : Nat × Dec × List CEv :=
  if (tellFrac c : Int) + 48 ≤ totalF then
    match decIcdf c trimIcdf 7 with
    | (v, c1) => (v, c1, [.icdf 7 trimIcdf v])
  else (5, c, [])

/-! ### The whole header -/

/-- Everything decoded before `clt_compute_allocation`, and what that function is called with. -/
structure CeltHdr where
  silence : Nat
  pf : PostFilter
  isTransient : Nat
  intra : Nat
  coarse : List Int          -- qi, band-major, C per band
  tfRes : List Int
  tfSelect : Nat
  spread : Nat
  offsets : List Nat
  trim : Nat
  bits : Int                 -- `bits` handed to clt_compute_allocation (anti-collapse reservation removed)
  antiCollapseRsv : Nat
  caps : List Nat            -- cap[0..nbEBands)
  dec : Dec                  -- decoder context at that point
  trace : List CEv
  deriving Repr

/-- Flags in front of the band energies: silence, post-filter, transient, intra. -/
def readFlags (cfg : CeltCfg) (total : Int) (c : Dec) : (Nat × PostFilter × Nat × Nat) × Dec × List CEv :=
  match readSilence total c with
  | (sil, c1, t1) =>
  match applySilence total (tell c) sil c1 with
  | (tv1, c2) =>
  match readPostFilter cfg.start total tv1 c2 with
  | (pf, tv2, c3, t2) =>
  match readTransient cfg.LM total tv2 c3 with
  | (isT, tv3, c4, t3) =>
  match readIntra total tv3 c4 with
  | (intra, c5, t4) => ((sil, pf, isT, intra), c5, t1 ++ t2 ++ t3 ++ t4)

/-- Everything behind the coarse energies: tf, spread, dynalloc, trim, reservation. -/
def readTail (cfg : CeltCfg) (len : Nat) (flags : Nat × PostFilter × Nat × Nat) (coarse : List Int)
    (tr0 : List CEv) (c : Dec) : CeltHdr :=
  match tfDecode cfg flags.2.2.1 c with
  | (tf, sel, c1, t1) =>
  match readSpread ((len * 8 : Nat) : Int) c1 with
  | (spread, c2, t2) =>
  match dynalloc cfg (cfg.end_ - cfg.start) cfg.start 6 ((len * 8 * 8 : Nat) : Int) c2 with
  | (offs, totalF, c3, t3) =>
  match readTrim totalF c3 with
  | (trim, c4, t4) =>
    { silence := flags.1, pf := flags.2.1, isTransient := flags.2.2.1, intra := flags.2.2.2, coarse, tfRes := tf,
      tfSelect := sel, spread, offsets := offs, trim,
      bits := ((len * 8 * 8 : Nat) : Int) - tellFrac c4 - 1 -
        (if flags.2.2.1 ≠ 0 ∧ cfg.LM ≥ 2 ∧ ((len * 8 * 8 : Nat) : Int) - tellFrac c4 - 1 ≥ (cfg.LM + 2) * 8 then 8 else 0),
      antiCollapseRsv :=
        if flags.2.2.1 ≠ 0 ∧ cfg.LM ≥ 2 ∧ ((len * 8 * 8 : Nat) : Int) - tellFrac c4 - 1 ≥ (cfg.LM + 2) * 8 then 8 else 0,
      caps := (List.range nbEBands).map (capOf cfg), dec := c4, trace := tr0 ++ t1 ++ t2 ++ t3 ++ t4 }

/-- The CELT frame header as read by `celt_decode_with_ec_dred(st, data, len, …, dec, …)` for `len > 1`. -/
def celtHeader (cfg : CeltCfg) (len : Nat) (c : Dec) : Res CeltHdr :=
  match readFlags cfg ((len * 8 : Nat) : Int) c with
  | (flags, c1, t1) =>
    match coarseEnergy cfg flags.2.2.2 c1 with
    | .ok (coarse, c2, t2) => .ok (readTail cfg len flags coarse (t1 ++ t2) c2)
    | .err e => .err e
    | .oob => .oob
    | .abort => .abort

/-- `end` band by bandwidth (opus_decoder.c:518-541). -/
def endBandOf (bandwidth : Nat) : Nat :=
  if bandwidth = 1101 then 13 else if bandwidth = 1102 ∨ bandwidth = 1103 then 17
  else if bandwidth = 1104 then 19 else 21


/-! ### How `opus_decode_frame` invokes the CELT decoder (opus_decoder.c:518-608) -/

/-- `LM` of a CELT frame of `spf48` samples at 48 kHz (`120 << LM`). -/
def lmOf (spf48 : Nat) : Nat := if spf48 ≥ 960 then 3 else if spf48 ≥ 480 then 2 else if spf48 ≥ 240 then 1 else 0

/-- Header of a CELT-only frame: fresh range decoder on the frame bytes, `start = 0`. -/
def celtOnlyHeader (bandwidth nCh spf48 : Nat) (frame : Bytes) : Res CeltHdr :=
  celtHeader { start := 0, end_ := endBandOf bandwidth, C := nCh, LM := lmOf spf48 } frame.length
    (decInit frame frame.length)

/-- Header of the CELT part of a hybrid frame: the range decoder continues behind the SILK data and the redundancy
    header, `start = 17`; `len` is what is left after the redundancy bytes were split off. -/
def hybridHeader (bandwidth nCh spf48 : Nat) (len : Nat) (c : Dec) : Res CeltHdr :=
  celtHeader { start := 17, end_ := endBandOf bandwidth, C := nCh, LM := lmOf spf48 } len c

/-- Header of a 5 ms redundancy frame: fresh range decoder on the redundancy bytes, `start = 0`, `LM = 1`. -/
def redundancyHeader (bandwidth nCh : Nat) (bytes : Bytes) : Res CeltHdr :=
  celtHeader { start := 0, end_ := endBandOf bandwidth, C := nCh, LM := 1 } bytes.length (decInit bytes bytes.length)

end Opus.CeltSyms
