import OpusModel.Basic
/-
  OpusModel.EncDecide — the pure-integer decisions of the Opus encoder that bind a
  packet's TOC byte to the settings (property C11, re-used by C02/C05):

    * `genToc`              src/opus_encoder.c:299-329   (gen_toc)
    * `frameSizeSelect`     src/opus_encoder.c:768-791   (frame_size_select)
    * `userBitrateToBitrate`src/opus_encoder.c:686-695
    * `budget`              src/opus_encoder.c:1154-1261 (max_data_bytes / CBR byte budget)
    * `lowBudget*`          src/opus_encoder.c:1267-1333 (the "PLC frame" path for tiny budgets)
    * `chanDecision` … `modeFix`, `chain`
                            src/opus_encoder.c:1355-1613 (channels / mode / bandwidth chain)
    * `frameSplit`          src/opus_encoder.c:1616-1643 (multi-frame packets)
    * `stepNormal`, `stepLowBudget`, `step`
                            one call of opus_encode_native seen from the TOC

  Everything the chain takes from floating-point DSP (rate-dependent stereo decision, the
  voice/music mode threshold, automatic bandwidth, detected bandwidth, decide_fec, SILK's
  internal sampling rate, whether the frame ran to the state update) is an `Oracle` field;
  theorems quantify over all oracle values.

  C `int` is modelled as unbounded `Int`.  `/` is only applied to operands that are
  non-negative at that point (Fs, frame sizes, byte counts, bit-rates ≥ 0), where C's
  truncating division and Lean's `Int./` agree; all products stay below 2^31 for
  Fs ≤ 48000, frame_size ≥ Fs/400, out_data_bytes clamped to 1276, bit-rate ≤ 600000
  (lemma `budget_no_overflow` in OpusProofs/EncDecide.lean).
-/
namespace Opus.EncDecide
open Opus

/-! ### Constants of include/opus_defines.h and src/opus_private.h -/
abbrev OPUS_AUTO : Int := -1000
abbrev OPUS_BITRATE_MAX : Int := -1
abbrev BW_NB : Int := 1101
abbrev BW_MB : Int := 1102
abbrev BW_WB : Int := 1103
abbrev BW_SWB : Int := 1104
abbrev BW_FB : Int := 1105
abbrev MODE_SILK_ONLY : Int := 1000
abbrev MODE_HYBRID : Int := 1001
abbrev MODE_CELT_ONLY : Int := 1002
abbrev APP_VOIP : Int := 2048
abbrev APP_AUDIO : Int := 2049
abbrev APP_RESTRICTED_LOWDELAY : Int := 2051
abbrev FRAMESIZE_ARG : Int := 5000
abbrev FRAMESIZE_2_5_MS : Int := 5001
abbrev FRAMESIZE_40_MS : Int := 5005
abbrev FRAMESIZE_120_MS : Int := 5009

/-! ### gen_toc -/

/-- The `while (framerate < 400) { framerate <<= 1; period++; }` loop of gen_toc
    (opus_encoder.c:304-308), `n` = iterations still allowed.
    Fuel: for `framerate ≥ 1` the loop runs at most 9 times (2^9 > 400), so `tocPeriod`
    uses 9; `tocPeriodAux_fuel` (OpusProofs) shows more fuel never changes the result.
    For `framerate ≤ 0` the C loop does not terminate; every caller passes
    `Fs/frame_size ≥ 8` (lemma `frameRate_ge_8`). -/
def tocPeriodAux : Nat → Nat → Nat
  | 0, _ => 0
  | n + 1, fr => if fr < 400 then 1 + tocPeriodAux n (2 * fr) else 0

def tocPeriod (framerate : Nat) : Nat := tocPeriodAux 9 framerate

/-- Arguments on which gen_toc's shifts/ors are well defined and field-disjoint
    (non-negative shift operands, every field inside its bit range). -/
def GenTocDom (mode framerate bandwidth : Int) : Prop :=
  1 ≤ framerate ∧
  ((mode = MODE_SILK_ONLY ∧ BW_NB ≤ bandwidth ∧ bandwidth ≤ BW_WB ∧
      2 ≤ tocPeriod framerate.toNat ∧ tocPeriod framerate.toNat ≤ 5) ∨
   (mode = MODE_CELT_ONLY ∧ BW_NB ≤ bandwidth ∧ bandwidth ≤ BW_FB ∧ tocPeriod framerate.toNat ≤ 3) ∨
   (mode = MODE_HYBRID ∧ BW_SWB ≤ bandwidth ∧ bandwidth ≤ BW_FB ∧
      2 ≤ tocPeriod framerate.toNat ∧ tocPeriod framerate.toNat ≤ 3))

instance (m f b : Int) : Decidable (GenTocDom m f b) := by unfold GenTocDom; infer_instance

/-- `gen_toc` (opus_encoder.c:299-329).  On `GenTocDom` the C expression
    `a<<5 | b<<3 | c<<2` has disjoint fields and equals the sum written here
    (checked exhaustively against the C function by the `toc` op of suite `ctl`).
    Any mode other than SILK_ONLY / CELT_ONLY takes the hybrid branch, as in C. -/
def genToc (mode framerate bandwidth channels : Int) : Nat :=
  let period : Int := tocPeriod framerate.toNat
  let toc : Int :=
    if mode = MODE_SILK_ONLY then (bandwidth - BW_NB) * 32 + (period - 2) * 8
    else if mode = MODE_CELT_ONLY then
      let tmp := bandwidth - BW_MB
      let tmp := if tmp < 0 then 0 else tmp
      128 + tmp * 32 + period * 8
    else 96 + (bandwidth - BW_SWB) * 16 + (period - 2) * 8
  let toc := toc + (if channels = 2 then 4 else 0)
  (toc % 256).toNat

/-! ### frame_size_select -/

/-- `frame_size_select` (opus_encoder.c:768-796); `-1` = rejected. -/
def frameSizeSelect (frameSize variableDuration fs : Int) : Int :=
  if frameSize < fs / 400 then -1
  else
    let sel : Option Int :=
      if variableDuration = FRAMESIZE_ARG then some frameSize
      else if FRAMESIZE_2_5_MS ≤ variableDuration ∧ variableDuration ≤ FRAMESIZE_120_MS then
        if variableDuration ≤ FRAMESIZE_40_MS then
          some ((fs / 400) * 2 ^ (variableDuration - FRAMESIZE_2_5_MS).toNat)
        else some ((variableDuration - FRAMESIZE_2_5_MS - 2) * fs / 50)
      else none
    match sel with
    | none => -1
    | some newSize =>
      if newSize > frameSize then -1
      -- nothing above 120 ms is an Opus frame size (fix 212cbc41; keeps the products below inside `int`)
      else if newSize > 6 * fs / 50 then -1
      else if 400 * newSize ≠ fs ∧ 200 * newSize ≠ fs ∧ 100 * newSize ≠ fs ∧
              50 * newSize ≠ fs ∧ 25 * newSize ≠ fs ∧ 50 * newSize ≠ 3 * fs ∧
              50 * newSize ≠ 4 * fs ∧ 50 * newSize ≠ 5 * fs ∧ 50 * newSize ≠ 6 * fs then -1
      else newSize

/-! ### Encoder state seen by the decision chain -/

/-- Settings and running state of `OpusEncoder` that `opus_encode_native` reads or writes
    on the way to the TOC byte (opus_encoder.c:74-140). -/
structure DSt where
  -- settings
  fs : Int
  channels : Int
  application : Int
  userBitrate : Int        -- user_bitrate_bps
  useVbr : Int
  forceChannels : Int
  maxBandwidth : Int
  userBandwidth : Int
  userForcedMode : Int
  lfe : Int
  -- running state
  streamChannels : Int
  mode : Int
  prevMode : Int
  prevChannels : Int
  prevFramesize : Int
  bandwidth : Int
  first : Bool
  toMono : Int             -- silk_mode.toMono
  deriving DecidableEq, Repr

/-- `user_bitrate_to_bitrate` (opus_encoder.c:686-695). -/
def userBitrateToBitrate (s : DSt) (frameSize maxDataBytes : Int) : Int :=
  let frameSize := if frameSize = 0 then s.fs / 400 else frameSize
  if s.userBitrate = OPUS_AUTO then 60 * s.fs / frameSize + s.fs * s.channels
  else if s.userBitrate = OPUS_BITRATE_MAX then maxDataBytes * 8 * s.fs / frameSize
  else s.userBitrate

/-- Byte/bit budget after opus_encoder.c:1154-1261. -/
structure Budget where
  maxDataBytes : Int
  bitrateBps : Int
  cbrBytes : Int           -- -1 in VBR
  deriving DecidableEq, Repr

/-- opus_encoder.c:1154, 1249-1261 (`max_data_bytes`, `st->bitrate_bps`, `cbr_bytes`). -/
def budget (s : DSt) (frameSize outDataBytes : Int) : Budget :=
  let maxDataBytes := min 1276 outDataBytes
  let bitrate := userBitrateToBitrate s frameSize maxDataBytes
  if s.useVbr = 0 then
    let frameRate12 := 12 * s.fs / frameSize
    let cbrBytes := min ((12 * bitrate / 8 + frameRate12 / 2) / frameRate12) maxDataBytes
    { maxDataBytes := max 1 cbrBytes, bitrateBps := cbrBytes * frameRate12 * 8 / 12, cbrBytes }
  else { maxDataBytes, bitrateBps := bitrate, cbrBytes := -1 }

/-- Early exits of opus_encode_native (opus_encoder.c:1157-1168). -/
def entryError (s : DSt) (frameSize outDataBytes : Int) : Option Err :=
  let maxDataBytes := min 1276 outDataBytes
  if frameSize ≤ 0 ∨ maxDataBytes ≤ 0 then some .badArg
  else if maxDataBytes = 1 ∧ s.fs = frameSize * 10 then some .bufferTooSmall
  else none

/-- Condition of opus_encoder.c:1267-1268: the budget is too small to code anything. -/
def lowBudget (s : DSt) (frameSize outDataBytes : Int) : Bool :=
  let b := budget s frameSize outDataBytes
  let frameRate := s.fs / frameSize
  decide (b.maxDataBytes < 3 ∨ b.bitrateBps < 3 * frameRate * 8 ∨
    (frameRate < 50 ∧ (b.maxDataBytes * frameRate < 300 ∨ b.bitrateBps < 2400)))

/-- What the low-budget path writes (opus_encoder.c:1270-1321) before CBR padding. -/
structure LowPkt where
  toc : Nat               -- data[0], packet code included
  count : Option Nat      -- data[1] for code 3
  deriving DecidableEq, Repr

/-- opus_encoder.c:1270-1321 as a function of the fields it reads: `st->Fs`, `st->mode`,
    `st->bandwidth`, `st->stream_channels` (all *stale*: nothing on this path updates them),
    the frame size and whether `out_data_bytes == 1`. -/
def lowBudgetCore (fs mode bandwidth streamChannels frameSize : Int) (oneByte : Bool) : LowPkt :=
  let frameRate := fs / frameSize
  let tocmode := mode
  let bw := if bandwidth = 0 then BW_NB else bandwidth
  let tocmode := if tocmode = 0 then MODE_SILK_ONLY else tocmode
  let tocmode := if frameRate > 100 then MODE_CELT_ONLY else tocmode
  -- 40 ms -> 2 x 20 ms if in CELT_ONLY or HYBRID mode
  let (frameRate, packetCode) :=
    if frameRate = 25 ∧ tocmode ≠ MODE_SILK_ONLY then ((50 : Int), (1 : Int)) else (frameRate, 0)
  -- >= 60 ms frames
  let (tocmode, frameRate, packetCode, numMultiframes) :=
    if frameRate ≤ 16 then
      if oneByte ∨ (tocmode = MODE_SILK_ONLY ∧ frameRate ≠ 10) then
        (MODE_SILK_ONLY, (if frameRate = 12 then (25 : Int) else 16),
          (if frameRate ≤ 12 then (1 : Int) else 0), (0 : Int))
      else (tocmode, 50, 3, 50 / frameRate)
    else (tocmode, frameRate, packetCode, 0)
  let bw :=
    if tocmode = MODE_SILK_ONLY ∧ bw > BW_WB then BW_WB
    else if tocmode = MODE_CELT_ONLY ∧ bw = BW_MB then BW_NB
    else if tocmode = MODE_HYBRID ∧ bw ≤ BW_SWB then BW_SWB
    else bw
  let toc := genToc tocmode frameRate bw streamChannels
  { toc := toc + packetCode.toNat, count := if packetCode = 3 then some numMultiframes.toNat else none }

/-- opus_encoder.c:1270-1321. -/
def lowBudgetPacket (s : DSt) (frameSize outDataBytes : Int) : LowPkt :=
  lowBudgetCore s.fs s.mode s.bandwidth s.streamChannels frameSize (decide (outDataBytes = 1))

/-- Number of frames a low-budget packet announces. -/
def LowPkt.frames (p : LowPkt) : Nat :=
  match p.count with
  | some n => n
  | none => if p.toc % 4 = 0 then 1 else 2

/-! ### The decision chain -/

/-- DSP-dependent inputs of one `opus_encode_native` call. -/
structure Oracle where
  autoChannels : Int       -- :1367-1375  (equiv_rate > stereo_threshold) ? 2 : 1
  autoMode : Int           -- :1416-1451  MODE_SILK_ONLY or MODE_CELT_ONLY
  allowBwSwitch : Bool     -- silk_mode.allowBandwidthSwitch
  autoBandwidth : Int      -- :1507-1547  result of the threshold walk incl. MB→WB and the WB hold
  detected : Int           -- :1574-1594  max(detected_bandwidth, min_detected) or 0 if no analysis
  fecBandwidth : Int       -- bandwidth left by decide_fec (:1596); out of range = unchanged
  silkBandwidth : Int      -- TOC bandwidth from silk_mode.internalSampleRate in SILK-only mode (:2103-2110)
  completion : Nat         -- 0: no (sub)frame reached :2405-2412 (SILK DTX return at :2117);
                           -- 1: all did; 2: some did but not the last one of a multi-frame packet
  deriving DecidableEq, Repr

/-- :1355-1380 (non-FUZZING build). -/
def chanDecision (s : DSt) (o : Oracle) : Int :=
  if s.forceChannels ≠ OPUS_AUTO ∧ s.channels = 2 then s.forceChannels
  else if s.channels = 2 then o.autoChannels
  else s.channels

/-- :1394-1460: requested mode before the transition logic. -/
def modeDecision (s : DSt) (o : Oracle) (frameSize : Int) : Int :=
  let mode :=
    if s.application = APP_RESTRICTED_LOWDELAY then MODE_CELT_ONLY
    else if s.userForcedMode = OPUS_AUTO then o.autoMode
    else s.userForcedMode
  -- Override the chosen mode to make sure we meet the requested frame size
  let mode := if mode ≠ MODE_CELT_ONLY ∧ frameSize < s.fs / 100 then MODE_CELT_ONLY else mode
  if s.lfe ≠ 0 then MODE_CELT_ONLY else mode

/-- Result of :1462-1479. -/
structure Trans where
  mode : Int
  redundancy : Bool
  celtToSilk : Bool
  toCelt : Bool
  deriving DecidableEq, Repr

/-- :1462-1479: a switch to CELT is postponed by one frame (`to_celt`) when the frame is ≥ 10 ms. -/
def modeTransition (mode prevMode frameSize fs : Int) : Trans :=
  if prevMode > 0 ∧ ((mode ≠ MODE_CELT_ONLY ∧ prevMode = MODE_CELT_ONLY) ∨
                      (mode = MODE_CELT_ONLY ∧ prevMode ≠ MODE_CELT_ONLY)) then
    let celtToSilk := decide (mode ≠ MODE_CELT_ONLY)
    if !celtToSilk then
      if frameSize ≥ fs / 100 then { mode := prevMode, redundancy := true, celtToSilk, toCelt := true }
      else { mode, redundancy := false, celtToSilk, toCelt := false }
    else { mode, redundancy := true, celtToSilk, toCelt := false }
  else { mode, redundancy := false, celtToSilk := false, toCelt := false }

/-- :1483-1491: the stereo→mono switch is delayed by one frame in SILK/hybrid. Returns
    `(stream_channels, toMono)`. -/
def monoDelay (streamChannels prevChannels toMono mode prevMode : Int) : Int × Int :=
  if streamChannels = 1 ∧ prevChannels = 2 ∧ toMono = 0 ∧ mode ≠ MODE_CELT_ONLY ∧ prevMode ≠ MODE_CELT_ONLY
  then (2, 1) else (streamChannels, 0)

/-- :1505-1548: `st->bandwidth` after the automatic selection (kept when the block is skipped). -/
def autoBw (s : DSt) (o : Oracle) (mode : Int) : Int :=
  if mode = MODE_CELT_ONLY ∨ s.first ∨ o.allowBwSwitch then o.autoBandwidth else s.bandwidth

/-- :1550-1571: max_bandwidth, user_bandwidth, the hybrid rate guard and the Nyquist clamps. -/
def clampBw (s : DSt) (mode maxRate bw : Int) : Int :=
  let bw := if bw > s.maxBandwidth then s.maxBandwidth else bw
  let bw := if s.userBandwidth ≠ OPUS_AUTO then s.userBandwidth else bw
  let bw := if mode ≠ MODE_CELT_ONLY ∧ maxRate < 15000 then min bw BW_WB else bw
  let bw := if s.fs ≤ 24000 ∧ bw > BW_SWB then BW_SWB else bw
  let bw := if s.fs ≤ 16000 ∧ bw > BW_WB then BW_WB else bw
  let bw := if s.fs ≤ 12000 ∧ bw > BW_MB then BW_MB else bw
  let bw := if s.fs ≤ 8000 ∧ bw > BW_NB then BW_NB else bw
  bw

/-- :1574-1594 (detected bandwidth), :1596 (decide_fec may only lower the bandwidth),
    :1601-1604 (CELT has no medium band; LFE is narrowband). -/
def finishBw (s : DSt) (o : Oracle) (mode bw : Int) : Int :=
  let bw := if o.detected ≠ 0 ∧ s.userBandwidth = OPUS_AUTO then min bw o.detected else bw
  let bw := if BW_NB ≤ o.fecBandwidth ∧ o.fecBandwidth ≤ bw then o.fecBandwidth else bw
  let bw := if mode = MODE_CELT_ONLY ∧ bw = BW_MB then BW_WB else bw
  if s.lfe ≠ 0 then BW_NB else bw

/-- :1610-1613: SILK-only ↔ hybrid according to the bandwidth. -/
def modeFix (mode bw : Int) : Int :=
  let mode := if mode = MODE_SILK_ONLY ∧ bw > BW_WB then MODE_HYBRID else mode
  if mode = MODE_HYBRID ∧ bw ≤ BW_WB then MODE_SILK_ONLY else mode

/-- Outcome of the chain :1355-1613. -/
structure Decision where
  mode : Int
  bandwidth : Int          -- st->bandwidth = curr_bandwidth at :1606
  streamChannels : Int
  toMono : Int
  toCelt : Bool
  redundancy : Bool
  celtToSilk : Bool
  deriving DecidableEq, Repr

/-- opus_encoder.c:1355-1613 for budget `maxDataBytes` (value after :1260). -/
def chain (s : DSt) (o : Oracle) (frameSize maxDataBytes : Int) : Decision :=
  let tr := modeTransition (modeDecision s o frameSize) s.prevMode frameSize s.fs
  let md := monoDelay (chanDecision s o) s.prevChannels s.toMono tr.mode s.prevMode
  let maxRate := (s.fs / frameSize) * maxDataBytes * 8
  let bw := finishBw s o tr.mode (clampBw s tr.mode maxRate (autoBw s o tr.mode))
  { mode := modeFix tr.mode bw, bandwidth := bw, streamChannels := md.1, toMono := md.2,
    toCelt := tr.toCelt, redundancy := tr.redundancy, celtToSilk := tr.celtToSilk }

/-- :1616-1643: `(enc_frame_size, nb_frames)`; `(frame_size, 1)` for a single-frame packet. -/
def frameSplit (mode frameSize fs : Int) : Int × Int :=
  if (frameSize > fs / 50 ∧ mode ≠ MODE_SILK_ONLY) ∨ frameSize > 3 * fs / 50 then
    let e :=
      if mode = MODE_SILK_ONLY then
        if frameSize = 2 * fs / 25 then fs / 25
        else if frameSize = 3 * fs / 25 then 3 * fs / 50
        else fs / 50
      else fs / 50
    (e, frameSize / e)
  else (frameSize, 1)

/-- TOC bandwidth: SILK-only packets signal SILK's internal rate (:2103-2110). -/
def tocBandwidth (o : Oracle) (d : Decision) : Int :=
  if d.mode = MODE_SILK_ONLY ∧ BW_NB ≤ o.silkBandwidth ∧ o.silkBandwidth ≤ BW_WB then o.silkBandwidth
  else d.bandwidth

/-- What one encode call contributes to the stream, seen from outside. -/
structure Pkt where
  toc : Nat                -- TOC byte without the code bits
  frames : Nat             -- number of frames in the packet
  lowBudget : Bool
  deriving DecidableEq, Repr

/-- State and packet after the normal path (:1334-1760 and the updates at :2405-2412). -/
def stepNormal (s : DSt) (o : Oracle) (frameSize maxDataBytes : Int) : DSt × Pkt :=
  let d := chain s o frameSize maxDataBytes
  let sp := frameSplit d.mode frameSize s.fs        -- (enc_frame_size, nb_frames)
  let multi := decide (sp.2 ≠ 1 ∨ sp.1 ≠ frameSize)
  let toc := genToc d.mode (s.fs / sp.1) (tocBandwidth o d) d.streamChannels
  -- multi-frame packets: prev_channels is set up front unless a stereo->mono switch is pending
  -- (since fix 34e4f763 the call no longer overwrites the user's force_channels)
  let prevChannels0 := if multi ∧ d.toMono = 0 then d.streamChannels else s.prevChannels
  let s1 : DSt := { s with streamChannels := d.streamChannels, mode := d.mode, bandwidth := d.bandwidth,
                           toMono := d.toMono, prevChannels := prevChannels0 }
  let s2 : DSt :=
    -- SILK DTX return (:2117-2127): nothing is updated except prev_channels (fix 88264869)
    if o.completion = 0 then { s1 with prevChannels := d.streamChannels }
    else { s1 with prevMode := (if d.toCelt ∧ o.completion = 1 then MODE_CELT_ONLY else d.mode),
                   prevChannels := d.streamChannels, prevFramesize := sp.1, first := false }
  (s2, { toc, frames := sp.2.toNat, lowBudget := false })

/-- The low-budget path returns before any state update except `bitrate_bps`/`rangeFinal`. -/
def stepLowBudget (s : DSt) (frameSize outDataBytes : Int) : DSt × Pkt :=
  let p := lowBudgetPacket s frameSize outDataBytes
  (s, { toc := p.toc - p.toc % 4, frames := p.frames, lowBudget := true })

/-- One successful `opus_encode_native(st, pcm, frame_size, data, out_data_bytes, …)`. -/
def step (s : DSt) (o : Oracle) (frameSize outDataBytes : Int) : DSt × Pkt :=
  if lowBudget s frameSize outDataBytes then stepLowBudget s frameSize outDataBytes
  else stepNormal s o frameSize (budget s frameSize outDataBytes).maxDataBytes

/-- A run of encode calls `(oracle, frame_size, out_data_bytes)` with no ctl in between:
    the final state and the packets produced. -/
def encodeSeq (s : DSt) : List (Oracle × Int × Int) → DSt × List Pkt
  | [] => (s, [])
  | (o, f, b) :: rest =>
    let (s1, p) := step s o f b
    let (s2, ps) := encodeSeq s1 rest
    (s2, p :: ps)

/-! ### Constraints the settings put on a packet (what suite `ctl honour` checks) -/

/-- Nyquist limit of the input rate as an Opus bandwidth. -/
def nyquistBw (fs : Int) : Int :=
  if fs ≤ 8000 then BW_NB else if fs ≤ 12000 then BW_MB else if fs ≤ 16000 then BW_WB
  else if fs ≤ 24000 then BW_SWB else BW_FB

/-- Largest bandwidth a non-low-budget packet may signal under the settings:
    the forced bandwidth if any (a medium-band request is coded as wideband by the MDCT layer),
    else the maximum bandwidth; never above Nyquist (same exception). -/
def bwLimit (s : DSt) (mode : Int) : Int :=
  let lim := if s.userBandwidth ≠ OPUS_AUTO then s.userBandwidth else s.maxBandwidth
  let lim := min lim (nyquistBw s.fs)
  if mode = MODE_CELT_ONLY ∧ lim = BW_MB then BW_WB else lim

end Opus.EncDecide
