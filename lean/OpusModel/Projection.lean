import OpusModel.Layout
import OpusModel.Matrix
/-
  OpusModel.Projection — projection decoder creation and the float paths of the mapping matrices (C10).

  C sources:  src/opus_projection_decoder.c:128-236  get_size / init / create
              src/mapping_matrix.c:40-56              mapping_matrix_get_size
              src/mapping_matrix.c:84-143             multiply_channel_in_float / out_float
  Core Lean only.
-/
namespace Opus.Projection
open Opus Opus.Layout Opus.Matrix

/-- `s = b[2i+1] << 8 | b[2i]; s = ((s & 0xFFFF) ^ 0x8000) - 0x8000`
    (src/opus_projection_decoder.c:151-155), arithmetically. -/
def importCell (lo hi : Nat) : Int := (((hi * 256 + lo) % 65536 + 32768) % 65536 : Nat) - 32768

/-- The two bytes `OPUS_PROJECTION_GET_DEMIXING_MATRIX` writes for a cell
    (src/opus_projection_encoder.c:500-501). -/
def exportCell (v : Int) : Nat × Nat := ((v % 65536).toNat % 256, (v % 65536).toNat / 256)

/-- The conversion loop over `count` cells; `.oob` when the caller's buffer is shorter than
    `2*count` bytes. -/
def importCells : Bytes → Nat → Res (List Int)
  | _, 0 => .ok []
  | lo :: hi :: rest, k + 1 =>
    match importCells rest k with
    | .ok cs => .ok (importCell lo hi :: cs)
    | .err e => .err e
    | .oob => .oob
    | .abort => .abort
  | _, _ + 1 => .oob

/-- `align(i)` (src/opus_private.h:194-203) in the verified build configuration (x86-64: the alignment
    `offsetof(struct foo, u)` is 8): the sum and the division are done in `unsigned int`, the result is
    converted back to `int` — which matters only for the negative sizes nonsensical arguments produce. -/
def alignI (i : Int) : Int :=
  let u := (((i + 7) % 4294967296) / 8 * 8) % 4294967296
  if u ≥ 2147483648 then u - 4294967296 else u

/-- `mapping_matrix_get_size(rows, cols)` (src/mapping_matrix.c:40-56); `sizeof(MappingMatrix) = 12`. -/
def matrixGetSize (rows cols : Int) : Int :=
  if rows > 255 ∨ cols > 255 then 0
  else if rows * cols * 2 > 65004 then 0
  else alignI 12 + alignI (rows * cols * 2)

def matrixSizeNonzero (rows cols : Int) : Bool := decide (matrixGetSize rows cols ≠ 0)

/-- State a successful `opus_projection_decoder_init` leaves behind. -/
structure ProjDecoder where
  matrix : MappingMatrix
  layout : ChannelLayout
  deriving DecidableEq, Repr

/-- `opus_projection_decoder_init` (src/opus_projection_decoder.c:146-207, as repaired by `fix:` commit
    31272f65: the argument ranges are checked first, so the scratch array `buf[nb_input_streams*channels]`
    always has a positive length).  `size` is the `demixing_matrix_size` argument, `dm` the bytes at
    `demixing_matrix` (`.oob` when the caller's buffer is shorter than the size it announces). -/
def decoderInit (innerOk : Bool) (channels streams coupled : Int) (dm : Bytes) (size : Int) : Res ProjDecoder :=
  if decArgsBad channels streams coupled then .err .badArg
  else
    let nin := streams + coupled
    if nin * channels * 2 ≠ size then .err .badArg
    else match importCells dm (nin * channels).toNat with
      | .ok cells =>
        if !matrixSizeNonzero channels nin then .err .badArg
        else match Layout.decoderInit innerOk channels streams coupled (List.range channels.toNat) with
          | .ok l => .ok { matrix := { rows := channels.toNat, cols := nin.toNat, gain := 0, data := cells }, layout := l }
          | .err e => .err e
          | .oob => .oob
          | .abort => .abort
      | .err e => .err e
      | .oob => .oob
      | .abort => .abort

/-- `opus_projection_decoder_get_size(...) != 0` (src/opus_projection_decoder.c:128-143;
    `opus_multistream_decoder_get_size` is 0 for `streams<1`, `coupled>streams`, `coupled<0`). -/
def decoderSizeNonzero (channels streams coupled : Int) : Bool :=
  matrixSizeNonzero (streams + coupled) channels &&
  !(decide (streams < 1) || decide (coupled > streams) || decide (coupled < 0))

/-- `opus_projection_decoder_create` (src/opus_projection_decoder.c:197-231). -/
def decoderCreate (innerOk : Bool) (channels streams coupled : Int) (dm : Bytes) (size : Int) : Res ProjDecoder :=
  if !decoderSizeNonzero channels streams coupled then .err .allocFail
  else decoderInit innerOk channels streams coupled dm size

/-! ### float paths, exactly, on dyadic rationals `n·2^e` -/

/-- A finite binary32 value / an exact intermediate: `n·2^e`. -/
abbrev Dy := Int × Int

/-- Sum of two dyadics (exact). -/
def dyAdd (a b : Dy) : Dy :=
  if a.2 ≤ b.2 then (a.1 + b.1 * 2 ^ (b.2 - a.2).toNat, a.2) else (a.1 * 2 ^ (a.2 - b.2).toNat + b.1, b.2)

/-- Is `n·2^e` a binary32 value (normal or subnormal)? -/
def dyExact (a : Dy) : Bool :=
  if a.1 = 0 then true
  else
    let m := a.1.natAbs
    let st := stripTwos 200 m 0            -- m = odd · 2^tz
    decide (m < 2 ^ 200) && decide (st.1 < 2 ^ 24) && decide ((Nat.log2 m : Int) + a.2 ≤ 127) &&
      decide (a.2 + st.2 ≥ -149)

/-- IEEE-754 binary32 bit pattern of an exact dyadic. -/
def dyBits (a : Dy) : Nat :=
  if a.1 = 0 then 0
  else
    let sign := if a.1 < 0 then 2 ^ 31 else 0
    let m := a.1.natAbs
    let k := Nat.log2 m
    let top : Int := (k : Int) + a.2                      -- exponent of the leading bit
    if top < -126 then                                       -- subnormal: field = value / 2^-149
      sign + (if a.2 + 149 ≥ 0 then m * 2 ^ (a.2 + 149).toNat else m / 2 ^ (-(a.2 + 149)).toNat)
    else
      let mant := if k ≤ 23 then m * 2 ^ (23 - k) else m / 2 ^ (k - 23)
      sign + (top + 127).toNat * 2 ^ 23 + (mant - 2 ^ 23)

structure FloatOut where
  vals : List Dy
  exact : Bool
  deriving DecidableEq, Repr

/-- Inner loop of `in_float` for sample `i`: `tmp += cell * input[input_rows*i + col]`. -/
def inFloatSample (m : MappingMatrix) (input : List Dy) (inputRows outputRow i : Nat) :
    Nat → Dy → Bool → Res (Dy × Bool)
  | 0, acc, ex => .ok (acc, ex)
  | k + 1, acc, ex =>
    let col := inputRows - (k + 1)
    match cell m outputRow col, input[inputRows * i + col]? with
    | .ok c, some x =>
      let p : Dy := (c * x.1, x.2)
      let s := dyAdd acc p
      inFloatSample m input inputRows outputRow i k s (ex && dyExact p && dyExact s)
    | .ok _, none => .oob
    | .err e, _ => .err e
    | .oob, _ => .oob
    | .abort, _ => .abort

def inFloatLoop (m : MappingMatrix) (input : List Dy) (inputRows outputRow : Nat) : Nat → Nat → Res FloatOut
  | 0, _ => .ok { vals := [], exact := true }
  | k + 1, i =>
    match inFloatSample m input inputRows outputRow i inputRows (0, 0) true with
    | .ok (s, ex) =>
      match inFloatLoop m input inputRows outputRow k (i + 1) with
      | .ok r =>
        let o : Dy := (s.1, s.2 - 15)                      -- (1/32768.f) * tmp
        .ok { vals := o :: r.vals, exact := ex && dyExact o && r.exact }
      | .err e => .err e
      | .oob => .oob
      | .abort => .abort
    | .err e => .err e
    | .oob => .oob
    | .abort => .abort

/-- `mapping_matrix_multiply_channel_in_float` (src/mapping_matrix.c:85-113): `output[output_rows*i]`
    for `i < frame_size`, exact when `exact` holds (every product, partial sum and the scaled result is a
    binary32 value, so no rounding occurs whatever the evaluation precision). -/
def multiplyChannelInFloat (m : MappingMatrix) (input : List Dy) (inputRows outputRow outputRows frameSize : Nat) :
    Res FloatOut :=
  if ¬ (inputRows ≤ m.cols ∧ outputRows ≤ m.rows) then .abort
  else inFloatLoop m input inputRows outputRow frameSize 0

/-- Rows of `out_float` for sample `i`: `output[output_rows*i+row] += ((1/32768.f)*cell) * input_sample`. -/
def outFloatRows (m : MappingMatrix) (inputRow outputRows i : Nat) (x : Dy) :
    Nat → List Dy → Bool → Res (List Dy × Bool)
  | 0, out, ex => .ok (out, ex)
  | k + 1, out, ex =>
    let row := outputRows - (k + 1)
    match cell m row inputRow, out[outputRows * i + row]? with
    | .ok c, some o =>
      let c15 : Dy := (c, -15)
      let t : Dy := (c * x.1, x.2 - 15)
      let s := dyAdd o t
      outFloatRows m inputRow outputRows i x k (out.set (outputRows * i + row) s)
        (ex && dyExact c15 && dyExact t && dyExact s)
    | .ok _, none => .oob
    | .err e, _ => .err e
    | .oob, _ => .oob
    | .abort, _ => .abort

def outFloatLoop (m : MappingMatrix) (input : List Dy) (inputRow inputRows outputRows : Nat) :
    Nat → Nat → List Dy → Bool → Res FloatOut
  | 0, _, out, ex => .ok { vals := out, exact := ex }
  | k + 1, i, out, ex =>
    match input[inputRows * i]? with
    | none => .oob
    | some x =>
      match outFloatRows m inputRow outputRows i x outputRows out ex with
      | .ok (out', ex') => outFloatLoop m input inputRow inputRows outputRows k (i + 1) out' ex'
      | .err e => .err e
      | .oob => .oob
      | .abort => .abort

/-- `mapping_matrix_multiply_channel_out_float` (src/mapping_matrix.c:115-143). -/
def multiplyChannelOutFloat (m : MappingMatrix) (input : List Dy) (inputRow inputRows : Nat) (output : List Dy)
    (outputRows frameSize : Nat) : Res FloatOut :=
  if ¬ (inputRows ≤ m.cols ∧ outputRows ≤ m.rows) then .abort
  else outFloatLoop m input inputRow inputRows outputRows frameSize 0 output true

/-! ### the 24-bit paths (float build: `opus_res = float`, `opus_val64 = float`) -/

/-- C `(opus_int32)x` of a 64-bit value (two's complement wrap; gcc semantics). -/
def wrap32 (x : Int) : Int := (x + 2147483648) % 4294967296 - 2147483648

/-- `RES2INT24(a) = float2int(32768.f*256.f*a)` (celt/arch.h:369; x86 `cvtss2si`): the float product
    `2^23·a` is exact, or overflows to ±inf; round to nearest even; a value outside `int` gives the
    "integer indefinite" `INT_MIN`. -/
def res2int24 (a : Dy) : Int :=
  let r := roundHalfEven a.1 (a.2 + 23)
  if r < -2147483648 ∨ r > 2147483647 then -2147483648 else r

/-- Inner loop of `in_int24` for sample `i`: `tmp += cell * (float)input[...]` in `float`. -/
def inInt24Sample (m : MappingMatrix) (input : List Int) (inputRows outputRow i : Nat) :
    Nat → Dy → Bool → Res (Dy × Bool)
  | 0, acc, ex => .ok (acc, ex)
  | k + 1, acc, ex =>
    let col := inputRows - (k + 1)
    match cell m outputRow col, input[inputRows * i + col]? with
    | .ok c, some x =>
      let xf : Dy := (x, 0)                                -- (opus_val64)input: exact iff dyExact
      let p : Dy := (c * x, 0)
      let s := dyAdd acc p
      inInt24Sample m input inputRows outputRow i k s (ex && dyExact xf && dyExact p && dyExact s)
    | .ok _, none => .oob
    | .err e, _ => .err e
    | .oob, _ => .oob
    | .abort, _ => .abort

def inInt24Loop (m : MappingMatrix) (input : List Int) (inputRows outputRow : Nat) : Nat → Nat → Res FloatOut
  | 0, _ => .ok { vals := [], exact := true }
  | k + 1, i =>
    match inInt24Sample m input inputRows outputRow i inputRows (0, 0) true with
    | .ok (s, ex) =>
      match inInt24Loop m input inputRows outputRow k (i + 1) with
      | .ok r =>
        -- INT24TORES((1/32768.f)*tmp) = (1.f/32768.f/256.) * ((1/32768.f)*tmp): the float product by 2^-15,
        -- then a double product by 2^-23 stored to float
        let t : Dy := (s.1, s.2 - 15)
        let o : Dy := (s.1, s.2 - 38)
        .ok { vals := o :: r.vals, exact := ex && dyExact t && dyExact o && r.exact }
      | .err e => .err e
      | .oob => .oob
      | .abort => .abort
    | .err e => .err e
    | .oob => .oob
    | .abort => .abort

/-- `mapping_matrix_multiply_channel_in_int24` (src/mapping_matrix.c:226-258, float build). -/
def multiplyChannelInInt24 (m : MappingMatrix) (input : List Int) (inputRows outputRow outputRows frameSize : Nat) :
    Res FloatOut :=
  if ¬ (inputRows ≤ m.cols ∧ outputRows ≤ m.rows) then .abort
  else inInt24Loop m input inputRows outputRow frameSize 0

/-- Rows of `out_int24` for sample `i`: `output[...] += (cell*sample + 16384) >> 15`, the 64-bit sum
    converted back to `opus_int32` (no saturation). -/
def outInt24Rows (m : MappingMatrix) (inputRow outputRows i : Nat) (sample : Int) :
    Nat → List Int → Res (List Int)
  | 0, out => .ok out
  | k + 1, out =>
    let row := outputRows - (k + 1)
    match cell m row inputRow, out[outputRows * i + row]? with
    | .ok c, some o =>
      outInt24Rows m inputRow outputRows i sample k
        (out.set (outputRows * i + row) (wrap32 (o + (c * sample + 16384) / 32768)))
    | .ok _, none => .oob
    | .err e, _ => .err e
    | .oob, _ => .oob
    | .abort, _ => .abort

def outInt24Loop (m : MappingMatrix) (input : List Dy) (inputRow inputRows outputRows : Nat) :
    Nat → Nat → List Int → Res (List Int)
  | 0, _, out => .ok out
  | k + 1, i, out =>
    match input[inputRows * i]? with
    | none => .oob
    | some x =>
      match outInt24Rows m inputRow outputRows i (res2int24 x) outputRows out with
      | .ok out' => outInt24Loop m input inputRow inputRows outputRows k (i + 1) out'
      | .err e => .err e
      | .oob => .oob
      | .abort => .abort

/-- `mapping_matrix_multiply_channel_out_int24` (src/mapping_matrix.c:260-288). -/
def multiplyChannelOutInt24 (m : MappingMatrix) (input : List Dy) (inputRow inputRows : Nat) (output : List Int)
    (outputRows frameSize : Nat) : Res (List Int) :=
  if ¬ (inputRows ≤ m.cols ∧ outputRows ≤ m.rows) then .abort
  else outInt24Loop m input inputRow inputRows outputRows frameSize 0 output

end Opus.Projection
