import OpusModel.Basic
import OpusModel.Gen.MappingMatrices
/-
  OpusModel.Matrix — mapping matrices of the projection (mapping family 3) API (C10).

  C sources:  src/mapping_matrix.h:43-49            struct MappingMatrix
              src/mapping_matrix.c:38-83            MATRIX_INDEX, get_size, init
              src/mapping_matrix.c:145-224          multiply_channel_in_short / out_short
              src/mapping_matrix.c:289-997          the ten built-in matrices (regenerated)
              src/opus_projection_encoder.c:469-507 export of the demixing matrix

  A matrix is stored column-major: cell (row, col) is `data[rows*col + row]`, a Q15 int16.

  Build configuration (DESIGN.md §1): float build, so `opus_res` = `float`.  There
  `mapping_matrix_multiply_channel_in_short` accumulates `int16*int16` products in a `float` and
  scales by 2^-30.  The model computes the exact integer sum `S` and reports the result as the
  dyadic rational `S·2^-30`; this is what the C code computes whenever every product and every
  partial sum is representable in binary32 (`f32Exact`), which `inShortExact` tests.  Outside that
  domain the float path rounds and is not modelled.  `multiply_channel_out_short` is integer
  arithmetic after the `RES2INT16` conversion of its float input and is modelled exactly.
-/
namespace Opus.Matrix
open Opus

/-- `MappingMatrix` plus the cell data that follows it in memory. -/
structure MappingMatrix where
  rows : Nat
  cols : Nat
  gain : Int
  data : List Int
  deriving DecidableEq, Repr

/-- 16-bit two's complement → value (the regenerated tables store int16 cells as 0..65535). -/
def toS16 (u : Nat) : Int := if u % 65536 ≥ 32768 then (u % 65536 : Int) - 65536 else (u % 65536 : Int)

/-- `(opus_int16)IMAX(-32768, IMIN(32767, x))` (src/mapping_matrix.c:220-221). -/
def sat16 (x : Int) : Int := if x < -32768 then -32768 else if x > 32767 then 32767 else x

def ofGen (g : Nat × Nat × Int × List Nat) : MappingMatrix :=
  { rows := g.1, cols := g.2.1, gain := g.2.2.1, data := g.2.2.2.map toS16 }

open Gen.MappingMatrices in
/-- Built-in mixing matrix for `order_plus_one` (src/opus_projection_encoder.c:255-291). -/
def mixingRaw (orderPlusOne : Nat) : Option (Nat × Nat × Int × List Nat) :=
  if orderPlusOne = 2 then some foaMixing
  else if orderPlusOne = 3 then some soaMixing
  else if orderPlusOne = 4 then some toaMixing
  else if orderPlusOne = 5 then some fourthoaMixing
  else if orderPlusOne = 6 then some fifthoaMixing
  else none

open Gen.MappingMatrices in
/-- Built-in demixing matrix for `order_plus_one` (src/opus_projection_encoder.c:300-336). -/
def demixingRaw (orderPlusOne : Nat) : Option (Nat × Nat × Int × List Nat) :=
  if orderPlusOne = 2 then some foaDemixing
  else if orderPlusOne = 3 then some soaDemixing
  else if orderPlusOne = 4 then some toaDemixing
  else if orderPlusOne = 5 then some fourthoaDemixing
  else if orderPlusOne = 6 then some fifthoaDemixing
  else none

def mixing (o : Nat) : Option MappingMatrix := (mixingRaw o).map ofGen
def demixing (o : Nat) : Option MappingMatrix := (demixingRaw o).map ofGen

/-- Rows/cols of the matrix pair selected for `order_plus_one` (argument `dims` of
    `Layout.projectionInit`). -/
def builtinDims (o : Nat) : Option (Nat × Nat × Nat × Nat) :=
  match mixingRaw o, demixingRaw o with
  | some m, some d => some (m.1, m.2.1, d.1, d.2.1)
  | _, _ => none

/-- `matrix_data[MATRIX_INDEX(matrix->rows, row, col)]`; `.oob` outside the stored cells. -/
def cell (m : MappingMatrix) (row col : Nat) : Res Int :=
  match m.data[m.rows * col + row]? with
  | some v => .ok v
  | none => .oob

/-! ### binary32 helpers (exact cases only) -/

/-- Strip factors of two: `n = m·2^e`, `m` odd (`n ≠ 0`).  Structural on a bound of the bit length. -/
def stripTwos : Nat → Nat → Nat → Nat × Nat
  | 0, n, e => (n, e)
  | k + 1, n, e => if n % 2 = 0 ∧ n ≠ 0 then stripTwos k (n / 2) (e + 1) else (n, e)

/-- An integer is a binary32 value iff its odd part is below 2^24 (exponent range is not an issue
    for |n| < 2^64). -/
def f32Exact (n : Int) : Bool :=
  let a := n.natAbs
  decide ((stripTwos 64 a 0).1 < 2 ^ 24) && decide (a < 2 ^ 64)

/-- IEEE-754 binary32 bit pattern of `n·2^e` for an `n` with `f32Exact n` and a normal result. -/
def f32Bits (n : Int) (e : Int) : Nat :=
  if n = 0 then 0
  else
    let sign := if n < 0 then 2 ^ 31 else 0
    let a := n.natAbs
    let k := Nat.log2 a                      -- a = 1.xxx · 2^k
    let ex : Int := (k : Int) + e + 127
    let mant := if k ≤ 23 then a * 2 ^ (23 - k) else a / 2 ^ (k - 23)
    sign + ex.toNat * 2 ^ 23 + (mant - 2 ^ 23)

/-- Decode a binary32 bit pattern into `(n, e)` with value `n·2^e` (finite values only;
    infinities / NaN give `none`). -/
def f32Decode (bits : Nat) : Option (Int × Int) :=
  let sign : Int := if bits / 2 ^ 31 % 2 = 1 then -1 else 1
  let ex : Nat := bits / 2 ^ 23 % 256
  let frac : Nat := bits % 2 ^ 23
  if ex = 255 then none
  else if ex = 0 then some (sign * (frac : Int), -149)
  else some (sign * ((frac + 2 ^ 23 : Nat) : Int), (ex : Int) - 150)

/-- `float2int` on x86 (cvtss2si): round to nearest, ties to even, of the dyadic `n·2^e`. -/
def roundHalfEven (n e : Int) : Int :=
  if e ≥ 0 then n * 2 ^ e.toNat
  else
    let d : Int := 2 ^ (-e).toNat
    let q := n / d          -- floor (Int division by a positive number is floor)
    let r := n % d          -- 0 ≤ r < d
    if 2 * r < d then q else if 2 * r > d then q + 1 else (if q % 2 = 0 then q else q + 1)

/-- `FLOAT2INT16` (celt/float_cast.h:150-156) of the finite float `n·2^e`:
    scale by 32768, clamp to [-32768, 32767], round to nearest even. -/
def float2int16 (n e : Int) : Int :=
  let e' := e + 15
  -- clamp: compare n·2^e' with the bounds
  let tooLow : Bool := if e' ≥ 0 then decide (n * 2 ^ e'.toNat < -32768) else decide (n < -32768 * 2 ^ (-e').toNat)
  let tooHigh : Bool := if e' ≥ 0 then decide (n * 2 ^ e'.toNat > 32767) else decide (n > 32767 * 2 ^ (-e').toNat)
  if tooLow then -32768 else if tooHigh then 32767 else roundHalfEven n e'

/-! ### mapping_matrix_multiply_channel_in_short -/

/-- Inner loop over `col` for sample `i` (src/mapping_matrix.c:163-175): the list of partial sums
    (for the exactness test) is returned together with the total. -/
def inShortSample (m : MappingMatrix) (input : List Int) (inputRows outputRow i : Nat) :
    Nat → Int → List Int → Res (Int × List Int)
  | 0, acc, trace => .ok (acc, trace)
  | k + 1, acc, trace =>
    let col := inputRows - (k + 1)
    match cell m outputRow col, input[inputRows * i + col]? with
    | .ok c, some x =>
      let p := c * x
      inShortSample m input inputRows outputRow i k (acc + p) (p :: (acc + p) :: trace)
    | .ok _, none => .oob
    | .err e, _ => .err e
    | .oob, _ => .oob
    | .abort, _ => .abort

/-- Result of `in_short`: for each `i < frame_size` the integer `S_i` with
    `output[output_rows*i] = S_i · 2^-30`, and whether every intermediate value is a binary32 value. -/
structure InShort where
  sums : List Int
  exact : Bool
  deriving DecidableEq, Repr

/-- Outer loop over `i`. -/
def inShortLoop (m : MappingMatrix) (input : List Int) (inputRows outputRow : Nat) :
    Nat → Nat → Res InShort
  | 0, _ => .ok { sums := [], exact := true }
  | k + 1, i =>
    match inShortSample m input inputRows outputRow i inputRows 0 [] with
    | .ok (s, trace) =>
      match inShortLoop m input inputRows outputRow k (i + 1) with
      | .ok r => .ok { sums := s :: r.sums, exact := trace.all f32Exact && r.exact }
      | .err e => .err e
      | .oob => .oob
      | .abort => .abort
    | .err e => .err e
    | .oob => .oob
    | .abort => .abort

/-- `mapping_matrix_multiply_channel_in_short` (src/mapping_matrix.c:145-186, float build).
    `input` is the interleaved int16 buffer (`input_rows` channels), `.abort` is the hardening
    assertion `input_rows <= cols && output_rows <= rows`. -/
def multiplyChannelInShort (m : MappingMatrix) (input : List Int) (inputRows outputRow outputRows frameSize : Nat) :
    Res InShort :=
  if ¬ (inputRows ≤ m.cols ∧ outputRows ≤ m.rows) then .abort
  else inShortLoop m input inputRows outputRow frameSize 0

/-! ### mapping_matrix_multiply_channel_out_short -/

/-- `l[i] := v` (no effect outside the list). -/
def setAt (l : List Int) (i : Nat) (v : Int) : List Int := l.set i v

/-- Inner loop over `row` (src/mapping_matrix.c:212-222):
    `tmp = output[output_rows*i + row] + ((cell*sample + 16384) >> 15)` in 32 bits, stored saturated
    to int16. -/
def outShortRows (m : MappingMatrix) (inputRow outputRows i : Nat) (sample : Int) :
    Nat → List Int → Res (List Int)
  | 0, out => .ok out
  | k + 1, out =>
    let row := outputRows - (k + 1)
    match cell m row inputRow, out[outputRows * i + row]? with
    | .ok c, some o =>
      let tmp := c * sample
      outShortRows m inputRow outputRows i sample k (setAt out (outputRows * i + row) (sat16 (o + (tmp + 16384) / 32768)))
    | .ok _, none => .oob
    | .err e, _ => .err e
    | .oob, _ => .oob
    | .abort, _ => .abort

/-- Outer loop over `i`; `input` holds the float samples as `(n, e)` = `n·2^e`. -/
def outShortLoop (m : MappingMatrix) (input : List (Int × Int)) (inputRow inputRows outputRows : Nat) :
    Nat → Nat → List Int → Res (List Int)
  | 0, _, out => .ok out
  | k + 1, i, out =>
    match input[inputRows * i]? with
    | none => .oob
    | some (n, e) =>
      match outShortRows m inputRow outputRows i (float2int16 n e) outputRows out with
      | .ok out' => outShortLoop m input inputRow inputRows outputRows k (i + 1) out'
      | .err e => .err e
      | .oob => .oob
      | .abort => .abort

/-- `mapping_matrix_multiply_channel_out_short` (src/mapping_matrix.c:188-224).  `input` starts at
    the sample of the stream (`buf` or `buf+1`), stride `input_rows`; `output` is the interleaved
    int16 buffer that is accumulated into. -/
def multiplyChannelOutShort (m : MappingMatrix) (input : List (Int × Int)) (inputRow inputRows : Nat)
    (output : List Int) (outputRows frameSize : Nat) : Res (List Int) :=
  if ¬ (inputRows ≤ m.cols ∧ outputRows ≤ m.rows) then .abort
  else outShortLoop m input inputRow inputRows outputRows frameSize 0 output

/-! ### the integer product P = D·M and the exported demixing matrix -/

/-- Columns of the top-left `r × c` sub-matrix. -/
def subCols (m : MappingMatrix) (r c : Nat) : List (List Int) :=
  (List.range c).map fun j => (m.data.drop (m.rows * j)).take r

/-- `a·x + y` on columns. -/
def axpy (a : Int) (x y : List Int) : List Int := List.zipWith (fun xi yi => a * xi + yi) x y

/-- `Σ_k v[k] · cols[k]` (a column of length `n`). -/
def matVec (cols : List (List Int)) (v : List Int) (n : Nat) : List Int :=
  (cols.zip v).foldl (fun acc cv => axpy cv.2 cv.1 acc) (List.replicate n 0)

/-- Columns of `P = D[0..ch, 0..nin] · M[0..nin, 0..ch]` over ℤ (cells are Q15·Q15 = Q30):
    `D` restricted as the demixing matrix is exported for `ch` channels and `nin` = streams+coupled
    inputs, `M` restricted to the rows/columns `opus_projection_encode` uses. -/
def productCols (d mx : MappingMatrix) (ch nin : Nat) : List (List Int) :=
  (subCols mx nin ch).map fun v => matVec (subCols d ch nin) v ch

/-- `OPUS_PROJECTION_GET_DEMIXING_MATRIX` (src/opus_projection_encoder.c:469-507): little-endian
    int16 cells, `nbIn` columns of `nbOut` rows taken from the top-left of the stored matrix
    (`k = rows*i + j`, `i < nbIn`, `j < nbOut`); `.oob` when the largest index lies outside the cells. -/
def exportDemixing (d : MappingMatrix) (nbIn nbOut : Nat) : Res Bytes :=
  if nbIn ≠ 0 ∧ nbOut ≠ 0 ∧ d.data.length < d.rows * (nbIn - 1) + nbOut then .oob
  else .ok ((subCols d nbOut nbIn).flatten.flatMap fun v => let u := (v % 65536).toNat; [u % 256, u / 256])

end Opus.Matrix
