import OpusModel.Repack
import OpusModel.Layout
/-
  OpusModel.MsEncode — packet assembly of `opus_multistream_encode_native`
  (src/opus_multistream_encoder.c:857-872 entry check, 899-910 CBR clamp, 925-1010 stream loop) (C10).

  The per-stream encoder `opus_encode_native` is an oracle `enc s curr_max`: `.ok pk` = it wrote the
  packet `pk` into `tmp_data` and returned `pk.length`; `.err e` = it returned the negative code.
  The repacketizer is the model of C07 (`Opus.Repack`, imported read-only).  Core Lean only.
-/
namespace Opus.MsEncode
open Opus Opus.Repack

/-- `MS_FRAME_TMP` (src/opus_multistream_encoder.c:801). -/
def MS_FRAME_TMP : Int := 6 * 1275 + 12

/-- `curr_max` handed to stream `s` of `n` (lines 974-986); `fs100` = `Fs/frame_size == 10`. -/
def currMax (n s : Nat) (fs100 : Bool) (maxData tot : Int) : Int :=
  let c0 := maxData - tot
  let c1 := c0 - max 0 (2 * ((n : Int) - s - 1) - 1)
  let c2 := if fs100 then c1 - ((n : Int) - s - 1) else c1
  let c3 := min c2 MS_FRAME_TMP
  if s + 1 ≠ n then c3 - (if c3 > 253 then 2 else 1) else c3

/-- The stream loop (lines 925-1010): `k` streams to go, `s` the current one, `tot` = `tot_size`,
    `acc` = the bytes written to `data` so far.  `opus_repacketizer_out_range_impl`'s return value is
    NOT checked by the C code (`data += len; tot_size += len`): a negative value would move the output
    pointer backwards — modelled as `.abort` (the theorems show it cannot happen). -/
def loop (n : Nat) (fs100 vbr : Bool) (maxData : Int) (enc : Nat → Int → Res Bytes) :
    Nat → Nat → Int → Bytes → Res Bytes
  | 0, _, _, acc => .ok acc
  | k + 1, s, tot, acc =>
    match enc s (currMax n s fs100 maxData tot) with
    | .ok pk =>
      match cat Rp.empty pk with
      | (rp, .ok ()) =>
        match outRangeImpl rp 0 rp.nbFrames (maxData - tot) (decide (s + 1 ≠ n)) (!vbr && decide (s + 1 = n)) #[] with
        | .ok bs => loop n fs100 vbr maxData enc k (s + 1) (tot + bs.length) (acc ++ bs)
        | .err _ => .abort
        | .oob => .oob
        | .abort => .abort
      | (_, _) => .err .internalError
    | .err e => .err e
    | .oob => .oob
    | .abort => .abort

/-- `smallest_packet` test (lines 857-866). -/
def smallestPacket (n : Nat) (fs100 : Bool) : Int := 2 * (n : Int) - 1 + (if fs100 then (n : Int) else 0)

/-- CBR clamp of `max_data_bytes` for an explicit bitrate (lines 899-910); `bitrate = none` stands
    for `OPUS_BITRATE_MAX`.  (`OPUS_AUTO` uses the rate allocation and is not modelled: the theorems
    hold for every effective `max_data_bytes`.) -/
def cbrClamp (n : Nat) (fs100 vbr : Bool) (fs frameSize : Nat) (bitrate : Option Int) (maxData : Int) : Int :=
  if vbr then maxData
  else match bitrate with
    | none => maxData
    | some b => min maxData (max (smallestPacket n fs100) (3 * b / ((3 * 8 * fs / frameSize : Nat) : Int)))

/-- `opus_multistream_encode_native` from the frame-size selection on: the packet written. -/
def encodeNative (n : Nat) (fs frameSize : Nat) (vbr : Bool) (bitrate : Option Int) (maxData : Int)
    (enc : Nat → Int → Res Bytes) : Res Bytes :=
  let fs100 := decide (fs / frameSize = 10)
  if maxData < smallestPacket n fs100 then .err .bufferTooSmall
  else loop n fs100 vbr (cbrClamp n fs100 vbr fs frameSize bitrate maxData) enc n 0 0 []

end Opus.MsEncode
