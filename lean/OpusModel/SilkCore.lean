import OpusModel.SilkParams
import OpusModel.SilkCoreFrozen
/-
  OpusModel.SilkCore — bit-exact executable model of the SILK frame synthesis at the internal rate
  (property C03, slice SilkCore), part 1: fixed-point macros not already in `OpusModel.SilkParams.Fix`,
  configuration, decoder state, and the VALUES computed by `silk_decode_parameters`
  (silk/decode_parameters.c:35-115).

  Tables and constants are read from the FROZEN copy `Opus.Frozen.SilkCoreTabs` (OpusModel/SilkCoreFrozen.lean), which
  `OpusProps.C03SilkCore.tables_frozen_eq_repo` proves equal to `Opus.Gen.SilkCoreTabs` regenerated from `/repo`.

  The whole SILK decoder is integer code (also in the float build), so this model is a frozen reference for it:
  every number the C code computes is reproduced exactly (32-bit wrap-around and saturation made explicit).
  Re-used read-only from C18's model (`Opus.SilkParams`): wrap8/16/32, sat16/32, smulwb, smlawb, smulww, smlaww,
  smmul, lshift32, lshiftSat32, rshiftRound, clz32, inverse32VarQ, gainsDequant, nlsfDecode, nlsf2a,
  nlsfInterpDec (through `decodeNlsfParams`), decodePitch.

  Conventions as in `OpusModel/SilkParams/Fix.lean`: plain C `+ - *` on `int` is the unbounded operation (a
  difference from the machine result is signed overflow = undefined behaviour, watched by UBSan in the tie);
  every macro that goes through an unsigned cast (`silk_LSHIFT32`, `silk_ADD32_ovflw`, `silk_SUB32_ovflw`,
  `silk_SMLABB_ovflw`, `silk_MLA_ovflw`, `silk_LSHIFT_ovflw`) wraps by design and is a `wrap32`.
-/
namespace Opus.SilkCore
open Opus Opus.SilkParams Opus.Gen Opus.Frozen

/-! ### macros (silk/macros.h, silk/SigProc_FIX.h, silk/Inlines.h) -/

/-- `silk_ADD_SAT32(a, b)` (macros.h:99-101), the macro's own case analysis on the sign bits: the unsigned sum
    has its top bit clear → both negative means underflow; top bit set → both non-negative means overflow. -/
def addSat32 (a b : Int) : Int :=
  if wrap32 (a + b) ≥ 0 then (if a < 0 ∧ b < 0 then -2147483648 else a + b)
  else (if 0 ≤ a ∧ 0 ≤ b then 2147483647 else a + b)

/-- `silk_RAND(seed)` = `silk_MLA_ovflw(RAND_INCREMENT, seed, RAND_MULTIPLIER)` (SigProc_FIX.h:599-601):
    unsigned 32-bit multiply-add, wraps by design. -/
def silkRand (seed : Int) : Int := wrap32 (SilkCoreTabs.randIncrement + seed * SilkCoreTabs.randMultiplier)

/-- `silk_ADD32_ovflw` (SigProc_FIX.h:451). -/
def add32Ovflw (a b : Int) : Int := wrap32 (a + b)
/-- `silk_SUB32_ovflw` (SigProc_FIX.h:454). -/
def sub32Ovflw (a b : Int) : Int := wrap32 (a - b)
/-- `silk_SMLABB_ovflw(a, b, c)` (SigProc_FIX.h:458). -/
def smlabbOvflw (a b c : Int) : Int := wrap32 (a + wrap16 b * wrap16 c)

/-- `silk_DIV32_varQ(a32, b32, Qres)` (Inlines.h:97-140); `b32 ≠ 0`, `Qres ≥ 0`. -/
def div32VarQ (a32 b32 qres : Int) : Int :=
  let aHeadrm := clz32 (sabs a32) - 1
  let a32Nrm := lshift32 a32 aHeadrm.toNat
  let bHeadrm := clz32 (sabs b32) - 1
  let b32Nrm := lshift32 b32 bHeadrm.toNat
  let b32Inv := Int.tdiv 536870911 (shrI b32Nrm 16)          -- silk_DIV32_16(silk_int32_MAX >> 2, b32_nrm >> 16)
  let result := smulwb a32Nrm b32Inv
  let a32Nrm := sub32Ovflw a32Nrm (lshift32 (smmul b32Nrm result) 3)   -- silk_LSHIFT_ovflw(.., 3)
  let result := smlawb result a32Nrm b32Inv
  let lsh := 29 + aHeadrm - bHeadrm - qres
  if lsh < 0 then lshiftSat32 result (-lsh).toNat
  else if lsh < 32 then shrI result lsh.toNat
  else 0

/-- `silk_bwexpander` (bwexpander.c:35-51) on an `opus_int16` filter:
    `ar[i] = (opus_int16)silk_RSHIFT_ROUND( silk_MUL( chirp_Q16, ar[i] ), 16 )`. -/
def bwexp16Loop : List Int → Int → Int → List Int
  | [], _, _ => []
  | [x], c, _ => [wrap16 (rshiftRound (c * x) 16)]
  | x :: y :: xs, c, cm1 => wrap16 (rshiftRound (c * x) 16) :: bwexp16Loop (y :: xs) (c + rshiftRound (c * cm1) 16) cm1

def bwexpander16 (ar : List Int) (chirpQ16 : Int) : List Int := bwexp16Loop ar chirpQ16 (chirpQ16 - 65536)

/-! ### configuration (silk/decoder_set_fs.c:46-47, 73-80) -/

/-- `subfr_length = SUB_FRAME_LENGTH_MS * fs_kHz`. -/
def subfrLen (fs : Nat) : Nat := SilkCoreTabs.subFrameLengthMs * fs
/-- `frame_length = nb_subfr * subfr_length`. -/
def frameLen (fs nb : Nat) : Nat := nb * subfrLen fs
/-- `ltp_mem_length = LTP_MEM_LENGTH_MS * fs_kHz`. -/
def ltpMemLen (fs : Nat) : Nat := SilkCoreTabs.ltpMemLengthMs * fs
/-- `LPC_order`: `MIN_LPC_ORDER` at 8 / 12 kHz, `MAX_LPC_ORDER` at 16 kHz. -/
def lpcOrder (fs : Nat) : Nat := if fs = 8 ∨ fs = 12 then SilkCoreTabs.minLpcOrder else SilkCoreTabs.maxLpcOrder
/-- `psNLSF_CB`. -/
def cbOf (fs : Nat) : NlsfCB := if fs = 8 ∨ fs = 12 then cbNbMb else cbWb

/-- The members of `silk_decoder_state` (silk/structs.h) that `silk_decode_parameters`, `silk_decode_core` and the
    good-frame path of `silk_decode_frame` read or write. -/
structure DecState where
  fsKHz : Nat
  nbSubfr : Nat
  sLPC : List Int            -- sLPC_Q14_buf[ MAX_LPC_ORDER ]
  outBuf : List Int          -- outBuf[ MAX_FRAME_LENGTH + 2 * MAX_SUB_FRAME_LENGTH ]
  excQ14 : List Int          -- exc_Q14[ MAX_FRAME_LENGTH ]
  prevGainQ16 : Int
  lagPrev : Int
  lastGainIndex : Int
  prevNlsf : List Int        -- prevNLSF_Q15[ MAX_LPC_ORDER ]
  firstFrameAfterReset : Int
  prevSignalType : Int
  lossCnt : Int
  deriving Repr, DecidableEq

/-- `SideInfoIndices` (silk/structs.h) + the pulse signal + `condCoding`: what `silk_decode_indices` /
    `silk_decode_pulses` deliver for one frame. -/
structure FrameIn where
  condCoding : Int
  gainsIdx : List Int        -- GainsIndices[ nb_subfr ]
  nlsfIdx : List Int         -- NLSFIndices[ LPC_order + 1 ]
  interp : Int               -- NLSFInterpCoef_Q2
  signalType : Int
  quantOffsetType : Int
  lagIndex : Int
  contourIndex : Int
  perIndex : Int
  ltpIdx : List Int          -- LTPIndex[ nb_subfr ]
  ltpScaleIndex : Int
  seed : Int
  pulses : List Int          -- pulses[ frame_length ]
  deriving Repr, DecidableEq

/-- `silk_decoder_control` (silk/structs.h): the entries the frame uses (`nb_subfr` gains / lags, `LPC_order`
    coefficients per half, `LTP_ORDER * nb_subfr` taps). -/
structure Ctrl where
  gainsQ16 : List Int
  pred0 : List Int           -- PredCoef_Q12[ 0 ]
  pred1 : List Int           -- PredCoef_Q12[ 1 ]
  ltpCoef : List Int         -- LTPCoef_Q14
  pitchL : List Int
  ltpScaleQ14 : Int
  deriving Repr, DecidableEq

/-! ### silk_decode_parameters -/

/-- `silk_LTP_vq_ptrs_Q7[ PERIndex ]` (tables_LTP.c); an index outside the pointer table is `.oob`. -/
def ltpCbk (per : Int) : Res (List Int) :=
  if per = 0 then .ok SilkCoreTabs.ltpVq0
  else if per = 1 then .ok SilkCoreTabs.ltpVq1
  else if per = 2 then .ok SilkCoreTabs.ltpVq2
  else .oob

/-- decode_parameters.c:98-101, one sub-frame: the `LTP_ORDER` taps `cbk_ptr_Q7[ Ix * LTP_ORDER + i ] << 7`
    stored as `opus_int16`. -/
def ltpRow (cbk : List Int) (ix : Int) : Res (List Int) := do
  let t0 ← getI cbk (ix * 5)
  let t1 ← getI cbk (ix * 5 + 1)
  let t2 ← getI cbk (ix * 5 + 2)
  let t3 ← getI cbk (ix * 5 + 3)
  let t4 ← getI cbk (ix * 5 + 4)
  pure [wrap16 (lshift32 t0 7), wrap16 (lshift32 t1 7), wrap16 (lshift32 t2 7), wrap16 (lshift32 t3 7),
        wrap16 (lshift32 t4 7)]

/-- decode_parameters.c:97-102. -/
def ltpRows (cbk : List Int) : List Int → Res (List Int)
  | [] => .ok []
  | ix :: rest => do
    let r ← ltpRow cbk ix
    let rs ← ltpRows cbk rest
    pure (r ++ rs)

/-- What `silk_decode_parameters` leaves behind besides `psDecCtrl`. -/
structure ParamsOut where
  ctrl : Ctrl
  lastGainIndex : Int
  prevNlsf : List Int
  interp : Int               -- psDec->indices.NLSFInterpCoef_Q2 (forced to 4 after a reset, :59-61)
  perIndex : Int             -- psDec->indices.PERIndex (cleared for unvoiced frames, :112)
  deriving Repr, DecidableEq

/-- `silk_decode_parameters( psDec, psDecCtrl, condCoding )` (decode_parameters.c:35-115). -/
def decodeParameters (s : DecState) (f : FrameIn) : Res ParamsOut := do
  let order := lpcOrder s.fsKHz
  -- :46-47
  let g := gainsDequant (f.gainsIdx.take s.nbSubfr) s.lastGainIndex
             (if f.condCoding = SilkCoreTabs.codeConditionally then 1 else 0)
  -- :52-78 (C18's model of the NLSF part; the C code reads `LPC_order` entries of prevNLSF_Q15)
  let (a0, a1, nlsf) ← decodeNlsfParams (cbOf s.fsKHz) (f.nlsfIdx.take (order + 1)) (s.prevNlsf.take order) f.interp s.firstFrameAfterReset
  let interp := if s.firstFrameAfterReset = 1 then 4 else f.interp
  let prevNlsf := nlsf ++ s.prevNlsf.drop order
  -- :81-84
  let a0 := if s.lossCnt ≠ 0 then bwexpander16 a0 SilkCoreTabs.bweAfterLossQ16 else a0
  let a1 := if s.lossCnt ≠ 0 then bwexpander16 a1 SilkCoreTabs.bweAfterLossQ16 else a1
  if f.signalType = SilkCoreTabs.typeVoiced then
    -- :92-108
    let pitch ← decodePitch f.lagIndex f.contourIndex (s.fsKHz : Int) s.nbSubfr
    let cbk ← ltpCbk f.perIndex
    let ltp ← ltpRows cbk (f.ltpIdx.take s.nbSubfr)
    let sc ← getI SilkCoreTabs.ltpScalesQ14 f.ltpScaleIndex
    pure { ctrl := { gainsQ16 := g.1, pred0 := a0, pred1 := a1, ltpCoef := ltp, pitchL := pitch, ltpScaleQ14 := sc },
           lastGainIndex := g.2, prevNlsf := prevNlsf, interp := interp, perIndex := f.perIndex }
  else
    -- :110-113
    pure { ctrl := { gainsQ16 := g.1, pred0 := a0, pred1 := a1,
                     ltpCoef := List.replicate (SilkCoreTabs.ltpOrder * s.nbSubfr) 0,
                     pitchL := List.replicate s.nbSubfr 0, ltpScaleQ14 := 0 },
           lastGainIndex := g.2, prevNlsf := prevNlsf, interp := interp, perIndex := 0 }

end Opus.SilkCore
