import OpusModel.Basic
import OpusModel.Gen.Window
/-
  OpusModel.Delay — the look-ahead (algorithmic delay) arithmetic of the Opus encoder
  (property C04: "delayed by exactly the lookahead the encoder reports").

  Transcribes, from src/opus_encoder.c:
    * opus_encoder_init                      (lines 202-299): argument check, `encoder_buffer`,
                                              `delay_compensation`, `application`, `first`
    * OPUS_SET_APPLICATION_REQUEST           (lines 2637-2652)
    * OPUS_GET_LOOKAHEAD_REQUEST             (lines 2926-2937)
    * the `total_buffer` choice of opus_encode_native (lines 1805-1809)
  Only the fields that the look-ahead depends on are modelled; everything else in the
  encoder state is irrelevant to the reported delay.
  Core Lean only.
-/
namespace Opus.Delay
open Opus

/-- include/opus_defines.h:210-216 (values re-extracted into `Opus.Gen.Window`). -/
def APP_VOIP : Int := 2048
def APP_AUDIO : Int := 2049
def APP_RESTRICTED_LOWDELAY : Int := 2051

/-- The API sampling rates accepted by opus_encoder_init (src/opus_encoder.c:209). -/
def validFs (fs : Nat) : Bool :=
  fs == 48000 || fs == 24000 || fs == 16000 || fs == 12000 || fs == 8000

/-- The application values accepted by opus_encoder_init / OPUS_SET_APPLICATION
    (src/opus_encoder.c:210-211, 2640-2641). -/
def validApp (app : Int) : Bool :=
  app == APP_VOIP || app == APP_AUDIO || app == APP_RESTRICTED_LOWDELAY

/-- The slice of `struct OpusEncoder` (src/opus_encoder.c:74-131) the look-ahead depends on. -/
structure Enc where
  fs : Nat                    -- st->Fs
  channels : Nat              -- st->channels
  application : Int           -- st->application
  delayCompensation : Nat     -- st->delay_compensation
  encoderBuffer : Nat         -- st->encoder_buffer
  first : Bool                -- st->first (no frame encoded yet)
  deriving DecidableEq, Repr

/-- opus_encoder_init (src/opus_encoder.c:202-299): BAD_ARG check at 209-212,
    `encoder_buffer = Fs/100` at 276, `delay_compensation = Fs/250` at 282, `first = 1` at 287. -/
def init (fs channels : Nat) (app : Int) : Res Enc :=
  if !validFs fs || !(channels == 1 || channels == 2) || !validApp app then .err .badArg
  else .ok { fs := fs, channels := channels, application := app,
             delayCompensation := fs / 250, encoderBuffer := fs / 100, first := true }

/-- OPUS_SET_APPLICATION (src/opus_encoder.c:2637-2652): rejected for an unknown value, and for a
    *change* once the first frame has been encoded. -/
def setApplication (st : Enc) (v : Int) : Res Enc :=
  if !validApp v || (!st.first && st.application != v) then .err .badArg
  else .ok { st with application := v }

/-- An encode call clears `st->first` (src/opus_encoder.c:2412, opus_encode_frame_native); nothing
    else that the look-ahead reads is written by encoding. -/
def afterEncode (st : Enc) : Enc := { st with first := false }

/-- OPUS_RESET_STATE sets `st->first = 1` again (src/opus_encoder.c:3083) and keeps Fs, channels,
    application, delay_compensation and encoder_buffer (they lie before OPUS_ENCODER_RESET_START). -/
def resetState (st : Enc) : Enc := { st with first := true }

/-- OPUS_GET_LOOKAHEAD (src/opus_encoder.c:2926-2937). -/
def getLookahead (st : Enc) : Nat :=
  st.fs / 400 + (if st.application != APP_RESTRICTED_LOWDELAY then st.delayCompensation else 0)

/-- `total_buffer` of opus_encode_native (src/opus_encoder.c:1805-1809): the number of samples by
    which the encoder delays its input through `st->delay_buffer`. -/
def totalBuffer (st : Enc) : Nat :=
  if st.application == APP_RESTRICTED_LOWDELAY then 0 else st.delayCompensation

/-- The closed form of DESIGN.md §7.C04. -/
def lookahead (fs : Nat) (app : Int) : Nat :=
  fs / 400 + (if app = APP_RESTRICTED_LOWDELAY then 0 else fs / 250)

/-- The CELT layer runs at 48 kHz / `downsample` (celt/celt_encoder.c: `upsample`); its inherent
    look-ahead is the MDCT overlap, expressed at the API rate. -/
def celtOverlapAtFs (fs : Nat) : Nat := Opus.Gen.Window.overlap / (48000 / fs)

def allFs : List Nat := [8000, 12000, 16000, 24000, 48000]
def allApps : List Int := [APP_VOIP, APP_AUDIO, APP_RESTRICTED_LOWDELAY]

/-- The model's table, one line per (Fs, application, channels): what `OPUS_GET_LOOKAHEAD` answers on a
    freshly created encoder.  Printed by `Driver/DelayMain.lean` and compared with the implementation. -/
def table : List (Nat × Int × Nat × Res Nat) :=
  allFs.flatMap fun fs => allApps.flatMap fun app => [1, 2].map fun ch =>
    (fs, app, ch, (init fs ch app).bind fun st => .ok (getLookahead st))

end Opus.Delay
