import OpusModel.Framing
/-
  OpusModel.FramingTrace — `opus_packet_parse_impl` (src/opus.c:194-353) once more, INSTRUMENTED: the same control
  flow as `OpusModel.Framing.parseImpl`, where every value the C function computes in an `int` / `opus_int32` is bound
  once by a `let`, USED for the control flow / result, and appended to a log; the operands of the three explicit
  `(opus_int16)` casts go to a second log.  `OpusProofs.FramingTraceEq` proves that the first component is `parseImpl`
  itself (so the logs are the intermediates of the function the correspondence run ties to the C code, not of a
  look-alike) and that the logs are the lists `implTrace` / `castStores` on which the range theorems are proved.
  The driver evaluates `parse` operations through `parseImplT`.
-/
namespace Opus.Framing
open Opus

/-- Padding loop (src/opus.c:263-272): log `len--`, `len -= tmp`, `pad += tmp` per iteration. -/
def padChainT : Bytes → Int → Nat → Res (Bytes × Int × Nat) × List Int
  | data, len, pad =>
    if len ≤ 0 then (.err .invalidPacket, [])
    else match data with
      | [] => (.oob, [])
      | p :: rest =>
        let len1 := len - 1
        if p = 255 then
          let len2 := len1 - 254
          let pad2 := pad + 254
          let r := padChainT rest len2 pad2
          (r.1, [len1, len2, (pad2 : Int)] ++ r.2)
        else
          let len2 := len1 - p
          let pad2 := pad + p
          (.ok (rest, len2, pad2), [len1, len2, (pad2 : Int)])

/-- VBR length loop (src/opus.c:282-290): log the stored size, `len -= bytes`, `bytes + size[i]`,
    `last_size -= bytes + size[i]`. -/
def vbrSizesT : Nat → Bytes → Int → Int → Res (List Nat × Bytes × Int × Int) × List Int
  | 0, data, len, last => (.ok ([], data, len, last), [])
  | n + 1, data, len, last =>
    match parseSize data len with
    | .ok (bytes, sz) =>
      let len' := len - bytes
      if sz < 0 ∨ sz > len' then (.err .invalidPacket, [sz, len'])
      else
        let tot := bytes + sz
        let last' := last - tot
        let r := vbrSizesT n (data.drop bytes.toNat) len' last'
        ((match r.1 with
          | .ok (ss, d, l, la) => .ok (sz.toNat :: ss, d, l, la)
          | .err e => .err e
          | .oob => .oob
          | .abort => .abort), [sz, len', tot, last'] ++ r.2)
    | .err e => (.err e, [])
    | .oob => (.oob, [])
    | .abort => (.abort, [])

/-- `default:` branch (code 3, src/opus.c:250-302); third component: operands of `size[i] = (opus_int16)last_size`
    (:299-300, `count-1` stores). -/
def parseCode3T (sd : Bool) (framesize : Nat) (data : Bytes) (len : Int) : Res Hdr × List Int × List Int :=
  if len < 1 then (.err .invalidPacket, [], [])
  else match data with
    | [] => (.oob, [], [])
    | ch :: data1 =>
      let count := ch % 64
      let dur := framesize * count
      if count = 0 ∨ dur > 5760 then (.err .invalidPacket, [(dur : Int)], [])
      else
        let len1 := len - 1
        let pc : Res (Bytes × Int × Nat) × List Int :=
          if ch / 64 % 2 = 1 then padChainT data1 len1 0 else (.ok (data1, len1, 0), [])
        let log0 : List Int := [(dur : Int)] ++ ([len1] ++ pc.2)
        match pc.1 with
        | .ok (data2, len2, pad) =>
          if len2 < 0 then (.err .invalidPacket, log0, [])
          else if ch / 128 % 2 = 1 then
            let v := vbrSizesT (count - 1) data2 len2 len2
            match v.1 with
            | .ok (ss, d, l, last) =>
              if last < 0 then (.err .invalidPacket, log0 ++ v.2, [])
              else (.ok { count, cbr := false, sizes := ss, data := d, len := l, lastSize := last, pad }, log0 ++ v.2, [])
            | .err e => (.err e, log0 ++ v.2, [])
            | .oob => (.oob, log0 ++ v.2, [])
            | .abort => (.abort, log0 ++ v.2, [])
          else if sd then
            (.ok { count, cbr := true, sizes := [], data := data2, len := len2, lastSize := len, pad }, log0, [])
          else
            let last := len2 / count
            let prod := last * count
            if prod ≠ len2 then (.err .invalidPacket, log0 ++ [last, prod], [])
            else (.ok { count, cbr := true, sizes := [], data := data2, len := len2, lastSize := last, pad },
                  log0 ++ [last, prod], List.replicate (count - 1) last)
        | .err e => (.err e, log0, [])
        | .oob => (.oob, log0, [])
        | .abort => (.abort, log0, [])

/-- The `switch (toc&0x3)` (src/opus.c:220-303); cast of code 1: `size[0] = (opus_int16)last_size` (:232). -/
def parseHdrT (sd : Bool) (toc : Nat) (data : Bytes) (len : Int) : Res Hdr × List Int × List Int :=
  if toc % 4 = 0 then
    (.ok { count := 1, cbr := false, sizes := [], data, len, lastSize := len, pad := 0 }, [], [])
  else if toc % 4 = 1 then
    if sd then (.ok { count := 2, cbr := true, sizes := [], data, len, lastSize := len, pad := 0 }, [], [])
    else
      let odd := len % 2
      let half := len / 2
      if odd = 1 then (.err .invalidPacket, [odd, half], [])
      else (.ok { count := 2, cbr := true, sizes := [], data, len, lastSize := half, pad := 0 }, [odd, half], [half])
  else if toc % 4 = 2 then
    match parseSize data len with
    | .ok (bytes, sz) =>
      let len' := len - bytes
      if sz < 0 ∨ sz > len' then (.err .invalidPacket, [sz, len'], [])
      else
        let last := len' - sz
        (.ok { count := 2, cbr := false, sizes := [sz.toNat], data := data.drop bytes.toNat,
               len := len', lastSize := last, pad := 0 }, [sz, len', last], [])
    | .err e => (.err e, [], [])
    | .oob => (.oob, [], [])
    | .abort => (.abort, [], [])
  else parseCode3T sd (samplesPerFrame toc 48000) data len

/-- The running offsets of the reporting tail (src/opus.c:332-350): `data - data0`, each `data += size[i]`,
    `pad + (data - data0)`. -/
def reportT (r : Parsed) : List Int :=
  [(r.payloadOffset : Int)] ++
    (List.range (r.sizes.length + 1)).map (fun i => ((r.payloadOffset + sumN (r.sizes.take i) : Nat) : Int)) ++
    [(r.padLen : Int), (r.packetOffset : Int)]

/-- Tail after the switch (src/opus.c:304-352); cast: `size[count-1] = (opus_int16)last_size` (:330). -/
def finishT (sd : Bool) (total toc : Nat) (h : Hdr) : Res Parsed × List Int × List Int :=
  if sd then
    match parseSize h.data h.len with
    | .ok (bytes, sz) =>
      let len' := h.len - bytes
      if sz < 0 ∨ sz > len' then (.err .invalidPacket, [sz, len'], [])
      else
        let data' := h.data.drop bytes.toNat
        if h.cbr then
          let prod := sz * h.count
          if prod > len' then (.err .invalidPacket, [sz, len', prod], [])
          else
            let r := mkParsed total toc h (List.replicate h.count sz.toNat) data'
            (.ok r, [sz, len', prod] ++ reportT r, [])
        else
          let tot := bytes + sz
          if tot > h.lastSize then (.err .invalidPacket, [sz, len', tot], [])
          else
            let r := mkParsed total toc h (h.sizes ++ [sz.toNat]) data'
            (.ok r, [sz, len', tot] ++ reportT r, [])
    | .err e => (.err e, [], [])
    | .oob => (.oob, [], [])
    | .abort => (.abort, [], [])
  else
    if h.lastSize > 1275 then (.err .invalidPacket, [], [])
    else if h.cbr then
      let r := mkParsed total toc h (List.replicate h.count h.lastSize.toNat) h.data
      (.ok r, reportT r, [h.lastSize])
    else
      let r := mkParsed total toc h (h.sizes ++ [h.lastSize.toNat]) h.data
      (.ok r, reportT r, [h.lastSize])

/-- `opus_packet_parse_impl`, instrumented: `(result, int/opus_int32 values in program order, (opus_int16) cast operands)`. -/
def parseImplT (sd : Bool) (bs : Bytes) : Res Parsed × List Int × List Int :=
  match bs with
  | [] => (.err .invalidPacket, [], [])
  | toc :: data =>
    let framesize := samplesPerFrame toc 48000
    let len : Int := data.length            -- `len--` after reading the TOC
    let hd := parseHdrT sd toc data len
    match hd.1 with
    | .ok h =>
      let f := finishT sd bs.length toc h
      (f.1, [(framesize : Int), len] ++ hd.2.1 ++ f.2.1, hd.2.2 ++ f.2.2)
    | .err e => (.err e, [(framesize : Int), len] ++ hd.2.1, hd.2.2)
    | .oob => (.oob, [(framesize : Int), len] ++ hd.2.1, hd.2.2)
    | .abort => (.abort, [(framesize : Int), len] ++ hd.2.1, hd.2.2)

/-- `parseImplT` with an explicit (possibly negative) `len` argument, as `parseImplLen`. -/
def parseImplLenT (sd : Bool) (bs : Bytes) (len : Int) : Res Parsed × List Int × List Int :=
  if len < 0 then (.err .badArg, [], []) else parseImplT sd (bs.take len.toNat)

end Opus.Framing
