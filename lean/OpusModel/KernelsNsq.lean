import OpusModel.Kernels
/-
  OpusModel.KernelsNsq — integer pieces of the SILK noise-shaping quantiser kernels (C15, extension round):

  (v)   `silk_nsq_scale_states` (silk/NSQ.c:381-437) and `silk_nsq_scale_states_sse4_1`
        (silk/x86/NSQ_sse4_1.c:659-772) as whole functions over explicit state: the two files differ only in the
        two vector loops (input scaling, long-term shaping state), so the function is written once with the vector
        operation as a parameter and instantiated with the portable loop and with the SSE4.1 block loop + scalar tail;
        the scalar helpers `silk_INVERSE32_varQ` / `silk_DIV32_varQ` (silk/Inlines.h:96-186) are transcribed so that the
        model is executable and can be compared with the compiled functions;
  (vi)  the sub-frame energy accumulation of `silk_VAD_GetSA_Q8_c` (silk/VAD.c:163-183) and
        `silk_VAD_GetSA_Q8_sse4_1` (silk/x86/VAD_sse4_1.c:141-171);
  (vii) `silk_sar_round_smulww` of silk/x86/NSQ_del_dec_avx2.c:107 (as committed in 50e8da86) and the 64-bit form it
        replaced.
  Core Lean only.  32-bit C arithmetic is `Int` with explicit `wrap32`.
-/
namespace Opus.Kernels

/-! ## scalar fixed-point macros (OPUS_FAST_INT64 forms, silk/macros.h, silk/SigProc_FIX.h) -/

/-- silk_RSHIFT_ROUND (SigProc_FIX.h:531). -/
def rshiftRound (a : Int) (s : Nat) : Int := if s = 1 then a / 2 + a % 2 else (a / 2 ^ (s - 1) + 1) / 2
/-- silk_SMULWB (macros.h:43). -/
def smulwb (a b : Int) : Int := wrap32 (wrap32 a * sext16 b / 65536)
/-- silk_SMLAWW (macros.h:93). -/
def smlaww (a b c : Int) : Int := wrap32 (a + wrap32 b * wrap32 c / 65536)
/-- silk_SMMUL (SigProc_FIX.h:610). -/
def smmul (a b : Int) : Int := wrap32 (wrap32 a * wrap32 b / 4294967296)
/-- silk_abs (SigProc_FIX.h:588), 32-bit. -/
def abs32 (a : Int) : Int := if a > 0 then a else wrap32 (-a)
/-- silk_LIMIT (SigProc_FIX.h:581). -/
def limit (a l1 l2 : Int) : Int :=
  if l1 > l2 then (if a > l1 then l1 else if a < l2 then l2 else a)
  else (if a > l2 then l2 else if a < l1 then l1 else a)
/-- silk_LSHIFT_SAT32 (SigProc_FIX.h:514). -/
def lshiftSat32 (a : Int) (s : Nat) : Int :=
  lshift32 (limit a ((-2147483648) / 2 ^ s) (2147483647 / 2 ^ s)) s

/-- silk_INVERSE32_varQ (Inlines.h:143-186).  `Qres > 0`, `b ≠ 0` asserted in C. -/
def inverse32VarQ (b : Int) (qres : Int) : Int :=
  let bHeadrm := clz32 (abs32 b) - 1
  let bNrm := lshift32 b bHeadrm.toNat
  let bInv := Int.tdiv 536870911 (bNrm / 65536)                 -- silk_DIV32_16(silk_int32_MAX >> 2, b32_nrm >> 16)
  let result := lshift32 bInv 16
  let errQ32 := lshift32 (wrap32 (536870912 - smulwb bNrm bInv)) 3
  let result := smlaww result errQ32 bInv
  let lshift := 61 - bHeadrm - qres
  if lshift ≤ 0 then lshiftSat32 result (-lshift).toNat
  else if lshift < 32 then result / 2 ^ lshift.toNat
  else 0

/-- silk_DIV32_varQ (Inlines.h:96-140). -/
def div32VarQ (a b : Int) (qres : Int) : Int :=
  let aHeadrm := clz32 (abs32 a) - 1
  let aNrm := lshift32 a aHeadrm.toNat
  let bHeadrm := clz32 (abs32 b) - 1
  let bNrm := lshift32 b bHeadrm.toNat
  let bInv := Int.tdiv 536870911 (bNrm / 65536)
  let result := smulwb aNrm bInv
  let aNrm := wrap32 (aNrm - lshift32 (smmul bNrm result) 3)     -- silk_SUB32_ovflw(.., silk_LSHIFT_ovflw(.., 3))
  let result := smlawb result aNrm bInv
  let lshift := 29 + aHeadrm - bHeadrm - qres
  if lshift < 0 then lshiftSat32 result (-lshift).toNat
  else if lshift < 32 then result / 2 ^ lshift.toNat
  else 0

/-! ## (v) silk_nsq_scale_states -/

/-- the C statement `a[i] = f(a[i])` on a list (index outside the list: no effect, as the harness never does it). -/
def setAt (l : List Int) (i : Nat) (f : Int → Int) : List Int := l.mapIdx (fun j v => if j = i then f v else v)

/-- `for (i = i0; i < i0 + cnt; i++) a[i] = f(a[i]);` -/
def scalarLoop (f : Int → Int) : Nat → Nat → List Int → List Int
  | 0, _, l => l
  | c + 1, i, l => scalarLoop f c (i + 1) (setAt l i f)

/-- a vector operation "multiply a[lo..hi) by g with silk_SMULWW", in place. -/
abbrev VecOp := Int → List Int → Nat → Nat → List Int

/-- the portable loop (NSQ.c:398-400, 419-421). -/
def vecSmulwwC : VecOp := fun g l lo hi => scalarLoop (smulww g) (hi - lo) lo l

/-- one SSE4.1 block (NSQ_sse4_1.c:687-701 / 725-739): four elements; lanes 0 and 2 through `_mm_mul_epi32` +
    `_mm_srli_epi64(…,16)`, lanes 1 and 3 through the lane-rotated copy, `_mm_mul_epi32` + `_mm_slli_epi64(…,16)`;
    `_mm_blend_epi16(…, 0xCC)` interleaves them; the store writes four signed 32-bit values. -/
def sseBlock (g : Int) (l : List Int) (i : Nat) : List Int :=
  l.mapIdx (fun j v =>
    if j = i then wrap32 (smulwwLaneSse v g false)
    else if j = i + 1 then wrap32 (smulwwLaneSse v g true)
    else if j = i + 2 then wrap32 (smulwwLaneSse v g false)
    else if j = i + 3 then wrap32 (smulwwLaneSse v g true)
    else v)

/-- `for (i = i0; i < hi - 3; i += 4) block(i);` as `blocks` iterations. -/
def sseBlocks (g : Int) : Nat → Nat → List Int → List Int
  | 0, _, l => l
  | b + 1, i, l => sseBlocks g b (i + 4) (sseBlock g l i)

/-- the SSE4.1 loop pair: blocks of four while `i < hi - 3`, then the scalar tail `for (; i < hi; i++)`. -/
def vecSmulwwSse : VecOp := fun g l lo hi =>
  let blocks := (hi - lo) / 4
  let l := sseBlocks g blocks lo l
  scalarLoop (smulww g) (hi - lo - 4 * blocks) (lo + 4 * blocks) l

/-- `for (i = lo; i < hi; i++) dst[i] = f(src[i]);` (NSQ.c:409-412). -/
def fromLoop (f : Int → Int) (src : List Int) : Nat → Nat → List Int → List Int
  | 0, _, l => l
  | c + 1, i, l => fromLoop f src c (i + 1) (setAt l i (fun _ => f (src.getD i 0)))

/-- everything `silk_nsq_scale_states` reads and writes besides its scalar arguments. -/
structure NsqSc where
  shp : List Int        -- NSQ->sLTP_shp_Q14[2*MAX_FRAME_LENGTH]
  ltpQ15 : List Int     -- sLTP_Q15[ltp_mem_length + frame_length]
  xsc : List Int        -- x_sc_Q10[subfr_length] (output)
  lfAr : Int            -- NSQ->sLF_AR_shp_Q14
  diff : Int            -- NSQ->sDiff_shp_Q14
  lpc : List Int        -- NSQ->sLPC_Q14 (the first NSQ_LPC_BUF_LENGTH = 16 entries are rescaled)
  ar2 : List Int        -- NSQ->sAR2_Q14[MAX_SHAPE_LPC_ORDER]
  prevGain : Int        -- NSQ->prev_gain_Q16
  deriving DecidableEq, Repr

structure NsqScIn where
  subfrLength : Nat
  ltpMemLength : Nat
  x16 : List Int        -- x16[subfr_length], opus_int16
  sLTP : List Int       -- sLTP[], opus_int16
  lag : Int             -- pitchL[subfr]
  subfr : Nat
  ltpScale : Int        -- LTP_scale_Q14
  gain : Int            -- Gains_Q16[subfr]
  signalType : Int
  rewhite : Bool        -- NSQ->rewhite_flag
  ltpBufIdx : Int       -- NSQ->sLTP_buf_idx
  shpBufIdx : Int       -- NSQ->sLTP_shp_buf_idx
  deriving Repr

/-- `silk_nsq_scale_states` with the two vectorised loops abstracted (`vec`); every other line is common to NSQ.c and
    NSQ_sse4_1.c.  Loop bounds that would be negative in C (never the case in the encoder: `start_idx > 0` is asserted by
    the caller) clamp to 0 here, identically for both instances. -/
def nsqScaleStatesWith (vec : VecOp) (inp : NsqScIn) (st : NsqSc) : NsqSc :=
  let invGainQ31 := inverse32VarQ (if inp.gain > 1 then inp.gain else 1) 47
  let invGainQ26 := rshiftRound invGainQ31 5
  let xsc := vec invGainQ26 (inp.x16.map sext16) 0 inp.subfrLength
  let ltpLo := (inp.ltpBufIdx - inp.lag - 2).toNat
  let ltpHi := inp.ltpBufIdx.toNat
  let invGainQ31' := if inp.rewhite && inp.subfr == 0 then lshift32 (smulwb invGainQ31 inp.ltpScale) 2 else invGainQ31
  let ltpQ15 :=
    if inp.rewhite then fromLoop (fun s => smulwb invGainQ31' s) inp.sLTP (ltpHi - ltpLo) ltpLo st.ltpQ15
    else st.ltpQ15
  let st := { st with xsc := xsc, ltpQ15 := ltpQ15 }
  if inp.gain ≠ st.prevGain then
    let gainAdj := div32VarQ st.prevGain inp.gain 16
    let shp := vec gainAdj st.shp (inp.shpBufIdx - inp.ltpMemLength).toNat inp.shpBufIdx.toNat
    let ltpQ15 :=
      if inp.signalType = 2 ∧ inp.rewhite = false then scalarLoop (smulww gainAdj) (ltpHi - ltpLo) ltpLo st.ltpQ15
      else st.ltpQ15
    { st with
      shp := shp, ltpQ15 := ltpQ15,
      lfAr := smulww gainAdj st.lfAr, diff := smulww gainAdj st.diff,
      lpc := scalarLoop (smulww gainAdj) 16 0 st.lpc,
      ar2 := scalarLoop (smulww gainAdj) 24 0 st.ar2,
      prevGain := inp.gain }
  else st

/-- silk_nsq_scale_states (NSQ.c). -/
def nsqScaleStatesC : NsqScIn → NsqSc → NsqSc := nsqScaleStatesWith vecSmulwwC
/-- silk_nsq_scale_states_sse4_1 (NSQ_sse4_1.c). -/
def nsqScaleStatesSse : NsqScIn → NsqSc → NsqSc := nsqScaleStatesWith vecSmulwwSse

/-! ## (vi) VAD sub-frame energy -/

/-- silk_SMLABB (macros.h:73): `a + (int16)b * (int16)c`, 32-bit. -/
def smlabb (a b c : Int) : Int := wrap32 (a + sext16 b * sext16 c)

/-- one accumulation step: `x_tmp = X[i] >> 3; sumSquared = silk_SMLABB(sumSquared, x_tmp, x_tmp)`. -/
def vadStep (acc v : Int) : Int := let t := sext16 v / 8; smlabb acc t t

/-- `for (; i < i0 + cnt; i++) step` over the int16 memory `x`. -/
def vadLoop (x : Nat → Int) : Nat → Nat → Int → Int
  | 0, _, acc => acc
  | c + 1, i, acc => vadLoop x c (i + 1) (vadStep acc (x i))

/-- the portable loop (VAD.c:168-178): `sumSquared = 0; for (i = 0; i < n; i++) …`. -/
def vadEnergyC (x : Nat → Int) (n : Nat) : Int := vadLoop x n 0 0

/-- `_mm_madd_epi16(_mm_srai_epi16(X,3), same)` for eight int16: four 32-bit lanes `x[2k]² + x[2k+1]²`. -/
def maddSq (x : Nat → Int) (k : Nat) : Int :=
  let a := sext16 (x (2 * k)) / 8
  let b := sext16 (x (2 * k + 1)) / 8
  wrap32 (a * a + b * b)

/-- accumulator lanes after `blocks` iterations of VAD_sse4_1.c:147-153 (`_mm_add_epi32`). -/
def vadAccLoop (x : Nat → Int) : Nat → Nat → (Nat → Int) → (Nat → Int)
  | 0, _, acc => acc
  | b + 1, i, acc => vadAccLoop x b (i + 8) (fun k => wrap32 (acc k + maddSq (fun j => x (i + j)) k))

/-- silk_VAD_GetSA_Q8_sse4_1's sub-frame energy (VAD_sse4_1.c:141-171): blocks of eight, horizontal adds
    (`unpackhi_epi64`, `shufflelo_epi16 0x0E`), `sumSquared += cvtsi128_si32`, scalar tail. -/
def vadEnergySse (x : Nat → Int) (n : Nat) : Int :=
  let blocks := n / 8
  let acc := vadAccLoop x blocks 0 (fun _ => 0)
  let h := fun k => wrap32 (acc k + acc (k + 2))                 -- acc + unpackhi_epi64(acc, acc): lanes 0,1
  let s := wrap32 (h 0 + h 1)                                    -- + shufflelo_epi16(.., 0x0E): lane 0
  let sum0 := wrap32 (0 + s)
  vadLoop x (n - 8 * blocks) (8 * blocks) sum0

/-! ## (vii) silk_sar_round_smulww -/

/-- NSQ_del_dec_avx2.c:107 as committed in 50e8da86: `silk_RSHIFT_ROUND(silk_SMULWW(a, b), bits)`. -/
def sarRoundSmulwwAvx2 (a b : Int) (bits : Nat) : Int := rshiftRound (smulww a b) bits
/-- what silk_NSQ_del_dec_c computes before `silk_SAT16` (NSQ_del_dec.c:243-244, 296-297, 617-618). -/
def sarRoundSmulwwC (a b : Int) (bits : Nat) : Int := rshiftRound (smulww a b) bits
/-- the 64-bit form before the fix: `t = (int64)a*b; bits += 16; t += 1 << (bits-1); return t >> bits`. -/
def sarRoundSmulww64 (a b : Int) (bits : Nat) : Int := (wrap32 a * wrap32 b + 2 ^ (bits + 15)) / 2 ^ (bits + 16)

/-! ## (viii) the lane helpers of silk/x86/NSQ_del_dec_avx2.c (lines 125-190, 236-241) and the C macros they stand for

  One 32-bit lane each; operands are 32-bit values.  A sign-bit test `(x & 0x80000000) != 0` / `_mm_srai_epi32(x,31)` is
  written `x < 0`; the sign bit of `p ^ q` is "p and q have different signs", of `p & q` "both negative", of `p | q`
  "one negative". -/

/-- silk_ADD_SAT32 (macros.h:99-101). -/
def addSat32C (a b : Int) : Int :=
  if wrap32 (a + b) ≥ 0 then (if a < 0 ∧ b < 0 then -2147483648 else a + b)
  else (if ¬ (a < 0 ∨ b < 0) then 2147483647 else a + b)
/-- silk_mm_add_sat_epi32 (NSQ_del_dec_avx2.c:132-138): `r = a+b; OF = (a^r)&(b^r); SAT = (a>>>31) + 0x7FFFFFFF;
    blendv(r, SAT, OF>>31)`. -/
def addSatLane (a b : Int) : Int :=
  let r := wrap32 (a + b)
  let ovf := (decide (a < 0) != decide (r < 0)) && (decide (b < 0) != decide (r < 0))
  let sat := wrap32 ((if a < 0 then 1 else 0) + 2147483647)
  if ovf then sat else r

/-- silk_SUB_SAT32 (macros.h:103-105). -/
def subSat32C (a b : Int) : Int :=
  if wrap32 (a - b) ≥ 0 then (if a < 0 ∧ ¬ (b < 0) then -2147483648 else a - b)
  else (if ¬ (a < 0) ∧ b < 0 then 2147483647 else a - b)
/-- silk_mm_sub_sat_epi32 (NSQ_del_dec_avx2.c:139-145): `OF = ~(b^r) & (a^r)`. -/
def subSatLane (a b : Int) : Int :=
  let r := wrap32 (a - b)
  let ovf := (decide (b < 0) == decide (r < 0)) && (decide (a < 0) != decide (r < 0))
  let sat := wrap32 ((if a < 0 then 1 else 0) + 2147483647)
  if ovf then sat else r

/-- silk_mm_limit_epi32 (NSQ_del_dec_avx2.c:154-162): `min` with the larger limit, then `max` with the smaller. -/
def limitLane (num l1 l2 : Int) : Int :=
  let lo := if l1 < l2 then l1 else l2
  let hi := if l1 > l2 then l1 else l2
  let n := if num < hi then num else hi
  if n > lo then n else lo

/-- silk_mm_smulww_epi32 (:172-175): `cvtepi32_epi64`, `_mm256_mul_epi32`, `<< 16`, high dwords. -/
def smulwwLaneAvx2 (a b : Int) : Int :=
  let p := (wrap32 a * wrap32 b) % 18446744073709551616
  (p * 65536 % 18446744073709551616) / 4294967296
/-- silk_mm_smulwb_epi32 (:178-181): multiply by `(uint32)b << 16`, high dwords. -/
def smulwbLaneAvx2 (a b : Int) : Int :=
  let p := (wrap32 a * wrap32 (b * 65536)) % 18446744073709551616
  p / 4294967296

/-- silk_mm_srai_round_epi32 (:125-130) as committed in b1d58384: `((a >> (bits-1)) + 1) >> 1`, the add being
    `_mm_add_epi32` (wrapping); `bits > 1` is asserted. -/
def sraiRoundLane (a : Int) (bits : Nat) : Int := wrap32 (a / 2 ^ (bits - 1) + 1) / 2
/-- the form it replaced: `(a + (1 << (bits-1))) >> bits` with a wrapping add. -/
def sraiRoundLaneOld (a : Int) (bits : Nat) : Int := wrap32 (a + 2 ^ (bits - 1)) / 2 ^ bits

/-- silk_RAND (SigProc_FIX.h:601) and silk_mm256_rand_epi32 (:236-241). -/
def randC (seed : Int) : Int := wrap32 (907633515 + seed * 196314165)
def randLane (seed : Int) : Int := wrap32 (wrap32 (seed * 196314165) + 907633515)

end Opus.Kernels
