import OpusModel.Layout
import OpusModel.FramingSpec
/-
  OpusModel.LayoutSpec — declarative specification of channel layouts and multistream packets (C10),
  written from RFC 7845 §5.1.1 (channel mapping families 0, 1, 255), RFC 8486 §3 (families 2, 3)
  and RFC 6716 Appendix B (multistream packets), independently of the code in `OpusModel.Layout`.
  The theorems tying `Opus.Layout` to these definitions are in `OpusProofs/Layout*.lean`; the
  statements are in `OpusProps/C10.lean`.  Core Lean only.
-/
namespace Opus.LayoutSpec
open Opus Opus.FramingSpec

/-! ### RFC 7845 §5.1.1.2: channel mapping family 1 (Vorbis channel order) -/

/-- Loudspeaker positions named in RFC 7845 §5.1.1.2, Figures 3-9. -/
inductive Speaker where
  | mono | frontLeft | frontCentre | frontRight | sideLeft | sideRight | rearLeft | rearRight
  | rearCentre | lfe
  deriving DecidableEq, Repr

open Speaker in
/-- Output channel order for 1..8 channels (RFC 7845 §5.1.1.2). -/
def speakers : Nat → List Speaker
  | 1 => [mono]
  | 2 => [frontLeft, frontRight]
  | 3 => [frontLeft, frontCentre, frontRight]
  | 4 => [frontLeft, frontRight, rearLeft, rearRight]
  | 5 => [frontLeft, frontCentre, frontRight, rearLeft, rearRight]
  | 6 => [frontLeft, frontCentre, frontRight, rearLeft, rearRight, lfe]
  | 7 => [frontLeft, frontCentre, frontRight, sideLeft, sideRight, rearCentre, lfe]
  | 8 => [frontLeft, frontCentre, frontRight, sideLeft, sideRight, rearLeft, rearRight, lfe]
  | _ => []

/-- The right-hand partner of a left loudspeaker. -/
def Speaker.partner : Speaker → Option Speaker
  | .frontLeft => some .frontRight
  | .sideLeft => some .sideRight
  | .rearLeft => some .rearRight
  | _ => none

/-- What RFC 7845 requires of a family-1 stream layout `(streams, coupled, mapping)` for `ch`
    channels in the order `speakers ch`:
    * every decoded channel `0 .. streams+coupled-1` feeds exactly one output channel (so the `ch`
      loudspeaker signals are coded once each, in the prescribed order): `mapping` is a permutation
      of `0 .. ch-1` and `streams + coupled = ch`;
    * a left/right loudspeaker pair is the left and right side of one coupled stream;
    * the LFE channel is a mono (uncoupled) stream, the last one. -/
def Family1Ok (ch streams coupled : Nat) (mapping : List Nat) : Bool :=
  let sp := speakers ch
  decide (mapping.length = ch) && decide (streams + coupled = ch) && decide (coupled ≤ streams) &&
  (List.range ch).all (fun v => mapping.count v = 1) &&
  (List.range ch).all (fun a =>
    match (sp.getD a .mono).partner with
    | none => true
    | some r =>
      let b := sp.idxOf r
      let m := mapping.getD a 255
      decide (m % 2 = 0) && decide (m < 2 * coupled) && decide (mapping.getD b 255 = m + 1)) &&
  (List.range ch).all (fun a =>
    if sp.getD a .mono = .lfe then decide (mapping.getD a 255 = streams - 1 + coupled) && decide (coupled < streams)
    else true)

/-- The family-1 stream layouts used by every Ogg Opus encoder built on libopus (the
    `vorbis_mappings` table as published; index = channel count). Pinned literal. -/
def family1Literal : Nat → Option (Nat × Nat × List Nat)
  | 1 => some (1, 0, [0])
  | 2 => some (1, 1, [0, 1])
  | 3 => some (2, 1, [0, 2, 1])
  | 4 => some (2, 2, [0, 1, 2, 3])
  | 5 => some (3, 2, [0, 4, 1, 2, 3])
  | 6 => some (4, 2, [0, 4, 1, 2, 3, 5])
  | 7 => some (4, 3, [0, 4, 1, 2, 3, 5, 6])
  | 8 => some (5, 3, [0, 6, 1, 2, 3, 4, 5, 7])
  | _ => none

/-! ### RFC 8486 §3.1: ambisonics channel counts and channel mapping family 2 -/

/-- `(n, j)` with `n ≤ 14`, `j ≤ 1`: ambisonic order and presence of the non-diegetic stereo pair. -/
def ambiPairs : List (Nat × Nat) :=
  (List.range 15).flatMap fun n => [(n, 0), (n, 1)]

/-- `some (n, j)` when `ch = (n+1)² + 2j` for an order `n ≤ 14` and `j ∈ {0,1}`. -/
def ambiOrder (ch : Nat) : Option (Nat × Nat) :=
  ambiPairs.find? fun nj => (nj.1 + 1) * (nj.1 + 1) + 2 * nj.2 = ch

/-- Family 2: the `(n+1)²` ambisonic channels (ACN order) are mono streams, the optional
    non-diegetic stereo pair — the last two channels — is one coupled stream.  Coupled streams come
    first among the decoded channels (RFC 7845 §5.1.1), hence the offset `2j`. -/
def family2 (ch : Nat) : Option (Nat × Nat × List Nat) :=
  match ambiOrder ch with
  | none => none
  | some (n, j) =>
    let acn := (n + 1) * (n + 1)
    some (acn + j, j, (List.range acn).map (· + 2 * j) ++ List.range (2 * j))

/-- The layout a mapping family prescribes for `ch` channels; `none` = the family does not define
    this channel count.  Family 0: mono / stereo, one stream.  Family 255: `ch` independent mono
    streams, identity mapping. -/
def rfcLayout (family : Int) (ch : Nat) : Option (Nat × Nat × List Nat) :=
  if family = 0 then (if ch = 1 then some (1, 0, [0]) else if ch = 2 then some (1, 1, [0, 1]) else none)
  else if family = 1 then family1Literal ch
  else if family = 255 then (if 1 ≤ ch ∧ ch ≤ 255 then some (ch, 0, List.range ch) else none)
  else if family = 2 then family2 ch
  else none

/-- Family 3 (projection, RFC 8486 §3.2) as far as this library supports it: orders 1..5;
    channels are paired into coupled streams in order, identity mapping. -/
def family3 (ch : Nat) : Option (Nat × Nat × List Nat) :=
  match ambiOrder ch with
  | none => none
  | some (n, _) => if 1 ≤ n ∧ n ≤ 5 then some ((ch + 1) / 2, ch / 2, List.range ch) else none

/-! ### multistream packets (RFC 6716 Appendix B, RFC 7845 §3) -/

/-- A multistream packet: every packet but the last in self-delimited framing, the last one in
    standard framing. -/
def msSerialize : List Packet → Bytes
  | [] => []
  | [p] => serialize false p
  | p :: q :: r => serialize true p ++ msSerialize (q :: r)

/-- Duration of a packet in samples at rate `fs`. -/
def duration (fs : Nat) (p : Packet) : Nat := p.frames.length * Framing.samplesPerFrame p.toc fs

/-- The API sampling rates. -/
def Rate (fs : Nat) : Prop := fs = 8000 ∨ fs = 12000 ∨ fs = 16000 ∨ fs = 24000 ∨ fs = 48000

end Opus.LayoutSpec
