import OpusModel.Repack
/-
  OpusModel.RepackInPlace — `opus_packet_unpad` and `opus_multistream_packet_unpad` on ONE byte
  array, in the order in which src/repacketizer.c touches it.

  `opus_repacketizer_cat` stores pointers into the caller's buffer; `opus_repacketizer_out_range_impl`
  then writes into the SAME buffer: first the header bytes through `*ptr++` (repacketizer.c:191-309),
  then, frame by frame, `OPUS_MOVE(ptr, frames[i], len[i])` (:311-319, memmove: the source bytes are
  read before the destination is written).  Here a frame is a pair `(offset, length)` into the buffer
  and every read happens at the moment the C code reads.

  `opus_packet_pad` / `opus_multistream_packet_pad` are not in this file: they `OPUS_COPY` the packet
  to a separate buffer first (repacketizer.c:359-363), the repacketizer's frame pointers point into
  that copy, so source and destination never overlap and `Opus.Repack.padImpl` is already exact.

  The header bytes depend only on the TOC and the frame lengths; they are taken from the pure
  `Opus.Repack.emit` (everything before the frame data).
-/
namespace Opus.Repack
open Opus Opus.Framing Opus.Ext

/-- `memcpy`/byte stores: overwrite `bs.length` bytes of `buf` starting at `off`
    (`.oob` territory is excluded by the callers: they check `off + bs.length ≤ buf.length`). -/
def writeAt (buf : Bytes) (off : Nat) (bs : Bytes) : Bytes :=
  buf.take off ++ bs ++ buf.drop (off + bs.length)

/-- `for (i…) { OPUS_MOVE(ptr, frames[i], len[i]); ptr += len[i]; }` on one buffer:
    each move reads its source from the CURRENT buffer contents. -/
def moveFrames : Bytes → Nat → List (Nat × Nat) → Bytes
  | buf, _, [] => buf
  | buf, dst, (src, n) :: rest => moveFrames (writeAt buf dst ((buf.drop src).take n)) (dst + n) rest

/-- Frame `(offset, length)` pairs reported by the parser. -/
def frameSlots : Nat → List Nat → List (Nat × Nat)
  | _, [] => []
  | off, s :: ss => (off, s) :: frameSlots (off + s) ss

/-- One stream unpadded in place: the stream occupies `buf[src .. src+plen)`, the output goes to
    `buf[dst ..)` (`dst ≤ src`), `maxlen` as passed by the caller.  Returns the buffer and the number of
    bytes written. -/
def unpadStreamInPlace (buf : Bytes) (src plen dst : Nat) (maxlen : Int) (sd : Bool) : Res (Bytes × Nat) :=
  let pkt := (buf.drop src).take plen
  match catImpl (init Rp.empty) pkt sd with
  | (rp, .ok ()) =>
    match parseImpl sd pkt with
    | .ok r =>
      -- what out_range_impl computes from toc and len[] alone
      match emit rp.toc rp.frames maxlen sd false #[] with
      | .ok out =>
        let body := sumN r.sizes
        if out.length < body then .abort
        else
          let hdr := out.take (out.length - body)
          if buf.length < dst + out.length then .oob
          else
            let buf1 := writeAt buf dst hdr
            .ok (moveFrames buf1 (dst + hdr.length) (frameSlots (src + r.payloadOffset) r.sizes), out.length)
      | .err e => .err e
      | .oob => .oob
      | .abort => .abort
    | .err e => .err e
    | .oob => .oob
    | .abort => .abort
  | (_, .err e) => .err e
  | (_, .oob) => .oob
  | (_, .abort) => .abort

/-- `opus_packet_unpad` in place (repacketizer.c:383-402): the whole buffer afterwards, and `ret`. -/
def packetUnpadInPlace (buf : Bytes) : Res (Bytes × Nat) :=
  if buf.length < 1 then .err .badArg
  else
    match unpadStreamInPlace buf 0 buf.length 0 buf.length false with
    | .ok (b, n) => if 0 < n ∧ n ≤ buf.length then .ok (b, n) else .abort
    | .err e => (match catImpl (init Rp.empty) buf false with
                 | (_, .ok ()) => .abort          -- celt_assert(ret > 0 && ret <= len)
                 | _ => .err e)
    | .oob => .oob
    | .abort => .abort

/-- The stream loop of `opus_multistream_packet_unpad` in place (repacketizer.c:450-478): `src` = read
    position (`data`), `dst` = write position, `s` streams remain. -/
def msUnpadLoopInPlace : Nat → Bytes → Nat → Nat → Res (Bytes × Nat)
  | 0, buf, _, dst => .ok (buf, dst)
  | s + 1, buf, src, dst =>
    let sd := s ≠ 0
    if buf.length ≤ src then .err .invalidPacket
    else
      match parseImpl sd (buf.drop src) with
      | .ok r =>
        match unpadStreamInPlace buf src r.packetOffset dst ((buf.length : Int) - src) sd with
        | .ok (buf', n) => msUnpadLoopInPlace s buf' (src + r.packetOffset) (dst + n)
        | .err e => .err e
        | .oob => .oob
        | .abort => .abort
      | .err e => .err e
      | .oob => .oob
      | .abort => .abort

/-- `opus_multistream_packet_unpad` in place: the buffer afterwards and `ret`. -/
def msUnpadInPlace (buf : Bytes) (nbStreams : Int) : Res (Bytes × Nat) :=
  if buf.length < 1 then .err .badArg
  else msUnpadLoopInPlace nbStreams.toNat buf 0 0

end Opus.Repack
