import OpusModel.Basic
/-
  OpusModel.SoftClip — transcription of `opus_pcm_soft_clip` (src/opus.c:36-137) and of the
  decoder-gain post-processing (src/opus_decoder.c:646-660, 1077-1086).

  The soft clipper is written ONCE, generically over a type `α` carrying the
  operations the C code uses (`ClipOps`: + - * / unary minus, fabs, the two
  comparisons `<` and `<=` as Bool-valued functions because for IEEE floats `a >= b`
  is not `¬ (a < b)`, int→float conversion, and the four constants 0, 1, 2, 2.4e-7f).

  * `instance : ClipOps Float32` (bottom of this file) is the executable instantiation
    that the correspondence suite `softclip` compares bit-for-bit against the real
    `opus_pcm_soft_clip` (Lean's `Float32` is the hardware binary32, opaque to the kernel).
  * `OpusProofs/SoftClip*.lean` instantiates the same definitions at an arbitrary linearly
    ordered field (exact arithmetic) for the theorems of `OpusProps/C19.lean`.

  Conventions.  The interleaved PCM buffer `_x` is an `Array α`; the C pointer
  `x = _x + c` with stride `C` is the pair of accessors `rd x C c i` (`x[i*C]`) and
  `wr x C c i v` (`x[i*C] = v`).  Every C loop is one recursive function, in the
  order and with the operation order of the C text (e.g. `x + a*x*x` is
  `x + (a*x)*x`, `a += a*2.4e-7f` is `a + a*eps`).
-/
namespace Opus.SoftClip
open Opus

/-- The operations `opus_pcm_soft_clip` performs on samples. -/
class ClipOps (α : Type) extends Add α, Sub α, Mul α, Div α, Neg α where
  zero : α
  one : α
  two : α
  /-- the boost constant `2.4e-7f` (opus.c:108) -/
  eps : α
  /-- `ABS16(x) = (float)fabs(x)` (arch.h:297) -/
  abs : α → α
  /-- C `a < b` -/
  ltb : α → α → Bool
  /-- C `a <= b` -/
  leb : α → α → Bool
  /-- `int` → `float` conversion (of `peak_pos`, opus.c:121) -/
  ofNat : Nat → α

section generic
variable {α : Type} [ClipOps α]
open ClipOps

/-- `x[i*C]` for the channel pointer `x = _x + c`. -/
@[inline] def rd (x : Array α) (C c i : Nat) : α := x.getD (i * C + c) zero
/-- `x[i*C] = v`. -/
@[inline] def wr (x : Array α) (C c i : Nat) (v : α) : Array α := x.setIfInBounds (i * C + c) v

/-- `MAX16(a,b) = ((a) > (b) ? (a) : (b))` (arch.h:101). -/
@[inline] def max16 (a b : α) : α := if ltb b a then a else b
/-- `MIN16(a,b) = ((a) < (b) ? (a) : (b))` (arch.h:100). -/
@[inline] def min16 (a b : α) : α := if ltb a b then a else b

/-- `MAX16(-2.f, MIN16(2.f, v))` (opus.c:49). -/
@[inline] def sat2 (v : α) : α := max16 (-two) (min16 two v)
/-- `MAX16(-1.f, MIN16(1.f, v))` (opus.c:127). -/
@[inline] def sat1 (v : α) : α := max16 (-one) (min16 one v)

/-- opus.c:48-49: `for (i=0;i<N*C;i++) _x[i] = MAX16(-2.f, MIN16(2.f, _x[i]));` -/
def satLoop (x : Array α) (i n : Nat) : Array α :=
  if i < n then satLoop (x.setIfInBounds i (sat2 (x.getD i zero))) (i + 1) n else x
termination_by n - i

/-- The non-linearity `x + a*x*x` (opus.c:64 and :113), C evaluation order. -/
@[inline] def nl (a v : α) : α := v + a * v * v

/-- opus.c:60-65: continue the previous frame's non-linearity until the first sample with
    `x*a >= 0`. -/
def contLoop (x : Array α) (C c N : Nat) (a : α) (i : Nat) : Array α :=
  if i < N then
    let v := rd x C c i
    if leb zero (v * a) then x
    else contLoop (wr x C c i (nl a v)) C c N a (i + 1)
  else x
termination_by N - i

/-- opus.c:76-80: first `i ≥ curr` with `x[i*C]>1 || x[i*C]<-1`, or `N`. -/
def findExceed (x : Array α) (C c N : Nat) (i : Nat) : Nat :=
  if i < N then
    let v := rd x C c i
    if ltb one v || ltb v (-one) then i else findExceed x C c N (i + 1)
  else N
termination_by N - i

/-- opus.c:90-91: `while (start>0 && x[i*C]*x[(start-1)*C]>=0) start--;` (`xi = x[i*C]`). -/
def startScan (x : Array α) (C c : Nat) (xi : α) : Nat → Nat
  | 0 => 0
  | s + 1 => if leb zero (xi * rd x C c s) then startScan x C c xi s else s + 1

/-- opus.c:93-102: scan forward to the next zero crossing, tracking the peak.
    Returns `(end, maxval, peak_pos)`. -/
def endScan (x : Array α) (C c N : Nat) (xi : α) (e : Nat) (maxval : α) (peak : Nat) : Nat × α × Nat :=
  if e < N then
    let v := rd x C c e
    if leb zero (xi * v) then
      if ltb maxval (abs v) then endScan x C c N xi (e + 1) (abs v) e
      else endScan x C c N xi (e + 1) maxval peak
    else (e, maxval, peak)
  else (e, maxval, peak)
termination_by N - e

/-- opus.c:106-111: `a=(maxval-1)/(maxval*maxval); a += a*2.4e-7f; if (x[i*C]>0) a = -a;` -/
@[inline] def coefA (maxval xi : α) : α :=
  let a := (maxval - one) / (maxval * maxval)
  let a := a + a * eps
  if ltb zero xi then -a else a

/-- opus.c:112-114: `for (i=start;i<end;i++) x[i*C] = x[i*C]+a*x[i*C]*x[i*C];` -/
def applyLoop (x : Array α) (C c : Nat) (a : α) (i e : Nat) : Array α :=
  if i < e then applyLoop (wr x C c i (nl a (rd x C c i))) C c a (i + 1) e else x
termination_by e - i

/-- opus.c:124-131: the linear ramp of the special case,
    `offset = delta*(peak_pos-1-i); x[i*C] += offset; x[i*C] = MAX16(-1.f, MIN16(1.f, x[i*C]));`
    (`peak_pos-1-i` is a non-negative `int` converted to float; the term is exactly 0 at `i = peak_pos-1`). -/
def rampLoop (x : Array α) (C c : Nat) (delta : α) (i peak : Nat) : Array α :=
  if i < peak then
    let offset := delta * ofNat (peak - 1 - i)
    let v := rd x C c i + offset
    rampLoop (wr x C c i (sat1 v)) C c delta (i + 1) peak
  else x
termination_by peak - i

/-- One pass of the body of `while(1)` after an excursion was found at `i` (opus.c:86-133).
    Returns the buffer, the coefficient `a` and `end`. -/
def excursion (x : Array α) (C c N : Nat) (x0 : α) (curr i : Nat) : Array α × α × Nat :=
  let xi := rd x C c i
  let start := startScan x C c xi i
  let (e, maxval, peak) := endScan x C c N xi i (abs xi) i
  -- special = (start==0 && x[i*C]*x[0]>=0), evaluated before the samples are modified
  let special := start == 0 && leb zero (xi * rd x C c 0)
  let a := coefA maxval xi
  let x := applyLoop x C c a start e
  let x :=
    if special && decide (2 ≤ peak) then
      let offset := x0 - rd x C c 0
      let delta := offset / ofNat peak
      rampLoop x C c delta curr peak
    else x
  (x, a, e)

/-- opus.c:69-134: the `while(1)` loop over excursions.  Returns the buffer and the final `a`
    (0 when the tail of the frame is inside [-1,1]).
    The C loop advances because `end > i >= curr` (the scan at opus.c:93 accepts `end = i`
    since `x[i]*x[i] >= 0`); the model carries that as the run-time guard `curr < e ∧ curr < N`
    so that the definition is total for arbitrary `ClipOps` — lemma `endScan_gt`
    (OpusProofs/SoftClip.lean) shows the guard always holds over an ordered field. -/
def outer (x : Array α) (C c N : Nat) (x0 : α) (curr : Nat) : Array α × α :=
  let i := findExceed x C c N curr
  if i < N then
    let (x', a, e) := excursion x C c N x0 curr i
    if e = N then (x', a)
    else if _h : curr < e ∧ curr < N then outer x' C c N x0 e
    else (x', a)
  else (x, zero)
termination_by N - curr
decreasing_by omega

/-- opus.c:50-136, body of `for (c=0;c<C;c++)`. -/
def clipChannel (x mem : Array α) (C c N : Nat) : Array α × Array α :=
  let a := mem.getD c zero
  let x := contLoop x C c N a 0
  let x0 := rd x C c 0
  let (x, a) := outer x C c N x0 0
  (x, mem.setIfInBounds c a)

/-- opus.c:50 `for (c=0;c<C;c++)`. -/
def chanLoop (x mem : Array α) (C N : Nat) (c : Nat) : Array α × Array α :=
  if c < C then
    let (x, mem) := clipChannel x mem C c N
    chanLoop x mem C N (c + 1)
  else (x, mem)
termination_by C - c

/-- `opus_pcm_soft_clip(_x, N, C, declip_mem)` (opus.c:36-137).  `xNull` / `memNull` stand for
    null pointers.  `oob` = the caller's buffers are shorter than `N*C` / `C` (C: undefined). -/
def softClip (xNull memNull : Bool) (x mem : Array α) (N C : Int) : Res (Array α × Array α) :=
  if C < 1 ∨ N < 1 ∨ xNull ∨ memNull then .ok (x, mem)
  else
    let n := N.toNat; let ch := C.toNat
    if x.size < n * ch ∨ mem.size < ch then .oob
    else
      let x := satLoop x 0 (n * ch)
      .ok (chanLoop x mem ch n 0)

/-! ### Decoder gain (src/opus_decoder.c:646-660, 1077-1086) -/

/-- `OPUS_SET_GAIN` (opus_decoder.c:1077-1086): rejects values outside int16, else stores. -/
def setGain (cur : Int) (value : Int) : Res Int × Int :=
  if value < -32768 ∨ value > 32767 then (.err .badArg, cur) else (.ok 0, value)

/- The per-sample multiplication of the gain block (src/opus_decoder.c:654-668, float build: `MULT16_32_P16(a,b) = a*b`,
   `SATURATE(x,a) = x`) is one binary32 product per sample with the factor `gainOfF32 g` below; where in the call structure
   it happens (once per frame, last step, skipped for gain 0 and inside the recursive transition calls) is modelled by
   `DecSkel.stepGain` / `DecSkel.gain0Call` in C01's decoder skeleton, on which `OpusProps.C19.gain_frame_condition` is stated. -/

end generic

/-! ### Executable instantiation at binary32 -/

instance : ClipOps Float32 where
  zero := 0
  one := 1
  two := 2
  eps := Float32.ofBits 0x3480D959      -- 2.4e-7f
  abs := Float32.abs
  ltb a b := decide (a < b)
  leb a b := decide (a ≤ b)
  ofNat := Float32.ofNat

/-- `celt_exp2(6.48814081e-4f * g)` (opus_decoder.c:649).  This build has no `FLOAT_APPROX`, so
    `celt_exp2(x) = (float)exp(0.6931471805599453094*(x))` (celt/mathops.h:261): the product is a
    binary32 multiplication, the exponential is libm's double `exp`, the result is rounded to binary32. -/
def gainOfF32 (g : Int) : Float32 :=
  let x : Float32 := Float32.ofBits 0x3A2A152D * Float32.ofInt g   -- 6.48814081e-4f * (float)g
  (Float.exp (0.6931471805599453094 * x.toFloat)).toFloat32

end Opus.SoftClip
