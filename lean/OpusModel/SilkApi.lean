import OpusModel.Basic
/-!
  OpusModel.SilkApi — the control layer of the SILK decoder (C01 extension, slice `SilkApi`).

  Transcribes, for the float / VAR_ARRAYS / no-OSCE / no-deep-PLC configuration of the baseline build,
    silk/dec_API.c        silk_InitDecoder :107-129, silk_ResetDecoder :89-104, silk_Decode :132-431
    silk/init_decoder.c   silk_reset_decoder :43-67, silk_init_decoder :73-83
    silk/decoder_set_fs.c silk_decoder_set_fs :35-107
    silk/stereo_MS_to_LR.c silk_stereo_MS_to_LR :35-85  (exact integer values)
    silk/resampler.c      silk_resampler_init :78-104 (argument check + rate tags only)

  ORACLES (contracts in `OrcOk`): `silk_decode_frame` (per channel: frame_length int16 samples at the internal rate,
  the control members it rewrites), `silk_resampler` (inLen samples in -> inLen*Fs_out/Fs_in samples out), and the
  symbol reads of :231-:244 / :284-:289 (their RESULTS are oracle answers; which reads happen is modelled and traced).
  C `int` is unbounded `Int` with explicit `wrap32` / `sext16` / `sat16` where the C code relies on them.
-/
namespace Opus.SilkApi

/-! ## integer helpers -/
def wrap32 (x : Int) : Int := (x + 2147483648) % 4294967296 - 2147483648
def sext16 (x : Int) : Int := (x + 32768) % 65536 - 32768
/-- silk_SAT16 (SigProc_FIX.h:474) -/
def sat16 (x : Int) : Int := if x > 32767 then 32767 else if x < -32768 then -32768 else x
/-- silk_SMULBB (macros.h:70) -/
def smulbb (a b : Int) : Int := sext16 a * sext16 b
/-- silk_SMLAWB (macros.h:50, OPUS_FAST_INT64) -/
def smlawb (a b c : Int) : Int := wrap32 (a + (b * sext16 c) / 65536)
/-- silk_RSHIFT_ROUND(a, s) for s > 1 (SigProc_FIX.h:531) -/
def rshiftRound (a : Int) (s : Nat) : Int := (a / (2 ^ (s - 1)) + 1) / 2
def In16 (x : Int) : Prop := -32768 ≤ x ∧ x ≤ 32767

/-! ## state -/

/-- The members of `silk_decoder_state` (structs.h:285-337) the control layer reads or writes.  Table pointers are tags. -/
structure Chan where
  fs_kHz : Int := 0
  fs_API_hz : Int := 0
  nb_subfr : Int := 0
  frame_length : Int := 0
  subfr_length : Int := 0
  ltp_mem_length : Int := 0
  LPC_order : Int := 0
  first_frame_after_reset : Int := 1          -- init_decoder.c:51
  lagPrev : Int := 0
  LastGainIndex : Int := 0
  prevSignalType : Int := 0
  lagLowBits : Int := 0      -- pitch_lag_low_bits_iCDF: 0 NULL, 4 / 6 / 8 = silk_uniform{4,6,8}_iCDF
  pitchContour : Int := 0    -- pitch_contour_iCDF: 0 NULL, 1 _NB, 2 _10_ms_NB, 3 silk_pitch_contour_iCDF, 4 _10_ms
  nlsfCb : Int := 0          -- psNLSF_CB: 0 NULL, 1 silk_NLSF_CB_NB_MB, 2 silk_NLSF_CB_WB
  nFramesDecoded : Int := 0
  nFramesPerPacket : Int := 0
  vad : List Int := [0, 0, 0]      -- VAD_flags[MAX_FRAMES_PER_PACKET]
  lbrrFlag : Int := 0
  lbrr : List Int := [0, 0, 0]     -- LBRR_flags[MAX_FRAMES_PER_PACKET]
  rsIn : Int := 0            -- resampler_state.Fs_in_kHz  (0 = cleared)
  rsOut : Int := 0           -- resampler_state.Fs_out_kHz
  deriving Repr, DecidableEq, Inhabited

/-- silk_init_decoder / silk_reset_decoder (init_decoder.c:43-83): without OSCE the reset clears the whole struct,
    then sets first_frame_after_reset = 1 (+ prev_gain_Q16, arch, CNG / PLC state: not control members). -/
def freshChan : Chan := {}

/-- stereo_dec_state (structs.h) -/
structure Stereo where
  pred_prev0 : Int := 0
  pred_prev1 : Int := 0
  sMid0 : Int := 0
  sMid1 : Int := 0
  sSide0 : Int := 0
  sSide1 : Int := 0
  deriving Repr, DecidableEq, Inhabited

/-- silk_decoder (main.h) -/
structure Dec where
  ch0 : Chan := {}
  ch1 : Chan := {}
  st : Stereo := {}
  nChannelsAPI : Int := 0
  nChannelsInternal : Int := 0
  prev_decode_only_middle : Int := 0
  deriving Repr, DecidableEq, Inhabited

/-- silk_InitDecoder (dec_API.c:107-129) and, in this build, silk_ResetDecoder (:89-104): both channel states fresh,
    sStereo cleared, prev_decode_only_middle = 0; nChannelsAPI / nChannelsInternal are NOT touched. -/
def initDecoder (d : Dec) : Dec :=
  { d with ch0 := freshChan, ch1 := freshChan, st := {}, prev_decode_only_middle := 0 }

/-- The members of silk_DecControlStruct read by silk_Decode, and its scalar arguments. -/
structure Args where
  nChannelsAPI : Int
  nChannelsInternal : Int
  API_sampleRate : Int
  internalSampleRate : Int
  payloadSize_ms : Int
  lostFlag : Int            -- 0 FLAG_DECODE_NORMAL, 1 FLAG_PACKET_LOST, 2 FLAG_DECODE_LBRR
  newPacketFlag : Int
  deriving Repr, DecidableEq, Inhabited

def SILK_DEC_INVALID_SAMPLING_FREQUENCY : Int := -200
def SILK_DEC_INVALID_FRAME_SIZE : Int := -203

/-- Inner call / event with integer arguments. -/
abbrev Ev := String × List Int

/-! ## silk_decoder_set_fs -/

/-- silk_resampler_init(S, in, out, forEnc = 0) argument check (resampler.c:97-101). -/
def resamplerInitRet (inHz outHz : Int) : Int :=
  if (inHz ≠ 8000 ∧ inHz ≠ 12000 ∧ inHz ≠ 16000) ∨
     (outHz ≠ 8000 ∧ outHz ≠ 12000 ∧ outHz ≠ 16000 ∧ outHz ≠ 24000 ∧ outHz ≠ 48000) then -1 else 0

/-- decoder_set_fs.c:43-44 celt_asserts on entry. -/
def setFsPre (c : Chan) (k : Int) : Bool :=
  (k = 8 ∨ k = 12 ∨ k = 16) ∧ (c.nb_subfr = 4 ∨ c.nb_subfr = 2)

/-- decoder_set_fs.c:46-56  sub-frame length and resampler re-initialisation.  Returns the channel and `ret`. -/
def setFsResamp (c : Chan) (k api : Int) : Chan × Int :=
  let c := { c with subfr_length := smulbb 5 k }                               -- :47
  if c.fs_kHz ≠ k ∨ c.fs_API_hz ≠ api then                                      -- :51
    let r := resamplerInitRet (smulbb k 1000) api                              -- :53
    -- resampler.c:87 clears the state first; :106-107 set the rate members when the check passes
    ({ c with rsIn := if r = 0 then smulbb k 1000 / 1000 else 0, rsOut := if r = 0 then api / 1000 else 0,
              fs_API_hz := api }, r)                                            -- :55
  else (c, 0)

/-- decoder_set_fs.c:72-97  the block executed when the internal rate changes. -/
def setFsRate (c : Chan) (k : Int) : Chan :=
  { c with ltp_mem_length := smulbb 20 k,                                       -- :73
           LPC_order := if k = 8 ∨ k = 12 then 10 else 16,                      -- :74-80
           nlsfCb := if k = 8 ∨ k = 12 then 1 else 2,
           lagLowBits := if k = 16 then 8 else if k = 12 then 6 else if k = 8 then 4 else c.lagLowBits,   -- :81-90
           first_frame_after_reset := 1, lagPrev := 100, LastGainIndex := 10, prevSignalType := 0 }       -- :91-96

/-- decoder_set_fs.c:58-101 -/
def setFsTables (c : Chan) (k : Int) : Chan :=
  let fl := smulbb c.nb_subfr c.subfr_length                                    -- :48
  if c.fs_kHz ≠ k ∨ fl ≠ c.frame_length then                                    -- :58
    let c := { c with pitchContour := if k = 8 then (if c.nb_subfr = 4 then 1 else 2)
                                      else (if c.nb_subfr = 4 then 3 else 4) }  -- :59-71
    let c := if c.fs_kHz ≠ k then setFsRate c k else c                           -- :72
    { c with fs_kHz := k, frame_length := fl }                                  -- :99-100
  else c

/-- silk_decoder_set_fs (decoder_set_fs.c:35-107): new channel state and return value. -/
def setFs (c : Chan) (k api : Int) : Chan × Int :=
  let cr := setFsResamp c k api
  (setFsTables cr.1 k, cr.2)

/-- decoder_set_fs.c:104 celt_assert on exit. -/
def setFsPost (c : Chan) : Bool := 0 < c.frame_length ∧ c.frame_length ≤ 320

/-! ## silk_Decode: configuration part (:159-:224) -/

/-- :181-:201  payloadSize_ms -> (nFramesPerPacket, nb_subfr); `none` = the SILK_DEC_INVALID_FRAME_SIZE exit. -/
def payloadCfg (ms : Int) : Option (Int × Int) :=
  if ms = 0 then some (1, 2) else if ms = 10 then some (1, 2) else if ms = 20 then some (1, 4)
  else if ms = 40 then some (2, 4) else if ms = 60 then some (3, 4) else none

/-- :202-:207  internalSampleRate -> fs_kHz_dec; `none` = the SILK_DEC_INVALID_SAMPLING_FREQUENCY exit. -/
def fsKHzDec (rate : Int) : Option Int :=
  let k := rate / 1024 + 1
  if k ≠ 8 ∧ k ≠ 12 ∧ k ≠ 16 then none else some k

/-- Outcome of the configuration part. -/
structure Prep where
  d : Dec
  ret : Int := 0
  err : Option Int := none      -- early error return (:200 / :206 / :221)
  ok : Bool := true             -- all celt_asserts passed
  sToM : Bool := false          -- stereo_to_mono (:175)
  ev : List (String × List Int) := []
  deriving Repr, Inhabited

/-- Body of the loop :179-:209 for one channel.  `inl code` = error return. -/
def cfgChan (c : Chan) (a : Args) : (Int ⊕ (Chan × Int × Bool)) :=
  match payloadCfg a.payloadSize_ms with
  | none => .inl SILK_DEC_INVALID_FRAME_SIZE
  | some (nfpp, nsub) =>
    let c := { c with nFramesPerPacket := nfpp, nb_subfr := nsub }
    match fsKHzDec a.internalSampleRate with
    | none => .inl SILK_DEC_INVALID_SAMPLING_FREQUENCY
    | some k =>
      let r := setFs c k a.API_sampleRate
      .inr (r.1, r.2, setFsPre c k && setFsPost r.1)

/-- :164-:173  nFramesDecoded reset and mono->stereo initialisation of channel 1. -/
def prepReset (d : Dec) (a : Args) : Dec × Int :=
  let d := if a.newPacketFlag ≠ 0 then
             { d with ch0 := { d.ch0 with nFramesDecoded := 0 },
                      ch1 := if a.nChannelsInternal = 2 then { d.ch1 with nFramesDecoded := 0 } else d.ch1 }
           else d
  if a.nChannelsInternal > d.nChannelsInternal then ({ d with ch1 := freshChan }, 0) else (d, 0)

/-- :212-:218 -/
def prepStereo (d : Dec) (a : Args) : Dec :=
  let d := if a.nChannelsAPI = 2 ∧ a.nChannelsInternal = 2 ∧ (d.nChannelsAPI = 1 ∨ d.nChannelsInternal = 1) then
             { d with st := { d.st with pred_prev0 := 0, pred_prev1 := 0, sSide0 := 0, sSide1 := 0 },
                      ch1 := { d.ch1 with rsIn := d.ch0.rsIn, rsOut := d.ch0.rsOut } }
           else d
  { d with nChannelsAPI := a.nChannelsAPI, nChannelsInternal := a.nChannelsInternal }

/-- silk_Decode :159-:224. -/
def prep (d : Dec) (a : Args) : Prep :=
  if ¬ (a.nChannelsInternal = 1 ∨ a.nChannelsInternal = 2) then { d := d, ok := false } else     -- :159
  let d1 := (prepReset d a).1
  let sToM : Bool := a.nChannelsInternal = 1 ∧ d1.nChannelsInternal = 2 ∧ a.internalSampleRate = 1000 * d1.ch0.fs_kHz  -- :175
  let ev0 : List Ev := if a.nChannelsInternal > d.nChannelsInternal then [("initch1", [])] else []
  let step2 (p : Prep) : Prep :=
    let p := { p with d := prepStereo p.d a, ev := ev0 ++ p.ev }
    if a.API_sampleRate > 48 * 1000 ∨ a.API_sampleRate < 8000 then                               -- :220
      { p with ret := SILK_DEC_INVALID_SAMPLING_FREQUENCY, err := some SILK_DEC_INVALID_SAMPLING_FREQUENCY }
    else p
  if d1.ch0.nFramesDecoded = 0 then                                                               -- :178
    match cfgChan d1.ch0 a with
    | .inl e => { d := d1, ret := e, err := some e, ok := false, sToM := sToM }                   -- celt_assert(0) precedes the return
    | .inr (c0, r0, ok0) =>
      let d2 := { d1 with ch0 := c0 }
      let k := a.internalSampleRate / 1024 + 1
      let sf (n : Int) : Ev := ("setfs", [n, k, a.API_sampleRate])
      if a.nChannelsInternal = 2 then
        match cfgChan d2.ch1 a with
        | .inl e => { d := d2, ret := e, err := some e, ok := false, sToM := sToM }
        | .inr (c1, r1, ok1) => step2 { d := { d2 with ch1 := c1 }, ret := r0 + r1, ok := ok0 && ok1, sToM := sToM, ev := [sf 0, sf 1] }
      else step2 { d := d2, ret := r0, ok := ok0, sToM := sToM, ev := [sf 0] }
  else step2 { d := d1, sToM := sToM }

/-! ## oracle answers -/

/-- What one `silk_decode_frame` call did: return value, the `frame_length` samples, and the control members it rewrites. -/
structure FrameOrc where
  ret : Int := 0
  samples : List Int := []
  lagPrev : Int := 0
  LastGainIndex : Int := 0
  prevSignalType : Int := 0
  first_frame_after_reset : Int := 0
  deriving Repr, Inhabited

structure Orc where
  vad0 : List Int := []      -- ec_dec_bit_logp results of :231 for channel 0 (nFramesPerPacket of them)
  vad1 : List Int := []
  lbrrFlag0 : Int := 0       -- :233
  lbrrFlag1 : Int := 0
  lbrrSym0 : Int := 0        -- ec_dec_icdf result of :242 (before the +1)
  lbrrSym1 : Int := 0
  pred0 : Int := 0           -- silk_stereo_decode_pred of :284
  pred1 : Int := 0
  midOnly : Int := 0         -- silk_stereo_decode_mid_only of :289
  frame0 : FrameOrc := {}
  frame1 : FrameOrc := {}
  rs : List (Int × List Int) := []   -- silk_resampler calls in order: (ret, output samples)
  deriving Repr, Inhabited

/-! ## trace: inner calls and index extents -/

/-- One recorded array access: elements [lo, lo+n) (stride `stride`) of an array of `cap` elements. -/
structure Acc where
  buf : String
  lo : Int
  n : Int
  stride : Int := 1
  cap : Int
  deriving Repr, DecidableEq, Inhabited

/-- highest element touched + 1 (for n > 0) -/
def Acc.hi (a : Acc) : Int := a.lo + (a.n - 1) * a.stride + 1
def Acc.InBounds (a : Acc) : Prop := a.n = 0 ∨ (0 < a.n ∧ 0 ≤ a.lo ∧ 0 < a.stride ∧ a.hi ≤ a.cap)
instance (a : Acc) : Decidable a.InBounds := by unfold Acc.InBounds; exact inferInstance


/-! ## flags (:226-:248) -/

def get3 (l : List Int) (i : Int) : Int := if i < 0 then 0 else l.getD i.toNat 0

/-- :230-:232 the VAD bits read for one channel stored into VAD_flags[0 .. nFramesPerPacket). -/
def setVad (c : Chan) (bits : List Int) : Chan :=
  { c with vad := [if 0 < c.nFramesPerPacket then bits.getD 0 0 else get3 c.vad 0,
                   if 1 < c.nFramesPerPacket then bits.getD 1 0 else get3 c.vad 1,
                   if 2 < c.nFramesPerPacket then bits.getD 2 0 else get3 c.vad 2] }

/-- :237-:247 LBRR_flags of one channel. -/
def setLbrr (c : Chan) (flag sym : Int) : Chan :=
  let c := { c with lbrrFlag := flag, lbrr := [0, 0, 0] }
  if flag ≠ 0 then
    if c.nFramesPerPacket = 1 then { c with lbrr := [1, 0, 0] }
    else
      let s := sym + 1
      { c with lbrr := [if 0 < c.nFramesPerPacket then s % 2 else 0,
                        if 1 < c.nFramesPerPacket then s / 2 % 2 else 0,
                        if 2 < c.nFramesPerPacket then s / 4 % 2 else 0] }
  else c

/-- Accesses of :230-:247 for channel `n`. -/
def flagAccs (c : Chan) (flag : Int) : List Acc :=
  [{ buf := "VAD_flags", lo := 0, n := c.nFramesPerPacket, cap := 3 }] ++
  (if flag ≠ 0 then
     (if c.nFramesPerPacket = 1 then [{ buf := "LBRR_flags", lo := 0, n := 1, cap := 3 }]
      else [{ buf := "silk_LBRR_flags_iCDF_ptr", lo := c.nFramesPerPacket - 2, n := 1, cap := 2 },
            { buf := "LBRR_flags", lo := 0, n := c.nFramesPerPacket, cap := 3 }])
   else [])

/-- :252-:275 LBRR skip loop, control only: events for frame i, channel n. -/
def lbrrSkipOne (d : Dec) (nCh : Int) (i : Int) (n : Int) : List Ev :=
  let c := if n = 0 then d.ch0 else d.ch1
  if get3 c.lbrr i ≠ 0 then
    (if nCh = 2 ∧ n = 0 then
       [("pred", [])] ++ (if get3 d.ch1.lbrr i = 0 then [("mid", [])] else [])          -- :258-:263
     else []) ++
    [("indices", [n, i, 1, if i > 0 ∧ get3 c.lbrr (i - 1) ≠ 0 then 2 else 0]),          -- :265-:270
     ("pulses", [c.frame_length])]                                                    -- :271
  else []

def lbrrSkipFrame (d : Dec) (nCh : Int) (i : Int) : List Ev :=
  lbrrSkipOne d nCh i 0 ++ (if nCh = 2 then lbrrSkipOne d nCh i 1 else [])

def lbrrSkip (d : Dec) (nCh : Int) : List Ev :=
  (if 0 < d.ch0.nFramesPerPacket then lbrrSkipFrame d nCh 0 else []) ++
  (if 1 < d.ch0.nFramesPerPacket then lbrrSkipFrame d nCh 1 else []) ++
  (if 2 < d.ch0.nFramesPerPacket then lbrrSkipFrame d nCh 2 else []) ++
  (if 3 < d.ch0.nFramesPerPacket then [("lbrr-skip-beyond-3", [d.ch0.nFramesPerPacket])] else [])

/-- :226-:277 -/
def readFlags (d : Dec) (a : Args) (o : Orc) : Dec × List Ev × List Acc :=
  if a.lostFlag ≠ 1 ∧ d.ch0.nFramesDecoded = 0 then
    let c0 := setLbrr (setVad d.ch0 o.vad0) o.lbrrFlag0 o.lbrrSym0
    let c1 := if a.nChannelsInternal = 2 then setLbrr (setVad d.ch1 o.vad1) o.lbrrFlag1 o.lbrrSym1 else d.ch1
    let d' := { d with ch0 := c0, ch1 := c1 }
    let ev : List Ev :=
      [("bits", [d.ch0.nFramesPerPacket + 1 + (if a.nChannelsInternal = 2 then d.ch1.nFramesPerPacket + 1 else 0)])] ++
      (if o.lbrrFlag0 ≠ 0 ∧ d.ch0.nFramesPerPacket ≠ 1 then [("lbrrsym", [d.ch0.nFramesPerPacket - 2])] else []) ++
      (if a.nChannelsInternal = 2 ∧ o.lbrrFlag1 ≠ 0 ∧ d.ch1.nFramesPerPacket ≠ 1 then [("lbrrsym", [d.ch1.nFramesPerPacket - 2])] else []) ++
      (if a.lostFlag = 0 then lbrrSkip d' a.nChannelsInternal else [])
    let ac := flagAccs d.ch0 o.lbrrFlag0 ++ (if a.nChannelsInternal = 2 then flagAccs d.ch1 o.lbrrFlag1 else [])
    (d', ev, ac)
  else (d, [], [])

/-! ## stereo predictor / mid-only / has_side (:280-:323) -/

structure Pred where
  p0 : Int := 0
  p1 : Int := 0
  dom : Int := 0          -- decode_only_middle
  ev : List Ev := []
  ac : List Acc := []
  deriving Repr, Inhabited

/-- :280-:298 -/
def stereoPred (d : Dec) (a : Args) (o : Orc) : Pred :=
  if a.nChannelsInternal = 2 then
    let fi := d.ch0.nFramesDecoded
    if a.lostFlag = 0 ∨ (a.lostFlag = 2 ∧ get3 d.ch0.lbrr fi = 1) then
      let ac0 : List Acc := if a.lostFlag = 0 then [] else [{ buf := "LBRR_flags", lo := fi, n := 1, cap := 3 }]
      let ac1 : List Acc := [{ buf := if a.lostFlag = 0 then "VAD_flags" else "LBRR_flags", lo := fi, n := 1, cap := 3 }]
      if (a.lostFlag = 0 ∧ get3 d.ch1.vad fi = 0) ∨ (a.lostFlag = 2 ∧ get3 d.ch1.lbrr fi = 0) then
        { p0 := o.pred0, p1 := o.pred1, dom := o.midOnly, ev := [("pred", []), ("mid", [])], ac := ac0 ++ ac1 }
      else { p0 := o.pred0, p1 := o.pred1, dom := 0, ev := [("pred", [])], ac := ac0 ++ ac1 }
    else
      { p0 := d.st.pred_prev0, p1 := d.st.pred_prev1, dom := 0,
        ac := if a.lostFlag = 2 then [{ buf := "LBRR_flags", lo := fi, n := 1, cap := 3 }] else [] }
  else {}

/-- :301-:308 side-channel reset for the first frame with side coding. -/
def sideReset (d : Dec) (a : Args) (dom : Int) : Dec × List Ev :=
  if a.nChannelsInternal = 2 ∧ dom = 0 ∧ d.prev_decode_only_middle = 1 then
    ({ d with ch1 := { d.ch1 with lagPrev := 100, LastGainIndex := 10, prevSignalType := 0, first_frame_after_reset := 1 } }, [])
  else (d, [])

/-- :318-:323 -/
def hasSide (d : Dec) (a : Args) (dom : Int) : Bool × List Acc :=
  if a.lostFlag = 0 then (dom = 0, [])
  else if d.prev_decode_only_middle = 0 then (true, [])
  else if a.nChannelsInternal = 2 ∧ a.lostFlag = 2 then
    (get3 d.ch1.lbrr d.ch1.nFramesDecoded = 1, [{ buf := "LBRR_flags", lo := d.ch1.nFramesDecoded, n := 1, cap := 3 }])
  else (false, [])

/-! ## frame loop (:326-:361) -/

/-- :331-:343 condCoding for channel n. -/
def condCoding (d : Dec) (a : Args) (n : Int) : Int × List Acc :=
  let c := if n = 0 then d.ch0 else d.ch1
  let fi := d.ch0.nFramesDecoded - n
  if fi ≤ 0 then (0, [])
  else if a.lostFlag = 2 then ((if get3 c.lbrr (fi - 1) ≠ 0 then 2 else 0), [{ buf := "LBRR_flags", lo := fi - 1, n := 1, cap := 3 }])
  else if n > 0 ∧ d.prev_decode_only_middle ≠ 0 then (1, [])
  else (2, [])

/-- Apply what silk_decode_frame rewrote (oracle) and :360. -/
def applyFrame (c : Chan) (f : FrameOrc) : Chan :=
  { c with lagPrev := f.lagPrev, LastGainIndex := f.LastGainIndex, prevSignalType := f.prevSignalType,
           first_frame_after_reset := f.first_frame_after_reset }

structure Frames where
  d : Dec
  ret : Int
  N : Int                 -- nSamplesOutDec after the loop
  x1 : List Int           -- samplesOut1_tmp[0][0 .. frame_length+2)
  x2 : List Int           -- samplesOut1_tmp[1][0 .. frame_length+2) (only when nChannelsInternal = 2)
  ev : List Ev
  ac : List Acc
  deriving Repr, Inhabited

/-- :313-:316 + :326-:361.  `cap` = nChannelsInternal*(frame_length+2) elements of samplesOut1_tmp_storage1;
    channel n starts at n*(frame_length+2).  silk_decode_frame writes `frame_length` samples from element 2 and sets
    nSamplesOutDec = frame_length (decode_frame.c:165; oracle contract). -/
def frames (d : Dec) (a : Args) (o : Orc) (hs : Bool) : Frames :=
  let fl := d.ch0.frame_length
  let cap := a.nChannelsInternal * (fl + 2)
  let cc0 := condCoding d a 0
  let d1 := { d with ch0 := { applyFrame d.ch0 o.frame0 with nFramesDecoded := d.ch0.nFramesDecoded + 1 } }
  let N0 := d.ch0.frame_length
  let x1 := [0, 0] ++ o.frame0.samples
  let pre (c : Chan) : List Int := [c.lagPrev, c.LastGainIndex, c.prevSignalType, c.first_frame_after_reset]
  let ev0 : List Ev := [("alloc1", [cap]), ("frame", [0, 2, a.lostFlag, cc0.1] ++ pre d.ch0)]
  let ac0 : List Acc := cc0.2 ++ [{ buf := "tmp", lo := 2, n := N0, cap := cap }]
  if a.nChannelsInternal = 2 then
    let base := fl + 2
    if hs then
      let cc1 := condCoding d1 a 1
      let d2 := { d1 with ch1 := { applyFrame d1.ch1 o.frame1 with nFramesDecoded := d1.ch1.nFramesDecoded + 1 } }
      { d := d2, ret := o.frame0.ret + o.frame1.ret, N := d1.ch1.frame_length, x1 := x1, x2 := [0, 0] ++ o.frame1.samples,
        ev := ev0 ++ [("frame", [1, base + 2, a.lostFlag, cc1.1] ++ pre d1.ch1)],
        ac := ac0 ++ cc1.2 ++ [{ buf := "tmp", lo := base + 2, n := d1.ch1.frame_length, cap := cap }] }
    else
      let d2 := { d1 with ch1 := { d1.ch1 with nFramesDecoded := d1.ch1.nFramesDecoded + 1 } }
      { d := d2, ret := o.frame0.ret, N := N0, x1 := x1, x2 := [0, 0] ++ List.replicate N0.toNat 0,
        ev := ev0,
        ac := ac0 ++ [{ buf := "tmp", lo := base + 2, n := N0, cap := cap }] }                        -- :358
  else
    { d := d1, ret := o.frame0.ret, N := N0, x1 := x1, x2 := [], ev := ev0, ac := ac0 }

/-! ## silk_stereo_MS_to_LR (stereo_MS_to_LR.c:35-85) -/

/-- :62-:65 / :70-:73 one output sample: a = x1[n], b = x1[n+1], c = x1[n+2], s = x2[n+1]. -/
def msSample (a b c s p0 p1 : Int) : Int :=
  let sum := wrap32 ((a + c + wrap32 (b * 2)) * 512)
  let sum := smlawb (wrap32 (s * 256)) sum p0
  let sum := smlawb sum (wrap32 (b * 2048)) p1
  sat16 (rshiftRound sum 8)

def msAt (x1 x2 : List Int) (n : Nat) (p0 p1 : Int) : Int :=
  msSample (x1.getD n 0) (x1.getD (n + 1) 0) (x1.getD (n + 2) 0) (x2.getD (n + 1) 0) p0 p1

/-- :59-:66  interpolation loop: `cnt` iterations starting at n. -/
def msLoop1 (x1 : List Int) (d0 d1 : Int) : Nat → Nat → Int → Int → List Int → List Int
  | 0, _, _, _, x2 => x2
  | cnt + 1, n, p0, p1, x2 =>
    let p0 := wrap32 (p0 + d0)
    let p1 := wrap32 (p1 + d1)
    msLoop1 x1 d0 d1 cnt (n + 1) p0 p1 (x2.set (n + 1) (msAt x1 x2 n p0 p1))

/-- :69-:74 -/
def msLoop2 (x1 : List Int) (p0 p1 : Int) : Nat → Nat → List Int → List Int
  | 0, _, x2 => x2
  | cnt + 1, n, x2 => msLoop2 x1 p0 p1 cnt (n + 1) (x2.set (n + 1) (msAt x1 x2 n p0 p1))

structure MsOut where
  st : Stereo
  x1 : List Int
  x2 : List Int
  deriving Repr, Inhabited

/-- silk_stereo_MS_to_LR.  x1 / x2 have frame_length+2 elements. -/
def msToLR (st : Stereo) (x1 x2 : List Int) (p0 p1 fs_kHz N : Int) : MsOut :=
  -- :48-:51 buffering
  let x1 := (x1.set 0 st.sMid0).set 1 st.sMid1
  let x2 := (x2.set 0 st.sSide0).set 1 st.sSide1
  let st1 := { st with sMid0 := x1.getD N.toNat 0, sMid1 := x1.getD (N.toNat + 1) 0,
                       sSide0 := x2.getD N.toNat 0, sSide1 := x2.getD (N.toNat + 1) 0 }
  -- :54-:58
  let denom := (65536 : Int) / (8 * fs_kHz)                                 -- silk_DIV32_16 (T-division = floor here: both positive)
  let d0 := rshiftRound (smulbb (p0 - st.pred_prev0) denom) 16
  let d1 := rshiftRound (smulbb (p1 - st.pred_prev1) denom) 16
  let L := (8 * fs_kHz).toNat
  let x2 := msLoop1 x1 d0 d1 L 0 st.pred_prev0 st.pred_prev1 x2            -- :59-:66
  let x2 := msLoop2 x1 p0 p1 (N.toNat - L) L x2                             -- :69-:74
  -- :79-:84 (no dependency between iterations: element k = n+1 for n in [0, N))
  let y1 := x1.mapIdx fun k v => if 1 ≤ k ∧ k ≤ N.toNat then sat16 (v + x2.getD k 0) else v
  let y2 := x2.mapIdx fun k v => if 1 ≤ k ∧ k ≤ N.toNat then sat16 (x1.getD k 0 - v) else v
  { st := { st1 with pred_prev0 := p0, pred_prev1 := p1 }, x1 := y1, x2 := y2 }      -- :75-:76

/-- Elements of x1 / x2 touched by silk_stereo_MS_to_LR: [0, max(N, 8 fs_kHz) + 2). -/
def msAccs (fl fs_kHz N : Int) (cap : Int) : List Acc :=
  let top := (if N ≥ 8 * fs_kHz then N else 8 * fs_kHz) + 2
  [{ buf := "tmp", lo := 0, n := top, cap := cap }, { buf := "tmp", lo := fl + 2, n := top, cap := cap }]

/-! ## output (:363-:411) -/

/-- strided copy samplesOut[base + stride*i] = src[i], i < cnt -/
def strideWrite (out : List Int) (base stride : Nat) (src : List Int) : Nat → Nat → List Int
  | 0, _ => out
  | cnt + 1, i => strideWrite (out.set (base + stride * i) (src.getD i 0)) base stride src cnt (i + 1)

/-- :408 samplesOut[1 + 2i] = samplesOut[2i] -/
def dupWrite (out : List Int) : Nat → Nat → List Int
  | 0, _ => out
  | cnt + 1, i => dupWrite (out.set (1 + 2 * i) (out.getD (2 * i) 0)) cnt (i + 1)

def hashStep (h v : Int) : Int := (h * 31 + (v + 65536)) % 4294967296
def hashList (l : List Int) : Int := l.foldl hashStep 7

/-- The value every samplesOut slot holds before the call in the tie (a value INT16TORES never produces). -/
def SENTINEL : Int := 99999

structure Run where
  d : Dec
  ret : Int
  err : Option Int := none
  ok : Bool := true
  nSamplesOut : Int := 0
  prevPitchLag : Int := 0
  out : List Int := []       -- samplesOut[0 .. nSamplesOut*nChannelsAPI)
  x1 : List Int := []        -- samplesOut1_tmp[0] after MS->LR / buffering
  x2 : List Int := []
  ev : List Ev := []
  ac : List Acc := []
  deriving Repr, Inhabited

def rsRet (o : Orc) (i : Nat) : Int := (o.rs.getD i (0, [])).1
def rsOutp (o : Orc) (i : Nat) : List Int := (o.rs.getD i (0, [])).2

/-- :414-:419 -/
def pitchLagOut (c : Chan) : Int × List Acc :=
  if c.prevSignalType = 2 then
    let ix := (c.fs_kHz - 8) / 4
    (c.lagPrev * (([6, 4, 3] : List Int).getD ix.toNat 0), [{ buf := "mult_tab", lo := ix, n := 1, cap := 3 }])
  else (0, [])

/-- silk_Decode (dec_API.c:132-431). -/
def silkDecode (d : Dec) (a : Args) (o : Orc) : Run :=
  let p := prep d a
  if ¬ p.ok ∧ p.err.isNone then { d := p.d, ret := 0, ok := false } else
  match p.err with
  | some e => { d := p.d, ret := e, err := some e, ok := p.ok }
  | none =>
  let rf := readFlags p.d a o
  let d := rf.1
  let sp := stereoPred d a o
  let sr := sideReset d a sp.dom
  let d := sr.1
  let hs := hasSide d a sp.dom
  let fr := frames d a o hs.1
  let d := fr.d
  let fl := d.ch0.frame_length
  let cap := a.nChannelsInternal * (fl + 2)
  let N := fr.N
  -- :363-:370
  let ms : MsOut :=
    if a.nChannelsAPI = 2 ∧ a.nChannelsInternal = 2 then msToLR d.st fr.x1 fr.x2 sp.p0 sp.p1 d.ch0.fs_kHz N
    else { st := { d.st with sMid0 := ((fr.x1.set 0 d.st.sMid0).set 1 d.st.sMid1).getD N.toNat 0,
                             sMid1 := ((fr.x1.set 0 d.st.sMid0).set 1 d.st.sMid1).getD (N.toNat + 1) 0 },
           x1 := (fr.x1.set 0 d.st.sMid0).set 1 d.st.sMid1, x2 := fr.x2 }
  let msAc : List Acc :=
    if a.nChannelsAPI = 2 ∧ a.nChannelsInternal = 2 then msAccs fl d.ch0.fs_kHz N cap
    else [{ buf := "tmp", lo := 0, n := 2, cap := cap }, { buf := "tmp", lo := N, n := 2, cap := cap }]
  let msEv : List Ev := if a.nChannelsAPI = 2 ∧ a.nChannelsInternal = 2 then [("mstolr", [0, fl + 2, d.ch0.fs_kHz, N])] else []
  let d := { d with st := ms.st }
  -- :373
  let den := smulbb d.ch0.fs_kHz 1000
  if den = 0 then { d := d, ret := 0, ok := false } else      -- integer division by zero
  let nOut := wrap32 (N * a.API_sampleRate) / den
  let nO := nOut.toNat
  let total := nOut * a.nChannelsAPI
  let out0 := List.replicate total.toNat SENTINEL
  -- :379-:394
  let nLoop := if a.nChannelsAPI < a.nChannelsInternal then a.nChannelsAPI else a.nChannelsInternal
  let rsAcc (n : Int) (c : Chan) (i : Nat) : List Acc :=
    [{ buf := "tmp", lo := n * (fl + 2) + 1, n := N, cap := cap },
     { buf := "samplesOut2_tmp", lo := 0, n := (rsOutp o i).length, cap := nOut },
     { buf := "resampler-1ms", lo := 0, n := c.rsIn, cap := N }]            -- resampler.c:184 celt_assert( inLen >= Fs_in_kHz )
  let w0 : List Int := if a.nChannelsAPI = 2 then strideWrite out0 0 2 (rsOutp o 0) nO 0 else strideWrite out0 0 1 (rsOutp o 0) nO 0
  let ev0 : List Ev := [("alloc2", [nOut]), ("resample", [0, 1, N, hashList ((ms.x1.drop 1).take N.toNat)])]
  let ac0 : List Acc := rsAcc 0 d.ch0 0 ++ [{ buf := "samplesOut", lo := 0, n := nOut, stride := if a.nChannelsAPI = 2 then 2 else 1, cap := total }]
  let two := nLoop = 2
  let w1 : List Int := if two then strideWrite w0 1 2 (rsOutp o 1) nO 0 else w0
  let ev1 : List Ev := if two then [("resample", [1, fl + 2 + 1, N, hashList ((ms.x2.drop 1).take N.toNat)])] else []
  let ac1 : List Acc := if two then rsAcc 1 d.ch1 1 ++ [{ buf := "samplesOut", lo := 1, n := nOut, stride := 2, cap := total }] else []
  let ret1 := rsRet o 0 + (if two then rsRet o 1 else 0)
  -- :397-:411
  let m2s := a.nChannelsAPI = 2 ∧ a.nChannelsInternal = 1
  let w2 : List Int := if m2s then (if p.sToM then strideWrite w1 1 2 (rsOutp o 1) nO 0 else dupWrite w1 nO 0) else w1
  let ev2 : List Ev := if m2s ∧ p.sToM then [("resample", [1, 1, N, hashList ((ms.x1.drop 1).take N.toNat)])] else []
  let ac2 : List Acc :=
    if m2s then
      (if p.sToM then rsAcc 0 d.ch1 1 else [{ buf := "samplesOut", lo := 0, n := nOut, stride := 2, cap := total }]) ++
      [{ buf := "samplesOut", lo := 1, n := nOut, stride := 2, cap := total }]
    else []
  let ret2 := if m2s ∧ p.sToM then rsRet o 1 else 0
  -- :414-:419
  let pl := pitchLagOut d.ch0
  -- :421-:428
  let d := if a.lostFlag = 1 then
             { d with ch0 := { d.ch0 with LastGainIndex := 10 },
                      ch1 := if d.nChannelsInternal = 2 then { d.ch1 with LastGainIndex := 10 } else d.ch1 }
           else { d with prev_decode_only_middle := sp.dom }
  { d := d, ret := p.ret + fr.ret + ret1 + ret2, ok := p.ok, nSamplesOut := nOut, prevPitchLag := pl.1, out := w2,
    x1 := ms.x1, x2 := ms.x2,
    ev := p.ev ++ rf.2.1 ++ sp.ev ++ sr.2 ++ fr.ev ++ msEv ++ ev0 ++ ev1 ++ ev2,
    ac := rf.2.2 ++ sp.ac ++ hs.2 ++ [{ buf := "alloc", lo := 0, n := cap, cap := cap }] ++ fr.ac ++ msAc ++ ac0 ++ ac1 ++ ac2 ++ pl.2 }

end Opus.SilkApi
