import OpusModel.DecSkel
/-
  OpusModel.GainSkel — the decoder-gain discipline of `opus_decode_frame` on top of the decoder skeleton
  `OpusModel/DecSkel.lean` (read-only, owned by C01).

  src/opus_decoder.c (after fix 7e7e38ec), at both recursive concealment calls for a mode transition
  (:373-381 and :515-523):
        int decode_gain = st->decode_gain;
        st->decode_gain = 0;
        opus_decode_frame(st, NULL, 0, pcm_transition, IMIN(F5, audiosize), 0);
        st->decode_gain = decode_gain;
  `DecSkel.frameBody` takes that recursive call as its parameter `trans`; `withGain0 inner` is the call as
  the code now makes it.  The gain itself is `DecSkel.stepGain` (:654-668): the last step before the state
  update, one pass over `audiosize*channels` samples of the frame's own buffer, only if `decode_gain ≠ 0`.
-/
namespace Opus.GainSkel
open Opus Opus.DecSkel

/-- The recursive transition call, run with the gain cleared and the caller's gain restored afterwards. -/
def withGain0 (inner : Ptr → Int → Run → Res') : Ptr → Int → Run → Res' := fun p n r =>
  let g := r.st.decode_gain
  let res := inner p n (r.setSt { r.st with decode_gain := 0 })
  (res.1, res.2.setSt { res.2.st with decode_gain := g })

/-- `opus_decode_frame` from :354 on, as the code is now. -/
def frameBodyG (o : Oracle) (inner : Ptr → Int → Run → Res') (b : Body) (r : Run) : Res' :=
  frameBody o (withGain0 inner) b r

/-- Is this event the gain pass (site 11 of the skeleton)? -/
def isGainEv : Ev → Bool
  | .acc 11 _ _ => true
  | _ => false

end Opus.GainSkel
