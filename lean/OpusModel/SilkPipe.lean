import OpusModel.Framing
import OpusModel.SilkSyms
import OpusModel.SilkCoreFrame
import OpusModel.SilkResamp
/-
  OpusModel.SilkPipe — ONE function from packet bytes to PCM for SILK-only MONO Opus streams without loss
  (property C03, slice SilkPipe), composed from models that are tied to the library separately:

      Framing.parseImpl                (C06, src/opus.c:194-353: TOC, frame count, frame sizes)
    ∘ SilkSyms.decodePacket            (C03 stage 1: range decoder, VAD / LBRR flags, LBRR data skipped, indices, pulses,
                                        redundancy header; src/opus_decoder.c:744-811, silk/dec_API.c:132-361)
    ∘ SilkCore.frameGood               (slice SilkCore: silk_decode_parameters → silk_decode_core → outBuf update)
    ∘ monoBuffer                       (silk/dec_API.c:385-387: `samplesOut1_tmp[0][0..1] ← sMid; sMid ← last two`, the resampler
                                        reads from offset 1: one sample of delay)
    ∘ SilkResamp.resampler             (slice SilkResamp: silk_resampler to the API rate)

  In the float build `opus_decode_frame` outputs a SILK-only frame without redundancy / mode transition as `pcm_silk[i] / 32768`
  (opus_decoder.c: `pcm[i] = pcm[i] + (1/32768) * pcm_silk[i]` on a zeroed `pcm`), the soft clipper leaves `[-1, 1]` alone and the
  `opus_int16` API converts back with `FLOAT2INT16`, which is exact on multiples of 2^-15: the PCM of `opus_decode` IS the
  resampler output.  `silk_PLC( lost = 0 )`, `silk_CNG` and `silk_PLC_glue_frames` do not touch the frame when `lossCnt == 0` and the
  previous frame was not lost.  Outside the class (stereo, hybrid / CELT, redundancy flag set, internal-rate switch, loss, FEC
  decoding) the function answers `.err .unimplemented`.
-/
namespace Opus.SilkPipe
open Opus Opus.SilkCore

/-- Decoder state of the pipeline: synthesis state, symbol-layer state, `sStereo.sMid`, resampler state. -/
structure PipeSt where
  dec : DecState
  syms : SilkSyms.SilkSt
  sMid : List Int
  rs : SilkResamp.RS
  deriving Repr

/-- `psDec->indices` / `pulses[]` as the input record of the synthesis. -/
def frameIn (condCoding : Nat) (ix : SilkSyms.Indices) (pulses : List Int) : FrameIn :=
  { condCoding := (condCoding : Int), gainsIdx := ix.gains.map (fun (g : Nat) => (g : Int)),
    nlsfIdx := (ix.nlsf0 : Int) :: ix.nlsfRes, interp := (ix.interp : Int), signalType := (ix.signalType : Int),
    quantOffsetType := (ix.quantOffsetType : Int), lagIndex := ix.lagIndex, contourIndex := (ix.contourIndex : Int),
    perIndex := (ix.perIndex : Int), ltpIdx := ix.ltp.map (fun (l : Nat) => (l : Int)), ltpScaleIndex := (ix.ltpScale : Int),
    seed := (ix.seed : Int), pulses := pulses }

/-- The normally decoded frames of a payload, in order: `(condCoding, indices, pulses)` of every
    `silk_decode_indices( …, decodeLBRR = 0, … )` + `silk_decode_pulses` pair (LBRR data, `decodeLBRR = 1`, is read and dropped). -/
def framesOfEvs : List SilkSyms.Ev → List (Nat × SilkSyms.Indices × List Int)
  | [] => []
  | .indices _ _ 0 cc _ _ _ _ ix :: .pulses _ _ _ p :: rest => (cc, ix, p.pulses) :: framesOfEvs rest
  | _ :: rest => framesOfEvs rest

/-- State after `silk_InitDecoder` and the first `silk_decoder_set_fs( fs_kHz )` (init_decoder.c, decoder_set_fs.c:84-99). -/
def initDec (fs nb : Nat) : DecState :=
  { fsKHz := fs, nbSubfr := nb, sLPC := List.replicate Frozen.SilkCoreTabs.szSLpcQ14Buf 0,
    outBuf := List.replicate Frozen.SilkCoreTabs.szOutBuf 0, excQ14 := List.replicate Frozen.SilkCoreTabs.szExcQ14 0,
    prevGainQ16 := Frozen.SilkCoreTabs.resetPrevGainQ16, lagPrev := Frozen.SilkCoreTabs.setFsLagPrev,
    lastGainIndex := Frozen.SilkCoreTabs.setFsLastGainIndex, prevNlsf := List.replicate Frozen.SilkCoreTabs.szPrevNlsf 0,
    firstFrameAfterReset := Frozen.SilkCoreTabs.setFsFirstFrameAfterReset,
    prevSignalType := Frozen.SilkCoreTabs.setFsPrevSignalType, lossCnt := 0 }

/-- A fresh decoder at internal rate `fs` kHz and API rate `apiHz`. -/
def initPipe (fs : Nat) (apiHz : Nat) : Res PipeSt := do
  let rs ← SilkResamp.init ((fs : Int) * 1000) (apiHz : Int) false
  pure { dec := initDec fs 4, syms := {}, sMid := [0, 0], rs := rs }

/-- dec_API.c:385-387 + :398: the buffer `sMid ++ xq`, the new `sMid` (its last two samples) and the resampler input (from offset 1). -/
def monoBuffer (sMid xq : List Int) : List Int × List Int :=
  (((sMid ++ xq).drop xq.length).take 2, ((sMid ++ xq).drop 1).take xq.length)

/-- One `silk_Decode` call of a mono stream after the symbols are known: synthesis, buffering, resampling. -/
def silkFrameStep (nb : Nat) (S : PipeSt) (fr : Nat × SilkSyms.Indices × List Int) : Res (PipeSt × List Int) := do
  let o ← frameGood { S.dec with nbSubfr := nb } (frameIn fr.1 fr.2.1 fr.2.2)
  let b := monoBuffer S.sMid o.core.xq
  let r ← SilkResamp.resampler S.rs b.2
  pure ({ S with dec := o.st, sMid := b.1, rs := r.1 }, r.2)

/-- The `silk_Decode` calls of one Opus frame. -/
def silkFrames (nb : Nat) : PipeSt → List (Nat × SilkSyms.Indices × List Int) → Res (PipeSt × List Int)
  | S, [] => .ok (S, [])
  | S, fr :: rest => do
    let a ← silkFrameStep nb S fr
    let b ← silkFrames nb a.1 rest
    pure (b.1, a.2 ++ b.2)

/-- One Opus frame of the packet: inside the class iff it is a SILK frame at the state's internal rate without redundancy. -/
def opusFrame (S : PipeSt) : SilkSyms.FrameRes → Res (PipeSt × List Int)
  | .silk _ o =>
    if o.redundancy ≠ 0 ∨ o.nCh ≠ 1 ∨ o.lostFlag ≠ 0 ∨ o.internalRate ≠ S.dec.fsKHz * 1000 then .err .unimplemented
    else
      match SilkSyms.packetShape o.payloadMs with
      | .ok (_, nb) =>
        match silkFrames nb S (framesOfEvs o.evs) with
        | .ok (S', pcm) => .ok ({ S' with syms := o.st }, pcm)
        | e => e
      | _ => .abort
  | _ => .err .unimplemented

def opusFrames : PipeSt → List SilkSyms.FrameRes → Res (PipeSt × List Int)
  | S, [] => .ok (S, [])
  | S, fr :: rest => do
    let a ← opusFrame S fr
    let b ← opusFrames a.1 rest
    pure (b.1, a.2 ++ b.2)

/-- Is the TOC byte that of a SILK-only mono packet? -/
def silkOnlyMono (pkt : Bytes) : Bool :=
  match pkt with
  | toc :: _ => Framing.getMode toc = 1000 && Framing.getNbChannels toc = 1
  | [] => false

/-- `opus_decode( st, pkt, len, pcm, frame_size ≥ packet duration, decode_fec = 0 )` for a SILK-only mono packet on a mono decoder
    at `apiHz`: new state and the PCM (int16 samples). -/
def silkOnlyDecode (apiHz : Nat) (S : PipeSt) (pkt : Bytes) : Res (PipeSt × List Int) :=
  if !silkOnlyMono pkt then .err .unimplemented
  else
    match SilkSyms.decodePacket apiHz false false S.syms pkt with
    | .ok (some frs) => opusFrames S frs
    | .ok none => .err .unimplemented
    | .err e => .err e
    | .oob => .oob
    | .abort => .abort

/-- A packet history: the PCM of every packet and the final state; stops at the first packet that is not `.ok`. -/
def runPackets (apiHz : Nat) : PipeSt → List Bytes → Res (PipeSt × List (List Int))
  | S, [] => .ok (S, [])
  | S, p :: ps => do
    let a ← silkOnlyDecode apiHz S p
    let b ← runPackets apiHz a.1 ps
    pure (b.1, a.2 :: b.2)

end Opus.SilkPipe
