import OpusModel.Basic
import OpusModel.Gen.StructFields
/-
  OpusModel.ResetState — init / OPUS_RESET_STATE / settings / encode-footprint model of the
  top-level encoder and decoder objects (property C12).

  C sources
    src/opus_encoder.c:74-139     struct OpusEncoder               → `Enc`
    silk/control.h:46-125         silk_EncControlStruct            → `SilkCtl`
    celt/celt_encoder.c:63-83     CELTEncoder members before `rng` → `CeltCfg`
    src/opus_encoder.c:202-297    opus_encoder_init                → `encInit`
    silk/enc_API.c:74-139         silk_InitEncoder, silk_QueryEncoder (what init stores in silk_mode)
    celt/celt_encoder.c:171-222   opus_custom_encoder_init_arch, celt_encoder_init
    src/opus_encoder.c:3077-3104  OPUS_RESET_STATE                 → `encReset`
    src/opus_encoder.c:2651-3126  OPUS_SET_* requests (line numbers in `setAccept`/`setApply` are those of the pinned tree before the DTX fixes: add 14)              → `encSet`
    src/opus_encoder.c:1120-2500  opus_encode_native / opus_encode_frame_native, as a FOOTPRINT:
                                  which members each phase reads and writes  → `encodeStep`
    src/opus_decoder.c:66-93, 130-174, 1029-1043   OpusDecoder, init, reset  → `Dec`, `decInit`, `decReset`

  `encReset` / `decReset` transcribe the reset code as it stands since fix 14e3a558 (DESIGN §9-F2): the
  five statements after `variable_HP_smth2_Q15 = …` (opus_encoder.c:3103-3108) and
  `DecControl.prevPitchLag = 0` (opus_decoder.c:1047-1048).  The correspondence suite `misc encreset` /
  `misc decreset` compares every member after a reset; a member that survives is turned into a witness
  by the twin search.

  Sub-states owned by the DSP (SILK / CELT encoder state, tonality analysis, filter memories and the
  delay buffer) are `Blob`s: either `fresh` (bitwise the freshly initialised content) or an opaque
  `used` value.  Everything the DSP computes is an uninterpreted `Oracles` field whose argument is the
  `View` of the state (exactly the members that phase of the C code reads); theorems hold for all
  oracles.  Integers are unbounded `Int`; floats are carried as IEEE bit patterns.
-/
namespace Opus.ResetState
open Opus

abbrev OPUS_AUTO : Int := -1000
abbrev BW_FB : Int := 1105
abbrev BW_WB : Int := 1103
abbrev MODE_SILK_ONLY : Int := 1000
abbrev MODE_HYBRID : Int := 1001
abbrev MODE_CELT_ONLY : Int := 1002
abbrev FRAMESIZE_ARG : Int := 5000
/-- Q15ONE in the float build (1.0f) -/
abbrev Q15ONE_BITS : Int := 1065353216
/-- silk_LSHIFT( silk_lin2log( VARIABLE_HP_MIN_CUTOFF_HZ ), 8 ) (VARIABLE_HP_MIN_CUTOFF_HZ = 60) -/
abbrev HP_SMTH2_INIT : Int := 193536

def isSilkMode (m : Int) : Bool := m = MODE_SILK_ONLY || m = MODE_HYBRID

/-- A DSP-owned memory region: bitwise the freshly initialised content, or anything else. -/
inductive Blob
  | fresh
  | used (id : Nat)
  deriving DecidableEq, Repr

/-- silk_EncControlStruct (silk/control.h:46-125), every member. -/
structure SilkCtl where
  nChannelsAPI : Int
  nChannelsInternal : Int
  apiSampleRate : Int
  maxInternalSampleRate : Int
  minInternalSampleRate : Int
  desiredInternalSampleRate : Int
  payloadSizeMs : Int
  bitRate : Int
  packetLossPercentage : Int
  complexity : Int
  useInBandFEC : Int
  useDRED : Int
  lbrrCoded : Int
  useDTX : Int
  useCBR : Int
  maxBits : Int
  toMono : Int
  opusCanSwitch : Int
  reducedDependency : Int
  internalSampleRate : Int
  allowBandwidthSwitch : Int
  inWBmodeWithoutVariableLP : Int
  stereoWidthQ14 : Int
  switchReady : Int
  signalType : Int
  offset : Int
  deriving DecidableEq, Repr

/-- CELTEncoder members before its reset marker (the `mode` pointer is a static constant). -/
structure CeltCfg where
  channels : Int
  streamChannels : Int
  forceIntra : Int
  clip : Int
  disablePf : Int
  complexity : Int
  upsample : Int
  start : Int
  end_ : Int
  bitrate : Int
  vbr : Int
  signalling : Int
  constrainedVbr : Int
  lossRate : Int
  lsbDepth : Int
  lfe : Int
  disableInv : Int
  arch : Int
  deriving DecidableEq, Repr

/-- struct OpusEncoder, members in declaration order, followed by the CELT configuration and the
    two sub-state blobs that live behind it inside the same `opus_encoder_get_size` bytes. -/
structure Enc where
  celtEncOffset : Int
  silkEncOffset : Int
  silkMode : SilkCtl
  application : Int
  channels : Int
  delayCompensation : Int
  forceChannels : Int
  signalType : Int
  userBandwidth : Int
  maxBandwidth : Int
  userForcedMode : Int
  voiceRatio : Int
  fs : Int
  useVbr : Int
  vbrConstraint : Int
  variableDuration : Int
  bitrateBps : Int
  userBitrateBps : Int
  lsbDepth : Int
  encoderBuffer : Int
  lfe : Int
  arch : Int
  useDtx : Int
  fecConfig : Int
  analysisApp : Int              -- analysis.application (before TONALITY_ANALYSIS_RESET_START)
  analysis : Blob                -- analysis from `angle` on
  -- OPUS_ENCODER_RESET_START
  streamChannels : Int
  hybridStereoWidthQ14 : Int
  variableHPsmth2Q15 : Int
  prevHBgain : Int               -- float bit pattern
  hpMem : Blob
  mode : Int
  prevMode : Int
  prevChannels : Int
  prevFramesize : Int
  bandwidth : Int
  autoBandwidth : Int
  silkBwSwitch : Int
  first : Int
  energyMasking : Int            -- pointer: 0 = NULL
  widthMem : Blob
  delayBuffer : Blob
  detectedBandwidth : Int
  nbNoActivityMsQ1 : Int
  peakSignalEnergy : Int         -- float bit pattern
  nonfinalFrame : Int
  rangeFinal : Int
  -- sub-states
  celt : CeltCfg
  silkState : Blob
  celtState : Blob
  deriving DecidableEq, Repr

/-! ## init -/

/-- `resampling_factor` (celt/celt.c). -/
def resamplingFactor (fs : Int) : Int :=
  if fs = 48000 then 1 else if fs = 24000 then 2 else if fs = 16000 then 3 else if fs = 12000 then 4
  else if fs = 8000 then 6 else 0

/-- silk_mode after opus_encoder_init: OPUS_CLEAR, then silk_QueryEncoder on the fresh SILK state
    (enc_API.c:118-139 writes nChannels* = 1 and zeros), then opus_encoder.c:235-249. -/
def silkCtlInit (fs channels : Int) : SilkCtl :=
  { nChannelsAPI := channels, nChannelsInternal := channels, apiSampleRate := fs,
    maxInternalSampleRate := 16000, minInternalSampleRate := 8000, desiredInternalSampleRate := 16000,
    payloadSizeMs := 20, bitRate := 25000, packetLossPercentage := 0, complexity := 9, useInBandFEC := 0,
    useDRED := 0, lbrrCoded := 0, useDTX := 0, useCBR := 0, maxBits := 0, toMono := 0, opusCanSwitch := 0,
    reducedDependency := 0, internalSampleRate := 0, allowBandwidthSwitch := 0,
    inWBmodeWithoutVariableLP := 0, stereoWidthQ14 := 0, switchReady := 0, signalType := 0, offset := 0 }

/-- CELT configuration after celt_encoder_init + CELT_SET_SIGNALLING(0) + OPUS_SET_COMPLEXITY(9)
    (celt_encoder.c:180-200, 220; opus_encoder.c:256-257); nbEBands = effEBands = 21 at 48 kHz. -/
def celtCfgInit (fs channels arch : Int) : CeltCfg :=
  { channels, streamChannels := channels, forceIntra := 0, clip := 1, disablePf := 0, complexity := 9,
    upsample := resamplingFactor fs, start := 0, end_ := 21, bitrate := -1, vbr := 0, signalling := 0,
    constrainedVbr := 1, lossRate := 0, lsbDepth := 24, lfe := 0, disableInv := 0, arch }

/-- `opus_encoder_init` after the argument check (opus_encoder.c:214-296); `silkSize` / `celtOff`
    are the layout numbers of Gen.StructFields.encLayout. -/
def encInit (fs channels application arch silkOff celtOff : Int) : Enc :=
  { celtEncOffset := celtOff, silkEncOffset := silkOff, silkMode := silkCtlInit fs channels,
    application, channels, delayCompensation := fs / 250, forceChannels := OPUS_AUTO, signalType := OPUS_AUTO,
    userBandwidth := OPUS_AUTO, maxBandwidth := BW_FB, userForcedMode := OPUS_AUTO, voiceRatio := -1, fs,
    useVbr := 1, vbrConstraint := 1, variableDuration := FRAMESIZE_ARG, bitrateBps := 3000 + fs * channels,
    userBitrateBps := OPUS_AUTO, lsbDepth := 24, encoderBuffer := fs / 100, lfe := 0, arch, useDtx := 0,
    fecConfig := 0, analysisApp := application, analysis := .fresh,
    streamChannels := channels, hybridStereoWidthQ14 := 16384, variableHPsmth2Q15 := HP_SMTH2_INIT,
    prevHBgain := Q15ONE_BITS, hpMem := .fresh, mode := MODE_HYBRID, prevMode := 0, prevChannels := 0,
    prevFramesize := 0, bandwidth := BW_FB, autoBandwidth := 0, silkBwSwitch := 0, first := 1,
    energyMasking := 0, widthMem := .fresh, delayBuffer := .fresh, detectedBandwidth := 0,
    nbNoActivityMsQ1 := 0, peakSignalEnergy := 0, nonfinalFrame := 0, rangeFinal := 0,
    celt := celtCfgInit fs channels arch, silkState := .fresh, celtState := .fresh }

/-! ## OPUS_RESET_STATE -/

/-- OPUS_RESET_STATE of the encoder (opus_encoder.c:3077-3110): tonality_analysis_reset, OPUS_CLEAR
    from `stream_channels` to the end of the struct, CELT reset (from `rng`: its configuration
    survives), silk_InitEncoder into a dummy control struct (so `silk_mode` survives), the seven
    re-derived members, and (:3103-3108) the inter-frame members that live outside the cleared
    region (`voice_ratio`, `silk_mode.LBRR_coded`, `.allowBandwidthSwitch`,
    `.inWBmodeWithoutVariableLP`, CELT's prediction switches). -/
def encReset (s : Enc) : Enc :=
  { s with
    analysis := .fresh,
    -- OPUS_CLEAR(start, sizeof(OpusEncoder) - (start - (char*)st))
    hpMem := .fresh, prevMode := 0, prevChannels := 0, prevFramesize := 0, autoBandwidth := 0,
    silkBwSwitch := 0, energyMasking := 0, widthMem := .fresh, delayBuffer := .fresh,
    detectedBandwidth := 0, nbNoActivityMsQ1 := 0, peakSignalEnergy := 0, nonfinalFrame := 0,
    rangeFinal := 0,
    -- celt_encoder_ctl(OPUS_RESET_STATE); silk_InitEncoder(silk_enc, arch, &dummy)
    celtState := .fresh, silkState := .fresh,
    -- re-derived
    streamChannels := s.channels, hybridStereoWidthQ14 := 16384, prevHBgain := Q15ONE_BITS, first := 1,
    mode := MODE_HYBRID, bandwidth := BW_FB, variableHPsmth2Q15 := HP_SMTH2_INIT,
    -- :3103-3108 inter-frame state kept outside the cleared area (fix 14e3a558)
    voiceRatio := -1,
    silkMode := { s.silkMode with lbrrCoded := 0, allowBandwidthSwitch := 0, inWBmodeWithoutVariableLP := 0 },
    celt := { s.celt with disablePf := 0, forceIntra := 0 } }

/-- The reset as the tree had it BEFORE fix 14e3a558 (kept only for the documented counterexample
    in `OpusProps.C12`; not a model of current code). -/
def encResetUnrepaired (s : Enc) : Enc :=
  { (encReset s) with voiceRatio := s.voiceRatio, silkMode := s.silkMode, celt := s.celt }

/-! ## Settings -/

/-- The members that hold what the application configured (they are written by the OPUS_SET_*
    requests and by nothing in `encReset` or `encodeStep` (an earlier tree let a multi-frame packet
    overwrite `force_channels`; that store has been removed from opus_encoder.c). -/
structure Settings where
  application : Int
  forceChannels : Int
  signalType : Int
  userBandwidth : Int
  maxBandwidth : Int
  userForcedMode : Int
  useVbr : Int
  vbrConstraint : Int
  variableDuration : Int
  userBitrateBps : Int
  lsbDepth : Int
  lfe : Int
  useDtx : Int
  fecConfig : Int
  analysisApp : Int
  packetLossPercentage : Int
  complexity : Int
  useInBandFEC : Int
  useDRED : Int
  reducedDependency : Int
  celtComplexity : Int
  celtLossRate : Int
  celtLfe : Int
  celtDisableInv : Int
  deriving DecidableEq, Repr

def settingsOf (s : Enc) : Settings :=
  { application := s.application, forceChannels := s.forceChannels, signalType := s.signalType,
    userBandwidth := s.userBandwidth, maxBandwidth := s.maxBandwidth, userForcedMode := s.userForcedMode,
    useVbr := s.useVbr, vbrConstraint := s.vbrConstraint, variableDuration := s.variableDuration,
    userBitrateBps := s.userBitrateBps, lsbDepth := s.lsbDepth, lfe := s.lfe, useDtx := s.useDtx,
    fecConfig := s.fecConfig, analysisApp := s.analysisApp,
    packetLossPercentage := s.silkMode.packetLossPercentage, complexity := s.silkMode.complexity,
    useInBandFEC := s.silkMode.useInBandFEC, useDRED := s.silkMode.useDRED,
    reducedDependency := s.silkMode.reducedDependency, celtComplexity := s.celt.complexity,
    celtLossRate := s.celt.lossRate, celtLfe := s.celt.lfe, celtDisableInv := s.celt.disableInv }

def withSettings (s : Enc) (c : Settings) : Enc :=
  { s with
    application := c.application, forceChannels := c.forceChannels, signalType := c.signalType,
    userBandwidth := c.userBandwidth, maxBandwidth := c.maxBandwidth, userForcedMode := c.userForcedMode,
    useVbr := c.useVbr, vbrConstraint := c.vbrConstraint, variableDuration := c.variableDuration,
    userBitrateBps := c.userBitrateBps, lsbDepth := c.lsbDepth, lfe := c.lfe, useDtx := c.useDtx,
    fecConfig := c.fecConfig, analysisApp := c.analysisApp,
    silkMode := { s.silkMode with
                  packetLossPercentage := c.packetLossPercentage, complexity := c.complexity,
                                  useInBandFEC := c.useInBandFEC, useDRED := c.useDRED,
                                  reducedDependency := c.reducedDependency },
    celt := { s.celt with
              complexity := c.celtComplexity, lossRate := c.celtLossRate, lfe := c.celtLfe,
                          disableInv := c.celtDisableInv } }

/-- A newly created encoder carrying the settings `c`. -/
def encFresh (fs channels arch silkOff celtOff : Int) (c : Settings) : Enc :=
  withSettings (encInit fs channels c.application arch silkOff celtOff) c

/-! ## What the code can observe: the view -/

/-- The members of the encoder object that some later call may read before writing them.
    Omitted (each is assigned on every path before its first use in a call — `bitrate_bps` at
    opus_encoder.c:1249; `silk_mode.nChannelsAPI, maxInternalSampleRate … useCBR, maxBits` at :1942-2071; `internalSampleRate,
    stereoWidth_Q14, switchReady, signalType, offset` are outputs of silk_Encode read after it; CELT's
    `stream_channels, start, end, bitrate, vbr, constrained_vbr, lsb_depth` at :1598, :2157-2160,
    :2294-2336): `bitrateBps`, those `silkMode` and `celt` members.
    Gated (read only under a condition on other members):
      `toMono`        read at :1494 only when `prev_channels == 2`;
      `useDTX`        read by OPUS_GET_IN_DTX (:3136) only when `prev_mode` is SILK or hybrid; inside a call it
                      is compared with the new choice (:1389-1399) only to clear `nb_no_activity_ms_Q1` and
                      SILK's noSpeechCounter, which does nothing while both are still zero (no frame
                      completed since the reset, SILK state fresh), and is then overwritten;
      `nChannelsInternal` assigned before silk_Encode (:2014); between calls OPUS_GET_IN_DTX (:3141) reads it, only when
                      `prev_mode` is SILK or hybrid, i.e. after a frame that assigned it;
      `opusCanSwitch` read by silk_control_audio_bandwidth only when the SILK state has a sampling
                      rate, i.e. is not freshly initialised (silk/control_audio_bandwidth.c:45-49). -/
structure View where
  celtEncOffset : Int
  silkEncOffset : Int
  application : Int
  channels : Int
  delayCompensation : Int
  forceChannels : Int
  signalType : Int
  userBandwidth : Int
  maxBandwidth : Int
  userForcedMode : Int
  voiceRatio : Int
  fs : Int
  useVbr : Int
  vbrConstraint : Int
  variableDuration : Int
  userBitrateBps : Int
  lsbDepth : Int
  encoderBuffer : Int
  lfe : Int
  arch : Int
  useDtx : Int
  fecConfig : Int
  analysisApp : Int
  analysis : Blob
  streamChannels : Int
  hybridStereoWidthQ14 : Int
  variableHPsmth2Q15 : Int
  prevHBgain : Int
  hpMem : Blob
  mode : Int
  prevMode : Int
  prevChannels : Int
  prevFramesize : Int
  bandwidth : Int
  autoBandwidth : Int
  silkBwSwitch : Int
  first : Int
  energyMasking : Int
  widthMem : Blob
  delayBuffer : Blob
  detectedBandwidth : Int
  nbNoActivityMsQ1 : Int
  peakSignalEnergy : Int
  nonfinalFrame : Int
  rangeFinal : Int
  -- silk_mode
  packetLossPercentage : Int
  complexity : Int
  useInBandFEC : Int
  useDRED : Int
  reducedDependency : Int
  lbrrCoded : Int
  allowBandwidthSwitch : Int
  inWBmodeWithoutVariableLP : Int
  toMonoGated : Int
  useDTXGated : Int
  nChannelsInternalGated : Int
  opusCanSwitchGated : Int
  -- CELT configuration
  celtChannels : Int
  celtForceIntra : Int
  celtClip : Int
  celtDisablePf : Int
  celtComplexity : Int
  celtUpsample : Int
  celtSignalling : Int
  celtLossRate : Int
  celtLfe : Int
  celtDisableInv : Int
  celtArch : Int
  silkState : Blob
  celtState : Blob
  deriving DecidableEq, Repr

def view (s : Enc) : View :=
  { celtEncOffset := s.celtEncOffset, silkEncOffset := s.silkEncOffset, application := s.application,
    channels := s.channels, delayCompensation := s.delayCompensation, forceChannels := s.forceChannels,
    signalType := s.signalType, userBandwidth := s.userBandwidth, maxBandwidth := s.maxBandwidth,
    userForcedMode := s.userForcedMode, voiceRatio := s.voiceRatio, fs := s.fs, useVbr := s.useVbr,
    vbrConstraint := s.vbrConstraint, variableDuration := s.variableDuration,
    userBitrateBps := s.userBitrateBps, lsbDepth := s.lsbDepth, encoderBuffer := s.encoderBuffer,
    lfe := s.lfe, arch := s.arch, useDtx := s.useDtx, fecConfig := s.fecConfig, analysisApp := s.analysisApp,
    analysis := s.analysis, streamChannels := s.streamChannels,
    hybridStereoWidthQ14 := s.hybridStereoWidthQ14, variableHPsmth2Q15 := s.variableHPsmth2Q15,
    prevHBgain := s.prevHBgain, hpMem := s.hpMem, mode := s.mode, prevMode := s.prevMode,
    prevChannels := s.prevChannels, prevFramesize := s.prevFramesize, bandwidth := s.bandwidth,
    autoBandwidth := s.autoBandwidth, silkBwSwitch := s.silkBwSwitch, first := s.first,
    energyMasking := s.energyMasking, widthMem := s.widthMem, delayBuffer := s.delayBuffer,
    detectedBandwidth := s.detectedBandwidth, nbNoActivityMsQ1 := s.nbNoActivityMsQ1,
    peakSignalEnergy := s.peakSignalEnergy, nonfinalFrame := s.nonfinalFrame, rangeFinal := s.rangeFinal,
    packetLossPercentage := s.silkMode.packetLossPercentage, complexity := s.silkMode.complexity,
    useInBandFEC := s.silkMode.useInBandFEC, useDRED := s.silkMode.useDRED,
    reducedDependency := s.silkMode.reducedDependency, lbrrCoded := s.silkMode.lbrrCoded,
    allowBandwidthSwitch := s.silkMode.allowBandwidthSwitch,
    inWBmodeWithoutVariableLP := s.silkMode.inWBmodeWithoutVariableLP,
    toMonoGated := if s.prevChannels = 2 then s.silkMode.toMono else 0,
    useDTXGated := if s.prevMode = MODE_SILK_ONLY ∨ s.prevMode = MODE_HYBRID ∨ s.nbNoActivityMsQ1 ≠ 0 ∨ s.silkState ≠ .fresh
                   then s.silkMode.useDTX else 0,
    nChannelsInternalGated := if s.prevMode = MODE_SILK_ONLY ∨ s.prevMode = MODE_HYBRID then s.silkMode.nChannelsInternal else 0,
    opusCanSwitchGated := if s.silkState = .fresh then 0 else s.silkMode.opusCanSwitch,
    celtChannels := s.celt.channels, celtForceIntra := s.celt.forceIntra, celtClip := s.celt.clip,
    celtDisablePf := s.celt.disablePf, celtComplexity := s.celt.complexity, celtUpsample := s.celt.upsample,
    celtSignalling := s.celt.signalling, celtLossRate := s.celt.lossRate, celtLfe := s.celt.lfe,
    celtDisableInv := s.celt.disableInv, celtArch := s.celt.arch,
    silkState := s.silkState, celtState := s.celtState }

/-- Two encoder objects no later call sequence can tell apart. -/
def ObsEq (a b : Enc) : Prop := view a = view b

instance (a b : Enc) : Decidable (ObsEq a b) := by unfold ObsEq; infer_instance

/-! ## The OPUS_SET_* requests (opus_encoder.c:2637-3113)

    `setAccept` is the argument check of each `case` (it reads `first`, `application`, `channels`),
    `setApply` what the case stores.  OPUS_SET_VOICE_RATIO (11018) is not a setting here: every
    frame overwrites `voice_ratio`. -/

inductive SetReq
  | application | bitrate | forceChannels | maxBandwidth | bandwidth | dtx | complexity | inbandFec
  | packetLoss | vbr | vbrConstraint | signal | lsbDepth | frameDuration | predictionDisabled
  | phaseInversionDisabled | forceMode | lfe
  deriving DecidableEq, Repr

/-- Request numbers (include/opus_defines.h:130-175, src/opus_private.h:170, celt/celt.h:132). -/
def SetReq.ofId (req : Int) : Option SetReq :=
  if req = 4000 then some .application else if req = 4002 then some .bitrate
  else if req = 4022 then some .forceChannels else if req = 4004 then some .maxBandwidth
  else if req = 4008 then some .bandwidth else if req = 4016 then some .dtx
  else if req = 4010 then some .complexity else if req = 4012 then some .inbandFec
  else if req = 4014 then some .packetLoss else if req = 4006 then some .vbr
  else if req = 4020 then some .vbrConstraint else if req = 4024 then some .signal
  else if req = 4036 then some .lsbDepth else if req = 4040 then some .frameDuration
  else if req = 4042 then some .predictionDisabled else if req = 4046 then some .phaseInversionDisabled
  else if req = 11002 then some .forceMode else if req = 10024 then some .lfe else none

def maxIntRate (v : Int) : Int := if v = 1101 then 8000 else if v = 1102 then 12000 else 16000

def setAccept (w : View) : SetReq → Int → Bool
  | .application, v => !decide ((v ≠ 2048 ∧ v ≠ 2049 ∧ v ≠ 2051) ∨ (w.first = 0 ∧ w.application ≠ v))   -- :2640-2646
  | .bitrate, v => !decide (v ≠ OPUS_AUTO ∧ v ≠ -1 ∧ v ≤ 0)                                              -- :2666-2670
  | .forceChannels, v => !decide ((v < 1 ∨ v > w.channels) ∧ v ≠ OPUS_AUTO)                              -- :2691
  | .maxBandwidth, v => !decide (v < 1101 ∨ v > 1105)                                                    -- :2711
  | .bandwidth, v => !decide ((v < 1101 ∨ v > 1105) ∧ v ≠ OPUS_AUTO)                                     -- :2738
  | .dtx, v | .vbr, v | .vbrConstraint, v | .predictionDisabled, v | .phaseInversionDisabled, v =>
    !decide (v < 0 ∨ v > 1)                                                        -- :2765, :2848, :2889, :3005, :3021
  | .complexity, v => !decide (v < 0 ∨ v > 10)                                                           -- :2785
  | .inbandFec, v => !decide (v < 0 ∨ v > 2)                                                             -- :2806
  | .packetLoss, v => !decide (v < 0 ∨ v > 100)                                                          -- :2827
  | .signal, v => !decide (v ≠ OPUS_AUTO ∧ v ≠ 3001 ∧ v ≠ 3002)                                          -- :2909
  | .lsbDepth, v => !decide (v < 8 ∨ v > 24)                                                             -- :2961
  | .frameDuration, v => decide (5000 ≤ v ∧ v ≤ 5009)                                                    -- :2981-2989
  | .forceMode, v => !decide ((v < MODE_SILK_ONLY ∨ v > MODE_CELT_ONLY) ∧ v ≠ OPUS_AUTO)                 -- :3100
  | .lfe, _ => true

def setApply (s : Enc) : SetReq → Int → Enc
  | .application, v => { s with application := v, analysisApp := v }
  | .bitrate, v =>                                              -- :2671-2676: clamp to [500, 300000*channels]
    { s with userBitrateBps :=
        if v ≠ OPUS_AUTO ∧ v ≠ -1 then (if v ≤ 500 then 500 else if v > 300000 * s.channels then 300000 * s.channels else v)
        else v }
  | .forceChannels, v => { s with forceChannels := v }
  | .maxBandwidth, v =>                                         -- :2715-2723
    { s with maxBandwidth := v, silkMode := { s.silkMode with maxInternalSampleRate := maxIntRate v } }
  | .bandwidth, v =>                                            -- :2742-2750
    { s with userBandwidth := v, silkMode := { s.silkMode with maxInternalSampleRate := maxIntRate v } }
  | .dtx, v => { s with useDtx := v }
  | .complexity, v =>                                           -- :2790-2792 (forwarded to CELT)
    { s with silkMode := { s.silkMode with complexity := v }, celt := { s.celt with complexity := v } }
  | .inbandFec, v =>                                            -- :2811-2813
    { s with fecConfig := v, silkMode := { s.silkMode with useInBandFEC := if v ≠ 0 then 1 else 0 } }
  | .packetLoss, v =>                                           -- :2832-2834 (forwarded to CELT)
    { s with silkMode := { s.silkMode with packetLossPercentage := v }, celt := { s.celt with lossRate := v } }
  | .vbr, v => { s with useVbr := v, silkMode := { s.silkMode with useCBR := 1 - v } }   -- :2853-2855
  | .vbrConstraint, v => { s with vbrConstraint := v }
  | .signal, v => { s with signalType := v }
  | .lsbDepth, v => { s with lsbDepth := v }
  | .frameDuration, v => { s with variableDuration := v }
  | .predictionDisabled, v => { s with silkMode := { s.silkMode with reducedDependency := v } }
  | .phaseInversionDisabled, v => { s with celt := { s.celt with disableInv := v } }     -- → celt_encoder.c:2747-2756
  | .forceMode, v => { s with userForcedMode := v }
  | .lfe, v => { s with lfe := v, celt := { s.celt with lfe := v } }                     -- :3107-3113

def encSetK (s : Enc) (k : SetReq) (v : Int) : Option Enc :=
  if setAccept (view s) k v then some (setApply s k v) else none

/-- `opus_encoder_ctl(st, req, v)` for a setting request; `none` = OPUS_BAD_ARG / not a setting. -/
def encSet (s : Enc) (req v : Int) : Option Enc :=
  match SetReq.ofId req with
  | some k => encSetK s k v
  | none => none

/-! ## "Carrying the same settings", by requests -/

/-- The request sequence an application issues to give a new encoder the settings `c`
    (one OPUS_SET_* per setting; OPUS_SET_APPLICATION first, which is accepted because `first` is set). -/
def settingsRequests (c : Settings) : List (SetReq × Int) :=
  [(.application, c.application), (.bitrate, c.userBitrateBps), (.forceChannels, c.forceChannels),
   (.maxBandwidth, c.maxBandwidth), (.bandwidth, c.userBandwidth), (.dtx, c.useDtx), (.complexity, c.complexity),
   (.inbandFec, c.fecConfig), (.packetLoss, c.packetLossPercentage), (.vbr, c.useVbr),
   (.vbrConstraint, c.vbrConstraint), (.signal, c.signalType), (.lsbDepth, c.lsbDepth),
   (.frameDuration, c.variableDuration), (.predictionDisabled, c.reducedDependency),
   (.phaseInversionDisabled, c.celtDisableInv), (.forceMode, c.userForcedMode), (.lfe, c.lfe)]

/-- Issue the requests in order; `none` as soon as one is refused. -/
def replay (s : Enc) : List (SetReq × Int) → Option Enc
  | [] => some s
  | (k, v) :: rest => match encSetK s k v with
    | some s' => replay s' rest
    | none => none

/-- Settings a sequence of accepted requests can leave behind: every value inside the range its request
    accepts (bit-rates already clamped), and the members one request stores together agree. -/
structure SettingsOk (channels : Int) (c : Settings) : Prop where
  app : c.application = 2048 ∨ c.application = 2049 ∨ c.application = 2051
  anApp : c.analysisApp = c.application
  rate : c.userBitrateBps = OPUS_AUTO ∨ c.userBitrateBps = -1 ∨ (500 ≤ c.userBitrateBps ∧ c.userBitrateBps ≤ 300000 * channels)
  fc : c.forceChannels = OPUS_AUTO ∨ (1 ≤ c.forceChannels ∧ c.forceChannels ≤ channels)
  maxBw : 1101 ≤ c.maxBandwidth ∧ c.maxBandwidth ≤ 1105
  bw : c.userBandwidth = OPUS_AUTO ∨ (1101 ≤ c.userBandwidth ∧ c.userBandwidth ≤ 1105)
  dtx : c.useDtx = 0 ∨ c.useDtx = 1
  cx : 0 ≤ c.complexity ∧ c.complexity ≤ 10
  celtCx : c.celtComplexity = c.complexity
  fec : 0 ≤ c.fecConfig ∧ c.fecConfig ≤ 2
  fecFlag : c.useInBandFEC = if c.fecConfig ≠ 0 then 1 else 0
  loss : 0 ≤ c.packetLossPercentage ∧ c.packetLossPercentage ≤ 100
  celtLoss : c.celtLossRate = c.packetLossPercentage
  vbr : c.useVbr = 0 ∨ c.useVbr = 1
  vbrc : c.vbrConstraint = 0 ∨ c.vbrConstraint = 1
  sig : c.signalType = OPUS_AUTO ∨ c.signalType = 3001 ∨ c.signalType = 3002
  lsb : 8 ≤ c.lsbDepth ∧ c.lsbDepth ≤ 24
  dur : 5000 ≤ c.variableDuration ∧ c.variableDuration ≤ 5009
  pred : c.reducedDependency = 0 ∨ c.reducedDependency = 1
  inv : c.celtDisableInv = 0 ∨ c.celtDisableInv = 1
  fm : c.userForcedMode = OPUS_AUTO ∨ (MODE_SILK_ONLY ≤ c.userForcedMode ∧ c.userForcedMode ≤ MODE_CELT_ONLY)
  celtLfe : c.celtLfe = c.lfe
  dred : c.useDRED = 0                  -- no request stores useDRED in this build (OPUS_SET_DRED_DURATION is not compiled)

/-! ## One `opus_encode*` call as a footprint -/

/-- Arguments of one encode call: frame size, byte budget, the API's lsb depth / float flag, and
    an opaque identifier of the PCM content. -/
structure Inp where
  frameSize : Int
  maxDataBytes : Int
  lsbDepth : Int
  floatApi : Int
  pcm : Nat
  deriving DecidableEq, Repr

/-- Return value, packet content (opaque) — `rangeFinal` is part of the state. -/
structure Out where
  ret : Int
  packet : Nat
  deriving DecidableEq, Repr

/-- How far a call gets. -/
inductive Path
  | entryError     -- :1157-1168: frame_size/max_data_bytes rejected; only rangeFinal := 0
  | lowBudget      -- :1267-1333: "PLC frame"; analysis / voice_ratio / width_mem / bitrate_bps updated
  | silkNoOutput   -- single-frame packet whose SILK frame produced no bytes (:2130-2139): decisions and SILK ran,
                   -- `prev_channels` is updated, the other end-of-frame updates (:2419-2428) are not
  | full           -- at least one (sub)frame reached :2405-2412
  deriving DecidableEq, Repr

/-- Members written by the analysis phase (:1171-1262). -/
structure PhaseA where
  analysis : Blob
  peakSignalEnergy : Int
  voiceRatio : Int
  detectedBandwidth : Int
  widthMem : Blob
  bitrateBps : Int
  deriving DecidableEq, Repr

/-- Members written from the decision chain on (:1336-2412); the CELT-only path does not run SILK
    (`silkRan = false`: SILK state and the SILK outputs in `silk_mode` keep their values). -/
structure PhaseB where
  streamChannels : Int
  mode : Int
  bandwidth : Int
  autoBandwidth : Int
  detectedBandwidth : Int
  useDTX : Int
  toMono : Int
  lbrrCoded : Int
  silkRan : Bool
  silkState : Blob
  silkMode : SilkCtl             -- every member silk_Encode / :1942-2117 assign (used when silkRan)
  celtState : Blob
  celt : CeltCfg                 -- CELT configuration after the CELT_SET_* calls of the frame
  hybridStereoWidthQ14 : Int
  variableHPsmth2Q15 : Int
  prevHBgain : Int
  hpMem : Blob
  delayBuffer : Blob
  silkBwSwitch : Int
  nonfinalFrame : Int
  rangeFinal : Int
  -- end-of-frame updates (only on `Path.full`)
  prevMode : Int
  prevChannels : Int
  prevFramesize : Int
  nbNoActivityMsQ1 : Int
  deriving DecidableEq, Repr

/-- Everything the DSP and the arithmetic of the decision chain contribute, as functions of the
    view (the members the code reads), the call arguments and earlier results of the same call. -/
structure Oracles where
  path : View → Inp → Path
  phaseA : View → Inp → PhaseA
  phaseB : View → PhaseA → Inp → PhaseB
  out : View → Inp → Out

/-- `opus_encode_native` as a footprint. -/
def encodeStep (O : Oracles) (s : Enc) (x : Inp) : Enc × Out :=
  let v := view s
  match O.path v x with
  | .entryError => ({ s with rangeFinal := 0 }, O.out v x)
  | .lowBudget =>
    let a := O.phaseA v x
    ({ s with
       rangeFinal := 0, analysis := a.analysis, peakSignalEnergy := a.peakSignalEnergy,
              voiceRatio := a.voiceRatio, detectedBandwidth := a.detectedBandwidth, widthMem := a.widthMem,
              bitrateBps := a.bitrateBps }, O.out v x)
  | p =>
    let a := O.phaseA v x
    let b := O.phaseB v a x
    -- SILK ran if the oracle says so, and certainly when a completed frame leaves `prev_mode` SILK / hybrid
    let ran : Bool := match p with
      | .full => b.silkRan || isSilkMode b.prevMode
      | _ => b.silkRan
    -- silk_mode: the members assigned before / by silk_Encode when SILK runs; always useDTX (:1399),
    -- toMono (:1498-1501), LBRR_coded (:1607)
    let sm : SilkCtl := if ran then b.silkMode else s.silkMode
    let sm := { sm with
                useDTX := b.useDTX, toMono := b.toMono, lbrrCoded := b.lbrrCoded,
                        packetLossPercentage := s.silkMode.packetLossPercentage,
                        complexity := s.silkMode.complexity, useInBandFEC := s.silkMode.useInBandFEC,
                        useDRED := s.silkMode.useDRED, reducedDependency := s.silkMode.reducedDependency }
    let s1 : Enc :=
      { s with
        analysis := a.analysis, peakSignalEnergy := a.peakSignalEnergy, voiceRatio := a.voiceRatio,
               widthMem := a.widthMem, bitrateBps := a.bitrateBps,
               detectedBandwidth := b.detectedBandwidth, streamChannels := b.streamChannels,
               mode := b.mode, bandwidth := b.bandwidth,
               autoBandwidth := b.autoBandwidth, silkMode := sm,
               silkState := if ran then b.silkState else s.silkState,
               celtState := b.celtState,
               celt := { b.celt with
                         channels := s.celt.channels, clip := s.celt.clip,
                                     complexity := s.celt.complexity, upsample := s.celt.upsample,
                                     signalling := s.celt.signalling, lossRate := s.celt.lossRate,
                                     lfe := s.celt.lfe, disableInv := s.celt.disableInv, arch := s.celt.arch },
               hybridStereoWidthQ14 := b.hybridStereoWidthQ14, variableHPsmth2Q15 := b.variableHPsmth2Q15,
               prevHBgain := b.prevHBgain, hpMem := b.hpMem, delayBuffer := b.delayBuffer,
               silkBwSwitch := b.silkBwSwitch, nonfinalFrame := b.nonfinalFrame, rangeFinal := b.rangeFinal }
    match p with
    | .full =>
      ({ s1 with
         prevMode := b.prevMode, prevChannels := b.prevChannels, prevFramesize := b.prevFramesize,
                 first := 0, nbNoActivityMsQ1 := b.nbNoActivityMsQ1 }, O.out v x)
    | _ => ({ s1 with prevChannels := b.streamChannels }, O.out v x)    -- :2134-2136 (SILK consumed the frame)

/-- The value an OPUS_GET_* request stores, as a function of the view (opus_encoder.c:2655-3139;
    GET_BITRATE uses user_bitrate_bps / prev_framesize, GET_IN_DTX the gated `useDTX` and the SILK state). -/
structure GetOracle where
  get : View → Int → Int

def encGet (G : GetOracle) (s : Enc) (req : Int) : Int := G.get (view s) req

/-! ## Call sequences -/

/-- One API call on an encoder object. -/
inductive Op
  | set (req v : Int)
  | get (req : Int)
  | reset
  | encode (x : Inp)
  deriving DecidableEq, Repr

/-- What the caller sees of one call: return code / value, packet content. -/
abbrev Obs := Int × Nat

def runOp (O : Oracles) (G : GetOracle) (s : Enc) : Op → Enc × Obs
  | .set req v => match encSet s req v with
    | some s' => (s', (0, 0))
    | none => (s, (-1, 0))
  | .get req => (s, (encGet G s req, 0))
  | .reset => (encReset s, (0, 0))
  | .encode x => let r := encodeStep O s x; (r.1, (r.2.ret, r.2.packet))

def run (O : Oracles) (G : GetOracle) (s : Enc) : List Op → List Obs
  | [] => []
  | op :: rest => let r := runOp O G s op; r.2 :: run O G r.1 rest

/-! ## Decoder -/

/-- struct OpusDecoder (opus_decoder.c:66-93) with silk_DecControlStruct inlined. -/
structure Dec where
  celtDecOffset : Int
  silkDecOffset : Int
  channels : Int
  fs : Int
  dcNChannelsAPI : Int
  dcNChannelsInternal : Int
  dcApiSampleRate : Int
  dcInternalSampleRate : Int
  dcPayloadSizeMs : Int
  dcPrevPitchLag : Int
  dcEnableDeepPlc : Int
  decodeGain : Int
  complexity : Int
  arch : Int
  -- OPUS_DECODER_RESET_START
  streamChannels : Int
  bandwidth : Int
  mode : Int
  prevMode : Int
  frameSize : Int
  prevRedundancy : Int
  lastPacketDuration : Int
  softclipMem : Blob
  rangeFinal : Int
  silkState : Blob
  celtState : Blob
  celtComplexity : Int
  celtDisableInv : Int
  silkNChannelsAPI : Int         -- silk_decoder.nChannelsAPI (silk/dec_API.c:47): silk_ResetDecoder keeps it
  silkNChannelsInternal : Int    -- silk_decoder.nChannelsInternal
  deriving DecidableEq, Repr

/-- `opus_decoder_init` (opus_decoder.c:140-174). -/
def decInit (fs channels arch silkOff celtOff : Int) : Dec :=
  { celtDecOffset := celtOff, silkDecOffset := silkOff, channels, fs, dcNChannelsAPI := channels,
    dcNChannelsInternal := 0, dcApiSampleRate := fs, dcInternalSampleRate := 0, dcPayloadSizeMs := 0,
    dcPrevPitchLag := 0, dcEnableDeepPlc := 0, decodeGain := 0, complexity := 0, arch,
    streamChannels := channels, bandwidth := 0, mode := 0, prevMode := 0, frameSize := fs / 400,
    prevRedundancy := 0, lastPacketDuration := 0, softclipMem := .fresh, rangeFinal := 0,
    silkState := .fresh, celtState := .fresh, celtComplexity := 0,
    celtDisableInv := if channels = 1 then 1 else 0, silkNChannelsAPI := 0, silkNChannelsInternal := 0 }

/-- OPUS_RESET_STATE of the decoder (opus_decoder.c:1029-1054), including
    `st->DecControl.prevPitchLag = 0` (:1048) (OPUS_GET_PITCH reads it when `prev_mode != MODE_CELT_ONLY`). -/
def decReset (s : Dec) : Dec :=
  { s with
    bandwidth := 0, mode := 0, prevMode := 0, prevRedundancy := 0, lastPacketDuration := 0,
           softclipMem := .fresh, rangeFinal := 0, celtState := .fresh, silkState := .fresh,
           streamChannels := s.channels, frameSize := s.fs / 400, dcPrevPitchLag := 0 }

def decResetUnrepaired (s : Dec) : Dec := { (decReset s) with dcPrevPitchLag := s.dcPrevPitchLag }

/-- Decoder members a later call may read before writing.  `DecControl.payloadSize_ms` (opus_decoder.c:408)
    and `enable_deep_plc` (:429) are assigned before every use and are omitted.  Gated:
      `DecControl.nChannelsInternal`, `internalSampleRate`  assigned whenever a packet is decoded through SILK
                      (:410-427); only concealment (data == NULL) reads the old values, and it reaches SILK only
                      when `prev_mode` is SILK-only or hybrid (:311-325), i.e. after such a packet;
      silk_decoder `nChannelsAPI`, `nChannelsInternal` (silk/dec_API.c:47-48)  survive silk_ResetDecoder;
                      silk_Decode compares them with the new values (dec_API.c:171-215) only to re-initialise or
                      copy second-channel state, which does nothing on a freshly reset SILK state (assumption,
                      searched), and then overwrites them. -/
structure DecView where
  celtDecOffset : Int
  silkDecOffset : Int
  channels : Int
  fs : Int
  dcNChannelsAPI : Int
  dcApiSampleRate : Int
  dcPrevPitchLag : Int
  decodeGain : Int
  complexity : Int
  arch : Int
  streamChannels : Int
  bandwidth : Int
  mode : Int
  prevMode : Int
  frameSize : Int
  prevRedundancy : Int
  lastPacketDuration : Int
  softclipMem : Blob
  rangeFinal : Int
  silkState : Blob
  celtState : Blob
  celtComplexity : Int
  celtDisableInv : Int
  dcNChannelsInternalGated : Int
  dcInternalSampleRateGated : Int
  silkNChannelsAPIGated : Int
  silkNChannelsInternalGated : Int
  deriving DecidableEq, Repr

def decView (s : Dec) : DecView :=
  { celtDecOffset := s.celtDecOffset, silkDecOffset := s.silkDecOffset, channels := s.channels, fs := s.fs,
    dcNChannelsAPI := s.dcNChannelsAPI, dcApiSampleRate := s.dcApiSampleRate,
    dcPrevPitchLag := s.dcPrevPitchLag, decodeGain := s.decodeGain, complexity := s.complexity,
    arch := s.arch, streamChannels := s.streamChannels, bandwidth := s.bandwidth, mode := s.mode,
    prevMode := s.prevMode, frameSize := s.frameSize, prevRedundancy := s.prevRedundancy,
    lastPacketDuration := s.lastPacketDuration, softclipMem := s.softclipMem, rangeFinal := s.rangeFinal,
    silkState := s.silkState, celtState := s.celtState, celtComplexity := s.celtComplexity,
    celtDisableInv := s.celtDisableInv,
    dcNChannelsInternalGated := if s.prevMode = MODE_SILK_ONLY ∨ s.prevMode = MODE_HYBRID then s.dcNChannelsInternal else 0,
    dcInternalSampleRateGated := if s.prevMode = MODE_SILK_ONLY ∨ s.prevMode = MODE_HYBRID then s.dcInternalSampleRate else 0,
    silkNChannelsAPIGated := if s.silkState = .fresh then 0 else s.silkNChannelsAPI,
    silkNChannelsInternalGated := if s.silkState = .fresh then 0 else s.silkNChannelsInternal }

def DecObsEq (a b : Dec) : Prop := decView a = decView b
instance (a b : Dec) : Decidable (DecObsEq a b) := by unfold DecObsEq; infer_instance

/-- Decoder settings: gain, complexity (also forwarded to CELT), phase-inversion switch. -/
def decWithSettings (s : Dec) (gain complexity celtComplexity disableInv : Int) : Dec :=
  { s with decodeGain := gain, complexity, celtComplexity, celtDisableInv := disableInv }

def decFresh (fs channels arch silkOff celtOff gain complexity celtComplexity disableInv : Int) : Dec :=
  decWithSettings (decInit fs channels arch silkOff celtOff) gain complexity celtComplexity disableInv

/-! ## Flat member lists for the correspondence suite (order of Gen.StructFields) -/

def SilkCtl.toList (c : SilkCtl) : List Int :=
  [c.nChannelsAPI, c.nChannelsInternal, c.apiSampleRate, c.maxInternalSampleRate, c.minInternalSampleRate,
   c.desiredInternalSampleRate, c.payloadSizeMs, c.bitRate, c.packetLossPercentage, c.complexity,
   c.useInBandFEC, c.useDRED, c.lbrrCoded, c.useDTX, c.useCBR, c.maxBits, c.toMono, c.opusCanSwitch,
   c.reducedDependency, c.internalSampleRate, c.allowBandwidthSwitch, c.inWBmodeWithoutVariableLP,
   c.stereoWidthQ14, c.switchReady, c.signalType, c.offset]

def SilkCtl.ofList : List Int → Option SilkCtl
  | [a1, a2, a3, a4, a5, a6, a7, a8, a9, a10, a11, a12, a13, a14, a15, a16, a17, a18, a19, a20, a21, a22,
     a23, a24, a25, a26] =>
    some ⟨a1, a2, a3, a4, a5, a6, a7, a8, a9, a10, a11, a12, a13, a14, a15, a16, a17, a18, a19, a20, a21,
          a22, a23, a24, a25, a26⟩
  | _ => none

def CeltCfg.toList (c : CeltCfg) : List Int :=
  [c.channels, c.streamChannels, c.forceIntra, c.clip, c.disablePf, c.complexity, c.upsample, c.start,
   c.end_, c.bitrate, c.vbr, c.signalling, c.constrainedVbr, c.lossRate, c.lsbDepth, c.lfe, c.disableInv, c.arch]

def CeltCfg.ofList : List Int → Option CeltCfg
  | [a1, a2, a3, a4, a5, a6, a7, a8, a9, a10, a11, a12, a13, a14, a15, a16, a17, a18] =>
    some ⟨a1, a2, a3, a4, a5, a6, a7, a8, a9, a10, a11, a12, a13, a14, a15, a16, a17, a18⟩
  | _ => none

def Blob.toInt : Blob → Int
  | .fresh => 1
  | .used _ => 0
def Blob.ofInt (i : Int) : Blob := if i = 1 then .fresh else .used 0

/-- Scalar members of OpusEncoder in declaration order (kinds I, F, P of Gen.StructFields.encFields). -/
def Enc.topList (s : Enc) : List Int :=
  [s.celtEncOffset, s.silkEncOffset, s.application, s.channels, s.delayCompensation, s.forceChannels,
   s.signalType, s.userBandwidth, s.maxBandwidth, s.userForcedMode, s.voiceRatio, s.fs, s.useVbr,
   s.vbrConstraint, s.variableDuration, s.bitrateBps, s.userBitrateBps, s.lsbDepth, s.encoderBuffer, s.lfe,
   s.arch, s.useDtx, s.fecConfig, s.streamChannels, s.hybridStereoWidthQ14, s.variableHPsmth2Q15,
   s.prevHBgain, s.mode, s.prevMode, s.prevChannels, s.prevFramesize, s.bandwidth, s.autoBandwidth,
   s.silkBwSwitch, s.first, s.energyMasking, s.detectedBandwidth, s.nbNoActivityMsQ1, s.peakSignalEnergy,
   s.nonfinalFrame, s.rangeFinal]

/-- Names of `Enc.topList`, as spelled in the C struct. -/
def encTopNames : List String :=
  ["celt_enc_offset", "silk_enc_offset", "application", "channels", "delay_compensation", "force_channels",
   "signal_type", "user_bandwidth", "max_bandwidth", "user_forced_mode", "voice_ratio", "Fs", "use_vbr",
   "vbr_constraint", "variable_duration", "bitrate_bps", "user_bitrate_bps", "lsb_depth", "encoder_buffer",
   "lfe", "arch", "use_dtx", "fec_config", "stream_channels", "hybrid_stereo_width_Q14",
   "variable_HP_smth2_Q15", "prev_HB_gain", "mode", "prev_mode", "prev_channels", "prev_framesize",
   "bandwidth", "auto_bandwidth", "silk_bw_switch", "first", "energy_masking", "detected_bandwidth",
   "nb_no_activity_ms_Q1", "peak_signal_energy", "nonfinal_frame", "rangeFinal"]

/-- Names of the record / array members of OpusEncoder, modelled as `silkMode` and blobs. -/
def encBlobNames : List String := ["silk_mode", "analysis", "hp_mem", "width_mem", "delay_buffer"]

/-- Flat form used on the wire: top scalars ++ silk_mode ++ CELT cfg ++
    [analysis.application, analysis, hp_mem, width_mem, delay_buffer, SILK state, CELT state] (blobs: 1 = fresh). -/
def Enc.toList (s : Enc) : List Int :=
  s.topList ++ s.silkMode.toList ++ s.celt.toList ++
  [s.analysisApp, s.analysis.toInt, s.hpMem.toInt, s.widthMem.toInt, s.delayBuffer.toInt,
   s.silkState.toInt, s.celtState.toInt]

def Enc.ofList (l : List Int) : Option Enc :=
  let g := fun (i : Nat) => l.getD i 0
  match l.length == 92, SilkCtl.ofList ((l.drop 41).take 26), CeltCfg.ofList ((l.drop 67).take 18) with
  | true, some sm, some cc =>
    some { celtEncOffset := (g 0), silkEncOffset := (g 1), silkMode := sm, application := (g 2), channels := (g 3),
           delayCompensation := (g 4), forceChannels := (g 5), signalType := (g 6), userBandwidth := (g 7),
           maxBandwidth := (g 8), userForcedMode := (g 9), voiceRatio := (g 10), fs := (g 11), useVbr := (g 12),
           vbrConstraint := (g 13), variableDuration := (g 14), bitrateBps := (g 15), userBitrateBps := (g 16),
           lsbDepth := (g 17), encoderBuffer := (g 18), lfe := (g 19), arch := (g 20), useDtx := (g 21), fecConfig := (g 22),
           analysisApp := (g 85), analysis := Blob.ofInt (g 86), streamChannels := (g 23), hybridStereoWidthQ14 := (g 24),
           variableHPsmth2Q15 := (g 25), prevHBgain := (g 26), hpMem := Blob.ofInt (g 87), mode := (g 27),
           prevMode := (g 28), prevChannels := (g 29), prevFramesize := (g 30), bandwidth := (g 31),
           autoBandwidth := (g 32), silkBwSwitch := (g 33), first := (g 34), energyMasking := (g 35),
           widthMem := Blob.ofInt (g 88), delayBuffer := Blob.ofInt (g 89), detectedBandwidth := (g 36),
           nbNoActivityMsQ1 := (g 37), peakSignalEnergy := (g 38), nonfinalFrame := (g 39), rangeFinal := (g 40),
           celt := cc, silkState := Blob.ofInt (g 90), celtState := Blob.ofInt (g 91) }
  | _, _, _ => none

def Dec.toList (s : Dec) : List Int :=
  [s.celtDecOffset, s.silkDecOffset, s.channels, s.fs, s.dcNChannelsAPI, s.dcNChannelsInternal,
   s.dcApiSampleRate, s.dcInternalSampleRate, s.dcPayloadSizeMs, s.dcPrevPitchLag, s.dcEnableDeepPlc,
   s.decodeGain, s.complexity, s.arch, s.streamChannels, s.bandwidth, s.mode, s.prevMode, s.frameSize,
   s.prevRedundancy, s.lastPacketDuration, s.softclipMem.toInt, s.rangeFinal, s.silkState.toInt,
   s.celtState.toInt, s.celtComplexity, s.celtDisableInv, s.silkNChannelsAPI, s.silkNChannelsInternal]

def Dec.ofList : List Int → Option Dec
  | [a1, a2, a3, a4, a5, a6, a7, a8, a9, a10, a11, a12, a13, a14, a15, a16, a17, a18, a19, a20, a21, a22,
     a23, a24, a25, a26, a27, a28, a29] =>
    some ⟨a1, a2, a3, a4, a5, a6, a7, a8, a9, a10, a11, a12, a13, a14, a15, a16, a17, a18, a19, a20, a21,
          Blob.ofInt a22, a23, Blob.ofInt a24, Blob.ofInt a25, a26, a27, a28, a29⟩
  | _ => none

/-- Names of the scalar members of OpusDecoder followed by those of silk_DecControlStruct. -/
def decTopNames : List String :=
  ["celt_dec_offset", "silk_dec_offset", "channels", "Fs", "decode_gain", "complexity", "arch",
   "stream_channels", "bandwidth", "mode", "prev_mode", "frame_size", "prev_redundancy",
   "last_packet_duration", "rangeFinal"]
def decControlNames : List String :=
  ["nChannelsAPI", "nChannelsInternal", "API_sampleRate", "internalSampleRate", "payloadSize_ms",
   "prevPitchLag", "enable_deep_plc"]
def silkCtlNames : List String :=
  ["nChannelsAPI", "nChannelsInternal", "API_sampleRate", "maxInternalSampleRate", "minInternalSampleRate",
   "desiredInternalSampleRate", "payloadSize_ms", "bitRate", "packetLossPercentage", "complexity",
   "useInBandFEC", "useDRED", "LBRR_coded", "useDTX", "useCBR", "maxBits", "toMono", "opusCanSwitch",
   "reducedDependency", "internalSampleRate", "allowBandwidthSwitch", "inWBmodeWithoutVariableLP",
   "stereoWidth_Q14", "switchReady", "signalType", "offset"]
def celtCfgNames : List String :=
  ["channels", "stream_channels", "force_intra", "clip", "disable_pf", "complexity", "upsample", "start", "end",
   "bitrate", "vbr", "signalling", "constrained_vbr", "loss_rate", "lsb_depth", "lfe", "disable_inv", "arch"]

/-! ## Ties to the regenerated struct description -/

open Opus.Gen.StructFields in
/-- One row of `Gen.StructFields.encInitValues` equals what `encInit` gives (offsets and arch are
    read from the row itself: they are layout facts, not behaviour). -/
def initRowOk (row : Int × Int × Int × List Int) : Bool :=
  let (fs, ch, app, vals) := row
  let e := encInit fs ch app (vals.getD 20 0) (vals.getD 1 0) (vals.getD 0 0)
  decide (e.topList ++ e.silkMode.toList ++ e.celt.toList = vals)

def decInitRowOk (row : Int × Int × List Int) : Bool :=
  let (fs, ch, vals) := row
  let d := decInit fs ch (vals.getD 6 0) (vals.getD 1 0) (vals.getD 0 0)
  decide ([d.celtDecOffset, d.silkDecOffset, d.channels, d.fs, d.decodeGain, d.complexity, d.arch, d.streamChannels,
           d.bandwidth, d.mode, d.prevMode, d.frameSize, d.prevRedundancy, d.lastPacketDuration, d.rangeFinal,
           d.dcNChannelsAPI, d.dcNChannelsInternal, d.dcApiSampleRate, d.dcInternalSampleRate, d.dcPayloadSizeMs,
           d.dcPrevPitchLag, d.dcEnableDeepPlc] = vals)

/-- Names of the OpusEncoder members at or after OPUS_ENCODER_RESET_START, as the model has them
    (scalars cleared or re-derived by `encReset`, and the blobs it makes fresh). -/
def encAfterMarkerNames : List String :=
  ["stream_channels", "hybrid_stereo_width_Q14", "variable_HP_smth2_Q15", "prev_HB_gain", "hp_mem", "mode",
   "prev_mode", "prev_channels", "prev_framesize", "bandwidth", "auto_bandwidth", "silk_bw_switch", "first",
   "energy_masking", "width_mem", "delay_buffer", "detected_bandwidth", "nb_no_activity_ms_Q1",
   "peak_signal_energy", "nonfinal_frame", "rangeFinal"]
def decAfterMarkerNames : List String :=
  ["stream_channels", "bandwidth", "mode", "prev_mode", "frame_size", "prev_redundancy", "last_packet_duration",
   "softclip_mem", "rangeFinal"]

end Opus.ResetState
