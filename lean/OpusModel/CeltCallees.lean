/-
  OpusModel.CeltCallees — index models of the small routines celt_decoder.c calls on its audio buffers (C01, index-safety
  bridge, third part): which element of which argument / local array each loop of the C reference implementation touches,
  loop by loop.  Hand transcription of the index expressions (a trusted reading, file:line cited); values are not
  modelled.  `OpusProofs.CeltCallees` proves that every touched element lies inside the extent contract the bridge uses
  for the routine (`Opus.CeltIdx.Call.accs`) resp. inside the local array's declared size — i.e. the contracts of
  `celt_fir_c`, `celt_iir`, `_celt_autocorr`, `_celt_lpc`, `pitch_downsample` are discharged from the callee code (the
  SIMD variants selected at run time are covered by the sanitizer probes of the tie only).

  C sources (tree at b1d58384): celt/pitch.h:65-129 xcorr_kernel_c, :159-167 celt_inner_prod_c; celt/pitch.c:105-137
  celt_fir5, :140-205 pitch_downsample, :225-300 celt_pitch_xcorr_c; celt/celt_lpc.c:37-139 _celt_lpc, :142-187
  celt_fir_c, :189-278 celt_iir (not SMALL_FOOTPRINT), :280-367 _celt_autocorr; celt/mathops.h celt_maxabs32.
-/
namespace Opus.CeltCallees

/-- Arrays of one routine: its pointer arguments and its local (stack) arrays. -/
inductive CArr
  | x | x1 | num | y | mem | ac | lpc | xlp | win    -- arguments
  | rnum | yloc | xx | lac | llpc | lpc2             -- locals: rnum / rden, y (celt_iir), xx (_celt_autocorr), ac[5], lpc[4], lpc2[5]
  deriving DecidableEq, Repr

/-- One element touched. -/
structure Hit where
  arr : CArr
  idx : Int
  deriving Repr

/-- `for (i = lo; i < hi; i++) body(i)`. -/
def loop (lo hi : Int) (body : Int → List Hit) : List Hit :=
  (List.range (hi - lo).toNat).flatMap fun (t : Nat) => body (lo + (t : Int))

/-- `xcorr_kernel_c(x, y, sum, len)` (pitch.h:65-129) with `x = xa + xo`, `y = ya + yo`: three `y` loads, then the loop
    unrolled by four (one `x` and one `y` load per tap), then up to three single taps. -/
def xcorrKernel (xa : CArr) (xo : Int) (ya : CArr) (yo : Int) (len : Int) : List Hit :=
  [⟨ya, yo⟩, ⟨ya, yo + 1⟩, ⟨ya, yo + 2⟩] ++                                                     -- :71-73
  (loop 0 ((len - 3 + 3) / 4) fun t =>                                                           -- :74-101  j = 4t < len-3
    [⟨xa, xo + 4 * t⟩, ⟨ya, yo + 4 * t + 3⟩, ⟨xa, xo + 4 * t + 1⟩, ⟨ya, yo + 4 * t + 4⟩,
     ⟨xa, xo + 4 * t + 2⟩, ⟨ya, yo + 4 * t + 5⟩, ⟨xa, xo + 4 * t + 3⟩, ⟨ya, yo + 4 * t + 6⟩]) ++
  (loop (4 * ((len - 3 + 3) / 4)) len fun j => [⟨xa, xo + j⟩, ⟨ya, yo + j + 3⟩])                  -- :102-128 the remaining taps

/-- `celt_inner_prod_c(x, y, N)` (pitch.h:159-167). -/
def innerProd (xa : CArr) (xo : Int) (ya : CArr) (yo : Int) (n : Int) : List Hit :=
  loop 0 n fun i => [⟨xa, xo + i⟩, ⟨ya, yo + i⟩]

/-- `celt_fir_c(x, num, y, N, ord)` (celt_lpc.c:142-187). -/
def firHits (N ord : Int) : List Hit :=
  (loop 0 ord fun i => [⟨.rnum, i⟩, ⟨.num, ord - i - 1⟩]) ++                                      -- :155-156
  (loop 0 (N / 4) fun t =>                                                                       -- :157-178  i = 4t < N-3
    [⟨.x, 4 * t⟩, ⟨.x, 4 * t + 1⟩, ⟨.x, 4 * t + 2⟩, ⟨.x, 4 * t + 3⟩] ++
    xcorrKernel .rnum 0 .x (4 * t - ord) ord ++
    [⟨.y, 4 * t⟩, ⟨.y, 4 * t + 1⟩, ⟨.y, 4 * t + 2⟩, ⟨.y, 4 * t + 3⟩]) ++
  (loop (4 * (N / 4)) N fun i =>                                                                 -- :179-185
    [⟨.x, i⟩] ++ (loop 0 ord fun j => [⟨.rnum, j⟩, ⟨.x, i + j - ord⟩]) ++ [⟨.y, i⟩])

/-- `celt_iir(_x, den, _y, N, ord, mem)` (celt_lpc.c:214-278); `x`: `_x`, `y`: `_y`, `num`: `den`, `yloc`: the local
    `y[N+ord]`, `rnum`: `rden[ord]`. -/
def iirHits (N ord : Int) : List Hit :=
  (loop 0 ord fun i => [⟨.rnum, i⟩, ⟨.num, ord - i - 1⟩]) ++                                      -- :224-225
  (loop 0 ord fun i => [⟨.yloc, i⟩, ⟨.mem, ord - i - 1⟩]) ++                                      -- :226-227
  (loop ord (N + ord) fun i => [⟨.yloc, i⟩]) ++                                                   -- :228-229
  (loop 0 (N / 4) fun t =>                                                                       -- :230-264  i = 4t
    [⟨.x, 4 * t⟩, ⟨.x, 4 * t + 1⟩, ⟨.x, 4 * t + 2⟩, ⟨.x, 4 * t + 3⟩] ++
    xcorrKernel .rnum 0 .yloc (4 * t) ord ++
    [⟨.yloc, 4 * t + ord⟩, ⟨.y, 4 * t⟩, ⟨.num, 0⟩, ⟨.yloc, 4 * t + ord + 1⟩, ⟨.y, 4 * t + 1⟩, ⟨.num, 1⟩,
     ⟨.yloc, 4 * t + ord + 2⟩, ⟨.y, 4 * t + 2⟩, ⟨.num, 2⟩, ⟨.yloc, 4 * t + ord + 3⟩, ⟨.y, 4 * t + 3⟩]) ++
  (loop (4 * (N / 4)) N fun i =>                                                                 -- :265-272
    [⟨.x, i⟩] ++ (loop 0 ord fun j => [⟨.rnum, j⟩, ⟨.yloc, i + j⟩]) ++ [⟨.yloc, i + ord⟩, ⟨.y, i⟩]) ++
  (loop 0 ord fun i => [⟨.mem, i⟩, ⟨.y, N - i - 1⟩])                                              -- :273-274

/-- `celt_pitch_xcorr_c(_x, _y, xcorr, len, max_pitch)` (pitch.c:225-300) with `_x = _y = xa`, `xcorr = ac`. -/
def pitchXcorr (xa : CArr) (len maxPitch : Int) : List Hit :=
  (loop 0 (maxPitch / 4) fun t =>                                                                -- :262-285  i = 4t < max_pitch-3
    xcorrKernel xa 0 xa (4 * t) len ++ [⟨.ac, 4 * t⟩, ⟨.ac, 4 * t + 1⟩, ⟨.ac, 4 * t + 2⟩, ⟨.ac, 4 * t + 3⟩]) ++
  (loop (4 * (maxPitch / 4)) maxPitch fun i => innerProd xa 0 xa i len ++ [⟨.ac, i⟩])             -- :287-295

/-- `_celt_autocorr(x, ac, window, overlap, lag, n)` (celt_lpc.c:280-367), float build.  With `overlap = 0` the
    correlations run on `x` itself, otherwise on the windowed copy `xx[n]`. -/
def autocorrHits (overlap lag n : Int) : List Hit :=
  let xp : CArr := if overlap = 0 then .x else .xx
  (if overlap = 0 then [] else
    (loop 0 n fun i => [⟨.xx, i⟩, ⟨.x, i⟩]) ++                                                     -- :304-305
    (loop 0 overlap fun i => [⟨.win, i⟩, ⟨.xx, i⟩, ⟨.x, i⟩, ⟨.xx, n - i - 1⟩, ⟨.x, n - i - 1⟩])) ++   -- :306-311
  pitchXcorr xp (n - lag) (lag + 1) ++                                                            -- :334
  (loop 0 (lag + 1) fun k =>                                                                      -- :335-340
    (loop (k + (n - lag)) n fun i => [⟨xp, i⟩, ⟨xp, i - k⟩]) ++ [⟨.ac, k⟩])

/-- `_celt_lpc(_lpc, ac, p)` (celt_lpc.c:37-139), float build (`lpc = _lpc`); every iteration of the outer loop is
    listed (the early exit only removes accesses). -/
def lpcHits (p : Int) : List Hit :=
  [⟨.ac, 0⟩] ++ (loop 0 p fun i => [⟨.lpc, i⟩]) ++                                                 -- :45, :51 OPUS_CLEAR
  (loop 0 p fun i =>                                                                              -- :58-79
    (loop 0 i fun j => [⟨.lpc, j⟩, ⟨.ac, i - j⟩]) ++ [⟨.ac, i + 1⟩, ⟨.lpc, i⟩] ++
    (loop 0 ((i + 1) / 2) fun j => [⟨.lpc, j⟩, ⟨.lpc, i - 1 - j⟩]) ++ [⟨.ac, 0⟩])

/-- `celt_fir5(x, num, N)` (pitch.c:105-137) on `x_lp` with `num = lpc2`. -/
def fir5Hits (n : Int) : List Hit :=
  [⟨.lpc2, 0⟩, ⟨.lpc2, 1⟩, ⟨.lpc2, 2⟩, ⟨.lpc2, 3⟩, ⟨.lpc2, 4⟩] ++ (loop 0 n fun i => [⟨.xlp, i⟩])

/-- `pitch_downsample(x, x_lp, len, C)` (pitch.c:140-216): `celt_maxabs32` over each channel (fixed-point build only;
    listed so that both builds are covered), the decimation, then `_celt_autocorr(x_lp, ac, NULL, 0, 4, len>>1)`, `_celt_lpc(lpc, ac, 4)`, the `lpc2` set-up and
    `celt_fir5(x_lp, lpc2, len>>1)`; `x`: `x[0]`, `x1`: `x[1]`, `lac`: `ac[5]`, `llpc`: `lpc[4]`. -/
def pdownHits (len : Int) (stereo : Bool) : List Hit :=
  (loop 0 len fun i => [⟨.x, i⟩]) ++ (if stereo then loop 0 len fun i => [⟨.x1, i⟩] else []) ++     -- :151-156
  (loop 1 (len / 2) fun i => [⟨.xlp, i⟩, ⟨.x, 2 * i - 1⟩, ⟨.x, 2 * i + 1⟩, ⟨.x, 2 * i⟩]) ++        -- :174-175
  [⟨.xlp, 0⟩, ⟨.x, 1⟩, ⟨.x, 0⟩] ++                                                                 -- :176
  (if stereo then
    (loop 1 (len / 2) fun i => [⟨.xlp, i⟩, ⟨.x1, 2 * i - 1⟩, ⟨.x1, 2 * i + 1⟩, ⟨.x1, 2 * i⟩]) ++   -- :179-180
    [⟨.xlp, 0⟩, ⟨.x1, 1⟩, ⟨.x1, 0⟩] else []) ++
  -- :184-185 _celt_autocorr(x_lp, ac, NULL, 0, 4, len>>1): `x` of the callee is x_lp, `ac` is the local ac[5]
  ((autocorrHits 0 4 (len / 2)).map fun h =>
    match h.arr with | .x => ⟨.xlp, h.idx⟩ | .ac => ⟨.lac, h.idx⟩ | a => ⟨a, h.idx⟩) ++
  (loop 0 5 fun i => [⟨.lac, i⟩]) ++                                                               -- :187-199 noise floor, lag window
  -- :200 _celt_lpc(lpc, ac, 4)
  ((lpcHits 4).map fun h => match h.arr with | .lpc => ⟨.llpc, h.idx⟩ | .ac => ⟨.lac, h.idx⟩ | a => ⟨a, h.idx⟩) ++
  (loop 0 4 fun i => [⟨.llpc, i⟩]) ++                                                              -- :201-205
  [⟨.lpc2, 0⟩, ⟨.llpc, 0⟩, ⟨.lpc2, 1⟩, ⟨.llpc, 1⟩, ⟨.llpc, 0⟩, ⟨.lpc2, 2⟩, ⟨.llpc, 2⟩, ⟨.llpc, 1⟩, ⟨.lpc2, 3⟩, ⟨.llpc, 3⟩,
   ⟨.llpc, 2⟩, ⟨.lpc2, 4⟩, ⟨.llpc, 3⟩] ++                                                          -- :210-214
  fir5Hits (len / 2)                                                                              -- :212

end Opus.CeltCallees
