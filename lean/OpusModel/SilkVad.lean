import OpusModel.Basic
import OpusModel.SilkParams.Fix
import OpusModel.Gen.VadConsts
/-
  OpusModel.SilkVad — the SILK voice activity detector (property C20: the detector in charge of DTX
  when the tonality analysis does not run).  All fixed-point integer code, identical in the float build.

  C sources transcribed (statement order, shifts and clamps as in the code):
    * `silk_VAD_Init`               silk/VAD.c:47-76
    * `silk_VAD_GetSA_Q8_c`         silk/VAD.c:84-298
    * `silk_VAD_GetNoiseLevels`     silk/VAD.c:306-360
    * `silk_ana_filt_bank_1`        silk/ana_filt_bank_1.c:39-74
    * `silk_sigm_Q15`               silk/sigm_Q15.c:49-76
    * `silk_lin2log`                silk/lin2log.c:35-46
    * `silk_SQRT_APPROX`            silk/Inlines.h:71-94
  Macro helpers (`smulwb`, `smlawb`, `smulww`, `smulbb`, `clzFrac`, `sat16`, `rshiftRound`, `shrI`,
  `lshift32`, `wrap16/32`) come from OpusModel/SilkParams/Fix.lean (C18, read-only).

  Conventions: values are unbounded `Int`; the `silk_SM*W*` macros carry the 32-bit truncation of their
  C definition; plain C `+`, `-`, `*` on `opus_int32` are modelled unbounded (signed overflow would be
  undefined behaviour) and OpusProofs/SilkVad*.lean shows they stay inside 32 bits on every reachable
  state; `silk_DIV32` is C's truncating division (`Int.tdiv`).  The four bands are a structure `Q4`, the
  input frame and the band signals are lists.
-/
namespace Opus.SilkVad
open Opus Opus.SilkParams

/-- Four per-band values (`VAD_N_BANDS = 4`). -/
structure Q4 where
  b0 : Int
  b1 : Int
  b2 : Int
  b3 : Int
  deriving DecidableEq, Repr, Inhabited

def Q4.map (f : Int → Int) (q : Q4) : Q4 := ⟨f q.b0, f q.b1, f q.b2, f q.b3⟩
def Q4.toList (q : Q4) : List Int := [q.b0, q.b1, q.b2, q.b3]
def Q4.all (p : Int → Prop) (q : Q4) : Prop := p q.b0 ∧ p q.b1 ∧ p q.b2 ∧ p q.b3

/-- `silk_VAD_state` (silk/structs.h:78-89). -/
structure VadState where
  ana0 : Int × Int        -- AnaState   (0-8 kHz)
  ana1 : Int × Int        -- AnaState1  (0-4 kHz)
  ana2 : Int × Int        -- AnaState2  (0-2 kHz)
  xnrgSubfr : Q4          -- XnrgSubfr
  ratioSmth : Q4          -- NrgRatioSmth_Q8
  hp : Int                -- HPstate (opus_int16)
  nl : Q4                 -- NL
  invNl : Q4              -- inv_NL
  bias : Q4               -- NoiseLevelBias
  counter : Int
  deriving DecidableEq, Repr

def int32Max : Int := 2147483647

/-- `VAD_NOISE_LEVELS_BIAS`, `VAD_NOISE_LEVEL_SMOOTH_COEF_Q16`, `VAD_SNR_FACTOR_Q16`,
    `VAD_NEGATIVE_OFFSET_Q5`, `VAD_SNR_SMOOTH_COEF_Q18` (silk/define.h:190-198), regenerated from /repo
    into OpusModel/Gen/VadConsts.lean on every run. -/
def noiseLevelsBias : Int := Gen.VadConsts.vadNoiseLevelsBias
def noiseLevelSmoothCoefQ16 : Int := Gen.VadConsts.vadNoiseLevelSmoothCoefQ16
def snrFactorQ16 : Int := Gen.VadConsts.vadSnrFactorQ16
def negativeOffsetQ5 : Int := Gen.VadConsts.vadNegativeOffsetQ5
def snrSmoothCoefQ18 : Int := Gen.VadConsts.vadSnrSmoothCoefQ18
/-- `tiltWeights` (silk/VAD.c:79, file static; regenerated). -/
def tiltWeights : Q4 :=
  ⟨Gen.VadConsts.tiltWeights.getD 0 0, Gen.VadConsts.tiltWeights.getD 1 0, Gen.VadConsts.tiltWeights.getD 2 0,
   Gen.VadConsts.tiltWeights.getD 3 0⟩

/-- `silk_ADD_POS_SAT32(a, b)` (SigProc_FIX.h:499): for non-negative `a`, `b`. -/
def addPosSat32 (a b : Int) : Int :=
  if ((a % 4294967296) + (b % 4294967296)) % 4294967296 ≥ 2147483648 then int32Max else a + b

/-- `silk_VAD_Init` (silk/VAD.c:47-76). -/
def vadInit : VadState :=
  let biasOf (b : Int) : Int := max (Int.tdiv noiseLevelsBias (b + 1)) 1
  let bias : Q4 := ⟨biasOf 0, biasOf 1, biasOf 2, biasOf 3⟩
  let nl := bias.map (fun x => 100 * x)
  { ana0 := (0, 0), ana1 := (0, 0), ana2 := (0, 0), xnrgSubfr := ⟨0, 0, 0, 0⟩,
    ratioSmth := ⟨100 * 256, 100 * 256, 100 * 256, 100 * 256⟩, hp := 0,
    nl := nl, invNl := nl.map (fun x => Int.tdiv int32Max x), bias := bias, counter := 15 }

/-! ### `silk_ana_filt_bank_1` -/

/-- `A_fb1_20 = 5394 << 1`, `A_fb1_21 = -24290` (ana_filt_bank_1.c:35-36). -/
def aFb120 : Int := Gen.VadConsts.aFb120
def aFb121 : Int := Gen.VadConsts.aFb121

/-- One iteration of the loop of `silk_ana_filt_bank_1` (two input samples → one low, one high). -/
def anaStep (s : Int × Int) (x0 x1 : Int) : (Int × Int) × Int × Int :=
  let in32 := x0 * 1024
  let y := in32 - s.1
  let x := smlawb y y aFb121
  let out1 := s.1 + x
  let s0 := in32 + x
  let in32b := x1 * 1024
  let y2 := in32b - s.2
  let x2 := smulwb y2 aFb120
  let out2 := s.2 + x2
  let s1 := in32b + x2
  ((s0, s1), sat16 (rshiftRound (out2 + out1) 11), sat16 (rshiftRound (out2 - out1) 11))

/-- `silk_ana_filt_bank_1` over `N = 2·⌊len/2⌋` samples: final state, low band, high band. -/
def anaFilt : Int × Int → List Int → (Int × Int) × List Int × List Int
  | s, x0 :: x1 :: rest =>
    let r := anaStep s x0 x1
    let t := anaFilt r.1 rest
    (t.1, r.2.1 :: t.2.1, r.2.2 :: t.2.2)
  | s, _ => (s, [], [])

/-! ### small functions -/

/-- `silk_sigm_Q15` (silk/sigm_Q15.c:49-76). -/
def sigmLutSlopeQ10 : List Int := Gen.VadConsts.sigmLutSlopeQ10
def sigmLutPosQ15 : List Int := Gen.VadConsts.sigmLutPosQ15
def sigmLutNegQ15 : List Int := Gen.VadConsts.sigmLutNegQ15

def sigmQ15 (inQ5 : Int) : Int :=
  if inQ5 < 0 then
    let a := -inQ5
    if a ≥ 192 then 0
    else
      let ind := (a / 32).toNat
      sigmLutNegQ15.getD ind 0 - smulbb (sigmLutSlopeQ10.getD ind 0) (a % 32)
  else
    if inQ5 ≥ 192 then 32767
    else
      let ind := (inQ5 / 32).toNat
      sigmLutPosQ15.getD ind 0 + smulbb (sigmLutSlopeQ10.getD ind 0) (inQ5 % 32)

/-- `silk_lin2log` (silk/lin2log.c:35-46). -/
def lin2log (x : Int) : Int :=
  let (lz, frac) := clzFrac x
  smlawb frac (frac * (128 - frac)) 179 + lshift32 (31 - lz) 7

/-- `silk_SQRT_APPROX` (silk/Inlines.h:71-94). -/
def sqrtApprox (x : Int) : Int :=
  if x ≤ 0 then 0
  else
    let (lz, frac) := clzFrac x
    let y : Int := if lz % 2 = 1 then 32768 else 46214
    let y := shrI y (lz / 2).toNat
    smlawb y y (smulbb 213 frac)

/-! ### `silk_VAD_GetNoiseLevels` -/

/-- `min_coef` and the new `counter` (silk/VAD.c:317-324). -/
def minCoefOf (counter : Int) : Int × Int :=
  if counter < 1000 then (Int.tdiv 32767 (shrI counter 4 + 1), counter + 1) else (0, counter)

/-- One band of the loop (silk/VAD.c:326-358): `(NL', inv_NL')` from the band energy. -/
def noiseBand (minCoef px nl invNl bias : Int) : Int × Int :=
  let nrg := addPosSat32 px bias
  let invNrg := Int.tdiv int32Max nrg
  let coef :=
    if nrg > lshift32 nl 3 then shrI noiseLevelSmoothCoefQ16 3
    else if nrg < nl then noiseLevelSmoothCoefQ16
    else smulwb (smulww invNrg nl) (noiseLevelSmoothCoefQ16 * 2)
  let coef := max coef minCoef
  let invNl' := smlawb invNl (invNrg - invNl) coef
  let nl' := min (Int.tdiv int32Max invNl') 16777215
  (nl', invNl')

def getNoiseLevels (px : Q4) (st : VadState) : VadState :=
  let mc := minCoefOf st.counter
  let r0 := noiseBand mc.1 px.b0 st.nl.b0 st.invNl.b0 st.bias.b0
  let r1 := noiseBand mc.1 px.b1 st.nl.b1 st.invNl.b1 st.bias.b1
  let r2 := noiseBand mc.1 px.b2 st.nl.b2 st.invNl.b2 st.bias.b2
  let r3 := noiseBand mc.1 px.b3 st.nl.b3 st.invNl.b3 st.bias.b3
  { st with counter := mc.2, nl := ⟨r0.1, r1.1, r2.1, r3.1⟩, invNl := ⟨r0.2, r1.2, r2.2, r3.2⟩ }

/-! ### `silk_VAD_GetSA_Q8_c` -/

/-- The differentiator on the lowest band (silk/VAD.c:148-156): new band signal and `HPstate`.
    `Y[0] = (x[0]>>1) - HPstate`, `Y[i] = (x[i]>>1) - (x[i-1]>>1)`, `HPstate' = x[last]>>1`. -/
def hpDiff (hp : Int) : List Int → List Int
  | [] => []
  | x :: rest => (shrI x 1 - hp) :: hpDiff (shrI x 1) rest

def hpLast (hp : Int) (xs : List Int) : Int :=
  match xs.getLast? with
  | some x => shrI x 1
  | none => hp

/-- Energy of one sub-frame (silk/VAD.c:176-185): Σ (x>>3)². -/
def subEnergy : List Int → Int
  | [] => 0
  | x :: rest => subEnergy rest + smulbb (shrI x 3) (shrI x 3)

/-- Band energy with the carried look-ahead sub-frame (silk/VAD.c:161-199): `(Xnrg, XnrgSubfr')`.
    `len` is the decimated frame length of the band; the four sub-frames have `len >> 2` samples. -/
def bandEnergy (carry : Int) (x : List Int) (len : Nat) : Int × Int :=
  let sl := len / 4
  let e0 := subEnergy ((x.drop 0).take sl)
  let e1 := subEnergy ((x.drop sl).take sl)
  let e2 := subEnergy ((x.drop (2 * sl)).take sl)
  let e3 := subEnergy ((x.drop (3 * sl)).take sl)
  let n := addPosSat32 (addPosSat32 (addPosSat32 (addPosSat32 carry e0) e1) e2) (shrI e3 1)
  (n, e3)

/-- Per-band SNR part (silk/VAD.c:212-241): `(NrgToNoiseRatio_Q8, contribution to sumSquared, new input_tilt)`. -/
def snrBand (xnrg nl w tilt : Int) : Int × Int × Int :=
  let speechNrg := xnrg - nl
  if speechNrg > 0 then
    let ratio :=
      if 0 ≤ xnrg ∧ xnrg < 8388608 then Int.tdiv (lshift32 xnrg 8) (nl + 1)
      else Int.tdiv xnrg (shrI nl 8 + 1)
    let snr := lin2log ratio - 8 * 128
    let sq := smulbb snr snr
    let snr' := if speechNrg < 1048576 then smulwb (lshift32 (sqrtApprox speechNrg) 6) snr else snr
    (ratio, sq, smlawb tilt w snr')
  else (256, 0, tilt)

/-- Smoothed ratio and quality of one band (silk/VAD.c:286-294). -/
def qualityBand (smth ratio coef : Int) : Int × Int :=
  let s := smlawb smth (ratio - smth) coef
  let snr := 3 * (lin2log s - 8 * 128)
  (s, sigmQ15 (shrI (snr - 16 * 128) 4))

structure VadOut where
  st : VadState
  speechActivityQ8 : Int
  inputTiltQ15 : Int
  quality : Q4
  deriving DecidableEq, Repr

/-- Filter bank, differentiator and band energies (silk/VAD.c:113-199): the state with the new filter
    memories, `HPstate` and `XnrgSubfr`, and the four band energies `Xnrg`. -/
def bands (st : VadState) (frameLength : Nat) (pIn : List Int) : VadState × Q4 :=
  let l1 := frameLength / 2
  let l2 := frameLength / 4
  let l3 := frameLength / 8
  -- filter and decimate (:134-144)
  let f0 := anaFilt st.ana0 (pIn.take frameLength)        -- 0-4 kHz | 4-8 kHz
  let f1 := anaFilt st.ana1 (f0.2.1.take l1)              -- 0-2 kHz | 2-4 kHz
  let f2 := anaFilt st.ana2 (f1.2.1.take l2)              -- 0-1 kHz | 1-2 kHz
  let x0 := hpDiff st.hp (f2.2.1.take l3)
  let hp' := hpLast st.hp (f2.2.1.take l3)
  -- energies (:161-199)
  let e0 := bandEnergy st.xnrgSubfr.b0 x0 l3
  let e1 := bandEnergy st.xnrgSubfr.b1 f2.2.2 l3
  let e2 := bandEnergy st.xnrgSubfr.b2 f1.2.2 l2
  let e3 := bandEnergy st.xnrgSubfr.b3 f0.2.2 l1
  ({ st with ana0 := f0.1, ana1 := f1.1, ana2 := f2.1, hp := hp', xnrgSubfr := ⟨e0.2, e1.2, e2.2, e3.2⟩ },
   ⟨e0.1, e1.1, e2.1, e3.1⟩)

/-- The speech activity before the power scaling and the tilt (silk/VAD.c:209-255):
    `(SA_Q15, input_tilt_Q15, NrgToNoiseRatio_Q8)`. -/
def snrStage (nl xnrg : Q4) : Int × Int × Q4 :=
  let s0 := snrBand xnrg.b0 nl.b0 tiltWeights.b0 0
  let s1 := snrBand xnrg.b1 nl.b1 tiltWeights.b1 s0.2.2
  let s2 := snrBand xnrg.b2 nl.b2 tiltWeights.b2 s1.2.2
  let s3 := snrBand xnrg.b3 nl.b3 tiltWeights.b3 s2.2.2
  let sumSquared := Int.tdiv (s0.2.1 + s1.2.1 + s2.2.1 + s3.2.1) 4
  let pSNR := wrap16 (3 * sqrtApprox sumSquared)
  (sigmQ15 (smulwb snrFactorQ16 pSNR - negativeOffsetQ5), lshift32 (sigmQ15 s3.2.2 - 16384) 1, ⟨s0.1, s1.1, s2.1, s3.1⟩)

/-- Power scaling (silk/VAD.c:260-279): the final `SA_Q15`. -/
def powerScale (sa : Int) (nl xnrg : Q4) (full20ms : Bool) : Int :=
  let sn := 1 * shrI (xnrg.b0 - nl.b0) 4 + 2 * shrI (xnrg.b1 - nl.b1) 4
              + 3 * shrI (xnrg.b2 - nl.b2) 4 + 4 * shrI (xnrg.b3 - nl.b3) 4
  let sn := if full20ms then shrI sn 1 else sn
  if sn ≤ 0 then shrI sa 1
  else if sn < 16384 then smulwb (32768 + sqrtApprox (lshift32 sn 16)) sa
  else sa

/-- The smoothing coefficient (silk/VAD.c:287-291). -/
def smoothCoef (sa : Int) (half : Bool) : Int :=
  let c := smulwb snrSmoothCoefQ18 (smulwb sa sa)
  if half then shrI c 1 else c

/-- Everything after the noise estimation (silk/VAD.c:209-295). -/
def decision (st2 : VadState) (xnrg : Q4) (fsKHz frameLength : Nat) : VadOut :=
  let r := snrStage st2.nl xnrg
  let sa := powerScale r.1 st2.nl xnrg (frameLength = 20 * fsKHz)
  let coef := smoothCoef sa (frameLength = 10 * fsKHz)
  let q0 := qualityBand st2.ratioSmth.b0 r.2.2.b0 coef
  let q1 := qualityBand st2.ratioSmth.b1 r.2.2.b1 coef
  let q2 := qualityBand st2.ratioSmth.b2 r.2.2.b2 coef
  let q3 := qualityBand st2.ratioSmth.b3 r.2.2.b3 coef
  { st := { st2 with ratioSmth := ⟨q0.1, q1.1, q2.1, q3.1⟩ }, speechActivityQ8 := min (shrI sa 7) 255,
    inputTiltQ15 := r.2.1, quality := ⟨q0.2, q1.2, q2.2, q3.2⟩ }

/-- `silk_VAD_GetSA_Q8_c` (silk/VAD.c:84-298).  `frameLength` = `psEncC->frame_length` (a multiple of 8,
    at most 512 — the `celt_assert`s of :109-111 give `.abort`), `fsKHz` = `psEncC->fs_kHz`, `pIn` the
    frame (`frameLength` samples are read). -/
def getSA (st : VadState) (fsKHz frameLength : Nat) (pIn : List Int) : Res VadOut :=
  if frameLength > 512 ∨ frameLength % 8 ≠ 0 then .abort
  else if pIn.length < frameLength then .oob
  else
    let b := bands st frameLength pIn
    .ok (decision (getNoiseLevels b.2 b.1) b.2 fsKHz frameLength)

end Opus.SilkVad
