import OpusModel.SilkSynthIdx
/-
  OpusModel.SilkSynthIdxOut — index model of the OUTPUT STAGE of silk_Decode (silk/dec_API.c:311-420):
  the per-channel frame buffers `samplesOut1_tmp[n][frame_length + 2]`, the mid-only memset,
  silk_stereo_MS_to_LR (stereo_MS_to_LR.c:35-85) with the two-sample histories sMid / sSide, the
  mono buffering, `samplesOut2_tmp`, the top level of silk_resampler (resampler.c:176-215: delay buffer,
  the two kernel calls) and the (de-)interleaving into the caller's buffer.

  The three resampling kernels are CONTRACTS here: `kernel( S, out, in, inLen )` reads `in[0..inLen)` and
  writes `out[0 .. inLen·Fs_out/Fs_in)`; the recorder tie observes the repo's kernels doing exactly that.
  silk_decode_frame appears as the write of `frame_length` samples at `&samplesOut1_tmp[n][2]`
  (its interior is OpusModel.SilkSynthIdxFrame).  TRUSTED READING, file:line cited; tied by
  harness/c18_synthidx*.c mode `out`.
-/
namespace Opus.SilkSynthIdx
open Opus Opus.Gen

structure OutIn where
  fsKHz : Int
  nbSubfr : Nat
  nChInt : Int                -- decControl->nChannelsInternal
  nChAPI : Int                -- decControl->nChannelsAPI
  apiHz : Int                 -- decControl->API_sampleRate
  hasSide : Bool              -- dec_API.c:318-323
  stereoToMono : Bool         -- dec_API.c:176-177
  lost : Bool                 -- lostFlag == FLAG_PACKET_LOST: the predictor is taken from the state (dec_API.c:294-298)
  stereoStart : Bool          -- first stereo call after mono (API or internal): stereo state cleared (dec_API.c:212-216)
  deriving Repr

def OutIn.cfg (x : OutIn) : Cfg :=
  { cfgOf x.fsKHz x.nbSubfr with nChInt := x.nChInt, nChAPI := x.nChAPI, apiKHz := x.apiHz / 1000 }

/-- The `rateID( R )` macro of resampler.c:71. -/
def rateId (hz : Int) : Int :=
  ((hz / 4096 - (if hz > 16000 then 1 else 0)) / (if hz > 24000 then 2 else 1)) - 1

/-- `S->inputDelay` as silk_resampler_init sets it for the decoder (resampler.c:99). -/
def inputDelay (fsKHz apiHz : Int) : Int :=
  SilkSynth.delayMatrixDec.getD (rateId (fsKHz * 1000) * SilkSynth.delayMatrixDecCols + rateId apiHz).toNat 0

/-- Top level of `silk_resampler( S, out = samplesOut2_tmp, in = &tmp[1], inLen )` (resampler.c:176-215) with the
    kernel contracts; `tmp` is the row of the frame buffer the input points into; second component: one of the
    two `celt_assert`s fired. -/
def resamplerAccesses (tmp dly : Arr) (fsIn fsOut delay : Int) (inLen : Int) : List Acc × Bool :=
  if inLen < fsIn ∨ delay > fsIn then ([], true)                                              -- :186-188
  else
    let nS := fsIn - delay                                                                     -- :190
    (rd tmp 1 (1 + nS) ++ wrt dly delay (delay + nS) ++                                        -- :193
      rd dly 0 fsIn ++ wrt .out2 0 fsOut ++                                                    -- :197/201/205/209 first call
      rd tmp (1 + nS) (1 + nS + (inLen - fsIn)) ++
      wrt .out2 fsOut (fsOut + (inLen - fsIn) * fsOut / fsIn) ++                               -- second call
      rd tmp (1 + inLen - delay) (1 + inLen) ++ wrt dly 0 delay, false)                        -- :213

/-- silk_stereo_MS_to_LR( state, x1 = tmp[0], x2 = tmp[1], pred, fs_kHz, frame_length ). -/
def msToLrAccesses (c : Cfg) : List Acc :=
  let F := c.frameLen
  let n8 := SilkSynth.stereoInterpLenMs * c.fsKHz
  rd .sMid 0 2 ++ wrt .tmp0 0 2 ++ rd .sSide 0 2 ++ wrt .tmp1 0 2 ++                             -- :49-50
    rd .tmp0 F (F + 2) ++ wrt .sMid 0 2 ++ rd .tmp1 F (F + 2) ++ wrt .sSide 0 2 ++               -- :51-52
    rd .predPrev 0 2 ++ rd .msPred 0 2 ++                                                        -- :55-59
    rd .tmp0 0 (n8 + 2) ++ rd .tmp1 1 (n8 + 1) ++ wrt .tmp1 1 (n8 + 1) ++                        -- :60-67
    rd .msPred 0 2 ++
    rd .tmp0 n8 (F + 2) ++ rd .tmp1 (n8 + 1) (F + 1) ++ wrt .tmp1 (n8 + 1) (F + 1) ++            -- :70-75
    wrt .predPrev 0 2 ++ rd .msPred 0 2 ++                                                       -- :76-77
    rd .tmp0 1 (F + 1) ++ rd .tmp1 1 (F + 1) ++ wrt .tmp0 1 (F + 1) ++ wrt .tmp1 1 (F + 1)       -- :80-85

/-- Accesses of the output stage by phase (the tie compares per phase). -/
structure OutAcc where
  top : List Acc        -- silk_Decode itself: predictor fallback, memset, buffering, interleaving
  dec : List Acc        -- silk_decode_frame (as the write of its output)
  ms : List Acc         -- silk_stereo_MS_to_LR
  res0 : List Acc       -- silk_resampler on channel_state[ 0 ].resampler_state
  res1 : List Acc       -- silk_resampler on channel_state[ 1 ].resampler_state
  aborted : Bool
  deriving Repr

def OutAcc.all (a : OutAcc) : List Acc := a.top ++ a.dec ++ a.ms ++ a.res0 ++ a.res1

/-- The output stage for one call of silk_Decode. -/
def outAccesses (x : OutIn) : OutAcc :=
  let c := x.cfg
  let F := c.frameLen
  let N := F * x.apiHz / (x.fsKHz * 1000)                                                        -- dec_API.c:376
  let fsOut := x.apiHz / 1000                                                                    -- resampler.c:103
  let delay := inputDelay x.fsKHz x.apiHz
  let stereo := decide (x.nChAPI = 2 ∧ x.nChInt = 2)
  let pp := (if x.stereoStart then wrt .predPrev 0 2 ++ wrt .sSide 0 2 else []) ++                -- :212-216
    (if x.nChInt = 2 ∧ x.lost then rd .predPrev 0 2 ++ wrt .msPred 0 2 else [])                  -- :294-298
  let dec0 := wrt .tmp0 2 (2 + F)                                                                -- :347 silk_decode_frame, n = 0
  let dec1 := if x.nChInt = 2 ∧ x.hasSide then wrt .tmp1 2 (2 + F) else []                       -- :347, n = 1
  let zero1 := if x.nChInt = 2 ∧ ¬ x.hasSide then wrt .tmp1 2 (2 + F) else []                    -- :356 memset
  let buf := if stereo then [] else rd .sMid 0 2 ++ wrt .tmp0 0 2 ++ rd .tmp0 F (F + 2) ++ wrt .sMid 0 2   -- :366-367
  let ms := if stereo then msToLrAccesses c else []                                              -- :363
  let r0 := resamplerAccesses .tmp0 .delayBuf0 x.fsKHz fsOut delay F                              -- :385, n = 0
  let il0 := rd .out2 0 N ++ (if x.nChAPI = 2 then wrt .samplesOut 0 (2 * N - 1) else wrt .samplesOut 0 N)   -- :388-396
  if r0.2 then ⟨pp ++ zero1 ++ buf, dec0 ++ dec1, ms, r0.1, [], true⟩
  else if stereo then
    let r1 := resamplerAccesses .tmp1 .delayBuf1 x.fsKHz fsOut delay F                            -- :385, n = 1
    ⟨pp ++ zero1 ++ buf ++ il0 ++ (if r1.2 then [] else rd .out2 0 N ++ wrt .samplesOut 1 (2 * N)), dec0 ++ dec1, ms,
     r0.1, r1.1, r1.2⟩
  else if x.nChAPI = 2 ∧ x.nChInt = 1 then
    if x.stereoToMono then
      let r1 := resamplerAccesses .tmp0 .delayBuf1 x.fsKHz fsOut delay F                          -- :404
      ⟨pp ++ zero1 ++ buf ++ il0 ++ (if r1.2 then [] else rd .out2 0 N ++ wrt .samplesOut 1 (2 * N)), dec0 ++ dec1, ms,
       r0.1, r1.1, r1.2⟩
    else ⟨pp ++ zero1 ++ buf ++ il0 ++ rd .samplesOut 0 (2 * N - 1) ++ wrt .samplesOut 1 (2 * N), dec0 ++ dec1, ms,
          r0.1, [], false⟩                                                                        -- :410-412
  else ⟨pp ++ zero1 ++ buf ++ il0, dec0 ++ dec1, ms, r0.1, [], false⟩

end Opus.SilkSynthIdx
