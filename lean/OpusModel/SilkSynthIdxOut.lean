import OpusModel.SilkSynthIdx
/-
  OpusModel.SilkSynthIdxOut — index model of the OUTPUT STAGE of silk_Decode (silk/dec_API.c:311-420):
  the per-channel frame buffers `samplesOut1_tmp[n][frame_length + 2]`, the mid-only memset,
  silk_stereo_MS_to_LR (stereo_MS_to_LR.c:35-85) with the two-sample histories sMid / sSide, the
  mono buffering, `samplesOut2_tmp`, the top level of silk_resampler (resampler.c:176-215: delay buffer,
  the two kernel calls) and the (de-)interleaving into the caller's buffer.

  The three resampling kernels are CONTRACTS here: `kernel( S, out, in, inLen )` reads `in[0..inLen)` and
  writes `out[0 .. inLen·Fs_out/Fs_in)`; the recorder tie observes the repo's kernels doing exactly that.
  silk_decode_frame appears as the write of `frame_length` samples at `&samplesOut1_tmp[n][2]`
  (its interior is OpusModel.SilkSynthIdxFrame).  TRUSTED READING, file:line cited; tied by
  harness/c18_synthidx*.c mode `out`.
-/
namespace Opus.SilkSynthIdx
open Opus Opus.Gen

structure OutIn where
  fsKHz : Int
  nbSubfr : Nat
  nChInt : Int                -- decControl->nChannelsInternal
  nChAPI : Int                -- decControl->nChannelsAPI
  apiHz : Int                 -- decControl->API_sampleRate
  hasSide : Bool              -- dec_API.c:318-323
  stereoToMono : Bool         -- dec_API.c:176-177
  lost : Bool                 -- lostFlag == FLAG_PACKET_LOST: the predictor is taken from the state (dec_API.c:294-298)
  deriving Repr

def OutIn.cfg (x : OutIn) : Cfg :=
  { cfgOf x.fsKHz x.nbSubfr with nChInt := x.nChInt, nChAPI := x.nChAPI, apiKHz := x.apiHz / 1000 }

/-- The `rateID( R )` macro of resampler.c:71. -/
def rateId (hz : Int) : Int :=
  ((hz / 4096 - (if hz > 16000 then 1 else 0)) / (if hz > 24000 then 2 else 1)) - 1

/-- `S->inputDelay` as silk_resampler_init sets it for the decoder (resampler.c:99). -/
def inputDelay (fsKHz apiHz : Int) : Int :=
  SilkSynth.delayMatrixDec.getD (rateId (fsKHz * 1000) * SilkSynth.delayMatrixDecCols + rateId apiHz).toNat 0

/-- Top level of `silk_resampler( S, out = samplesOut2_tmp, in = &tmp[off], inLen )` (resampler.c:176-215) with the
    kernel contracts; second component: one of the two `celt_assert`s fired. -/
def resamplerAccesses (dly : Arr) (fsIn fsOut delay : Int) (off inLen : Int) : List Acc × Bool :=
  if inLen < fsIn ∨ delay > fsIn then ([], true)                                              -- :186-188
  else
    let nS := fsIn - delay                                                                     -- :190
    (rd .tmpStore off (off + nS) ++ wrt dly delay (delay + nS) ++                              -- :193
      rd dly 0 fsIn ++ wrt .out2 0 fsOut ++                                                    -- :197/201/205/209 first call
      rd .tmpStore (off + nS) (off + nS + (inLen - fsIn)) ++
      wrt .out2 fsOut (fsOut + (inLen - fsIn) * fsOut / fsIn) ++                               -- second call
      rd .tmpStore (off + inLen - delay) (off + inLen) ++ wrt dly 0 delay, false)              -- :213

/-- silk_stereo_MS_to_LR( state, x1 = tmp[0], x2 = tmp[1], pred, fs_kHz, frame_length ). -/
def msToLrAccesses (c : Cfg) : List Acc :=
  let F := c.frameLen
  let b2 := F + 2                                    -- offset of samplesOut1_tmp[ 1 ] in the storage
  let n8 := SilkSynth.stereoInterpLenMs * c.fsKHz
  rd .sMid 0 2 ++ wrt .tmpStore 0 2 ++ rd .sSide 0 2 ++ wrt .tmpStore b2 (b2 + 2) ++             -- :49-50
    rd .tmpStore F (F + 2) ++ wrt .sMid 0 2 ++ rd .tmpStore (b2 + F) (b2 + F + 2) ++ wrt .sSide 0 2 ++  -- :51-52
    rd .predPrev 0 2 ++ rd .msPred 0 2 ++                                                        -- :55-59
    rd .tmpStore 0 (n8 + 2) ++ rd .tmpStore (b2 + 1) (b2 + n8 + 1) ++ wrt .tmpStore (b2 + 1) (b2 + n8 + 1) ++   -- :60-67
    rd .msPred 0 2 ++
    rd .tmpStore n8 (F + 2) ++ rd .tmpStore (b2 + n8 + 1) (b2 + F + 1) ++ wrt .tmpStore (b2 + n8 + 1) (b2 + F + 1) ++  -- :70-75
    wrt .predPrev 0 2 ++ rd .msPred 0 2 ++                                                       -- :76-77
    rd .tmpStore 1 (F + 1) ++ rd .tmpStore (b2 + 1) (b2 + F + 1) ++
    wrt .tmpStore 1 (F + 1) ++ wrt .tmpStore (b2 + 1) (b2 + F + 1)                               -- :80-85

/-- The output stage for one call of silk_Decode. -/
def outAccesses (x : OutIn) : List Acc × Bool :=
  let c := x.cfg
  let F := c.frameLen
  let N := F * x.apiHz / (x.fsKHz * 1000)                                                        -- dec_API.c:376
  let fsOut := x.apiHz / 1000                                                                    -- resampler.c:103
  let delay := inputDelay x.fsKHz x.apiHz
  let pp := if x.nChInt = 2 ∧ x.lost then rd .predPrev 0 2 ++ wrt .msPred 0 2 else []            -- :294-298
  let dec0 := pp ++ wrt .tmpStore 2 (2 + F)                                                      -- :347 silk_decode_frame, n = 0
  let dec1 := if x.nChInt = 2 then wrt .tmpStore (F + 2 + 2) (F + 2 + 2 + F) else []             -- :347 or :356 memset, n = 1
  let st :=
    if x.nChAPI = 2 ∧ x.nChInt = 2 then msToLrAccesses c                                         -- :363
    else rd .sMid 0 2 ++ wrt .tmpStore 0 2 ++ rd .tmpStore F (F + 2) ++ wrt .sMid 0 2            -- :366-367
  let r0 := resamplerAccesses .delayBuf0 x.fsKHz fsOut delay 1 F                                  -- :385, n = 0
  let il0 := rd .out2 0 N ++ (if x.nChAPI = 2 then wrt .samplesOut 0 (2 * N - 1) else wrt .samplesOut 0 N)   -- :388-396
  if r0.2 then (dec0 ++ dec1 ++ st ++ r0.1, true)
  else if x.nChAPI = 2 ∧ x.nChInt = 2 then
    let r1 := resamplerAccesses .delayBuf1 x.fsKHz fsOut delay (F + 2 + 1) F                      -- :385, n = 1
    (dec0 ++ dec1 ++ st ++ r0.1 ++ il0 ++ r1.1 ++ (if r1.2 then [] else rd .out2 0 N ++ wrt .samplesOut 1 (2 * N)), r1.2)
  else if x.nChAPI = 2 ∧ x.nChInt = 1 then
    if x.stereoToMono then
      let r1 := resamplerAccesses .delayBuf1 x.fsKHz fsOut delay 1 F                              -- :404
      (dec0 ++ dec1 ++ st ++ r0.1 ++ il0 ++ r1.1 ++ (if r1.2 then [] else rd .out2 0 N ++ wrt .samplesOut 1 (2 * N)), r1.2)
    else (dec0 ++ dec1 ++ st ++ r0.1 ++ il0 ++ rd .samplesOut 0 (2 * N - 1) ++ wrt .samplesOut 1 (2 * N), false)   -- :410-412
  else (dec0 ++ dec1 ++ st ++ r0.1 ++ il0, false)

end Opus.SilkSynthIdx
