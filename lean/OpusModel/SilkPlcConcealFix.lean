import OpusModel.SilkParams.Fix
import OpusModel.Gen.PlcConsts
import OpusModel.Gen.SilkPlcCngConsts
/-
  OpusModel.SilkPlcConcealFix — fixed-point kernels shared by the SILK concealment / comfort-noise
  value model (C09 extension `SilkPlc`).  The SILK macros themselves (`smulwb`, `smlawb`, `smulww`,
  `smulbb`, `rshiftRound`, `sat16`, `lshiftSat32`, `clz32`, `clzFrac`, `inverse32VarQ`, …) are C18's
  (`OpusModel/SilkParams/Fix.lean`, imported read-only); this file adds what PLC.c / CNG.c need on top.

  C sources: silk/SigProc_FIX.h:439 (silk_SMULTT), :527 (silk_SUB_LSHIFT32), :599-601 (silk_RAND),
  silk/macros.h:99-101 (silk_ADD_SAT32), silk/Inlines.h:63-92 (silk_SQRT_APPROX),
  silk/sum_sqr_shift.c:36-82, silk/bwexpander.c:36-51, silk/LPC_analysis_filter.c:48-111 (the
  non-FIXED_POINT branch, which is the one compiled in this float build), and the order-10/16 LPC
  synthesis loop that PLC.c:374-398 and CNG.c:154-183 share.

  Conventions as in C18's Fix.lean: `opus_int32` values are unbounded `Int`s; plain C `+ - *` is the
  unbounded operation (where that differs from the machine result the C program has signed overflow,
  which the `san` tie watches for); every explicit narrowing of the C code (`(opus_int32)` cast of a 64-bit
  value, `_ovflw` macro, store into an `opus_int16`) is a `wrap32` / `wrap16`.
-/
namespace Opus.SilkPlc
open Opus Opus.SilkParams Opus.Gen.SilkPlcCngConsts

/-- `silk_RAND(seed)` = `silk_MLA_ovflw(RAND_INCREMENT, seed, RAND_MULTIPLIER)` (SigProc_FIX.h:601). -/
def silkRand (seed : Int) : Int := wrap32 (RAND_INCREMENT + seed * RAND_MULTIPLIER)

/-- `silk_SMULTT(a, b)` = `(a >> 16) * (b >> 16)` (SigProc_FIX.h:439). -/
def smultt (a b : Int) : Int := shrI a 16 * shrI b 16

/-- `silk_SUB_LSHIFT32(a, b, s)` = `a - silk_LSHIFT32(b, s)` (SigProc_FIX.h:527); the subtraction is a plain
    `int` subtraction. -/
def subLshift32 (a b : Int) (s : Nat) : Int := a - lshift32 b s

/-- `silk_ADD_SAT32(a, b)` (macros.h:99-101): for `opus_int32` operands the three-way test on the sign bits
    selects `silk_int32_MIN` when both are negative and the 32-bit sum is not, `silk_int32_MAX` when both are
    non-negative and the 32-bit sum is negative, and `a+b` otherwise — i.e. the saturated exact sum. -/
def addSat32 (a b : Int) : Int := sat32 (a + b)

/-- C `/` on `int`s (`silk_DIV32`, `silk_DIV32_16`): truncation toward zero. -/
def div32 (a b : Int) : Int := Int.tdiv a b

/-- `silk_SQRT_APPROX` (Inlines.h:63-92). -/
def sqrtApprox (x : Int) : Int :=
  if x ≤ 0 then 0
  else
    let lf := clzFrac x
    let y : Int := if lf.1 % 2 = 1 then 32768 else 46214
    let y := shrI y (shrI lf.1 1).toNat
    smlawb y y (smulbb 213 lf.2)

/-! ### silk_sum_sqr_shift -/

/-- One accumulation pass of sum_sqr_shift.c:51-60 / :65-74 with right shift `shft`:
    `nrg_tmp` is an `opus_uint32`, `nrg = (opus_int32)(nrg + (nrg_tmp >> shft))`. -/
def sqrAcc (shft : Nat) : List Int → Int → Int
  | a :: b :: rest, nrg => sqrAcc shft rest (wrap32 (nrg + ((smulbb a a + smulbb b b) % 4294967296) / 2 ^ shft))
  | [a], nrg => wrap32 (nrg + (smulbb a a % 4294967296) / 2 ^ shft)
  | [], nrg => nrg

/-- First-pass shift `31 - silk_CLZ32(len)` (sum_sqr_shift.c:48). -/
def sqrShift0 (len : Nat) : Int := 31 - clz32 len

/-- Final shift `silk_max_32(0, shft + 3 - silk_CLZ32(nrg))` (sum_sqr_shift.c:63). -/
def sqrShift1 (len : Nat) (nrg1 : Int) : Int := max 0 (sqrShift0 len + 3 - clz32 nrg1)

/-- `silk_sum_sqr_shift(&energy, &shift, x, len)` with `len = x.length`: `(energy, shift)`. -/
def sumSqrShift (x : List Int) : Int × Int :=
  let s0 := sqrShift0 x.length
  let nrg1 := sqrAcc s0.toNat x x.length
  let s1 := sqrShift1 x.length nrg1
  (sqrAcc s1.toNat x 0, s1)

/-! ### silk_bwexpander (16-bit coefficients) -/

/-- One coefficient of bwexpander.c:47/50: `(opus_int16)silk_RSHIFT_ROUND( silk_MUL( chirp_Q16, ar[i] ), 16 )`. -/
def bweCoef (c a : Int) : Int := wrap16 (rshiftRound (c * a) 16)

/-- The chirp update of bwexpander.c:48; `cm1` = `chirp_minus_one_Q16`, fixed at entry (bwexpander.c:42). -/
def bweChirp (c cm1 : Int) : Int := c + rshiftRound (c * cm1) 16

/-- The loop of bwexpander.c:46-50 with the running chirp `c`. -/
def bwexpGo (cm1 : Int) : List Int → Int → List Int
  | [], _ => []
  | [x], c => [bweCoef c x]
  | x :: y :: xs, c => bweCoef c x :: bwexpGo cm1 (y :: xs) (bweChirp c cm1)

/-- `silk_bwexpander(ar, d, chirp_Q16)` (bwexpander.c:35-51), `d = ar.length`. -/
def bwexp16 (ar : List Int) (c : Int) : List Int := bwexpGo (c - 65536) ar c

/-! ### silk_LPC_analysis_filter -/

/-- Index into an array with a C `int` index; 0 outside (the index theorems show it is never outside). -/
def agetI (a : Array Int) (i : Int) : Int := if i < 0 then 0 else a.getD i.toNat 0

/-- The MA accumulation of LPC_analysis_filter.c:81-92: `out32_Q12` over taps `B[j..]`, with
    `silk_SMLABB_ovflw` wrapping at every step. -/
def firAcc (x : Array Int) (ix : Int) : List Int → Int → Int → Int
  | [], _, acc => acc
  | b :: bs, j, acc => firAcc x ix bs (j + 1) (wrap32 (acc + wrap16 (agetI x (ix - 1 - j)) * wrap16 b))

/-- One output sample `out[ix]`, `ix ≥ d` (LPC_analysis_filter.c:78-102). -/
def firSample (x : Array Int) (B : List Int) (ix : Int) : Int :=
  let acc := firAcc x ix B 0 0
  let o := wrap32 (lshift32 (agetI x ix) 12 - acc)          -- silk_SUB32_ovflw( silk_LSHIFT( in_ptr[ 1 ], 12 ), out32_Q12 )
  sat16 (rshiftRound o 12)

/-- `silk_LPC_analysis_filter(out, in, B, len, d)` for `in = x[base .. base+len)`; `out[0..d) = 0`
    (`d = B.length`).  `.abort` = one of the three `celt_assert`s (:64-66). -/
def lpcAnalysisFilter (x : Array Int) (base : Int) (B : List Int) (len : Int) : Res (List Int) :=
  let d : Int := B.length
  if d < 6 ∨ d % 2 ≠ 0 ∨ d > len then .abort
  else .ok ((List.replicate B.length 0) ++
            (List.range (len - d).toNat).map fun (t : Nat) => firSample x B (base + d + (t : Int)))

/-! ### the LPC synthesis loop shared by PLC.c:374-398 and CNG.c:154-183 -/

/-- `LPC_pred_Q10` (PLC.c:377-390 / CNG.c:156-174): start value `order >> 1`, then one `silk_SMLAWB` per tap;
    `st` holds `sLPC_Q14_ptr[MAX_LPC_ORDER + i - 1], [… - 2], …` (most recent first). -/
def lpcPred : List Int → List Int → Int → Int
  | a :: as, s :: ss, acc => lpcPred as ss (smlawb acc s a)
  | _, _, acc => acc

/-- One synthesis step: new `sLPC_Q14_ptr[MAX_LPC_ORDER + i]` (PLC.c:393-394 / CNG.c:177). -/
def synthStep (A : List Int) (st : List Int) (e : Int) : Int :=
  addSat32 e (lshiftSat32 (lpcPred A st ((A.length : Int) / 2)) 4)

/-- The synthesis loop over the excitation `exc`; `st` = the `MAX_LPC_ORDER` previous outputs, most recent
    first.  Returns the per-sample `silk_SAT16( silk_RSHIFT_ROUND( silk_SMULWW( s, gain_Q10 ), 8 ) )` and the
    final state (most recent first). -/
def lpcSynth (A : List Int) (g : Int) : List Int → List Int → List Int × List Int
  | [], st => ([], st)
  | e :: es, st =>
    let v := synthStep A st e
    let r := lpcSynth A g es (v :: st.take (MAX_LPC_ORDER - 1))
    (sat16 (rshiftRound (smulww v g) 8) :: r.1, r.2)

end Opus.SilkPlc
