import OpusModel.Framing
/-
  OpusModel.DecSkel — the CONTROL skeleton of the Opus decoder.

  C sources transcribed (control flow, integer arithmetic, state updates only):
    src/opus_decoder.c   validate_opus_decoder (:96-110), opus_decoder_init (:130-175),
                         opus_decode_frame (:257-679), opus_decode_native (:681-822),
                         opus_decode / opus_decode24 / opus_decode_float (:839-967),
                         opus_decoder_ctl RESET_STATE / SET_GAIN / GET_LAST_PACKET_DURATION (:1029-1096)
    src/opus_multistream_decoder.c  opus_multistream_packet_validate (:149-176),
                         opus_multistream_decode_native (:178-307)

  The DSP is NOT modelled.  `silk_Decode`, `celt_decode_with_ec(_dred)`, `ec_dec_bit_logp`,
  `ec_dec_uint` are ORACLES (`Oracle`): the k-th oracle call of a run gets its answer from the
  oracle as a function of the call index and of the arguments the skeleton passes.  `ec_tell`
  is a variable of the skeleton that the symbol-decoding oracles update (each returns the
  value of `ec_tell` after it ran).  Every oracle call and every access the skeleton itself
  makes to a PCM buffer is appended to an event log together with (buffer, offset, capacity),
  so write/read footprints are part of the model's output.

  C `int` is unbounded `Int`.  A C function returning `int` where negative values are error
  codes returns that raw `Int`; `Out` adds the two non-returning outcomes:
    `abort` — a hardening assertion (`celt_assert`) of the skeleton fires,
    `hang`  — a `do … while` loop of the skeleton would make no progress (C: spins forever).
  All loops are defined by well-founded recursion on the remaining sample count; no fuel.

  Recursion of `opus_decode_frame` into itself (PLC chunk loop :333-342, transition PLC
  :376/:514) is unrolled into layers: `nullFrameGen inner` is the function for `data = NULL`
  with the recursive call abstracted as `inner`; `nullFrameLeaf` ties the knot with an inner
  call that can never be reached (`OpusProofs.DecSkel`: `nullFrameGen_small_inner_irrel`),
  because the recursive call is made with at most 20 ms.
-/
namespace Opus.DecSkel
open Opus Opus.Framing

/-! ### constants -/
def MODE_SILK : Int := 1000
def MODE_HYBRID : Int := 1001
def MODE_CELT : Int := 1002
def BW_NB : Int := 1101
def BW_MB : Int := 1102
def BW_WB : Int := 1103
def BW_SWB : Int := 1104
def BW_FB : Int := 1105
def BAD_ARG : Int := -1
def BUFFER_TOO_SMALL : Int := -2
def INTERNAL_ERROR : Int := -3
def INVALID_PACKET : Int := -4

/-- C `%` (truncating) — only used where an operand may be negative. -/
@[inline] def cmod (a b : Int) : Int := Int.tmod a b
/-- C `/` (truncating). -/
@[inline] def cdiv (a b : Int) : Int := Int.tdiv a b

/-! ### state -/

/-- The fields of `silk_DecControlStruct` the skeleton reads or writes. -/
structure DecControl where
  nChannelsAPI : Int
  nChannelsInternal : Int
  API_sampleRate : Int
  internalSampleRate : Int
  payloadSize_ms : Int
  deriving DecidableEq, Repr

/-- `struct OpusDecoder` (opus_decoder.c:65-93) without offsets/arch/softclip memory/rangeFinal. -/
structure DecState where
  Fs : Int
  channels : Int
  dc : DecControl
  decode_gain : Int
  stream_channels : Int
  bandwidth : Int
  mode : Int
  prev_mode : Int
  frame_size : Int
  prev_redundancy : Int
  last_packet_duration : Int
  deriving DecidableEq, Repr

/-- `opus_decoder_init` (:130-175) for legal arguments (otherwise `none` = OPUS_BAD_ARG). -/
def init (Fs channels : Int) : Option DecState :=
  if (Fs ≠ 48000 ∧ Fs ≠ 24000 ∧ Fs ≠ 16000 ∧ Fs ≠ 12000 ∧ Fs ≠ 8000) ∨ (channels ≠ 1 ∧ channels ≠ 2) then none
  else some
    { Fs, channels,
      dc := { nChannelsAPI := channels, nChannelsInternal := 0, API_sampleRate := Fs,
              internalSampleRate := 0, payloadSize_ms := 0 },
      decode_gain := 0, stream_channels := channels, bandwidth := 0, mode := 0, prev_mode := 0,
      frame_size := Fs / 400, prev_redundancy := 0, last_packet_duration := 0 }

/-- `OPUS_RESET_STATE` (:1029-1043). -/
def reset (st : DecState) : DecState :=
  { st with stream_channels := st.channels, bandwidth := 0, mode := 0, prev_mode := 0,
            frame_size := st.Fs / 400, prev_redundancy := 0, last_packet_duration := 0 }

/-- `OPUS_SET_GAIN` (:1077-1086): returns the error code and the new state. -/
def setGain (st : DecState) (v : Int) : Int × DecState :=
  if v < -32768 ∨ v > 32767 then (BAD_ARG, st) else (0, { st with decode_gain := v })

/-- The conjunction of the `celt_assert`s of `validate_opus_decoder` (:98-109). -/
def validateOk (st : DecState) : Bool :=
  (st.channels == 1 || st.channels == 2) &&
  (st.Fs == 48000 || st.Fs == 24000 || st.Fs == 16000 || st.Fs == 12000 || st.Fs == 8000) &&
  (st.dc.API_sampleRate == st.Fs) &&
  (st.dc.internalSampleRate == 0 || st.dc.internalSampleRate == 16000 ||
    st.dc.internalSampleRate == 12000 || st.dc.internalSampleRate == 8000) &&
  (st.dc.nChannelsAPI == st.channels) &&
  (st.dc.nChannelsInternal == 0 || st.dc.nChannelsInternal == 1 || st.dc.nChannelsInternal == 2) &&
  (st.dc.payloadSize_ms == 0 || st.dc.payloadSize_ms == 10 || st.dc.payloadSize_ms == 20 ||
    st.dc.payloadSize_ms == 40 || st.dc.payloadSize_ms == 60) &&
  (st.stream_channels == 1 || st.stream_channels == 2)

/-! ### buffers, events, oracles -/

/-- Which PCM buffer a pointer points into: the buffer handed to `opus_decode_native`, or one
    of the stack buffers `opus_decode_frame` allocates. -/
inductive Buf where
  | pcm      -- the caller's buffer (`pcm` argument of opus_decode_native)
  | silk     -- `pcm_silk`            (:394-398), F10*channels
  | trans    -- `pcm_transition_celt` / `pcm_transition_silk` (:372, :509), F5*channels
  | red      -- `redundant_audio`     (:546-547), F5*channels
  deriving DecidableEq, Repr

/-- A pointer = buffer, offset (in samples) and the capacity of that buffer (in samples). -/
structure Ptr where
  buf : Buf
  off : Int
  cap : Int
  deriving DecidableEq, Repr

def Ptr.add (p : Ptr) (n : Int) : Ptr := { p with off := p.off + n }

structure SilkArgs where
  payloadSize_ms : Int
  internalSampleRate : Int
  nChannelsInternal : Int
  nChannelsAPI : Int
  API_sampleRate : Int
  lostFlag : Int
  newPacketFlag : Int
  deriving DecidableEq, Repr

/-- Arguments of a `celt_decode_with_ec(_dred)` call.  `dataOff` is the offset of the `data`
    pointer from the start of the packet (`none` = NULL, or the on-stack silence frame when
    `silence`), `avail` the number of packet bytes from `dataOff` to the end of the frame the
    skeleton is decoding (so "reads only the packet" is `len ≤ avail`). -/
structure CeltArgs where
  fs : Int              -- sampling rate the CELT decoder was created with (= st->Fs)
  site : Nat            -- 0: redundancy CELT→SILK (:558)  1: main (:573)  2: silence (:591)  3: redundancy SILK→CELT (:607)
  dataOff : Option Int
  avail : Int
  len : Int
  frame_size : Int
  withDec : Bool        -- the shared range decoder is passed (`&dec`) rather than NULL
  accum : Int
  channels : Int
  deriving DecidableEq, Repr

inductive Ev where
  | decInit (off len : Int)                         -- ec_dec_init(&dec, data, len)   (:313)
  | silk (a : SilkArgs) (p : Ptr) (ret n : Int)      -- silk_Decode wrote n*nChannelsAPI samples at p
  | celt (a : CeltArgs) (p : Ptr) (ret : Int)        -- celt_decode_with_ec wrote frame_size*channels samples at p
  | acc (site : Nat) (p : Ptr) (n : Int)             -- the skeleton itself reads/writes n samples at p
  | silkReset                                        -- silk_ResetDecoder (:405)
  | clip (p : Ptr) (n ch : Int)                      -- opus_pcm_soft_clip (:817)
  deriving DecidableEq, Repr

/-- Oracle answers, indexed by the position of the call in the run. -/
structure Oracle where
  silk : Nat → SilkArgs → Int × Int × Int     -- (silk_ret, *nSamplesOut, ec_tell afterwards)
  celt : Nat → CeltArgs → Int                 -- return value
  bit  : Nat → Int → Int → Int × Int          -- logp, ec_tell before ↦ (bit, ec_tell afterwards)
  uint : Nat → Int → Int → Int × Int          -- ft,   ec_tell before ↦ (value, ec_tell afterwards)

inductive Out (α : Type) where
  | ret : α → Out α
  | abort : Out α
  | hang : Out α
  deriving Repr

/-- Threaded through every function: decoder state, oracle-call counter, event log (newest first). -/
structure Run where
  st : DecState
  k : Nat
  log : List Ev
  deriving Repr

def Run.push (r : Run) (e : Ev) : Run := { r with log := e :: r.log }
def Run.tick (r : Run) : Run := { r with k := r.k + 1 }
def Run.setSt (r : Run) (st : DecState) : Run := { r with st := st }

abbrev Res' := Out Int × Run

/-! ### opus_decode_frame -/

def F20 (st : DecState) : Int := st.Fs / 50
def F10 (st : DecState) : Int := F20 st / 2
def F5 (st : DecState) : Int := F10 st / 2
def F2_5 (st : DecState) : Int := F5 st / 2

/-- One iteration of the `silk_Decode` loop (:443-463) up to the loop test. -/
structure SilkStep where
  err : Int          -- 0, or OPUS_INTERNAL_ERROR (:458-459)
  n : Int            -- silk_frame_size as used by :462-463
  tell : Int
  run : Run

def silkStep (o : Oracle) (lost fsz decoded : Int) (p : Ptr) (tell : Int) (r : Run) : SilkStep :=
  let st := r.st
  let a : SilkArgs :=
    { payloadSize_ms := st.dc.payloadSize_ms, internalSampleRate := st.dc.internalSampleRate,
      nChannelsInternal := st.dc.nChannelsInternal, nChannelsAPI := st.dc.nChannelsAPI,
      API_sampleRate := st.dc.API_sampleRate, lostFlag := lost,
      newPacketFlag := if decoded = 0 then 1 else 0 }
  let sret := (o.silk r.k a).1
  let n0 := (o.silk r.k a).2.1
  let tell' := (o.silk r.k a).2.2
  let r1 := (r.tick).push (.silk a p sret n0)
  let tell1 := if lost = 1 then tell else tell'
  if sret ≠ 0 ∧ lost = 0 then { err := INTERNAL_ERROR, n := n0, tell := tell1, run := r1 }
  else if sret ≠ 0 then
    -- :452-456  PLC failure is not fatal: zero `frame_size*channels` samples at pcm_ptr
    { err := 0, n := fsz, tell := tell1, run := r1.push (.acc 0 p (fsz * st.channels)) }
  else { err := 0, n := n0, tell := tell1, run := r1 }

/-- The `silk_Decode` loop (:442-464).  `lost` is `lost_flag`, `fsz` the (clamped) frame size.
    Returns `(0, ec_tell after the last call)` or `(OPUS_INTERNAL_ERROR, _)`. -/
def silkLoop (o : Oracle) (lost fsz : Int) : (decoded : Int) → (p : Ptr) → (tell : Int) → Run → Out (Int × Int) × Run
  | decoded, p, tell, r =>
    match silkStep o lost fsz decoded p tell r with
    | s =>
      if s.err ≠ 0 then (.ret (s.err, s.tell), s.run)
      else if _h1 : decoded + s.n < fsz then
        if _h : s.n ≤ 0 then (.hang, s.run)
        else silkLoop o lost fsz (decoded + s.n) (p.add (s.n * r.st.channels)) s.tell s.run
      else (.ret (0, s.tell), s.run)
termination_by decoded _ _ _ => (fsz - decoded).toNat
decreasing_by
  have hs : s.n = (silkStep o lost fsz decoded p tell r).n := rfl
  omega

/-- Result of the redundancy parse (:471-499). -/
structure Red where
  redundancy : Int
  celt_to_silk : Int
  bytes : Int
  len : Int
  tell : Int
  deriving DecidableEq, Repr

/-- :487-498  `len -= redundancy_bytes` and the sanity check. -/
def redFinish (redundancy c2s bytes len tell3 : Int) (r3 : Run) : Red × Run :=
  if (len - bytes) * 8 < tell3 then
    ({ redundancy := 0, celt_to_silk := c2s, bytes := 0, len := 0, tell := tell3 }, r3)
  else
    ({ redundancy := redundancy, celt_to_silk := c2s, bytes := bytes, len := len - bytes, tell := tell3 }, r3)

/-- :481-486  `celt_to_silk` and `redundancy_bytes` once `redundancy` is known to be set. -/
def redTail (o : Oracle) (mode len redundancy tell1 : Int) (r1 : Run) : Red × Run :=
  if mode = MODE_HYBRID then
    redFinish redundancy (o.bit r1.k 1 tell1).1 ((o.uint r1.tick.k 256 (o.bit r1.k 1 tell1).2).1 + 2) len
      (o.uint r1.tick.k 256 (o.bit r1.k 1 tell1).2).2 r1.tick.tick
  else
    redFinish redundancy (o.bit r1.k 1 tell1).1 (len - ((o.bit r1.k 1 tell1).2 + 7) / 8) len (o.bit r1.k 1 tell1).2 r1.tick

/-- Redundancy signalling (:471-499).  Consumes up to three oracle calls. -/
def parseRedundancy (o : Oracle) (mode len tell : Int) (r : Run) : Red × Run :=
  if tell + 17 + (if mode = MODE_HYBRID then 20 else 0) ≤ 8 * len then
    if mode = MODE_HYBRID then
      -- :476  redundancy = ec_dec_bit_logp(&dec, 12)
      if (o.bit r.k 12 tell).1 ≠ 0 then redTail o mode len (o.bit r.k 12 tell).1 (o.bit r.k 12 tell).2 r.tick
      else ({ redundancy := 0, celt_to_silk := 0, bytes := 0, len := len, tell := (o.bit r.k 12 tell).2 }, r.tick)
    else redTail o mode len 1 tell r                                       -- :478  redundancy = 1
  else ({ redundancy := 0, celt_to_silk := 0, bytes := 0, len := len, tell := tell }, r)

/-- One `celt_decode_with_ec(_dred)` call: ask the oracle, log, return its value. -/
def celtCall (o : Oracle) (a : CeltArgs) (p : Ptr) (r : Run) : Int × Run :=
  let v := o.celt r.k a
  (v, (r.tick).push (.celt a p v))

/-- Inputs of the part of `opus_decode_frame` after the PLC-size logic (:354-679). -/
structure Body where
  data : Option Int     -- offset of the frame in the packet, `none` = NULL
  len : Int
  pcm : Ptr
  frame_size : Int      -- as clamped at :300 / :306
  audiosize : Int
  mode : Int
  bandwidth : Int
  fec : Int
  deriving Repr

/-- Sequencing of steps that may abort or hang. -/
def bindRun {α β : Type} (x : Out α × Run) (f : α → Run → Out β × Run) : Out β × Run :=
  match x with
  | (.ret a, r) => f a r
  | (.abort, r) => (.abort, r)
  | (.hang, r) => (.hang, r)

def silkBuf (st : DecState) : Ptr := { buf := .silk, off := 0, cap := F10 st * st.channels }

/-- DecControl set-up before the SILK calls (:408-428); `none` = the `celt_assert(0)` of :422. -/
def silkConfig (st : DecState) (b : Body) : Option DecState :=
  let ps := max 10 (cdiv (1000 * b.audiosize) st.Fs)                   -- :408
  if b.data.isSome then
    let nci := st.stream_channels
    if b.mode = MODE_SILK then
      if b.bandwidth = BW_NB then
        some { st with dc := { st.dc with payloadSize_ms := ps, nChannelsInternal := nci, internalSampleRate := 8000 } }
      else if b.bandwidth = BW_MB then
        some { st with dc := { st.dc with payloadSize_ms := ps, nChannelsInternal := nci, internalSampleRate := 12000 } }
      else if b.bandwidth = BW_WB then
        some { st with dc := { st.dc with payloadSize_ms := ps, nChannelsInternal := nci, internalSampleRate := 16000 } }
      else none
    else some { st with dc := { st.dc with payloadSize_ms := ps, nChannelsInternal := nci, internalSampleRate := 16000 } }
  else some { st with dc := { st.dc with payloadSize_ms := ps } }

/-- `lost_flag` (:440). -/
def silkLost (b : Body) : Int := if b.data.isNone then 1 else (if b.fec ≠ 0 then 2 else 0)

/-- SILK part of the frame (:388-468): returns `(0, ec_tell after the SILK payload)` or
    `(OPUS_INTERNAL_ERROR, _)`. -/
def silkStage (o : Oracle) (b : Body) (r : Run) : Out (Int × Int) × Run :=
  let st := r.st
  let tooSmall := b.audiosize < F10 st
  let r0 := if st.prev_mode = MODE_CELT then r.push .silkReset else r              -- :404-405
  match silkConfig st b with
  | none => (.abort, r0)
  | some st3 =>
    bindRun (silkLoop o (silkLost b) b.audiosize 0 (if tooSmall then silkBuf st else b.pcm) 1 (r0.setSt st3)) fun et r1 =>
      if et.1 ≠ 0 then (.ret et, r1)
      else if tooSmall then
        -- :465-467 OPUS_COPY(pcm, pcm_silk, frame_size*channels)
        (.ret (0, et.2), (r1.push (.acc 1 (silkBuf st) (b.audiosize * st.channels))).push (.acc 2 b.pcm (b.audiosize * st.channels)))
      else (.ret (0, et.2), r1)

/-- `switch(bandwidth)` (:518-542): `false` = `celt_assert(0)` of the default case. -/
def endbandOk (bandwidth : Int) : Bool :=
  bandwidth == 0 || bandwidth == BW_NB || bandwidth == BW_MB || bandwidth == BW_WB ||
  bandwidth == BW_SWB || bandwidth == BW_FB

def redBuf (st : DecState) (red : Red) : Ptr :=
  { buf := .red, off := 0, cap := if red.redundancy ≠ 0 then F5 st * st.channels else 1 }
def transBuf (st : DecState) : Ptr := { buf := .trans, off := 0, cap := F5 st * st.channels }

/-- Arguments of the two redundancy-frame CELT calls (:558, :607). -/
def redArgs (st : DecState) (b : Body) (red : Red) (site : Nat) : CeltArgs :=
  { fs := st.Fs, site, dataOff := b.data.map (· + red.len), avail := b.len - red.len, len := red.bytes,
    frame_size := F5 st, withDec := false, accum := 0, channels := st.channels }

/-- :550-561  5 ms redundant frame for CELT→SILK, decoded before the main frame. -/
def stepRedC2S (o : Oracle) (b : Body) (red : Red) (r : Run) : Run :=
  if red.redundancy ≠ 0 ∧ red.celt_to_silk ≠ 0 then (celtCall o (redArgs r.st b red 0) (redBuf r.st red) r).2 else r

/-- :566-593  the main CELT frame, or the hybrid→SILK fade-out silence frame. -/
def stepMainCelt (o : Oracle) (b : Body) (red : Red) (r : Run) : Int × Run :=
  let st := r.st
  let accum : Int := if b.mode ≠ MODE_CELT then 1 else 0
  if b.mode ≠ MODE_SILK then
    celtCall o { fs := st.Fs, site := 1, dataOff := if b.fec ≠ 0 then none else b.data, avail := b.len, len := red.len,
                 frame_size := min (F20 st) b.audiosize, withDec := true, accum := accum, channels := st.channels } b.pcm r
  else if st.prev_mode = MODE_HYBRID ∧ ¬(red.redundancy ≠ 0 ∧ red.celt_to_silk ≠ 0 ∧ st.prev_redundancy ≠ 0) then
    (0, (celtCall o { fs := st.Fs, site := 2, dataOff := none, avail := 2, len := 2, frame_size := F2_5 st,
                      withDec := false, accum := accum, channels := st.channels } b.pcm r).2)
  else (0, r)

/-- :602-611  5 ms redundant frame for SILK→CELT and its cross-fade into the end of the frame. -/
def stepRedS2C (o : Oracle) (b : Body) (red : Red) (r : Run) : Run :=
  let st := r.st
  if red.redundancy ≠ 0 ∧ red.celt_to_silk = 0 then
    let r1 := (celtCall o (redArgs st b red 3) (redBuf st red) r).2
    (r1.push (.acc 3 (b.pcm.add (st.channels * (b.audiosize - F2_5 st))) (F2_5 st * st.channels))).push
      (.acc 4 ((redBuf st red).add (st.channels * F2_5 st)) (F2_5 st * st.channels))
  else r

/-- :615-624  use of the CELT→SILK redundant frame at the start of the frame. -/
def stepRedCopy (b : Body) (red : Red) (r : Run) : Run :=
  let st := r.st
  if red.redundancy ≠ 0 ∧ red.celt_to_silk ≠ 0 ∧ (st.prev_mode ≠ MODE_SILK ∨ st.prev_redundancy ≠ 0) then
    (r.push (.acc 5 (redBuf st red) (2 * F2_5 st * st.channels))).push (.acc 6 b.pcm (2 * F2_5 st * st.channels))
  else r

/-- :625-644  cross-fade from the concealed transition audio. -/
def stepTransFade (b : Body) (transition : Bool) (r : Run) : Run :=
  let st := r.st
  if transition then
    if b.audiosize ≥ F5 st then
      (r.push (.acc 7 (transBuf st) (2 * F2_5 st * st.channels))).push (.acc 8 b.pcm (2 * F2_5 st * st.channels))
    else (r.push (.acc 9 (transBuf st) (F2_5 st * st.channels))).push (.acc 10 b.pcm (F2_5 st * st.channels))
  else r

/-- :646-660  decoder gain over the whole frame. -/
def stepGain (b : Body) (r : Run) : Run :=
  if r.st.decode_gain ≠ 0 then r.push (.acc 11 b.pcm (b.audiosize * r.st.channels)) else r

/-- :667-668 -/
def stepFinish (b : Body) (red : Red) (r : Run) : Run :=
  r.setSt { r.st with prev_mode := b.mode,
                      prev_redundancy := if red.redundancy ≠ 0 ∧ red.celt_to_silk = 0 then 1 else 0 }

/-- CELT part and output cross-fades (:544-679), after SILK and redundancy parsing. -/
def celtStage (o : Oracle) (b : Body) (red : Red) (transition : Bool) (r : Run) : Res' :=
  let r1 := stepRedC2S o b red r
  let m := stepMainCelt o b red r1
  let r3 := stepRedS2C o b red m.2
  let r4 := stepRedCopy b red r3
  let r5 := stepTransFade b transition r4
  let r6 := stepGain b r5
  let r7 := stepFinish b red r6
  (.ret (if m.1 < 0 then m.1 else b.audiosize), r7)

/-- :360-371  does this frame start with a mode transition that needs concealed audio? -/
def wantTransition (st : DecState) (b : Body) : Bool :=
  b.data.isSome && decide (st.prev_mode > 0) &&
    ((decide (b.mode = MODE_CELT) && decide (st.prev_mode ≠ MODE_CELT) && decide (st.prev_redundancy = 0))
      || (decide (b.mode ≠ MODE_CELT) && decide (st.prev_mode = MODE_CELT)))

/-- A recursive `opus_decode_frame` call made with the decoder gain saved, cleared and restored (:375-380 / :517-522,
    since 7e7e38ec): the gain is applied once, by the outer frame, to the cross-faded output. -/
def gain0Call (inner : Ptr → Int → Run → Res') (p : Ptr) (n : Int) (r : Run) : Res' :=
  let res := inner p n (r.setSt { r.st with decode_gain := 0 })
  (res.1, res.2.setSt { res.2.st with decode_gain := r.st.decode_gain })

/-- The inner concealment call for a transition (:373-381 / :515-523), run with `decode_gain = 0`; its return value is
    ignored. -/
def transCall (trans : Ptr → Int → Run → Res') (b : Body) (r : Run) : Out Unit × Run :=
  bindRun (gain0Call trans (transBuf r.st) (min (F5 r.st) b.audiosize) r) fun _ r' => (.ret (), r')

/-- Redundancy parse when applicable (:471-499), else "no redundancy". -/
def redStage (o : Oracle) (b : Body) (tell : Int) (r : Run) : Red × Run :=
  if b.fec = 0 ∧ b.mode ≠ MODE_CELT ∧ b.data.isSome then parseRedundancy o b.mode b.len tell r
  else ({ redundancy := 0, celt_to_silk := 0, bytes := 0, len := b.len, tell := tell }, r)

/-- `opus_decode_frame` from :354 on.  `trans pcm n` is the recursive call
    `opus_decode_frame(st, NULL, 0, pcm, n, 0)` used for mode transitions. -/
def frameBody (o : Oracle) (trans : Ptr → Int → Run → Res') (b : Body) (r : Run) : Res' :=
  let transition := wantTransition r.st b
  -- :373-377
  bindRun (if transition ∧ b.mode = MODE_CELT then transCall trans b r else (.ret (), r)) fun _ r =>
    -- :378-385
    if b.audiosize > b.frame_size then (.ret BAD_ARG, r)
    else
      -- :388-468
      bindRun (if b.mode ≠ MODE_CELT then silkStage o b r else (.ret (0, 1), r)) fun et r =>
        if et.1 ≠ 0 then (.ret et.1, r)
        else
          -- :471-507
          let rr := redStage o b et.2 r
          let transition := if rr.1.redundancy ≠ 0 then false else transition
          -- :511-515
          bindRun (if transition ∧ b.mode ≠ MODE_CELT then transCall trans b rr.2 else (.ret (), rr.2)) fun _ r =>
            -- :518-542
            if ¬ endbandOk b.bandwidth then (.abort, r)
            else celtStage o b rr.1 transition r

/-- The PLC chunk loop (:333-342). -/
def plcLoop (inner : Ptr → Int → Run → Res') (f20 ch frame_size : Int) : (audiosize : Int) → Ptr → Run → Res'
  | audiosize, pcm, r =>
    match inner pcm (min audiosize f20) r with
    | (.ret ret, r1) =>
      if ret < 0 then (.ret ret, r1)
      else if _h : ret = 0 then (.hang, r1)
      else
        if _h2 : audiosize - ret > 0 then plcLoop inner f20 ch frame_size (audiosize - ret) (pcm.add (ret * ch)) r1
        else (.ret frame_size, r1)
    | x => x
termination_by audiosize _ _ => audiosize.toNat
decreasing_by omega

/-- `opus_decode_frame` with `data = NULL` after the clamps of :300/:306: lines :314-352, then the body.
    `len` is the `len` argument (0 or 1: the C code sets `data = NULL` but keeps `len`, which
    later reaches `celt_decode_with_ec_dred`). -/
def nullAfterClamp (o : Oracle) (inner : Ptr → Int → Run → Res') (len : Int) (pcm : Ptr) (frame_size : Int) (r : Run) : Res' :=
  let st := r.st
  let audiosize := frame_size
  let mode := if st.prev_redundancy ≠ 0 then MODE_CELT else st.prev_mode
  if mode = 0 then
    -- :320-327
    (.ret audiosize, r.push (.acc 12 pcm (audiosize * st.channels)))
  else if audiosize > F20 st then
    plcLoop inner (F20 st) st.channels frame_size audiosize pcm r
  else
    let audiosize :=
      if audiosize < F20 st then
        if audiosize > F10 st then F10 st
        else if mode ≠ MODE_SILK ∧ audiosize > F5 st ∧ audiosize < F10 st then F5 st
        else audiosize
      else audiosize
    frameBody o (fun _ _ r => (.abort, r))
      { data := none, len, pcm, frame_size, audiosize, mode, bandwidth := 0, fec := 0 } r

/-- `opus_decode_frame(st, NULL, 0, pcm, frame_size, 0)` with the recursive call abstracted. -/
def nullFrameGen (o : Oracle) (inner : Ptr → Int → Run → Res') (pcm : Ptr) (frame_size : Int) (r : Run) : Res' :=
  let st := r.st
  if frame_size < F2_5 st then (.ret BUFFER_TOO_SMALL, r)
  else
    let fs1 := min frame_size (st.Fs / 25 * 3)
    let fs2 := min fs1 st.frame_size
    nullAfterClamp o inner 0 pcm fs2 r

/-- Innermost layer: called with at most 20 ms, so its own chunk loop is dead code. -/
def nullFrameLeaf (o : Oracle) : Ptr → Int → Run → Res' :=
  nullFrameGen o (fun _ _ r => (.abort, r))

/-- `opus_decode_frame(st, NULL, 0, pcm, frame_size, 0)`. -/
def nullFrame (o : Oracle) : Ptr → Int → Run → Res' :=
  nullFrameGen o (nullFrameLeaf o)

/-- `opus_decode_frame(st, data, len, pcm, frame_size, decode_fec)` (:257-679).
    `data` = offset of the frame in the packet. -/
def decodeFrame (o : Oracle) (data : Option Int) (len : Int) (pcm : Ptr) (frame_size fec : Int) (r : Run) : Res' :=
  let st := r.st
  if frame_size < F2_5 st then (.ret BUFFER_TOO_SMALL, r)
  else
    let fs1 := min frame_size (st.Fs / 25 * 3)
    if len ≤ 1 ∨ data.isNone then
      nullAfterClamp o (nullFrameLeaf o) len pcm (min fs1 st.frame_size) r
    else
      let r := r.push (.decInit (data.getD 0) len)
      frameBody o (nullFrame o)
        { data, len, pcm, frame_size := fs1, audiosize := st.frame_size, mode := st.mode,
          bandwidth := st.bandwidth, fec } r

/-! ### opus_decode_native -/

/-- The PLC loop of `opus_decode_native` (:728-740). -/
def nativePlcLoop (o : Oracle) (frame_size : Int) (pcm : Ptr) : (pcm_count : Int) → Run → Res'
  | pcm_count, r =>
    match decodeFrame o none 0 (pcm.add (pcm_count * r.st.channels)) (frame_size - pcm_count) 0 r with
    | (.ret ret, r1) =>
      if ret < 0 then (.ret ret, r1)
      else if _h : ret = 0 then (.hang, r1)
      else
        let pc := pcm_count + ret
        if _h2 : pc < frame_size then nativePlcLoop o frame_size pcm pc r1
        else if pc ≠ frame_size then (.abort, r1)                        -- celt_assert :736
        else (.ret pc, r1.setSt { r1.st with last_packet_duration := pc })
    | x => x
termination_by pcm_count _ => (frame_size - pcm_count).toNat
decreasing_by omega

/-- `opus_decode_native(st, NULL, 0, pcm, frame_size, 0, 0, NULL, soft_clip, NULL, 0)` — the PLC entry. -/
def nativePlc (o : Oracle) (pcm : Ptr) (frame_size : Int) (r : Run) : Res' :=
  if ¬ validateOk r.st then (.abort, r)
  else if cmod frame_size (r.st.Fs / 400) ≠ 0 then (.ret BAD_ARG, r)
  else nativePlcLoop o frame_size pcm 0 r

/-- The per-frame loop (:802-811).  `off` = offset of the current frame in the packet. -/
def frameLoop (o : Oracle) (pcm : Ptr) (frame_size pfs : Int) : List Nat → (off : Int) → (nb : Int) → Run → Res'
  | [], _, nb, r => (.ret nb, r)
  | sz :: rest, off, nb, r =>
    match decodeFrame o (some off) sz (pcm.add (nb * r.st.channels)) (frame_size - nb) 0 r with
    | (.ret ret, r1) =>
      if ret < 0 then (.ret ret, r1)
      else if ret ≠ pfs then (.abort, r1)                                  -- celt_assert :808
      else frameLoop o pcm frame_size pfs rest (off + sz) (nb + ret) r1
    | x => x

/-- State update of :776-779 / :796-799. -/
def setToc (st : DecState) (mode bandwidth pfs ch : Int) : DecState :=
  { st with mode := mode, bandwidth := bandwidth, frame_size := pfs, stream_channels := ch }

/-- :765-774  FEC: conceal everything except the last `packet_frame_size` samples (`gap` of them). -/
def fecGap (o : Oracle) (pcm : Ptr) (gap : Int) (r : Run) : Res' :=
  if gap ≠ 0 then
    match nativePlc o pcm gap r with
    | (.ret ret, r1) =>
      if ret < 0 then (.ret ret, r1.setSt { r1.st with last_packet_duration := r.st.last_packet_duration })  -- :768-772
      else if ret ≠ gap then (.abort, r1)                                  -- celt_assert :773
      else (.ret 0, r1)
    | x => x
  else (.ret 0, r)

/-- :756-790  the `decode_fec` branch once the packet has been parsed.  `off0`/`sz0` = offset and
    size of the first frame. -/
def nativeFec (o : Oracle) (pcm : Ptr) (frame_size pfs packet_mode packet_bandwidth packet_ch off0 sz0 : Int)
    (r : Run) : Res' :=
  if frame_size < pfs ∨ packet_mode = MODE_CELT ∨ r.st.mode = MODE_CELT then
    nativePlc o pcm frame_size r                                           -- :761-762
  else
    match fecGap o pcm (frame_size - pfs) r with
    | (.ret v, r1) =>
      if v < 0 then (.ret v, r1)
      else
        match decodeFrame o (some off0) sz0 (pcm.add (r.st.channels * (frame_size - pfs))) pfs 1
                (r1.setSt (setToc r1.st packet_mode packet_bandwidth pfs packet_ch)) with    -- :776-781
        | (.ret ret, r3) =>
          if ret < 0 then (.ret ret, r3)
          else (.ret frame_size, r3.setSt { r3.st with last_packet_duration := frame_size })  -- :787-788
        | x => x
    | x => x

/-- :796-821  regular decoding of all frames of a parsed packet that fits. -/
def nativeFrames (o : Oracle) (pcm : Ptr) (frame_size pfs packet_mode packet_bandwidth packet_ch : Int)
    (sizes : List Nat) (off0 : Int) (soft_clip : Bool) (r : Run) : Res' :=
  match frameLoop o pcm frame_size pfs sizes off0 0 (r.setSt (setToc r.st packet_mode packet_bandwidth pfs packet_ch)) with
  | (.ret nb, r2) =>
    if nb < 0 then (.ret nb, r2)
    else if soft_clip then
      (.ret nb, (r2.setSt { r2.st with last_packet_duration := nb }).push (.clip pcm nb r.st.channels))
    else (.ret nb, r2.setSt { r2.st with last_packet_duration := nb })
  | x => x

/-- What `opus_decode_native` hands back: return value and `*packet_offset`. -/
structure NativeOut where
  ret : Out Int
  packetOffset : Int
  run : Run

def NativeOut.mk' (x : Res') (po : Int) : NativeOut := { ret := x.1, packetOffset := po, run := x.2 }

/-- `opus_decode_native` (:681-822).  `data = none` is a NULL pointer; otherwise the first `len`
    bytes of `data` are the packet (`len ≤ data.length` is the caller's obligation). -/
def decodeNative (o : Oracle) (data : Option Bytes) (len : Int) (pcm : Ptr) (frame_size fec : Int)
    (sd : Bool) (soft_clip : Bool) (r : Run) : NativeOut :=
  if ¬ validateOk r.st then .mk' (.abort, r) 0
  else if fec < 0 ∨ fec > 1 then .mk' (.ret BAD_ARG, r) 0
  else if (fec ≠ 0 ∨ len = 0 ∨ data.isNone) ∧ cmod frame_size (r.st.Fs / 400) ≠ 0 then .mk' (.ret BAD_ARG, r) 0
  else if len = 0 ∨ data.isNone then .mk' (nativePlcLoop o frame_size pcm 0 r) 0
  else if len < 0 then .mk' (.ret BAD_ARG, r) 0
  else
    match parseImpl sd ((data.getD []).take len.toNat) with
    | .err e => .mk' (.ret e.code, r) 0
    | .oob => .mk' (.abort, r) 0        -- unreachable for len ≤ data.length (C06); never produced by the harness
    | .abort => .mk' (.abort, r) 0
    | .ok p =>
      -- :744-747 (all four read data[0], the TOC byte)
      if fec ≠ 0 then
        .mk' (nativeFec o pcm frame_size (samplesPerFrame (((data.getD []).take len.toNat).headD 0) r.st.Fs.toNat)
                (getMode (((data.getD []).take len.toNat).headD 0)) (getBandwidth (((data.getD []).take len.toNat).headD 0))
                (getNbChannels (((data.getD []).take len.toNat).headD 0)) p.payloadOffset (p.sizes.headD 0) r) p.packetOffset
      else if (p.count : Int) * (samplesPerFrame (((data.getD []).take len.toNat).headD 0) r.st.Fs.toNat : Int) > frame_size then
        .mk' (.ret BUFFER_TOO_SMALL, r) p.packetOffset                     -- :792-793
      else
        .mk' (nativeFrames o pcm frame_size (samplesPerFrame (((data.getD []).take len.toNat).headD 0) r.st.Fs.toNat)
                (getMode (((data.getD []).take len.toNat).headD 0)) (getBandwidth (((data.getD []).take len.toNat).headD 0))
                (getNbChannels (((data.getD []).take len.toNat).headD 0)) p.sizes p.payloadOffset soft_clip r) p.packetOffset

/-! ### the three format wrappers (:839-967, float build: opus_res = float) -/

inductive Fmt where
  | i16 | i24 | f32
  deriving DecidableEq, Repr

/-- `opus_decoder_get_nb_samples` on the first `len` bytes; errors as negative codes. -/
def nbSamples (bs : Bytes) (fs : Int) : Int :=
  match getNbSamples bs fs.toNat with
  | .ok n => n
  | .err e => e.code
  | _ => INVALID_PACKET

/-- `opus_decode` / `opus_decode24` / `opus_decode_float`.  The float entry point decodes straight
    into the caller's buffer (`frame_size*channels` samples); the 16/24-bit entry points decode
    into a stack buffer `out` of `frame_size*channels` floats (after the clamp of :852-859) and
    convert `ret*channels` samples into the caller's buffer. -/
def decodeApi (o : Oracle) (fmt : Fmt) (data : Option Bytes) (len : Int) (frame_size fec : Int) (r : Run) : NativeOut :=
  let st := r.st
  if frame_size ≤ 0 then { ret := .ret BAD_ARG, packetOffset := 0, run := r }
  else
    match fmt with
    | .f32 => decodeNative o data len { buf := .pcm, off := 0, cap := frame_size * st.channels } frame_size fec false false r
    | _ =>
      let clamp : Option Int :=
        if data.isSome ∧ len > 0 ∧ fec = 0 then
          let nb := nbSamples ((data.getD []).take len.toNat) st.Fs
          if nb > 0 then some (min frame_size nb) else none
        else some frame_size
      match clamp with
      | none => { ret := .ret INVALID_PACKET, packetOffset := 0, run := r }
      | some fsz =>
        if ¬ (st.channels = 1 ∨ st.channels = 2) then { ret := .abort, packetOffset := 0, run := r }   -- celt_assert :860
        else decodeNative o data len { buf := .pcm, off := 0, cap := fsz * st.channels } fsz fec false (fmt = .i16) r

/-! ### multistream (opus_multistream_decoder.c) -/

/-- `opus_multistream_packet_validate` (:149-176) on `bs` (= the first `len` bytes). -/
def msValidate (fs : Int) : (streams : Nat) → (first : Bool) → Bytes → (samples : Int) → Int
  | 0, _, _, samples => samples
  | s + 1, first, bs, samples =>
    if bs.length = 0 then INVALID_PACKET
    else
      match parseImpl (s ≠ 0) bs with
      | .ok p =>
        let tmp := nbSamples (bs.take p.packetOffset) fs
        if ¬ first ∧ samples ≠ tmp then INVALID_PACKET
        else msValidate fs s false (bs.drop p.packetOffset) tmp
      | .err e => e.code
      | _ => INVALID_PACKET

/-- Answers of the wrapped `opus_decode_native` calls of one multistream decode: (ret, packet_offset). -/
abbrev NativeOracle := Nat → Int × Int

/-- One recorded per-stream call: stream index, `len` passed, frame_size passed, self_delimited. -/
structure MsCall where
  s : Nat
  len : Int
  frame_size : Int
  sd : Bool
  deriving DecidableEq, Repr

/-- Per-stream loop (:238-295) with `opus_decode_native` as an oracle. -/
def msLoop (no : NativeOracle) (nb_streams : Nat) (do_plc : Bool) : (remaining : Nat) → (len frame_size : Int) → List MsCall → Int × List MsCall
  | 0, _, frame_size, calls => (frame_size, calls)
  | rem + 1, len, frame_size, calls =>
    let s := nb_streams - (rem + 1)
    if ¬ do_plc ∧ len ≤ 0 then (INTERNAL_ERROR, calls)                   -- :247-251
    else
      let (ret, po) := no s
      let calls := calls ++ [{ s, len, frame_size, sd := decide (s ≠ nb_streams - 1) }]
      let len := if do_plc then len else len - po
      if ret ≤ 0 then (ret, calls)
      else msLoop no nb_streams do_plc rem len ret calls

/-- `opus_multistream_decode_native` (:178-307): return value, per-stream calls and the size of `buf`. -/
def msDecode (no : NativeOracle) (Fs : Int) (nb_streams : Nat) (bs : Bytes) (len frame_size : Int) : Int × List MsCall × Int :=
  if frame_size ≤ 0 then (BAD_ARG, [], 0)
  else
    let fsz := min frame_size (Fs / 25 * 3)
    let bufCap := 2 * fsz
    let do_plc := decide (len = 0)
    if len < 0 then (BAD_ARG, [], bufCap)
    else if ¬ do_plc ∧ len < 2 * (nb_streams : Int) - 1 then (INVALID_PACKET, [], bufCap)
    else
      let v : Int := if do_plc then 0 else msValidate Fs nb_streams true (bs.take len.toNat) 0
      if ¬ do_plc ∧ v < 0 then (v, [], bufCap)
      else if ¬ do_plc ∧ v > fsz then (BUFFER_TOO_SMALL, [], bufCap)
      else
        let (ret, calls) := msLoop no nb_streams do_plc nb_streams len fsz []
        (ret, calls, bufCap)

end Opus.DecSkel
