import OpusModel.Basic
import OpusModel.SilkParams.Fix
import OpusModel.Gen.SilkStereoTabs
/-
  OpusModel.SilkStereo — property C18, slice Stereo: the SILK mid/side predictor side information, integer code
  on both sides.

  C sources: silk/stereo_quant_pred.c:35-73 (silk_stereo_quant_pred), silk/stereo_encode_pred.c:35-51
  (silk_stereo_encode_pred), :54-61 (silk_stereo_encode_mid_only), silk/stereo_decode_pred.c:35-63
  (silk_stereo_decode_pred), :66-73 (silk_stereo_decode_mid_only); tables silk/tables_other.c:42-53, regenerated into
  OpusModel/Gen/SilkStereoTabs.lean.

  Conventions (those of OpusModel/SilkParams/Fix.lean): `opus_int32` values are unbounded `Int`s, the explicit
  narrowings of the macros (`silk_SMULWB`: 64-bit product cast to 32 bits, `(opus_int16)` casts of `silk_SMLABB`,
  stores into `opus_int8 ix[2][3]`) are `wrap32`/`wrap16`/`wrap8`.  The one plain `int` subtraction whose result
  can leave the 32-bit range for an `opus_int32` argument — `pred_Q13[ n ] - lvl_Q13` inside `silk_abs`
  (stereo_quant_pred.c:54) — is modelled with an explicit *undefined-behaviour outcome* (`none`): signed overflow of
  the difference, or `-(a)` of `silk_int32_MIN`.
-/
namespace Opus.SilkStereo
open Opus Opus.SilkParams

/-- `silk_stereo_pred_quant_Q13[ STEREO_QUANT_TAB_SIZE ]` (tables_other.c:42). -/
def tab : List Int := Opus.Gen.SilkStereoTabs.predQuantQ13
/-- `STEREO_QUANT_SUB_STEPS` (define.h:81). -/
def subSteps : Nat := Opus.Gen.SilkStereoTabs.quantSubSteps
/-- `STEREO_QUANT_TAB_SIZE` (define.h:80). -/
def tabSize : Nat := Opus.Gen.SilkStereoTabs.quantTabSize
/-- `SILK_FIX_CONST( 0.5 / STEREO_QUANT_SUB_STEPS, 16 )`. -/
def halfSubStepQ16 : Int := Opus.Gen.SilkStereoTabs.halfSubStepQ16
def int32Max : Int := Opus.Gen.SilkStereoTabs.int32Max

/-- `silk_SMLABB(a, b, c)` = `a + (opus_int32)(opus_int16)b * (opus_int32)(opus_int16)c` (macros.h:73). -/
def smlabb (a b c : Int) : Int := a + wrap16 b * wrap16 c

/-- `low_Q13 = silk_stereo_pred_quant_Q13[ i ]` (stereo_quant_pred.c:48, stereo_decode_pred.c:55); `i` is in
    range at every use (`i ≤ 14`, see `decodeOne` for the guarded variant). -/
def low (i : Nat) : Int := tab.getD i 0

/-- `step_Q13 = silk_SMULWB( tab[ i + 1 ] - low_Q13, SILK_FIX_CONST( 0.5 / STEREO_QUANT_SUB_STEPS, 16 ) )`
    (stereo_quant_pred.c:49-50, stereo_decode_pred.c:56-57). -/
def step (i : Nat) : Int := smulwb (low (i + 1) - low i) halfSubStepQ16

/-- `lvl_Q13 = silk_SMLABB( low_Q13, step_Q13, 2 * j + 1 )` (stereo_quant_pred.c:52, stereo_decode_pred.c:58). -/
def level (i j : Nat) : Int := smlabb (low i) (step i) (2 * (j : Int) + 1)

/-- The order in which the two nested loops `for i < STEREO_QUANT_TAB_SIZE - 1`, `for j < STEREO_QUANT_SUB_STEPS`
    (stereo_quant_pred.c:47-51) visit the pairs `(i, j)`. -/
def visitOrder : List (Nat × Nat) :=
  (List.range (tabSize - 1)).flatMap fun i => (List.range subSteps).map fun j => (i, j)

/-- Search state of one predictor: `err_min_Q13`, `quant_pred_Q13`, `ix[ n ][ 0 ]`, `ix[ n ][ 1 ]`. -/
structure QSt where
  errMin : Int
  q : Int
  i0 : Int
  i1 : Int
  deriving Repr, DecidableEq, Inhabited

/-- The brute-force search (stereo_quant_pred.c:47-66): the levels are visited in `visitOrder`; a level that improves
    on `err_min_Q13` is recorded (:55-59), the first one that does not leaves BOTH loops (`goto done`, :60-63).
    `none`: `pred_Q13[ n ] - lvl_Q13` overflows `opus_int32`, or `silk_abs` negates `silk_int32_MIN` (undefined). -/
def scan (pred : Int) : List (Nat × Nat) → QSt → Option QSt
  | [], st => some st
  | (i, j) :: rest, st =>
    let lvl := level i j
    let d := pred - lvl
    if d < -2147483647 ∨ d > 2147483647 then none
    else
      let err := sabs d
      if err < st.errMin then scan pred rest { errMin := err, q := lvl, i0 := wrap8 i, i1 := wrap8 j }
      else some st

/-- Result for one predictor: quantised value and `ix[ n ][ 0..2 ]`. -/
structure QOne where
  q : Int
  ix0 : Int
  ix1 : Int
  ix2 : Int
  deriving Repr, DecidableEq, Inhabited

/-- One round of the `n` loop (stereo_quant_pred.c:44-70).  `qIn` is the value `quant_pred_Q13` has on entry (0 for
    `n = 0`, the first predictor's level for `n = 1`), `a`, `b` the values `ix[ n ][ 0 ]`, `ix[ n ][ 1 ]` hold on entry
    (they stay if the very first level does not improve on `silk_int32_MAX`).
    :67 `ix[n][2] = silk_DIV32_16( ix[n][0], 3 )` (C division truncates), :68 `ix[n][0] -= ix[n][2] * 3`. -/
def quantOne (pred qIn a b : Int) : Option QOne :=
  match scan pred visitOrder { errMin := int32Max, q := qIn, i0 := a, i1 := b } with
  | none => none
  | some st =>
    let ix2 := wrap8 (Int.tdiv st.i0 3)
    some { q := st.q, ix0 := wrap8 (st.i0 - ix2 * 3), ix1 := st.i1, ix2 := ix2 }

/-- Output of `silk_stereo_quant_pred`: `pred_Q13[0..1]` and `ix[2][3]`. -/
structure QOut where
  pred0 : Int
  pred1 : Int
  ix : List Int      -- ix[0][0], ix[0][1], ix[0][2], ix[1][0], ix[1][1], ix[1][2]
  deriving Repr, DecidableEq, Inhabited

/-- `silk_stereo_quant_pred` (stereo_quant_pred.c:35-73).  `ixIn` = the six entries of `ix` on entry (only
    `[0][0]`, `[0][1]`, `[1][0]`, `[1][1]` can be read).  :72 `pred_Q13[ 0 ] -= pred_Q13[ 1 ]`. -/
def quantPred (p0 p1 : Int) (ixIn : List Int) : Option QOut :=
  match quantOne p0 0 (ixIn.getD 0 0) (ixIn.getD 1 0) with
  | none => none
  | some r0 =>
    match quantOne p1 r0.q (ixIn.getD 3 0) (ixIn.getD 4 0) with
    | none => none
    | some r1 =>
      some { pred0 := r0.q - r1.q, pred1 := r1.q, ix := [r0.ix0, r0.ix1, r0.ix2, r1.ix0, r1.ix1, r1.ix2] }

/-- The symbols `silk_stereo_encode_pred` (stereo_encode_pred.c:35-51) hands to `ec_enc_icdf`, in order, each with the
    length of its iCDF table; `abort` when a `celt_assert` (:43, :46, :47) fires.  (The asserts bound from above only;
    a negative symbol would index the table at a negative offset.) -/
def encodeSyms (ix : List Int) : Res (List (Int × Nat)) :=
  let g := fun k => ix.getD k 0
  let n := 5 * g 2 + g 5
  if ¬ n < 25 then .abort
  else if ¬ g 0 < 3 then .abort
  else if ¬ g 1 < (subSteps : Int) then .abort
  else if ¬ g 3 < 3 then .abort
  else if ¬ g 4 < (subSteps : Int) then .abort
  else .ok [(n, Opus.Gen.SilkStereoTabs.predJointIcdf.length), (g 0, Opus.Gen.SilkStereoTabs.uniform3Icdf.length),
            (g 1, Opus.Gen.SilkStereoTabs.uniform5Icdf.length), (g 3, Opus.Gen.SilkStereoTabs.uniform3Icdf.length),
            (g 4, Opus.Gen.SilkStereoTabs.uniform5Icdf.length)]

/-- Dequantisation of one predictor (stereo_decode_pred.c:54-58) from `ix[n][0]` (as decoded), `ix[n][1]`, `ix[n][2]`:
    `ix[n][0] += 3 * ix[n][2]`, two table reads (guarded: `oob` outside `silk_stereo_pred_quant_Q13`). -/
def decodeOne (a b c : Int) : Res Int :=
  let i := a + 3 * c
  match getI tab i, getI tab (i + 1) with
  | .ok lo, .ok hi =>
    let st := smulwb (hi - lo) halfSubStepQ16
    .ok (smlabb lo st (2 * b + 1))
  | _, _ => .oob

/-- `silk_stereo_decode_pred` (stereo_decode_pred.c:35-63) after the five `ec_dec_icdf` calls: joint symbol `n`,
    `ix[0][0] = a0`, `ix[0][1] = b0`, `ix[1][0] = a1`, `ix[1][1] = b1`.
    :45 `ix[0][2] = silk_DIV32_16( n, 5 )`, :46 `ix[1][2] = n - 5 * ix[0][2]`, :62 `pred_Q13[0] -= pred_Q13[1]`. -/
def decodePred (n a0 b0 a1 b1 : Int) : Res (Int × Int) :=
  let c0 := Int.tdiv n 5
  let c1 := n - 5 * c0
  match decodeOne a0 b0 c0, decodeOne a1 b1 c1 with
  | .ok p0, .ok p1 => .ok (p0 - p1, p1)
  | _, _ => .oob

/-- The decoder applied to the index array the encoder produced: the joint symbol is `5 * ix[0][2] + ix[1][2]`
    (stereo_encode_pred.c:42). -/
def decodeOfIx (ix : List Int) : Res (Int × Int) :=
  let g := fun k => ix.getD k 0
  decodePred (5 * g 2 + g 5) (g 0) (g 1) (g 3) (g 4)

/-- All 75 levels in visiting order. -/
def levels : List Int := visitOrder.map fun p => level p.1 p.2

end Opus.SilkStereo
