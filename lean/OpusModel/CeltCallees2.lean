import OpusModel.Gen.CeltFft
/-
  OpusModel.CeltCallees2 — index models of the three remaining routines celt_decoder.c calls on its audio buffers (C01,
  index-safety bridge, fourth part): `clt_mdct_backward_c` with the FFT interior (`opus_fft_impl`, `kf_bfly2/3/4/5`),
  `denormalise_bands` and `pitch_search` (with `find_best_pitch`, `celt_pitch_xcorr_c`, `xcorr_kernel_c`,
  `celt_inner_prod_c`).  Same conventions as `OpusModel.CeltCallees`: WHICH element of WHICH array each loop of the C
  reference implementation touches, loop by loop (a hand transcription of the index expressions, file:line cited; values
  are not modelled).  Data-dependent indices are parameters: the bit-reversal entries and FFT factors come from the
  regenerated tables (`Gen.CeltFft`), `find_best_pitch`'s results are arbitrary integers the caller of the model chooses.
  `OpusProofs.CeltCallees2*` prove that every hit lies inside the extent contract the bridge assumes for the routine
  (`Opus.CeltIdx.Call.accs`), inside the mode's tables and inside the local / ALLOCed arrays; the tie (harness/c01_celtcallees2*.c,
  driver op `decskel ext2 …`) compares the extents of these lists with the extents an instrumented build of the C code records.

  C sources (tree at b1d58384): celt/mdct.c:267-371 clt_mdct_backward_c; celt/kiss_fft.c:52-106 kf_bfly2, :108-175
  kf_bfly4, :180-235 kf_bfly3, :239-312 kf_bfly5, :559-609 opus_fft_impl; celt/bands.c:209-280 denormalise_bands;
  celt/pitch.c:45-103 find_best_pitch, :225-300 celt_pitch_xcorr_c, :302-401 pitch_search; celt/pitch.h:65-129
  xcorr_kernel_c, :159-167 celt_inner_prod_c.  Float build, not CUSTOM_MODES, not FIXED_POINT.
-/
namespace Opus.CeltCallees2
open Opus.Gen.CeltFft

/-- Arrays of the three routines: pointer arguments, tables reached through the mode / FFT state, local arrays. -/
inductive CArr
  -- clt_mdct_backward_c: in, out, window, l->trig, l->kfft[shift]->bitrev; opus_fft_impl: fout (complex elements),
  -- st->twiddles (complex elements), st->factors, local fstride[MAXFACTORS]
  | inp | out | win | trig | bitrev | fout | tw | factors | fstride
  -- denormalise_bands: X, freq, bandLogE, m->eBands, eMeans
  | X | freq | bandE | eBands | eMeans
  -- pitch_search: x_lp, y, locals x_lp4, y_lp4, xcorr, best_pitch[2]
  | xlp | y | xlp4 | ylp4 | xcorr | bestp
  deriving DecidableEq, Repr

/-- One element touched. -/
structure Hit where
  arr : CArr
  idx : Int
  deriving Repr

/-- `for (i = lo; i < hi; i++) body(i)`. -/
def loop (lo hi : Int) (body : Int → List Hit) : List Hit :=
  (List.range (hi - lo).toNat).flatMap fun (t : Nat) => body (lo + (t : Int))

/-! ## opus_fft_impl and the butterflies (celt/kiss_fft.c) -/

/-- The part of `kiss_fft_state` indices depend on (kiss_fft.h:85-97). -/
structure FftState where
  nfft : Int
  shift : Int
  factors : List Int
  bitrev : List Int
  deriving Repr

/-- `mode->mdct.kfft[s]`, `s = 0 .. 3` (static_modes_float.h fft_state48000_960_0 .. _3, regenerated). -/
def kfft (s : Int) : FftState :=
  if s = 0 then ⟨nfft0, shift0, factors0, bitrev0⟩
  else if s = 1 then ⟨nfft1, shift1, factors1, bitrev1⟩
  else if s = 2 then ⟨nfft2, shift2, factors2, bitrev2⟩
  else ⟨nfft3, shift3, factors3, bitrev3⟩

def fac (st : FftState) (i : Int) : Int := st.factors.getD i.toNat 0

/-- kiss_fft.c:571-577  `do { p = factors[2L]; m = factors[2L+1]; fstride[L+1] = fstride[L]*p; L++; } while (m != 1);`
    Returns the hits and `fstride[0 .. L]`.  The C loop has no bound of its own; the model runs it for at most `fuel`
    iterations, `fuel = MAXFACTORS + 1` below: a table without `m = 1` among its `MAXFACTORS` pairs makes iteration
    `MAXFACTORS + 1` read `factors[2*MAXFACTORS]` and write `fstride[MAXFACTORS + 1]`, both out of range and both listed,
    so the in-bounds theorem fails for such a table instead of holding vacuously. -/
def walk (st : FftState) : Nat → Int → Int → List Hit × List Int
  | 0, _, fs => ([], [fs])
  | fuel + 1, L, fs =>
    let p := fac st (2 * L)
    let m := fac st (2 * L + 1)
    let h : List Hit := [⟨.factors, 2 * L⟩, ⟨.factors, 2 * L + 1⟩, ⟨.fstride, L⟩, ⟨.fstride, L + 1⟩]
    if m = 1 then (h, [fs, fs * p])
    else let r := walk st fuel (L + 1) (fs * p); (h ++ r.1, fs :: r.2)

/-- One butterfly stage `i` of kiss_fft.c:579-607: radix `p = factors[2i]`, `m = factors[2i+1]` (the C variable `m`:
    `factors[2L-1]` first, then the previous `m2`), `fs = fstride[i]` (the number of butterfly groups `N`),
    `mm = m2 = factors[2i-1]` resp. 1 for `i = 0` (the distance of the groups), `fsS = fstride[i] << shift` (the
    twiddle stride). -/
structure Stage where
  i : Int
  p : Int
  m : Int
  fs : Int
  mm : Int
  fsS : Int
  deriving Repr, DecidableEq

/-- kiss_fft.c:52-106 kf_bfly2(Fout, m, N) (not CUSTOM_MODES): `celt_assert(m==4)`; `N` groups of 8 contiguous
    elements, `Fout2 = Fout + 4`, `Fout += 8`. -/
def bfly2 (N : Int) : List Hit :=
  loop 0 N fun i =>
    [⟨.fout, 8 * i + 4⟩, ⟨.fout, 8 * i⟩, ⟨.fout, 8 * i + 5⟩, ⟨.fout, 8 * i + 1⟩,
     ⟨.fout, 8 * i + 6⟩, ⟨.fout, 8 * i + 2⟩, ⟨.fout, 8 * i + 7⟩, ⟨.fout, 8 * i + 3⟩]

/-- kiss_fft.c:108-175 kf_bfly4(Fout, fstride, st, m, N, mm). -/
def bfly4 (fsS m N mm : Int) : List Hit :=
  if m = 1 then
    loop 0 N fun i => [⟨.fout, 4 * i⟩, ⟨.fout, 4 * i + 2⟩, ⟨.fout, 4 * i + 1⟩, ⟨.fout, 4 * i + 3⟩]        -- :122-138
  else
    loop 0 N fun i => loop 0 m fun j =>                                                                 -- :146-173
      -- Fout = Fout_beg + i*mm + j;  tw1 = j*fstride, tw2 = j*(2*fstride), tw3 = j*(3*fstride)
      [⟨.fout, i * mm + j + m⟩, ⟨.tw, j * fsS⟩, ⟨.fout, i * mm + j + 2 * m⟩, ⟨.tw, 2 * (j * fsS)⟩,
       ⟨.fout, i * mm + j + 3 * m⟩, ⟨.tw, 3 * (j * fsS)⟩, ⟨.fout, i * mm + j⟩]

/-- kiss_fft.c:180-235 kf_bfly3: `epi3 = st->twiddles[fstride*m]` (float build), then `N` groups, `k = m; do … while
    (--k)` — `m` iterations for `m ≥ 1` (`m = 0` would wrap the `size_t`; excluded by `StageOk`). -/
def bfly3 (fsS m N mm : Int) : List Hit :=
  ⟨.tw, m * fsS⟩ ::                                                                                     -- :201
  loop 0 N fun i => loop 0 m fun j =>                                                                   -- :203-234
    [⟨.fout, i * mm + j + m⟩, ⟨.tw, j * fsS⟩, ⟨.fout, i * mm + j + 2 * m⟩, ⟨.tw, 2 * (j * fsS)⟩, ⟨.fout, i * mm + j⟩]

/-- kiss_fft.c:239-312 kf_bfly5: `ya = st->twiddles[fstride*m]`, `yb = st->twiddles[fstride*2*m]` (float build), then
    `Fout0 .. Fout4 = Fout_beg + i*mm + {0, m, 2m, 3m, 4m}`, `tw[u*fstride]`, `tw[2*u*fstride]`, `tw[3*u*fstride]`,
    `tw[4*u*fstride]`. -/
def bfly5 (fsS m N mm : Int) : List Hit :=
  [⟨.tw, m * fsS⟩, ⟨.tw, 2 * (m * fsS)⟩] ++                                                             -- :261-262
  loop 0 N fun i => loop 0 m fun u =>                                                                   -- :266-311
    [⟨.fout, i * mm + u⟩, ⟨.fout, i * mm + u + m⟩, ⟨.tw, u * fsS⟩, ⟨.fout, i * mm + u + 2 * m⟩, ⟨.tw, 2 * (u * fsS)⟩,
     ⟨.fout, i * mm + u + 3 * m⟩, ⟨.tw, 3 * (u * fsS)⟩, ⟨.fout, i * mm + u + 4 * m⟩, ⟨.tw, 4 * (u * fsS)⟩]

/-- One iteration of the stage loop :579-607: `m2 = factors[2i-1]` (`i ≠ 0`), `switch (factors[2i])`, `fstride[i]`
    (read once or twice), the butterfly.  Radices other than 2, 3, 4, 5 fall through the `switch`. -/
def stageHits (s : Stage) : List Hit :=
  (if s.i ≠ 0 then [⟨.factors, 2 * s.i - 1⟩] else []) ++ [⟨.factors, 2 * s.i⟩, ⟨.fstride, s.i⟩] ++
  (if s.p = 2 then bfly2 s.fs
   else if s.p = 4 then bfly4 s.fsS s.m s.fs s.mm
   else if s.p = 3 then bfly3 s.fsS s.m s.fs s.mm
   else if s.p = 5 then bfly5 s.fsS s.m s.fs s.mm
   else [])

/-- `shift = st->shift>0 ? st->shift : 0` (:569). -/
def effShift (st : FftState) : Nat := if st.shift > 0 then st.shift.toNat else 0

/-- The stages in execution order (`i = L-1` down to 0), from the factor walk. -/
def stagesOf (st : FftState) : List Stage :=
  let fsl := (walk st (MAXFACTORS.toNat + 1) 0 1).2
  let L := fsl.length - 1
  (List.range L).reverse.map fun (i : Nat) =>
    { i := i, p := fac st (2 * i), m := fac st (2 * i + 1), fs := fsl.getD i 0,
      mm := if i ≠ 0 then fac st (2 * i - 1) else 1, fsS := fsl.getD i 0 * 2 ^ effShift st }

/-- `opus_fft_impl(st, fout)` (kiss_fft.c:559-609): the factor walk, `m = factors[2L-1]` (:578), the stages. -/
def fftImplHits (st : FftState) : List Hit :=
  let w := walk st (MAXFACTORS.toNat + 1) 0 1
  w.1 ++ [⟨.factors, 2 * ((w.2.length : Int) - 1) - 1⟩] ++ (stagesOf st).flatMap stageHits

/-! ## clt_mdct_backward_c (celt/mdct.c:267-371) -/

/-- `N` after `for (i=0;i<shift;i++) N >>= 1` (:277-281), and the offset `trig` has advanced by. -/
def mdctNs (shift : Int) : Int := mdctN / 2 ^ shift.toNat
def trigOff : Nat → Int
  | 0 => 0
  | s + 1 => trigOff s + mdctN / 2 ^ (s + 1)

/-- The body of `clt_mdct_backward_c` once `N` (after the shifts), the offset `t0` of `trig` and the FFT state
    `st = l->kfft[shift]` are known.  `fout` hits of the FFT are elements of `(kiss_fft_cpx*)(out+(overlap>>1))`: complex
    element `k` is `out[overlap/2 + 2k]`, `out[overlap/2 + 2k + 1]`. -/
def mdctHitsAt (N t0 : Int) (st : FftState) (stride ov : Int) : List Hit :=
  -- :289-311 pre-rotate (N2 = N/2, N4 = N/4)
  (loop 0 (N / 4) fun i =>
    [⟨.bitrev, i⟩, ⟨.inp, stride * (2 * i)⟩, ⟨.inp, stride * (N / 2 - 1) - stride * (2 * i)⟩, ⟨.trig, t0 + i⟩, ⟨.trig, t0 + N / 4 + i⟩,
     ⟨.out, ov / 2 + 2 * st.bitrev.getD i.toNat 0 + 1⟩, ⟨.out, ov / 2 + 2 * st.bitrev.getD i.toNat 0⟩]) ++
  -- :313 opus_fft_impl(l->kfft[shift], (kiss_fft_cpx*)(out+(overlap>>1)))
  ((fftImplHits st).flatMap fun h =>
    match h.arr with
    | .fout => [⟨.out, ov / 2 + 2 * h.idx⟩, ⟨.out, ov / 2 + 2 * h.idx + 1⟩]
    | _ => [h]) ++
  -- :317-351 post-rotate: yp0 = out+ov/2+2i, yp1 = out+ov/2+N2-2-2i
  (loop 0 ((N / 4 + 1) / 2) fun i =>
    [⟨.out, ov / 2 + 2 * i + 1⟩, ⟨.out, ov / 2 + 2 * i⟩, ⟨.trig, t0 + i⟩, ⟨.trig, t0 + N / 4 + i⟩,
     ⟨.out, ov / 2 + N / 2 - 2 - 2 * i + 1⟩, ⟨.out, ov / 2 + N / 2 - 2 - 2 * i⟩,
     ⟨.trig, t0 + (N / 4 - i - 1)⟩, ⟨.trig, t0 + (N / 2 - i - 1)⟩]) ++
  -- :354-370 TDAC mirror: xp1 = out+overlap-1-i, yp1 = out+i, wp1 = window+i, wp2 = window+overlap-1-i
  (loop 0 (ov / 2) fun i => [⟨.out, ov - 1 - i⟩, ⟨.out, i⟩, ⟨.win, ov - 1 - i⟩, ⟨.win, i⟩])

/-- `clt_mdct_backward_c(l, in, out, window, overlap, shift, stride, arch)` on the static mode's `mdct_lookup`. -/
def mdctHits (shift stride ov : Int) : List Hit :=
  mdctHitsAt (mdctNs shift) (trigOff shift.toNat) (kfft shift) stride ov

/-! ## denormalise_bands (celt/bands.c:209-280) -/

def eB (i : Int) : Int := eBands.getD i.toNat 0

/-- bands.c:231-277, bands `i, i+1, …` (`n` of them): `j = M*eBands[i]; band_end = M*eBands[i+1]; bandLogE[i];
    eMeans[i]; do { *f++ = *x * g; x++; } while (++j<band_end);` — at least one element per band, whatever the table
    says.  `pos = f - freq = x - X` (both pointers start at `M*eBands[start]` and advance together), carried from band
    to band as the C code does (it is NOT recomputed from `eBands`). -/
def denormBands (M : Int) : Nat → Int → Int → List Hit
  | 0, _, _ => []
  | n + 1, i, pos =>
    let cnt := max (M * eB (i + 1) - M * eB i) 1
    [⟨.eBands, i⟩, ⟨.eBands, i + 1⟩, ⟨.bandE, i⟩, ⟨.eMeans, i⟩] ++ (loop 0 cnt fun t => [⟨.X, pos + t⟩, ⟨.freq, pos + t⟩]) ++
      denormBands M n (i + 1) (pos + cnt)

/-- `denormalise_bands(m, X, freq, bandLogE, start, end, M, downsample, silence)`, float build.  `freq` is written
    through the running pointer `f`: first `M*eBands[start]` zeros (`eBands[start]` is re-read by the loop condition),
    then band by band through `f` / `x` (`denormBands`, the position carried, not recomputed), finally
    `OPUS_CLEAR(&freq[bound], N-bound)` (a `memset` of `N-bound` elements: `bound > N` would be a negative size, listed
    as the hit `freq[N]` so that the in-bounds theorem fails instead of holding vacuously). -/
def denormHits (start end_ M ds : Int) (silence : Bool) : List Hit :=
  let N := M * shortMdctSize                                                                 -- :218
  let bound0 := M * eB end_                                                                   -- :219
  let bound1 := if ds ≠ 1 then min bound0 (N / ds) else bound0                                -- :220-221
  let bound := if silence then 0 else bound1                                                  -- :222-226
  let st := if silence then 0 else start
  let en := if silence then 0 else end_
  [⟨.eBands, end_⟩, ⟨.eBands, st⟩] ++                                                         -- :219, :228
  (loop 0 (M * eB st) fun i => [⟨.eBands, st⟩, ⟨.freq, i⟩]) ++ [⟨.eBands, st⟩] ++             -- :229-230
  denormBands M (en - st).toNat st (M * eB st) ++                                             -- :231-277
  (if bound > N then [⟨.freq, N⟩] else loop bound N fun i => [⟨.freq, i⟩])                    -- :279

/-! ## pitch_search (celt/pitch.c:302-401) -/

/-- `xcorr_kernel_c(x, y, sum, len)` (pitch.h:65-129), as in `OpusModel.CeltCallees.xcorrKernel`. -/
def xcorrKernel (xa : CArr) (xo : Int) (ya : CArr) (yo : Int) (len : Int) : List Hit :=
  [⟨ya, yo⟩, ⟨ya, yo + 1⟩, ⟨ya, yo + 2⟩] ++
  (loop 0 ((len - 3 + 3) / 4) fun t =>
    [⟨xa, xo + 4 * t⟩, ⟨ya, yo + 4 * t + 3⟩, ⟨xa, xo + 4 * t + 1⟩, ⟨ya, yo + 4 * t + 4⟩,
     ⟨xa, xo + 4 * t + 2⟩, ⟨ya, yo + 4 * t + 5⟩, ⟨xa, xo + 4 * t + 3⟩, ⟨ya, yo + 4 * t + 6⟩]) ++
  (loop (4 * ((len - 3 + 3) / 4)) len fun j => [⟨xa, xo + j⟩, ⟨ya, yo + j + 3⟩])

/-- `celt_inner_prod_c(x, y, N)` (pitch.h:159-167). -/
def innerProd (xa : CArr) (xo : Int) (ya : CArr) (yo : Int) (n : Int) : List Hit :=
  loop 0 n fun i => [⟨xa, xo + i⟩, ⟨ya, yo + i⟩]

/-- `celt_pitch_xcorr_c(_x, _y, xcorr, len, max_pitch)` (pitch.c:225-300), unrolled version. -/
def pitchXcorr (xa ya ca : CArr) (len maxPitch : Int) : List Hit :=
  (loop 0 (maxPitch / 4) fun t =>                                                               -- :262-285  i = 4t < max_pitch-3
    xcorrKernel xa 0 ya (4 * t) len ++ [⟨ca, 4 * t⟩, ⟨ca, 4 * t + 1⟩, ⟨ca, 4 * t + 2⟩, ⟨ca, 4 * t + 3⟩]) ++
  (loop (4 * (maxPitch / 4)) maxPitch fun i => innerProd xa 0 ya i len ++ [⟨ca, i⟩])            -- :287-295

/-- `find_best_pitch(xcorr, y, len, max_pitch, best_pitch)` (pitch.c:45-103), float build: `best_pitch[0..1]` are
    written, `y[j]`, `j < len`, then per lag `xcorr[i]`, `y[i+len]`, `y[i]`. -/
def findBestPitch (ca ya : CArr) (len maxPitch : Int) : List Hit :=
  [⟨.bestp, 0⟩, ⟨.bestp, 1⟩] ++ (loop 0 len fun j => [⟨ya, j⟩]) ++
  (loop 0 maxPitch fun i => [⟨ca, i⟩, ⟨.bestp, 0⟩, ⟨.bestp, 1⟩, ⟨ya, i + len⟩, ⟨ya, i⟩])

/-- `pitch_search(x_lp, y, len, max_pitch, pitch, arch)`.  `bA`, `bB`: `best_pitch[0]`, `best_pitch[1]` after the coarse
    search; `b0`: `best_pitch[0]` after the fine search (results of `find_best_pitch`: data dependent, so arbitrary
    here; `find_best_pitch` only ever stores 0, 1 or a lag `i < max_pitch` it was given). -/
def psearchHits (len maxPitch bA bB b0 : Int) : List Hit :=
  let lag := len + maxPitch
  (loop 0 (len / 4) fun j => [⟨.xlp4, j⟩, ⟨.xlp, 2 * j⟩]) ++                                     -- :327-328
  (loop 0 (lag / 4) fun j => [⟨.ylp4, j⟩, ⟨.y, 2 * j⟩]) ++                                       -- :329-330
  pitchXcorr .xlp4 .ylp4 .xcorr (len / 4) (maxPitch / 4) ++                                      -- :355
  findBestPitch .xcorr .ylp4 (len / 4) (maxPitch / 4) ++                                         -- :357
  (loop 0 (maxPitch / 2) fun i =>                                                                -- :367-384
    [⟨.xcorr, i⟩, ⟨.bestp, 0⟩, ⟨.bestp, 1⟩] ++
    (if (i - 2 * bA).natAbs > 2 ∧ (i - 2 * bB).natAbs > 2 then [] else innerProd .xlp 0 .y i (len / 2) ++ [⟨.xcorr, i⟩])) ++
  findBestPitch .xcorr .y (len / 2) (maxPitch / 2) ++                                            -- :385
  [⟨.bestp, 0⟩] ++                                                                               -- :392
  (if b0 > 0 ∧ b0 < maxPitch / 2 - 1 then [⟨.xcorr, b0 - 1⟩, ⟨.xcorr, b0⟩, ⟨.xcorr, b0 + 1⟩] else [])   -- :395-397

/-- pitch.c:323-325  `ALLOC(x_lp4, len>>2, …); ALLOC(y_lp4, lag>>2, …); ALLOC(xcorr, max_pitch>>1, …)`: element counts of the
    three stack arrays (0 for the other arrays). -/
def psearchAlloc (len maxPitch : Int) : CArr → Int
  | .xlp4 => len / 4 | .ylp4 => (len + maxPitch) / 4 | .xcorr => maxPitch / 2 | _ => 0

/-! ## Extents (for the tie): smallest and largest index touched per array -/

def extOf (l : List Hit) (a : CArr) : Option (Int × Int) :=
  l.foldl (fun acc h => if h.arr = a then (match acc with | none => some (h.idx, h.idx) | some (lo, hi) => some (min lo h.idx, max hi h.idx)) else acc) none

end Opus.CeltCallees2
