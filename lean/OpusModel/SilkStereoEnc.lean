import OpusModel.SilkStereo
/-
  OpusModel.SilkStereoEnc — property C18, slice Stereo: the integer encoder code that PRODUCES the pair handed to
  silk_stereo_quant_pred.

  C sources: silk/stereo_find_predictor.c:35-79 (silk_stereo_find_predictor, after the three sample loops
  silk_sum_sqr_shift x2 / silk_inner_prod_aligned_scale, whose results are inputs here), silk/stereo_LR_to_MS.c:91-178
  (silk_stereo_LR_to_MS from the smoothing coefficient through the two find_predictor calls, the rate split / width,
  the smoother and the five branches that call silk_stereo_quant_pred), silk/Inlines.h:71-94 (silk_SQRT_APPROX),
  :97-140 (silk_DIV32_varQ) — the same transcriptions as OpusModel/SilkPlcConcealFix.lean `sqrtApprox` and
  OpusModel/SilkCore.lean `div32VarQ`, repeated here so that this slice does not depend on files of other owners.

  Plain `int` additions / subtractions of stereo_find_predictor.c (`silk_SUB_LSHIFT32`, `silk_ADD_LSHIFT32`,
  `silk_LSHIFT(..) - mid_res_amp_Q0[..]`) are reduced mod 2^32 (`wrap32`: what the compiled code computes); that they do
  not overflow is not claimed.
-/
namespace Opus.SilkStereo
open Opus Opus.SilkParams

/-- `silk_DIV32_varQ(a32, b32, Qres)` (Inlines.h:97-140); `b32 ≠ 0`, `Qres ≥ 0`. -/
def div32VarQ (a32 b32 qres : Int) : Int :=
  let aHeadrm := clz32 (sabs a32) - 1
  let a32Nrm := lshift32 a32 aHeadrm.toNat
  let bHeadrm := clz32 (sabs b32) - 1
  let b32Nrm := lshift32 b32 bHeadrm.toNat
  let b32Inv := Int.tdiv 536870911 (shrI b32Nrm 16)          -- silk_DIV32_16(silk_int32_MAX >> 2, b32_nrm >> 16)
  let result := smulwb a32Nrm b32Inv
  let a32Nrm := wrap32 (a32Nrm - lshift32 (smmul b32Nrm result) 3)   -- silk_SUB32_ovflw(.., silk_LSHIFT_ovflw(.., 3))
  let result := smlawb result a32Nrm b32Inv
  let lsh := 29 + aHeadrm - bHeadrm - qres
  if lsh < 0 then lshiftSat32 result (-lsh).toNat
  else if lsh < 32 then shrI result lsh.toNat
  else 0

/-- `silk_SQRT_APPROX` (Inlines.h:71-94). -/
def sqrtApprox (x : Int) : Int :=
  if x ≤ 0 then 0
  else
    let lf := clzFrac x
    let y : Int := if lf.1 % 2 = 1 then 32768 else 46214
    let y := shrI y (shrI lf.1 1).toNat
    smlawb y y (smulbb 213 lf.2)

/-- `scale = silk_max_int( scale1, scale2 ); scale = scale + ( scale & 1 )` (stereo_find_predictor.c:51-52). -/
def findScale (scale1 scale2 : Int) : Int :=
  let s := if scale1 > scale2 then scale1 else scale2
  s + s % 2

/-- Output of `silk_stereo_find_predictor`: return value, `*ratio_Q14`, `mid_res_amp_Q0[0..1]` after the call. -/
structure FindOut where
  pred : Int
  ratio : Int
  amp0 : Int
  amp1 : Int
  deriving Repr, DecidableEq, Inhabited

/-- `silk_stereo_find_predictor` (stereo_find_predictor.c:49-78) from the results of its sample loops:
    `(nrgx, scale1)`, `(nrgy, scale2)` = `silk_sum_sqr_shift` of `x`, `y` (:49-50), `corr` =
    `silk_inner_prod_aligned_scale( x, y, scale, length )` (:56); `amp0`, `amp1` = `mid_res_amp_Q0[0..1]` on entry. -/
def findPredictor (nrgx0 scale1 nrgy0 scale2 corr amp0 amp1 coef : Int) : FindOut :=
  let scale := findScale scale1 scale2
  let nrgy := shrI nrgy0 (scale - scale2).toNat                                   -- :53
  let nrgx := shrI nrgx0 (scale - scale1).toNat                                   -- :54
  let nrgx := if nrgx > 1 then nrgx else 1                                        -- :55 silk_max_int
  let pred := limit (div32VarQ corr nrgx 13) (-16384) 16384                       -- :57-58
  let pred2 := smulwb pred pred                                                   -- :59
  let coef := if coef > sabs pred2 then coef else sabs pred2                      -- :62
  let sc := (shrI scale 1).toNat                                                  -- :66
  let a0 := smlawb amp0 (wrap32 (lshift32 (sqrtApprox nrgx) sc - amp0)) coef      -- :67-68
  let nrgy := wrap32 (nrgy - lshift32 (smulwb corr pred) 4)                       -- :70
  let nrgy := wrap32 (nrgy + lshift32 (smulwb nrgx pred2) 6)                      -- :71
  let a1 := smlawb amp1 (wrap32 (lshift32 (sqrtApprox nrgy) sc - amp1)) coef      -- :72-73
  let ratio := limit (div32VarQ a1 (if a0 > 1 then a0 else 1) 14) 0 32767         -- :76-77
  { pred := pred, ratio := ratio, amp0 := a0, amp1 := a1 }

/-- What `silk_stereo_LR_to_MS` needs besides the signals: state fields and arguments. -/
structure LrIn where
  smth : Int            -- state->smth_width_Q14 (opus_int16) on entry
  widthPrev : Int       -- state->width_prev_Q14 (opus_int16)
  totalRate : Int       -- total_rate_bps
  fsKHz : Int
  is10ms : Bool         -- frame_length == 10 * fs_kHz
  act : Int             -- prev_speech_act_Q8
  toMono : Bool
  deriving Repr, DecidableEq, Inhabited

/-- `smooth_coef_Q16` (stereo_LR_to_MS.c:92-96). -/
def lrSmoothCoef (is10ms : Bool) (act : Int) : Int :=
  smulwb (smulbb act act)
    (if is10ms then Opus.Gen.SilkStereoTabs.ratioSmoothCoefHalfQ16 else Opus.Gen.SilkStereoTabs.ratioSmoothCoefQ16)

/-- `silk_RSHIFT( silk_SMULBB( state->smth_width_Q14, pred_Q13[ n ] ), 14 )` (stereo_LR_to_MS.c:146-147 etc.). -/
def scalePred (smth p : Int) : Int := shrI (smulbb smth p) 14

/-- Result of the modelled part of `silk_stereo_LR_to_MS`. -/
structure LrOut where
  q0 : Int              -- pred_Q13[0] handed to silk_stereo_quant_pred
  q1 : Int
  midOnly : Int         -- *mid_only_flag right after the branches (before the silent_side_len logic, :181-191)
  smth : Int            -- state->smth_width_Q14 after :133
  width : Int           -- width_Q14 after the branches (becomes state->width_prev_Q14, :227)
  rate0 : Int           -- mid_side_rates_bps[0..1] after the branches (before :193-196)
  rate1 : Int
  deriving Repr, DecidableEq, Inhabited

/-- The five branches of stereo_LR_to_MS.c:130-178 that call `silk_stereo_quant_pred`; `smth` is
    `state->smth_width_Q14` after the smoother (:128), `r0`, `r1` the rate split of :113-126. -/
def lrSelect (x : LrIn) (smth total minMid frac r0 r1 p0 p1 : Int) : LrOut :=
  if x.toMono then                                                                -- :132
    { q0 := 0, q1 := 0, midOnly := 0, smth := smth, width := 0, rate0 := r0, rate1 := r1 }
  else if x.widthPrev = 0 ∧ (8 * total < 13 * minMid ∨ smulwb frac smth < Opus.Gen.SilkStereoTabs.thr005Q14) then   -- :138-139
    { q0 := scalePred smth p0, q1 := scalePred smth p1, midOnly := 1, smth := smth, width := 0, rate0 := total, rate1 := 0 }
  else if x.widthPrev ≠ 0 ∧ (8 * total < 11 * minMid ∨ smulwb frac smth < Opus.Gen.SilkStereoTabs.thr002Q14) then   -- :153-154
    { q0 := scalePred smth p0, q1 := scalePred smth p1, midOnly := 0, smth := smth, width := 0, rate0 := r0, rate1 := r1 }
  else if smth > Opus.Gen.SilkStereoTabs.thr095Q14 then                           -- :165
    { q0 := p0, q1 := p1, midOnly := 0, smth := smth, width := 16384, rate0 := r0, rate1 := r1 }
  else
    { q0 := scalePred smth p0, q1 := scalePred smth p1, midOnly := 0, smth := smth, width := smth, rate0 := r0, rate1 := r1 }

/-- Rate split and stereo width (stereo_LR_to_MS.c:113-126): `(mid_side_rates_bps[0], mid_side_rates_bps[1], width_Q14)`. -/
def lrRateWidth (total minMid frac3 : Int) : Int × Int × Int :=
  let mid0 := div32VarQ total (851968 + frac3) 19                                 -- :113
  if mid0 < minMid then                                                           -- :115
    let side := total - minMid
    let w := div32VarQ (lshift32 side 1 - minMid) (smulwb (65536 + frac3) minMid) 16        -- :119-120
    (minMid, side, limit w 0 16384)
  else (mid0, total - mid0, 16384)

/-- `silk_stereo_LR_to_MS` (stereo_LR_to_MS.c:98-178) from the two `silk_stereo_find_predictor` results
    (`p0`, `lpRatio`), (`p1`, `hpRatio`) to the call of `silk_stereo_quant_pred`. -/
def lrPreds (x : LrIn) (p0 lpRatio p1 hpRatio : Int) : LrOut :=
  let coef := lrSmoothCoef x.is10ms x.act
  let frac := smlabb hpRatio lpRatio 3                                            -- :101
  let frac := if frac < 65536 then frac else 65536                                -- :102
  let total := x.totalRate - (if x.is10ms then 1200 else 600)                     -- :105
  let total := if total < 1 then 1 else total                                     -- :106-108
  let minMid := smlabb 2000 x.fsKHz 600                                           -- :109
  let frac3 := 3 * frac                                                           -- :112
  let rw := lrRateWidth total minMid frac3
  let width := rw.2.2
  let smth := wrap16 (smlawb x.smth (width - x.smth) coef)                        -- :128
  lrSelect x smth total minMid frac rw.1 rw.2.1 p0 p1

/-- Arguments of one `silk_stereo_find_predictor` call as far as `findPredictor` needs them. -/
structure FindIn where
  nrgx : Int
  scale1 : Int
  nrgy : Int
  scale2 : Int
  corr : Int
  amp0 : Int
  amp1 : Int
  deriving Repr, DecidableEq, Inhabited

/-- The pair that reaches `silk_stereo_quant_pred` in one call of `silk_stereo_LR_to_MS`: both find_predictor calls
    (LP and HP band, stereo_LR_to_MS.c:98-99) with the common smoothing coefficient, then the branches. -/
def lrToMs (x : LrIn) (lp hp : FindIn) : LrOut :=
  let coef := lrSmoothCoef x.is10ms x.act
  let f0 := findPredictor lp.nrgx lp.scale1 lp.nrgy lp.scale2 lp.corr lp.amp0 lp.amp1 coef
  let f1 := findPredictor hp.nrgx hp.scale1 hp.nrgy hp.scale2 hp.corr hp.amp0 hp.amp1 coef
  lrPreds x f0.pred f0.ratio f1.pred f1.ratio

/-- `silk_stereo_encode_mid_only` (stereo_encode_pred.c:54-61): the symbol and its iCDF table. -/
def encodeMidOnlySym (flag : Int) : Int × List Nat := (flag, Opus.Gen.SilkStereoTabs.onlyCodeMidIcdf)

end Opus.SilkStereo
