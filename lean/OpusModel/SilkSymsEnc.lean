import OpusModel.SilkSyms
import OpusModel.Gen.SilkEncBits
/-
  OpusModel.SilkSymsEnc — the *symbol layer* of the SILK encoder: which symbols are written to the range
  encoder, in which order, with which inverse-CDF tables (property C08, composition with C03).
  The quantisation indices and the excitation pulses are INPUTS (no signal processing); the output is
  the list of range-coder operations (`Opus.RangeCoder.Op`) the C code performs, so that
  `encRun`/`encodeAll` of OpusModel/RangeCoder.lean give the bytes.

  C sources transcribed (line numbers of the pinned tree):
    silk/encode_indices.c:35-181      silk_encode_indices
    silk/NLSF_unpack.c:35-54          silk_NLSF_unpack (the `ec_ix` half; shared with the decoder model)
    silk/encode_pulses.c:39-206       combine_and_check, silk_encode_pulses
    silk/shell_coder.c:47-58,77-116   encode_split, silk_shell_encoder
    silk/code_signs.c:40-72           silk_encode_signs
    silk/stereo_encode_pred.c:35-62   silk_stereo_encode_pred, silk_stereo_encode_mid_only
    silk/enc_API.c:344-397,463-468,510-539   order of the header placeholder, LBRR flags, LBRR frames,
                                      stereo predictor / mid-only flag, frames, and the final patch

  Conventions.
  * `ic s tbl` is one `ec_enc_icdf( psRangeEnc, s, tbl, 8 )`.  The operation carries the table the C
    pointer denotes *for the encoder*: the entries from the pointer up to and including the first `0`
    (`cut`) — `ec_enc_icdf` only reads `icdf[s-1]`, `icdf[s]`, and the entries behind the terminating
    zero belong to the next table of the same C array.  A C expression `&table[off]` is
    `cut (table.drop off)`.
  * Tables: the inverse-CDF tables are the FROZEN copy C03's decoder model reads
    (OpusModel/SilkSymsFrozen.lean); the encoder-only tables (bit costs for the rate level, shell limits)
    are regenerated from /repo (OpusModel/Gen/SilkEncBits.lean).
  * `silk_assert` is compiled out in every build the framework uses, `celt_assert` aborts under
    ENABLE_HARDENING: the former are preconditions (`IxOk`, `PulsesOk` below), the latter are modelled
    (`Res.abort`).
  * Loops are structural recursion on lists.  The one `while( 1 )` loop (encode_pulses.c:110-134, halve
    the block until the shell coder can take it) is run with fuel 8: |pulse| ≤ 128 < 2^8 for `opus_int8`
    input, so after at most 8 halvings every entry is 0 and the exit test passes (`scaleDown_fits` in
    OpusProofs/SilkSymsEncPulses.lean shows the exit test holds when the unrolling ends).
  Core Lean only.
-/
namespace Opus.SilkSymsEnc
open Opus Opus.RangeCoder Opus.SilkSyms Opus.SilkSymsFrozen.Icdf

/-- The inverse-CDF table a C pointer denotes for `ec_enc_icdf`: up to and including the first `0`. -/
def cut : List Nat → List Nat
  | [] => []
  | x :: xs => if x = 0 then [0] else x :: cut xs

/-- One `ec_enc_icdf( psRangeEnc, s, tbl, 8 )`. -/
def ic (s : Nat) (tbl : List Nat) : Op := .icdf s (cut tbl) 8

/-! ## silk_encode_indices -/

/-- Signal type and quantiser offset (encode_indices.c:58-65).  The two `celt_assert`s abort. -/
def encType (encodeLbrr : Bool) (sig qoff : Nat) : Res (List Op) :=
  if ¬ (2 * sig + qoff < 6) then .abort
  else if encodeLbrr ∧ 2 * sig + qoff < 2 then .abort
  else if encodeLbrr ∨ 2 * sig + qoff ≥ 2 then .ok [ic (2 * sig + qoff - 2) silk_type_offset_VAD_iCDF]
  else .ok [ic (2 * sig + qoff) silk_type_offset_no_VAD_iCDF]

/-- `GainsIndices[0]` (encode_indices.c:71-80). -/
def encGain0 (cc sig g0 : Nat) : List Op :=
  if cc = 2 then [ic g0 silk_delta_gain_iCDF]
  else [ic (g0 / 8) (silk_gain_iCDF.getD sig []), ic (g0 % 8) silk_uniform8_iCDF]

/-- `n` symbols with the same table (encode_indices.c:83-86, 160-163). -/
def encSyms (tbl : List Nat) (xs : List Nat) : List Op := xs.map (fun x => ic x tbl)

/-- One NLSF residual (encode_indices.c:100-110); `r = NLSFIndices[i+1]`, `e = ec_ix[i]`. -/
def encNlsfRes (cb : NlsfCB) (e : Nat) (r : Int) : List Op :=
  if r ≥ 4 then [ic 8 (cb.ecIcdf.drop e), ic (r - 4).toNat silk_NLSF_EXT_iCDF]
  else if r ≤ -4 then [ic 0 (cb.ecIcdf.drop e), ic (-r - 4).toNat silk_NLSF_EXT_iCDF]
  else [ic (r + 4).toNat (cb.ecIcdf.drop e)]

/-- The residual loop (encode_indices.c:99-111) over `ec_ix` and `NLSFIndices[1..]`. -/
def encNlsfResLoop (cb : NlsfCB) : List Nat → List Int → List Op
  | e :: es, r :: rs => encNlsfRes cb e r ++ encNlsfResLoop cb es rs
  | _, _ => []

/-- `NLSFIndices[]` (encode_indices.c:91-111). -/
def encNlsf (rate : Rate) (sig n0 : Nat) (res : List Int) : List Op :=
  ic n0 ((nlsfCB rate).cb1.drop ((sig / 2) * (nlsfCB rate).nVectors)) ::
    encNlsfResLoop (nlsfCB rate) (nlsfUnpackEcIx (nlsfCB rate) n0) res

/-- NLSF interpolation factor (encode_indices.c:113-117). -/
def encInterp (nbSubfr ip : Nat) : List Op :=
  if nbSubfr = 4 then [ic ip silk_NLSF_interpolation_factor_iCDF] else []

/-- Is the lag coded as a delta that fits (encode_indices.c:125-135)? -/
def lagDeltaFits (cc prevSig : Nat) (prevLag lag : Int) : Bool :=
  decide (cc = 2 ∧ prevSig = 2 ∧ ¬ (lag - prevLag < -8 ∨ lag - prevLag > 11))

/-- Pitch lag (encode_indices.c:123-146).  `silk_DIV32_16` truncates; the lag index is non-negative. -/
def encLag (rate : Rate) (cc prevSig : Nat) (prevLag lag : Int) : List Op :=
  (if cc = 2 ∧ prevSig = 2 then
     [ic (if lagDeltaFits cc prevSig prevLag lag then (lag - prevLag + 9).toNat else 0) silk_pitch_delta_iCDF]
   else []) ++
  (if lagDeltaFits cc prevSig prevLag lag then []
   else [ic (lag.toNat / (rate.kHz / 2)) silk_pitch_lag_iCDF,
         ic (lag.toNat - (lag.toNat / (rate.kHz / 2)) * (rate.kHz / 2)) (pitchLagLowBits rate)])

/-- Pitch and LTP parameters of a voiced frame (encode_indices.c:119-172). -/
def encVoiced (rate : Rate) (nbSubfr sig cc prevSig : Nat) (prevLag : Int) (ix : Indices) : List Op :=
  if sig = 2 then
    encLag rate cc prevSig prevLag ix.lagIndex ++
    [ic ix.contourIndex (pitchContour rate nbSubfr), ic ix.perIndex silk_LTP_per_index_iCDF] ++
    encSyms ([silk_LTP_gain_iCDF_0, silk_LTP_gain_iCDF_1, silk_LTP_gain_iCDF_2].getD ix.perIndex []) ix.ltp ++
    (if cc = 0 then [ic ix.ltpScale silk_LTPscale_iCDF] else [])
  else []

/-- `silk_encode_indices` (encode_indices.c:35-181).  `ix.gains` holds `GainsIndices[0..nb_subfr)`,
    `ix.nlsfRes` holds `NLSFIndices[1..order]`, `ix.ltp` holds `LTPIndex[0..nb_subfr)`. -/
def encodeIndices (rate : Rate) (nbSubfr : Nat) (encodeLbrr : Bool) (cc prevSig : Nat) (prevLag : Int)
    (ix : Indices) : Res (List Op) :=
  match encType encodeLbrr ix.signalType ix.quantOffsetType with
  | .ok t =>
    .ok (t ++ encGain0 cc ix.signalType (ix.gains.headD 0) ++ encSyms silk_delta_gain_iCDF ix.gains.tail ++
         encNlsf rate ix.signalType ix.nlsf0 ix.nlsfRes ++ encInterp nbSubfr ix.interp ++
         encVoiced rate nbSubfr ix.signalType cc prevSig prevLag ix ++ [ic ix.seed silk_uniform4_iCDF])
  | .err e => .err e
  | .oob => .oob
  | .abort => .abort

/-! ## silk_encode_pulses -/

/-- `pulses[]` as the function sees it: `iter * 16` entries, the tail behind `frame_length` zeroed
    (encode_pulses.c:85-90). -/
def padPulses (frameLen : Nat) (pulses : List Int) : List Int :=
  pulses.take frameLen ++ List.replicate (shellBlocks frameLen * 16 - (pulses.take frameLen).length) 0

/-- Cut a list into blocks of 16 (the last may be shorter). -/
def blocks16 : Nat → List α → List (List α)
  | 0, _ => []
  | n + 1, l => l.take 16 :: blocks16 n (l.drop 16)

/-- `combine_and_check` without the check: sums of neighbours. -/
def pairSums : List Nat → List Nat
  | a :: b :: t => (a + b) :: pairSums t
  | _ => []

/-- Exit test of the `while( 1 )` loop (encode_pulses.c:111-118): all four `combine_and_check` calls
    return 0.  (After a failing call the C code goes on with stale `pulses_comb` entries; that only
    affects values that are discarded, `scale_down` is non-zero either way.) -/
def fitsShell (a : List Nat) : Bool :=
  (pairSums a).all (· ≤ Gen.SilkEncBits.silk_max_pulses_table.getD 0 0) &&
  (pairSums (pairSums a)).all (· ≤ Gen.SilkEncBits.silk_max_pulses_table.getD 1 0) &&
  (pairSums (pairSums (pairSums a))).all (· ≤ Gen.SilkEncBits.silk_max_pulses_table.getD 2 0) &&
  (pairSums (pairSums (pairSums (pairSums a)))).all (· ≤ Gen.SilkEncBits.silk_max_pulses_table.getD 3 0)

/-- The down-scaling loop of one block (encode_pulses.c:107-135): `(abs_pulses, nRshifts)`. -/
def scaleDown : Nat → List Nat → Nat → List Nat × Nat
  | 0, a, n => (a, n)
  | f + 1, a, n => if fitsShell a then (a, n) else scaleDown f (a.map (· / 2)) (n + 1)

/-- What the preparation part of `silk_encode_pulses` computes for one block: scaled amplitudes,
    `nRshifts[i]`, `sum_pulses[i]`. -/
structure Block where
  orig : List Int       -- pulses[16*i .. 16*i+16)
  scaled : List Nat     -- abs_pulses after the loop
  nR : Nat
  sum : Nat
  deriving Repr, DecidableEq, Inhabited

def mkBlock (p : List Int) : Block :=
  let r := scaleDown 8 (p.map Int.natAbs) 0
  { orig := p, scaled := r.1, nR := r.2, sum := r.1.sum }

/-- Bit cost of rate level `k` (encode_pulses.c:143-152). -/
def rateBits (sig k : Nat) (bs : List Block) : Nat :=
  (Gen.SilkEncBits.silk_rate_levels_BITS_Q5.getD (sig / 2) []).getD k 0 +
  (bs.map (fun b => (Gen.SilkEncBits.silk_pulses_per_block_BITS_Q5.getD k []).getD (if b.nR > 0 then 17 else b.sum) 0)).sum

/-- The arg-min loop (encode_pulses.c:141-157), `k` ascending, strict `<`: `(minSumBits, RateLevelIndex)`. -/
def rateLevelLoop (sig : Nat) (bs : List Block) : List Nat → Nat × Nat → Nat × Nat
  | [], acc => acc
  | k :: ks, acc =>
    rateLevelLoop sig bs ks (if rateBits sig k bs < acc.1 then (rateBits sig k bs, k) else acc)

/-- `RateLevelIndex` (encode_pulses.c:141-157); `minSumBits_Q5` starts at `silk_int32_MAX`. -/
def rateLevel (sig : Nat) (bs : List Block) : Nat :=
  (rateLevelLoop sig bs (List.range 9) (2147483647, 0)).2

/-- Sum-weighted-pulses symbols of one block (encode_pulses.c:164-172). -/
def encSum (rl : Nat) (b : Block) : List Op :=
  if b.nR = 0 then [ic b.sum (silk_pulses_per_block_iCDF.getD rl [])]
  else ic 17 (silk_pulses_per_block_iCDF.getD rl []) ::
       (List.replicate (b.nR - 1) (ic 17 (silk_pulses_per_block_iCDF.getD 9 [])) ++
        [ic b.sum (silk_pulses_per_block_iCDF.getD 9 [])])

/-- `encode_split` (shell_coder.c:47-58). -/
def encSplit (child1 p : Nat) (tbl : List Nat) : List Op :=
  if p > 0 then [ic child1 (tbl.drop (silk_shell_code_table_offsets.getD p 0))] else []

/-- Four leaves below one `pulses2` node (shell_coder.c:97-99 and its repetitions). -/
def encQuarter : List Nat → List Op
  | [b1, b2, d1, d2] =>
    encSplit (b1 + b2) (b1 + b2 + (d1 + d2)) silk_shell_code_table1 ++
    encSplit b1 (b1 + b2) silk_shell_code_table0 ++ encSplit d1 (d1 + d2) silk_shell_code_table0
  | _ => []

/-- Eight leaves below one `pulses3` node (shell_coder.c:96-103). -/
def encHalf (l : List Nat) : List Op :=
  encSplit (l.take 4).sum ((l.take 4).sum + (l.drop 4).sum) silk_shell_code_table2 ++
  encQuarter (l.take 4) ++ encQuarter (l.drop 4)

/-- `silk_shell_encoder` (shell_coder.c:77-116) on 16 amplitudes. -/
def encShell (l : List Nat) : List Op :=
  encSplit (l.take 8).sum ((l.take 8).sum + (l.drop 8).sum) silk_shell_code_table3 ++
  encHalf (l.take 8) ++ encHalf (l.drop 8)

/-- One block of the shell loop (encode_pulses.c:178-182). -/
def encShellIf (b : Block) : List Op := if b.sum > 0 then encShell b.scaled else []

/-- LSBs of one amplitude, bit `n-1` first (encode_pulses.c:192-198 with `n = nLS + 1`). -/
def encLsbBits : Nat → Nat → List Op
  | 0, _ => []
  | n + 1, a => ic (a / 2 ^ n % 2) silk_lsb_iCDF :: encLsbBits n a

/-- One block of the LSB loop (encode_pulses.c:187-200). -/
def encLsbIf (b : Block) : List Op :=
  if b.nR > 0 then (b.orig.map (fun q => encLsbBits b.nR q.natAbs)).flatten else []

/-- Signs of one block (code_signs.c:58-69); `base = 7 * (quantOffsetType + 2*signalType)`.
    `silk_enc_map(q) = (q >> 15) + 1`: 0 for negative, 1 for positive. -/
def encSignIf (base : Nat) (b : Block) : List Op :=
  if b.sum > 0 then
    (b.orig.filter (· ≠ 0)).map (fun q => ic (if q < 0 then 0 else 1) [silk_sign_iCDF.getD (base + min (b.sum % 32) 6) 0, 0])
  else []

/-- The blocks `silk_encode_pulses` works on. -/
def pulseBlocks (frameLen : Nat) (pulses : List Int) : List Block :=
  (blocks16 (shellBlocks frameLen) (padPulses frameLen pulses)).map mkBlock

/-- `silk_encode_pulses` (encode_pulses.c:62-206).  `silk_encode_signs` visits `(frame_length + 8) >> 4`
    blocks (code_signs.c:57). -/
def encodePulses (sig qoff frameLen : Nat) (pulses : List Int) : List Op :=
  let bs := pulseBlocks frameLen pulses
  ic (rateLevel sig bs) (silk_rate_levels_iCDF.getD (sig / 2) []) ::
    ((bs.map (encSum (rateLevel sig bs))).flatten ++ (bs.map encShellIf).flatten ++ (bs.map encLsbIf).flatten ++
     ((bs.take ((frameLen + 8) / 16)).map (encSignIf (7 * (qoff + 2 * sig)))).flatten)

/-- The `Pulses` record C03's decoder model reports for what `silk_encode_pulses` wrote. -/
def pulsesView (sig frameLen : Nat) (pulses : List Int) : Pulses :=
  let bs := pulseBlocks frameLen pulses
  { rateLevel := rateLevel sig bs, sumPulses := bs.map (·.sum), nLshifts := bs.map (·.nR),
    absBlocks := bs.map (fun b => b.orig.map Int.natAbs), signed := bs.map (·.orig) }

/-! ## Stereo predictor (silk/stereo_encode_pred.c) -/

/-- `silk_stereo_encode_pred`; `ix = [ix[0][0], ix[0][1], ix[0][2], ix[1][0], ix[1][1], ix[1][2]]`.  The
    `celt_assert`s abort. -/
def encStereoPred (ix : List Nat) : Res (List Op) :=
  if ¬ (5 * ix.getD 2 0 + ix.getD 5 0 < 25) then .abort
  else if ¬ (ix.getD 0 0 < 3 ∧ ix.getD 1 0 < 5) then .abort
  else if ¬ (ix.getD 3 0 < 3 ∧ ix.getD 4 0 < 5) then .abort
  else .ok [ic (5 * ix.getD 2 0 + ix.getD 5 0) silk_stereo_pred_joint_iCDF,
            ic (ix.getD 0 0) silk_uniform3_iCDF, ic (ix.getD 1 0) silk_uniform5_iCDF,
            ic (ix.getD 3 0) silk_uniform3_iCDF, ic (ix.getD 4 0) silk_uniform5_iCDF]

/-- `silk_stereo_encode_mid_only`. -/
def encMidOnly (flag : Nat) : List Op := [ic flag silk_stereo_only_code_mid_iCDF]

/-! ## One frame: silk_encode_indices + silk_encode_pulses -/

/-- The two calls that code one frame (enc_API.c:385-387 for LBRR data; encode_frame_FIX.c /
    encode_frame_FLP.c for regular frames: `silk_encode_indices( …, 0, condCoding )` followed by
    `silk_encode_pulses( …, indices.signalType, indices.quantOffsetType, pulses, frame_length )`). -/
def encodeFrame (rate : Rate) (nbSubfr : Nat) (encodeLbrr : Bool) (cc prevSig : Nat) (prevLag : Int)
    (ix : Indices) (pulses : List Int) : Res (List Op) :=
  match encodeIndices rate nbSubfr encodeLbrr cc prevSig prevLag ix with
  | .ok a => .ok (a ++ encodePulses ix.signalType ix.quantOffsetType (frameLength rate nbSubfr) pulses)
  | .err e => .err e
  | .oob => .oob
  | .abort => .abort

/-- The header placeholder `ec_enc_icdf( psRangeEnc, 0, { 256 - (256 >> k), 0 }, 8 )` with
    `k = (nFramesPerPacket + 1) * nChannelsInternal` (enc_API.c:346-349). -/
def placeholder (k : Nat) : Op := .icdf 0 [256 - 256 / 2 ^ k, 0] 8

/-- A mono packet of one frame without LBRR data (enc_API.c:344-397 with `LBRR_flags` all zero,
    :510, :527-539): placeholder, the frame, then `ec_enc_patch_initial_bits( flags, 2 )` with
    `flags = VAD_flag << 1 | LBRR_flag` and `LBRR_flag = 0`. -/
def encodeMonoFrame (rate : Rate) (nbSubfr vad : Nat) (ix : Indices) (pulses : List Int) : Res (List Op) :=
  match encodeFrame rate nbSubfr false 0 0 0 ix pulses with
  | .ok a => .ok (placeholder 2 :: (a ++ [.patchInitial (2 * vad) 2]))
  | .err e => .err e
  | .oob => .oob
  | .abort => .abort

/-! ## Encoder-side preconditions (the `silk_assert`s and the value ranges of the C types) -/

/-- Number of contour symbols (encode_indices.c:150-153). -/
def contourSyms (rate : Rate) (nbSubfr : Nat) : Nat :=
  if rate = .nb then (if nbSubfr = 4 then 11 else 3) else (if nbSubfr = 4 then 34 else 12)

/-- The domain of `silk_encode_indices` for one frame.  `vadOrLbrr` is what the DECODER will pass as
    `decode_LBRR || VAD_flags[i]`: the encoder picks the type table by `encode_LBRR || typeOffset >= 2`, so
    the two agree exactly when the VAD flag written in the header is `signalType ≠ 0` (and LBRR frames are
    never `TYPE_NO_VOICE_ACTIVITY`, which the `celt_assert` enforces). -/
structure IxOk (rate : Rate) (nbSubfr : Nat) (vadOrLbrr : Bool) (cc : Nat) (ix : Indices) : Prop where
  sig : ix.signalType ≤ 2
  qoff : ix.quantOffsetType ≤ 1
  vad : vadOrLbrr = decide (ix.signalType ≠ 0)
  gainsLen : ix.gains.length = nbSubfr
  gain0 : ix.gains.headD 0 < (if cc = 2 then 41 else 64)
  gainsTail : ∀ g ∈ ix.gains.tail, g < 41
  nlsf0 : ix.nlsf0 < 32
  resLen : ix.nlsfRes.length = (nlsfCB rate).order
  res : ∀ r ∈ ix.nlsfRes, -10 ≤ r ∧ r ≤ 10
  interp : if nbSubfr = 4 then ix.interp < 5 else ix.interp = 4
  lag : if ix.signalType = 2 then 0 ≤ ix.lagIndex ∧ ix.lagIndex < 16 * rate.kHz else ix.lagIndex = 0
  contour : if ix.signalType = 2 then ix.contourIndex < contourSyms rate nbSubfr else ix.contourIndex = 0
  per : if ix.signalType = 2 then ix.perIndex < 3 else ix.perIndex = 0
  ltpLen : ix.ltp.length = (if ix.signalType = 2 then nbSubfr else 0)
  ltp : ∀ l ∈ ix.ltp, l < 8 * 2 ^ ix.perIndex
  scale : if ix.signalType = 2 ∧ cc = 0 then ix.ltpScale < 3 else ix.ltpScale = 0
  seed : ix.seed < 4

/-- The domain of `silk_encode_pulses`: `frame_length` entries of `opus_int8` whose absolute value is
    representable (`(opus_int8)silk_abs( -128 )` is `-128`: the one value the LSB coding mangles). -/
structure PulsesOk (frameLen : Nat) (pulses : List Int) : Prop where
  len : pulses.length = frameLen
  abs : ∀ p ∈ pulses, -127 ≤ p ∧ p ≤ 127


/-! ## A whole SILK payload: silk_Encode's symbol layer (enc_API.c:344-397, 463-539)

  One call of `silk_Encode` per 10/20 ms frame; the first (`nFramesEncoded == 0`) writes the header
  placeholder, the LBRR flags and the LBRR data of the previous packet, every call writes (stereo) the
  predictor and the mid-only flag and then one frame per coded channel, the last call patches the
  VAD/LBRR-flag bits into the placeholder.  Inputs are what the signal-processing part has decided:
  VAD flags, LBRR flags and data, indices and pulses of every frame, stereo predictor indices and
  mid-only flags.  The side channel of frame `i` is coded iff `mid_only_flags[i] == 0`
  (enc_API.c:495 `channelRate_bps > 0`; stereo_LR_to_MS.c:154-155,193-195 set the side rate to 0 exactly
  when the flag is set and to at least 1 otherwise). -/

/-- `ec_prevSignalType`, `ec_prevLagIndex` of one channel (encode_indices.c:147,174). -/
structure EcPrev where
  sig : Nat := 0
  lag : Int := 0
  deriving Repr, DecidableEq, Inhabited

/-- The update at the end of `silk_encode_indices`. -/
def EcPrev.upd (p : EcPrev) (ix : Indices) : EcPrev :=
  { sig := ix.signalType, lag := if ix.signalType = 2 then ix.lagIndex else p.lag }

/-- Indices and pulses of one frame. -/
structure FrameIn where
  ix : Indices
  pulses : List Int
  deriving Repr, Inhabited

/-- What the encoder state of one channel holds for the packet being written. -/
structure ChanIn where
  vad : List Nat            -- VAD_flags[i], i < nFramesPerPacket
  lbrrFlags : List Nat      -- LBRR_flags[i] (LBRR data of the previous packet)
  lbrr : List FrameIn       -- indices_LBRR[i], pulses_LBRR[i]
  frames : List FrameIn     -- indices, pulses of frame i (unused where the channel is not coded)
  prev : EcPrev             -- ec_prevSignalType / ec_prevLagIndex when the packet starts
  deriving Repr, Inhabited

structure PacketIn where
  ch0 : ChanIn
  ch1 : ChanIn
  predIx : List (List Nat)       -- sStereo.predIx[i] while frame i is coded
  midOnly : List Nat             -- sStereo.mid_only_flags[i] while frame i is coded
  lbrrPredIx : List (List Nat)   -- sStereo.predIx[i] when the header is written (left by the previous packet)
  lbrrMidOnly : List Nat         -- sStereo.mid_only_flags[i] when the header is written
  deriving Repr, Inhabited

def PacketIn.ch (pk : PacketIn) (n : Nat) : ChanIn := if n = 0 then pk.ch0 else pk.ch1

/-- The conditional-coding memory of both channels. -/
structure EncSt where
  p0 : EcPrev
  p1 : EcPrev
  deriving Repr, DecidableEq, Inhabited

def EncSt.prev (s : EncSt) (n : Nat) : EcPrev := if n = 0 then s.p0 else s.p1
def EncSt.setPrev (s : EncSt) (n : Nat) (p : EcPrev) : EncSt := if n = 0 then { s with p0 := p } else { s with p1 := p }

/-- The operations of one frame, `[]` where a `celt_assert` of `silk_encode_indices` would abort (excluded by `IxOk`). -/
def frameOps (rate : Rate) (nbSubfr : Nat) (lbrr : Bool) (cc : Nat) (p : EcPrev) (f : FrameIn) : List Op :=
  match encodeFrame rate nbSubfr lbrr cc p.sig p.lag f.ix f.pulses with
  | .ok a => a
  | _ => []

/-- `silk_stereo_encode_pred`, `[]` where a `celt_assert` would abort (excluded by `PredOk`). -/
def predOps (ix : List Nat) : List Op :=
  match encStereoPred ix with
  | .ok a => a
  | _ => []

/-- `LBRR_symbol` (enc_API.c:356-359): `flags[0] | flags[1] << 1 | …`. -/
def lbrrSymbol : List Nat → Nat
  | [] => 0
  | f :: fs => f + 2 * lbrrSymbol fs

/-- The LBRR flags of one channel (enc_API.c:355-364). -/
def lbrrSymOps (nfpp : Nat) (flags : List Nat) : List Op :=
  if lbrrSymbol (flags.take nfpp) ≠ 0 ∧ nfpp > 1 then
    [ic (lbrrSymbol (flags.take nfpp) - 1) ([silk_LBRR_flags_2_iCDF, silk_LBRR_flags_3_iCDF].getD (nfpp - 2) [])]
  else []

/-- `condCoding` of LBRR frame `i` (enc_API.c:380-384). -/
def lbrrCondCoding (c : ChanIn) (i : Nat) : Nat := if i > 0 ∧ c.lbrrFlags.getD (i - 1) 0 ≠ 0 then 2 else 0

/-- LBRR data of frame `i`, channel `n` (enc_API.c:369-391). -/
def lbrrOne (cfg : Cfg) (pk : PacketIn) (i n : Nat) (s : EncSt) : List Op × EncSt :=
  if (pk.ch n).lbrrFlags.getD i 0 ≠ 0 then
    ((if cfg.nCh = 2 ∧ n = 0 then
        predOps (pk.lbrrPredIx.getD i []) ++
        (if pk.ch1.lbrrFlags.getD i 0 = 0 then encMidOnly (pk.lbrrMidOnly.getD i 0) else [])
      else []) ++
     frameOps cfg.rate cfg.nbSubfr true (lbrrCondCoding (pk.ch n) i) (s.prev n)
       ((pk.ch n).lbrr.getD i default),
     s.setPrev n ((s.prev n).upd ((pk.ch n).lbrr.getD i default).ix))
  else ([], s)

/-- The channel loop of the LBRR data (enc_API.c:369). -/
def lbrrChans (cfg : Cfg) (pk : PacketIn) (i : Nat) : List Nat → EncSt → List Op × EncSt
  | [], s => ([], s)
  | n :: ns, s =>
    let r := lbrrOne cfg pk i n s
    let rest := lbrrChans cfg pk i ns r.2
    (r.1 ++ rest.1, rest.2)

/-- The frame loop of the LBRR data (enc_API.c:368). -/
def lbrrFrames (cfg : Cfg) (pk : PacketIn) : List Nat → EncSt → List Op × EncSt
  | [], s => ([], s)
  | i :: is, s =>
    let r := lbrrChans cfg pk i (List.range cfg.nCh) s
    let rest := lbrrFrames cfg pk is r.2
    (r.1 ++ rest.1, rest.2)

/-- `condCoding` of a regular frame (enc_API.c:480-489); `i` is the frame index in the packet. -/
def encCondCoding (pk : PacketIn) (i n : Nat) : Nat :=
  if i = 0 then 0 else if n > 0 ∧ pk.midOnly.getD (i - 1) 0 ≠ 0 then 1 else 2

/-- Channel `n` of frame `i` (enc_API.c:463-468, 495-506). -/
def frameChan (cfg : Cfg) (pk : PacketIn) (i n : Nat) (s : EncSt) : List Op × EncSt :=
  if n = 0 ∨ pk.midOnly.getD i 0 = 0 then
    (frameOps cfg.rate cfg.nbSubfr false (encCondCoding pk i n) (s.prev n) ((pk.ch n).frames.getD i default),
     s.setPrev n ((s.prev n).upd ((pk.ch n).frames.getD i default).ix))
  else ([], s)

/-- One `silk_Encode` call behind the header: predictor, mid-only flag, the channels (enc_API.c:437-509). -/
def frameCall (cfg : Cfg) (pk : PacketIn) (i : Nat) (s : EncSt) : List Op × EncSt :=
  let head := if cfg.nCh = 2 then
      predOps (pk.predIx.getD i []) ++ (if pk.ch1.vad.getD i 0 = 0 then encMidOnly (pk.midOnly.getD i 0) else [])
    else []
  let r0 := frameChan cfg pk i 0 s
  if cfg.nCh = 2 then
    let r1 := frameChan cfg pk i 1 r0.2
    (head ++ r0.1 ++ r1.1, r1.2)
  else (head ++ r0.1, r0.2)

/-- The frames of the packet. -/
def frameCalls (cfg : Cfg) (pk : PacketIn) : List Nat → EncSt → List Op × EncSt
  | [], s => ([], s)
  | i :: is, s =>
    let r := frameCall cfg pk i s
    let rest := frameCalls cfg pk is r.2
    (r.1 ++ rest.1, rest.2)

/-- The bits patched into the placeholder, first to last (enc_API.c:529-536): per channel the VAD flags
    and `LBRR_flag = LBRR_symbol > 0`. -/
def chanFlagBits (nfpp : Nat) (c : ChanIn) : List Nat :=
  (List.range nfpp).map (fun i => c.vad.getD i 0) ++ [if lbrrSymbol (c.lbrrFlags.take nfpp) ≠ 0 then 1 else 0]

def headerBits (cfg : Cfg) (pk : PacketIn) : List Nat :=
  chanFlagBits cfg.nfpp pk.ch0 ++ (if cfg.nCh = 2 then chanFlagBits cfg.nfpp pk.ch1 else [])

/-- `flags = (flags << 1) | bit` over the bits. -/
def bitsWord : List Nat → Nat → Nat
  | [], acc => acc
  | b :: bs, acc => bitsWord bs (2 * acc + b)

/-- Everything between the placeholder and the patch. -/
def packetBody (cfg : Cfg) (pk : PacketIn) : List Op :=
  let s0 : EncSt := { p0 := pk.ch0.prev, p1 := pk.ch1.prev }
  let syms := lbrrSymOps cfg.nfpp pk.ch0.lbrrFlags ++ (if cfg.nCh = 2 then lbrrSymOps cfg.nfpp pk.ch1.lbrrFlags else [])
  let l := lbrrFrames cfg pk (List.range cfg.nfpp) s0
  let f := frameCalls cfg pk (List.range cfg.nfpp) l.2
  syms ++ l.1 ++ f.1

/-- The range-coder operations of a whole SILK payload. -/
def packetOps (cfg : Cfg) (pk : PacketIn) : List Op :=
  placeholder ((cfg.nfpp + 1) * cfg.nCh) ::
    (packetBody cfg pk ++ [.patchInitial (bitsWord (headerBits cfg pk) 0) ((cfg.nfpp + 1) * cfg.nCh)])

/-- Domain of `silk_stereo_encode_pred` (its `celt_assert`s; `ix[n][2] < 5` is what stereo_quant_pred produces). -/
def PredOk (ix : List Nat) : Prop :=
  ix.length = 6 ∧ ix.getD 0 0 < 3 ∧ ix.getD 1 0 < 5 ∧ ix.getD 2 0 < 5 ∧ ix.getD 3 0 < 3 ∧ ix.getD 4 0 < 5 ∧ ix.getD 5 0 < 5

/-- The per-channel part of the encoder's domain: flags are flags, and every LBRR frame that is present is in the
    domain of `silk_encode_indices( …, encode_LBRR = 1, … )` / `silk_encode_pulses`. -/
structure ChanOk (cfg : Cfg) (c : ChanIn) : Prop where
  vadLen : c.vad.length = cfg.nfpp
  vadBits : ∀ v ∈ c.vad, v ≤ 1
  lbrrLen : c.lbrrFlags.length = cfg.nfpp
  lbrrBits : ∀ v ∈ c.lbrrFlags, v ≤ 1
  lbrr : ∀ i, i < cfg.nfpp → c.lbrrFlags.getD i 0 ≠ 0 →
    IxOk cfg.rate cfg.nbSubfr true (lbrrCondCoding c i) (c.lbrr.getD i default).ix ∧
    PulsesOk (frameLength cfg.rate cfg.nbSubfr) (c.lbrr.getD i default).pulses

/-- The domain of the payload writer: the configuration is one `silk_Encode` produces, every coded frame is in the
    domain of `silk_encode_indices` / `silk_encode_pulses` with the VAD flag the header carries, the stereo indices
    are in the domain of `silk_stereo_encode_pred`, and a mid-only flag is only set where the side channel's VAD
    flag is clear (enc_API.c:463-466: `VAD_flags[1][i] = 0` whenever `mid_only_flags[i]` is set). -/
structure PacketOk (cfg : Cfg) (pk : PacketIn) : Prop where
  nCh : cfg.nCh = 1 ∨ cfg.nCh = 2
  nfpp : 1 ≤ cfg.nfpp ∧ cfg.nfpp ≤ 3
  nb : cfg.nbSubfr = 2 ∨ cfg.nbSubfr = 4
  lost : cfg.lostFlag = 0
  ch0 : ChanOk cfg pk.ch0
  ch1 : cfg.nCh = 2 → ChanOk cfg pk.ch1
  frames0 : ∀ i, i < cfg.nfpp →
    IxOk cfg.rate cfg.nbSubfr (decide (pk.ch0.vad.getD i 0 ≠ 0)) (encCondCoding pk i 0) (pk.ch0.frames.getD i default).ix ∧
    PulsesOk (frameLength cfg.rate cfg.nbSubfr) (pk.ch0.frames.getD i default).pulses
  frames1 : cfg.nCh = 2 → ∀ i, i < cfg.nfpp → pk.midOnly.getD i 0 = 0 →
    IxOk cfg.rate cfg.nbSubfr (decide (pk.ch1.vad.getD i 0 ≠ 0)) (encCondCoding pk i 1) (pk.ch1.frames.getD i default).ix ∧
    PulsesOk (frameLength cfg.rate cfg.nbSubfr) (pk.ch1.frames.getD i default).pulses
  pred : cfg.nCh = 2 → ∀ i, i < cfg.nfpp → PredOk (pk.predIx.getD i []) ∧ pk.midOnly.getD i 0 ≤ 1 ∧
    (pk.ch1.vad.getD i 0 ≠ 0 → pk.midOnly.getD i 0 = 0)
  lbrrPred : cfg.nCh = 2 → ∀ i, i < cfg.nfpp → pk.ch0.lbrrFlags.getD i 0 ≠ 0 →
    PredOk (pk.lbrrPredIx.getD i []) ∧ pk.lbrrMidOnly.getD i 0 ≤ 1


/-! ## What `silk_Decode` (C03's model, normal decoding) reports for such a payload

  The same loops as above, producing C03's `Ev` records instead of operations: header flags, then per
  LBRR / regular frame the stereo predictor, the mid-only flag, the indices (with the `condCoding`,
  `ec_prevSignalType`, `ec_prevLagIndex` the decoder passes: the memory is handed over only where it is read)
  and the pulses.  `ret i` is the `(rng, ec_tell)` pair reported when call `i` returns. -/

def frameEvs (cfg : Cfg) (n fi lbrrN cc : Nat) (p : EcPrev) (f : FrameIn) : List Ev :=
  [.indices n fi lbrrN cc cfg.rate cfg.nbSubfr (if cc = 2 then p.sig else 0) (if cc = 2 ∧ p.sig = 2 then p.lag else 0) f.ix,
   .pulses f.ix.signalType f.ix.quantOffsetType (frameLength cfg.rate cfg.nbSubfr)
     (pulsesView f.ix.signalType (frameLength cfg.rate cfg.nbSubfr) f.pulses)]

/-- The predictor record for the indices `ix[2][3]` (stereo_decode_pred.c). -/
def predEv (ix : List Nat) : Ev :=
  .pred (stereoMk (5 * ix.getD 2 0 + ix.getD 5 0) (ix.getD 0 0) (ix.getD 1 0) (ix.getD 3 0) (ix.getD 4 0))

def lbrrOneEvs (cfg : Cfg) (pk : PacketIn) (i n : Nat) (s : EncSt) : List Ev :=
  if (pk.ch n).lbrrFlags.getD i 0 ≠ 0 then
    (if cfg.nCh = 2 ∧ n = 0 then
        predEv (pk.lbrrPredIx.getD i []) ::
        (if pk.ch1.lbrrFlags.getD i 0 = 0 then [.midOnly (pk.lbrrMidOnly.getD i 0)] else [])
      else []) ++
    frameEvs cfg n i 1 (lbrrCondCoding (pk.ch n) i) (s.prev n) ((pk.ch n).lbrr.getD i default)
  else []

def lbrrChansEvs (cfg : Cfg) (pk : PacketIn) (i : Nat) : List Nat → EncSt → List Ev
  | [], _ => []
  | n :: ns, s => lbrrOneEvs cfg pk i n s ++ lbrrChansEvs cfg pk i ns (lbrrOne cfg pk i n s).2

def lbrrFramesEvs (cfg : Cfg) (pk : PacketIn) : List Nat → EncSt → List Ev
  | [], _ => []
  | i :: is, s =>
    lbrrChansEvs cfg pk i (List.range cfg.nCh) s ++ lbrrFramesEvs cfg pk is (lbrrChans cfg pk i (List.range cfg.nCh) s).2

def frameChanEvs (cfg : Cfg) (pk : PacketIn) (i n : Nat) (s : EncSt) : List Ev :=
  if n = 0 ∨ pk.midOnly.getD i 0 = 0 then
    frameEvs cfg n i 0 (encCondCoding pk i n) (s.prev n) ((pk.ch n).frames.getD i default)
  else []

/-- Events of call `i` behind the header, without the final `ret`. -/
def frameCallEvs (cfg : Cfg) (pk : PacketIn) (i : Nat) (s : EncSt) : List Ev :=
  (if cfg.nCh = 2 then
      predEv (pk.predIx.getD i []) :: (if pk.ch1.vad.getD i 0 = 0 then [.midOnly (pk.midOnly.getD i 0)] else [])
    else []) ++
  frameChanEvs cfg pk i 0 s ++
  (if cfg.nCh = 2 then frameChanEvs cfg pk i 1 (frameChan cfg pk i 0 s).2 else [])

/-- `LBRR_flags[0..3)` as the decoder stores them. -/
def lbrr3 (nfpp : Nat) (fl : List Nat) : List Nat := (List.range 3).map (fun i => if i < nfpp then fl.getD i 0 else 0)

/-- `LBRR_flag` as the encoder patches it. -/
def lbrrFlagOf (nfpp : Nat) (fl : List Nat) : Nat := if lbrrSymbol (fl.take nfpp) ≠ 0 then 1 else 0

def headerEvs (cfg : Cfg) (pk : PacketIn) : List Ev :=
  .flags 0 pk.ch0.vad (lbrrFlagOf cfg.nfpp pk.ch0.lbrrFlags) (lbrr3 cfg.nfpp pk.ch0.lbrrFlags) ::
    (if cfg.nCh = 2 then [.flags 1 pk.ch1.vad (lbrrFlagOf cfg.nfpp pk.ch1.lbrrFlags) (lbrr3 cfg.nfpp pk.ch1.lbrrFlags)] else [])

/-- The operations of the header behind the placeholder: LBRR-flags symbols and LBRR data. -/
def headerOps (cfg : Cfg) (pk : PacketIn) : List Op :=
  lbrrSymOps cfg.nfpp pk.ch0.lbrrFlags ++ (if cfg.nCh = 2 then lbrrSymOps cfg.nfpp pk.ch1.lbrrFlags else []) ++
  (lbrrFrames cfg pk (List.range cfg.nfpp) { p0 := pk.ch0.prev, p1 := pk.ch1.prev }).1

/-- The conditional-coding memory when the regular frames start. -/
def headerSt (cfg : Cfg) (pk : PacketIn) : EncSt :=
  (lbrrFrames cfg pk (List.range cfg.nfpp) { p0 := pk.ch0.prev, p1 := pk.ch1.prev }).2

/-- The conditional-coding memory before call `i`. -/
def callSt (cfg : Cfg) (pk : PacketIn) (i : Nat) : EncSt :=
  (frameCalls cfg pk (List.range i) (headerSt cfg pk)).2

/-- The operations of call `i` (call 0 includes the header behind the placeholder). -/
def callOps (cfg : Cfg) (pk : PacketIn) (i : Nat) : List Op :=
  (if i = 0 then headerOps cfg pk else []) ++ (frameCall cfg pk i (callSt cfg pk i)).1

/-- What the encoder has written when call `i` is complete (without the final patch). -/
def prefixOps (cfg : Cfg) (pk : PacketIn) (i : Nat) : List Op :=
  placeholder ((cfg.nfpp + 1) * cfg.nCh) :: ((List.range (i + 1)).map (callOps cfg pk)).flatten

/-- Events of call `i`; `ret` is the `(rng, ec_tell)` it reports. -/
def callEvs (cfg : Cfg) (pk : PacketIn) (i : Nat) (ret : Nat × Int) : List Ev :=
  (if i = 0 then headerEvs cfg pk ++ lbrrFramesEvs cfg pk (List.range cfg.nfpp) { p0 := pk.ch0.prev, p1 := pk.ch1.prev } else []) ++
  frameCallEvs cfg pk i (callSt cfg pk i) ++ [.ret ret.1 ret.2]

/-- Everything `silk_Decode` reports for the payload. -/
def packetEvs (cfg : Cfg) (pk : PacketIn) (ret : Nat → Nat × Int) : List Ev :=
  ((List.range cfg.nfpp).map (fun i => callEvs cfg pk i (ret i))).flatten

end Opus.SilkSymsEnc
