import OpusProofs.DecSkelPlc
/-
  OpusProofs.DecSkelDecode — `opus_decode_frame` as called by `opus_decode_native`: with packet
  data (`decodeFrame_data`) and without (`decodeFrame_null`); the concealment loop of
  `opus_decode_native` (:728-740) and the per-frame loop (:802-811).
-/
namespace Opus.DecSkel
open Opus

theorem mul_u_le {u : Int} (hu : 0 < u) {a b : Nat} (h : (a : Int) * u ≤ b * u) : a ≤ b := by
  apply Decidable.byContradiction; intro hnot
  have h1 : ((b + 1 : Nat) : Int) * u ≤ a * u := Int.mul_le_mul_of_nonneg_right (by omega) (by omega)
  have h2 : ((b + 1 : Nat) : Int) * u = b * u + u := by push_cast; rw [Int.add_mul]; simp
  omega

theorem mul_u_lt {u : Int} (hu : 0 < u) {a b : Nat} (h : (a : Int) * u < b * u) : a < b := by
  apply Decidable.byContradiction; intro hnot
  have h1 : (b : Int) * u ≤ a * u := Int.mul_le_mul_of_nonneg_right (by omega) (by omega)
  omega

theorem mul_u_pos {u : Int} (_hu : 0 < u) {a : Nat} (h : 0 < (a : Int) * u) : 1 ≤ a := by
  rcases Nat.eq_zero_or_pos a with h0 | h0
  · subst h0; simp at h
  · exact h0

/-- `opus_decode_frame` on a frame with at least two bytes: decodes exactly `st->frame_size`
    samples per channel. -/
theorem decodeFrame_data {o : Oracle} (ho : OracleOk o) {st0 : DecState} {cap0 : Int} {off len : Int} {pcm : Ptr}
    {frame_size fec : Int} {r : Run} {u : Int} (hg : Good st0 cap0 r) (hu : Units r.st u) (hmode : r.st.mode ≠ 0)
    (hlen : 2 ≤ len ∧ len ≤ 1275) (hoff : 0 ≤ off) (hfs : r.st.frame_size ≤ frame_size)
    (hroom : pcm.room (r.st.frame_size * r.st.channels)) (hcap : PtrCapOk st0 cap0 pcm) :
    ∃ r', decodeFrame o (some off) len pcm frame_size fec r = (.ret r.st.frame_size, r') ∧ Good st0 cap0 r' ∧
      FrameRel r.st r'.st := by
  have hupos := hu.pos
  have hfsz := hg.inv.frame_size_cases hu
  have htoc := hg.inv.toc
  unfold TocOk at htoc
  simp only [hu.u400] at htoc
  unfold decodeFrame
  dsimp only
  have h1 : ¬ frame_size < F2_5 r.st := by rw [hu.f25]; omega
  have h2 : ¬ (len ≤ 1 ∨ (some off).isNone = true) := by simp; omega
  simp only [h1, h2, ↓reduceIte, hu.f120]
  have hg1 : Good st0 cap0 (r.push (.decInit ((some off).getD 0) len)) :=
    hg.push ⟨⟨by simpa using hoff, hlen.1, hlen.2⟩, by intro p hp; simp [Ev.ptr?] at hp⟩
  have hbody : BodyOk (r.push (.decInit ((some off).getD 0) len)).st u
      { data := some off, len := len, pcm := pcm, frame_size := min frame_size (48 * u), audiosize := r.st.frame_size,
        mode := r.st.mode, bandwidth := r.st.bandwidth, fec := fec } := by
    refine ⟨?_, ?_, ?_, ?_, ⟨Int.le_trans (by decide) hlen.1, hlen.2⟩, ?_, ?_⟩
    · simp only; rcases htoc with h | h | h | h
      · exact absurd h.1 hmode
      · exact Or.inl h.1
      · exact Or.inr (Or.inl h.1)
      · exact Or.inr (Or.inr h.1)
    · simp only; omega
    · simp only; intro hne
      rcases htoc with h | h | h | h
      · exact absurd h.1 hmode
      · exact absurd h.1 hne
      · have := h.2.2; omega
      · have := h.2.2; omega
    · simp only; omega
    · intro _
      refine ⟨?_, ?_, ?_, ?_⟩
      · intro x hx; simp only [Option.some.injEq] at hx; omega
      · simp only; intro hs
        rcases htoc with h | h | h | h
        · exact absurd h.1 hmode
        · exact h.2.1
        · rw [hs] at h; exact absurd h.1 (by decide)
        · rw [hs] at h; exact absurd h.1 (by decide)
      · simp only
        rcases htoc with h | h | h | h
        · exact absurd h.1 hmode
        · rcases h.2.1 with h | h | h <;> rw [h] <;> decide
        · rcases h.2.1 with h | h <;> rw [h] <;> decide
        · rcases h.2.1 with h | h | h | h <;> rw [h] <;> decide
      · simp only; intro hne
        rcases htoc with h | h | h | h
        · exact absurd h.1 hmode
        · have := h.2.2; omega
        · have := h.2.2; omega
        · exact absurd h.1 hne
    · intro h; simp at h
  obtain ⟨r', e, g, f, _⟩ := frameBody_spec ho (trans := nullFrame o) hg1 hu hbody hroom hcap
    (fun _ => transOk_nullFrame ho st0 cap0 u (nullFrameLeaf o))
  exact ⟨r', e, g, f⟩

/-- `opus_decode_frame` when the frame is NULL / DTX (`len ≤ 1`): conceals a positive multiple of
    2.5 ms, at most `min(frame_size, 120 ms, st->frame_size)`; exactly that when it is a packet
    duration. -/
theorem decodeFrame_null {o : Oracle} (ho : OracleOk o) {st0 : DecState} {cap0 : Int} {data : Option Int} {len : Int}
    {pcm : Ptr} {frame_size fec : Int} {r : Run} {u : Int} (k : Nat) (hg : Good st0 cap0 r) (hu : Units r.st u)
    (hnull : len ≤ 1 ∨ data.isNone = true) (hlen : 0 ≤ len ∧ len ≤ 1)
    (hk : min (min frame_size (48 * u)) r.st.frame_size = k * u) (hk1 : 1 ≤ k)
    (hroom : pcm.room (min (min frame_size (48 * u)) r.st.frame_size * r.st.channels)) (hcap : PtrCapOk st0 cap0 pcm) :
    ∃ v r', decodeFrame o data len pcm frame_size fec r = (.ret v, r') ∧ Good st0 cap0 r' ∧ FrameRel r.st r'.st ∧
      0 < v ∧ v ≤ min (min frame_size (48 * u)) r.st.frame_size ∧ (∃ j : Nat, v = j * u) ∧
      ((min (min frame_size (48 * u)) r.st.frame_size = u ∨ min (min frame_size (48 * u)) r.st.frame_size = 2 * u ∨
        min (min frame_size (48 * u)) r.st.frame_size = 4 * u ∨ 8 * u ≤ min (min frame_size (48 * u)) r.st.frame_size) →
        v = min (min frame_size (48 * u)) r.st.frame_size) := by
  have hupos := hu.pos
  have hpos : u ≤ (k : Int) * u := by
    have : (1 : Int) * u ≤ k * u := Int.mul_le_mul_of_nonneg_right (by omega) (by omega)
    omega
  unfold decodeFrame
  dsimp only
  have h1 : ¬ frame_size < F2_5 r.st := by rw [hu.f25]; omega
  simp only [h1, hnull, ↓reduceIte, hu.f120]
  exact nullAfterClamp_spec ho k hg hu hk hk1 hlen hroom hcap

/-- The minimum of the three clamps of a concealment call is again a multiple of 2.5 ms. -/
theorem clamp_multiple {st : DecState} {u : Int} (hinv : DecInv st) (hu : Units st u) (m : Nat) (hm : 1 ≤ m) :
    ∃ k : Nat, 1 ≤ k ∧ min (min ((m : Int) * u) (48 * u)) st.frame_size = k * u := by
  have hupos := hu.pos
  have hfsz := hinv.frame_size_cases hu
  have hcase : min (min ((m : Int) * u) (48 * u)) st.frame_size = m * u ∨
      min (min ((m : Int) * u) (48 * u)) st.frame_size = 48 * u ∨
      min (min ((m : Int) * u) (48 * u)) st.frame_size = st.frame_size := by omega
  rcases hcase with h | h | h
  · exact ⟨m, hm, h⟩
  · exact ⟨48, by omega, by rw [h]; simp⟩
  · rw [h]
    rcases hfsz with h | h | h | h | h | h
    · exact ⟨1, by omega, by rw [h]; simp⟩
    · exact ⟨2, by omega, by rw [h]; simp⟩
    · exact ⟨4, by omega, by rw [h]; simp⟩
    · exact ⟨8, by omega, by rw [h]; simp⟩
    · exact ⟨16, by omega, by rw [h]; simp⟩
    · exact ⟨24, by omega, by rw [h]; simp⟩

/-- The concealment loop of `opus_decode_native` (:728-740): terminates with exactly `frame_size`
    samples, `celt_assert(pcm_count == frame_size)` holds, `last_packet_duration = frame_size`. -/
theorem nativePlcLoop_spec {o : Oracle} (ho : OracleOk o) {st0 : DecState} {cap0 : Int} {pcm : Ptr} {frame_size : Int}
    {u : Int} (K : Nat) (hK : frame_size = K * u) (hcap : PtrCapOk st0 cap0 pcm) :
    ∀ (n c : Nat) (pcm_count : Int) (r : Run), K - c ≤ n → c < K → pcm_count = c * u → Good st0 cap0 r → Units r.st u →
      pcm.room (frame_size * r.st.channels) →
      ∃ (r1 r' : Run), nativePlcLoop o frame_size pcm pcm_count r = (.ret frame_size, r') ∧ Good st0 cap0 r' ∧
        FrameRel r.st r1.st ∧ r'.st = { r1.st with last_packet_duration := frame_size } := by
  intro n
  induction n with
  | zero => intro c _ _ h1 h2; omega
  | succ n ih =>
    intro c pcm_count r hn hcK hpc hg hu hroom
    have hupos := hu.pos
    have hch := hg.inv.ch
    have hrem : frame_size - pcm_count = ((K - c : Nat) : Int) * u := by
      rw [hK, hpc, Int.ofNat_sub (by omega), Int.sub_mul]
    obtain ⟨k, hk1, hk⟩ := clamp_multiple hg.inv hu (K - c) (by omega)
    rw [← hrem] at hk
    have hcnn : 0 ≤ (c : Int) * u := Int.mul_nonneg (by omega) (by omega)
    have hKc : (c : Int) * u ≤ K * u := Int.mul_le_mul_of_nonneg_right (by omega) (by omega)
    have hkpos : 0 < (k : Int) * u := by
      have : (1 : Int) * u ≤ k * u := Int.mul_le_mul_of_nonneg_right (by omega) (by omega)
      omega
    obtain ⟨v, r1, e1, g1, f1, hv0, hvle, ⟨j, hvj⟩, _⟩ := decodeFrame_null ho (data := none) (len := 0)
      (pcm := pcm.add (pcm_count * r.st.channels)) (frame_size := frame_size - pcm_count) (fec := 0) k hg hu
      (Or.inr rfl) (by omega) hk hk1
      (by
        rw [hk]
        have h3 : (k : Int) * u ≤ frame_size - pcm_count := by omega
        have : frame_size * r.st.channels = pcm_count * r.st.channels + (frame_size - pcm_count) * r.st.channels := by
          rw [Int.sub_mul]; omega
        rw [this] at hroom
        apply Ptr.room_add hroom
        · rcases hch with h | h <;> rw [h] <;> omega
        · rcases hch with h | h <;> rw [h] <;> omega
        · rcases hch with h | h <;> rw [h] <;> omega)
      (hcap.add _)
    rw [nativePlcLoop]
    simp only [e1]
    have hn1 : ¬ v < 0 := by omega
    have hn2 : ¬ v = 0 := by omega
    simp only [hn1, ↓reduceIte, hn2, ↓reduceDIte]
    have hj1 : 1 ≤ j := mul_u_pos (u := u) (by omega) (by rw [← hvj]; exact hv0)
    have hjle : j ≤ K - c := mul_u_le (u := u) (by omega) (by rw [← hvj, ← hrem]; omega)
    by_cases hmore : pcm_count + v < frame_size
    · simp only [hmore, ↓reduceDIte]
      have hlt : c + j < K := by
        apply mul_u_lt (u := u) (by omega)
        push_cast; rw [Int.add_mul, ← hpc, ← hvj, ← hK]; exact hmore
      obtain ⟨r2, r', e2, g2, f2, hst⟩ := ih (c + j) (pcm_count + v) r1 (by omega) hlt
        (by push_cast; rw [Int.add_mul, ← hpc, ← hvj]) g1 (hu.congr f1.fs) (by rw [f1.ch]; exact hroom)
      exact ⟨r2, r', e2, g2, f1.trans f2, hst⟩
    · simp only [hmore, ↓reduceDIte]
      have heq : pcm_count + v = frame_size := by omega
      simp only [heq, ne_eq, not_true_eq_false, ↓reduceIte]
      refine ⟨r1, _, rfl, ?_, f1, rfl⟩
      refine ⟨?_, g1.fs, g1.ch, g1.log⟩
      have hinv := g1.inv
      have : 0 ≤ frame_size := by omega
      exact { fs := hinv.fs, ch := hinv.ch, api := hinv.api, nca := hinv.nca, isr := hinv.isr, nci := hinv.nci,
              ps := hinv.ps, sch := hinv.sch, toc := hinv.toc, pm := hinv.pm, pr := hinv.pr,
              silkReady := hinv.silkReady, gain := hinv.gain, lpd := this }

/-- The per-frame loop (:802-811): every frame yields `packet_frame_size` samples
    (`celt_assert(ret==packet_frame_size)` holds), frames are laid out back to back. -/
theorem frameLoop_spec {o : Oracle} (ho : OracleOk o) {st0 : DecState} {cap0 : Int} {pcm : Ptr} {frame_size pfs : Int}
    {u : Int} (hcap : PtrCapOk st0 cap0 pcm) :
    ∀ (sizes : List Nat) (off nb : Int) (r : Run), Good st0 cap0 r → Units r.st u → r.st.mode ≠ 0 →
      r.st.frame_size = pfs → (∀ s ∈ sizes, s ≤ 1275) → 0 ≤ off → 0 ≤ nb →
      nb + sizes.length * pfs ≤ frame_size → pcm.room ((nb + sizes.length * pfs) * r.st.channels) →
      ∃ r', frameLoop o pcm frame_size pfs sizes off nb r = (.ret (nb + sizes.length * pfs), r') ∧ Good st0 cap0 r' ∧
        FrameRel r.st r'.st := by
  intro sizes
  induction sizes with
  | nil =>
    intro off nb r hg _ _ _ _ _ _ _ _
    exact ⟨r, by simp [frameLoop], hg, FrameRel.refl _⟩
  | cons sz rest ih =>
    intro off nb r hg hu hmode hpfs hsz hoff hnb hfit hroom
    have hupos := hu.pos
    have hch := hg.inv.ch
    have hfsz := hg.inv.frame_size_cases hu
    rw [hpfs] at hfsz
    have hlen : ((sz :: rest).length : Int) * pfs = pfs + rest.length * pfs := by
      simp only [List.length_cons]; push_cast; rw [Int.add_mul]; omega
    rw [hlen] at hfit hroom
    have hrestnn : 0 ≤ (rest.length : Int) * pfs := Int.mul_nonneg (by omega) (by omega)
    have hsz1 : sz ≤ 1275 := hsz sz (by simp)
    have hroom1 : (pcm.add (nb * r.st.channels)).room (pfs * r.st.channels) := by
      apply Ptr.room_add hroom
      · rcases hch with h | h <;> rw [h] <;> omega
      · rcases hch with h | h <;> rw [h] <;> omega
      · rcases hch with h | h <;> rw [h] <;> omega
    -- one frame
    have hone : ∃ r1, decodeFrame o (some off) sz (pcm.add (nb * r.st.channels)) (frame_size - nb) 0 r = (.ret pfs, r1) ∧
        Good st0 cap0 r1 ∧ FrameRel r.st r1.st := by
      by_cases h2 : 2 ≤ sz
      · have := decodeFrame_data ho (off := off) (len := sz) (pcm := pcm.add (nb * r.st.channels))
          (frame_size := frame_size - nb) (fec := 0) hg hu hmode (by omega) hoff (by omega)
          (by rw [hpfs]; exact hroom1) (hcap.add _)
        rw [hpfs] at this
        exact this
      · have hmin : min (min (frame_size - nb) (48 * u)) r.st.frame_size = pfs := by rw [hpfs]; omega
        have hk : ∃ k : Nat, 1 ≤ k ∧ pfs = k * u := by
          rcases hfsz with h | h | h | h | h | h
          · exact ⟨1, by omega, by rw [h]; simp⟩
          · exact ⟨2, by omega, by rw [h]; simp⟩
          · exact ⟨4, by omega, by rw [h]; simp⟩
          · exact ⟨8, by omega, by rw [h]; simp⟩
          · exact ⟨16, by omega, by rw [h]; simp⟩
          · exact ⟨24, by omega, by rw [h]; simp⟩
        obtain ⟨k, hk1, hk⟩ := hk
        obtain ⟨v, r1, e1, g1, f1, _, _, _, hkeep⟩ := decodeFrame_null ho (data := some off) (len := sz)
          (pcm := pcm.add (nb * r.st.channels)) (frame_size := frame_size - nb) (fec := 0) k hg hu
          (Or.inl (by omega)) (by omega) (by rw [hmin]; exact hk) hk1 (by rw [hmin]; exact hroom1) (hcap.add _)
        rw [hmin] at hkeep
        have hv : v = pfs := hkeep (by omega)
        rw [hv] at e1
        exact ⟨r1, e1, g1, f1⟩
    obtain ⟨r1, e1, g1, f1⟩ := hone
    rw [frameLoop]
    simp only [e1]
    have hn1 : ¬ pfs < 0 := by omega
    simp only [hn1, ↓reduceIte, ne_eq, not_true_eq_false]
    obtain ⟨r', e2, g2, f2⟩ := ih (off + sz) (nb + pfs) r1 g1 (hu.congr f1.fs) (by rw [f1.mode]; exact hmode)
      (by rw [f1.fsz]; exact hpfs) (fun s hs => hsz s (by simp [hs])) (by omega) (by omega) (by omega)
      (by rw [f1.ch]; have : nb + pfs + rest.length * pfs = nb + (pfs + rest.length * pfs) := by omega
          rw [this]; exact hroom)
    refine ⟨r', ?_, g2, f1.trans f2⟩
    rw [e2, hlen]
    have : nb + pfs + rest.length * pfs = nb + (pfs + rest.length * pfs) := by omega
    rw [this]

end Opus.DecSkel
