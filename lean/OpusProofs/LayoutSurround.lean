import OpusModel.LayoutSpec
import OpusModel.Matrix
import OpusProofs.Layout
import OpusProofs.LayoutCreate
/-
  OpusProofs.LayoutSurround — layout construction of the surround / ambisonics / projection
  encoders against `Opus.LayoutSpec` (C10).  The domain is finite (channels 1..255 × the mapping
  families), so the core facts are kernel-evaluated tables (`decide +kernel`, chunked); the
  arguments outside the finite domain are handled by unfolding.  Core tactics only.
-/
namespace Opus.Layout
open Opus Opus.LayoutSpec

/-! ### isqrt32 and the ambisonics counts -/

/-- `isqrt32` is the integer square root on every channel count the callers pass. -/
theorem isqrt32_spec : ∀ v ∈ List.range 256, 1 ≤ v →
    isqrt32 v * isqrt32 v ≤ v ∧ v < (isqrt32 v + 1) * (isqrt32 v + 1) := by decide +kernel

/-- What `validate_ambisonics` must answer for `ch` channels according to RFC 8486. -/
def ambiExpected (ch : Nat) : Option (Nat × Nat) :=
  (ambiOrder ch).map fun nj => ((nj.1 + 1) * (nj.1 + 1) + nj.2, nj.2)

theorem validateAmbisonics_table : ∀ ch ∈ List.range 300,
    validateAmbisonics (ch : Int) = ambiExpected ch := by decide +kernel

theorem ambiOrder_none_of_large (ch : Nat) (h : 228 ≤ ch) : ambiOrder ch = none := by
  unfold ambiOrder
  rw [List.find?_eq_none]
  intro nj hnj
  have : nj.1 ≤ 14 ∧ nj.2 ≤ 1 := by
    simp only [ambiPairs, List.mem_flatMap, List.mem_range, List.mem_cons, List.not_mem_nil, or_false] at hnj
    obtain ⟨n, hn, h | h⟩ := hnj <;> subst h <;> simp <;> omega
  have h2 : (nj.1 + 1) * (nj.1 + 1) ≤ 15 * 15 := Nat.mul_le_mul (by omega) (by omega)
  simp only [decide_eq_true_eq]
  omega

theorem validateAmbisonics_eq (ch : Int) :
    validateAmbisonics ch = if ch < 1 then none else ambiExpected ch.toNat := by
  by_cases h1 : ch < 1
  · simp [validateAmbisonics, h1]
  · by_cases h2 : ch > 227
    · have : ambiOrder ch.toNat = none := ambiOrder_none_of_large _ (by omega)
      simp [validateAmbisonics, h1, h2, ambiExpected, this]
    · have hm : ch.toNat ∈ List.range 300 := List.mem_range.2 (by omega)
      have := validateAmbisonics_table ch.toNat hm
      rw [show ((ch.toNat : Nat) : Int) = ch from by omega] at this
      rw [this, if_neg h1]

theorem ambiOrder_some_iff : ∀ ch ∈ List.range 228, ∀ n ∈ List.range 15, ∀ j ∈ List.range 2,
    ((n + 1) * (n + 1) + 2 * j = ch ↔ ambiOrder ch = some (n, j)) := by decide +kernel

/-- `ambiOrder` finds the (unique) order and non-diegetic flag. -/
theorem ambiOrder_iff (ch n j : Nat) (hn : n ≤ 14) (hj : j ≤ 1) :
    ambiOrder ch = some (n, j) ↔ ch = (n + 1) * (n + 1) + 2 * j := by
  by_cases hc : ch < 228
  · have := ambiOrder_some_iff ch (List.mem_range.2 hc) n (List.mem_range.2 (by omega)) j (List.mem_range.2 (by omega))
    rw [← this]; constructor <;> intro h <;> omega
  · rw [ambiOrder_none_of_large ch (by omega)]
    have h2 : (n + 1) * (n + 1) ≤ 15 * 15 := Nat.mul_le_mul (by omega) (by omega)
    constructor
    · intro h; cases h
    · intro h; omega

theorem ambiOrder_bounds (ch n j : Nat) (h : ambiOrder ch = some (n, j)) : n ≤ 14 ∧ j ≤ 1 := by
  unfold ambiOrder at h
  have hm := List.mem_of_find?_eq_some h
  simp only [ambiPairs, List.mem_flatMap, List.mem_range, List.mem_cons, List.not_mem_nil, or_false] at hm
  obtain ⟨n', hn', h' | h'⟩ := hm <;> cases h' <;> omega

/-! ### the surround / ambisonics layouts, every family × every channel count -/

def layoutOf (ch : Nat) (e : Nat × Nat × List Nat) : ChannelLayout :=
  { nbChannels := ch, nbStreams := e.1, nbCoupled := e.2.1, mapping := e.2.2 }

/-- LFE stream the surround encoder marks: the last stream of the 5.1 / 6.1 / 7.1 layouts. -/
def lfeOf (family : Int) (ch : Nat) (streams : Nat) : Int :=
  if family = 1 ∧ ch ≥ 6 then (streams : Int) - 1 else -1

/-- Everything the property says about one `(family, channels)` pair: when the RFC defines a
    layout, `init` and `create` succeed with exactly that layout, the multistream encoder and decoder
    both accept it, and both validators pass; otherwise both entry points refuse. -/
def SurroundSpec (family : Int) (ch : Nat) : Prop :=
  match rfcLayout family ch with
  | some e =>
    let l := layoutOf ch e
    let want : Res (Surround × MSEncoder) :=
      .ok ({ streams := e.1, coupled := e.2.1, mapping := e.2.2, lfeStream := lfeOf family ch e.1 },
           { layout := l, lfeStream := lfeOf family ch e.1, mappingType := surroundMappingType ch family })
    surroundInit true ch family = want ∧ surroundCreate true ch family = want ∧
    validateLayout l = true ∧ validateEncoderLayout l = true ∧
    decoderCreate true ch e.1 e.2.1 e.2.2 = .ok l ∧
    encoderCreate true ch e.1 e.2.1 e.2.2 = .ok { layout := l, lfeStream := -1, mappingType := .none }
  | none =>
    surroundInit true ch family = (if family = 2 then .err .badArg else .err .unimplemented) ∧
    surroundCreate true ch family = .err .unimplemented

instance (family : Int) (ch : Nat) : Decidable (SurroundSpec family ch) := by
  unfold SurroundSpec; split <;> infer_instance

/-- Families 0 and 1: kernel-evaluated for every channel count. -/
theorem surroundSpec_f0 : ∀ ch ∈ List.range 256, 1 ≤ ch → SurroundSpec 0 ch := by decide +kernel
theorem surroundSpec_f1 : ∀ ch ∈ List.range 256, 1 ≤ ch → SurroundSpec 1 ch := by decide +kernel

/-- How a layout in the shape `(ch, st, co, m)` with `m.length = ch` passes every creation
    function once it is valid in the declarative sense. -/
theorem accept_of_valid (ch st co : Nat) (m : List Nat) (hm : m.length = ch)
    (hargs : EncArgsOk ch st co)
    (hv : LayoutValid { nbChannels := ch, nbStreams := st, nbCoupled := co, mapping := m })
    (he : EncoderLayoutValid { nbChannels := ch, nbStreams := st, nbCoupled := co, mapping := m })
    (mt : MappingType) (lfe : Int) (hamb : mt = .ambisonics → (validateAmbisonics (ch : Int)).isSome = true) :
    encoderInitImpl true ch st co m mt lfe =
      .ok { layout := { nbChannels := ch, nbStreams := st, nbCoupled := co, mapping := m },
            lfeStream := if mt ≠ .surround then -1 else lfe, mappingType := mt } ∧
    decoderCreate true ch st co m = .ok { nbChannels := ch, nbStreams := st, nbCoupled := co, mapping := m } ∧
    validateLayout { nbChannels := ch, nbStreams := st, nbCoupled := co, mapping := m } = true ∧
    validateEncoderLayout { nbChannels := ch, nbStreams := st, nbCoupled := co, mapping := m } = true := by
  have hst : storedLayout (ch : Int) (st : Int) (co : Int) m =
      { nbChannels := ch, nbStreams := st, nbCoupled := co, mapping := m } := by
    simp only [storedLayout, Int.toNat_natCast]
    rw [List.take_of_length_le (by omega)]
  refine ⟨?_, ?_, (validateLayout_iff _).2 hv, (validateEncoderLayout_iff _).2 he⟩
  · rw [encoderInitImpl_ok_iff]
    refine ⟨hargs, by simp only [Int.toNat_natCast]; omega, by rw [hst]; exact hv, by rw [hst]; exact he, ?_, rfl, by rw [hst]⟩
    simpa only [Int.toNat_natCast] using hamb
  · rw [decoderCreate_eq, decoderInit_ok_iff]
    exact ⟨hargs.1, by simp only [Int.toNat_natCast]; omega, by rw [hst]; exact hv, rfl, by rw [hst]⟩

theorem surroundSizeNonzero_255 (ch : Nat) (h1 : 1 ≤ ch) : surroundSizeNonzero ch 255 = true := by
  have : ¬ ((ch : Int) < 1) := by omega
  simp [surroundSizeNonzero, this]

/-- Family 255: `ch` mono streams, identity mapping — proved for every `ch`, no enumeration. -/
theorem surroundSpec_f255 (ch : Nat) (h1 : 1 ≤ ch) (h2 : ch ≤ 255) : SurroundSpec 255 ch := by
  have hr : rfcLayout 255 ch = some (ch, 0, List.range ch) := by
    simp [rfcLayout, h1, h2]
  have hchans : (⟨ch, ch, 0, List.range ch⟩ : ChannelLayout).chans = List.range ch := by
    simp [ChannelLayout.chans]
  have hv : LayoutValid ⟨ch, ch, 0, List.range ch⟩ := by
    refine ⟨by simp only; omega, fun m hm => ?_⟩
    rw [hchans] at hm
    left; simp only; exact Nat.lt_of_lt_of_le (List.mem_range.1 hm) (by omega)
  have he : EncoderLayoutValid ⟨ch, ch, 0, List.range ch⟩ := by
    intro s hs
    refine ⟨fun h => absurd h (by simp), fun _ => ?_⟩
    rw [hchans]; simp only at hs ⊢; exact List.mem_range.2 (by omega)
  have hargs : EncArgsOk (ch : Int) (ch : Int) ((0 : Nat) : Int) := by
    unfold EncArgsOk DecArgsOk; omega
  have hmt : surroundMappingType (ch : Int) 255 = .none := by simp [surroundMappingType]
  obtain ⟨hi, hd, hvl, hel⟩ := accept_of_valid ch ch 0 (List.range ch) (by simp) hargs hv he .none (-1)
    (fun h => by cases h)
  obtain ⟨hi2, _, _, _⟩ := accept_of_valid ch ch 0 (List.range ch) (by simp) hargs hv he .none (-1)
    (fun h => by cases h)
  have hnot : ¬ ((ch : Int) > 255 ∨ (ch : Int) < 1) := by omega
  have hinit : surroundInit true ch 255 =
      .ok ({ streams := ch, coupled := 0, mapping := List.range ch, lfeStream := -1 },
           { layout := ⟨ch, ch, 0, List.range ch⟩, lfeStream := -1, mappingType := .none }) := by
    simp only [surroundInit, surroundLayout, hnot, if_false, Int.toNat_natCast, hmt]
    simp only [show ((255 : Int) = 0) = False from by simp, show ((255 : Int) = 1) = False from by simp,
      false_and, if_false, if_true]
    rw [hi]; rfl
  unfold SurroundSpec
  rw [hr]
  simp only [layoutOf, lfeOf, show ((255 : Int) = 1) = False from by simp, false_and, if_false, hmt]
  refine ⟨hinit, ?_, hvl, hel, hd, ?_⟩
  · simp only [surroundCreate, hnot, if_false, surroundSizeNonzero_255 ch h1, Bool.not_true, Bool.false_eq_true]
    exact hinit
  · rw [encoderCreate_eq]; exact hi2

/-- Family 2 (ambisonics). -/
theorem surroundSpec_f2 (ch : Nat) (h1 : 1 ≤ ch) (h2 : ch ≤ 255) : SurroundSpec 2 ch := by
  have hnot : ¬ ((ch : Int) > 255 ∨ (ch : Int) < 1) := by omega
  have hva := validateAmbisonics_eq (ch : Int)
  rw [if_neg (by omega), Int.toNat_natCast] at hva
  have hmt : surroundMappingType (ch : Int) 2 = .ambisonics := by simp [surroundMappingType]
  unfold SurroundSpec
  have hr : rfcLayout 2 ch = family2 ch := by simp [rfcLayout]
  rw [hr]
  cases hao : ambiOrder ch with
  | none =>
    have hf : family2 ch = none := by simp [family2, hao]
    have hv0 : validateAmbisonics (ch : Int) = none := by rw [hva]; simp [ambiExpected, hao]
    rw [hf]
    simp only [if_true]
    constructor
    · simp [surroundInit, surroundLayout, hnot, hv0]
    · simp [surroundCreate, surroundSizeNonzero, hnot, hv0]
  | some nj =>
    obtain ⟨n, j⟩ := nj
    obtain ⟨hn, hj⟩ := ambiOrder_bounds ch n j hao
    have hch := (ambiOrder_iff ch n j hn hj).1 hao
    generalize hacn : (n + 1) * (n + 1) = acn at hch
    have hf : family2 ch = some (acn + j, j, (List.range acn).map (· + 2 * j) ++ List.range (2 * j)) := by
      simp [family2, hao, hacn]
    have hv0 : validateAmbisonics (ch : Int) = some (acn + j, j) := by
      rw [hva]; simp [ambiExpected, hao, hacn]
    rw [hf]
    let m := (List.range acn).map (· + 2 * j) ++ List.range (2 * j)
    have hmlen : m.length = ch := by simp [m]; omega
    have hchans : (⟨ch, acn + j, j, m⟩ : ChannelLayout).chans = m := by
      simp only [ChannelLayout.chans]; exact List.take_of_length_le (by omega)
    have hv : LayoutValid ⟨ch, acn + j, j, m⟩ := by
      refine ⟨by simp only; omega, fun x hx => ?_⟩
      rw [hchans] at hx
      left
      simp only [m, List.mem_append, List.mem_map, List.mem_range] at hx ⊢
      rcases hx with ⟨a, ha, rfl⟩ | hx <;> omega
    have he : EncoderLayoutValid ⟨ch, acn + j, j, m⟩ := by
      intro s hs
      simp only at hs
      rw [hchans]
      simp only [m, List.mem_append, List.mem_map, List.mem_range]
      refine ⟨fun h => ⟨Or.inr (by omega), Or.inr (by omega)⟩, fun h => Or.inl ⟨s - j, by omega, by omega⟩⟩
    have hargs : EncArgsOk (ch : Int) ((acn + j : Nat) : Int) ((j : Nat) : Int) := by
      unfold EncArgsOk DecArgsOk; omega
    have hamb : (validateAmbisonics (ch : Int)).isSome = true := by rw [hv0]; rfl
    obtain ⟨hi, hd, hvl, hel⟩ := accept_of_valid ch (acn + j) j m hmlen hargs hv he .ambisonics (-1) (fun _ => hamb)
    obtain ⟨hi2, _, _, _⟩ := accept_of_valid ch (acn + j) j m hmlen hargs hv he .none (-1) (fun h => by cases h)
    have hmap : ambisonicsMapping (acn + j) j = m := by
      simp only [ambisonicsMapping, m, Nat.add_sub_cancel, Nat.mul_comm j 2]
    have hinit : surroundInit true ch 2 =
        .ok ({ streams := acn + j, coupled := j, mapping := m, lfeStream := -1 },
             { layout := ⟨ch, acn + j, j, m⟩, lfeStream := -1, mappingType := .ambisonics }) := by
      simp only [surroundInit, surroundLayout, hnot, if_false, hmt, hv0, hmap]
      simp only [show ((2 : Int) = 0) = False from by simp, show ((2 : Int) = 1) = False from by simp,
        show ((2 : Int) = 255) = False from by simp, false_and, if_false, if_true]
      rw [hi]; rfl
    simp only [layoutOf, lfeOf, show ((2 : Int) = 1) = False from by simp, false_and, if_false, hmt]
    refine ⟨hinit, ?_, hvl, hel, hd, ?_⟩
    · have hsz : surroundSizeNonzero (ch : Int) 2 = true := by
        simp [surroundSizeNonzero, hv0]; omega
      simp only [surroundCreate, hnot, if_false, hsz, Bool.not_true, Bool.false_eq_true]
      exact hinit
    · rw [encoderCreate_eq]; exact hi2

theorem surroundSpec_all (family : Int) (hf : family = 0 ∨ family = 1 ∨ family = 2 ∨ family = 255)
    (ch : Nat) (h1 : 1 ≤ ch) (h2 : ch ≤ 255) : SurroundSpec family ch := by
  have hm : ch ∈ List.range 256 := List.mem_range.2 (by omega)
  rcases hf with h | h | h | h <;> subst h
  · exact surroundSpec_f0 ch hm h1
  · exact surroundSpec_f1 ch hm h1
  · exact surroundSpec_f2 ch h1 h2
  · exact surroundSpec_f255 ch h1 h2

/-- Channel counts outside 1..255 and unknown families are refused by both entry points. -/
theorem surround_out_of_range (innerOk : Bool) (channels family : Int) (h : channels < 1 ∨ channels > 255) :
    surroundInit innerOk channels family = .err .badArg ∧ surroundCreate innerOk channels family = .err .badArg := by
  have h' : channels > 255 ∨ channels < 1 := by omega
  constructor
  · simp [surroundInit, surroundLayout, h']
  · simp [surroundCreate, h']

theorem surround_unknown_family (innerOk : Bool) (channels family : Int) (hc : 1 ≤ channels ∧ channels ≤ 255)
    (hf : family ≠ 0 ∧ family ≠ 1 ∧ family ≠ 2 ∧ family ≠ 255) :
    surroundInit innerOk channels family = .err .unimplemented ∧
    surroundCreate innerOk channels family = .err .unimplemented := by
  have h' : ¬ (channels > 255 ∨ channels < 1) := by omega
  constructor
  · simp [surroundInit, surroundLayout, h', hf.1, hf.2.1, hf.2.2.1, hf.2.2.2]
  · simp [surroundCreate, surroundSizeNonzero, h', hf.1, hf.2.1, hf.2.2.1, hf.2.2.2]

/-! ### family 1 against RFC 7845 -/

/-- The regenerated `vorbis_mappings` table is the pinned literal … -/
theorem vorbis_is_literal : ∀ ch ∈ List.range 9, 1 ≤ ch →
    some ((vorbisEntry ch).1, (vorbisEntry ch).2.1, (vorbisEntry ch).2.2.take ch) = family1Literal ch := by
  decide +kernel

/-- … and every entry satisfies the RFC 7845 §5.1.1.2 requirements for its loudspeaker order. -/
theorem vorbis_family1Ok : ∀ ch ∈ List.range 9, 1 ≤ ch →
    Family1Ok ch (vorbisEntry ch).1 (vorbisEntry ch).2.1 ((vorbisEntry ch).2.2.take ch) = true := by
  decide +kernel

/-! ### projection (family 3) -/

def projectionCheck (ch : Nat) : Bool :=
  match family3 ch with
  | some e =>
    let l := layoutOf ch e
    (match Matrix.builtinDims (isqrt32 ch) with
     | some (mr, mc, dr, dc) => decide (ch ≤ mr ∧ ch ≤ mc ∧ ch ≤ dr ∧ ch ≤ dc)
     | none => false) &&
    decide (projectionInit Matrix.builtinDims true ch 3 =
      .ok (e.1, e.2.1, isqrt32 ch, { layout := l, lfeStream := -1, mappingType := .none })) &&
    decide (projectionCreate Matrix.builtinDims true ch 3 = projectionInit Matrix.builtinDims true ch 3) &&
    validateLayout l && validateEncoderLayout l &&
    decide (decoderCreate true ch e.1 e.2.1 e.2.2 = .ok l)
  | none =>
    decide (projectionInit Matrix.builtinDims true ch 3 = .err .badArg) &&
    decide (projectionCreate Matrix.builtinDims true ch 3 = .err .allocFail)

theorem projectionCheck_all : ∀ ch ∈ List.range 256, 1 ≤ ch → projectionCheck ch = true := by decide +kernel

/-- Outside family 3 / 1..227 channels the projection encoder refuses. -/
theorem projection_out_of_domain (dims : Nat → Option (Nat × Nat × Nat × Nat)) (innerOk : Bool) (channels family : Int)
    (h : family ≠ 3 ∨ channels < 1 ∨ channels > 227) :
    projectionInit dims innerOk channels family = .err .badArg ∧
    projectionCreate dims innerOk channels family = .err .allocFail := by
  have hs : streamsFromChannels channels family = none := by
    unfold streamsFromChannels
    by_cases hf : family = 3
    · have hc : channels < 1 ∨ channels > 227 := by
        rcases h with h | h
        · exact absurd hf h
        · exact h
      simp [hf, orderPlusOneFromChannels, hc]
    · simp [hf]
  constructor
  · simp [projectionInit, hs]
  · simp [projectionCreate, projectionSizeNonzero, hs]

end Opus.Layout
