import OpusProofs.SilkPipeTotal
import OpusProofs.SilkResampInit
/-
  OpusProofs.SilkPipeInit — a fresh decoder satisfies the pipeline invariant, for every internal rate and API rate
  (property C03, slice SilkPipe).
-/
namespace Opus.SilkPipeProofs
open Opus Opus.SilkCore Opus.SilkPipe Opus.SilkCoreProofs OpusProofs.SilkResamp

theorem mem_replicate_zero {n : Nat} {e : Int} (h : e ∈ List.replicate n (0 : Int)) : e = 0 := List.eq_of_mem_replicate h

theorem initDec_ok (fs : Nat) (h : fs = 8 ∨ fs = 12 ∨ fs = 16) : StateOk (initDec fs 4) :=
  { cfg := ⟨h, Or.inr rfl⟩,
    slpc := by simp [initDec, Frozen.SilkCoreTabs.szSLpcQ14Buf],
    outLen := by show (List.replicate Frozen.SilkCoreTabs.szOutBuf (0 : Int)).length = 480; rw [List.length_replicate]; rfl,
    outI16 := by
      intro x hx
      have : x = 0 := mem_replicate_zero (show x ∈ List.replicate Frozen.SilkCoreTabs.szOutBuf (0 : Int) from hx)
      subst this; unfold SilkCoreProofs.I16; omega
    excLen := by show (List.replicate Frozen.SilkCoreTabs.szExcQ14 (0 : Int)).length = 320; rw [List.length_replicate]; rfl,
    nlsfLen := by simp [initDec, Frozen.SilkCoreTabs.szPrevNlsf],
    nlsfRange := by
      intro e he
      have : e = 0 := mem_replicate_zero (List.mem_of_mem_take (by simpa [initDec] using he))
      subst this; omega
    lgi := by simp [initDec, Frozen.SilkCoreTabs.setFsLastGainIndex],
    lag := fun hl => absurd rfl hl }

/-- The 15 decoder configurations: internal rate (kHz) × API rate (Hz). -/
def pipeConfigs : List (Nat × Nat) :=
  [(8, 8000), (8, 12000), (8, 16000), (8, 24000), (8, 48000), (12, 8000), (12, 12000), (12, 16000), (12, 24000), (12, 48000),
   (16, 8000), (16, 12000), (16, 16000), (16, 24000), (16, 48000)]

theorem pipeConfigs_rate : pipeConfigs.all (fun p =>
    accepted ((p.1 : Int) * 1000) (p.2 : Int) false &&
    (match Opus.SilkResamp.init ((p.1 : Int) * 1000) (p.2 : Int) false with
     | .ok R => R.cfg.fsIn == p.1 && R.cfg.fsOut * 1000 == p.2
     | _ => false)) = true := by decide +kernel

/-- A fresh decoder (state after `opus_decoder_create` and the first `silk_decoder_set_fs`) satisfies the pipeline invariant. -/
theorem initPipe_inv (fs api : Nat) (h : (fs, api) ∈ pipeConfigs) :
    ∃ S, initPipe fs api = .ok S ∧ PipeInv S ∧ S.dec.fsKHz = fs ∧ S.rs.cfg.fsOut * 1000 = api := by
  have hr := List.all_eq_true.mp pipeConfigs_rate (fs, api) h
  simp only [Bool.and_eq_true] at hr
  obtain ⟨hacc, hm⟩ := hr
  obtain ⟨c, hc, hi⟩ := init_accepted ((fs : Int) * 1000) (api : Int) false hacc
  rw [hi] at hm
  simp only [Bool.and_eq_true, beq_iff_eq] at hm
  have hfs : fs = 8 ∨ fs = 12 ∨ fs = 16 := by
    simp only [pipeConfigs, List.mem_cons, Prod.mk.injEq, List.mem_nil_iff, or_false] at h
    omega
  unfold initPipe
  simp only [hi, Res.bind_ok, Res.pure_eq]
  refine ⟨_, rfl, ?_, rfl, hm.2⟩
  exact { dec := initDec_ok fs hfs, rs := fresh_inv hc, rate := hm.1, midLen := rfl,
          mid16 := by
            intro x hx
            have : x = 0 := by
              have hx' : x ∈ [(0 : Int), 0] := hx
              simpa using hx'
            subst this; unfold SilkCoreProofs.I16; omega }

end Opus.SilkPipeProofs
