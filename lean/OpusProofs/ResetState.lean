import OpusModel.ResetState
/-
  OpusProofs.ResetState — lemmas behind OpusProps.C12:
    * structural invariant `Inv` of every reachable encoder state,
    * `view (encReset s) = view (encFresh … (settingsOf s))`,
    * the view is a bisimulation for every operation (set / get / reset / encode footprint).
-/
namespace Opus.ResetState

/-- Members that never change after `opus_encoder_init` (no request, reset or encode writes them). -/
structure Inv (s : Enc) : Prop where
  delay : s.delayCompensation = s.fs / 250
  buffer : s.encoderBuffer = s.fs / 100
  celtCh : s.celt.channels = s.channels
  celtClip : s.celt.clip = 1
  celtUp : s.celt.upsample = resamplingFactor s.fs
  celtSig : s.celt.signalling = 0
  celtArch : s.celt.arch = s.arch

theorem inv_init (fs ch app arch so co : Int) : Inv (encInit fs ch app arch so co) :=
  ⟨rfl, rfl, rfl, rfl, rfl, rfl, rfl⟩

theorem inv_reset {s : Enc} (h : Inv s) : Inv (encReset s) :=
  ⟨h.delay, h.buffer, h.celtCh, h.celtClip, h.celtUp, h.celtSig, h.celtArch⟩

theorem inv_withSettings {s : Enc} (c : Settings) (h : Inv s) : Inv (withSettings s c) :=
  ⟨h.delay, h.buffer, h.celtCh, h.celtClip, h.celtUp, h.celtSig, h.celtArch⟩

theorem inv_setApply {s : Enc} (k : SetReq) (v : Int) (h : Inv s) : Inv (setApply s k v) := by
  cases k <;> exact ⟨h.delay, h.buffer, h.celtCh, h.celtClip, h.celtUp, h.celtSig, h.celtArch⟩

theorem inv_encSet {s s' : Enc} {req v : Int} (h : Inv s) (hs : encSet s req v = some s') : Inv s' := by
  unfold encSet at hs
  split at hs
  · unfold encSetK at hs
    split at hs
    · simp only [Option.some.injEq] at hs; subst hs; exact inv_setApply _ _ h
    · simp at hs
  · simp at hs

theorem inv_encodeStep (O : Oracles) {s : Enc} (x : Inp) (h : Inv s) : Inv (encodeStep O s x).1 := by
  unfold encodeStep
  simp only []
  split
  · exact ⟨h.delay, h.buffer, h.celtCh, h.celtClip, h.celtUp, h.celtSig, h.celtArch⟩
  · exact ⟨h.delay, h.buffer, h.celtCh, h.celtClip, h.celtUp, h.celtSig, h.celtArch⟩
  · split <;> exact ⟨h.delay, h.buffer, h.celtCh, h.celtClip, h.celtUp, h.celtSig, h.celtArch⟩

/-- States reachable from `opus_encoder_init` by any sequence of accepted OPUS_SET_* requests,
    OPUS_RESET_STATE and encode calls (for any oracle behaviour and any input). -/
inductive Reach : Enc → Prop
  | init (fs ch app arch so co : Int) : Reach (encInit fs ch app arch so co)
  | set {s s' : Enc} (req v : Int) : Reach s → encSet s req v = some s' → Reach s'
  | reset {s : Enc} : Reach s → Reach (encReset s)
  | encode {s : Enc} (O : Oracles) (x : Inp) : Reach s → Reach (encodeStep O s x).1

theorem reach_inv {s : Enc} (h : Reach s) : Inv s := by
  induction h with
  | init => exact inv_init ..
  | set req v _ hs ih => exact inv_encSet ih hs
  | reset _ ih => exact inv_reset ih
  | encode O x _ ih => exact inv_encodeStep O x ih

/-- Reset leaves exactly the view of a new encoder carrying the same settings. -/
theorem view_reset_eq_fresh {s : Enc} (h : Inv s) :
    view (encReset s) = view (encFresh s.fs s.channels s.arch s.silkEncOffset s.celtEncOffset (settingsOf s)) := by
  obtain ⟨h1, h2, h3, h4, h5, h6, h7⟩ := h
  simp [view, encReset, encFresh, withSettings, settingsOf, encInit, silkCtlInit, celtCfgInit,
        MODE_SILK_ONLY, MODE_HYBRID, h1, h2, h3, h4, h5, h6, h7]

/-! ### The view is a bisimulation -/

theorem view_encReset {a b : Enc} (h : view a = view b) : view (encReset a) = view (encReset b) := by
  simp only [view, View.mk.injEq] at h
  simp [view, encReset, MODE_SILK_ONLY, MODE_HYBRID, h]

/-- `view a = view b`, member by member; the gated members as implications. -/
structure ViewEq (a b : Enc) : Prop where
  celtEncOffset : a.celtEncOffset = b.celtEncOffset
  silkEncOffset : a.silkEncOffset = b.silkEncOffset
  application : a.application = b.application
  channels : a.channels = b.channels
  delayCompensation : a.delayCompensation = b.delayCompensation
  forceChannels : a.forceChannels = b.forceChannels
  signalType : a.signalType = b.signalType
  userBandwidth : a.userBandwidth = b.userBandwidth
  maxBandwidth : a.maxBandwidth = b.maxBandwidth
  userForcedMode : a.userForcedMode = b.userForcedMode
  voiceRatio : a.voiceRatio = b.voiceRatio
  fs : a.fs = b.fs
  useVbr : a.useVbr = b.useVbr
  vbrConstraint : a.vbrConstraint = b.vbrConstraint
  variableDuration : a.variableDuration = b.variableDuration
  userBitrateBps : a.userBitrateBps = b.userBitrateBps
  lsbDepth : a.lsbDepth = b.lsbDepth
  encoderBuffer : a.encoderBuffer = b.encoderBuffer
  lfe : a.lfe = b.lfe
  arch : a.arch = b.arch
  useDtx : a.useDtx = b.useDtx
  fecConfig : a.fecConfig = b.fecConfig
  analysisApp : a.analysisApp = b.analysisApp
  analysis : a.analysis = b.analysis
  streamChannels : a.streamChannels = b.streamChannels
  hybridStereoWidthQ14 : a.hybridStereoWidthQ14 = b.hybridStereoWidthQ14
  variableHPsmth2Q15 : a.variableHPsmth2Q15 = b.variableHPsmth2Q15
  prevHBgain : a.prevHBgain = b.prevHBgain
  hpMem : a.hpMem = b.hpMem
  mode : a.mode = b.mode
  prevMode : a.prevMode = b.prevMode
  prevChannels : a.prevChannels = b.prevChannels
  prevFramesize : a.prevFramesize = b.prevFramesize
  bandwidth : a.bandwidth = b.bandwidth
  autoBandwidth : a.autoBandwidth = b.autoBandwidth
  silkBwSwitch : a.silkBwSwitch = b.silkBwSwitch
  first : a.first = b.first
  energyMasking : a.energyMasking = b.energyMasking
  widthMem : a.widthMem = b.widthMem
  delayBuffer : a.delayBuffer = b.delayBuffer
  detectedBandwidth : a.detectedBandwidth = b.detectedBandwidth
  nbNoActivityMsQ1 : a.nbNoActivityMsQ1 = b.nbNoActivityMsQ1
  peakSignalEnergy : a.peakSignalEnergy = b.peakSignalEnergy
  nonfinalFrame : a.nonfinalFrame = b.nonfinalFrame
  rangeFinal : a.rangeFinal = b.rangeFinal
  packetLossPercentage : a.silkMode.packetLossPercentage = b.silkMode.packetLossPercentage
  complexity : a.silkMode.complexity = b.silkMode.complexity
  useInBandFEC : a.silkMode.useInBandFEC = b.silkMode.useInBandFEC
  useDRED : a.silkMode.useDRED = b.silkMode.useDRED
  reducedDependency : a.silkMode.reducedDependency = b.silkMode.reducedDependency
  lbrrCoded : a.silkMode.lbrrCoded = b.silkMode.lbrrCoded
  allowBandwidthSwitch : a.silkMode.allowBandwidthSwitch = b.silkMode.allowBandwidthSwitch
  inWBmodeWithoutVariableLP : a.silkMode.inWBmodeWithoutVariableLP = b.silkMode.inWBmodeWithoutVariableLP
  celtChannels : a.celt.channels = b.celt.channels
  celtForceIntra : a.celt.forceIntra = b.celt.forceIntra
  celtClip : a.celt.clip = b.celt.clip
  celtDisablePf : a.celt.disablePf = b.celt.disablePf
  celtComplexity : a.celt.complexity = b.celt.complexity
  celtUpsample : a.celt.upsample = b.celt.upsample
  celtSignalling : a.celt.signalling = b.celt.signalling
  celtLossRate : a.celt.lossRate = b.celt.lossRate
  celtLfe : a.celt.lfe = b.celt.lfe
  celtDisableInv : a.celt.disableInv = b.celt.disableInv
  celtArch : a.celt.arch = b.celt.arch
  silkState : a.silkState = b.silkState
  celtState : a.celtState = b.celtState
  toMono : b.prevChannels = 2 → a.silkMode.toMono = b.silkMode.toMono
  useDTX : (b.prevMode = MODE_SILK_ONLY ∨ b.prevMode = MODE_HYBRID ∨ b.nbNoActivityMsQ1 ≠ 0 ∨ b.silkState ≠ .fresh) → a.silkMode.useDTX = b.silkMode.useDTX
  nChInt : (b.prevMode = MODE_SILK_ONLY ∨ b.prevMode = MODE_HYBRID) → a.silkMode.nChannelsInternal = b.silkMode.nChannelsInternal
  canSwitch : b.silkState ≠ .fresh → a.silkMode.opusCanSwitch = b.silkMode.opusCanSwitch

theorem viewEq_of_view {a b : Enc} (h : view a = view b) : ViewEq a b := by
  simp only [view, View.mk.injEq] at h
  obtain ⟨h_celtEncOffset, h_silkEncOffset, h_application, h_channels, h_delayCompensation, h_forceChannels, h_signalType, h_userBandwidth, h_maxBandwidth, h_userForcedMode, h_voiceRatio, h_fs, h_useVbr, h_vbrConstraint, h_variableDuration, h_userBitrateBps, h_lsbDepth, h_encoderBuffer, h_lfe, h_arch, h_useDtx, h_fecConfig, h_analysisApp, h_analysis, h_streamChannels, h_hybridStereoWidthQ14, h_variableHPsmth2Q15, h_prevHBgain, h_hpMem, h_mode, h_prevMode, h_prevChannels, h_prevFramesize, h_bandwidth, h_autoBandwidth, h_silkBwSwitch, h_first, h_energyMasking, h_widthMem, h_delayBuffer, h_detectedBandwidth, h_nbNoActivityMsQ1, h_peakSignalEnergy, h_nonfinalFrame, h_rangeFinal, h_packetLossPercentage, h_complexity, h_useInBandFEC, h_useDRED, h_reducedDependency, h_lbrrCoded, h_allowBandwidthSwitch, h_inWBmodeWithoutVariableLP, g_toMonoGated, g_useDTXGated, g_nChannelsInternalGated, g_opusCanSwitchGated, h_celtChannels, h_celtForceIntra, h_celtClip, h_celtDisablePf, h_celtComplexity, h_celtUpsample, h_celtSignalling, h_celtLossRate, h_celtLfe, h_celtDisableInv, h_celtArch, h_silkState, h_celtState⟩ := h
  refine { celtEncOffset := h_celtEncOffset, silkEncOffset := h_silkEncOffset, application := h_application, channels := h_channels, delayCompensation := h_delayCompensation, forceChannels := h_forceChannels, signalType := h_signalType, userBandwidth := h_userBandwidth, maxBandwidth := h_maxBandwidth, userForcedMode := h_userForcedMode, voiceRatio := h_voiceRatio, fs := h_fs, useVbr := h_useVbr, vbrConstraint := h_vbrConstraint, variableDuration := h_variableDuration, userBitrateBps := h_userBitrateBps, lsbDepth := h_lsbDepth, encoderBuffer := h_encoderBuffer, lfe := h_lfe, arch := h_arch, useDtx := h_useDtx, fecConfig := h_fecConfig, analysisApp := h_analysisApp, analysis := h_analysis, streamChannels := h_streamChannels, hybridStereoWidthQ14 := h_hybridStereoWidthQ14, variableHPsmth2Q15 := h_variableHPsmth2Q15, prevHBgain := h_prevHBgain, hpMem := h_hpMem, mode := h_mode, prevMode := h_prevMode, prevChannels := h_prevChannels, prevFramesize := h_prevFramesize, bandwidth := h_bandwidth, autoBandwidth := h_autoBandwidth, silkBwSwitch := h_silkBwSwitch, first := h_first, energyMasking := h_energyMasking, widthMem := h_widthMem, delayBuffer := h_delayBuffer, detectedBandwidth := h_detectedBandwidth, nbNoActivityMsQ1 := h_nbNoActivityMsQ1, peakSignalEnergy := h_peakSignalEnergy, nonfinalFrame := h_nonfinalFrame, rangeFinal := h_rangeFinal, packetLossPercentage := h_packetLossPercentage, complexity := h_complexity, useInBandFEC := h_useInBandFEC, useDRED := h_useDRED, reducedDependency := h_reducedDependency, lbrrCoded := h_lbrrCoded, allowBandwidthSwitch := h_allowBandwidthSwitch, inWBmodeWithoutVariableLP := h_inWBmodeWithoutVariableLP, celtChannels := h_celtChannels, celtForceIntra := h_celtForceIntra, celtClip := h_celtClip, celtDisablePf := h_celtDisablePf, celtComplexity := h_celtComplexity, celtUpsample := h_celtUpsample, celtSignalling := h_celtSignalling, celtLossRate := h_celtLossRate, celtLfe := h_celtLfe, celtDisableInv := h_celtDisableInv, celtArch := h_celtArch, silkState := h_silkState, celtState := h_celtState, toMono := ?_, useDTX := ?_, nChInt := ?_, canSwitch := ?_ }
  · intro hp; rw [h_prevChannels, if_pos hp, if_pos hp] at g_toMonoGated; exact g_toMonoGated
  · intro hp; rw [h_prevMode, h_nbNoActivityMsQ1, h_silkState, if_pos hp, if_pos hp] at g_useDTXGated; exact g_useDTXGated
  · intro hp; rw [h_prevMode, if_pos hp, if_pos hp] at g_nChannelsInternalGated; exact g_nChannelsInternalGated
  · intro hp; rw [h_silkState, if_neg hp, if_neg hp] at g_opusCanSwitchGated; exact g_opusCanSwitchGated

theorem view_of_viewEq {a b : Enc} (h : ViewEq a b) : view a = view b := by
  obtain ⟨h_celtEncOffset, h_silkEncOffset, h_application, h_channels, h_delayCompensation, h_forceChannels, h_signalType, h_userBandwidth, h_maxBandwidth, h_userForcedMode, h_voiceRatio, h_fs, h_useVbr, h_vbrConstraint, h_variableDuration, h_userBitrateBps, h_lsbDepth, h_encoderBuffer, h_lfe, h_arch, h_useDtx, h_fecConfig, h_analysisApp, h_analysis, h_streamChannels, h_hybridStereoWidthQ14, h_variableHPsmth2Q15, h_prevHBgain, h_hpMem, h_mode, h_prevMode, h_prevChannels, h_prevFramesize, h_bandwidth, h_autoBandwidth, h_silkBwSwitch, h_first, h_energyMasking, h_widthMem, h_delayBuffer, h_detectedBandwidth, h_nbNoActivityMsQ1, h_peakSignalEnergy, h_nonfinalFrame, h_rangeFinal, h_packetLossPercentage, h_complexity, h_useInBandFEC, h_useDRED, h_reducedDependency, h_lbrrCoded, h_allowBandwidthSwitch, h_inWBmodeWithoutVariableLP, h_celtChannels, h_celtForceIntra, h_celtClip, h_celtDisablePf, h_celtComplexity, h_celtUpsample, h_celtSignalling, h_celtLossRate, h_celtLfe, h_celtDisableInv, h_celtArch, h_silkState, h_celtState, g1, g2, g3, g4⟩ := h
  simp only [view, View.mk.injEq]
  refine ⟨h_celtEncOffset, h_silkEncOffset, h_application, h_channels, h_delayCompensation, h_forceChannels, h_signalType, h_userBandwidth, h_maxBandwidth, h_userForcedMode, h_voiceRatio, h_fs, h_useVbr, h_vbrConstraint, h_variableDuration, h_userBitrateBps, h_lsbDepth, h_encoderBuffer, h_lfe, h_arch, h_useDtx, h_fecConfig, h_analysisApp, h_analysis, h_streamChannels, h_hybridStereoWidthQ14, h_variableHPsmth2Q15, h_prevHBgain, h_hpMem, h_mode, h_prevMode, h_prevChannels, h_prevFramesize, h_bandwidth, h_autoBandwidth, h_silkBwSwitch, h_first, h_energyMasking, h_widthMem, h_delayBuffer, h_detectedBandwidth, h_nbNoActivityMsQ1, h_peakSignalEnergy, h_nonfinalFrame, h_rangeFinal, h_packetLossPercentage, h_complexity, h_useInBandFEC, h_useDRED, h_reducedDependency, h_lbrrCoded, h_allowBandwidthSwitch, h_inWBmodeWithoutVariableLP, ?_, ?_, ?_, ?_, h_celtChannels, h_celtForceIntra, h_celtClip, h_celtDisablePf, h_celtComplexity, h_celtUpsample, h_celtSignalling, h_celtLossRate, h_celtLfe, h_celtDisableInv, h_celtArch, h_silkState, h_celtState⟩
  · rw [h_prevChannels]; split <;> simp_all
  · rw [h_prevMode, h_nbNoActivityMsQ1, h_silkState]; split <;> simp_all
  · rw [h_prevMode]; split <;> simp_all
  · rw [h_silkState]; split <;> simp_all

theorem viewEq_refl (a : Enc) : ViewEq a a := viewEq_of_view rfl

theorem viewEq_setApply {a b : Enc} (k : SetReq) (v : Int) (he : ViewEq a b) :
    ViewEq (setApply a k v) (setApply b k v) := by
  cases k
  case application => exact { he with application := rfl, analysisApp := rfl }
  case bitrate => exact { he with userBitrateBps := by simp only [setApply, he.channels] }
  case forceChannels => exact { he with forceChannels := rfl }
  case maxBandwidth => exact { he with maxBandwidth := rfl }
  case bandwidth => exact { he with userBandwidth := rfl }
  case dtx => exact { he with useDtx := rfl }
  case complexity => exact { he with complexity := rfl, celtComplexity := rfl }
  case inbandFec => exact { he with fecConfig := rfl, useInBandFEC := rfl }
  case packetLoss => exact { he with packetLossPercentage := rfl, celtLossRate := rfl }
  case vbr => exact { he with useVbr := rfl }
  case vbrConstraint => exact { he with vbrConstraint := rfl }
  case signal => exact { he with signalType := rfl }
  case lsbDepth => exact { he with lsbDepth := rfl }
  case frameDuration => exact { he with variableDuration := rfl }
  case predictionDisabled => exact { he with reducedDependency := rfl }
  case phaseInversionDisabled => exact { he with celtDisableInv := rfl }
  case forceMode => exact { he with userForcedMode := rfl }
  case lfe => exact { he with lfe := rfl, celtLfe := rfl }

/-- A setting request answers the same on indistinguishable objects and keeps them indistinguishable. -/
theorem view_encSet {a b : Enc} (req v : Int) (h : view a = view b) :
    (encSet a req v = none ∧ encSet b req v = none) ∨
    (∃ a' b', encSet a req v = some a' ∧ encSet b req v = some b' ∧ view a' = view b') := by
  unfold encSet
  cases SetReq.ofId req with
  | none => exact Or.inl ⟨rfl, rfl⟩
  | some k =>
    simp only [encSetK, h]
    by_cases hc : setAccept (view b) k v = true
    · simp only [hc, if_true]
      exact Or.inr ⟨_, _, rfl, rfl, view_of_viewEq (viewEq_setApply k v (viewEq_of_view h))⟩
    · simp only [hc]; exact Or.inl ⟨rfl, rfl⟩

/-- One encode call answers the same on indistinguishable objects and keeps them indistinguishable. -/
theorem encodeStep_congr (O : Oracles) {a b : Enc} (x : Inp) (h : view a = view b) :
    view (encodeStep O a x).1 = view (encodeStep O b x).1 ∧ (encodeStep O a x).2 = (encodeStep O b x).2 := by
  have he := viewEq_of_view h
  unfold encodeStep
  simp only [h]
  cases hp : O.path (view b) x <;> simp only []
  all_goals refine ⟨view_of_viewEq ?_, by first | trivial | rfl⟩
  · exact { he with rangeFinal := rfl }
  · exact { he with analysis := rfl, peakSignalEnergy := rfl, voiceRatio := rfl, detectedBandwidth := rfl, widthMem := rfl, rangeFinal := rfl }
  · -- SILK produced no output: prev_mode unchanged
    by_cases hr : (O.phaseB (view b) (O.phaseA (view b) x) x).silkRan = true
    · simp only [hr, if_true]
      exact { he with prevChannels := rfl, analysis := rfl, peakSignalEnergy := rfl, voiceRatio := rfl, detectedBandwidth := rfl, widthMem := rfl, rangeFinal := rfl, streamChannels := rfl, mode := rfl, bandwidth := rfl, autoBandwidth := rfl, celtState := rfl, celtForceIntra := rfl, celtDisablePf := rfl, hybridStereoWidthQ14 := rfl, variableHPsmth2Q15 := rfl, prevHBgain := rfl, hpMem := rfl, delayBuffer := rfl, silkBwSwitch := rfl, nonfinalFrame := rfl, lbrrCoded := rfl, toMono := fun _ => rfl, useDTX := fun _ => rfl, silkState := rfl, allowBandwidthSwitch := rfl, inWBmodeWithoutVariableLP := rfl, canSwitch := fun _ => rfl, nChInt := fun _ => rfl }
    · simp only [hr]
      exact { he with prevChannels := rfl, analysis := rfl, peakSignalEnergy := rfl, voiceRatio := rfl, detectedBandwidth := rfl, widthMem := rfl, rangeFinal := rfl, streamChannels := rfl, mode := rfl, bandwidth := rfl, autoBandwidth := rfl, celtState := rfl, celtForceIntra := rfl, celtDisablePf := rfl, hybridStereoWidthQ14 := rfl, variableHPsmth2Q15 := rfl, prevHBgain := rfl, hpMem := rfl, delayBuffer := rfl, silkBwSwitch := rfl, nonfinalFrame := rfl, lbrrCoded := rfl, toMono := fun _ => rfl, useDTX := fun _ => rfl }
  · -- at least one frame completed
    by_cases hw : isSilkMode (O.phaseB (view b) (O.phaseA (view b) x) x).prevMode = true
    · simp only [hw, Bool.or_true, if_true]
      exact { he with analysis := rfl, peakSignalEnergy := rfl, voiceRatio := rfl, detectedBandwidth := rfl, widthMem := rfl, rangeFinal := rfl, streamChannels := rfl, mode := rfl, bandwidth := rfl, autoBandwidth := rfl, celtState := rfl, celtForceIntra := rfl, celtDisablePf := rfl, hybridStereoWidthQ14 := rfl, variableHPsmth2Q15 := rfl, prevHBgain := rfl, hpMem := rfl, delayBuffer := rfl, silkBwSwitch := rfl, nonfinalFrame := rfl, lbrrCoded := rfl, toMono := fun _ => rfl, useDTX := fun _ => rfl, silkState := rfl, allowBandwidthSwitch := rfl, inWBmodeWithoutVariableLP := rfl, canSwitch := fun _ => rfl, nChInt := fun _ => rfl, prevMode := rfl, prevChannels := rfl, prevFramesize := rfl, first := rfl, nbNoActivityMsQ1 := rfl }
    · have hw' : ¬ ((O.phaseB (view b) (O.phaseA (view b) x) x).prevMode = MODE_SILK_ONLY ∨ (O.phaseB (view b) (O.phaseA (view b) x) x).prevMode = MODE_HYBRID) := by
        intro hg; apply hw; simpa [isSilkMode] using hg
      by_cases hr : (O.phaseB (view b) (O.phaseA (view b) x) x).silkRan = true
      · simp only [hw, hr, Bool.or_false, if_true]
        exact { he with analysis := rfl, peakSignalEnergy := rfl, voiceRatio := rfl, detectedBandwidth := rfl, widthMem := rfl, rangeFinal := rfl, streamChannels := rfl, mode := rfl, bandwidth := rfl, autoBandwidth := rfl, celtState := rfl, celtForceIntra := rfl, celtDisablePf := rfl, hybridStereoWidthQ14 := rfl, variableHPsmth2Q15 := rfl, prevHBgain := rfl, hpMem := rfl, delayBuffer := rfl, silkBwSwitch := rfl, nonfinalFrame := rfl, lbrrCoded := rfl, toMono := fun _ => rfl, useDTX := fun _ => rfl, silkState := rfl, allowBandwidthSwitch := rfl, inWBmodeWithoutVariableLP := rfl, canSwitch := fun _ => rfl, nChInt := fun _ => rfl, prevMode := rfl, prevChannels := rfl, prevFramesize := rfl, first := rfl, nbNoActivityMsQ1 := rfl }
      · simp only [hw, hr, Bool.or_false]
        exact { he with analysis := rfl, peakSignalEnergy := rfl, voiceRatio := rfl, detectedBandwidth := rfl, widthMem := rfl, rangeFinal := rfl, streamChannels := rfl, mode := rfl, bandwidth := rfl, autoBandwidth := rfl, celtState := rfl, celtForceIntra := rfl, celtDisablePf := rfl, hybridStereoWidthQ14 := rfl, variableHPsmth2Q15 := rfl, prevHBgain := rfl, hpMem := rfl, delayBuffer := rfl, silkBwSwitch := rfl, nonfinalFrame := rfl, lbrrCoded := rfl, toMono := fun _ => rfl, useDTX := fun _ => rfl, prevMode := rfl, prevChannels := rfl, prevFramesize := rfl, first := rfl, nbNoActivityMsQ1 := rfl, nChInt := fun hg => absurd hg hw' }

theorem view_encGet (G : GetOracle) {a b : Enc} (req : Int) (h : view a = view b) :
    encGet G a req = encGet G b req := by
  unfold encGet; rw [h]

theorem runOp_congr (O : Oracles) (G : GetOracle) {a b : Enc} (op : Op) (h : view a = view b) :
    view (runOp O G a op).1 = view (runOp O G b op).1 ∧ (runOp O G a op).2 = (runOp O G b op).2 := by
  cases op with
  | set req v =>
    rcases view_encSet req v h with ⟨ha, hb⟩ | ⟨a', b', ha, hb, hv⟩
    · simp only [runOp, ha, hb]; exact ⟨h, trivial⟩
    · simp only [runOp, ha, hb]; exact ⟨hv, trivial⟩
  | get req => simp only [runOp, view_encGet G req h]; exact ⟨h, trivial⟩
  | reset => exact ⟨view_encReset h, rfl⟩
  | encode x =>
    have hc := encodeStep_congr O x h
    simp only [runOp]
    exact ⟨hc.1, by rw [hc.2]⟩

/-- Indistinguishable objects answer every call sequence identically. -/
theorem run_congr (O : Oracles) (G : GetOracle) (ops : List Op) :
    ∀ {a b : Enc}, view a = view b → run O G a ops = run O G b ops := by
  induction ops with
  | nil => intros; rfl
  | cons op rest ih =>
    intro a b h
    have hc := runOp_congr O G op h
    simp only [run]
    rw [hc.2, ih hc.1]

/-! ### Decoder -/

structure DecInv (s : Dec) : Prop where
  api : s.dcNChannelsAPI = s.channels
  rate : s.dcApiSampleRate = s.fs

theorem decInv_init (fs ch arch so co : Int) : DecInv (decInit fs ch arch so co) := ⟨rfl, rfl⟩
theorem decInv_reset {s : Dec} (h : DecInv s) : DecInv (decReset s) := ⟨h.api, h.rate⟩

theorem decView_reset_eq_fresh {s : Dec} (h : DecInv s) :
    decView (decReset s) =
      decView (decFresh s.fs s.channels s.arch s.silkDecOffset s.celtDecOffset s.decodeGain s.complexity
                 s.celtComplexity s.celtDisableInv) := by
  obtain ⟨h1, h2⟩ := h
  simp [decView, decReset, decFresh, decWithSettings, decInit, MODE_SILK_ONLY, MODE_HYBRID, h1, h2]

end Opus.ResetState
