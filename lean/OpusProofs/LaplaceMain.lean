import OpusProofs.LaplaceCode
/-
  OpusProofs.LaplaceMain — decode inverts encode (and conversely) at the interval level, for every parameter pair
  with `Par`; `LaplaceOk` for every parameter pair of the energy model.
-/
namespace OpusProofs.Laplace
open Opus Opus.Laplace
open Opus.Gen.CeltTables (eProbModel)

variable {fs decay T : Nat}

theorem enc_zero (fs decay : Nat) : encode 0 fs decay = .ok (0, fs, 0) := by
  unfold encode; rw [if_pos rfl]

/-- Every point of the range decodes to a value whose encoder interval is the decoder's interval and contains
    the point; that value is not changed by the encoder's clamping. -/
theorem decode_then_encode (hp : Par fs decay T) {fm : Nat} (hfm : fm < 32768) :
    ∃ v fl fh, decode fm fs decay = .ok (v, fl, fh) ∧ fl ≤ fm ∧ fm < fh ∧ fh ≤ 32768 ∧
      encode v fs decay = .ok (fl, fh, v) := by
  have hfs : fs ≤ 32766 := Nat.le_trans (L_mono fs decay (Nat.zero_le T)) hp.room
  by_cases h0 : fm < fs
  · exact ⟨0, 0, fs, dec_zero hp h0, Nat.zero_le _, h0, by omega, enc_zero fs decay⟩
  · obtain ⟨J, _, hJT, hlo, hhi⟩ := exists_J (fs := fs) (decay := decay) (T := T) fm T 0 (by omega)
      (show L fs decay 0 ≤ fm by simp only [L]; omega)
    by_cases hJ : J < T
    · have hhi' := hhi hJ
      have hroom := room_le hp hJ
      rw [dec_A hp hJ hlo hhi']
      simp only [L] at hhi'
      by_cases hlt : fm < L fs decay J + (F fs decay J + 1)
      · rw [if_pos hlt]
        exact ⟨_, _, _, rfl, hlo, hlt, by omega, enc_A_neg hp hJ⟩
      · rw [if_neg hlt]
        exact ⟨_, _, _, rfl, by omega, by omega, by omega, enc_A_pos hp hJ⟩
    · have hJe : J = T := by omega
      subst hJe
      have hroom := hp.room
      rw [dec_B hp hlo hfm]
      by_cases hev : (fm - L fs decay J) % 2 = 0
      · rw [if_pos hev]
        refine ⟨_, _, _, rfl, Nat.le_refl _, by omega, by omega, ?_⟩
        have := enc_B_neg hp (a := J + 1 + (fm - L fs decay J) / 2) (by omega)
        rw [this]
        generalize L fs decay J = l at *
        simp only [Res.ok.injEq, Prod.mk.injEq]
        refine ⟨by omega, by omega, by omega⟩
      · rw [if_neg hev]
        refine ⟨_, _, _, rfl, Nat.le_refl _, by omega, by omega, ?_⟩
        have := enc_B_pos hp (a := J + 1 + (fm - L fs decay J) / 2) (by omega)
        rw [this]
        generalize L fs decay J = l at *
        simp only [Res.ok.injEq, Prod.mk.injEq]
        refine ⟨by omega, by omega, by omega⟩

/-- The encoder never asserts, produces a non-empty interval inside `[0, 32768)`, and every point of that interval
    decodes to the (clamped) value with the same interval.  The clamped value keeps the sign, does not grow, and a
    value is only changed when its symbol would start at or beyond 32766 (the last symbols of the range). -/
theorem encode_then_decode (hp : Par fs decay T) (value : Int) :
    ∃ fl fh v', encode value fs decay = .ok (fl, fh, v') ∧ fl < fh ∧ fh ≤ 32768 ∧
      (∀ fm, fl ≤ fm → fm < fh → decode fm fs decay = .ok (v', fl, fh)) ∧
      (v' < 0 ↔ value < 0) ∧ v'.natAbs ≤ value.natAbs ∧ (v' ≠ value → 32766 ≤ fl) := by
  have hfs : fs ≤ 32766 := Nat.le_trans (L_mono fs decay (Nat.zero_le T)) hp.room
  have hroomT := hp.room
  by_cases hz : value = 0
  · subst hz
    exact ⟨0, fs, 0, enc_zero fs decay, hp.fs_pos, by omega, fun fm _ h => dec_zero hp h, by omega, by omega,
      fun h => absurd rfl h⟩
  · obtain ⟨a, ha1, hva⟩ : ∃ a : Nat, 1 ≤ a ∧ (value = -(a : Int) ∨ value = (a : Int)) :=
      ⟨value.natAbs, by omega, by omega⟩
    by_cases hJ : a - 1 < T
    · obtain ⟨J, rfl⟩ : ∃ J, a = J + 1 := ⟨a - 1, by omega⟩
      have hJ' : J < T := by omega
      have hroom := room_le hp hJ'
      have hpos := hp.pos J hJ'
      rcases hva with rfl | rfl
      · refine ⟨_, _, _, enc_A_neg hp hJ', by omega, by omega, ?_, by omega, by omega, fun h => absurd rfl h⟩
        intro fm h1 h2
        rw [dec_A hp hJ' h1 (by simp only [L]; omega), if_pos h2]
      · refine ⟨_, _, _, enc_A_pos hp hJ', by omega, by omega, ?_, by omega, by omega, fun h => absurd rfl h⟩
        intro fm h1 h2
        rw [dec_A hp hJ' (by omega) (by simp only [L]; omega), if_neg (by omega)]
    · have hT : T + 1 ≤ a := by omega
      rcases hva with rfl | rfl
      · rw [enc_B_neg hp hT]
        generalize hl : L fs decay T = l at *
        refine ⟨_, _, _, rfl, by omega, by omega, ?_, by omega, by omega, by omega⟩
        intro fm h1 h2
        have hfm : fm = l + 2 * min (a - (T + 1)) ((32767 - l) / 2) := by omega
        have := dec_B hp (fm := fm) (by rw [hl]; omega) (by omega)
        rw [hl] at this
        rw [this, if_pos (by omega)]
        simp only [Res.ok.injEq, Prod.mk.injEq]
        refine ⟨by omega, by omega, by omega⟩
      · rw [enc_B_pos hp hT]
        generalize hl : L fs decay T = l at *
        refine ⟨_, _, _, rfl, by omega, by omega, ?_, by omega, by omega, by omega⟩
        intro fm h1 h2
        have hfm : fm = l + 2 * min (a - (T + 1)) ((32766 - l) / 2) + 1 := by omega
        have := dec_B hp (fm := fm) (by rw [hl]; omega) (by omega)
        rw [hl] at this
        rw [this, if_neg (by omega)]
        simp only [Res.ok.injEq, Prod.mk.injEq]
        refine ⟨by omega, by omega, by omega⟩

/-! ## The parameter pairs of the energy model (quant_bands.c: `prob_model[pi]<<7`, `prob_model[pi+1]<<6`,
    `pi = 2*IMIN(i,20)`) -/

def eprobFs (lm intra band : Nat) : Nat := (((eProbModel.getD lm []).getD intra []).getD (2 * band) 0) * 128
def eprobDecay (lm intra band : Nat) : Nat := (((eProbModel.getD lm []).getD intra []).getD (2 * band + 1) 0) * 64

/-- Shape of `e_prob_model[4][2][42]` and, for every entry: `LaplaceOk`, and `decay < 2^16` (with `LaplaceOk` this
    keeps every `unsigned` product `fs*decay` of laplace.c below 2^32, so the unbounded model arithmetic is the C
    arithmetic; the one place that relies on unsigned conversion, `ec_laplace_get_freq1`, is modelled with its wrap). -/
def eprobCheck : Bool :=
  decide (eProbModel.length = 4) && eProbModel.all (fun a => decide (a.length = 2) && a.all (fun r => decide (r.length = 42))) &&
  (List.range 4).all fun lm => (List.range 2).all fun intra => (List.range 21).all fun band =>
    LaplaceOk (eprobFs lm intra band) (eprobDecay lm intra band) && decide (eprobDecay lm intra band < 65536)

theorem eprobCheck_true : eprobCheck = true := by decide +kernel

theorem eprob_ok {lm intra band : Nat} (h1 : lm < 4) (h2 : intra < 2) (h3 : band < 21) :
    LaplaceOk (eprobFs lm intra band) (eprobDecay lm intra band) = true ∧ eprobDecay lm intra band < 65536 := by
  have h := eprobCheck_true
  simp only [eprobCheck, Bool.and_eq_true, List.all_eq_true, List.mem_range, decide_eq_true_eq] at h
  exact h.2 lm h1 intra h2 band h3

end OpusProofs.Laplace
