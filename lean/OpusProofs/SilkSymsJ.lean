import OpusProofs.CeltSymsBasic
import OpusProofs.SilkSymsTables
/-
  C03: the SILK symbol layer preserves the stand-alone range-decoder invariant `J` (`val < 2^32`, `2^23 < rng ≤ 2^31`)
  on arbitrary bytes — so the decoder state handed to the CELT layer in hybrid frames satisfies it.

  Every table of silk/tables_*.c is a concatenation of strictly decreasing, zero-terminated runs of bytes (`Runs`);
  every slice `&table[off]` of such a table — whatever `off` is — keeps `r·icdf[k]` strictly decreasing until the scan
  of `ec_dec_icdf` stops, which is all `J` needs.  Hence no index-range side conditions appear below.
-/
namespace Opus.SilkSymsProofs
open Opus Opus.RangeCoder Opus.SilkSyms Opus.SilkSymsFrozen.Icdf
open Opus.CeltSymsProofs (J J_icdf_chain J_bitLogp J_uint Chain)

/-- Concatenation of strictly decreasing zero-terminated runs of bytes. -/
def Runs : List Nat → Prop
  | [] => True
  | [x] => x < 256
  | x :: y :: rest => x < 256 ∧ (x = 0 ∨ y < x) ∧ Runs (y :: rest)

def runsB : List Nat → Bool
  | [] => true
  | [x] => decide (x < 256)
  | x :: y :: rest => decide (x < 256) && (decide (x = 0) || decide (y < x)) && runsB (y :: rest)

theorem runs_of_B : ∀ (l : List Nat), runsB l = true → Runs l
  | [], _ => trivial
  | [x], h => by
    simp only [runsB, decide_eq_true_eq] at h
    exact h
  | x :: y :: rest, h => by
    simp only [runsB, Bool.and_eq_true, Bool.or_eq_true, decide_eq_true_eq] at h
    exact ⟨h.1.1, h.1.2, runs_of_B (y :: rest) h.2⟩

theorem Runs.tail : ∀ {l : List Nat}, Runs l → Runs l.tail
  | [], _ => trivial
  | [_], _ => trivial
  | _ :: _ :: _, h => h.2.2

theorem Runs.drop : ∀ (k : Nat) {l : List Nat}, Runs l → Runs (l.drop k)
  | 0, _, h => h
  | k + 1, [], _ => trivial
  | k + 1, _ :: t, h => by
    have := Runs.drop k (Runs.tail h)
    simpa using this

theorem chain_of_runs (r : Nat) (hr : 1 ≤ r) : ∀ (xs : List Nat) (x0 : Nat), Runs (x0 :: xs) →
    x0 = 0 ∨ Chain r (r * x0) xs
  | [], _, _ => Or.inr trivial
  | x :: xs, x0, h => by
    rcases h.2.1 with hz | hlt
    · exact Or.inl hz
    · exact Or.inr ⟨Nat.mul_lt_mul_of_pos_left hlt (by omega), chain_of_runs r hr xs x h.2.2⟩

theorem runs_head_lt : ∀ {x : Nat} {xs : List Nat}, Runs (x :: xs) → x < 256
  | _, [], h => h
  | _, _ :: _, h => h.1

/-- One symbol from any slice of a `Runs` table preserves `J`. -/
theorem J_sym (c : Dec) (hj : J c) (tbl : List Nat) (ht : Runs tbl) : J (sym c tbl).2 := by
  unfold sym
  apply J_icdf_chain c hj tbl 8
  obtain ⟨hv, hr0, hr1⟩ := hj
  cases tbl with
  | nil => trivial
  | cons x0 xs =>
    have hx := runs_head_lt ht
    have hr : 1 ≤ c.rng / 2 ^ 8 := (Nat.le_div_iff_mul_le (by decide)).2 (by omega)
    have h1 : c.rng / 2 ^ 8 * x0 < c.rng := by
      have ha : c.rng / 2 ^ 8 * (x0 + 1) ≤ c.rng / 2 ^ 8 * 2 ^ 8 := Nat.mul_le_mul_left _ (by omega)
      have hb := Nat.div_mul_le_self c.rng (2 ^ 8)
      have hc : c.rng / 2 ^ 8 * (x0 + 1) = c.rng / 2 ^ 8 * x0 + c.rng / 2 ^ 8 := by rw [Nat.mul_add, Nat.mul_one]
      omega
    exact ⟨h1, chain_of_runs _ hr xs x0 ht⟩

/-! ### The tables -/

theorem rr_silk_type_offset_VAD_iCDF : Runs silk_type_offset_VAD_iCDF := runs_of_B _ (by decide +kernel)
theorem rr_silk_type_offset_no_VAD_iCDF : Runs silk_type_offset_no_VAD_iCDF := runs_of_B _ (by decide +kernel)
theorem rr_silk_delta_gain_iCDF : Runs silk_delta_gain_iCDF := runs_of_B _ (by decide +kernel)
theorem rr_silk_uniform3_iCDF : Runs silk_uniform3_iCDF := runs_of_B _ (by decide +kernel)
theorem rr_silk_uniform4_iCDF : Runs silk_uniform4_iCDF := runs_of_B _ (by decide +kernel)
theorem rr_silk_uniform5_iCDF : Runs silk_uniform5_iCDF := runs_of_B _ (by decide +kernel)
theorem rr_silk_uniform6_iCDF : Runs silk_uniform6_iCDF := runs_of_B _ (by decide +kernel)
theorem rr_silk_uniform8_iCDF : Runs silk_uniform8_iCDF := runs_of_B _ (by decide +kernel)
theorem rr_silk_NLSF_EXT_iCDF : Runs silk_NLSF_EXT_iCDF := runs_of_B _ (by decide +kernel)
theorem rr_silk_NLSF_interpolation_factor_iCDF : Runs silk_NLSF_interpolation_factor_iCDF := runs_of_B _ (by decide +kernel)
theorem rr_silk_pitch_delta_iCDF : Runs silk_pitch_delta_iCDF := runs_of_B _ (by decide +kernel)
theorem rr_silk_pitch_lag_iCDF : Runs silk_pitch_lag_iCDF := runs_of_B _ (by decide +kernel)
theorem rr_silk_pitch_contour_iCDF : Runs silk_pitch_contour_iCDF := runs_of_B _ (by decide +kernel)
theorem rr_silk_pitch_contour_NB_iCDF : Runs silk_pitch_contour_NB_iCDF := runs_of_B _ (by decide +kernel)
theorem rr_silk_pitch_contour_10_ms_iCDF : Runs silk_pitch_contour_10_ms_iCDF := runs_of_B _ (by decide +kernel)
theorem rr_silk_pitch_contour_10_ms_NB_iCDF : Runs silk_pitch_contour_10_ms_NB_iCDF := runs_of_B _ (by decide +kernel)
theorem rr_silk_LTP_per_index_iCDF : Runs silk_LTP_per_index_iCDF := runs_of_B _ (by decide +kernel)
theorem rr_silk_LTP_gain_iCDF_0 : Runs silk_LTP_gain_iCDF_0 := runs_of_B _ (by decide +kernel)
theorem rr_silk_LTP_gain_iCDF_1 : Runs silk_LTP_gain_iCDF_1 := runs_of_B _ (by decide +kernel)
theorem rr_silk_LTP_gain_iCDF_2 : Runs silk_LTP_gain_iCDF_2 := runs_of_B _ (by decide +kernel)
theorem rr_silk_LTPscale_iCDF : Runs silk_LTPscale_iCDF := runs_of_B _ (by decide +kernel)
theorem rr_silk_lsb_iCDF : Runs silk_lsb_iCDF := runs_of_B _ (by decide +kernel)
theorem rr_silk_stereo_pred_joint_iCDF : Runs silk_stereo_pred_joint_iCDF := runs_of_B _ (by decide +kernel)
theorem rr_silk_stereo_only_code_mid_iCDF : Runs silk_stereo_only_code_mid_iCDF := runs_of_B _ (by decide +kernel)
theorem rr_silk_LBRR_flags_2_iCDF : Runs silk_LBRR_flags_2_iCDF := runs_of_B _ (by decide +kernel)
theorem rr_silk_LBRR_flags_3_iCDF : Runs silk_LBRR_flags_3_iCDF := runs_of_B _ (by decide +kernel)
theorem rr_silk_shell_code_table0 : Runs silk_shell_code_table0 := runs_of_B _ (by decide +kernel)
theorem rr_silk_shell_code_table1 : Runs silk_shell_code_table1 := runs_of_B _ (by decide +kernel)
theorem rr_silk_shell_code_table2 : Runs silk_shell_code_table2 := runs_of_B _ (by decide +kernel)
theorem rr_silk_shell_code_table3 : Runs silk_shell_code_table3 := runs_of_B _ (by decide +kernel)
theorem rr_silk_NLSF_CB1_iCDF_NB_MB : Runs silk_NLSF_CB1_iCDF_NB_MB := runs_of_B _ (by decide +kernel)
theorem rr_silk_NLSF_CB2_iCDF_NB_MB : Runs silk_NLSF_CB2_iCDF_NB_MB := runs_of_B _ (by decide +kernel)
theorem rr_silk_NLSF_CB1_iCDF_WB : Runs silk_NLSF_CB1_iCDF_WB := runs_of_B _ (by decide +kernel)
theorem rr_silk_NLSF_CB2_iCDF_WB : Runs silk_NLSF_CB2_iCDF_WB := runs_of_B _ (by decide +kernel)

theorem rows_gain : silk_gain_iCDF.all runsB = true := by decide +kernel
theorem rows_rate : silk_rate_levels_iCDF.all runsB = true := by decide +kernel
theorem rows_ppb : silk_pulses_per_block_iCDF.all runsB = true := by decide +kernel
theorem sign_bytes : silk_sign_iCDF.all (fun x => decide (x < 256)) = true := by decide +kernel

theorem runs_of_mem {T : List Nat} {L : List (List Nat)} (h : L.all runsB = true) (hm : T ∈ L) : Runs T := by
  rw [List.all_eq_true] at h
  exact runs_of_B T (h T hm)

theorem runs_getD {L : List (List Nat)} (h : L.all runsB = true) (i : Nat) : Runs (L.getD i []) := by
  rw [List.getD_eq_getElem?_getD]
  cases hq : L[i]? with
  | none => trivial
  | some v => exact runs_of_mem h (List.mem_of_getElem? hq)

theorem runs_cb (rate : Rate) : Runs (nlsfCB rate).cb1 ∧ Runs (nlsfCB rate).ecIcdf := by
  cases rate
  · exact ⟨rr_silk_NLSF_CB1_iCDF_NB_MB, rr_silk_NLSF_CB2_iCDF_NB_MB⟩
  · exact ⟨rr_silk_NLSF_CB1_iCDF_NB_MB, rr_silk_NLSF_CB2_iCDF_NB_MB⟩
  · exact ⟨rr_silk_NLSF_CB1_iCDF_WB, rr_silk_NLSF_CB2_iCDF_WB⟩

theorem runs_pitchLow (rate : Rate) : Runs (pitchLagLowBits rate) := by
  cases rate
  · exact rr_silk_uniform4_iCDF
  · exact rr_silk_uniform6_iCDF
  · exact rr_silk_uniform8_iCDF

theorem runs_contour (rate : Rate) (nb : Nat) : Runs (pitchContour rate nb) := by
  unfold pitchContour
  split
  · split
    · exact rr_silk_pitch_contour_NB_iCDF
    · exact rr_silk_pitch_contour_10_ms_NB_iCDF
  · split
    · exact rr_silk_pitch_contour_iCDF
    · exact rr_silk_pitch_contour_10_ms_iCDF

theorem runs_ltp (p : Nat) : Runs ([silk_LTP_gain_iCDF_0, silk_LTP_gain_iCDF_1, silk_LTP_gain_iCDF_2].getD p []) := by
  rw [List.getD_eq_getElem?_getD]
  cases hq : [silk_LTP_gain_iCDF_0, silk_LTP_gain_iCDF_1, silk_LTP_gain_iCDF_2][p]? with
  | none => trivial
  | some v =>
    have hm := List.mem_of_getElem? hq
    simp only [List.mem_cons, List.mem_nil_iff, or_false] at hm
    rcases hm with rfl | rfl | rfl
    · exact rr_silk_LTP_gain_iCDF_0
    · exact rr_silk_LTP_gain_iCDF_1
    · exact rr_silk_LTP_gain_iCDF_2

theorem runs_lbrr (n : Nat) : Runs ([silk_LBRR_flags_2_iCDF, silk_LBRR_flags_3_iCDF].getD n []) := by
  rw [List.getD_eq_getElem?_getD]
  cases hq : [silk_LBRR_flags_2_iCDF, silk_LBRR_flags_3_iCDF][n]? with
  | none => trivial
  | some v =>
    have hm := List.mem_of_getElem? hq
    simp only [List.mem_cons, List.mem_nil_iff, or_false] at hm
    rcases hm with rfl | rfl
    · exact rr_silk_LBRR_flags_2_iCDF
    · exact rr_silk_LBRR_flags_3_iCDF

theorem runs_sign (i : Nat) : Runs [silk_sign_iCDF.getD i 0, 0] := by
  have h := sign_bytes
  rw [List.all_eq_true] at h
  have hx : silk_sign_iCDF.getD i 0 < 256 := by
    rw [List.getD_eq_getElem?_getD]
    cases hq : silk_sign_iCDF[i]? with
    | none => simp
    | some v => simpa using h v (List.mem_of_getElem? hq)
  refine ⟨hx, ?_, (by show (0 : Nat) < 256; omega)⟩
  by_cases hz : silk_sign_iCDF.getD i 0 = 0
  · exact Or.inl hz
  · exact Or.inr (by omega)

/-! ### silk_decode_indices -/

theorem symLoop_J (tbl : List Nat) (ht : Runs tbl) : ∀ (n : Nat) (c : Dec), J c → J (symLoop tbl n c).2
  | 0, c, hj => by unfold symLoop; exact hj
  | n + 1, c, hj => by
    unfold symLoop
    have h1 := J_sym c hj tbl ht
    generalize sym c tbl = r at h1 ⊢
    dsimp only
    exact symLoop_J tbl ht n r.2 h1

theorem nlsfResOne_J (rate : Rate) (e : Nat) (c : Dec) (hj : J c) : J (nlsfResOne (nlsfCB rate) e c).2 := by
  have key : ∀ (r x : Nat × Dec), J r.2 → J x.2 →
      J (if r.1 = 0 then ((r.1 : Int) - (x.1 : Int), x.2) else if r.1 = 8 then ((r.1 : Int) + (x.1 : Int), x.2)
         else ((r.1 : Int), r.2)).2 := by
    intro r x h1 h2
    split
    · exact h2
    · split
      · exact h2
      · exact h1
  unfold nlsfResOne
  dsimp only
  have h1 := J_sym c hj _ (Runs.drop e (runs_cb rate).2)
  exact key _ _ h1 (J_sym _ h1 _ rr_silk_NLSF_EXT_iCDF)

theorem nlsfResLoop_J (rate : Rate) : ∀ (es : List Nat) (c : Dec), J c → J (nlsfResLoop (nlsfCB rate) es c).2
  | [], c, hj => by unfold nlsfResLoop; exact hj
  | e :: es, c, hj => by
    unfold nlsfResLoop
    have h1 := nlsfResOne_J rate e c hj
    generalize nlsfResOne (nlsfCB rate) e c = r at h1 ⊢
    dsimp only
    exact nlsfResLoop_J rate es r.2 h1

theorem decodeLag_J (rate : Rate) (cc ps : Nat) (pl : Int) (c : Dec) (hj : J c) : J (decodeLag rate cc ps pl c).2 := by
  have key : ∀ (d a b : Nat × Dec) (k : Nat), J d.2 → J b.2 →
      J (if d.1 > 0 then (pl + ((d.1 : Int) - 9), d.2) else (((a.1 * k + b.1 : Nat) : Int), b.2)).2 := by
    intro d a b k hd hb
    split
    · exact hd
    · exact hb
  have hd : J (if cc = 2 ∧ ps = 2 then sym c silk_pitch_delta_iCDF else (0, c)).2 := by
    split
    · exact J_sym c hj _ rr_silk_pitch_delta_iCDF
    · exact hj
  unfold decodeLag
  dsimp only
  exact key _ _ _ _ hd (J_sym _ (J_sym _ hd _ rr_silk_pitch_lag_iCDF) _ (runs_pitchLow rate))

theorem decodeLtp_J (nb cc : Nat) (c : Dec) (hj : J c) : J (decodeLtp nb cc c).2 := by
  have key : ∀ (ltp : List Nat × Dec) (sc : Nat × Dec), J ltp.2 → J sc.2 →
      J (if cc = 0 then sc else (0, ltp.2)).2 := by
    intro ltp sc h2 h3
    split
    · exact h3
    · exact h2
  unfold decodeLtp
  dsimp only
  have h1 := J_sym c hj _ rr_silk_LTP_per_index_iCDF
  have h2 := symLoop_J _ (runs_ltp (sym c silk_LTP_per_index_iCDF).1) nb _ h1
  exact key _ _ h2 (J_sym _ h2 _ rr_silk_LTPscale_iCDF)

theorem decodePitchLtp_J (rate : Rate) (nb cc ps : Nat) (pl : Int) (c : Dec) (hj : J c) :
    J (decodePitchLtp rate nb cc ps pl c).2 := by
  unfold decodePitchLtp
  have h1 := decodeLag_J rate cc ps pl c hj
  generalize decodeLag rate cc ps pl c = y at h1
  obtain ⟨lag, c1⟩ := y
  dsimp only at h1 ⊢
  have h2 := J_sym c1 h1 _ (runs_contour rate nb)
  generalize sym c1 (pitchContour rate nb) = y at h2
  obtain ⟨ct, c2⟩ := y
  dsimp only at h2 ⊢
  have h3 := decodeLtp_J nb cc c2 h2
  generalize decodeLtp nb cc c2 = y at h3
  obtain ⟨⟨per, ltp, sc⟩, c3⟩ := y
  exact h3

theorem decodeType_J (v : Bool) (c : Dec) (hj : J c) : J (decodeType v c).2 := by
  have key : ∀ (a b : Nat × Dec), J a.2 → J b.2 → J (if v = true then (a.1 + 2, a.2) else b).2 := by
    intro a b ha hb
    split
    · exact ha
    · exact hb
  unfold decodeType
  dsimp only
  exact key _ _ (J_sym c hj _ rr_silk_type_offset_VAD_iCDF) (J_sym c hj _ rr_silk_type_offset_no_VAD_iCDF)

theorem decodeGain0_J (cc sig : Nat) (c : Dec) (hj : J c) : J (decodeGain0 cc sig c).2 := by
  have key : ∀ (g a b : Nat × Dec), J g.2 → J b.2 → J (if cc = 2 then g else (a.1 * 8 + b.1, b.2)).2 := by
    intro g a b hg hb
    split
    · exact hg
    · exact hb
  unfold decodeGain0
  dsimp only
  exact key _ _ _ (J_sym c hj _ rr_silk_delta_gain_iCDF)
    (J_sym _ (J_sym c hj _ (runs_getD rows_gain sig)) _ rr_silk_uniform8_iCDF)

theorem decodeNlsf_J (rate : Rate) (sig : Nat) (c : Dec) (hj : J c) : J (decodeNlsf rate sig c).2 := by
  unfold decodeNlsf
  dsimp only
  exact nlsfResLoop_J rate _ _ (J_sym c hj _ (Runs.drop (sig / 2 * (nlsfCB rate).nVectors) (runs_cb rate).1))

theorem decodeInterp_J (nb : Nat) (c : Dec) (hj : J c) : J (decodeInterp nb c).2 := by
  unfold decodeInterp
  split
  · exact J_sym c hj _ rr_silk_NLSF_interpolation_factor_iCDF
  · exact hj

theorem decodeVoiced_J (rate : Rate) (nb sig cc ps : Nat) (pl : Int) (c : Dec) (hj : J c) :
    J (decodeVoiced rate nb sig cc ps pl c).2 := by
  unfold decodeVoiced
  split
  · exact decodePitchLtp_J rate nb cc ps pl c hj
  · exact hj

theorem decodeIndices_J (rate : Rate) (nb : Nat) (v : Bool) (cc ps : Nat) (pl : Int) (c : Dec) (hj : J c) :
    J (decodeIndices rate nb v cc ps pl c).2 := by
  unfold decodeIndices
  have h1 := decodeType_J v c hj
  generalize decodeType v c = y at h1
  obtain ⟨tix, c1⟩ := y
  dsimp only at h1 ⊢
  have h2 := decodeGain0_J cc (tix / 2) c1 h1
  generalize decodeGain0 cc (tix / 2) c1 = y at h2
  obtain ⟨g0, c2⟩ := y
  dsimp only at h2 ⊢
  have h3 := symLoop_J silk_delta_gain_iCDF rr_silk_delta_gain_iCDF (nb - 1) c2 h2
  generalize symLoop silk_delta_gain_iCDF (nb - 1) c2 = y at h3
  obtain ⟨gs, c3⟩ := y
  dsimp only at h3 ⊢
  have h4 := decodeNlsf_J rate (tix / 2) c3 h3
  generalize decodeNlsf rate (tix / 2) c3 = y at h4
  obtain ⟨⟨n0, res⟩, c4⟩ := y
  dsimp only at h4 ⊢
  have h5 := decodeInterp_J nb c4 h4
  generalize decodeInterp nb c4 = y at h5
  obtain ⟨ip, c5⟩ := y
  dsimp only at h5 ⊢
  have h6 := decodeVoiced_J rate nb (tix / 2) cc ps pl c5 h5
  generalize decodeVoiced rate nb (tix / 2) cc ps pl c5 = y at h6
  obtain ⟨⟨lag, ct, per, ltp, sc⟩, c6⟩ := y
  dsimp only at h6 ⊢
  have h7 := J_sym c6 h6 _ (rr_silk_uniform4_iCDF)
  generalize sym c6 silk_uniform4_iCDF = y at h7
  obtain ⟨seed, c7⟩ := y
  exact h7

/-! ### silk_decode_pulses -/

theorem lsbCountLoop_J : ∀ (k : Nat) (c : Dec) (n sp : Nat), J c → J (lsbCountLoop k c n sp).2.2
  | 0, c, n, sp, hj => by unfold lsbCountLoop; exact hj
  | k + 1, c, n, sp, hj => by
    unfold lsbCountLoop
    split
    · have h1 := J_sym c hj _ (Runs.drop (if n + 1 = 10 then 1 else 0) (runs_getD rows_ppb 9))
      generalize sym c ((silk_pulses_per_block_iCDF.getD 9 []).drop (if n + 1 = 10 then 1 else 0)) = y at h1
      obtain ⟨sp', c1⟩ := y
      exact lsbCountLoop_J k c1 (n + 1) sp' h1
    · exact hj

theorem sumPulsesLoop_J (cdf : List Nat) (hc : Runs cdf) : ∀ (iter : Nat) (c : Dec), J c →
    J (sumPulsesLoop cdf iter c).2.2
  | 0, c, hj => by unfold sumPulsesLoop; exact hj
  | iter + 1, c, hj => by
    unfold sumPulsesLoop
    have h1 := J_sym c hj cdf hc
    generalize sym c cdf = y at h1
    obtain ⟨sp0, c1⟩ := y
    dsimp only at h1 ⊢
    have h2 := lsbCountLoop_J 10 c1 0 sp0 h1
    generalize lsbCountLoop 10 c1 0 sp0 = y at h2
    obtain ⟨n, sp, c2⟩ := y
    dsimp only at h2 ⊢
    have h3 := sumPulsesLoop_J cdf hc iter c2 h2
    generalize sumPulsesLoop cdf iter c2 = y at h3
    obtain ⟨sps, ns, c3⟩ := y
    exact h3

theorem decodeSplit_J (tbl : List Nat) (ht : Runs tbl) (c : Dec) (p : Nat) (hj : J c) : J (decodeSplit c p tbl).2.2 := by
  unfold decodeSplit
  split
  · have h1 := J_sym c hj _ (Runs.drop (silk_shell_code_table_offsets.getD p 0) ht)
    generalize sym c (tbl.drop (silk_shell_code_table_offsets.getD p 0)) = y at h1
    obtain ⟨a, c1⟩ := y
    exact h1
  · exact hj

theorem shellQuarter_J (c : Dec) (p : Nat) (hj : J c) : J (shellQuarter c p).2 := by
  unfold shellQuarter
  have h1 := decodeSplit_J _ (rr_silk_shell_code_table1) c p hj
  generalize decodeSplit c p silk_shell_code_table1 = y at h1
  obtain ⟨a1, a2, c1⟩ := y
  dsimp only at h1 ⊢
  have h2 := decodeSplit_J _ (rr_silk_shell_code_table0) c1 a1 h1
  generalize decodeSplit c1 a1 silk_shell_code_table0 = y at h2
  obtain ⟨b1, b2, c2⟩ := y
  dsimp only at h2 ⊢
  have h3 := decodeSplit_J _ (rr_silk_shell_code_table0) c2 a2 h2
  generalize decodeSplit c2 a2 silk_shell_code_table0 = y at h3
  obtain ⟨d1, d2, c3⟩ := y
  exact h3

theorem shellHalf_J (c : Dec) (p : Nat) (hj : J c) : J (shellHalf c p).2 := by
  unfold shellHalf
  have h1 := decodeSplit_J _ (rr_silk_shell_code_table2) c p hj
  generalize decodeSplit c p silk_shell_code_table2 = y at h1
  obtain ⟨a1, a2, c1⟩ := y
  dsimp only at h1 ⊢
  have h2 := shellQuarter_J c1 a1 h1
  generalize shellQuarter c1 a1 = y at h2
  obtain ⟨q0, c2⟩ := y
  dsimp only at h2 ⊢
  have h3 := shellQuarter_J c2 a2 h2
  generalize shellQuarter c2 a2 = y at h3
  obtain ⟨q1, c3⟩ := y
  exact h3

theorem shellDecoder_J (c : Dec) (p : Nat) (hj : J c) : J (shellDecoder c p).2 := by
  unfold shellDecoder
  have h1 := decodeSplit_J _ (rr_silk_shell_code_table3) c p hj
  generalize decodeSplit c p silk_shell_code_table3 = y at h1
  obtain ⟨a1, a2, c1⟩ := y
  dsimp only at h1 ⊢
  have h2 := shellHalf_J c1 a1 h1
  generalize shellHalf c1 a1 = y at h2
  obtain ⟨q0, c2⟩ := y
  dsimp only at h2 ⊢
  have h3 := shellHalf_J c2 a2 h2
  generalize shellHalf c2 a2 = y at h3
  obtain ⟨q1, c3⟩ := y
  exact h3

theorem shellBlock_J (sp : Nat) (c : Dec) (hj : J c) : J (shellBlock sp c).2 := by
  unfold shellBlock
  split
  · exact shellDecoder_J c sp hj
  · exact hj

theorem shellLoop_J : ∀ (sps : List Nat) (c : Dec), J c → J (shellLoop sps c).2
  | [], c, hj => by unfold shellLoop; exact hj
  | sp :: sps, c, hj => by
    unfold shellLoop
    have h1 := shellBlock_J sp c hj
    generalize shellBlock sp c = y at h1
    obtain ⟨b, c1⟩ := y
    dsimp only at h1 ⊢
    have h2 := shellLoop_J sps c1 h1
    generalize shellLoop sps c1 = y at h2
    obtain ⟨bs, c2⟩ := y
    exact h2

theorem lsbBits_J : ∀ (n q : Nat) (c : Dec), J c → J (lsbBits n q c).2
  | 0, q, c, hj => by unfold lsbBits; exact hj
  | n + 1, q, c, hj => by
    unfold lsbBits
    have h1 := J_sym c hj _ (rr_silk_lsb_iCDF)
    generalize sym c silk_lsb_iCDF = y at h1
    obtain ⟨b, c1⟩ := y
    exact lsbBits_J n (2 * q + b) c1 h1

theorem lsbBlock_J (nLS : Nat) : ∀ (b : List Nat) (c : Dec), J c → J (lsbBlock nLS b c).2
  | [], c, hj => by unfold lsbBlock; exact hj
  | q :: qs, c, hj => by
    unfold lsbBlock
    have h1 := lsbBits_J nLS q c hj
    generalize lsbBits nLS q c = y at h1
    obtain ⟨q', c1⟩ := y
    dsimp only at h1 ⊢
    have h2 := lsbBlock_J nLS qs c1 h1
    generalize lsbBlock nLS qs c1 = y at h2
    obtain ⟨qs', c2⟩ := y
    exact h2

theorem lsbBlockIf_J (n : Nat) (b : List Nat) (c : Dec) (hj : J c) : J (lsbBlockIf n b c).2 := by
  unfold lsbBlockIf
  split
  · exact lsbBlock_J n b c hj
  · exact hj

theorem lsbLoop_J : ∀ (bs : List (List Nat)) (ns : List Nat) (c : Dec), J c → J (lsbLoop bs ns c).2
  | [], _, c, hj => by unfold lsbLoop; exact hj
  | _ :: _, [], c, hj => by unfold lsbLoop; exact hj
  | b :: bs, n :: ns, c, hj => by
    unfold lsbLoop
    have h1 := lsbBlockIf_J n b c hj
    generalize lsbBlockIf n b c = y at h1
    obtain ⟨b', c1⟩ := y
    dsimp only at h1 ⊢
    have h2 := lsbLoop_J bs ns c1 h1
    generalize lsbLoop bs ns c1 = y at h2
    obtain ⟨bs', c2⟩ := y
    exact h2

theorem signOne_J (i q : Nat) (c : Dec) (hj : J c) : J (signOne (silk_sign_iCDF.getD i 0) q c).2 := by
  unfold signOne
  split
  · have h1 := J_sym c hj _ (runs_sign i)
    generalize sym c [silk_sign_iCDF.getD i 0, 0] = y at h1
    obtain ⟨s, c1⟩ := y
    exact h1
  · exact hj

theorem signBlock_J (i : Nat) : ∀ (b : List Nat) (c : Dec), J c → J (signBlock (silk_sign_iCDF.getD i 0) b c).2
  | [], c, hj => by unfold signBlock; exact hj
  | q :: qs, c, hj => by
    unfold signBlock
    have h1 := signOne_J i q c hj
    generalize signOne (silk_sign_iCDF.getD i 0) q c = y at h1
    obtain ⟨v, c1⟩ := y
    dsimp only at h1 ⊢
    have h2 := signBlock_J i qs c1 h1
    generalize signBlock (silk_sign_iCDF.getD i 0) qs c1 = y at h2
    obtain ⟨vs, c2⟩ := y
    exact h2

theorem signBlockIf_J (base p : Nat) (b : List Nat) (c : Dec) (hj : J c) : J (signBlockIf base p b c).2 := by
  unfold signBlockIf
  split
  · exact signBlock_J _ b c hj
  · exact hj

theorem signLoop_J (base : Nat) : ∀ (n : Nat) (bs : List (List Nat)) (ps : List Nat) (c : Dec), J c →
    J (signLoop base n bs ps c).2 := by
  intro n
  induction n with
  | zero => intro bs ps c hj; unfold signLoop; exact hj
  | succ n ih =>
    intro bs ps c hj
    cases bs with
    | nil => unfold signLoop; exact hj
    | cons b bs =>
      cases ps with
      | nil => unfold signLoop; exact hj
      | cons p ps =>
        unfold signLoop
        have h1 := signBlockIf_J base p b c hj
        generalize signBlockIf base p b c = y at h1
        obtain ⟨v, c1⟩ := y
        dsimp only at h1 ⊢
        have h2 := ih bs ps c1 h1
        generalize signLoop base n bs ps c1 = y at h2
        obtain ⟨vs, c2⟩ := y
        exact h2

theorem decodePulses_J (sig qoff fl : Nat) (c : Dec) (hj : J c) : J (decodePulses sig qoff fl c).2 := by
  unfold decodePulses
  have h1 := J_sym c hj _ (runs_getD rows_rate (sig / 2))
  generalize sym c (silk_rate_levels_iCDF.getD (sig / 2) []) = y at h1
  obtain ⟨rl, c1⟩ := y
  dsimp only at h1 ⊢
  have h2 := sumPulsesLoop_J _ (runs_getD rows_ppb rl) (shellBlocks fl) c1 h1
  generalize sumPulsesLoop (silk_pulses_per_block_iCDF.getD rl []) (shellBlocks fl) c1 = y at h2
  obtain ⟨sps, ns, c2⟩ := y
  dsimp only at h2 ⊢
  have h3 := shellLoop_J sps c2 h2
  generalize shellLoop sps c2 = y at h3
  obtain ⟨sh, c3⟩ := y
  dsimp only at h3 ⊢
  have h4 := lsbLoop_J sh ns c3 h3
  generalize lsbLoop sh ns c3 = y at h4
  obtain ⟨ab, c4⟩ := y
  dsimp only at h4 ⊢
  have h5 := signLoop_J (7 * (qoff + 2 * sig)) ((fl + 8) / 16) ab (markLsb sps ns) c4 h4
  generalize signLoop (7 * (qoff + 2 * sig)) ((fl + 8) / 16) ab (markLsb sps ns) c4 = y at h5
  obtain ⟨sg, c5⟩ := y
  exact h5

end Opus.SilkSymsProofs
