import OpusProofs.RepackMin
/-
  C07 helper lemmas, part 5: the extension-free case.  When every stored padding has
  `opus_packet_extensions_count = 0`, the gathering loops of `opus_repacketizer_out_range_impl`
  produce no extensions.
-/
namespace Opus.RepackProofs
open Opus Opus.Framing Opus.FramingSpec Opus.FramingProofs Opus.Repack Opus.Ext

theorem countLoop_ge (it : Iter) (n : Nat) : ∀ m, countLoop it n = .ok m → n ≤ m := by
  fun_induction countLoop it n with
  | case1 it n it' e h ih => intro m hm; have := ih m hm; omega
  | case2 it n it' s h hne => intro m hm; simp at hm; omega
  | case3 => intro m hm; simp at hm
  | case4 => intro m hm; simp at hm
  | case5 => intro m hm; simp at hm

/-- A padding area with extension count 0 parses to the empty list or is rejected. -/
theorem count_zero_parse (p : Bytes) (len nf : Int) (h : Ext.count p len nf = .ok 0) (cap : Int) :
    Ext.parse p len cap nf = .ok [] ∨ Ext.parse p len cap nf = .err .invalidPacket := by
  unfold Ext.count at h
  unfold Ext.parse
  cases hi : iterInit p len nf with
  | ok it =>
    rw [hi] at h
    simp only [] at h ⊢
    rw [countLoop] at h
    rw [parseLoop]
    split at h
    · rename_i it' e hn
      have := countLoop_ge _ _ _ h; omega
    · rename_i it' s hne hn
      cases s with
      | ext e => exact absurd rfl (hne e)
      | done =>
        left
        split <;> rename_i h' <;> rw [hn] at h' <;> simp at h'
        subst h'; rfl
      | invalid =>
        right
        split <;> rename_i h' <;> rw [hn] at h' <;> simp at h'
        subst h'; rfl
    all_goals simp at h
  | err e => rw [hi] at h; simp at h
  | oob => rw [hi] at h; simp at h
  | abort => rw [hi] at h; simp at h

/-- Every stored padding is free of extensions. -/
def ExtFree (pads : List (Bytes × Nat)) : Prop := ∀ pn ∈ pads, Ext.count pn.1 pn.1.length pn.2 = .ok 0

theorem totalExtCount_free (pads : List (Bytes × Nat)) (h : ExtFree pads) (i b : Nat) :
    totalExtCount pads i b 0 = .ok 0 := by
  induction pads generalizing i with
  | nil => rfl
  | cons pn rest ih =>
    obtain ⟨p, nf⟩ := pn
    have h0 := h (p, nf) (by simp)
    have hr : ExtFree rest := fun x hx => h x (by simp [hx])
    simp only [totalExtCount]
    split
    · exact ih hr _
    · simp only [] at h0; rw [h0]; exact ih hr _

theorem collectExts_free (pads : List (Bytes × Nat)) (h : ExtFree pads) (i b e : Nat) :
    collectExts pads i b e 0 #[] = .ok #[] := by
  induction pads generalizing i with
  | nil => rfl
  | cons pn rest ih =>
    obtain ⟨p, nf⟩ := pn
    have h0 := h (p, nf) (by simp)
    have hr : ExtFree rest := fun x hx => h x (by simp [hx])
    simp only [collectExts]
    split
    · exact ih hr _
    · rcases count_zero_parse p p.length nf h0 (((0 : Nat) : Int) - ((#[] : Array Ext).size : Nat)) with hp | hp
      · rw [hp]; simp [renumber]; exact ih hr _
      · rw [hp]; exact ih hr _

theorem gatherExts_free (pads : List (Bytes × Nat)) (h : ExtFree pads) (b e : Nat) :
    gatherExts pads b e #[] = .ok #[] := by
  unfold gatherExts
  simp only [List.size_toArray, List.length_nil]
  rw [totalExtCount_free pads h]
  exact collectExts_free pads h 0 b e

theorem extFree_take (pads : List (Bytes × Nat)) (h : ExtFree pads) (n : Nat) : ExtFree (pads.take n) :=
  fun x hx => h x (List.mem_of_mem_take hx)

theorem next_done (it : Iter) (h1 : it.currLen = 0) (h2 : it.repeatFrame = 0) :
    ∃ it', next it = .ok (it', .done) := by
  unfold next
  rw [if_neg (by omega), if_neg (by omega)]
  split
  · exact ⟨_, rfl⟩
  · rw [mainLoop]
    first
      | rw [if_neg (by omega)]; exact ⟨_, rfl⟩
      | rw [dif_neg (by omega)]; exact ⟨_, rfl⟩

theorem countLoop_done (it : Iter) (n : Nat) (h : ∃ it', next it = .ok (it', .done)) : countLoop it n = .ok n := by
  obtain ⟨it', hn⟩ := h
  rw [countLoop]
  split
  · rename_i h'; rw [hn] at h'; simp at h'
  · rfl
  all_goals (rename_i h'; rw [hn] at h'; simp at h')

/-- No padding at all is extension-free. -/
theorem count_nil (nf : Nat) (h : nf ≤ 48) : Ext.count [] (([] : Bytes).length) nf = .ok 0 := by
  unfold Ext.count iterInit
  simp only [List.length_nil]
  rw [if_neg (by simp), if_neg (by omega)]
  simp only []
  exact countLoop_done _ _ (next_done _ rfl rfl)

end Opus.RepackProofs
