import OpusProofs.SilkVadOut
/-
  OpusProofs.SilkVadFilt — the first-order all-pass filter bank `silk_ana_filt_bank_1` of the SILK VAD:
  32-bit bounds of its states and of every intermediate sum for int16 input (clause (c)), and the decay
  of the states on zero input (used for "digital silence becomes inactive").
-/
namespace Opus.SilkVad
open Opus Opus.SilkParams

/-- Bound of both filter states for int16 input: `|S| ≤ 1.5·10^8 < 2^31`. -/
def stB : Int := 150000000

def AbsLe (s : Int × Int) (a : Int) : Prop := -a ≤ s.1 ∧ s.1 ≤ a ∧ -a ≤ s.2 ∧ s.2 ≤ a

def Fits32 (x : Int) : Prop := -2147483648 ≤ x ∧ x ≤ 2147483647

/-- One iteration of the filter loop on int16 samples from bounded states, without the 32-bit
    truncations of the model: the explicit values, all inside 32 bits, and the new states bounded again. -/
theorem anaStep_spec (s : Int × Int) (x0 x1 : Int) (hs : AbsLe s stB) (h0 : I16 x0) (h1 : I16 x1) :
    let y := x0 * 1024 - s.1
    let x := y + y * (-24290) / 65536
    let y2 := x1 * 1024 - s.2
    let x2 := y2 * 10788 / 65536
    anaStep s x0 x1 = ((x0 * 1024 + x, x1 * 1024 + x2), sat16 (rshiftRound ((s.2 + x2) + (s.1 + x)) 11),
      sat16 (rshiftRound ((s.2 + x2) - (s.1 + x)) 11)) ∧
    AbsLe (x0 * 1024 + x, x1 * 1024 + x2) stB ∧
    Fits32 y ∧ Fits32 x ∧ Fits32 (s.1 + x) ∧ Fits32 y2 ∧ Fits32 x2 ∧ Fits32 (s.2 + x2) ∧
    Fits32 ((s.2 + x2) + (s.1 + x)) ∧ Fits32 ((s.2 + x2) - (s.1 + x)) := by
  unfold AbsLe stB I16 Fits32 at *
  simp only
  refine ⟨?_, by omega, by omega, by omega, by omega, by omega, by omega, by omega, by omega, by omega⟩
  unfold anaStep smlawb smulwb
  rw [aFb121_eq, aFb120_eq, wrap16_id (-24290) (by omega), wrap16_id 10788 (by omega)]
  simp only
  rw [wrap32_id (x0 * 1024 - s.1 + (x0 * 1024 - s.1) * -24290 / 65536) (by omega),
    wrap32_id ((x1 * 1024 - s.2) * 10788 / 65536) (by omega)]

theorem anaFilt_bnd (s : Int × Int) (l : List Int) (hs : AbsLe s stB) (hl : ∀ x ∈ l, I16 x) :
    AbsLe (anaFilt s l).1 stB := by
  fun_induction anaFilt s l with
  | case1 s x0 x1 rest r t ih =>
    have h := anaStep_spec s x0 x1 hs (hl x0 (by simp)) (hl x1 (by simp))
    simp only at h
    apply ih
    · rw [show r = anaStep s x0 x1 from rfl, h.1]; exact h.2.1
    · intro x hx; exact hl x (by simp [hx])
  | case2 s l h => exact hs

/-! ### zero input -/

/-- Contraction of both states on a pair of zero samples (41246/65536 ≈ 0.6294, the slower section). -/
def dec (x : Nat) : Nat := x * 41246 / 65536 + 1

def decN : Nat → Nat → Nat
  | 0, x => x
  | n + 1, x => decN n (dec x)

theorem dec_mono (x y : Nat) (h : x ≤ y) : dec x ≤ dec y := by
  unfold dec
  have : x * 41246 / 65536 ≤ y * 41246 / 65536 := Nat.div_le_div_right (Nat.mul_le_mul_right _ h)
  omega

theorem decN_mono (n x y : Nat) (h : x ≤ y) : decN n x ≤ decN n y := by
  induction n generalizing x y with
  | zero => exact h
  | succ n ih => exact ih _ _ (dec_mono x y h)

theorem dec_le_max (x : Nat) : dec x ≤ max x 3 := by unfold dec; omega

theorem decN_le_max (n x : Nat) : decN n x ≤ max x 3 := by
  induction n generalizing x with
  | zero => simp [decN]; omega
  | succ n ih =>
    have h1 := ih (dec x)
    have h2 := dec_le_max x
    simp only [decN]; omega

theorem decN_add (m n x : Nat) : decN (m + n) x = decN n (decN m x) := by
  induction m generalizing x with
  | zero => simp [decN]
  | succ m ih => rw [Nat.succ_add]; simp only [decN]; exact ih _

/-- `n ≥ m` iterations contract at least as far as `m` iterations, up to the floor 3. -/
theorem decN_ge (m n x : Nat) (h : m ≤ n) : decN n x ≤ max (decN m x) 3 := by
  obtain ⟨j, rfl⟩ : ∃ j, n = m + j := ⟨n - m, by omega⟩
  rw [decN_add]; exact decN_le_max _ _

theorem rr_zero (v : Int) (h : -1024 ≤ v ∧ v ≤ 1023) : rshiftRound v 11 = 0 := by
  unfold rshiftRound; simp; omega

/-- One pair of zero samples: both states contract; when both are at most 800 the outputs are zero. -/
theorem anaStep_zero (s : Int × Int) (a : Nat) (ha : (a : Int) ≤ stB) (hs : AbsLe s a) :
    AbsLe (anaStep s 0 0).1 (dec a : Nat) ∧ (a ≤ 800 → (anaStep s 0 0).2 = (0, 0)) := by
  have hb : AbsLe s stB := by unfold AbsLe stB at *; omega
  have h := anaStep_spec s 0 0 hb (by unfold I16; omega) (by unfold I16; omega)
  simp only at h
  rw [h.1]
  unfold AbsLe stB dec at *
  dsimp only at *
  refine ⟨by omega, ?_⟩
  intro h8
  have h8' : (a : Int) ≤ 800 := by omega
  rw [rr_zero _ (by omega), rr_zero _ (by omega)]; rfl

/-- `2n` zero samples: the states contract `n` times; from states at most 800 both outputs are zero. -/
theorem anaFilt_zero (n : Nat) (s : Int × Int) (a : Nat) (ha : (a : Int) ≤ stB) (hs : AbsLe s a) :
    AbsLe (anaFilt s (List.replicate (2 * n) 0)).1 (decN n a : Nat) ∧
    (a ≤ 800 → (anaFilt s (List.replicate (2 * n) 0)).2 = (List.replicate n 0, List.replicate n 0)) := by
  induction n generalizing s a with
  | zero => simp [anaFilt, decN]; exact hs
  | succ n ih =>
    have hrep : List.replicate (2 * (n + 1)) (0 : Int) = 0 :: 0 :: List.replicate (2 * n) 0 := by
      rw [show 2 * (n + 1) = (2 * n + 1) + 1 by omega, List.replicate_succ, List.replicate_succ]
    rw [hrep]
    have h1 := anaStep_zero s a ha hs
    have hda : ((dec a : Nat) : Int) ≤ stB := by
      have := dec_le_max a
      unfold stB at *; omega
    have h2 := ih (anaStep s 0 0).1 (dec a) hda h1.1
    simp only [anaFilt, decN]
    refine ⟨h2.1, ?_⟩
    intro h8
    have hd8 : dec a ≤ 800 := by unfold dec; omega
    rw [h1.2 h8, (h2.2 hd8)]
    simp [List.replicate_succ]

end Opus.SilkVad
