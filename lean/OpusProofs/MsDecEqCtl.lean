import OpusModel.MsDecEq
/-
  OpusProofs.MsDecEqCtl — who receives what in `opus_multistream_decoder_ctl` (every machine).  Core tactics only.
-/
namespace Opus.MsDecEq
open Opus

variable {σ π : Type}

theorem ctlAll_shape (m : Machine σ π) (request arg : Int) : ∀ (todo : List σ) (s : Nat),
    (ctlAll m request arg todo s).2.2.map (·.s) = List.range' s (ctlAll m request arg todo s).2.2.length ∧
    (ctlAll m request arg todo s).2.2.length ≤ todo.length ∧
    (∀ x ∈ (ctlAll m request arg todo s).2.2, x.inp = .ctl request arg) ∧
    ((ctlAll m request arg todo s).1 = 0 → (ctlAll m request arg todo s).2.2.length = todo.length)
  | [], s => by simp [ctlAll]
  | st :: rest, s => by
    unfold ctlAll
    by_cases h : (m.ctl st request arg).2.1 ≠ 0
    · rw [if_pos h]
      refine ⟨by simp [ctlSeen], by simp, ?_, ?_⟩
      · intro x hx; simp only [List.mem_singleton] at hx; subst hx; rfl
      · intro h0; exact absurd h0 h
    · rw [if_neg h]
      obtain ⟨i1, i2, i3, i4⟩ := ctlAll_shape m request arg rest (s + 1)
      refine ⟨?_, by simp only [List.length_cons]; omega, ?_, ?_⟩
      · simp only [List.map_cons, List.length_cons, List.range'_succ]; rw [i1]; rfl
      · intro x hx
        rcases List.mem_cons.mp hx with rfl | hx
        · rfl
        · exact i3 x hx
      · intro h0; simp only [List.length_cons]; rw [i4 h0]

theorem ctlXor_shape (m : Machine σ π) (request : Int) : ∀ (todo : List σ) (s acc : Nat),
    (ctlXor m request todo s acc).2.2.2.map (·.s) = List.range' s (ctlXor m request todo s acc).2.2.2.length ∧
    (ctlXor m request todo s acc).2.2.2.length ≤ todo.length ∧
    (∀ x ∈ (ctlXor m request todo s acc).2.2.2, x.inp = .ctl request 0) ∧
    ((ctlXor m request todo s acc).1 = 0 →
      (ctlXor m request todo s acc).2.2.2.length = todo.length ∧
      (ctlXor m request todo s acc).2.1 = (todo.map fun st => (m.ctl st request 0).2.2.toNat).foldl (· ^^^ ·) acc)
  | [], s, acc => by simp [ctlXor]
  | st :: rest, s, acc => by
    unfold ctlXor
    by_cases h : (m.ctl st request 0).2.1 ≠ 0
    · rw [if_pos h]
      refine ⟨by simp [ctlSeen], by simp, ?_, ?_⟩
      · intro x hx; simp only [List.mem_singleton] at hx; subst hx; rfl
      · intro h0; exact absurd h0 h
    · rw [if_neg h]
      obtain ⟨i1, i2, i3, i4⟩ := ctlXor_shape m request rest (s + 1) (acc ^^^ (m.ctl st request 0).2.2.toNat)
      refine ⟨?_, by simp only [List.length_cons]; omega, ?_, ?_⟩
      · simp only [List.map_cons, List.length_cons, List.range'_succ]; rw [i1]; rfl
      · intro x hx
        rcases List.mem_cons.mp hx with rfl | hx
        · rfl
        · exact i3 x hx
      · intro h0
        obtain ⟨a, b⟩ := i4 h0
        exact ⟨by simp only [List.length_cons]; rw [a], by simp only [List.map_cons, List.foldl_cons]; exact b⟩

end Opus.MsDecEq
