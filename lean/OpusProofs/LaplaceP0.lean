import OpusModel.Laplace
import OpusModel.Icdf
/-
  OpusProofs.LaplaceP0 — the `_p0` variants of celt/laplace.c:134-195 (used by DRED only): the decoder's symbol loop
  inverts the encoder's, and the two 16-bit ICDFs built at run time are exact codes for ftb = 15.
-/
namespace OpusProofs.LaplaceP0
open Opus Opus.Laplace Opus.Icdf

theorem magValue_magSymbols (rest : List Nat) : ∀ (v acc : Nat),
    magValue (magSymbols v ++ rest) acc = some (acc + v, rest) := by
  intro v
  induction v using Nat.strongRecOn with
  | _ v ih =>
    intro acc
    rw [magSymbols]
    by_cases h : v < 7
    · rw [if_pos h]
      simp only [List.cons_append, List.nil_append, magValue]
      rw [if_neg (by omega)]
    · rw [if_neg h]
      simp only [List.cons_append, magValue, if_true]
      rw [ih (v - 7) (by omega) (acc + 7)]
      congr 2; omega

/-- `ec_laplace_decode_p0` inverts `ec_laplace_encode_p0` at the symbol level, leaving the following symbols unread. -/
theorem p0_roundtrip (value : Int) (rest : List Nat) :
    decodeP0 (encodeP0 value).1 ((encodeP0 value).2 ++ rest) = some (value, rest) := by
  unfold encodeP0 decodeP0
  by_cases h0 : value = 0
  · simp [h0]
  · by_cases hp : value > 0
    · simp only [h0, hp, if_true, if_false, show (1 : Nat) ≠ 0 by decide, magValue_magSymbols, show ¬ (1 : Nat) = 2 by decide]
      congr 2; omega
    · simp only [h0, hp, if_false, show (2 : Nat) ≠ 0 by decide, magValue_magSymbols, if_true]
      congr 2; omega

/-- every magnitude symbol is inside the 8-entry table -/
theorem magSymbols_lt : ∀ v, ∀ s ∈ magSymbols v, s < 8 := by
  intro v
  induction v using Nat.strongRecOn with
  | _ v ih =>
    intro s hs
    rw [magSymbols] at hs
    by_cases h : v < 7
    · rw [if_pos h] at hs; simp at hs; omega
    · rw [if_neg h] at hs
      simp only [List.mem_cons] at hs
      rcases hs with rfl | hs
      · decide
      · exact ih (v - 7) (by omega) s hs

theorem signIcdf_ok (p0 : Nat) (h1 : 0 < p0) (h2 : p0 ≤ 32766) : icdfOk 15 (signIcdf p0) = true := by
  have e : (32768 + 65536 - p0) % 65536 = 32768 - p0 := by omega
  simp only [signIcdf, e, icdfOk, strictDecr, endsZero, Bool.and_eq_true, decide_eq_true_eq, beq_self_eq_true, and_true]
  omega

/-- the decayed entries stay positive, strictly below their predecessor and below 2^16 -/
theorem magIcdfFrom_ok (decay : Nat) (hd : decay < 32768) : ∀ n prev, n < prev → prev < 32768 →
    strictDecr (prev :: (magIcdfFrom decay n prev ++ [0])) = true ∧ endsZero (prev :: (magIcdfFrom decay n prev ++ [0])) = true := by
  intro n
  induction n with
  | zero =>
    intro prev h _
    simp [magIcdfFrom, strictDecr, endsZero]; omega
  | succ n ih =>
    intro prev h hp
    have hq : prev * decay / 32768 < prev := by
      apply Nat.div_lt_of_lt_mul
      have : prev * decay < prev * 32768 := Nat.mul_lt_mul_of_pos_left hd (by omega)
      rw [Nat.mul_comm 32768 prev]; exact this
    have hx : max (n + 1) (prev * decay / 32768) % 65536 = max (n + 1) (prev * decay / 32768) := by
      apply Nat.mod_eq_of_lt; omega
    have hlt : max (n + 1) (prev * decay / 32768) < prev := by omega
    obtain ⟨h1, h2⟩ := ih (max (n + 1) (prev * decay / 32768)) (by omega) (by omega)
    simp only [magIcdfFrom, hx, List.cons_append, strictDecr, endsZero, Bool.and_eq_true, decide_eq_true_eq]
    exact ⟨⟨hlt, h1⟩, h2⟩

theorem magIcdf_ok (decay : Nat) (hd : decay < 32768) : icdfOk 15 (magIcdf decay) = true := by
  obtain ⟨h1, h2⟩ := magIcdfFrom_ok decay hd 6 (max 7 decay) (by omega) (by omega)
  simp only [magIcdf, icdfOk, Bool.and_eq_true, decide_eq_true_eq]
  exact ⟨⟨by omega, h1⟩, h2⟩

end OpusProofs.LaplaceP0
