import OpusProofs.CeltBandsTotal
/-
  C03, stage 2b: the contract `AllocOps` that `celtFrame_total` needs from C17's allocation model, proved here from the
  definitions of OpusModel/CeltAlloc.lean (read-only): the band-skipping loop issues at most one `ec_dec_bit_logp` per
  band, "code the intensity and dual stereo parameters" at most one `ec_dec_uint(codedBands+1-start)` and one more flag;
  with `start < codedBands ≤ end ≤ 21` (C17's `alloc_main`) that is at most 23 calls and `2 ≤ ft ≤ 22`.
-/
namespace Opus.CeltBandsProofs
open Opus Opus.CeltAlloc OpusProofs.CeltAlloc

theorem codeStereo_ops (p : Inp) (s : SkipOut) (d : Int) :
    ∃ pre, (codeStereo p s d).2.2.2.ops = pre ++ s.coder.ops ∧ pre.length ≤ 2 ∧
      ∀ v ft, Op.uint v ft ∈ pre → ft = s.codedBands + 1 - p.start := by
  simp only [codeStereo, Coder.decUint, Coder.encUint, Coder.decBit, Coder.encBit]
  repeat' split
  all_goals
    first
    | exact ⟨[], rfl, by simp, by simp⟩
    | exact ⟨[_], rfl, by simp, by simp⟩
    | exact ⟨[_, _], rfl, by simp, by simp⟩

theorem skipStep_ops (p : Inp) (b : Band) (bits psum total irsv : Int) (coder : Coder) :
    ∃ pre, (skipStep p b bits psum total irsv coder).coder.ops = pre ++ coder.ops ∧ pre.length ≤ 1 ∧
      ∀ v ft, Op.uint v ft ∉ pre := by
  simp only [skipStep, Coder.decBit, Coder.encBit]
  repeat' split
  all_goals
    first
    | exact ⟨[], rfl, by simp, by simp⟩
    | exact ⟨[_], rfl, by simp, by simp⟩

theorem skipLoop_ops (p : Inp) (ss : Nat) (rsv : Int) : ∀ (l : List (Band × Int)) (psum total irsv : Int) (coder : Coder)
    (acc : List (Band × Int)) (s : SkipOut), skipLoop p ss rsv l psum total irsv coder acc = .ok s →
    ∃ pre, s.coder.ops = pre ++ coder.ops ∧ pre.length ≤ l.length ∧ ∀ v ft, Op.uint v ft ∉ pre
  | [], _, _, _, _, _, s, h => by unfold skipLoop at h; exact absurd h (by simp)
  | (b, bits) :: rest, psum, total, irsv, coder, acc, s, h => by
    unfold skipLoop at h
    split at h
    · injection h with h
      rw [← h]
      exact ⟨[], rfl, by simp, by simp⟩
    · dsimp only at h
      obtain ⟨pre1, h1, h2, h3⟩ := skipStep_ops p b bits psum total irsv coder
      split at h
      · injection h with h
        rw [← h]
        exact ⟨pre1, h1, by simp; omega, h3⟩
      · obtain ⟨pre2, g1, g2, g3⟩ := skipLoop_ops p ss rsv rest _ _ _ _ _ s h
        refine ⟨pre2 ++ pre1, by rw [g1, h1, List.append_assoc], by simp; omega, ?_⟩
        intro v ft hm
        rw [List.mem_append] at hm
        rcases hm with hm | hm
        · exact g3 v ft hm
        · exact h3 v ft hm

/-- The contract holds for every input in C17's domain. -/
theorem allocOps_of_dom (p : Inp) (hp : Dom p) : AllocOps p := by
  intro orc o ho
  obtain ⟨o', ho', hcb1, hcb2, _⟩ := alloc_main p hp { encode := false, oracle := orc, ops := [] } (fun h => by simp at h)
  rw [ho] at ho'
  injection ho' with ho'
  subst ho'
  have hrun : computeAllocation p { encode := false, oracle := orc, ops := [] } =
      (skipLoop p (skipStart p.start (bands p)) (skipRsv p) (l0 p) (sumInt (bits0 p)) (tot p) (irsv p)
        { encode := false, oracle := orc, ops := [] } [] >>= fun s => pure (finishTail p s (dsrsv p))) := rfl
  rw [hrun] at ho
  cases hs : skipLoop p (skipStart p.start (bands p)) (skipRsv p) (l0 p) (sumInt (bits0 p)) (tot p) (irsv p)
      { encode := false, oracle := orc, ops := [] } [] with
  | ok s =>
    rw [hs] at ho
    simp only [Res.bind_ok, Res.pure_eq] at ho
    injection ho with ho
    obtain ⟨pre1, h1, h2, h3⟩ := skipLoop_ops p _ _ _ _ _ _ _ _ s hs
    obtain ⟨pre2, g1, g2, g3⟩ := codeStereo_ops p s (dsrsv p)
    have hl0 : (l0 p).length ≤ 21 := by
      unfold l0
      rw [List.length_zip, List.length_reverse]
      have : (bands p).length = p.end_ - p.start := by unfold bands; simp
      have := hp.hend
      have : Gen.CeltTables.nbEBands = 21 := rfl
      omega
    have hops : o.ops = (pre2 ++ (pre1 ++ [])).reverse := by
      rw [← ho]
      show (codeStereo p s (dsrsv p)).2.2.2.ops.reverse = _
      rw [g1, h1]
    have hcbs : o.codedBands = s.codedBands := by rw [← ho]; rfl
    refine ⟨by rw [hops]; simp; omega, ?_⟩
    intro v ft hm
    rw [hops, List.mem_reverse, List.append_nil, List.mem_append] at hm
    rcases hm with hm | hm
    · have := g3 v ft hm
      have := hp.hend
      have : Gen.CeltTables.nbEBands = 21 := rfl
      omega
    · exact absurd hm (h3 v ft)
  | err e => rw [hs] at ho; simp at ho
  | oob => rw [hs] at ho; simp at ho
  | abort => rw [hs] at ho; simp at ho

end Opus.CeltBandsProofs
