import OpusModel.SilkStereoLoops
/-
  OpusProofs.SilkStereoLoops — nested loops with `goto done` = scan over the visiting order.
-/
namespace OpusProofs.SilkStereoLoops
open Opus Opus.SilkParams Opus.SilkStereo

theorem inner_scan (pred : Int) (i : Nat) : ∀ (js : List Nat) (rest : List (Nat × Nat)) (st : QSt),
    scan pred (js.map (fun j => (i, j)) ++ rest) st =
      match innerLoop pred i js st with
      | none => none
      | some (st', true) => some st'
      | some (st', false) => scan pred rest st' := by
  intro js
  induction js with
  | nil => intro rest st; simp [innerLoop]
  | cons j js ih =>
    intro rest st
    simp only [List.map_cons, List.cons_append]
    rw [scan, innerLoop]
    simp only [level]
    by_cases h1 : pred - smlabb (low i) (step i) (2 * (j : Int) + 1) < -2147483647 ∨
        pred - smlabb (low i) (step i) (2 * (j : Int) + 1) > 2147483647
    · simp only [h1, if_true]
    · simp only [h1, if_false]
      by_cases h2 : sabs (pred - smlabb (low i) (step i) (2 * (j : Int) + 1)) < st.errMin
      · simp only [h2, if_true]
        exact ih rest _
      · simp only [h2, if_false]

theorem outer_scan (pred : Int) : ∀ (is : List Nat) (st : QSt),
    outerLoop pred is st = scan pred (is.flatMap fun i => (List.range subSteps).map fun j => (i, j)) st := by
  intro is
  induction is with
  | nil => intro st; simp [outerLoop, scan]
  | cons i is ih =>
    intro st
    rw [List.flatMap_cons, inner_scan, outerLoop]
    split <;> simp_all

theorem quantOneLoops_eq (pred qIn a b : Int) : quantOneLoops pred qIn a b = quantOne pred qIn a b := by
  unfold quantOneLoops quantOne visitOrder
  rw [outer_scan]
  rfl

end OpusProofs.SilkStereoLoops
