import OpusModel.EncSkel
/-
  OpusProofs.EncSkelCvbr — the constrained-VBR reservoir of CELT stays within `[0, vbr_rate]`, and
  over any run of frames at a constant rate the bytes produced exceed `N · vbr_rate` by at most one
  frame's worth (`vbr_rate`) — for all oracle targets.
-/
namespace Opus.EncSkel.Proofs
open Opus Opus.EncSkel

/-- One step: reservoir bounds, packet size bounds, and the accounting inequality
    `reservoir' ≥ reservoir + 64·bytes − vbr_rate` (equality unless the reservoir is clamped at 0). -/
theorem cvbrStep_spec (v res nb want : Int) (sil : Bool) (hv : 128 ≤ v) (hr0 : 0 ≤ res) (hr1 : res ≤ v) (hnb : 2 ≤ nb) :
    0 ≤ (cvbrStep v res nb want sil).1 ∧ (cvbrStep v res nb want sil).1 ≤ v ∧
    (cvbrStep v res nb want sil).2 ≤ nb ∧
    res + 64 * (cvbrStep v res nb want sil).2 - v ≤ (cvbrStep v res nb want sil).1 ∧
    (cvbrStep v res nb want sil).1 = max 0 (res + 64 * (cvbrStep v res nb want sil).2 - v) := by
  unfold cvbrStep cvbrMaxAllowed
  dsimp only
  cases sil <;> simp only [Bool.false_eq_true, if_false, if_true] <;> (split <;> dsimp only <;> omega)

/-- If the rate was lowered (reservoir above the new `vbr_rate`), the reservoir is back inside
    `[0, vbr_rate]` after the frame or has shrunk by at least `vbr_rate − 128`. -/
theorem cvbrStep_drain (v res nb want : Int) (sil : Bool) (hv : 128 ≤ v) (hr1 : v < res) (hnb : 2 ≤ nb) :
    (cvbrStep v res nb want sil).1 ≤ max v (res + 128 - v) ∧ 0 ≤ (cvbrStep v res nb want sil).1 := by
  unfold cvbrStep cvbrMaxAllowed
  dsimp only
  cases sil <;> simp only [Bool.false_eq_true, if_false, if_true] <;> (split <;> dsimp only <;> omega)

def sumI : List Int → Int
  | [] => 0
  | x :: xs => x + sumI xs

/-- **Long-run bound.**  At a constant `vbr_rate ≥ 128` (two bytes per frame), starting with the
    reservoir in `[0, vbr_rate]`, after any number of frames with arbitrary targets: the reservoir is in
    `[0, vbr_rate]` and `64 · Σ bytes ≤ N · vbr_rate + reservoir_N − reservoir_0 ≤ (N + 1) · vbr_rate`. -/
theorem cvbr_run_bound (v : Int) (hv : 128 ≤ v) :
    ∀ (fr : List (Int × Int × Bool)) (res : Int), 0 ≤ res → res ≤ v → (∀ f ∈ fr, 2 ≤ f.1) →
      0 ≤ (cvbrRun v res fr).1 ∧ (cvbrRun v res fr).1 ≤ v ∧
      64 * sumI (cvbrRun v res fr).2 ≤ fr.length * v + (cvbrRun v res fr).1 - res := by
  intro fr
  induction fr with
  | nil => intro res h0 h1 _; simp [cvbrRun, sumI]; omega
  | cons f rest ih =>
    intro res h0 h1 hnb
    obtain ⟨nb, want, sil⟩ := f
    have hnb0 : 2 ≤ nb := hnb (nb, want, sil) (by simp)
    obtain ⟨s1, s2, _, s4, _⟩ := cvbrStep_spec v res nb want sil hv h0 h1 hnb0
    obtain ⟨i1, i2, i3⟩ := ih (cvbrStep v res nb want sil).1 s1 s2 (fun g hg => hnb g (by simp [hg]))
    simp only [cvbrRun, sumI, List.length_cons]
    refine ⟨i1, i2, ?_⟩
    push_cast
    have : ((rest.length : Int) + 1) * v = rest.length * v + v := by rw [Int.add_mul]; omega
    rw [this]
    omega

end Opus.EncSkel.Proofs
