import OpusProofs.ExtGenOps
/-
  C16 helper lemmas, part 5: the action sequence of `opus_packet_extensions_generate` is
  well-guarded (every write preceded by a covering check), honest (every check is followed by at
  least the bytes it asked for) and copies only bytes the caller supplied.  From this: dry-run
  size = written size, an exact-size buffer suffices, anything smaller is refused, nothing is
  written at an index ≥ len.
-/
set_option linter.unusedVariables false
namespace Opus.ExtProofs
open Opus Opus.Ext

theorem W.bind_eq {α β : Type} (x : W α) (f : α → W β) : (x >>= f) = W.bind x f := rfl
theorem W.pure_eq {α : Type} (a : α) : (pure a : W α) = { ops := [], res := .ok a } := rfl

/-- Static well-formedness of an emitted action sequence; `s` = number of bytes that a check of
    the sequence may ask for beyond what the sequence itself writes (the separator check asks for
    2 bytes and may write 1: the extension that follows supplies the other). -/
structure Nice {α : Type} (s : Nat) (w : W α) : Prop where
  copy : CopyOk w.ops
  grd : ∀ c : Int, 0 ≤ c → guarded c w.ops
  hon : ∀ a, w.res = .ok a → req w.ops ≤ opsSize w.ops + s

theorem Nice.mono {α : Type} {s t : Nat} {w : W α} (h : Nice s w) (hst : s ≤ t) : Nice t w :=
  ⟨h.copy, h.grd, fun a ha => by have := h.hon a ha; omega⟩

theorem Nice.pure {α : Type} (a : α) : Nice 0 (pure a : W α) :=
  ⟨by intro s n h; simp [W.pure_eq] at h, fun c _ => by simp [W.pure_eq, guarded], fun _ _ => by simp [W.pure_eq, req]⟩

theorem Nice.lift {α : Type} (r : Res α) : Nice 0 (W.lift r) :=
  ⟨by intro s n h; simp [W.lift] at h, fun c _ => by simp [W.lift, guarded], fun _ _ => by simp [W.lift, req]⟩

/-- Sequencing: the continuation must supply the slack of the first part. -/
theorem Nice.bind {α β : Type} {s1 s2 : Nat} {x : W α} {f : α → W β} (hx : Nice s1 x)
    (hf : ∀ a, x.res = .ok a → Nice s2 (f a))
    (hs : ∀ a b, x.res = .ok a → (f a).res = .ok b → s1 ≤ opsSize (f a).ops + s2) :
    Nice s2 (x >>= f) := by
  rw [W.bind_eq]
  unfold W.bind
  cases hr : x.res with
  | ok a =>
    have hfa := hf a hr
    simp only
    refine ⟨CopyOk_append.mpr ⟨hx.copy, hfa.copy⟩, ?_, ?_⟩
    · intro c hc
      rw [guarded_append]
      exact ⟨hx.grd c hc, hfa.grd _ (cover_nonneg _ _ hc (hx.grd c hc))⟩
    · intro b hb
      have h1 := hx.hon a hr
      have h2 := hfa.hon b hb
      have h3 := hs a b hr hb
      rw [req_append, opsSize_append]
      push_cast
      omega
  | err e => exact ⟨hx.copy, hx.grd, fun a ha => by simp at ha⟩
  | oob => exact ⟨hx.copy, hx.grd, fun a ha => by simp at ha⟩
  | abort => exact ⟨hx.copy, hx.grd, fun a ha => by simp at ha⟩

theorem Nice.bind0 {α β : Type} {x : W α} {f : α → W β} (hx : Nice 0 x)
    (hf : ∀ a, x.res = .ok a → Nice 0 (f a)) : Nice 0 (x >>= f) :=
  Nice.bind hx hf (fun _ _ _ _ => Nat.zero_le _)

/-- A run of `put`s. -/
theorem puts_facts (k : Nat) (b : Nat) (rest : List Op) :
    opsSize (List.replicate k (Op.put b) ++ rest) = k + opsSize rest ∧
    req (List.replicate k (Op.put b) ++ rest) = k + req rest ∧
    (∀ c : Int, (k : Int) ≤ c → guarded (c - k) rest → guarded c (List.replicate k (Op.put b) ++ rest)) := by
  induction k with
  | zero => simp
  | succ k ih =>
    obtain ⟨h1, h2, h3⟩ := ih
    refine ⟨?_, ?_, ?_⟩
    · simp only [List.replicate_succ, List.cons_append, opsSize_cons, opSize, h1]; omega
    · simp only [List.replicate_succ, List.cons_append, req, h2]; push_cast; omega
    · intro c a1 a2
      simp only [List.replicate_succ, List.cons_append, guarded]
      refine ⟨by push_cast at a1; omega, h3 _ (by push_cast at a1; omega) ?_⟩
      have e : c - ((k + 1 : Nat) : Int) = c - 1 - k := by push_cast; omega
      rw [e] at a2; exact a2

/-- The caller's payload pointer supplies `len` bytes. -/
def DataOk (e : Ext) : Prop := e.len ≤ e.data.length

theorem wPayload_nice (e : Ext) (last : Bool) (hd : DataOk e) : Nice 0 (wPayload e last) := by
  unfold wPayload
  split
  · exact Nice.lift _
  · split
    · split
      · exact Nice.lift _
      · split
        · rename_i h1 h2
          have hl : e.len = 1 := by omega
          refine ⟨?_, ?_, ?_⟩
          · intro s n hm
            simp only [W.emit, List.mem_cons, Op.copy.injEq, reduceCtorEq, false_or, List.not_mem_nil, or_false] at hm
            obtain ⟨rfl, rfl⟩ := hm
            unfold DataOk at hd; omega
          · intro c hc; simp only [W.emit, guarded, and_true]; omega
          · intro _ _; simp only [W.emit, req, opsSize_cons, opSize, opsSize_nil, hl]; omega
        · exact Nice.pure _
    · split
      · exact Nice.lift _
      · rename_i h1 h2 h3
        have hl : 0 ≤ e.len := by omega
        simp only [W.emit]
        cases last with
        | true =>
          simp only [if_true, List.append_nil, List.cons_append, List.nil_append]
          refine ⟨?_, ?_, ?_⟩
          · intro s n hm
            simp only [List.mem_cons, reduceCtorEq, Op.copy.injEq, false_or, List.not_mem_nil, or_false] at hm
            obtain ⟨rfl, rfl⟩ := hm
            unfold DataOk at hd; omega
          · intro c hc; simp only [guarded, and_true]; omega
          · intro _ _; simp only [req, opsSize_cons, opSize, opsSize_nil]; omega
        | false =>
          simp only [Bool.false_eq_true, if_false, List.cons_append, List.nil_append, List.append_assoc]
          have hq : 0 ≤ e.len / 255 := Int.ediv_nonneg hl (by omega)
          have hm : 0 ≤ e.len % 255 := Int.emod_nonneg _ (by omega)
          obtain ⟨p1, p2, p3⟩ := puts_facts (e.len / 255).toNat 255 [Op.put (e.len % 255).toNat, Op.copy e.data e.len.toNat]
          refine ⟨?_, ?_, ?_⟩
          · intro s n hmem
            simp only [List.mem_cons, reduceCtorEq, false_or, List.mem_append, List.mem_replicate, and_false,
              Op.copy.injEq, List.not_mem_nil, or_false] at hmem
            obtain ⟨rfl, rfl⟩ := hmem
            unfold DataOk at hd; omega
          · intro c hc
            simp only [guarded]
            apply p3
            · omega
            · simp only [guarded, and_true]; omega
          · intro _ _
            simp only [req, opsSize_cons, opSize]
            rw [p1, p2]
            simp only [req, opsSize_cons, opSize, opsSize_nil]
            omega

theorem emit_need_put_nice (k : Int) (b : Nat) (hk : 1 ≤ k) : Nice (k - 1).toNat (W.emit [Op.need k, Op.put b]) :=
  ⟨by intro s n hm; simp [W.emit] at hm,
   fun c _ => by simp only [W.emit, guarded, and_true]; omega,
   fun _ _ => by simp only [W.emit, req, opsSize_cons, opSize, opsSize_nil]; omega⟩

theorem wExt_nice (e : Ext) (last : Bool) (hd : DataOk e) : Nice 0 (wExt e last) := by
  by_cases hid : 3 ≤ e.id ∧ e.id ≤ 127
  · have e1 : wExt e last = (W.emit [Op.need 1, Op.put
        ((e.id * 2 + (if e.id < 32 then e.len else if last then 0 else 1)) % 256).toNat] >>= fun _ => wPayload e last) := by
      simp only [wExt, W.bind_eq, W.bind, W.emit, hid, not_true_eq_false, if_false, and_self, List.cons_append,
        List.nil_append]
    rw [e1]
    exact Nice.bind0 (emit_need_put_nice 1 _ (by omega)) (fun _ _ => wPayload_nice e last hd)
  · have e1 : wExt e last = { ops := [Op.need 1], res := .abort } := by
      simp only [wExt, W.bind_eq, W.bind, W.emit, W.lift, hid, not_false_eq_true, if_true, List.append_nil]
    rw [e1]
    exact ⟨by intro s n hm; simp at hm, fun c _ => by simp [guarded], fun a ha => by simp at ha⟩

/-- A successful `write_extension` writes at least the ID byte. -/
theorem wExt_size (e : Ext) (last : Bool) (a : Unit) (h : (wExt e last).res = .ok a) : 1 ≤ opsSize (wExt e last).ops := by
  by_cases hid : 3 ≤ e.id ∧ e.id ≤ 127
  · simp only [wExt, W.bind_eq, W.bind, W.emit, hid, not_true_eq_false, if_false, and_self]
    cases (wPayload e last).res <;> simp [opSize] <;> omega
  · simp [wExt, W.bind_eq, W.bind, W.emit, W.lift, hid] at h

theorem wSep_nice (f cur : Nat) : Nice 1 (wSep f cur) := by
  unfold wSep
  split
  · simp only
    split
    · exact emit_need_put_nice 2 2 (by omega)
    · exact ⟨by intro s n hm; simp [W.emit] at hm,
        fun c _ => by simp only [W.emit, guarded, and_true]; omega,
        fun _ _ => by simp only [W.emit, req, opsSize_cons, opSize, opsSize_nil]; omega⟩
  · exact (Nice.pure ()).mono (by omega)

/-- Every extension of the caller's array comes with its payload bytes. -/
def ExtsOk (exts : Array Ext) : Prop := ∀ (i : Nat) (e : Ext), exts[i]? = some e → DataOk e

instance (e : Ext) : Decidable (DataOk e) := by unfold DataOk; infer_instance

theorem extsOk_of_all (exts : Array Ext) (h : ∀ e ∈ exts.toList, DataOk e) : ExtsOk exts := by
  intro i e hi
  apply h e
  rw [Array.getElem?_eq_some_iff] at hi
  obtain ⟨hlt, rfl⟩ := hi
  simp

theorem rdE_ok {exts : Array Ext} (h : ExtsOk exts) {i : Nat} {e : Ext} (hr : (W.lift (rdE exts i)).res = .ok e) : DataOk e := by
  simp only [W.lift, rdE] at hr
  split at hr
  · rename_i v hv; simp only [Res.ok.injEq] at hr; subst hr; exact h i _ hv
  · simp at hr

theorem wRepeatsOfFrame_nice (exts : Array Ext) (hE : ExtsOk exts) (g : Nat) (last : Bool) (ll : Option Nat)
    (j hi w : Nat) : Nice 0 (wRepeatsOfFrame exts g last ll j hi w) := by
  fun_induction wRepeatsOfFrame exts g last ll j hi w with
  | case1 j w hlt ih2 ih1 =>
    apply Nice.bind0 (Nice.lift _)
    intro x hx
    split
    · exact Nice.bind0 (wPayload_nice _ _ (rdE_ok hE hx)) (fun _ _ => ih2)
    · exact ih1
  | case2 => exact Nice.pure _

theorem wRepeatsLoop_nice (exts : Array Ext) (hE : ExtsOk exts) (nbF : Nat) (last : Bool) (ll : Option Nat)
    (g : Nat) (s : GSt) : Nice 0 (wRepeatsLoop exts nbF last ll g s) := by
  fun_induction wRepeatsLoop exts nbF last ll g s with
  | case1 g s hlt ih =>
    apply Nice.bind0 (Nice.lift _); intro lo _
    apply Nice.bind0 (Nice.lift _); intro hi _
    apply Nice.bind0 (wRepeatsOfFrame_nice exts hE _ _ _ _ _ _); intro w' _
    exact ih lo hi w'
  | case2 => exact Nice.pure _

theorem wFrameLoop_nice (exts : Array Ext) (hE : ExtsOk exts) (nbF f : Nat) (det : Det) (i hi : Nat) (s : GSt) :
    Nice 0 (wFrameLoop exts nbF f det i hi s) := by
  fun_induction wFrameLoop exts nbF f det i hi s with
  | case1 i s hlt ih3 ih2 ih1 =>
    apply Nice.bind0 (Nice.lift _); intro e he
    split
    · apply Nice.bind (wSep_nice _ _)
      · intro _ _
        apply Nice.bind0 (wExt_nice _ _ (rdE_ok hE he)); intro _ _
        split
        · apply Nice.bind0 (emit_need_put_nice 1 _ (by omega)); intro _ _
          apply Nice.bind0 (wRepeatsLoop_nice exts hE _ _ _ _ _); intro s3 _
          exact ih3 e s3
        · exact ih2 e
      · intro a b _ hb
        -- the extension written right after the separator supplies the second byte the check asked for
        simp only [W.bind_eq] at hb ⊢
        unfold W.bind at hb ⊢
        cases hr : (wExt e ((s.written : Int) = (exts.size : Int) - 1)).res with
        | ok u =>
          have := wExt_size _ _ u hr
          simp only [hr] at hb ⊢
          simp only [opsSize_append]; omega
        | err er => simp [hr] at hb
        | oob => simp [hr] at hb
        | abort => simp [hr] at hb
    · exact ih1
  | case2 => exact Nice.pure _

theorem wFramesLoop_nice (exts : Array Ext) (hE : ExtsOk exts) (nbF : Nat) (mx : List Nat) (f : Nat) (s : GSt) :
    Nice 0 (wFramesLoop exts nbF mx f s) := by
  fun_induction wFramesLoop exts nbF mx f s with
  | case1 f s hlt ih =>
    apply Nice.bind0 (Nice.lift _); intro lo _
    apply Nice.bind0 (Nice.lift _); intro hi _
    apply Nice.bind0 (Nice.lift _); intro det _
    apply Nice.bind0 (wFrameLoop_nice exts hE _ _ _ _ _ _); intro s' _
    first | exact ih s' | exact ih _ s' | exact ih _ _ s' | exact ih lo hi det s'
  | case2 => exact Nice.pure _

theorem genOps_nice (exts : Array Ext) (hE : ExtsOk exts) (nbF : Nat) : Nice 0 (genOps exts nbF) := by
  unfold genOps
  apply Nice.bind0 (Nice.lift _); intro mm _
  obtain ⟨mn, mx⟩ := mm
  apply Nice.bind0 (wFramesLoop_nice exts hE _ _ _ _); intro s _
  split
  · exact Nice.lift _
  · exact Nice.pure _

/-! ### Consequences for `generate` -/

/-- Size of a generated buffer (what the C function returns). -/
def resSize : Res (Array Nat) → Res Nat
  | .ok out => .ok out.size
  | .err e => .err e
  | .oob => .oob
  | .abort => .abort

theorem generateDry_eq (len : Int) (exts : Array Ext) (nbFrames : Int) (pad : Bool) :
    generateDry len exts nbFrames pad = resSize (generate true len exts nbFrames pad) := by
  unfold generateDry resSize; split <;> simp [*]

/-- `generate` in closed form. -/
theorem generate_eq (dry : Bool) (len : Int) (exts : Array Ext) (nbFrames : Int) (pad : Bool)
    (hE : ExtsOk exts) (hl : 0 ≤ len) (hn : nbFrames ≤ 48) :
    generate dry len exts nbFrames pad =
      let w := genOps exts nbFrames.toNat
      if needsPass len 0 w.ops then
        match w.res with
        | .ok _ =>
          if pad ∧ (opsSize w.ops : Int) < len then
            .ok (Array.replicate (len - opsSize w.ops).toNat (if dry then 0 else 1) ++ (content dry w.ops).toArray)
          else .ok (content dry w.ops).toArray
        | .err e => .err e
        | .oob => .oob
        | .abort => .abort
      else .err .bufferTooSmall := by
  have hN := genOps_nice exts hE nbFrames.toNat
  have hcl := content_length dry (genOps exts nbFrames.toNat).ops (Or.inr hN.copy)
  unfold generate
  have h1 : ¬ (len < 0) := by omega
  have h2 : ¬ (48 < nbFrames) := by omega
  simp only [h1, h2, if_false]
  rw [runOps_eq dry len _ #[] (Or.inr hN.copy)]
  simp only [List.size_toArray, List.length_nil]
  by_cases hp : needsPass len 0 (genOps exts nbFrames.toNat).ops
  · simp only [hp, if_true]
    have e0 : (#[] : Array Nat) ++ (content dry (genOps exts nbFrames.toNat).ops).toArray
        = (content dry (genOps exts nbFrames.toNat).ops).toArray := by simp
    rw [e0]
    simp only [List.size_toArray, hcl]
    cases (genOps exts nbFrames.toNat).res <;> rfl
  · simp only [hp, if_false]

/-- Dry-run return value = return value when writing, for every `len` and `pad`. -/
theorem generate_dry_eq_written (len : Int) (exts : Array Ext) (nbFrames : Int) (pad : Bool) (hE : ExtsOk exts) :
    generateDry len exts nbFrames pad = resSize (generate false len exts nbFrames pad) := by
  rw [generateDry_eq]
  by_cases hl : 0 ≤ len
  · by_cases hn : nbFrames ≤ 48
    · have hN := genOps_nice exts hE nbFrames.toNat
      have c1 := content_length true (genOps exts nbFrames.toNat).ops (Or.inl rfl)
      have c2 := content_length false (genOps exts nbFrames.toNat).ops (Or.inr hN.copy)
      rw [generate_eq true len exts nbFrames pad hE hl hn, generate_eq false len exts nbFrames pad hE hl hn]
      simp only
      by_cases hp : needsPass len 0 (genOps exts nbFrames.toNat).ops
      · simp only [hp, if_true]
        cases (genOps exts nbFrames.toNat).res with
        | ok u =>
          simp only
          by_cases hpad : pad = true ∧ (opsSize (genOps exts nbFrames.toNat).ops : Int) < len
          · simp only [hpad, and_self, if_true, resSize, Array.size_append, Array.size_replicate, List.size_toArray, c1, c2]
          · simp only [hpad, if_false, resSize, List.size_toArray, c1, c2]
        | err e => rfl
        | oob => rfl
        | abort => rfl
      · simp only [hp, if_false, resSize]
    · unfold generate; have h1 : ¬ (len < 0) := by omega
      have h2 : 48 < nbFrames := by omega
      simp [h1, h2, resSize]
  · unfold generate; have h1 : len < 0 := by omega
    simp [h1, resSize]

/-- What a successful unpadded run tells about the action sequence. -/
theorem generate_ok_inv {dry : Bool} {len : Int} {exts : Array Ext} {nbFrames : Int} {out : Array Nat}
    (hE : ExtsOk exts) (h : generate dry len exts nbFrames false = .ok out) :
    0 ≤ len ∧ nbFrames ≤ 48 ∧ (∃ u, (genOps exts nbFrames.toNat).res = .ok u) ∧
    out.size = opsSize (genOps exts nbFrames.toNat).ops ∧ (out.size : Int) ≤ len ∧
    out = (content dry (genOps exts nbFrames.toNat).ops).toArray := by
  have hl : 0 ≤ len := by
    apply Decidable.byContradiction; intro hc
    unfold generate at h; have : len < 0 := by omega
    simp [this] at h
  have hn : nbFrames ≤ 48 := by
    apply Decidable.byContradiction; intro hc
    unfold generate at h; have h1 : ¬ len < 0 := by omega
    have : 48 < nbFrames := by omega
    simp [h1, this] at h
  have hN := genOps_nice exts hE nbFrames.toNat
  have hcl := content_length dry (genOps exts nbFrames.toNat).ops (Or.inr hN.copy)
  rw [generate_eq dry len exts nbFrames false hE hl hn] at h
  simp only at h
  by_cases hp : needsPass len 0 (genOps exts nbFrames.toNat).ops
  · simp only [hp, if_true] at h
    cases hr : (genOps exts nbFrames.toNat).res with
    | ok u =>
      simp only [hr, Bool.false_eq_true, false_and, if_false, Res.ok.injEq] at h
      subst h
      refine ⟨hl, hn, ⟨u, rfl⟩, by simp [hcl], ?_, rfl⟩
      simp only [List.size_toArray, hcl]
      -- all writes were guarded, so the run stayed inside `len`
      apply Decidable.byContradiction; intro hc
      exact not_needsPass len _ 0 0 (Int.le_refl _) (by simpa using hl) (hN.grd 0 (Int.le_refl _)) (by simpa using (by omega : len < _)) hp
    | err e => simp [hr] at h
    | oob => simp [hr] at h
    | abort => simp [hr] at h
  · simp [hp] at h

/-- A buffer of exactly the dry-run size suffices (in both modes, with or without padding request),
    and every smaller buffer is refused with `OPUS_BUFFER_TOO_SMALL`. -/
theorem generate_exact_and_smaller {dry : Bool} {len : Int} {exts : Array Ext} {nbFrames : Int} {out : Array Nat}
    (hE : ExtsOk exts) (h : generate dry len exts nbFrames false = .ok out) :
    (∀ dry' pad', ∃ out', generate dry' out.size exts nbFrames pad' = .ok out' ∧ out'.size = out.size ∧
        (dry' = dry → out' = out)) ∧
    (∀ (m : Int) dry' pad', 0 ≤ m → m < out.size → generate dry' m exts nbFrames pad' = .err .bufferTooSmall) := by
  obtain ⟨hl, hn, ⟨u, hu⟩, hsz, hle, hout⟩ := generate_ok_inv hE h
  have hN := genOps_nice exts hE nbFrames.toNat
  constructor
  · intro dry' pad'
    rw [generate_eq dry' out.size exts nbFrames pad' hE (by omega) hn]
    have hp : needsPass (out.size : Int) 0 (genOps exts nbFrames.toNat).ops :=
      needsPass_of_req _ _ 0 (by have := hN.hon u hu; rw [hsz]; push_cast; omega)
    have hnp : ¬ (pad' = true ∧ (opsSize (genOps exts nbFrames.toNat).ops : Int) < (out.size : Int)) := by
      rw [hsz]; omega
    simp only [hp, if_true, hu, hnp, if_false]
    refine ⟨_, rfl, ?_, ?_⟩
    · simp only [List.size_toArray]
      rw [content_length dry' _ (Or.inr hN.copy), hsz]
    · intro hd; subst hd; exact hout.symm
  · intro m dry' pad' h0 hm
    rw [generate_eq dry' m exts nbFrames pad' hE h0 hn]
    have hp : ¬ needsPass m 0 (genOps exts nbFrames.toNat).ops :=
      not_needsPass m _ 0 0 (Int.le_refl _) (by simpa using h0) (hN.grd 0 (Int.le_refl _)) (by rw [← hsz]; simpa using hm)
    simp only [hp, if_false]

/-- Whatever happens (success, `BUFFER_TOO_SMALL`, `BAD_ARG`), the generator writes nothing at an
    index `≥ len`: the write log of the run stays inside the buffer. -/
theorem generate_log_within (dry : Bool) (len : Int) (exts : Array Ext) (nbF : Nat) (hE : ExtsOk exts) (hl : 0 ≤ len) :
    ((runOpsLog dry len (genOps exts nbF).ops #[]).size : Int) ≤ len :=
  runOpsLog_within dry len _ #[] 0 (Int.le_refl _) (by simpa using hl) ((genOps_nice exts hE nbF).grd 0 (Int.le_refl _))

/-- A returned buffer (padded or not) has at most `len` bytes. -/
theorem generate_size_le {dry : Bool} {len : Int} {exts : Array Ext} {nbFrames : Int} {pad : Bool} {out : Array Nat}
    (hE : ExtsOk exts) (h : generate dry len exts nbFrames pad = .ok out) : (out.size : Int) ≤ len := by
  have hl : 0 ≤ len := by
    apply Decidable.byContradiction; intro hc
    unfold generate at h; have : len < 0 := by omega
    simp [this] at h
  have hn : nbFrames ≤ 48 := by
    apply Decidable.byContradiction; intro hc
    unfold generate at h; have h1 : ¬ len < 0 := by omega
    have : 48 < nbFrames := by omega
    simp [h1, this] at h
  have hN := genOps_nice exts hE nbFrames.toNat
  have hcl := content_length dry (genOps exts nbFrames.toNat).ops (Or.inr hN.copy)
  rw [generate_eq dry len exts nbFrames pad hE hl hn] at h
  simp only at h
  by_cases hp : needsPass len 0 (genOps exts nbFrames.toNat).ops
  · have hfit : (opsSize (genOps exts nbFrames.toNat).ops : Int) ≤ len := by
      apply Decidable.byContradiction; intro hc
      exact not_needsPass len _ 0 0 (Int.le_refl _) (by simpa using hl) (hN.grd 0 (Int.le_refl _)) (by simpa using (by omega : len < _)) hp
    simp only [hp, if_true] at h
    cases hr : (genOps exts nbFrames.toNat).res with
    | ok u =>
      simp only [hr] at h
      split at h
      · simp only [Res.ok.injEq] at h; subst h
        simp only [Array.size_append, Array.size_replicate, List.size_toArray, hcl]; omega
      · simp only [Res.ok.injEq] at h; subst h
        simp only [List.size_toArray, hcl]; exact hfit
    | err e => simp [hr] at h
    | oob => simp [hr] at h
    | abort => simp [hr] at h
  · simp [hp] at h

end Opus.ExtProofs
