import OpusProofs.SilkStereoEnc
/-
  OpusProofs.SilkStereoEncInv — the smoothed stereo width stays in [0, 2^14] (stereo_LR_to_MS.c:128) for speech
  activities in [0, 255], so the pair handed to silk_stereo_quant_pred stays in [-2^14, 2^14].
-/
namespace OpusProofs.SilkStereoEncInv
open Opus Opus.SilkParams Opus.SilkStereo OpusProofs.SilkStereoEnc

theorem wrap32_id {x : Int} (h1 : -2147483648 ≤ x) (h2 : x ≤ 2147483647) : wrap32 x = x := by unfold wrap32; omega

/-- One smoother step towards a target in `[0, 2^14]` with a coefficient in `[0, 32767]` stays in `[0, 2^14]`. -/
theorem smooth_step {smth width c : Int} (hs : 0 ≤ smth ∧ smth ≤ 16384) (hw : 0 ≤ width ∧ width ≤ 16384)
    (hc : 0 ≤ c ∧ c ≤ 32767) :
    0 ≤ wrap16 (smlawb smth (width - smth) c) ∧ wrap16 (smlawb smth (width - smth) c) ≤ 16384 := by
  unfold smlawb
  rw [wrap16_id (x := c) (by omega) (by omega)]
  have key : (0 ≤ width - smth → 0 ≤ (width - smth) * c / 65536 ∧ (width - smth) * c / 65536 ≤ width - smth) ∧
      (width - smth ≤ 0 → width - smth ≤ (width - smth) * c / 65536 ∧ (width - smth) * c / 65536 ≤ 0) := by
    constructor
    · intro hd
      have h1 : 0 ≤ (width - smth) * c := Int.mul_nonneg hd hc.1
      have h2 : (width - smth) * c ≤ (width - smth) * 65536 := Int.mul_le_mul_of_nonneg_left (by omega) hd
      omega
    · intro hd
      have h1 : 0 ≤ (-(width - smth)) * c := Int.mul_nonneg (by omega) hc.1
      have h2 : (-(width - smth)) * c ≤ (-(width - smth)) * 65536 := Int.mul_le_mul_of_nonneg_left (by omega) (by omega)
      rw [Int.neg_mul] at h1 h2
      omega
  have hq : -16384 ≤ (width - smth) * c / 65536 ∧ (width - smth) * c / 65536 ≤ 16384 := by
    by_cases hd : 0 ≤ width - smth
    · have := key.1 hd; omega
    · have := key.2 (by omega); omega
  rw [wrap32_id (by omega) (by omega), wrap16_id (by omega) (by omega)]
  by_cases hd : 0 ≤ width - smth
  · have := key.1 hd; omega
  · have := key.2 (by omega); omega

/-- `smooth_coef_Q16` is in `[0, 649]` for `prev_speech_act_Q8` in `[0, 255]`. -/
theorem coef_bounds (is10 : Bool) {act : Int} (h : 0 ≤ act ∧ act ≤ 255) :
    0 ≤ lrSmoothCoef is10 act ∧ lrSmoothCoef is10 act ≤ 649 := by
  unfold lrSmoothCoef smulwb smulbb
  rw [wrap16_id (x := act) (by omega) (by omega)]
  have h1 : 0 ≤ act * act := Int.mul_nonneg h.1 h.1
  have h2 : act * act ≤ act * 255 := Int.mul_le_mul_of_nonneg_left h.2 h.1
  cases is10 <;>
    simp only [Gen.SilkStereoTabs.ratioSmoothCoefQ16, Gen.SilkStereoTabs.ratioSmoothCoefHalfQ16, if_true, if_false,
      Bool.false_eq_true] <;>
    (rw [wrap16_id (by omega) (by omega), wrap32_id (by omega) (by omega)]; omega)

theorem limit0_bounds (a : Int) : 0 ≤ limit a 0 16384 ∧ limit a 0 16384 ≤ 16384 := by
  unfold limit
  split <;> split <;> (try split) <;> omega

theorem lrSelect_nominal (x : LrIn) (smth total minMid frac r0 r1 p0 p1 : Int) (hs : 0 ≤ smth ∧ smth ≤ 16384)
    (h0 : -16384 ≤ p0 ∧ p0 ≤ 16384) (h1 : -16384 ≤ p1 ∧ p1 ≤ 16384) :
    (-16384 ≤ (lrSelect x smth total minMid frac r0 r1 p0 p1).q0 ∧ (lrSelect x smth total minMid frac r0 r1 p0 p1).q0 ≤ 16384) ∧
    (-16384 ≤ (lrSelect x smth total minMid frac r0 r1 p0 p1).q1 ∧ (lrSelect x smth total minMid frac r0 r1 p0 p1).q1 ≤ 16384) ∧
    (lrSelect x smth total minMid frac r0 r1 p0 p1).smth = smth := by
  have b0 := scalePred_bounds_nominal hs.1 hs.2 h0.1 h0.2
  have b1 := scalePred_bounds_nominal hs.1 hs.2 h1.1 h1.2
  unfold lrSelect
  split
  · simp
  · split
    · exact ⟨b0, b1, rfl⟩
    · split
      · exact ⟨b0, b1, rfl⟩
      · split
        · simp only []; exact ⟨⟨by omega, by omega⟩, ⟨by omega, by omega⟩, trivial⟩
        · exact ⟨b0, b1, rfl⟩

theorem lrRateWidth_width (a b c : Int) : 0 ≤ (lrRateWidth a b c).2.2 ∧ (lrRateWidth a b c).2.2 ≤ 16384 := by
  unfold lrRateWidth
  simp only []
  split
  · exact limit0_bounds _
  · simp

/-- Invariant of `state->smth_width_Q14` and the nominal bound of the pair: with the width state in `[0, 2^14]` and the
    speech activity in `[0, 255]`, the new width state is in `[0, 2^14]` and the pair in `[-2^14, 2^14]`. -/
theorem lrPreds_nominal (x : LrIn) (p0 l0 p1 l1 : Int) (hs : 0 ≤ x.smth ∧ x.smth ≤ 16384) (ha : 0 ≤ x.act ∧ x.act ≤ 255)
    (h0 : -16384 ≤ p0 ∧ p0 ≤ 16384) (h1 : -16384 ≤ p1 ∧ p1 ≤ 16384) :
    (0 ≤ (lrPreds x p0 l0 p1 l1).smth ∧ (lrPreds x p0 l0 p1 l1).smth ≤ 16384) ∧
    (-16384 ≤ (lrPreds x p0 l0 p1 l1).q0 ∧ (lrPreds x p0 l0 p1 l1).q0 ≤ 16384) ∧
    (-16384 ≤ (lrPreds x p0 l0 p1 l1).q1 ∧ (lrPreds x p0 l0 p1 l1).q1 ≤ 16384) := by
  have hc := coef_bounds x.is10ms ha
  unfold lrPreds
  simp only []
  generalize hwd : lrRateWidth _ _ _ = rw
  have hw : 0 ≤ rw.2.2 ∧ rw.2.2 ≤ 16384 := by rw [← hwd]; exact lrRateWidth_width _ _ _
  have hsm := smooth_step hs hw ⟨hc.1, by omega⟩
  have key := fun t m f r0 r1 => lrSelect_nominal x _ t m f r0 r1 p0 p1 hsm h0 h1
  refine ⟨?_, (key _ _ _ _ _).1, (key _ _ _ _ _).2.1⟩
  rw [(key _ _ _ _ _).2.2]
  exact hsm

theorem lrToMs_nominal (x : LrIn) (lp hp : FindIn) (hs : 0 ≤ x.smth ∧ x.smth ≤ 16384) (ha : 0 ≤ x.act ∧ x.act ≤ 255) :
    (0 ≤ (lrToMs x lp hp).smth ∧ (lrToMs x lp hp).smth ≤ 16384) ∧
    (-16384 ≤ (lrToMs x lp hp).q0 ∧ (lrToMs x lp hp).q0 ≤ 16384) ∧
    (-16384 ≤ (lrToMs x lp hp).q1 ∧ (lrToMs x lp hp).q1 ≤ 16384) := by
  unfold lrToMs
  exact lrPreds_nominal x _ _ _ _ hs ha (findPredictor_pred ..) (findPredictor_pred ..)

end OpusProofs.SilkStereoEncInv
