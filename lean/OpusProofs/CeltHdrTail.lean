import OpusProofs.CeltHdrPart1
/-
  OpusProofs.CeltHdrTail — second part of the header round trip: tf_encode/tf_decode, spread, the dynalloc loops and
  the allocation trim.  As in part 1 the content is that the decoder's budget tests (against `len*8`, with a shrinking
  `total_bits`) take the same branch as the encoder's (against `nbCompressedBytes*8`, `enc->storage*8`, and
  `total_bits - total_boost`).
-/
namespace OpusProofs.CeltHdr
open Opus Opus.RangeCoder Opus.CeltSymsEnc

/-- the decoder's view of the frame configuration -/
abbrev cfgD (cfg : EncCfg) : Opus.CeltSyms.CeltCfg := ⟨cfg.start, cfg.end_, cfg.C, cfg.LM⟩

/-! ### tf -/

theorem encTfLoop_ext (isT : Bool) (budget : Int) : ∀ (k logp curr changed : Nat) (s : St),
    Ext s (encTfLoop isT budget k logp curr changed s).2.2 := by
  intro k
  induction k with
  | zero => intro _ _ _ s; exact Ext.refl s
  | succ k ih =>
    intro logp curr changed s
    simp only [encTfLoop]
    split
    · exact ((Ext.pop s).trans (Ext.emit _ _ (by exact True.intro))).trans (ih _ _ _ _)
    · exact ih _ _ _ _

theorem tfLoop_sync {w : World} {P0 : List Op} (isT : Bool) (budE budD : Int) (sOut : St)
    (hB : ∀ (s' : St) (d' : Dec), Here w P0 s' d' → Ext s' sOut →
      ∀ k : Int, 0 ≤ k → k ≤ 5 → (tell s'.e + k ≤ budE ↔ tell s'.e + k ≤ budD)) :
    ∀ (k logp curr changed : Nat) (s : St) (d : Dec), logp ≤ 5 → Here w P0 s d →
      w.IsPrefix (P0 ++ (encTfLoop isT budE k logp curr changed s).2.2.ops) →
      Ext (encTfLoop isT budE k logp curr changed s).2.2 sOut →
      (Opus.CeltSyms.tfLoop isT budD k logp curr changed (tell d) d).1 = (encTfLoop isT budE k logp curr changed s).1 ∧
      (Opus.CeltSyms.tfLoop isT budD k logp curr changed (tell d) d).2.1 = (encTfLoop isT budE k logp curr changed s).2.1 ∧
      Here w P0 (encTfLoop isT budE k logp curr changed s).2.2
        (Opus.CeltSyms.tfLoop isT budD k logp curr changed (tell d) d).2.2.1 := by
  intro k
  induction k with
  | zero =>
    intro logp curr changed s d _ h _ _
    exact ⟨rfl, rfl, h⟩
  | succ k ih =>
    intro logp curr changed s d hl h hp hx
    have hxs := encTfLoop_ext isT budE (k + 1) logp curr changed s
    have hpre := prefix_of_ext hxs hp
    obtain ⟨ht, _, _, _⟩ := h.tells hpre
    have hb := hB s d h (hxs.trans hx) logp (by omega) (by omega)
    have h45 : (if isT = true then 4 else 5 : Nat) ≤ 5 := by split <;> omega
    simp only [encTfLoop, Opus.CeltSyms.tfLoop] at hp hx ⊢
    by_cases hc : tell s.e + (logp : Int) ≤ budE
    · have hc' : tell d + (logp : Int) ≤ budD := by rw [ht]; exact hb.mp hc
      simp only [hc, hc', if_true] at hp hx ⊢
      have hx2 := encTfLoop_ext isT budE k (if isT = true then 4 else 5) (curr ^^^ (if s.pop.1 ≠ 0 then 1 else 0))
        (changed ||| (curr ^^^ (if s.pop.1 ≠ 0 then 1 else 0))) (s.pop.2.emit (.bitLogp (if s.pop.1 ≠ 0 then 1 else 0) logp))
      obtain ⟨e1, e2⟩ := h.pop.emit_bit (if s.pop.1 ≠ 0 then 1 else 0) logp (bit_le_one _) (prefix_of_ext hx2 hp)
      obtain ⟨i1, i2, i3⟩ := ih _ _ _ _ _ h45 e2 hp hx
      rw [e1]
      exact ⟨by rw [i1], i2, i3⟩
    · have hc' : ¬ tell d + (logp : Int) ≤ budD := by rw [ht]; exact fun hh => hc (hb.mpr hh)
      simp only [hc, hc', if_false] at hp hx ⊢
      obtain ⟨i1, i2, i3⟩ := ih _ curr changed s d h45 h hp hx
      exact ⟨by rw [i1], i2, i3⟩

theorem encTfFinish_ext (cfg : EncCfg) (isT rsv : Nat) (raw : List Nat) (changed : Nat) (s : St) :
    Ext s (encTfFinish cfg isT rsv raw changed s).2.2.2 := by
  unfold encTfFinish
  split
  · exact (Ext.pop s).trans (Ext.emit _ _ (by exact True.intro))
  · exact Ext.refl s

theorem encTf_ext (cfg : EncCfg) (isT : Nat) (s : St) : Ext s (encTf cfg isT s).2.2.2 := by
  unfold encTf
  exact (encTfLoop_ext _ _ _ _ _ _ s).trans (encTfFinish_ext _ _ _ _ _ _)

/-- `tf_encode` / `tf_decode`: same `tf_select_rsv`, same per-band budget decisions, same `tf_select` rule. -/
theorem tf_sync {w : World} {P0 : List Op} {s : St} {d : Dec} (h : Here w P0 s d) (cfg : EncCfg) (isT size1 : Nat)
    (sOut : St) (hst : s.e.storage = size1)
    (hB : ∀ (s' : St) (d' : Dec), Here w P0 s' d' → Ext s' sOut →
      BudOk ((size1 * 8 : Nat) : Int) ((w.len * 8 : Nat) : Int) (tell s'.e))
    (hp : w.IsPrefix (P0 ++ (encTf cfg isT s).2.2.2.ops)) (hx : Ext (encTf cfg isT s).2.2.2 sOut) :
    (Opus.CeltSyms.tfDecode (cfgD cfg) isT d).1 = (encTf cfg isT s).1 ∧
    (Opus.CeltSyms.tfDecode (cfgD cfg) isT d).2.1 = (encTf cfg isT s).2.1 ∧
    Here w P0 (encTf cfg isT s).2.2.2 (Opus.CeltSyms.tfDecode (cfgD cfg) isT d).2.2.1 := by
  have hxs := encTf_ext cfg isT s
  have hpre := prefix_of_ext hxs hp
  obtain ⟨ht, _, hsd, _⟩ := h.tells hpre
  have hlogp0 : (if isT ≠ 0 then 2 else 4 : Nat) ≤ 5 := by split <;> omega
  -- the reservation
  have hrsv : Opus.CeltSyms.tfRsv (cfgD cfg) isT d = encTfRsv cfg isT s := by
    unfold Opus.CeltSyms.tfRsv encTfRsv
    rw [ht, hsd, hst]
    have hb := hB s d h (hxs.trans hx) (((if isT ≠ 0 then 2 else 4 : Nat) : Int) + 1) (by omega) (by omega)
    by_cases hc : cfg.LM > 0 ∧ tell s.e + ((if isT ≠ 0 then 2 else 4 : Nat) : Int) + 1 ≤ ((size1 * 8 : Nat) : Int)
    · have hD : cfg.LM > 0 ∧ tell s.e + ((if isT ≠ 0 then 2 else 4 : Nat) : Int) + 1 ≤ ((w.len * 8 : Nat) : Int) :=
        ⟨hc.1, by have := hb.mp (by omega); omega⟩
      rw [if_pos hc, if_pos hD]
    · have hD : ¬ (cfg.LM > 0 ∧ tell s.e + ((if isT ≠ 0 then 2 else 4 : Nat) : Int) + 1 ≤ ((w.len * 8 : Nat) : Int)) :=
        fun hh => hc ⟨hh.1, by have := hb.mpr (by have := hh.2; omega); omega⟩
      rw [if_neg hc, if_neg hD]
  have hr1 : encTfRsv cfg isT s ≤ 1 := by unfold encTfRsv; exact bit_le_one _
  unfold Opus.CeltSyms.tfDecode
  rw [hrsv, hsd]
  simp only [cfgD]
  unfold encTf at hp hx ⊢
  rw [hst] at hp hx ⊢
  simp only [] at hp hx ⊢
  generalize encTfRsv cfg isT s = rsv at *
  have hx1 := encTfFinish_ext cfg isT rsv
    (encTfLoop (isT ≠ 0) (((size1 * 8 : Nat) : Int) - rsv) (cfg.end_ - cfg.start) (if isT ≠ 0 then 2 else 4) 0 0 s).1
    (encTfLoop (isT ≠ 0) (((size1 * 8 : Nat) : Int) - rsv) (cfg.end_ - cfg.start) (if isT ≠ 0 then 2 else 4) 0 0 s).2.1
    (encTfLoop (isT ≠ 0) (((size1 * 8 : Nat) : Int) - rsv) (cfg.end_ - cfg.start) (if isT ≠ 0 then 2 else 4) 0 0 s).2.2
  obtain ⟨l1, l2, l3⟩ := tfLoop_sync (w := w) (P0 := P0) (decide (isT ≠ 0)) (((size1 * 8 : Nat) : Int) - rsv)
    (((w.len * 8 : Nat) : Int) - rsv) sOut
    (by
      intro s' d' h' hx' k hk0 hk5
      have := hB s' d' h' hx' (k + rsv) (by omega) (by omega)
      constructor <;> intro hh
      · have := this.mp (by omega); omega
      · have := this.mpr (by omega); omega)
    (cfg.end_ - cfg.start) (if isT ≠ 0 then 2 else 4) 0 0 s d hlogp0 h (prefix_of_ext hx1 hp) (hx1.trans hx)
  generalize hL : encTfLoop (decide (isT ≠ 0)) (((size1 * 8 : Nat) : Int) - rsv) (cfg.end_ - cfg.start)
    (if isT ≠ 0 then 2 else 4) 0 0 s = L at *
  generalize hD : Opus.CeltSyms.tfLoop (decide (isT ≠ 0)) (((w.len * 8 : Nat) : Int) - rsv) (cfg.end_ - cfg.start)
    (if isT ≠ 0 then 2 else 4) 0 0 (tell d) d = D at *
  show (Opus.CeltSyms.tfFinish (cfgD cfg) isT rsv D.1 D.2.1 D.2.2.1 D.2.2.2).1 = _ ∧ _
  rw [l1, l2]
  unfold Opus.CeltSyms.tfFinish encTfFinish at *
  have htab : ∀ a b, Opus.CeltSyms.tfTable a b = tfTable a b := fun _ _ => rfl
  simp only [htab] at hp ⊢
  by_cases hc : rsv ≠ 0 ∧ tfTable cfg.LM (4 * isT + 0 + L.2.1) ≠ tfTable cfg.LM (4 * isT + 2 + L.2.1)
  · simp only [hc, and_self, if_true, ne_eq, not_false_eq_true] at hp ⊢
    obtain ⟨e1, e2⟩ := l3.pop.emit_bit (if L.2.2.pop.1 ≠ 0 then 1 else 0) 1 (bit_le_one _) hp
    rw [e1]
    exact ⟨rfl, rfl, e2⟩
  · simp only [hc, if_false] at hp ⊢
    exact ⟨trivial, trivial, l3⟩

/-! ### Spread -/

theorem encSpread_ext (totE : Int) (s : St) : Ext s (encSpread totE s).2 := by
  unfold encSpread; split
  · exact (Ext.pop s).trans (Ext.emit _ _ (by exact True.intro))
  · exact Ext.refl s

theorem spread_sync {w : World} {P0 : List Op} {s : St} {d : Dec} (h : Here w P0 s d) (totE totD : Int)
    (hp : w.IsPrefix (P0 ++ (encSpread totE s).2.ops))
    (hbud : (tell s.e + 4 ≤ totE) ↔ (tell s.e + 4 ≤ totD)) :
    (Opus.CeltSyms.readSpread totD d).1 = (encSpread totE s).1 ∧
    Here w P0 (encSpread totE s).2 (Opus.CeltSyms.readSpread totD d).2.1 := by
  obtain ⟨ht, _, _, _⟩ := h.tells (prefix_of_ext (encSpread_ext totE s) hp)
  simp only [Opus.CeltSyms.readSpread, encSpread, ht] at hp ⊢
  by_cases hc : tell s.e + 4 ≤ totE
  · simp only [hc, hbud.mp hc, if_true] at hp ⊢
    exact h.pop.emit_icdf s.pop.1.toNat _ 5 hp
  · have hc' : ¬ tell s.e + 4 ≤ totD := fun hh => hc (hbud.mpr hh)
    simp only [hc, hc', if_false]
    exact ⟨trivial, h⟩

/-! ### Dynalloc -/

/-- the encoder's test against `total_bits - total_boost` and the decoder's against its shrunken `total_bits` agree -/
def FracOk (totE totD : Int) (tf : Nat) (tb : Nat) : Prop :=
  ∀ k : Int, 0 ≤ k → k ≤ 48 → ((tf : Int) + k < totE - tb ↔ (tf : Int) + k < totD - tb)

theorem encBoostLoop_ext (cap quanta : Nat) (logp boost tb : Nat) (totF : Int) (s : St) :
    Ext s (encBoostLoop cap quanta logp boost tb totF s).2.2 ∧ tb ≤ (encBoostLoop cap quanta logp boost tb totF s).2.1 := by
  fun_induction encBoostLoop cap quanta logp boost tb totF s with
  | case1 logp boost tb s hc hz =>
    exact ⟨(Ext.pop s).trans (Ext.emit _ _ (by exact True.intro)), Nat.le_refl _⟩
  | case2 logp boost tb s hc hz ih =>
    exact ⟨((Ext.pop s).trans (Ext.emit _ _ (by exact True.intro))).trans ih.1, by have := ih.2; omega⟩
  | case3 logp boost tb s hc => exact ⟨Ext.refl s, Nat.le_refl _⟩

theorem boostLoop_sync {w : World} {P0 : List Op} (totE totD : Int) (sOut : St) (tbMax : Nat)
    (hF : ∀ (s' : St) (d' : Dec) (tb : Nat), Here w P0 s' d' → Ext s' sOut → tb ≤ tbMax → FracOk totE totD (tellFrac s'.e) tb)
    (cap quanta : Nat) (logp boost tb : Nat) (s : St) :
    ∀ (d : Dec), logp ≤ 6 → Here w P0 s d →
      w.IsPrefix (P0 ++ (encBoostLoop cap quanta logp boost tb totE s).2.2.ops) →
      Ext (encBoostLoop cap quanta logp boost tb totE s).2.2 sOut →
      (encBoostLoop cap quanta logp boost tb totE s).2.1 ≤ tbMax →
      (Opus.CeltSyms.boostLoop cap quanta logp boost (totD - tb) d).1 = (encBoostLoop cap quanta logp boost tb totE s).1 ∧
      (Opus.CeltSyms.boostLoop cap quanta logp boost (totD - tb) d).2.1 =
        totD - ((encBoostLoop cap quanta logp boost tb totE s).2.1 : Nat) ∧
      Here w P0 (encBoostLoop cap quanta logp boost tb totE s).2.2
        (Opus.CeltSyms.boostLoop cap quanta logp boost (totD - tb) d).2.2.1 := by
  fun_induction encBoostLoop cap quanta logp boost tb totE s with
  | case1 logp boost tb s hc hz =>
    intro d hl h hp hx htb
    obtain ⟨_, htf, _, _⟩ := h.tells (prefix_of_ext ((Ext.pop s).trans (Ext.emit _ _ (by exact True.intro))) hp)
    have hf := hF s d tb h (((Ext.pop s).trans (Ext.emit _ _ (by exact True.intro))).trans hx) htb ((logp : Int) * 8)
      (by omega) (by omega)
    have hc' : (tellFrac d : Int) + logp * 8 < totD - tb ∧ boost < cap ∧ 0 < quanta := ⟨by rw [htf]; exact hf.mp hc.1, hc.2⟩
    obtain ⟨e1, e2⟩ := h.pop.emit_bit 0 logp (by omega) hp
    unfold Opus.CeltSyms.boostLoop
    simp only [hc', and_self, dif_pos, e1, if_true]
    exact ⟨trivial, trivial, e2⟩
  | case2 logp boost tb s hc hz ih =>
    intro d hl h hp hx htb
    have hx1 := (encBoostLoop_ext cap quanta 1 (boost + quanta) (tb + quanta) totE (s.pop.2.emit (.bitLogp 1 logp)))
    have hx0 : Ext s (s.pop.2.emit (.bitLogp 1 logp)) := (Ext.pop s).trans (Ext.emit _ _ (by exact True.intro))
    have hp1 := prefix_of_ext hx1.1 hp
    obtain ⟨_, htf, _, _⟩ := h.tells (prefix_of_ext hx0 hp1)
    have hf := hF s d tb h ((hx0.trans hx1.1).trans hx) (by have := hx1.2; omega) ((logp : Int) * 8)
      (by omega) (by omega)
    have hc' : (tellFrac d : Int) + logp * 8 < totD - tb ∧ boost < cap ∧ 0 < quanta := ⟨by rw [htf]; exact hf.mp hc.1, hc.2⟩
    obtain ⟨e1, e2⟩ := h.pop.emit_bit 1 logp (by omega) hp1
    obtain ⟨i1, i2, i3⟩ := ih _ (by omega) e2 hp hx htb
    have hcast : totD - ((tb + quanta : Nat) : Int) = totD - (tb : Int) - (quanta : Int) := by omega
    rw [hcast] at i1 i2 i3
    rw [Opus.CeltSyms.boostLoop]
    simp only [hc', and_self, dif_pos, e1, Nat.succ_ne_zero, if_false]
    exact ⟨i1, i2, i3⟩
  | case3 logp boost tb s hc =>
    intro d hl h hp hx htb
    obtain ⟨_, htf, _, _⟩ := h.tells hp
    have hf := hF s d tb h hx htb ((logp : Int) * 8) (by omega) (by omega)
    have hc' : ¬ ((tellFrac d : Int) + logp * 8 < totD - tb ∧ boost < cap ∧ 0 < quanta) := by
      intro hh; exact hc ⟨by have := hh.1; rw [htf] at this; exact hf.mpr this, hh.2⟩
    unfold Opus.CeltSyms.boostLoop
    simp only [hc', dif_neg, not_false_eq_true]
    exact ⟨trivial, trivial, h⟩

theorem encDynalloc_ext (cfg : EncCfg) (totF : Int) : ∀ (k i dlogp tb : Nat) (s : St),
    Ext s (encDynalloc cfg totF k i dlogp tb s).2.2 ∧ tb ≤ (encDynalloc cfg totF k i dlogp tb s).2.1 := by
  intro k
  induction k with
  | zero => intro _ _ tb s; exact ⟨Ext.refl s, Nat.le_refl _⟩
  | succ k ih =>
    intro i dlogp tb s
    simp only [encDynalloc]
    have a := encBoostLoop_ext (capOf cfg i) (quantaOf cfg i) dlogp 0 tb totF s
    have b := ih (i + 1) (if (encBoostLoop (capOf cfg i) (quantaOf cfg i) dlogp 0 tb totF s).1 > 0 then max 2 (dlogp - 1) else dlogp)
      (encBoostLoop (capOf cfg i) (quantaOf cfg i) dlogp 0 tb totF s).2.1
      (encBoostLoop (capOf cfg i) (quantaOf cfg i) dlogp 0 tb totF s).2.2
    exact ⟨a.1.trans b.1, Nat.le_trans a.2 b.2⟩

theorem capOf_eq (cfg : EncCfg) (i : Nat) : Opus.CeltSyms.capOf (cfgD cfg) i = capOf cfg i := rfl
theorem quantaOf_eq (cfg : EncCfg) (i : Nat) : Opus.CeltSyms.quantaOf (cfgD cfg) i = quantaOf cfg i := rfl

theorem dynalloc_sync {w : World} {P0 : List Op} (cfg : EncCfg) (totE totD : Int) (sOut : St) (tbMax : Nat)
    (hF : ∀ (s' : St) (d' : Dec) (tb : Nat), Here w P0 s' d' → Ext s' sOut → tb ≤ tbMax → FracOk totE totD (tellFrac s'.e) tb) :
    ∀ (k i dlogp tb : Nat) (s : St) (d : Dec), dlogp ≤ 6 → Here w P0 s d →
      w.IsPrefix (P0 ++ (encDynalloc cfg totE k i dlogp tb s).2.2.ops) →
      Ext (encDynalloc cfg totE k i dlogp tb s).2.2 sOut →
      (encDynalloc cfg totE k i dlogp tb s).2.1 ≤ tbMax →
      (Opus.CeltSyms.dynalloc (cfgD cfg) k i dlogp (totD - tb) d).1 = (encDynalloc cfg totE k i dlogp tb s).1 ∧
      (Opus.CeltSyms.dynalloc (cfgD cfg) k i dlogp (totD - tb) d).2.1 = totD - ((encDynalloc cfg totE k i dlogp tb s).2.1 : Nat) ∧
      Here w P0 (encDynalloc cfg totE k i dlogp tb s).2.2 (Opus.CeltSyms.dynalloc (cfgD cfg) k i dlogp (totD - tb) d).2.2.1 := by
  intro k
  induction k with
  | zero =>
    intro i dlogp tb s d _ h _ _ _
    exact ⟨rfl, rfl, h⟩
  | succ k ih =>
    intro i dlogp tb s d hl h hp hx htb
    simp only [encDynalloc, Opus.CeltSyms.dynalloc] at hp hx htb ⊢
    generalize hB : encBoostLoop (capOf cfg i) (quantaOf cfg i) dlogp 0 tb totE s = B at *
    have b := encDynalloc_ext cfg totE k (i + 1) (if B.1 > 0 then max 2 (dlogp - 1) else dlogp) B.2.1 B.2.2
    have key := boostLoop_sync totE totD sOut tbMax hF (capOf cfg i) (quantaOf cfg i) dlogp 0 tb s d hl h
      (by rw [hB]; exact prefix_of_ext b.1 hp) (by rw [hB]; exact b.1.trans hx) (by rw [hB]; have := b.2; omega)
    rw [hB] at key
    have key' : (Opus.CeltSyms.boostLoop (Opus.CeltSyms.capOf (cfgD cfg) i) (Opus.CeltSyms.quantaOf (cfgD cfg) i) dlogp 0
        (totD - tb) d).1 = B.1 ∧
      (Opus.CeltSyms.boostLoop (Opus.CeltSyms.capOf (cfgD cfg) i) (Opus.CeltSyms.quantaOf (cfgD cfg) i) dlogp 0
        (totD - tb) d).2.1 = totD - (B.2.1 : Nat) ∧
      Here w P0 B.2.2 (Opus.CeltSyms.boostLoop (Opus.CeltSyms.capOf (cfgD cfg) i) (Opus.CeltSyms.quantaOf (cfgD cfg) i)
        dlogp 0 (totD - tb) d).2.2.1 := key
    generalize Opus.CeltSyms.boostLoop (Opus.CeltSyms.capOf (cfgD cfg) i) (Opus.CeltSyms.quantaOf (cfgD cfg) i) dlogp 0
        (totD - tb) d = D at key' ⊢
    obtain ⟨l1, l2, l3⟩ := key'
    rw [l1, l2]
    have hl' : (if B.1 > 0 then max 2 (dlogp - 1) else dlogp) ≤ 6 := by split <;> omega
    obtain ⟨i1, i2, i3⟩ := ih (i + 1) _ B.2.1 B.2.2 D.2.2.1 hl' l3 hp hx htb
    exact ⟨by rw [i1], i2, i3⟩

/-! ### Trim -/

theorem encTrim_ext (totF : Int) (tb : Nat) (s : St) : Ext s (encTrim totF tb s).2 := by
  unfold encTrim; split
  · exact (Ext.pop s).trans (Ext.emit _ _ (by exact True.intro))
  · exact Ext.refl s

theorem trim_sync {w : World} {P0 : List Op} {s : St} {d : Dec} (h : Here w P0 s d) (totE totD : Int) (tb : Nat)
    (hp : w.IsPrefix (P0 ++ (encTrim totE tb s).2.ops))
    (hf : FracOk totE totD (tellFrac s.e) tb) :
    (Opus.CeltSyms.readTrim (totD - tb) d).1 = (encTrim totE tb s).1 ∧
    Here w P0 (encTrim totE tb s).2 (Opus.CeltSyms.readTrim (totD - tb) d).2.1 := by
  obtain ⟨_, htf, _, _⟩ := h.tells (prefix_of_ext (encTrim_ext totE tb s) hp)
  have hf47 := hf 47 (by omega) (by omega)
  simp only [Opus.CeltSyms.readTrim, encTrim, htf] at hp ⊢
  by_cases hc : (tellFrac s.e : Int) + 48 ≤ totE - tb
  · have hc' : (tellFrac s.e : Int) + 48 ≤ totD - tb := by have := hf47.mp (by omega); omega
    simp only [hc, hc', if_true] at hp ⊢
    exact h.pop.emit_icdf s.pop.1.toNat _ 7 hp
  · have hc' : ¬ (tellFrac s.e : Int) + 48 ≤ totD - tb := fun hh => hc (by have := hf47.mpr (by omega); omega)
    simp only [hc, hc', if_false]
    exact ⟨trivial, h⟩

end OpusProofs.CeltHdr
