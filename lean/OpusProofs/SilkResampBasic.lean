import OpusModel.SilkResamp
/-
  OpusProofs.SilkResampBasic — generic lemmas for the call theorems of the SILK resampler model: checked reads /
  writes succeed inside the array, `mapRes` / `interpol` succeed when every sample does, the interpolation index stays
  below `max_index_Q16`, the per-sample bodies (IIR_FIR_INTERPOL, down_FIR_INTERPOL) index in bounds and return int16.
-/
namespace OpusProofs.SilkResamp
open Opus Opus.SilkResamp Opus.SilkParams Opus.Gen.SilkResampRom

/-- The value fits `opus_int16`. -/
def I16 (x : Int) : Prop := -32768 ≤ x ∧ x ≤ 32767

theorem sat16_i16 (a : Int) : I16 (sat16 a) := by
  unfold sat16 I16
  split
  · omega
  · split <;> omega

theorem window_ok {l : List Int} {i : Int} {n : Nat} (h0 : 0 ≤ i) (h : i.toNat + n ≤ l.length) :
    window l i n = .ok ((l.drop i.toNat).take n) := by
  unfold window
  rw [if_pos ⟨h0, h⟩]

theorem window_ok_len {l : List Int} {i : Int} {n : Nat} (h0 : 0 ≤ i) (h : i.toNat + n ≤ l.length) :
    ∃ w, window l i n = .ok w ∧ w.length = n ∧ ∀ v ∈ w, v ∈ l := by
  refine ⟨_, window_ok h0 h, ?_, ?_⟩
  · rw [List.length_take, List.length_drop]; omega
  · intro v hv; exact List.mem_of_mem_drop (List.mem_of_mem_take hv)

theorem blit_ok {l src : List Int} {off : Nat} (h : off + src.length ≤ l.length) :
    ∃ r, blit l off src = .ok r ∧ r.length = l.length ∧ ∀ v ∈ r, v ∈ l ∨ v ∈ src := by
  unfold blit
  rw [if_pos h]
  refine ⟨_, rfl, ?_, ?_⟩
  · simp only [List.length_append, List.length_take, List.length_drop]; omega
  · intro v hv
    simp only [List.mem_append] at hv
    rcases hv with (hv | hv) | hv
    · exact Or.inl (List.mem_of_mem_take hv)
    · exact Or.inr hv
    · exact Or.inl (List.mem_of_mem_drop hv)

theorem mapRes_ok {α β} {f : α → Res β} {P : β → Prop} :
    ∀ l : List α, (∀ a ∈ l, ∃ b, f a = .ok b ∧ P b) →
      ∃ bs, mapRes f l = .ok bs ∧ bs.length = l.length ∧ ∀ b ∈ bs, P b := by
  intro l
  induction l with
  | nil => intro _; exact ⟨[], rfl, rfl, fun _ h => by cases h⟩
  | cons a as ih =>
    intro h
    obtain ⟨b, hb, hP⟩ := h a List.mem_cons_self
    obtain ⟨bs, hbs, hl, hPs⟩ := ih (fun x hx => h x (List.mem_cons_of_mem _ hx))
    refine ⟨b :: bs, ?_, by simp [hl], ?_⟩
    · simp only [mapRes, hb, hbs]
    · intro x hx
      rcases List.mem_cons.1 hx with rfl | hx
      · exact hP
      · exact hPs x hx

/-- Inside the loop the index is below `max_index_Q16`. -/
theorem idx_lt_max {maxIdx inc : Int} (hinc : 0 < inc) {j : Nat} (hj : j < interpCount maxIdx inc) :
    (j : Int) * inc < maxIdx := by
  unfold interpCount at hj
  have h1 : ((j : Int) + 1) ≤ (maxIdx + inc - 1) / inc := by omega
  have h2 := (Int.le_ediv_iff_mul_le hinc).1 h1
  have : ((j : Int) + 1) * inc = (j : Int) * inc + inc := by rw [Int.add_mul, Int.one_mul]
  omega

theorem interpol_ok {sample : Int → Res Int} {P : Int → Prop} {maxIdx inc : Int} (hinc : 0 < inc)
    (h : ∀ idx : Int, 0 ≤ idx → idx < maxIdx → ∃ v, sample idx = .ok v ∧ P v) :
    ∃ outs, interpol sample maxIdx inc = .ok outs ∧ outs.length = interpCount maxIdx inc ∧ ∀ v ∈ outs, P v := by
  unfold interpol
  rw [if_neg (by omega)]
  have := mapRes_ok (f := fun j : Nat => sample ((j : Int) * inc)) (P := P) (List.range (interpCount maxIdx inc))
    (by
      intro j hj
      have hj' := List.mem_range.1 hj
      exact h _ (Int.mul_nonneg (Int.natCast_nonneg j) (Int.le_of_lt hinc)) (idx_lt_max hinc hj'))
  simpa using this

/-! ### The per-sample bodies -/

def isOk {α} : Res α → Bool
  | .ok _ => true
  | _ => false

theorem fracRow_table : ∀ t : Fin 12, isOk (fracRow (t.val : Int)) = true := by decide +kernel

theorem fracRow_ok {t : Int} (h0 : 0 ≤ t) (h1 : t < 12) : ∃ r, fracRow t = .ok r := by
  have := fracRow_table ⟨t.toNat, by omega⟩
  have ht : ((t.toNat : Nat) : Int) = t := Int.toNat_of_nonneg h0
  simp only [ht] at this
  cases hr : fracRow t with
  | ok r => exact ⟨r, rfl⟩
  | err e => rw [hr] at this; cases this
  | oob => rw [hr] at this; cases this
  | abort => rw [hr] at this; cases this

theorem wrap16_small {x : Int} (h0 : -32768 ≤ x) (h1 : x ≤ 32767) : wrap16 x = x := by unfold wrap16; omega
theorem wrap32_small {x : Int} (h0 : -2147483648 ≤ x) (h1 : x ≤ 2147483647) : wrap32 x = x := by unfold wrap32; omega

/-- `silk_SMULWB( index_Q16 & 0xFFFF, k )` for a small positive constant `k` is a table index in `[0, k)`. -/
theorem smulwb_frac {idx k : Int} (hk0 : 0 < k) (hk : k ≤ 12) :
    0 ≤ smulwb (idx % 65536) k ∧ smulwb (idx % 65536) k < k := by
  unfold smulwb
  rw [wrap16_small (by omega) (by omega)]
  have hm0 : 0 ≤ idx % 65536 := Int.emod_nonneg _ (by omega)
  have hm1 : idx % 65536 < 65536 := Int.emod_lt_of_pos _ (by omega)
  have hq0 : 0 ≤ (idx % 65536 * k) / 65536 := Int.ediv_nonneg (Int.mul_nonneg hm0 (by omega)) (by omega)
  have hq1 : (idx % 65536 * k) / 65536 < k := by
    apply Int.ediv_lt_of_lt_mul (by omega)
    have : idx % 65536 * k < 65536 * k := Int.mul_lt_mul_of_pos_right hm1 hk0
    rw [Int.mul_comm k 65536]; exact this
  rw [wrap32_small (by omega) (by omega)]
  exact ⟨hq0, hq1⟩

theorem iirFirSample_ok {buf : List Int} {idx : Int} (h0 : 0 ≤ idx) (h : (idx / 65536).toNat + 8 ≤ buf.length) :
    ∃ v, iirFirSample buf idx = .ok v ∧ I16 v := by
  have hq : 0 ≤ idx / 65536 := Int.ediv_nonneg h0 (by omega)
  obtain ⟨ht0, ht1⟩ := smulwb_frac (idx := idx) (k := 12) (by omega) (by omega)
  obtain ⟨ra, hra⟩ := fracRow_ok ht0 ht1
  obtain ⟨rb, hrb⟩ := fracRow_ok (t := 11 - smulwb (idx % 65536) 12) (by omega) (by omega)
  unfold iirFirSample
  simp only [window_ok hq h, hra, hrb, Res.bind_ok]
  exact ⟨_, rfl, sat16_i16 _⟩

theorem firSym_ok {order : Nat} {coefs buf : List Int} {idx : Int} (h0 : 0 ≤ idx)
    (h : (idx / 65536).toNat + order ≤ buf.length) (hc : 2 + order / 2 ≤ coefs.length) :
    ∃ v, firSym order coefs buf idx = .ok v ∧ I16 v := by
  have hq : 0 ≤ idx / 65536 := Int.ediv_nonneg h0 (by omega)
  unfold firSym
  simp only [window_ok hq h, window_ok (l := coefs) (i := 2) (n := order / 2) (by omega) (by simpa using hc), Res.bind_ok]
  exact ⟨_, rfl, sat16_i16 _⟩

theorem downFirSample_ok {order : Nat} {fracs : Int} {coefs buf : List Int} {idx : Int} (h0 : 0 ≤ idx)
    (h : (idx / 65536).toNat + order ≤ buf.length)
    (hcfg : (order = 18 ∧ coefs.length = 2 + 9 * fracs.toNat ∧ 0 < fracs ∧ fracs ≤ 3) ∨
            (order = 24 ∧ coefs.length = 14) ∨ (order = 36 ∧ coefs.length = 20)) :
    ∃ v, downFirSample order fracs coefs buf idx = .ok v ∧ I16 v := by
  have hq : 0 ≤ idx / 65536 := Int.ediv_nonneg h0 (by omega)
  unfold downFirSample
  rcases hcfg with ⟨ho, hl, hf0, hf1⟩ | ⟨ho, hl⟩ | ⟨ho, hl⟩
  · subst ho
    obtain ⟨ht0, ht1⟩ := smulwb_frac (idx := idx) (k := fracs) hf0 (by omega)
    rw [if_pos rfl]
    have w1 := window_ok (l := coefs) (i := 2 + 9 * smulwb (idx % 65536) fracs) (n := 9) (by omega) (by omega)
    have w2 := window_ok (l := coefs) (i := 2 + 9 * (fracs - 1 - smulwb (idx % 65536) fracs)) (n := 9) (by omega) (by omega)
    simp only [window_ok hq h, w1, w2, Res.bind_ok]
    exact ⟨_, rfl, sat16_i16 _⟩
  · subst ho
    rw [if_neg (by decide), if_pos rfl]
    exact firSym_ok h0 h (by omega)
  · subst ho
    rw [if_neg (by decide), if_neg (by decide), if_pos rfl]
    exact firSym_ok h0 h (by omega)

/-! ### Lengths of the filter outputs -/

theorem up2hq_len (S : IIR) (xs : List Int) : (up2hq S xs).2.length = 2 * xs.length := by
  induction xs generalizing S with
  | nil => rfl
  | cons x xs ih => simp only [up2hq, List.length_cons, ih]; omega

theorem up2hq_i16 (S : IIR) (xs : List Int) : ∀ v ∈ (up2hq S xs).2, I16 v := by
  induction xs generalizing S with
  | nil => intro v hv; cases hv
  | cons x xs ih =>
    intro v hv
    simp only [up2hq, List.mem_cons] at hv
    rcases hv with rfl | rfl | hv
    · exact sat16_i16 _
    · exact sat16_i16 _
    · exact ih _ v hv

theorem ar2_len (s0 s1 a0 a1 : Int) (xs : List Int) : (ar2 s0 s1 a0 a1 xs).2.2.length = xs.length := by
  induction xs generalizing s0 s1 with
  | nil => rfl
  | cons x xs ih => simp only [ar2, List.length_cons, ih]

end OpusProofs.SilkResamp
