import OpusProofs.SilkApiOut
/-! Proofs for the C01 `SilkApi` slice: whole-call composition for silk_Decode. -/
namespace Opus.SilkApi

/-- State after the configuration part of silk_Decode (:159-:224). -/
def Ready (api : Int) (a : Args) (d : Dec) : Prop :=
  ChanOk api d.ch0 ∧ d.ch0.nFramesDecoded < d.ch0.nFramesPerPacket ∧
  (a.nChannelsInternal = 2 → ChanOk api d.ch1 ∧ Same d.ch0 d.ch1) ∧
  d.nChannelsInternal = a.nChannelsInternal ∧ d.nChannelsAPI = a.nChannelsAPI

theorem preOk_of_chanOk {api : Int} {c : Chan} (h : ChanOk api c) : PreOk api c := Or.inr ⟨_, h.1⟩

theorem prepReset_new_gt {d : Dec} {a : Args} (hnew : a.newPacketFlag ≠ 0) (hgt : a.nChannelsInternal > d.nChannelsInternal) :
    (prepReset d a).1 = { d with ch0 := { d.ch0 with nFramesDecoded := 0 }, ch1 := freshChan } := by
  simp [prepReset, hnew, hgt]

theorem prepReset_new_le {d : Dec} {a : Args} (hnew : a.newPacketFlag ≠ 0) (hgt : ¬ a.nChannelsInternal > d.nChannelsInternal) :
    (prepReset d a).1 = { d with ch0 := { d.ch0 with nFramesDecoded := 0 },
                                 ch1 := if a.nChannelsInternal = 2 then { d.ch1 with nFramesDecoded := 0 } else d.ch1 } := by
  simp [prepReset, hnew, hgt]

theorem prepReset_old {d : Dec} {a : Args} (hnew : a.newPacketFlag = 0) (hgt : ¬ a.nChannelsInternal > d.nChannelsInternal) :
    (prepReset d a).1 = d := by
  simp [prepReset, hnew, hgt]

theorem prepReset_facts {api : Int} {d : Dec} {a : Args} (hI : Inv api d) (hN : d.nChannelsInternal ≤ 2)
    (hci : a.nChannelsInternal = 1 ∨ a.nChannelsInternal = 2)
    (hproto : a.newPacketFlag ≠ 0 ∨ (d.ch0.nFramesDecoded < d.ch0.nFramesPerPacket ∧ a.nChannelsInternal = d.nChannelsInternal)) :
    (prepReset d a).1.nChannelsInternal = d.nChannelsInternal ∧ (prepReset d a).1.nChannelsAPI = d.nChannelsAPI ∧
    (prepReset d a).1.st = d.st ∧
    PreOk api (prepReset d a).1.ch0 ∧
    (a.nChannelsInternal = 2 → PreOk api (prepReset d a).1.ch1 ∧
        (prepReset d a).1.ch1.nFramesDecoded = (prepReset d a).1.ch0.nFramesDecoded) ∧
    ((prepReset d a).1.ch0.nFramesDecoded ≠ 0 →
        ChanOk api (prepReset d a).1.ch0 ∧ (prepReset d a).1.ch0.nFramesDecoded < (prepReset d a).1.ch0.nFramesPerPacket ∧
        (a.nChannelsInternal = 2 → ChanOk api (prepReset d a).1.ch1 ∧ Same (prepReset d a).1.ch0 (prepReset d a).1.ch1)) := by
  have hp0 : PreOk api d.ch0 := by
    rcases hI with ⟨h0, _⟩ | ⟨h0, _⟩
    · rw [h0]; exact Or.inl ⟨rfl, rfl, rfl⟩
    · exact preOk_of_chanOk h0
  have hp0' : PreOk api { d.ch0 with nFramesDecoded := 0 } := hp0
  by_cases hnew : a.newPacketFlag ≠ 0
  · by_cases hgt : a.nChannelsInternal > d.nChannelsInternal
    · rw [prepReset_new_gt hnew hgt]
      exact ⟨rfl, rfl, rfl, hp0', fun _ => ⟨Or.inl ⟨rfl, rfl, rfl⟩, rfl⟩, fun h => absurd rfl h⟩
    · rw [prepReset_new_le hnew hgt]
      refine ⟨rfl, rfl, rfl, hp0', fun h2 => ?_, fun h => absurd rfl h⟩
      simp only [h2, if_true]
      have hp1 : PreOk api d.ch1 := by
        rcases hI with ⟨_, h1⟩ | ⟨_, h1⟩
        · rw [h1]; exact Or.inl ⟨rfl, rfl, rfl⟩
        · exact preOk_of_chanOk (h1 (by omega)).1
      have hp1' : PreOk api { d.ch1 with nFramesDecoded := 0 } := hp1
      exact ⟨hp1', trivial⟩
  · have hnew' : a.newPacketFlag = 0 := by omega
    have hp := hproto.resolve_left hnew
    have hgt : ¬ a.nChannelsInternal > d.nChannelsInternal := by omega
    rw [prepReset_old hnew' hgt]
    rcases hI with ⟨h0, h1⟩ | ⟨h0, h1⟩
    · refine ⟨rfl, rfl, rfl, hp0, fun _ => ⟨by rw [h1]; exact Or.inl ⟨rfl, rfl, rfl⟩, by rw [h0, h1]⟩, ?_⟩
      intro h; rw [h0] at h; exact absurd rfl h
    · refine ⟨rfl, rfl, rfl, hp0, fun h2 => ?_, fun _ => ⟨h0, hp.1, fun h2 => h1 (by omega)⟩⟩
      have := h1 (by omega)
      exact ⟨preOk_of_chanOk this.1, this.2.2.2.2⟩

/-- The tail :212-:224 of the configuration part (the local `step2` of `prep`). -/
def step2' (a : Args) (ev0 : List Ev) (p : Prep) : Prep :=
  let p := { p with d := prepStereo p.d a, ev := ev0 ++ p.ev }
  if a.API_sampleRate > 48 * 1000 ∨ a.API_sampleRate < 8000 then
    { p with ret := SILK_DEC_INVALID_SAMPLING_FREQUENCY, err := some SILK_DEC_INVALID_SAMPLING_FREQUENCY }
  else p

theorem step2'_ok {api : Int} {a : Args} (ha : ApiOk api) (hapi : a.API_sampleRate = api) (ev0 : List Ev) (p : Prep) :
    (step2' a ev0 p).err = p.err ∧ (step2' a ev0 p).ok = p.ok ∧ (step2' a ev0 p).ret = p.ret ∧
    (step2' a ev0 p).d = prepStereo p.d a ∧ (step2' a ev0 p).sToM = p.sToM := by
  unfold step2'
  have : ¬ (a.API_sampleRate > 48 * 1000 ∨ a.API_sampleRate < 8000) := by unfold ApiOk at ha; omega
  rw [if_neg this]
  exact ⟨rfl, rfl, rfl, rfl, rfl⟩

theorem prepStereo_ready {api : Int} {a : Args} {d : Dec} (h0 : ChanOk api d.ch0)
    (hlt : d.ch0.nFramesDecoded < d.ch0.nFramesPerPacket)
    (h1 : a.nChannelsInternal = 2 → ChanOk api d.ch1 ∧ Same d.ch0 d.ch1) : Ready api a (prepStereo d a) := by
  unfold prepStereo
  split
  · rename_i hc
    refine ⟨h0, hlt, fun h2 => ?_, rfl, rfl⟩
    obtain ⟨hc1, hs⟩ := h1 h2
    refine ⟨?_, hs⟩
    obtain ⟨⟨c1, c2, c3, c4, c5, c6, c7, c8, c9, c10, c11⟩, c12, c13, c14, c15⟩ := hc1
    obtain ⟨⟨_, _, _, _, _, _, _, _, _, z10, z11⟩, _⟩ := h0
    exact ⟨⟨c1, c2, c3, c4, c5, c6, c7, c8, c9, (by show d.ch0.rsIn = d.ch1.fs_kHz; rw [z10, hs.1]), z11⟩, c12, c13, c14, c15⟩
  · exact ⟨h0, hlt, h1, rfl, rfl⟩

theorem prep_eq (d : Dec) (a : Args) : prep d a =
    if ¬ (a.nChannelsInternal = 1 ∨ a.nChannelsInternal = 2) then { d := d, ok := false } else
    let d1 := (prepReset d a).1
    let sToM : Bool := a.nChannelsInternal = 1 ∧ d1.nChannelsInternal = 2 ∧ a.internalSampleRate = 1000 * d1.ch0.fs_kHz
    let ev0 : List Ev := if a.nChannelsInternal > d.nChannelsInternal then [("initch1", [])] else []
    if d1.ch0.nFramesDecoded = 0 then
      match cfgChan d1.ch0 a with
      | .inl e => { d := d1, ret := e, err := some e, ok := false, sToM := sToM }
      | .inr (c0, r0, ok0) =>
        let d2 := { d1 with ch0 := c0 }
        let k := a.internalSampleRate / 1024 + 1
        let sf (n : Int) : Ev := ("setfs", [n, k, a.API_sampleRate])
        if a.nChannelsInternal = 2 then
          match cfgChan d2.ch1 a with
          | .inl e => { d := d2, ret := e, err := some e, ok := false, sToM := sToM }
          | .inr (c1, r1, ok1) => step2' a ev0 { d := { d2 with ch1 := c1 }, ret := r0 + r1, ok := ok0 && ok1, sToM := sToM, ev := [sf 0, sf 1] }
        else step2' a ev0 { d := d2, ret := r0, ok := ok0, sToM := sToM, ev := [sf 0] }
    else step2' a ev0 { d := d1, sToM := sToM } := by
  unfold prep; rfl

theorem chanOk_of_cfgd {api : Int} {a : Args} {c c' : Chan} (h : Cfgd api a c c') (hz : c.nFramesDecoded = 0) :
    ChanOk api c' ∧ c'.nFramesDecoded < c'.nFramesPerPacket := by
  obtain ⟨h1, h2, h3, h4, _, _⟩ := h
  exact ⟨⟨h1, h2, h3, by omega, by omega⟩, by omega⟩

theorem same_of_cfgd {api : Int} {a : Args} {c0 c0' c1 c1' : Chan} (h0 : Cfgd api a c0 c0') (h1 : Cfgd api a c1 c1')
    (hn : c1.nFramesDecoded = c0.nFramesDecoded) : Same c0' c1' := by
  obtain ⟨_, _, _, a4, a5, a6⟩ := h0
  obtain ⟨_, _, _, b4, b5, b6⟩ := h1
  rw [a6] at b6
  have := Option.some.inj b6
  have e1 : c0'.nFramesPerPacket = c1'.nFramesPerPacket := congrArg Prod.fst this
  have e2 : c0'.nb_subfr = c1'.nb_subfr := congrArg Prod.snd this
  exact ⟨by rw [a5, b5], e2.symm, e1.symm, by rw [a4, b4, hn]⟩

theorem prep_ok {api : Int} {d : Dec} {a : Args} (hI : Inv api d) (hN : d.nChannelsInternal ≤ 2) (hA : ArgsOk api d a) :
    (prep d a).err = none ∧ (prep d a).ok = true ∧ (prep d a).ret = 0 ∧ Ready api a (prep d a).d := by
  obtain ⟨ha, hapi, hp, hr, hca, hci, hl, hproto⟩ := hA
  obtain ⟨f1, f2, f3, f4, f5, f6⟩ := prepReset_facts hI hN hci hproto
  rw [prep_eq, if_neg (fun h => h hci)]
  generalize hd1 : (prepReset d a).1 = d1 at *
  dsimp only
  by_cases hz : d1.ch0.nFramesDecoded = 0
  · rw [if_pos hz]
    obtain ⟨c0, e0, g0⟩ := cfgChan_ok ha hapi hp hr f4
    rw [e0]
    dsimp only
    obtain ⟨k0, l0⟩ := chanOk_of_cfgd g0 hz
    by_cases h2 : a.nChannelsInternal = 2
    · rw [if_pos h2]
      obtain ⟨c1, e1, g1⟩ := cfgChan_ok ha hapi hp hr (f5 h2).1
      rw [e1]
      dsimp only
      obtain ⟨s1, s2, s3, s4, _⟩ := step2'_ok ha hapi
        (if a.nChannelsInternal > d.nChannelsInternal then [("initch1", [])] else [])
        { d := { d1 with ch0 := c0, ch1 := c1 }, ret := 0 + 0, ok := true && true,
          sToM := decide (a.nChannelsInternal = 1 ∧ d1.nChannelsInternal = 2 ∧ a.internalSampleRate = 1000 * d1.ch0.fs_kHz),
          ev := [("setfs", [0, a.internalSampleRate / 1024 + 1, a.API_sampleRate]), ("setfs", [1, a.internalSampleRate / 1024 + 1, a.API_sampleRate])] }
      rw [s1, s2, s3, s4]
      refine ⟨rfl, rfl, rfl, ?_⟩
      have hz1 : d1.ch1.nFramesDecoded = 0 := by rw [(f5 h2).2, hz]
      exact prepStereo_ready (d := { d1 with ch0 := c0, ch1 := c1 }) k0 l0
        (fun _ => ⟨(chanOk_of_cfgd g1 hz1).1, same_of_cfgd g0 g1 (f5 h2).2⟩)
    · rw [if_neg h2]
      obtain ⟨s1, s2, s3, s4, _⟩ := step2'_ok ha hapi
        (if a.nChannelsInternal > d.nChannelsInternal then [("initch1", [])] else [])
        { d := { d1 with ch0 := c0 }, ret := 0, ok := true,
          sToM := decide (a.nChannelsInternal = 1 ∧ d1.nChannelsInternal = 2 ∧ a.internalSampleRate = 1000 * d1.ch0.fs_kHz),
          ev := [("setfs", [0, a.internalSampleRate / 1024 + 1, a.API_sampleRate])] }
      rw [s1, s2, s3, s4]
      refine ⟨rfl, rfl, rfl, ?_⟩
      exact prepStereo_ready (d := { d1 with ch0 := c0 }) k0 l0 (fun h => absurd h h2)
  · rw [if_neg hz]
    obtain ⟨k0, l0, m0⟩ := f6 hz
    obtain ⟨s1, s2, s3, s4, _⟩ := step2'_ok ha hapi
      (if a.nChannelsInternal > d.nChannelsInternal then [("initch1", [])] else [])
      { d := d1, sToM := decide (a.nChannelsInternal = 1 ∧ d1.nChannelsInternal = 2 ∧ a.internalSampleRate = 1000 * d1.ch0.fs_kHz) }
    rw [s1, s2, s3, s4]
    exact ⟨rfl, rfl, rfl, prepStereo_ready k0 l0 m0⟩

end Opus.SilkApi
