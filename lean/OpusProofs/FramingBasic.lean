import OpusModel.FramingSpec
/-
  Helper lemmas for C06: `parse_size` against the RFC length coding, the padding chain and
  the VBR length loop, in both directions (what the parser consumes is exactly what the
  serialiser of the spec writes).
-/
namespace Opus.FramingProofs
open Opus Opus.Framing Opus.FramingSpec

theorem encLen_length_pos (n : Nat) : 1 ≤ (encLen n).length := by
  unfold encLen; split <;> simp

theorem encLen_length_le (n : Nat) : (encLen n).length ≤ 2 := by
  unfold encLen; split <;> simp

/-- Completeness for one length field: the parser reads back what `encLen` wrote. -/
theorem parseSize_encLen (n : Nat) (hn : n ≤ 1275) (tail : Bytes) (len : Int)
    (hl : ((encLen n).length : Int) ≤ len) :
    parseSize (encLen n ++ tail) len = .ok (((encLen n).length : Int), (n : Int)) := by
  unfold encLen at *
  split at hl
  · rename_i h
    simp only [if_pos h] 
    simp at hl
    unfold parseSize
    have : ¬ len < 1 := by omega
    simp [this, h]
  · rename_i h
    simp only [if_neg h]
    simp at hl
    unfold parseSize
    have h1 : ¬ len < 1 := by omega
    have h2 : ¬ len < 2 := by omega
    have h3 : ¬ (252 + n % 4 < 252) := by omega
    simp [h1, h2, h3]
    omega

/-- Soundness for one length field: whatever `parse_size` accepts is an `encLen` image. -/
theorem parseSize_ok_inv (data : Bytes) (len : Int) (hb : BytesOk data) (bytes sz : Int)
    (h : parseSize data len = .ok (bytes, sz)) (hsz : 0 ≤ sz) :
    ∃ n : Nat, sz = n ∧ n ≤ 1275 ∧ bytes = (encLen n).length ∧ bytes ≤ len ∧
      data = encLen n ++ data.drop bytes.toNat := by
  unfold parseSize at h
  split at h
  · simp at h; omega
  · cases data with
    | nil => simp at h
    | cons b0 rest =>
      have hb0 : b0 < 256 := hb b0 (by simp)
      simp only at h
      split at h
      · rename_i hlen h252
        simp at h
        refine ⟨b0, by omega, by omega, ?_, by omega, ?_⟩
        · unfold encLen; simp [h252]; omega
        · unfold encLen; simp [h252]; rw [← h.1]; simp
      · split at h
        · simp at h; omega
        · cases rest with
          | nil => simp at h
          | cons b1 rest' =>
            have hb1 : b1 < 256 := hb b1 (by simp)
            simp at h
            rename_i hlen h252 hlen2
            refine ⟨4 * b1 + b0, by omega, by omega, ?_, by omega, ?_⟩
            · unfold encLen
              have : ¬ (4 * b1 + b0 < 252) := by omega
              simp [this]; omega
            · unfold encLen
              have : ¬ (4 * b1 + b0 < 252) := by omega
              simp [this]
              rw [← h.1]
              simp
              omega

theorem parseSize_no_oob (data : Bytes) (len : Int) (hl : len ≤ data.length) :
    parseSize data len ≠ .oob := by
  unfold parseSize
  split
  · simp
  · cases data with
    | nil => simp at hl; omega
    | cons b0 rest =>
      simp only
      split
      · simp
      · split
        · simp
        · cases rest with
          | nil => simp at hl; omega
          | cons b1 r => simp


theorem padChain_hdr (k last : Nat) (hlast : last < 255) (tail : Bytes) (len : Int) (pad : Nat)
    (hl : 255 * (k : Int) < len) :
    padChain (List.replicate k 255 ++ [last] ++ tail) len pad
      = .ok (tail, len - 255 * k - 1 - last, pad + 254 * k + last) := by
  induction k generalizing len pad with
  | zero =>
    simp [padChain]
    have : ¬ len ≤ 0 := by omega
    have h2 : ¬ last = 255 := by omega
    simp [this, h2]
  | succ k ih =>
    have : ¬ len ≤ 0 := by omega
    simp [List.replicate_succ, padChain, this]
    have := ih (len - 1 - 254) (pad + 254) (by omega)
    simp at this
    rw [this]
    simp
    constructor <;> omega

theorem padChain_inv (data : Bytes) (hb : BytesOk data) (len : Int) (pad : Nat)
    (d : Bytes) (l : Int) (p' : Nat) (h : padChain data len pad = .ok (d, l, p')) :
    ∃ k last : Nat, last < 255 ∧ data = List.replicate k 255 ++ [last] ++ d ∧
      l = len - 255 * k - 1 - last ∧ p' = pad + 254 * k + last ∧ 255 * (k : Int) < len := by
  induction data generalizing len pad with
  | nil => unfold padChain at h; split at h <;> simp at h
  | cons p rest ih =>
    unfold padChain at h
    split at h
    · simp at h
    · simp only at h
      split at h
      · rename_i hlen hp
        have hb' : BytesOk rest := fun b hb' => hb b (by simp [hb'])
        obtain ⟨k, last, h1, h2, h3, h4, h5⟩ := ih hb' _ _ h
        refine ⟨k + 1, last, h1, ?_, ?_, ?_, ?_⟩
        · simp [List.replicate_succ, hp, h2]
        · push_cast; omega
        · omega
        · push_cast; omega
      · rename_i hlen hp
        simp at h
        have : p < 256 := hb p (by simp)
        refine ⟨0, p, by omega, ?_, ?_, ?_, by omega⟩
        · simp [h.1]
        · omega
        · omega

theorem padChain_no_oob (data : Bytes) (len : Int) (pad : Nat) (hl : len ≤ data.length) :
    padChain data len pad ≠ .oob := by
  induction data generalizing len pad with
  | nil => unfold padChain; simp at hl; simp [hl]
  | cons p rest ih =>
    unfold padChain
    split
    · simp
    · simp only
      split
      · apply ih; simp at hl; omega
      · simp

/-- Total header bytes of a list of explicit lengths. -/
def H (ss : List Nat) : Nat := (ss.flatMap encLen).length

@[simp] theorem H_nil : H [] = 0 := rfl
theorem H_cons (s : Nat) (ss : List Nat) : H (s :: ss) = (encLen s).length + H ss := by
  simp [H]

theorem vbrSizes_enc (ss : List Nat) (hs : ∀ s ∈ ss, s ≤ 1275) (tail : Bytes) (len last : Int)
    (hfit : (H ss : Int) + sumN ss ≤ len) :
    vbrSizes ss.length (ss.flatMap encLen ++ tail) len last
      = .ok (ss, tail, len - H ss, last - H ss - sumN ss) := by
  induction ss generalizing len last with
  | nil => simp [vbrSizes]
  | cons s ss ih =>
    have hs0 : s ≤ 1275 := hs s (by simp)
    rw [H_cons] at hfit
    simp only [sumN_cons] at hfit
    push_cast at hfit
    simp only [List.length_cons, List.flatMap_cons, List.append_assoc]
    unfold vbrSizes
    rw [parseSize_encLen s hs0 _ len (by omega)]
    simp only
    have hcond : ¬ ((s : Int) < 0 ∨ (s : Int) > len - ((encLen s).length : Int)) := by omega
    rw [if_neg hcond]
    have hdrop : List.drop ((encLen s).length : Int).toNat (encLen s ++ (ss.flatMap encLen ++ tail))
        = ss.flatMap encLen ++ tail := by simp
    rw [hdrop]
    rw [ih (fun x hx => hs x (by simp [hx])) _ _ (by omega)]
    simp [H_cons]
    constructor <;> omega

theorem vbrSizes_inv (n : Nat) (data : Bytes) (hb : BytesOk data) (len last : Int) (hlen : 0 ≤ len)
    (ss : List Nat) (d : Bytes) (l la : Int)
    (h : vbrSizes n data len last = .ok (ss, d, l, la)) :
    ss.length = n ∧ (∀ s ∈ ss, s ≤ 1275) ∧ data = ss.flatMap encLen ++ d ∧
      l = len - H ss ∧ la = last - H ss - sumN ss ∧ (H ss : Int) ≤ len := by
  induction n generalizing data len last ss d l la with
  | zero =>
    simp [vbrSizes] at h
    obtain ⟨h1, h2, h3, h4⟩ := h
    subst h1 h2 h3 h4
    simp [hlen]
  | succ n ih =>
    unfold vbrSizes at h
    split at h
    · rename_i bytes sz hps
      simp only at h
      split at h
      · simp at h
      · rename_i hcond
        have hsz : 0 ≤ sz := by omega
        obtain ⟨m, hm1, hm2, hm3, hm4, hm5⟩ := parseSize_ok_inv data len hb bytes sz hps hsz
        split at h
        · rename_i ss' d' l' la' hrec
          simp at h
          obtain ⟨h1, h2, h3, h4⟩ := h
          have hb' : BytesOk (data.drop bytes.toNat) := fun b hb' => hb b (List.mem_of_mem_drop hb')
          obtain ⟨i1, i2, i3, i4, i5, i6⟩ := ih _ hb' _ _ (by omega) _ _ _ _ hrec
          subst h1 h2 h3 h4
          have : sz.toNat = m := by omega
          rw [this]
          refine ⟨by simp [i1], ?_, ?_, ?_, ?_, ?_⟩
          · intro s hs; simp at hs; rcases hs with rfl | hs
            · exact hm2
            · exact i2 s hs
          · rw [List.flatMap_cons, List.append_assoc, ← i3]; exact hm5
          · rw [H_cons]; push_cast; omega
          · rw [H_cons]; simp only [sumN_cons]; push_cast; omega
          · rw [H_cons]; push_cast; omega
        all_goals simp at h
    all_goals simp at h



theorem parseSize_shape (data : Bytes) (len : Int) (bytes sz : Int)
    (h : parseSize data len = .ok (bytes, sz)) :
    (bytes = -1 ∧ sz = -1) ∨ (bytes = 1 ∧ 0 ≤ sz ∧ 1 ≤ len) ∨ (bytes = 2 ∧ 0 ≤ sz ∧ 2 ≤ len) := by
  unfold parseSize at h
  split at h
  · simp at h; omega
  · cases data with
    | nil => simp at h
    | cons b0 rest =>
      simp only at h
      split at h
      · simp at h; omega
      · split at h
        · simp at h; omega
        · cases rest with
          | nil => simp at h
          | cons b1 r => simp at h; omega

theorem vbrSizes_no_oob (n : Nat) (data : Bytes) (len last : Int) (hl : len ≤ data.length) :
    vbrSizes n data len last ≠ .oob := by
  induction n generalizing data len last with
  | zero => simp [vbrSizes]
  | succ n ih =>
    unfold vbrSizes
    split
    · rename_i bytes sz hps
      simp only
      split
      · simp
      · rename_i hc
        split
        · simp
        · simp
        · rename_i hrec
          exfalso
          refine ih (data.drop bytes.toNat) (len - bytes) _ ?_ hrec
          have := parseSize_shape data len bytes sz hps
          simp only [List.length_drop]
          omega
        · simp
    · simp
    · rename_i hps; exact absurd hps (parseSize_no_oob data len hl)
    · simp

/-- `finish` for the VBR forms (codes 0, 2, 3-VBR), forward direction. -/
theorem finish_vbr (sd : Bool) (total toc : Nat) (h : Hdr) (L : Nat) (tail : Bytes)
    (hcbr : h.cbr = false) (hL : L ≤ 1275)
    (hdata : h.data = (if sd then encLen L else []) ++ tail)
    (hns : sd = false → h.lastSize = L)
    (hsd : sd = true → ((encLen L).length : Int) ≤ h.len ∧ (L : Int) ≤ h.len - (encLen L).length ∧
              ((encLen L).length : Int) + L ≤ h.lastSize) :
    finish sd total toc h = .ok (mkParsed total toc h (h.sizes ++ [L]) tail) := by
  unfold finish
  cases sd with
  | false =>
    simp at hdata
    have := hns rfl
    simp [hcbr, this, hdata]
    omega
  | true =>
    simp at hdata
    obtain ⟨h1, h2, h3⟩ := hsd rfl
    simp only [if_true]
    rw [hdata, parseSize_encLen L hL tail h.len h1]
    simp only
    have hc : ¬ ((L : Int) < 0 ∨ (L : Int) > h.len - ((encLen L).length : Int)) := by omega
    rw [if_neg hc]
    simp [hcbr]
    omega

/-- `finish` for the CBR forms (codes 1, 3-CBR), forward direction. -/
theorem finish_cbr (sd : Bool) (total toc : Nat) (h : Hdr) (L : Nat) (tail : Bytes)
    (hcbr : h.cbr = true) (hL : L ≤ 1275)
    (hdata : h.data = (if sd then encLen L else []) ++ tail)
    (hns : sd = false → h.lastSize = L)
    (hsd : sd = true → ((encLen L).length : Int) ≤ h.len ∧ (L : Int) ≤ h.len - (encLen L).length ∧
              (L : Int) * h.count ≤ h.len - (encLen L).length) :
    finish sd total toc h = .ok (mkParsed total toc h (List.replicate h.count L) tail) := by
  unfold finish
  cases sd with
  | false =>
    simp at hdata
    have := hns rfl
    simp [hcbr, this, hdata]
    omega
  | true =>
    simp at hdata
    obtain ⟨h1, h2, h3⟩ := hsd rfl
    simp only [if_true]
    rw [hdata, parseSize_encLen L hL tail h.len h1]
    simp only
    have hc : ¬ ((L : Int) < 0 ∨ (L : Int) > h.len - ((encLen L).length : Int)) := by omega
    rw [if_neg hc]
    simp [hcbr]
    omega


end Opus.FramingProofs
