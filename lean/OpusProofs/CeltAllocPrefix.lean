import OpusProofs.CeltAllocAgree
import OpusProofs.CeltBandsAllocOps
/-
  OpusProofs.CeltAllocPrefix — the decoder side of `clt_compute_allocation` reads its oracle strictly from the front:
  two decoder-side runs whose oracles share the first `J` values make the same first `J` calls and, if there is a
  call number `J` (counted from 0) at all, it is the same call (`ec_dec_bit_logp` or `ec_dec_uint` with the same `ft`)
  in both.  This is what lets a decoder feed the allocation one decoded value at a time (C03's `allocDrive`).
-/
namespace OpusProofs.CeltAlloc
open Opus Opus.CeltAlloc
open Opus.Gen.CeltTables

def SameKind : Op → Op → Prop
  | .bit _, .bit _ => True
  | .uint _ f1, .uint _ f2 => f1 = f2
  | _, _ => False

/-- both coders decode, have made the same calls, and still have a common stretch of oracle in front that reaches up to
    call number `J` -/
structure Syn (J : Nat) (c1 c2 : Coder) : Prop where
  e1 : c1.encode = false
  e2 : c2.encode = false
  ops : c1.ops = c2.ops
  orc : ∃ pre a b, c1.oracle = pre ++ a ∧ c2.oracle = pre ++ b ∧ c1.ops.length + pre.length = J

/-- the runs have gone apart at call number `J`, which was the same call on both sides -/
def Div (J : Nat) (c1 c2 : Coder) : Prop :=
  ∃ h x1 x2 t1 t2, c1.ops = t1 ++ x1 :: h ∧ c2.ops = t2 ++ x2 :: h ∧ SameKind x1 x2 ∧ h.length = J

theorem Div.grow {J : Nat} {c1 c2 c1' c2' : Coder} (h : Div J c1 c2) (g1 : ∃ p, c1'.ops = p ++ c1.ops)
    (g2 : ∃ p, c2'.ops = p ++ c2.ops) : Div J c1' c2' := by
  obtain ⟨hh, x1, x2, t1, t2, a, b, k, l⟩ := h
  obtain ⟨p1, q1⟩ := g1
  obtain ⟨p2, q2⟩ := g2
  exact ⟨hh, x1, x2, p1 ++ t1, p2 ++ t2, by rw [q1, a, List.append_assoc], by rw [q2, b, List.append_assoc], k, l⟩

theorem decBit_syn {J : Nat} {c1 c2 : Coder} (h : Syn J c1 c2) :
    (c1.decBit.1 = c2.decBit.1 ∧ Syn J c1.decBit.2 c2.decBit.2) ∨ Div J c1.decBit.2 c2.decBit.2 := by
  obtain ⟨pre, a, b, h1, h2, h3⟩ := h.orc
  cases pre with
  | nil =>
    right
    refine ⟨c1.ops, .bit (c1.oracle.headD 0 % 2), .bit (c2.oracle.headD 0 % 2), [], [], rfl, ?_, trivial, by simpa using h3⟩
    show Op.bit _ :: c2.ops = _
    rw [h.ops]; rfl
  | cons v pre' =>
    left
    have hv1 : c1.oracle.headD 0 = v := by rw [h1]; rfl
    have hv2 : c2.oracle.headD 0 = v := by rw [h2]; rfl
    refine ⟨by simp only [Coder.decBit, hv1, hv2], ⟨h.e1, h.e2, ?_, pre', a, b, ?_, ?_, ?_⟩⟩
    · simp only [Coder.decBit, hv1, hv2, h.ops]
    · simp only [Coder.decBit, h1]; rfl
    · simp only [Coder.decBit, h2]; rfl
    · simp only [Coder.decBit, List.length_cons] at h3 ⊢; omega

theorem decUint_syn {J : Nat} {c1 c2 : Coder} (h : Syn J c1 c2) (ft : Nat) :
    ((c1.decUint ft).1 = (c2.decUint ft).1 ∧ Syn J (c1.decUint ft).2 (c2.decUint ft).2) ∨
    Div J (c1.decUint ft).2 (c2.decUint ft).2 := by
  obtain ⟨pre, a, b, h1, h2, h3⟩ := h.orc
  cases pre with
  | nil =>
    right
    refine ⟨c1.ops, .uint (c1.oracle.headD 0 % ft) ft, .uint (c2.oracle.headD 0 % ft) ft, [], [], rfl, ?_, rfl, by simpa using h3⟩
    show Op.uint _ _ :: c2.ops = _
    rw [h.ops]; rfl
  | cons v pre' =>
    left
    have hv1 : c1.oracle.headD 0 = v := by rw [h1]; rfl
    have hv2 : c2.oracle.headD 0 = v := by rw [h2]; rfl
    refine ⟨by simp only [Coder.decUint, hv1, hv2], ⟨h.e1, h.e2, ?_, pre', a, b, ?_, ?_, ?_⟩⟩
    · simp only [Coder.decUint, hv1, hv2, h.ops]
    · simp only [Coder.decUint, h1]; rfl
    · simp only [Coder.decUint, h2]; rfl
    · simp only [Coder.decUint, List.length_cons] at h3 ⊢; omega

/-- one iteration of the band-skipping loop -/
theorem skipStep_syn {J : Nat} (p : Inp) (b : Band) (bits psum total irsv : Int) {c1 c2 : Coder} (h : Syn J c1 c2) :
    (Syn J (skipStep p b bits psum total irsv c1).coder (skipStep p b bits psum total irsv c2).coder ∧
      (skipStep p b bits psum total irsv c1).stop = (skipStep p b bits psum total irsv c2).stop) ∨
    Div J (skipStep p b bits psum total irsv c1).coder (skipStep p b bits psum total irsv c2).coder := by
  simp only [skipStep, h.e1, h.e2, Bool.false_eq_true, if_false]
  split
  · rcases decBit_syn h with ⟨v, s⟩ | d
    · left; exact ⟨s, by rw [v]⟩
    · right; exact d
  · left; exact ⟨h, rfl⟩

theorem skipStep_rest (p : Inp) (b : Band) (bits psum total irsv : Int) (c1 c2 : Coder) :
    (skipStep p b bits psum total irsv c1).psum = (skipStep p b bits psum total irsv c2).psum ∧
    (skipStep p b bits psum total irsv c1).irsv = (skipStep p b bits psum total irsv c2).irsv ∧
    (skipStep p b bits psum total irsv c1).newBits = (skipStep p b bits psum total irsv c2).newBits := by
  simp only [skipStep]
  exact ⟨trivial, trivial, trivial⟩

/-- the band-skipping loop: either still in step (and then with the same result), or apart -/
theorem skipLoop_syn {J : Nat} (p : Inp) (ss : Nat) (rsv : Int) :
    ∀ (l : List (Band × Int)) (psum total irsv : Int) (c1 c2 : Coder) (acc : List (Band × Int)) (s1 s2 : SkipOut),
    Syn J c1 c2 → skipLoop p ss rsv l psum total irsv c1 acc = .ok s1 → skipLoop p ss rsv l psum total irsv c2 acc = .ok s2 →
    (Syn J s1.coder s2.coder ∧ s2 = { s1 with coder := s2.coder }) ∨ Div J s1.coder s2.coder := by
  intro l
  induction l with
  | nil => intro _ _ _ _ _ _ _ _ _ h; simp [skipLoop] at h
  | cons hd tl ih =>
    intro psum total irsv c1 c2 acc s1 s2 hs h1 h2
    obtain ⟨b, bits⟩ := hd
    rw [skipLoop] at h1 h2
    by_cases hj : b.j ≤ ss
    · simp only [hj, if_true] at h1 h2
      injection h1 with h1; injection h2 with h2
      subst h1 h2
      left; exact ⟨hs, rfl⟩
    · simp only [hj, if_false] at h1 h2
      obtain ⟨r1, r2, r3⟩ := skipStep_rest p b bits psum total irsv c1 c2
      rcases skipStep_syn p b bits psum total irsv hs with ⟨sy, st⟩ | dv
      · by_cases hstop : (skipStep p b bits psum total irsv c1).stop = true
        · have hstop2 : (skipStep p b bits psum total irsv c2).stop = true := by rw [← st]; exact hstop
          simp only [hstop, if_true] at h1
          simp only [hstop2, if_true] at h2
          injection h1 with h1; injection h2 with h2
          subst h1 h2
          left; exact ⟨sy, rfl⟩
        · have hstop2 : ¬ (skipStep p b bits psum total irsv c2).stop = true := by rw [← st]; exact hstop
          simp only [hstop, if_false] at h1
          simp only [hstop2, if_false] at h2
          rw [← r1, ← r2, ← r3] at h2
          exact ih _ _ _ _ _ _ s1 s2 sy h1 h2
      · -- apart: from here on the two loops only add calls
        right
        have g : ∀ (c : Coder) (s : SkipOut),
            (if (skipStep p b bits psum total irsv c).stop = true then
              (Res.ok { codedBands := b.j + 1, total := total, psum := psum, irsv := irsv,
                        coder := (skipStep p b bits psum total irsv c).coder, kept := (b, bits) :: tl, skipped := acc } : Res SkipOut)
            else skipLoop p ss rsv tl (skipStep p b bits psum total irsv c).psum total (skipStep p b bits psum total irsv c).irsv
              (skipStep p b bits psum total irsv c).coder ((b, (skipStep p b bits psum total irsv c).newBits) :: acc)) = .ok s →
            ∃ q, s.coder.ops = q ++ (skipStep p b bits psum total irsv c).coder.ops := by
          intro c s hh
          by_cases hstop : (skipStep p b bits psum total irsv c).stop = true
          · simp only [hstop, if_true] at hh
            injection hh with hh; subst hh
            exact ⟨[], rfl⟩
          · simp only [hstop, if_false] at hh
            obtain ⟨q, hq, _⟩ := Opus.CeltBandsProofs.skipLoop_ops p ss rsv tl _ _ _ _ _ s hh
            exact ⟨q, hq⟩
        exact dv.grow (g c1 s1 h1) (g c2 s2 h2)

theorem dc_grow (c : Coder) (dsv dual : Int) :
    ∃ q, (if dsv > 0 then
            if c.encode = true then (dual, c.encBit (if dual ≠ 0 then 1 else 0)) else ((c.decBit.1 : Int), c.decBit.2)
          else ((0 : Int), c)).2.ops = q ++ c.ops := by
  by_cases h : dsv > 0
  · by_cases he : c.encode = true
    · simp only [h, he, if_true]; exact ⟨[_], rfl⟩
    · simp only [h, he, if_true, if_false]; exact ⟨[_], rfl⟩
  · simp only [h, if_false]; exact ⟨[], rfl⟩

/-- "code the intensity and dual stereo parameters" -/
theorem codeStereo_syn {J : Nat} (p : Inp) (s1 s2 : SkipOut) (ds : Int) (hs : Syn J s1.coder s2.coder)
    (heq : s2 = { s1 with coder := s2.coder }) :
    (Syn J (codeStereo p s1 ds).2.2.2 (codeStereo p s2 ds).2.2.2 ∧ (codeStereo p s1 ds).1 = (codeStereo p s2 ds).1 ∧
      (codeStereo p s1 ds).2.1 = (codeStereo p s2 ds).2.1 ∧ (codeStereo p s1 ds).2.2.1 = (codeStereo p s2 ds).2.2.1) ∨
    Div J (codeStereo p s1 ds).2.2.2 (codeStereo p s2 ds).2.2.2 := by
  have f1 : s2.irsv = s1.irsv := by rw [heq]
  have f2 : s2.codedBands = s1.codedBands := by rw [heq]
  have f3 : s2.total = s1.total := by rw [heq]
  -- the intensity parameter
  have hic : ((Syn J (if s1.irsv > 0 then
        (if s1.coder.encode = true then
          (min p.intensity ↑s1.codedBands, s1.coder.encUint (min p.intensity ↑s1.codedBands - ↑p.start).toNat (s1.codedBands + 1 - p.start))
         else (↑p.start + ↑(s1.coder.decUint (s1.codedBands + 1 - p.start)).1, (s1.coder.decUint (s1.codedBands + 1 - p.start)).2))
        else ((0 : Int), s1.coder)).2
      (if s1.irsv > 0 then
        (if s2.coder.encode = true then
          (min p.intensity ↑s1.codedBands, s2.coder.encUint (min p.intensity ↑s1.codedBands - ↑p.start).toNat (s1.codedBands + 1 - p.start))
         else (↑p.start + ↑(s2.coder.decUint (s1.codedBands + 1 - p.start)).1, (s2.coder.decUint (s1.codedBands + 1 - p.start)).2))
        else ((0 : Int), s2.coder)).2) ∧
      (if s1.irsv > 0 then
        (if s1.coder.encode = true then
          (min p.intensity ↑s1.codedBands, s1.coder.encUint (min p.intensity ↑s1.codedBands - ↑p.start).toNat (s1.codedBands + 1 - p.start))
         else (↑p.start + ↑(s1.coder.decUint (s1.codedBands + 1 - p.start)).1, (s1.coder.decUint (s1.codedBands + 1 - p.start)).2))
        else ((0 : Int), s1.coder)).1 =
      (if s1.irsv > 0 then
        (if s2.coder.encode = true then
          (min p.intensity ↑s1.codedBands, s2.coder.encUint (min p.intensity ↑s1.codedBands - ↑p.start).toNat (s1.codedBands + 1 - p.start))
         else (↑p.start + ↑(s2.coder.decUint (s1.codedBands + 1 - p.start)).1, (s2.coder.decUint (s1.codedBands + 1 - p.start)).2))
        else ((0 : Int), s2.coder)).1) ∨
      Div J (if s1.irsv > 0 then
        (if s1.coder.encode = true then
          (min p.intensity ↑s1.codedBands, s1.coder.encUint (min p.intensity ↑s1.codedBands - ↑p.start).toNat (s1.codedBands + 1 - p.start))
         else (↑p.start + ↑(s1.coder.decUint (s1.codedBands + 1 - p.start)).1, (s1.coder.decUint (s1.codedBands + 1 - p.start)).2))
        else ((0 : Int), s1.coder)).2
      (if s1.irsv > 0 then
        (if s2.coder.encode = true then
          (min p.intensity ↑s1.codedBands, s2.coder.encUint (min p.intensity ↑s1.codedBands - ↑p.start).toNat (s1.codedBands + 1 - p.start))
         else (↑p.start + ↑(s2.coder.decUint (s1.codedBands + 1 - p.start)).1, (s2.coder.decUint (s1.codedBands + 1 - p.start)).2))
        else ((0 : Int), s2.coder)).2 := by
    by_cases hir : s1.irsv > 0
    · simp only [hir, if_true, hs.e1, hs.e2, Bool.false_eq_true, if_false]
      rcases decUint_syn hs (s1.codedBands + 1 - p.start) with ⟨v, sy⟩ | dv
      · left; exact ⟨sy, by rw [v]⟩
      · right; exact dv
    · simp only [hir, if_false]
      left; exact ⟨hs, trivial⟩
  unfold codeStereo
  simp only [f1, f2, f3]
  generalize (if s1.irsv > 0 then
        (if s1.coder.encode = true then
          (min p.intensity ↑s1.codedBands, s1.coder.encUint (min p.intensity ↑s1.codedBands - ↑p.start).toNat (s1.codedBands + 1 - p.start))
         else (↑p.start + ↑(s1.coder.decUint (s1.codedBands + 1 - p.start)).1, (s1.coder.decUint (s1.codedBands + 1 - p.start)).2))
        else ((0 : Int), s1.coder)) = ic1 at hic ⊢
  generalize (if s1.irsv > 0 then
        (if s2.coder.encode = true then
          (min p.intensity ↑s1.codedBands, s2.coder.encUint (min p.intensity ↑s1.codedBands - ↑p.start).toNat (s1.codedBands + 1 - p.start))
         else (↑p.start + ↑(s2.coder.decUint (s1.codedBands + 1 - p.start)).1, (s2.coder.decUint (s1.codedBands + 1 - p.start)).2))
        else ((0 : Int), s2.coder)) = ic2 at hic ⊢
  rcases hic with ⟨sy, hv⟩ | dv
  · rw [← hv]
    generalize (if ic1.1 ≤ (p.start : Int) then 0 else ds) = ds'
    by_cases hds : ds' > 0
    · simp only [hds, if_true, sy.e1, sy.e2, Bool.false_eq_true, if_false]
      rcases decBit_syn sy with ⟨v, sy2⟩ | dv
      · left; exact ⟨sy2, trivial, by rw [v], trivial⟩
      · right; exact dv
    · simp only [hds, if_false]
      left; exact ⟨sy, trivial, trivial, trivial⟩
  · right
    exact dv.grow (dc_grow _ _ _) (dc_grow _ _ _)

/-- **Oracle-prefix determinism.**  Two decoder-side runs whose oracles start with the same `orc`: either they are the
    same run using no more than `orc`, or both make a call number `orc.length` and it is the same call. -/
theorem alloc_oracle_prefix (p : Inp) (orc a b : List Nat) (o1 o2 : Out)
    (h1 : computeAllocation p { encode := false, oracle := orc ++ a, ops := [] } = .ok o1)
    (h2 : computeAllocation p { encode := false, oracle := orc ++ b, ops := [] } = .ok o2) :
    (o1 = o2 ∧ o1.ops.length ≤ orc.length) ∨
    (∃ x1 x2, o1.ops[orc.length]? = some x1 ∧ o2.ops[orc.length]? = some x2 ∧ SameKind x1 x2) := by
  rw [computeAllocation_eq] at h1 h2
  have hfin : ∀ (c : Coder), finish p (bands p) (b12 p) (skipStart p.start (bands p)) (tot p) (skipRsv p)
      (irsv p) (dsrsv p) (ilo p) c =
      (skipLoop p (skipStart p.start (bands p)) (skipRsv p) (l0 p) (sumInt (bits0 p)) (tot p) (irsv p) c [] >>=
        fun s => pure (finishTail p s (dsrsv p))) := fun _ => rfl
  rw [hfin] at h1 h2
  have hs0 : Syn orc.length { encode := false, oracle := orc ++ a, ops := [] } { encode := false, oracle := orc ++ b, ops := [] } :=
    ⟨rfl, rfl, rfl, orc, a, b, rfl, rfl, by simp⟩
  cases hk1 : skipLoop p (skipStart p.start (bands p)) (skipRsv p) (l0 p) (sumInt (bits0 p)) (tot p) (irsv p)
      { encode := false, oracle := orc ++ a, ops := [] } [] with
  | ok s1 =>
    cases hk2 : skipLoop p (skipStart p.start (bands p)) (skipRsv p) (l0 p) (sumInt (bits0 p)) (tot p) (irsv p)
        { encode := false, oracle := orc ++ b, ops := [] } [] with
    | ok s2 =>
      rw [hk1] at h1; rw [hk2] at h2
      have e1 : o1 = finishTail p s1 (dsrsv p) := by
        have : (Res.ok (finishTail p s1 (dsrsv p)) : Res Out) = .ok o1 := h1
        injection this with this; exact this.symm
      have e2 : o2 = finishTail p s2 (dsrsv p) := by
        have : (Res.ok (finishTail p s2 (dsrsv p)) : Res Out) = .ok o2 := h2
        injection this with this; exact this.symm
      have hdiv : ∀ c1 c2 : Coder, Div orc.length c1 c2 →
          ∃ x1 x2, c1.ops.reverse[orc.length]? = some x1 ∧ c2.ops.reverse[orc.length]? = some x2 ∧ SameKind x1 x2 := by
        intro c1 c2 ⟨h, x1, x2, t1, t2, q1, q2, k, l⟩
        refine ⟨x1, x2, ?_, ?_, k⟩
        · rw [q1, List.reverse_append, List.reverse_cons, List.append_assoc, List.getElem?_append_right (by simp [l])]
          simp [l]
        · rw [q2, List.reverse_append, List.reverse_cons, List.append_assoc, List.getElem?_append_right (by simp [l])]
          simp [l]
      rcases skipLoop_syn p _ _ _ _ _ _ _ _ _ s1 s2 hs0 hk1 hk2 with ⟨sy, heq⟩ | dv
      · rcases codeStereo_syn p s1 s2 (dsrsv p) sy heq with ⟨sy2, v1, v2, v3⟩ | dv
        · left
          have hk : s2.kept = s1.kept := by rw [heq]
          have hsk : s2.skipped = s1.skipped := by rw [heq]
          have hcb : s2.codedBands = s1.codedBands := by rw [heq]
          have hps : s2.psum = s1.psum := by rw [heq]
          constructor
          · rw [e1, e2]
            simp only [finishTail, distribute, ← v1, ← v2, ← v3, hk, hsk, hcb, hps, sy2.ops]
          · rw [e1]
            simp only [finishTail, List.length_reverse]
            obtain ⟨pre, _, _, _, _, hl⟩ := sy2.orc
            omega
        · right
          rw [e1, e2]
          exact hdiv _ _ dv
      · right
        rw [e1, e2]
        simp only [finishTail]
        refine hdiv _ _ (dv.grow ?_ ?_)
        · obtain ⟨q, hq, _⟩ := Opus.CeltBandsProofs.codeStereo_ops p s1 (dsrsv p); exact ⟨q, hq⟩
        · obtain ⟨q, hq, _⟩ := Opus.CeltBandsProofs.codeStereo_ops p s2 (dsrsv p); exact ⟨q, hq⟩
    | err e => rw [hk2] at h2; cases h2
    | oob => rw [hk2] at h2; cases h2
    | abort => rw [hk2] at h2; cases h2
  | err e => rw [hk1] at h1; cases h1
  | oob => rw [hk1] at h1; cases h1
  | abort => rw [hk1] at h1; cases h1

end OpusProofs.CeltAlloc
