import OpusProofs.SilkApiAccs
/-! Proofs for the C01 `SilkApi` slice: every recorded access of silk_Decode is in bounds (assembly). -/
namespace Opus.SilkApi

theorem inb_gen {b : String} {lo n stride cap : Int} (hn : 0 < n) (hlo : 0 ≤ lo) (hs : 0 < stride) (h : lo + (n - 1) * stride + 1 ≤ cap) :
    Acc.InBounds { buf := b, lo := lo, n := n, stride := stride, cap := cap } := by
  simp [Acc.InBounds, Acc.hi]; omega

set_option maxHeartbeats 1000000 in
theorem tail_accs {api : Int} {p : Prep} {a : Args} {o : Orc} (ha : ApiOk api) (hapi : a.API_sampleRate = api)
    (hca : a.nChannelsAPI = 1 ∨ a.nChannelsAPI = 2) (hci : a.nChannelsInternal = 1 ∨ a.nChannelsInternal = 2)
    (hR : Ready api a p.d) (hO : OrcOk p.d.ch0.frame_length (p.d.ch0.nb_subfr * (api / 200)) o)
    (hsm : p.sToM = true → p.d.ch1.rsIn = p.d.ch0.fs_kHz) : ∀ x ∈ (tail p a o).ac, x.InBounds := by
  obtain ⟨r0, rlt, r1, rn, rapi⟩ := hR
  obtain ⟨_, _, _, _, _, _, _, _, o9, o10⟩ := hO
  have K := keep_tFr p a o
  obtain ⟨k1, k2, k3, k4, k5, k6, k7, k8, k9, k10, k11, k12, k13, k14⟩ := K.1
  have c0 : ChanOk api (tFr p a o).d.ch0 := chanOk_of_keyEq r0 K.1 (by omega) (by omega)
  have KD1 : DecKeep 0 a p.d (tD1 p a o) := readFlags_keep p.d a o
  have KD : DecKeep (0 + 0) a p.d (tD2 p a o) := KD1.trans (sideReset_keep (tD1 p a o) a (tSp p a o).dom)
  have hfl1 : a.nChannelsInternal = 2 → (tD2 p a o).ch1.frame_length = (tD2 p a o).ch0.frame_length := by
    intro h2
    obtain ⟨q1, q2⟩ := r1 h2
    rw [(KD.2.1 h2).2.2.2.1, KD.1.2.2.2.1, q1.1.2.2.1, r0.1.2.2.1, q2.1, q2.2.1]
  have hN : (tFr p a o).N = (tFr p a o).d.ch0.frame_length := by
    unfold tFr
    rw [frames_N _ _ _ _ hfl1, (frames_keep _ _ _ _).1.2.2.2.1]
  obtain ⟨n1, n2, n3, n4, n5⟩ := nSamplesOut_ok ha c0
  have c0' := c0
  obtain ⟨⟨hf, hnb, hfl, _, _, _, _, _, _, hri, _⟩, _, hnf, hd0, hd1⟩ := c0
  have hflp : 0 < (tFr p a o).d.ch0.frame_length ∧ 8 * (tFr p a o).d.ch0.fs_kHz ≤ (tFr p a o).d.ch0.frame_length ∧
      (tFr p a o).d.ch0.fs_kHz ≤ (tFr p a o).d.ch0.frame_length := by
    rcases hf with hf | hf | hf <;> rcases hnb with hnb | hnb <;> rw [hf, hnb] at hfl <;> rw [hf] <;> omega
  have hri1 : a.nChannelsInternal = 2 → (tFr p a o).d.ch1.rsIn = (tFr p a o).d.ch0.fs_kHz := by
    intro h2
    obtain ⟨q1, q2⟩ := r1 h2
    rw [(K.2.1 h2).2.2.2.2.2.2.2.2.2.2.2.1, k1, q1.1.2.2.2.2.2.2.2.2.2.1, q2.1]
  have hri2 : p.sToM = true → a.nChannelsInternal = 1 → (tFr p a o).d.ch1.rsIn = (tFr p a o).d.ch0.fs_kHz := by
    intro hs h1
    rw [tFr_ch1_mono p a o h1, hsm hs, k1]
  have hstr : (if a.nChannelsAPI = 2 then (2 : Int) else 1) = a.nChannelsAPI := by rcases hca with h | h <;> simp [h]
  have hnfd : 0 ≤ p.d.ch0.nFramesDecoded ∧ p.d.ch0.nFramesDecoded < 3 := by
    have := r0.2.2.1; have := r0.2.2.2.1; omega
  have n4' : 0 ≤ p.d.ch0.nb_subfr * (api / 200) := by rw [← k3]; exact Int.le_of_lt n4
  have hlen0 : ((rsOutp o 0).length : Int) = (tFr p a o).d.ch0.nb_subfr * (api / 200) := by
    rw [o9, k3]; exact Int.toNat_of_nonneg n4'
  have hlen1 : ((rsOutp o 1).length : Int) = (tFr p a o).d.ch0.nb_subfr * (api / 200) := by
    rw [o10, k3]; exact Int.toNat_of_nonneg n4'
  unfold tail
  dsimp only
  split
  · rename_i h; exact absurd h n1
  · intro x hx
    rw [hN, hapi, n3] at hx
    simp only [List.mem_append] at hx
    rcases hx with ((((((((hx | hx) | hx) | hx) | hx) | hx) | hx) | hx) | hx) | hx
    · exact readFlags_accs p.d a o r0 (fun h2 => (r1 h2).1) x hx
    · refine stereoPred_accs _ a o ?_ ?_ x hx
      · rw [KD1.1.2.2.2.2.2.2.2.2.2.2.2.2.2]; omega
      · rw [KD1.1.2.2.2.2.2.2.2.2.2.2.2.2.2]; omega
    · refine hasSide_accs _ a _ (fun h2 => ?_) x hx
      rw [(KD.2.1 h2).2.2.2.2.2.2.2.2.2.2.2.2.2, (r1 h2).2.2.2.2]; omega
    · simp only [List.mem_singleton] at hx; subst hx
      refine inb_gen ?_ (by omega) (by omega) (by omega)
      rcases hci with h | h <;> rw [h] <;> omega
    · refine frames_accs _ a o _ hci ?_ hfl1 ?_ ?_ x hx
      · rw [KD.1.2.2.2.1, ← k4]; exact hflp.1
      · rw [KD.1.2.2.2.2.2.2.2.2.2.2.2.2.2]; omega
      · rw [KD.1.2.2.2.2.2.2.2.2.2.2.2.2.2]; omega
    · split at hx
      · rename_i h
        rw [h.2] at hx
        exact (tmp_extents_ok c0' 2 (Or.inr rfl)).2.2.2 rfl x hx
      · simp only [List.mem_cons, List.mem_nil_iff, or_false] at hx
        rcases hx with rfl | rfl <;> refine inb_gen ?_ ?_ ?_ ?_ <;>
          first | omega | (rcases hci with h | h <;> simp only [h] <;> omega)
    · simp only [hstr, hlen0, hri, List.mem_append, List.mem_cons, List.mem_singleton, List.mem_nil_iff, or_false] at hx
      rcases hx with (rfl | rfl | rfl) | rfl <;> refine inb_gen ?_ ?_ ?_ ?_ <;>
        first | omega | (rcases hci with h | h <;> rcases hca with h' | h' <;> simp only [h, h'] <;> omega)
    · have htw : ((if a.nChannelsAPI < a.nChannelsInternal then a.nChannelsAPI else a.nChannelsInternal) = 2) =
          (a.nChannelsAPI = 2 ∧ a.nChannelsInternal = 2) := by
        rcases hci with h | h <;> rcases hca with h' | h' <;> simp [h, h']
      simp only [htw] at hx
      split at hx
      · rename_i htwo
        have h2 : a.nChannelsInternal = 2 := htwo.2
        simp only [hlen1, hri1 h2, List.mem_append, List.mem_cons, List.mem_singleton, List.mem_nil_iff, or_false] at hx
        rcases hx with (rfl | rfl | rfl) | rfl <;> refine inb_gen ?_ ?_ ?_ ?_ <;>
          first | omega | (rcases hca with h' | h' <;> simp only [h2, h'] <;> omega)
      · simp at hx
    · split at hx
      · rename_i hm
        split at hx
        · rename_i hs
          simp only [hlen1, hri2 hs hm.2, List.mem_append, List.mem_cons, List.mem_singleton, List.mem_nil_iff, or_false] at hx
          rcases hx with (rfl | rfl | rfl) | rfl <;> refine inb_gen ?_ ?_ ?_ ?_ <;>
            first | omega | (simp only [hm.1, hm.2] <;> omega)
        · simp only [List.mem_append, List.mem_cons, List.mem_singleton, List.mem_nil_iff, or_false] at hx
          rcases hx with rfl | rfl <;> refine inb_gen ?_ ?_ ?_ ?_ <;>
            first | omega | (simp only [hm.1, hm.2] <;> omega)
      · simp at hx
    · exact pitchLagOut_accs _ hf x hx

theorem silkDecode_accs {api : Int} {d : Dec} {a : Args} {o : Orc} (hI : Inv api d) (hN : d.nChannelsInternal ≤ 2)
    (hA : ArgsOk api d a) (hO : CallOrcOk api d a o) : ∀ x ∈ (silkDecode d a o).ac, x.InBounds := by
  obtain ⟨e1, e2, _, e4⟩ := prep_ok hI hN hA
  rw [silkDecode_eq e2 e1]
  exact tail_accs hA.1 hA.2.1 hA.2.2.2.2.1 hA.2.2.2.2.2.1 e4 hO (prep_sToM hI hN hA)

end Opus.SilkApi
