import OpusModel.RepackInPlace
import OpusProofs.RepackMs
/-
  C07 helper lemmas, part 15: in-place safety.  Unpadding on one byte array — header first, then the
  frames moved one by one with memmove, exactly in the order of src/repacketizer.c — gives the same
  bytes as the pure model that reads frames from private copies: no frame byte is overwritten before
  it is read, and nothing beyond the old packet is touched.
-/
namespace Opus.RepackProofs
open Opus Opus.Framing Opus.FramingSpec Opus.FramingProofs Opus.Repack Opus.Ext

theorem writeAt_decomp (A M R bs : Bytes) (h : bs.length = M.length) :
    writeAt (A ++ M ++ R) A.length bs = A ++ bs ++ R := by
  unfold writeAt
  rw [List.append_assoc, List.take_left]
  congr 1
  rw [h, ← List.length_append, ← List.append_assoc, List.drop_left]

/-- The frame-moving loop: with the destination at or before the first source and the frames lying
    back to back, every frame arrives intact; the bytes after the last frame are untouched. -/
theorem moveFrames_spec : ∀ (sizes : List Nat) (A G F R : Bytes), F.length = sumN sizes →
    ∃ X, X.length = G.length ∧
      moveFrames (A ++ G ++ F ++ R) A.length (frameSlots (A.length + G.length) sizes) = A ++ F ++ X ++ R := by
  intro sizes
  induction sizes with
  | nil =>
    intro A G F R hF
    have : F = [] := List.length_eq_zero_iff.mp (by simpa using hF)
    subst this
    exact ⟨G, rfl, by simp [moveFrames, frameSlots]⟩
  | cons n ss ih =>
    intro A G F R hF
    simp only [sumN_cons] at hF
    -- split F into the first frame and the rest
    have hsplit : F = F.take n ++ F.drop n := (List.take_append_drop n F).symm
    have hfl : (F.take n).length = n := by simp; omega
    have hrl : (F.drop n).length = sumN ss := by simp; omega
    generalize F.take n = f at hsplit hfl
    generalize F.drop n = F' at hsplit hrl
    subst hsplit
    simp only [frameSlots, moveFrames]
    -- the source read
    have hread : ((A ++ G ++ (f ++ F') ++ R).drop (A.length + G.length)).take n = f := by
      have : A ++ G ++ (f ++ F') ++ R = (A ++ G) ++ (f ++ (F' ++ R)) := by simp
      rw [this, ← List.length_append, List.drop_left, ← hfl, List.take_left]
    rw [hread]
    -- the write: A ++ (G ++ f) ++ (F' ++ R), overwrite the first |f| bytes of (G ++ f)
    have hw : writeAt (A ++ G ++ (f ++ F') ++ R) A.length f =
        (A ++ f) ++ ((G ++ f).drop f.length) ++ F' ++ R := by
      have e1 : A ++ G ++ (f ++ F') ++ R = A ++ ((G ++ f).take f.length) ++ (((G ++ f).drop f.length) ++ F' ++ R) := by
        have := List.take_append_drop f.length (G ++ f)
        calc A ++ G ++ (f ++ F') ++ R = A ++ ((G ++ f) ++ (F' ++ R)) := by simp
          _ = A ++ (((G ++ f).take f.length ++ (G ++ f).drop f.length) ++ (F' ++ R)) := by rw [this]
          _ = _ := by simp
      rw [e1, writeAt_decomp A _ _ f (by simp)]
      simp
    rw [hw]
    obtain ⟨X, hX, hm⟩ := ih (A ++ f) ((G ++ f).drop f.length) F' R hrl
    have hgl : ((G ++ f).drop f.length).length = G.length := by simp
    have hidx : (A ++ f).length + ((G ++ f).drop f.length).length = A.length + G.length + n := by
      rw [hgl]; simp; omega
    rw [hidx] at hm
    have hdst : (A ++ f).length = A.length + n := by simp; omega
    rw [hdst] at hm
    refine ⟨X, by rw [hX, hgl], ?_⟩
    rw [hm]; simp

theorem frameSlots_eq (off : Nat) (ss : List Nat) : frameSlots off ss = frameSlots off ss := rfl

/-- The canonical packet's header is no longer than the header of any valid packet with these frames. -/
theorem canon_header_le (sd : Bool) (p : Packet) (hv : Valid p) :
    (header sd (canonPacket p.toc p.frames)).length ≤ (header sd p).length := by
  -- drop the padding of `p`: still valid, header not longer
  obtain ⟨toc, frames, vbr, pad⟩ := p
  have hv' : Valid { toc := toc, frames := frames, vbr := vbr, pad := none } := by
    refine ⟨hv.toc_byte, hv.frame_max, ?_, ?_, ?_, hv.code3, by intro pd h; cases h⟩
    · intro h; exact ⟨(hv.code0 h).1, (hv.code0 h).2.1, rfl⟩
    · intro h; exact ⟨(hv.code1 h).1, (hv.code1 h).2.1, rfl, (hv.code1 h).2.2.2⟩
    · intro h; exact ⟨(hv.code2 h).1, (hv.code2 h).2.1, rfl⟩
  have hmin := minSize_minimal sd _ hv'
  have hl := outPacket_len toc frames (valid_ne _ hv') ((serialize sd { toc := toc, frames := frames, vbr := vbr, pad := none : Packet }).length) sd false hmin
  rw [outPacket_nopad_sd] at hl
  simp only [Bool.false_eq_true, if_false] at hl
  have h1 : (serialize sd (canonPacket toc frames)).length =
      (header sd (canonPacket toc frames)).length + frames.flatten.length := by
    simp [serialize, canonPacket_nopad, canonPacket, outPacket_frames]
  have h2 : (serialize sd { toc := toc, frames := frames, vbr := vbr, pad := none : Packet }).length =
      (header sd { toc := toc, frames := frames, vbr := vbr, pad := none : Packet }).length + frames.flatten.length := by
    simp [serialize, padBytes]
  have h3 : (header sd { toc := toc, frames := frames, vbr := vbr, pad := none : Packet }).length ≤
      (header sd { toc := toc, frames := frames, vbr := vbr, pad := pad : Packet }).length := by
    simp only [header, Packet.code, lenFields, Packet.lens]
    cases pad <;> simp <;> split <;> simp
  simp only [Packet.lens] at hmin
  omega

end Opus.RepackProofs
