import OpusModel.RepackInPlace
import OpusProofs.RepackMs
/-
  C07 helper lemmas, part 15: in-place safety.  Unpadding on one byte array — header first, then the
  frames moved one by one with memmove, exactly in the order of src/repacketizer.c — gives the same
  bytes as the pure model that reads frames from private copies: no frame byte is overwritten before
  it is read, and nothing beyond the old packet is touched.
-/
namespace Opus.RepackProofs
open Opus Opus.Framing Opus.FramingSpec Opus.FramingProofs Opus.Repack Opus.Ext

theorem writeAt_decomp (A M R bs : Bytes) (h : bs.length = M.length) :
    writeAt (A ++ M ++ R) A.length bs = A ++ bs ++ R := by
  unfold writeAt
  have e1 : (A ++ M ++ R).take A.length = A := by rw [List.append_assoc, List.take_left]
  have e2 : (A ++ M ++ R).drop (A.length + bs.length) = R := by
    rw [h, ← List.length_append, List.drop_left]
  rw [e1, e2]

/-- The frame-moving loop: with the destination at or before the first source and the frames lying
    back to back, every frame arrives intact; the bytes after the last frame are untouched. -/
theorem moveFrames_spec : ∀ (sizes : List Nat) (A G F R : Bytes), F.length = sumN sizes →
    ∃ X, X.length = G.length ∧
      moveFrames (A ++ G ++ F ++ R) A.length (frameSlots (A.length + G.length) sizes) = A ++ F ++ X ++ R := by
  intro sizes
  induction sizes with
  | nil =>
    intro A G F R hF
    have : F = [] := List.length_eq_zero_iff.mp (by simpa using hF)
    subst this
    exact ⟨G, rfl, by simp [moveFrames, frameSlots]⟩
  | cons n ss ih =>
    intro A G F R hF
    simp only [sumN_cons] at hF
    -- split F into the first frame and the rest
    have hsplit : F = F.take n ++ F.drop n := (List.take_append_drop n F).symm
    have hfl : (F.take n).length = n := by simp; omega
    have hrl : (F.drop n).length = sumN ss := by simp; omega
    generalize F.take n = f at hsplit hfl
    generalize F.drop n = F' at hsplit hrl
    subst hsplit
    simp only [frameSlots, moveFrames]
    -- the source read
    have hread : ((A ++ G ++ (f ++ F') ++ R).drop (A.length + G.length)).take n = f := by
      have : A ++ G ++ (f ++ F') ++ R = (A ++ G) ++ (f ++ (F' ++ R)) := by simp
      rw [this, ← List.length_append, List.drop_left, ← hfl, List.take_left]
    rw [hread]
    -- the write: A ++ (G ++ f) ++ (F' ++ R), overwrite the first |f| bytes of (G ++ f)
    have hw : writeAt (A ++ G ++ (f ++ F') ++ R) A.length f =
        (A ++ f) ++ ((G ++ f).drop f.length) ++ F' ++ R := by
      have e1 : A ++ G ++ (f ++ F') ++ R = A ++ ((G ++ f).take f.length) ++ (((G ++ f).drop f.length) ++ F' ++ R) := by
        have := List.take_append_drop f.length (G ++ f)
        calc A ++ G ++ (f ++ F') ++ R = A ++ ((G ++ f) ++ (F' ++ R)) := by simp
          _ = A ++ (((G ++ f).take f.length ++ (G ++ f).drop f.length) ++ (F' ++ R)) := by rw [this]
          _ = _ := by simp only [List.append_assoc]
      rw [e1, writeAt_decomp A _ _ f (by simp)]
      simp
    rw [hw]
    obtain ⟨X, hX, hm⟩ := ih (A ++ f) ((G ++ f).drop f.length) F' R hrl
    have hgl : ((G ++ f).drop f.length).length = G.length := by simp
    have hidx : (A ++ f).length + ((G ++ f).drop f.length).length = A.length + G.length + n := by
      rw [hgl]; simp; omega
    rw [hidx] at hm
    have hdst : (A ++ f).length = A.length + n := by simp; omega
    rw [hdst] at hm
    refine ⟨X, by rw [hX, hgl], ?_⟩
    rw [hm]; simp

theorem frameSlots_eq (off : Nat) (ss : List Nat) : frameSlots off ss = frameSlots off ss := rfl

/-- The canonical packet's header is no longer than the header of any valid packet with these frames. -/
theorem canon_header_le (sd : Bool) (p : Packet) (hv : Valid p) :
    (header sd (canonPacket p.toc p.frames)).length ≤ (header sd p).length := by
  -- drop the padding of `p`: still valid, header not longer
  obtain ⟨toc, frames, vbr, pad⟩ := p
  show (header sd (canonPacket toc frames)).length ≤ _
  have hv' : Valid { toc := toc, frames := frames, vbr := vbr, pad := none } := by
    refine ⟨hv.toc_byte, hv.frame_max, ?_, ?_, ?_, hv.code3, by intro pd h; cases h⟩
    · intro h; exact ⟨(hv.code0 h).1, (hv.code0 h).2.1, rfl⟩
    · intro h; exact ⟨(hv.code1 h).1, (hv.code1 h).2.1, rfl, (hv.code1 h).2.2.2⟩
    · intro h; exact ⟨(hv.code2 h).1, (hv.code2 h).2.1, rfl⟩
  have hmin := minSize_minimal sd _ hv'
  have hl := outPacket_len toc frames (valid_ne _ hv') ((serialize sd { toc := toc, frames := frames, vbr := vbr, pad := none : Packet }).length) sd false hmin
  rw [outPacket_nopad_sd] at hl
  simp only [Bool.false_eq_true, if_false] at hl
  have h1 : (serialize sd (canonPacket toc frames)).length =
      (header sd (canonPacket toc frames)).length + frames.flatten.length := by
    have hpb := canonPacket_nopad toc frames
    have hfr : (canonPacket toc frames).frames = frames := outPacket_frames _ _ _ _ _
    simp [serialize, hpb, hfr]
  have h2 : (serialize sd { toc := toc, frames := frames, vbr := vbr, pad := none : Packet }).length =
      (header sd { toc := toc, frames := frames, vbr := vbr, pad := none : Packet }).length + frames.flatten.length := by
    simp [serialize, padBytes]
  have h3 : (header sd { toc := toc, frames := frames, vbr := vbr, pad := none : Packet }).length ≤
      (header sd { toc := toc, frames := frames, vbr := vbr, pad := pad : Packet }).length := by
    by_cases hc : toc % 4 = 3
    · cases pad <;> simp [header, Packet.code, lenFields, Packet.lens, hc]
    · cases pad <;> simp [header, Packet.code, lenFields, Packet.lens, hc]
  simp only [Packet.lens] at hmin
  omega

theorem serialize_canon_eq (sd : Bool) (p : Packet) :
    serialize sd (canonPacket p.toc p.frames) = header sd (canonPacket p.toc p.frames) ++ p.frames.flatten := by
  have hpb := canonPacket_nopad p.toc p.frames
  have hfr : (canonPacket p.toc p.frames).frames = p.frames := outPacket_frames _ _ _ _ _
  simp [serialize, hpb, hfr]

/-- One stream unpadded in place.  The buffer is `P ++ M ++ (the stream) ++ tail`; the write position is
    `|P|`, the read position `|P| + |M|`.  Afterwards the canonical packet stands at the write position,
    followed by `|M| + (bytes saved)` stale bytes, and `tail` is untouched. -/
theorem unpadStreamInPlace_spec (sd : Bool) (p : Packet) (hv : Valid p) (P M tail : Bytes) (maxlen : Int)
    (hm : ((serialize sd p).length : Int) ≤ maxlen) :
    ∃ X, X.length + (serialize sd (canonPacket p.toc p.frames)).length = M.length + (serialize sd p).length ∧
      unpadStreamInPlace (P ++ M ++ serialize sd p ++ tail) (P.length + M.length) (serialize sd p).length P.length maxlen sd =
        .ok (P ++ serialize sd (canonPacket p.toc p.frames) ++ X ++ tail, (serialize sd (canonPacket p.toc p.frames)).length) := by
  have hne := valid_ne p hv
  have hpkt : ((P ++ M ++ serialize sd p ++ tail).drop (P.length + M.length)).take (serialize sd p).length = serialize sd p := by
    have : P ++ M ++ serialize sd p ++ tail = (P ++ M) ++ (serialize sd p ++ tail) := by simp
    rw [this, ← List.length_append, List.drop_left, List.take_left]
  have hcat := cat_first sd p hv [] (fun _ => rfl)
  simp only [List.append_nil] at hcat
  have hparse := parse_complete sd p hv [] (fun _ => rfl)
  simp only [List.append_nil] at hparse
  have hmin := minSize_minimal sd p hv
  simp only [Packet.lens] at hmin
  have hemit : emit p.toc p.frames maxlen sd false #[] = .ok (serialize sd (canonPacket p.toc p.frames)) := by
    rw [emit_noext p.toc p.frames hne maxlen sd false, if_neg (by omega), outPacket_nopad_sd]
  have hcl := serialize_canon_eq sd p
  have hhl := canon_header_le sd p hv
  have hser : serialize sd p = header sd p ++ p.frames.flatten ++ padBytes p := rfl
  have hsum : sumN (view sd p).sizes = p.frames.flatten.length := by simp only [view, Packet.lens, sumN_map_length]
  unfold unpadStreamInPlace
  simp only [hpkt, show init Rp.empty = Rp.empty from rfl, hcat, hparse]
  have hst : (firstState p).toc = p.toc ∧ (firstState p).frames = p.frames := ⟨rfl, rfl⟩
  rw [hst.1, hst.2, hemit]
  simp only [hsum]
  rw [if_neg (by rw [hcl]; simp)]
  have hhdr : (serialize sd (canonPacket p.toc p.frames)).take
      ((serialize sd (canonPacket p.toc p.frames)).length - p.frames.flatten.length) =
      header sd (canonPacket p.toc p.frames) := by
    rw [hcl]; simp
  rw [hhdr]
  have hcanlen : (serialize sd (canonPacket p.toc p.frames)).length =
      (header sd (canonPacket p.toc p.frames)).length + p.frames.flatten.length := by rw [hcl]; simp
  have hplen : (serialize sd p).length = (header sd p).length + p.frames.flatten.length + (padBytes p).length := by
    rw [hser]; simp only [List.length_append]
  rw [if_neg (by simp only [List.length_append]; omega)]
  -- the header write
  have hsplit := List.take_append_drop (header sd (canonPacket p.toc p.frames)).length (M ++ header sd p)
  have hbuf : P ++ M ++ serialize sd p ++ tail =
      P ++ ((M ++ header sd p).take (header sd (canonPacket p.toc p.frames)).length) ++
        (((M ++ header sd p).drop (header sd (canonPacket p.toc p.frames)).length) ++ p.frames.flatten ++ (padBytes p ++ tail)) := by
    calc P ++ M ++ serialize sd p ++ tail = P ++ ((M ++ header sd p) ++ (p.frames.flatten ++ (padBytes p ++ tail))) := by
            rw [hser]; simp
      _ = P ++ (((M ++ header sd p).take (header sd (canonPacket p.toc p.frames)).length ++
            (M ++ header sd p).drop (header sd (canonPacket p.toc p.frames)).length) ++ (p.frames.flatten ++ (padBytes p ++ tail))) := by
            rw [hsplit]
      _ = _ := by simp only [List.append_assoc]
  rw [hbuf, writeAt_decomp P _ _ (header sd (canonPacket p.toc p.frames)) (by simp; omega)]
  have hpo : (view sd p).payloadOffset = (header sd p).length := rfl
  rw [hpo]
  obtain ⟨X, hX, hmv⟩ := moveFrames_spec (view sd p).sizes (P ++ header sd (canonPacket p.toc p.frames))
    ((M ++ header sd p).drop (header sd (canonPacket p.toc p.frames)).length) p.frames.flatten (padBytes p ++ tail)
    (by rw [hsum])
  have hidx : (P ++ header sd (canonPacket p.toc p.frames)).length +
      ((M ++ header sd p).drop (header sd (canonPacket p.toc p.frames)).length).length =
      P.length + M.length + (header sd p).length := by simp; omega
  rw [hidx] at hmv
  have hdst : (P ++ header sd (canonPacket p.toc p.frames)).length = P.length + (header sd (canonPacket p.toc p.frames)).length := by simp
  rw [hdst] at hmv
  have hassoc : P ++ header sd (canonPacket p.toc p.frames) ++
      (List.drop (header sd (canonPacket p.toc p.frames)).length (M ++ header sd p) ++ p.frames.flatten ++ (padBytes p ++ tail)) =
      P ++ header sd (canonPacket p.toc p.frames) ++
      List.drop (header sd (canonPacket p.toc p.frames)).length (M ++ header sd p) ++ p.frames.flatten ++ (padBytes p ++ tail) := by
    simp only [List.append_assoc]
  rw [hassoc, hmv]
  refine ⟨X ++ padBytes p, ?_, ?_⟩
  · simp only [List.length_append, List.length_drop] at hX ⊢; omega
  · rw [hcl]; simp only [List.append_assoc]

/-- `opus_packet_unpad` in place = the pure `packetUnpad`: the first `ret` bytes of the buffer are the
    pure result, and the buffer keeps its length. -/
theorem packetUnpadInPlace_eq (p : Packet) (hv : Valid p) :
    ∃ out X, packetUnpad (serialize false p) = .ok out ∧
      packetUnpadInPlace (serialize false p) = .ok (out ++ X, out.length) ∧
      (out ++ X).length = (serialize false p).length := by
  obtain ⟨X, hX, h⟩ := unpadStreamInPlace_spec false p hv [] [] [] (serialize false p).length (Int.le_refl _)
  simp only [List.nil_append, List.append_nil, List.length_nil, Nat.zero_add] at h hX
  have hpos := serialize_length_pos false p
  have hcpos := serialize_length_pos false (canonPacket p.toc p.frames)
  refine ⟨_, X, unpad_serialize p hv, ?_, by simp; omega⟩
  unfold packetUnpadInPlace
  rw [if_neg (by omega), h]
  simp only []
  rw [if_pos ⟨hcpos, by omega⟩]

/-- The multistream loop in place. -/
theorem msUnpadLoopInPlace_spec (ps : List Packet) (hv : ∀ p ∈ ps, Valid p) : ∀ (Done M : Bytes),
    ∃ X, (Done ++ msSerialize (ps.map fun p => canonPacket p.toc p.frames) ++ X).length = (Done ++ M ++ msSerialize ps).length ∧
      msUnpadLoopInPlace ps.length (Done ++ M ++ msSerialize ps) (Done.length + M.length) Done.length =
        .ok (Done ++ msSerialize (ps.map fun p => canonPacket p.toc p.frames) ++ X,
             Done.length + (msSerialize (ps.map fun p => canonPacket p.toc p.frames)).length) := by
  induction ps with
  | nil => intro Done M; exact ⟨M, by simp [msSerialize], by simp [msUnpadLoopInPlace, msSerialize]⟩
  | cons p ps ih =>
    intro Done M
    have hvp := hv p (by simp)
    rw [msSerialize_cons]
    simp only [List.length_cons, msUnpadLoopInPlace]
    have hdec : decide (ps.length ≠ 0) = decide (ps ≠ []) := by simp
    rw [hdec]
    generalize hsdv : decide (ps ≠ []) = sd
    have hrest : sd = false → msSerialize ps = [] := by
      intro h; subst hsdv
      cases ps with
      | nil => rfl
      | cons => simp at h
    have hpos := serialize_length_pos sd p
    have hbuf : Done ++ M ++ (serialize sd p ++ msSerialize ps) = Done ++ M ++ serialize sd p ++ msSerialize ps := by
      simp only [List.append_assoc]
    rw [hbuf]
    rw [if_neg (by simp only [List.length_append]; omega)]
    have hdrop : (Done ++ M ++ serialize sd p ++ msSerialize ps).drop (Done.length + M.length) = serialize sd p ++ msSerialize ps := by
      have : Done ++ M ++ serialize sd p ++ msSerialize ps = (Done ++ M) ++ (serialize sd p ++ msSerialize ps) := by simp
      rw [this, ← List.length_append, List.drop_left]
    rw [hdrop, parse_complete sd p hvp (msSerialize ps) hrest]
    simp only []
    have hpo : (view sd p).packetOffset = (serialize sd p).length := rfl
    rw [hpo]
    obtain ⟨X, hX, hstream⟩ := unpadStreamInPlace_spec sd p hvp Done M (msSerialize ps)
      (((Done ++ M ++ serialize sd p ++ msSerialize ps).length : Int) - ((Done.length + M.length : Nat) : Int))
      (by simp only [List.length_append]; push_cast; omega)
    rw [hstream]
    simp only []
    obtain ⟨Y, hY, hloop⟩ := ih (fun q hq => hv q (by simp [hq])) (Done ++ serialize sd (canonPacket p.toc p.frames)) X
    have hsrc : Done.length + M.length + (serialize sd p).length =
        (Done ++ serialize sd (canonPacket p.toc p.frames)).length + X.length := by simp only [List.length_append]; omega
    have hdst : Done.length + (serialize sd (canonPacket p.toc p.frames)).length =
        (Done ++ serialize sd (canonPacket p.toc p.frames)).length := by simp
    rw [hsrc, hdst, hloop]
    have hsd2 : decide (ps.map (fun p => canonPacket p.toc p.frames) ≠ []) = sd := by
      rw [← hsdv]; simp
    refine ⟨Y, ?_, ?_⟩
    · rw [List.map_cons, msSerialize_cons, hsd2]
      simp only [List.length_append] at hY ⊢
      omega
    · rw [List.map_cons, msSerialize_cons, hsd2]
      simp only [List.length_append, List.append_assoc, Nat.add_assoc]

/-- `opus_multistream_packet_unpad` in place = the pure `msUnpad`. -/
theorem msUnpadInPlace_eq (ps : List Packet) (hne : ps ≠ []) (hv : ∀ p ∈ ps, Valid p) :
    ∃ out X, msUnpad (msSerialize ps) ps.length = .ok out ∧
      msUnpadInPlace (msSerialize ps) ps.length = .ok (out ++ X, out.length) ∧
      (out ++ X).length = (msSerialize ps).length := by
  obtain ⟨X, hX, h⟩ := msUnpadLoopInPlace_spec ps hv [] []
  simp only [List.nil_append, List.length_nil, Nat.zero_add, Nat.add_zero] at h hX
  have hpos : 1 ≤ (msSerialize ps).length := by
    cases ps with
    | nil => exact absurd rfl hne
    | cons p qs =>
      rw [msSerialize_cons]
      have := serialize_length_pos (decide (qs ≠ [])) p
      rw [List.length_append]; omega
  refine ⟨_, X, msUnpad_serialize ps hne hv, ?_, hX⟩
  unfold msUnpadInPlace
  rw [if_neg (by omega)]
  simp only [Int.toNat_natCast]
  exact h

end Opus.RepackProofs
