import OpusProofs.ExtRepIter3
/-
  C16 helper lemmas, part 15: runs of plain extensions (the repeated prefix `pre` with the repeat-region
  bookkeeping, the rest `post`), and the list facts about `repCount`, `lastLongPos`, the region.
-/
set_option linter.unusedVariables false
namespace Opus.ExtProofs
open Opus Opus.Ext

/-- `last_long` (as an offset) after the extensions `as` were read from offset `q`. -/
def regLL : Nat → Option Nat → List Ext → Option Nat
  | _, ll, [] => ll
  | q, ll, e :: l => regLL (q + (extBytes e false).length) (if e.id < 32 then ll else some (q + (extBytes e false).length)) l

/-- `trailing_short_len` after the extensions `as`. -/
def regT : Int → List Ext → Int
  | T, [] => T
  | T, e :: l => regT (if e.id < 32 then T + e.len else 0) l

/-- A run of extensions of the current frame (no separators, none of them the last one overall). -/
theorem src_steps {d : Array Nat} {nbF f p0 : Nat} {rest : List Nat} :
    ∀ (as : List Ext) (q : Nat) (ll : Option Nat) (T : Int) (it : Iter),
    St d nbF q f it → Reg it p0 ll T → (∀ a ∈ as, ValidExt nbF a ∧ a.frame.toNat = f) →
    At d q (srcBytes as ++ rest) → q + (srcBytes as).length + rest.length = d.size →
    ∃ it', Steps d it it' (as.map normExt) ∧ St d nbF (q + (srcBytes as).length) f it' ∧
      Reg it' p0 (regLL q ll as) (regT T as) := by
  intro as
  induction as with
  | nil => intro q ll T it hs hr _ _ _; exact ⟨it, Steps.refl d it, by simpa [srcBytes] using hs, hr⟩
  | cons a as ih =>
    intro q ll T it hs hr hv hat hend
    obtain ⟨hva, haf⟩ := hv a (List.mem_cons_self ..)
    rw [srcBytes_cons] at hat hend
    simp only [List.append_assoc, List.length_append] at hat hend
    have hsep : sepBytes a.frame.toNat f = [] := by simp [sepBytes, haf]
    obtain ⟨it1, hs1, hst1, hr1⟩ := plain_step (flag := false) (rest := srcBytes as ++ rest) hs hr hva (by omega)
      (by rw [hsep]; simpa using hat) (by rw [hsep]; simp only [List.nil_append, List.length_append]; omega) (by intro h; cases h)
    rw [hsep] at hst1 hr1
    simp only [List.length_nil, Nat.add_zero, haf, if_true] at hst1 hr1
    obtain ⟨it2, hs2, hst2, hr2⟩ := ih _ _ _ it1 hst1 hr1 (fun x hx => hv x (List.mem_cons_of_mem _ hx)) (hat.append).2 (by omega)
    refine ⟨it2, ?_, ?_, ?_⟩
    · have := hs1.trans hs2; simpa using this
    · rw [srcBytes_cons]; simp only [List.length_append]
      have e : q + ((extBytes a false).length + (srcBytes as).length) = q + (extBytes a false).length + (srcBytes as).length := by omega
      rw [e]; exact hst2
    · simp only [regLL, regT]; exact hr2

/-- A run of plain extensions, frames non-decreasing; the `n`-th extension overall ends the buffer. -/
theorem plain_list {d : Array Nat} {nbF n : Nat} {rest : List Nat} :
    ∀ (l : List Ext) (cur w p : Nat) (it : Iter),
    St d nbF p cur it → (∀ e ∈ l, ValidExt nbF e) → FrameSorted cur l →
    w + l.length ≤ n → (w + l.length = n → rest = []) →
    At d p (serW n cur w l ++ rest) → p + (serW n cur w l).length + rest.length = d.size →
    ∃ it', Steps d it it' (l.map normExt) ∧ St d nbF (p + (serW n cur w l).length) (lastFrame cur l) it' := by
  intro l
  induction l with
  | nil => intro cur w p it hs _ _ _ _ _ _; exact ⟨it, Steps.refl d it, by simpa [serW, lastFrame] using hs⟩
  | cons e l ih =>
    intro cur w p it hs hv hsort hle hlast hat hend
    have hve := hv e (List.mem_cons_self ..)
    simp only [serW, List.append_assoc, List.length_append] at hat hend
    obtain ⟨it1, hs1, hst1, _⟩ := plain_step (p0 := it.repeatData) (ll := it.lastLong) (T := it.tsl)
      (flag := decide ((w : Int) = (n : Int) - 1)) (rest := serW n e.frame.toNat (w + 1) l ++ rest) hs ⟨rfl, rfl, rfl⟩ hve hsort.1
      (by simpa [List.append_assoc] using hat) (by simp only [List.length_append]; omega)
      (by
        intro hfl
        rw [decide_eq_true_eq] at hfl
        cases l with
        | nil => simp only [serW, List.nil_append]; exact hlast (by simp; omega)
        | cons x xs =>
          -- another extension follows, so this one is not the n-th
          exfalso
          simp only [List.length_cons] at hle
          omega)
    obtain ⟨it2, hs2, hst2⟩ := ih _ (w + 1) _ it1 hst1 (fun x hx => hv x (List.mem_cons_of_mem _ hx)) hsort.2
      (by simp only [List.length_cons] at hle; omega) (by intro h; exact hlast (by simp; omega)) ((hat.append).2.append).2 (by omega)
    refine ⟨it2, ?_, ?_⟩
    · have := hs1.trans hs2; simpa using this
    · simp only [serW, List.length_append, lastFrame]
      have e1 : p + ((sepBytes e.frame.toNat cur).length + (extBytes e (decide ((w : Int) = (n : Int) - 1))).length +
          (serW n e.frame.toNat (w + 1) l).length) =
          p + (sepBytes e.frame.toNat cur).length + (extBytes e (decide ((w : Int) = (n : Int) - 1))).length +
          (serW n e.frame.toNat (w + 1) l).length := by omega
      rw [e1]; exact hst2

/-! ### List facts -/

theorem repCount_spec : ∀ (a : List Ext) (later : List (List Ext)),
    repCount a later ≤ a.length ∧
    ∀ r ∈ later, repCount a later ≤ r.length ∧ MatchL (r.take (repCount a later)) (a.take (repCount a later)) := by
  intro a
  induction a with
  | nil => intro later; simp only [repCount, List.length_nil, Nat.le_refl, true_and]; intro r _; exact ⟨Nat.zero_le _, by simpa using MatchL.nil⟩
  | cons e a ih =>
    intro later
    simp only [repCount]
    by_cases hh : headsMatch later e = true
    · simp only [hh, if_true]
      obtain ⟨h1, h2⟩ := ih (later.map List.tail)
      refine ⟨by simp only [List.length_cons]; omega, ?_⟩
      intro r hr
      unfold headsMatch at hh
      rw [List.all_eq_true] at hh
      have hr1 := hh r hr
      cases r with
      | nil => simp at hr1
      | cons x r' =>
        simp only [List.head?_cons] at hr1
        have := h2 r' (by rw [List.mem_map]; exact ⟨x :: r', hr, rfl⟩)
        refine ⟨by simp only [List.length_cons]; omega, ?_⟩
        simp only [List.take_succ_cons]
        exact MatchL.cons hr1 this.2
    · simp only [hh, if_false]
      refine ⟨Nat.zero_le _, fun r _ => ⟨Nat.zero_le _, by simpa using MatchL.nil⟩⟩

theorem MatchL.length_eq {xs as : List Ext} (h : MatchL xs as) : xs.length = as.length := by
  induction h with
  | nil => rfl
  | cons _ _ ih => simp [ih]

theorem extBytes_pos (e : Ext) (flag : Bool) : 0 < (extBytes e flag).length := by simp [extBytes]

theorem regLL_spec : ∀ (pre : List Ext) (q : Nat) (ll : Option Nat),
    regLL q ll pre = match lastLongPos pre with
      | some k => some (q + (srcBytes (pre.take (k + 1))).length)
      | none => ll := by
  intro pre
  induction pre with
  | nil => intro q ll; rfl
  | cons e l ih =>
    intro q ll
    simp only [regLL, lastLongPos]
    rw [ih]
    cases hl : lastLongPos l with
    | some k =>
      simp only [List.take_succ_cons, srcBytes_cons, List.length_append]
      congr 1; omega
    | none =>
      simp only
      by_cases h32 : e.id < 32
      · have : ¬ (32 ≤ e.id) := by omega
        simp [h32, this]
      · have : 32 ≤ e.id := by omega
        simp [h32, this, srcBytes]

theorem lastLongPos_lt : ∀ (pre : List Ext) (k : Nat), lastLongPos pre = some k →
    k < pre.length ∧ (∃ a : Ext, pre[k]? = some a ∧ 32 ≤ a.id) ∧ ∀ (j : Nat) (a : Ext), k < j → pre[j]? = some a → a.id < 32 := by
  intro pre
  induction pre with
  | nil => intro k h; simp [lastLongPos] at h
  | cons e l ih =>
    intro k h
    simp only [lastLongPos] at h
    cases hl : lastLongPos l with
    | some k' =>
      rw [hl] at h; simp only [Option.some.injEq] at h; subst h
      obtain ⟨h1, ⟨a, h2, h3⟩, h4⟩ := ih k' hl
      refine ⟨by simp; omega, ⟨a, by simpa using h2, h3⟩, ?_⟩
      intro j a' hj ha'
      cases j with
      | zero => omega
      | succ j' => exact h4 j' a' (by omega) (by simpa using ha')
    | none =>
      rw [hl] at h
      by_cases h32 : 32 ≤ e.id
      · simp only [h32, if_true, Option.some.injEq] at h; subst h
        refine ⟨by simp, ⟨e, by simp, h32⟩, ?_⟩
        intro j a' hj ha'
        cases j with
        | zero => omega
        | succ j' =>
          have ha'' : l[j']? = some a' := by simpa using ha'
          -- no long extension in `l`
          have hno : ∀ (l : List Ext), lastLongPos l = none → ∀ (j : Nat) (a : Ext), l[j]? = some a → a.id < 32 := by
            intro l
            induction l with
            | nil => intro _ j a h; simp at h
            | cons x xs ihx =>
              intro hn j a hj
              simp only [lastLongPos] at hn
              cases hx : lastLongPos xs with
              | some _ => rw [hx] at hn; simp at hn
              | none =>
                rw [hx] at hn
                by_cases hx32 : 32 ≤ x.id
                · simp [hx32] at hn
                · cases j with
                  | zero => simp at hj; subst hj; omega
                  | succ j'' => exact ihx hx j'' a (by simpa using hj)
          exact hno l hl j' a' ha''
      · simp [h32] at h

theorem lastLongPos_none : ∀ (l : List Ext), lastLongPos l = none → ∀ a ∈ l, a.id < 32 := by
  intro l
  induction l with
  | nil => intro _ a h; simp at h
  | cons x xs ih =>
    intro hn a ha
    simp only [lastLongPos] at hn
    cases hx : lastLongPos xs with
    | some _ => rw [hx] at hn; simp at hn
    | none =>
      rw [hx] at hn
      by_cases hx32 : 32 ≤ x.id
      · simp [hx32] at hn
      · rcases List.mem_cons.mp ha with rfl | h
        · omega
        · exact ih hx a h

theorem srcBytes_take_mono (pre : List Ext) {i j : Nat} (hij : i < j) (hj : j ≤ pre.length) :
    (srcBytes (pre.take i)).length < (srcBytes (pre.take j)).length := by
  induction pre generalizing i j with
  | nil => simp at hj; omega
  | cons e l ih =>
    cases j with
    | zero => omega
    | succ j' =>
      cases i with
      | zero =>
        simp only [List.take_zero, srcBytes, List.flatMap_nil, List.length_nil, List.take_succ_cons, List.flatMap_cons,
          List.length_append]
        have := extBytes_pos e false; omega
      | succ i' =>
        simp only [List.take_succ_cons, srcBytes_cons, List.length_append]
        have := ih (i := i') (j := j') (by omega) (by simpa using hj)
        omega

/-- Closed form of `ZOk` for the region `pre` read from `p0`: the iterator's `last_long` is the end of the last long extension. -/
theorem ZOk_region {L g nbF : Nat} {z : Option Nat} (p0 : Nat) (pre : List Ext)
    (hz : z = none ∨ (L = 0 ∧ g + 1 ≥ nbF ∧ z = lastLongPos pre)) (hL : z = none → ¬ (L = 0 ∧ g + 1 ≥ nbF) ∨ lastLongPos pre = none) :
    ∀ (as : List Ext) (k : Nat), pre.drop k = as →
    ZOk L g nbF (regLL p0 none pre) z k (p0 + (srcBytes (pre.take k)).length) as := by
  intro as
  induction as with
  | nil => intro _ _; trivial
  | cons a as ih =>
    intro k hk
    have hklt : k < pre.length := by
      apply Decidable.byContradiction; intro hc
      rw [List.drop_eq_nil_of_le (by omega)] at hk; cases hk
    have hak : pre[k]? = some a := by
      have := congrArg List.head? hk
      simpa [List.head?_drop] using this
    have htk : pre.take (k + 1) = pre.take k ++ [a] := by
      rw [List.take_add_one, hak]; rfl
    have hoff : p0 + (srcBytes (pre.take k)).length + (extBytes a false).length = p0 + (srcBytes (pre.take (k + 1))).length := by
      rw [htk]; simp [srcBytes]; omega
    refine ⟨?_, ?_, ?_⟩
    · rw [hoff, regLL_spec]
      constructor
      · rintro ⟨h1, h2, h3⟩
        rcases hz with hz | ⟨_, _, hz⟩
        · rcases hL hz with h | h
          · exact absurd ⟨h1, h2⟩ h
          · rw [h] at h3; cases h3
        · rw [hz]
          cases hl : lastLongPos pre with
          | none => rw [hl] at h3; cases h3
          | some kk =>
            rw [hl] at h3
            simp only [Option.some.injEq] at h3
            congr 1
            apply Decidable.byContradiction; intro hne
            have hkk := (lastLongPos_lt pre kk hl).1
            rcases Nat.lt_or_gt_of_ne hne with h | h
            · have := srcBytes_take_mono pre (i := kk + 1) (j := k + 1) (by omega) (by omega); omega
            · have := srcBytes_take_mono pre (i := k + 1) (j := kk + 1) (by omega) (by omega); omega
      · intro hzk
        rcases hz with hz | ⟨h1, h2, hz⟩
        · rw [hz] at hzk; cases hzk
        · rw [hz] at hzk; rw [hzk]; exact ⟨h1, h2, rfl⟩
    · intro hzk
      rcases hz with hz | ⟨_, _, hz⟩
      · rw [hz] at hzk; cases hzk
      · rw [hz] at hzk
        obtain ⟨_, ⟨a', ha', h32⟩, _⟩ := lastLongPos_lt pre k hzk
        rw [hak] at ha'; cases ha'; exact h32
    · rw [hoff]
      apply ih
      rw [← List.drop_drop, hk]; rfl

/-- `trailing_short_len` after a run of short extensions. -/
theorem regT_shorts : ∀ (as : List Ext) (T : Int), (∀ a ∈ as, a.id < 32) → regT T as = T + (as.map (fun a => a.len)).sum := by
  intro as
  induction as with
  | nil => intro T _; simp [regT]
  | cons a as ih =>
    intro T h
    have ha := h a (List.mem_cons_self ..)
    simp only [regT, ha, if_true]
    rw [ih _ (fun x hx => h x (List.mem_cons_of_mem _ hx))]
    simp; omega

theorem regT_after_long : ∀ (pre : List Ext) (T : Int) (k : Nat), lastLongPos pre = some k →
    regT T pre = ((pre.drop (k + 1)).map (fun a => a.len)).sum := by
  intro pre
  induction pre with
  | nil => intro T k h; simp [lastLongPos] at h
  | cons e l ih =>
    intro T k h
    simp only [lastLongPos] at h
    cases hl : lastLongPos l with
    | some k' =>
      rw [hl] at h; simp only [Option.some.injEq] at h; subst h
      simp only [regT, List.drop_succ_cons]
      exact ih _ k' hl
    | none =>
      rw [hl] at h
      by_cases h32 : 32 ≤ e.id
      · simp only [h32, if_true, Option.some.injEq] at h; subst h
        have hn : ¬ e.id < 32 := by omega
        simp only [regT, hn, if_false, List.drop_succ_cons, List.drop_zero]
        rw [regT_shorts l 0 (lastLongPos_none l hl)]; simp
      · simp [h32] at h

/-- Payload bytes of matching short extensions. -/
theorem repPayloads_shorts {nbF : Nat} (z : Option Nat) : ∀ (xs as : List Ext) (k : Nat), MatchL xs as →
    (∀ a ∈ as, a.id < 32) → (∀ x ∈ xs, ValidExt nbF x) →
    ((repPayloads z k xs).length : Int) = (as.map (fun a => a.len)).sum := by
  intro xs as k hm
  induction hm generalizing k with
  | nil => intro _ _; simp [repPayloads]
  | @cons x a xs as hxa _ ih =>
    intro ha hv
    obtain ⟨hid, hlen⟩ := matchB_iff.mp hxa
    have ha1 := ha a (List.mem_cons_self ..)
    have hvx := hv x (List.mem_cons_self ..)
    have hxs : x.id < 32 := by omega
    have hpl := payload_length hvx
    have : (extBytes x (decide (z = some k))).tail = payload x := by
      show (if x.id < 32 ∨ decide (z = some k) = true then ([] : List Nat) else lenBytes x.len.toNat) ++ payload x = payload x
      simp [hxs]
    simp only [repPayloads, List.length_append, this, List.map_cons, List.sum_cons]
    have := ih (k + 1) (fun y hy => ha y (List.mem_cons_of_mem _ hy)) (fun y hy => hv y (List.mem_cons_of_mem _ hy))
    rw [← hlen hxs]
    push_cast
    omega

end Opus.ExtProofs
