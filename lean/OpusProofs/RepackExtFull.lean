import OpusProofs.RepackExtRound
import OpusProofs.ExtRepFinal
/-
  C07 helper lemmas, part 18: extension carriage through the generator's repeat mechanism, built on
  C16's `generate_parse_full` (no `NoRepeat` hypothesis).
-/
namespace Opus.RepackProofs
open Opus Opus.Framing Opus.FramingSpec Opus.FramingProofs Opus.Repack Opus.Ext Opus.ExtProofs

/-- The bytes `opus_packet_extensions_generate` writes for `all` (repeat mechanism included). -/
def fullSer (all : Array Ext) (nbF : Nat) : Bytes := serAll all.size (queues all nbF) 0 0

theorem genBytes_full (all : Array Ext) (nbF : Nat) (hnf : nbF ≤ 48) (hv : AllValid all nbF) (hpos : 0 < all.size) :
    GenBytes all nbF (fullSer all nbF) := by
  refine ⟨allValid_extsOk hv, fun len hfit => (generate_parse_full all nbF hnf hv len hfit all.size (Int.le_refl _)).1, ?_⟩
  obtain ⟨_, refs, hparse, hlen, _⟩ := generate_parse_full all nbF hnf hv (fullSer all nbF).length (Int.le_refl _) all.size (Int.le_refl _)
  apply Decidable.byContradiction
  intro h0
  have hnil : fullSer all nbF = [] := List.length_eq_zero_iff.mp (by omega)
  have hp : parse (fullSer all nbF) (fullSer all nbF).length all.size nbF = .ok refs := hparse
  rw [hnil] at hp
  rcases count_zero_parse [] (([] : Bytes).length) nbF (count_nil nbF hnf) all.size with h | h
  · rw [h] at hp; cases hp; simp at hlen; omega
  · rw [h] at hp; cases hp

/-- Without the `pad` flag (`opus_repacketizer_out`, `out_range`, unpad) the padding of the emitted
    packet is exactly what the generator wrote, and it reads back frame by frame. -/
theorem outRangeImpl_ext_full (rp : Rp) (hinv : Inv rp) (hp : PadsOk rp.pads) (b e : Nat) (hb : b < e) (he : e ≤ rp.nbFrames)
    (exts : Array Ext) (hvx : AllValid exts (e - b))
    (hpos : 0 < (exts ++ (gathered (rp.pads.take e) 0 b e).toArray).size)
    (maxlen : Int) (sd : Bool) (bs : Bytes) (h : outRangeImpl rp b e maxlen sd false exts = .ok bs) :
    ∃ (p : Packet), Valid p ∧ bs = serialize sd p ∧ p.frames = selFrames rp b e ∧ p.toc / 4 = rp.toc / 4 ∧
      (bs.length : Int) ≤ maxlen ∧
      ∀ cap : Int, ((exts ++ (gathered (rp.pads.take e) 0 b e).toArray).size : Int) ≤ cap →
        ∃ refs, parse (padBytes p) (padBytes p).length cap ((e - b : Nat) : Int) = .ok refs ∧
          refs.length = (exts ++ (gathered (rp.pads.take e) 0 b e).toArray).size ∧
          ∀ g, (refs.filter (fun r => r.frame = g)).map (ExtRef.toExt (padBytes p)) =
            (allOf (exts ++ (gathered (rp.pads.take e) 0 b e).toArray) g).map normExt := by
  have hv := all_valid rp hp b e exts hvx
  have hn48 : e - b ≤ 48 := by have := hinv.nb_le; omega
  obtain ⟨p, k, h1, h2, h3, h4, h5, h6, h7, _⟩ := outRangeImpl_ext_gen rp hinv hp b e hb he exts hpos _
    (genBytes_full _ _ hn48 hv hpos) maxlen sd false bs h
  rw [h6 rfl] at h5
  simp only [List.replicate_zero, List.nil_append] at h5
  refine ⟨p, h1, h2, h3, h4, h7, ?_⟩
  intro cap hcap
  obtain ⟨_, refs, g1, g2, _, g4⟩ := generate_parse_full _ (e - b) hn48 hv (fullSer _ (e - b)).length (Int.le_refl _) cap hcap
  rw [h5]
  exact ⟨refs, g1, g2, g4⟩

/-- With or without the `pad` flag: the padding is `0x01 … 0x01` followed by what the generator wrote,
    and it reads back frame by frame (C16 `parse_padded_full`). -/
theorem outRangeImpl_ext_full_pad (rp : Rp) (hinv : Inv rp) (hp : PadsOk rp.pads) (b e : Nat) (hb : b < e) (he : e ≤ rp.nbFrames)
    (exts : Array Ext) (hvx : AllValid exts (e - b))
    (hpos : 0 < (exts ++ (gathered (rp.pads.take e) 0 b e).toArray).size)
    (maxlen : Int) (sd pad : Bool) (bs : Bytes) (h : outRangeImpl rp b e maxlen sd pad exts = .ok bs) :
    ∃ (p : Packet), Valid p ∧ bs = serialize sd p ∧ p.frames = selFrames rp b e ∧ p.toc / 4 = rp.toc / 4 ∧
      (bs.length : Int) ≤ maxlen ∧ (pad = true → (bs.length : Int) = maxlen) ∧
      ∀ cap : Int, ((exts ++ (gathered (rp.pads.take e) 0 b e).toArray).size : Int) ≤ cap →
        ∃ refs, parse (padBytes p) (padBytes p).length cap ((e - b : Nat) : Int) = .ok refs ∧
          refs.length = (exts ++ (gathered (rp.pads.take e) 0 b e).toArray).size ∧
          ∀ g, (refs.filter (fun r => r.frame = g)).map (ExtRef.toExt (padBytes p)) =
            (allOf (exts ++ (gathered (rp.pads.take e) 0 b e).toArray) g).map normExt := by
  have hv := all_valid rp hp b e exts hvx
  have hn48 : e - b ≤ 48 := by have := hinv.nb_le; omega
  obtain ⟨p, k, h1, h2, h3, h4, h5, _, h7, h8⟩ := outRangeImpl_ext_gen rp hinv hp b e hb he exts hpos _
    (genBytes_full _ _ hn48 hv hpos) maxlen sd pad bs h
  refine ⟨p, h1, h2, h3, h4, h7, h8, ?_⟩
  intro cap hcap
  obtain ⟨refs, g1, g2, _, g4⟩ := parse_padded_full _ (e - b) hn48 (Nat.sub_pos_of_lt hb) hv k cap hcap
  rw [h5]
  exact ⟨refs, g1, g2, g4⟩

end Opus.RepackProofs
