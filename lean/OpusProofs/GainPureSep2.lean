import OpusProofs.GainPureSep
/-
  OpusProofs.GainPureSep2 — the watermark invariant through the concealment layers, `opus_decode_frame`, the frame / PLC
  loops and `opus_decode_native` (continuation of OpusProofs/GainPureSep.lean).
-/
namespace Opus.DecSkel

theorem FP.mono {w : Int} {p : Ptr} {n n' : Int} {r : Run} {res : Res'} (h : FP w p n r res) (hn : n ≤ n') : FP w p n' r res :=
  ⟨h.cfg, fun ret a b => Int.le_trans (h.le ret a b) hn, h.wm⟩

theorem FP.toPres {w : Int} {p : Ptr} {n : Int} {r : Run} {res : Res'} (h : FP w p n r res) (hg : r.st.decode_gain = 0) :
    Pres w r res.2 :=
  ⟨h.cfg, fun hw => by obtain ⟨w', _, b, c, _⟩ := h.wm hw; rw [c hg] at b; exact b⟩

/-- what the concealment layers need from the layer below -/
def InnerFP (i : Ptr → Int → Run → Res') : Prop :=
  ∀ (w : Int) (p : Ptr) (n : Int) (r : Run), Above w p → (p.buf = .pcm ∨ r.st.decode_gain = 0) → 0 ≤ r.st.channels →
    FP w p n r (i p n r)

theorem InnerFP.trans {i : Ptr → Int → Run → Res'} (h : InnerFP i) : TransOK i :=
  fun w p n r hp hg hc => (h w p n r (Above.scratch hp) (Or.inr hg) hc).toPres hg

theorem abortStub_TransOK : TransOK (fun _ _ r => (Out.abort, r)) := fun w _ _ r _ _ _ => Pres.refl w r
theorem abortStub_InnerFP : InnerFP (fun _ _ r => (Out.abort, r)) :=
  fun w _ _ r _ _ _ => FP.ofPres (Pres.refl w r) (fun _ h => by cases h)

/-- Postcondition of a loop of frames that fills `[pcm, B)`. -/
structure PL (w B : Int) (r : Run) (res : Res') : Prop where
  cfg : Cfg r res.2
  wm : WM w r.log → ∃ w', w ≤ w' ∧ WM w' res.2.log ∧ (r.st.decode_gain = 0 → w' = w) ∧
        ((∃ ret, res.1 = .ret ret ∧ 0 ≤ ret) → w' ≤ max w B)

theorem PL.ofPres {w B : Int} {r : Run} {res : Res'} (h : Pres w r res.2) : PL w B r res :=
  ⟨h.1, fun hw => ⟨w, Int.le_refl _, h.2 hw, fun _ => rfl, fun _ => Int.le_max_left _ _⟩⟩

theorem PL.ofFP {w B : Int} {p : Ptr} {n : Int} {r : Run} {res res' : Res'} (hf : FP w p n r res) (h2 : res'.2 = res.2)
    (hb : ∀ ret', res'.1 = .ret ret' → 0 ≤ ret' → ∃ ret, res.1 = .ret ret ∧ 0 ≤ ret ∧ max w (p.off + ret * r.st.channels) ≤ max w B) :
    PL w B r res' := by
  refine ⟨by rw [h2]; exact hf.cfg, fun hw => ?_⟩
  obtain ⟨w', a, b, c, d⟩ := hf.wm hw
  refine ⟨w', a, by rw [h2]; exact b, c, fun ⟨ret', e1, e2⟩ => ?_⟩
  obtain ⟨ret, f1, f2, f3⟩ := hb ret' e1 e2
  exact Int.le_trans (d ret f1 f2) f3

theorem plcLoop_PL {i1 : Ptr → Int → Run → Res'} (hi : InnerFP i1) (f20 ch frame_size : Int) :
    ∀ (n : Nat) (w audiosize : Int) (pcm : Ptr) (r : Run), audiosize.toNat ≤ n → Above w pcm →
      (pcm.buf = .pcm ∨ r.st.decode_gain = 0) → 0 ≤ r.st.channels → ch = r.st.channels →
      PL w (pcm.off + audiosize * ch) r (plcLoop i1 f20 ch frame_size audiosize pcm r) ∧
      ∀ ret, (plcLoop i1 f20 ch frame_size audiosize pcm r).1 = .ret ret → 0 ≤ ret → ret = frame_size := by
  intro n
  induction n with
  | zero =>
    intro w audiosize pcm r hn hp hg hc hch
    have hf := hi w pcm (min audiosize f20) r hp hg hc
    rw [plcLoop]
    rcases hx : i1 pcm (min audiosize f20) r with ⟨out, r1⟩
    rw [hx] at hf
    cases out with
    | ret ret =>
      dsimp only
      by_cases c1 : ret < 0
      · simp only [if_pos c1]
        exact ⟨PL.ofFP hf rfl (fun ret' h h0 => by cases h; omega), fun ret' h h0 => by cases h; omega⟩
      · simp only [if_neg c1]
        by_cases c2 : ret = 0
        · simp only [dif_pos c2]
          exact ⟨PL.ofFP hf rfl (fun ret' h _ => by cases h), fun ret' h _ => by cases h⟩
        · simp only [dif_neg c2]
          have hle := hf.le ret rfl (by omega)
          have : ¬ audiosize - ret > 0 := by omega
          simp only [dif_neg this]
          omega
    | abort => exact ⟨PL.ofFP hf rfl (fun ret' h _ => by cases h), fun _ h => by cases h⟩
    | hang => exact ⟨PL.ofFP hf rfl (fun ret' h _ => by cases h), fun _ h => by cases h⟩
  | succ n ih =>
    intro w audiosize pcm r hn hp hg hc hch
    have hf := hi w pcm (min audiosize f20) r hp hg hc
    rw [plcLoop]
    rcases hx : i1 pcm (min audiosize f20) r with ⟨out, r1⟩
    rw [hx] at hf
    cases out with
    | ret ret =>
      dsimp only
      by_cases c1 : ret < 0
      · simp only [if_pos c1]
        exact ⟨PL.ofFP hf rfl (fun ret' h h0 => by cases h; omega), fun ret' h h0 => by cases h; omega⟩
      · simp only [if_neg c1]
        by_cases c2 : ret = 0
        · simp only [dif_pos c2]
          exact ⟨PL.ofFP hf rfl (fun ret' h _ => by cases h), fun ret' h _ => by cases h⟩
        · simp only [dif_neg c2]
          have hle := hf.le ret rfl (by omega)
          have hmul : ret * r.st.channels ≤ audiosize * r.st.channels := Int.mul_le_mul_of_nonneg_right (by omega) hc
          have hmul0 : 0 ≤ ret * r.st.channels := Int.mul_nonneg (by omega) hc
          by_cases c3 : audiosize - ret > 0
          · simp only [dif_pos c3]
            have hcfg : Cfg r r1 := hf.cfg
            -- the recursive call, at the watermark the chunk left
            refine ⟨⟨?_, fun hw => ?_⟩, ?_⟩
            · have hw0 : Above w (pcm.add (ret * ch)) := hp.add (by rw [hch]; exact hmul0)
              exact hcfg.trans (ih w (audiosize - ret) (pcm.add (ret * ch)) r1 (by omega) hw0
                (by rcases hg with h | h; exact Or.inl h; exact Or.inr (hcfg.g.trans h)) (by rw [hcfg.ch]; exact hc)
                (by rw [hcfg.ch]; exact hch)).1.cfg
            · obtain ⟨w1, a1, b1, c1', d1⟩ := hf.wm hw
              have d1' := d1 ret rfl (by omega)
              have hab : Above w1 (pcm.add (ret * ch)) := by
                intro hb
                have := hp hb
                show w1 ≤ pcm.off + ret * ch
                rw [hch]; omega
              obtain ⟨⟨_, hwm⟩, _⟩ := ih w1 (audiosize - ret) (pcm.add (ret * ch)) r1 (by omega) hab
                (by rcases hg with h | h; exact Or.inl h; exact Or.inr (hcfg.g.trans h)) (by rw [hcfg.ch]; exact hc)
                (by rw [hcfg.ch]; exact hch)
              obtain ⟨w2, a2, b2, c2', d2⟩ := hwm b1
              refine ⟨w2, by omega, b2, fun h0 => by rw [c2' (hcfg.g.trans h0), c1' h0], fun hex => ?_⟩
              have d2' := d2 hex
              have e1 : (pcm.add (ret * ch)).off = pcm.off + ret * ch := rfl
              have e2 : (audiosize - ret) * ch = audiosize * ch - ret * ch := Int.sub_mul _ _ _
              rw [e1, e2] at d2'
              rw [hch] at d2' ⊢
              omega
            · have hw0 : Above w (pcm.add (ret * ch)) := hp.add (by rw [hch]; exact hmul0)
              exact (ih w (audiosize - ret) (pcm.add (ret * ch)) r1 (by omega) hw0
                (by rcases hg with h | h; exact Or.inl h; exact Or.inr (hcfg.g.trans h)) (by rw [hcfg.ch]; exact hc)
                (by rw [hcfg.ch]; exact hch)).2
          · simp only [dif_neg c3]
            refine ⟨PL.ofFP hf rfl (fun ret' h h0 => ⟨ret, rfl, by omega, ?_⟩), fun ret' h _ => by cases h; rfl⟩
            rw [hch]; omega
    | abort => exact ⟨PL.ofFP hf rfl (fun ret' h _ => by cases h), fun _ h => by cases h⟩
    | hang => exact ⟨PL.ofFP hf rfl (fun ret' h _ => by cases h), fun _ h => by cases h⟩

theorem nullAfterClamp_FP (o : Oracle) {i1 : Ptr → Int → Run → Res'} (hi : InnerFP i1) (w len : Int) (pcm : Ptr)
    (frame_size : Int) (r : Run) (hp : Above w pcm) (hg : pcm.buf = .pcm ∨ r.st.decode_gain = 0) (hc : 0 ≤ r.st.channels) :
    FP w pcm frame_size r (nullAfterClamp o i1 len pcm frame_size r) := by
  unfold nullAfterClamp
  dsimp only
  generalize (if r.st.prev_redundancy ≠ 0 then MODE_CELT else r.st.prev_mode) = mode
  by_cases c0 : mode = 0
  · rw [if_pos c0]
    exact FP.ofPres (Pres.push _ rfl (aboveEv_acc hp 12 _)) (fun ret h _ => by cases h; exact Int.le_refl _)
  · rw [if_neg c0]
    by_cases c1 : frame_size > F20 r.st
    · rw [if_pos c1]
      obtain ⟨h1, h2⟩ := plcLoop_PL hi (F20 r.st) r.st.channels frame_size _ w frame_size pcm r (Nat.le_refl _) hp hg hc rfl
      refine ⟨h1.cfg, fun ret e e0 => by rw [h2 ret e e0]; exact Int.le_refl _, fun hw => ?_⟩
      obtain ⟨w', a, b, c, d⟩ := h1.wm hw
      refine ⟨w', a, b, c, fun ret e e0 => ?_⟩
      have := d ⟨ret, e, e0⟩
      rw [h2 ret e e0]; exact this
    · rw [if_neg c1]
      exact frameBody_FP o abortStub_TransOK
        { data := none, len := len, pcm := pcm, frame_size := frame_size,
          audiosize := if frame_size < F20 r.st then
              if frame_size > F10 r.st then F10 r.st
              else if mode ≠ MODE_SILK ∧ frame_size > F5 r.st ∧ frame_size < F10 r.st then F5 r.st else frame_size
            else frame_size,
          mode := mode, bandwidth := 0, fec := 0 } r hp hg hc (fun h => by cases h)

theorem nullFrameGen_FP (o : Oracle) {i1 : Ptr → Int → Run → Res'} (hi : InnerFP i1) : InnerFP (nullFrameGen o i1) := by
  intro w pcm n r hp hg hc
  unfold nullFrameGen
  dsimp only
  split
  · exact FP.ofPres (Pres.refl w r) (fun ret h h0 => by cases h; exact absurd h0 (by decide))
  · exact (nullAfterClamp_FP o hi w 0 pcm _ r hp hg hc).mono (by omega)

theorem nullFrameLeaf_FP (o : Oracle) : InnerFP (nullFrameLeaf o) := nullFrameGen_FP o abortStub_InnerFP
theorem nullFrame_FP (o : Oracle) : InnerFP (nullFrame o) := nullFrameGen_FP o (nullFrameLeaf_FP o)

/-- **One `opus_decode_frame` call.**  `hJ`: the frame size stored from the TOC is at least 2.5 ms. -/
theorem decodeFrame_FP (o : Oracle) (w : Int) (data : Option Int) (len : Int) (pcm : Ptr) (frame_size fec : Int) (r : Run)
    (hp : Above w pcm) (hg : pcm.buf = .pcm ∨ r.st.decode_gain = 0) (hc : 0 ≤ r.st.channels)
    (hJ : F2_5 r.st ≤ r.st.frame_size) :
    FP w pcm frame_size r (decodeFrame o data len pcm frame_size fec r) := by
  unfold decodeFrame
  dsimp only
  by_cases c0 : frame_size < F2_5 r.st
  · rw [if_pos c0]
    exact FP.ofPres (Pres.refl w r) (fun ret h h0 => by cases h; exact absurd h0 (by decide))
  · rw [if_neg c0]
    by_cases c1 : len ≤ 1 ∨ data.isNone = true
    · rw [if_pos c1]
      exact (nullAfterClamp_FP o (nullFrameLeaf_FP o) w len pcm _ r hp hg hc).mono (by omega)
    · rw [if_neg c1]
      have hpush : Pres w r (r.push (.decInit (data.getD 0) len)) := Pres.push _ rfl (aboveEv_none rfl)
      refine FP.step hpush ?_
      exact (frameBody_FP o (nullFrame_FP o).trans
        { data := data, len := len, pcm := pcm, frame_size := min frame_size (r.st.Fs / 25 * 3),
          audiosize := r.st.frame_size, mode := r.st.mode, bandwidth := r.st.bandwidth, fec := fec }
        (r.push (.decInit (data.getD 0) len)) hp hg hc (fun _ => hJ)).mono (Int.min_le_left _ _)

end Opus.DecSkel
