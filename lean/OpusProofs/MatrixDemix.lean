import OpusProofs.MatrixProduct
import Mathlib.Analysis.SpecialFunctions.Pow.Real
/-
  OpusProofs.MatrixDemix — from the kernel-checked integer tables (`MatrixProduct`) to the statement
  over ℝ: `|P[i][j]·10^(g/5120) − δᵢⱼ·2^30| ≤ 3·10⁻⁴·2^30` with the exact real gain (C10
  `demix_inverts_mix`).  Uses Mathlib's real powers for the statement only.
-/
namespace Opus.Matrix
open Opus

/-- Linear gain of a Q8 dB value: `10^(g/(20·256))`. -/
noncomputable def gainLin (g : Int) : ℝ := (10 : ℝ) ^ ((g : ℝ) / 5120)

theorem gainLin_zero : gainLin 0 = 1 := by simp [gainLin]

theorem gainLin_3050_pow : gainLin 3050 ^ 512 = (10 : ℝ) ^ 305 := by
  unfold gainLin
  rw [← Real.rpow_natCast, ← Real.rpow_mul (by norm_num)]
  have : ((3050 : Int) : ℝ) / 5120 * ((512 : ℕ) : ℝ) = ((305 : ℕ) : ℝ) := by norm_num
  rw [this, Real.rpow_natCast]

theorem gainLin_pos (g : Int) : 0 < gainLin g := Real.rpow_pos_of_pos (by norm_num) _

/-- `a^n ≤ T·b^n` and `G^n = T` give `a/b ≤ G` (and symmetrically). -/
theorem root_lower (a b T G : ℝ) (n : ℕ) (hn : n ≠ 0) (hb : 0 < b) (hG : 0 ≤ G) (hp : G ^ n = T)
    (h : a ^ n ≤ T * b ^ n) : a / b ≤ G := by
  by_contra hlt
  have hlt' : G < a / b := lt_of_not_ge hlt
  have h3 := pow_lt_pow_left₀ hlt' hG hn
  rw [hp, div_pow, lt_div_iff₀ (pow_pos hb n)] at h3
  linarith

theorem root_upper (c b T G : ℝ) (n : ℕ) (hn : n ≠ 0) (hb : 0 < b) (hc : 0 ≤ c) (hp : G ^ n = T)
    (h : T * b ^ n ≤ c ^ n) : G ≤ c / b := by
  by_contra hlt
  have hlt' : c / b < G := lt_of_not_ge hlt
  have h3 := pow_lt_pow_left₀ hlt' (div_nonneg hc hb.le) hn
  rw [hp, div_pow, div_lt_iff₀ (pow_pos hb n)] at h3
  linarith

/-- The rational enclosure used by the integer check really encloses the real gain. -/
theorem gain_enclosed (g : Int) (hg : g = 0 ∨ g = 3050) :
    ((gainLo g).1 : ℝ) / (gainLo g).2 ≤ gainLin g ∧ gainLin g ≤ ((gainHi g).1 : ℝ) / (gainHi g).2 ∧
    0 < (gainLo g).2 ∧ 0 < (gainHi g).2 := by
  rcases hg with h | h <;> subst h
  · simp [gainLo, gainHi, gainLin_zero]
  · have hpos := gainLin_pos 3050
    have hp := gainLin_3050_pow
    obtain ⟨h1, h2⟩ := enclosure_3050
    have h1' : ((39418775 : ℕ) : ℝ) ^ 512 ≤ (10 : ℝ) ^ 305 * ((10000000 : ℕ) : ℝ) ^ 512 := by
      have := (Nat.cast_le (α := ℝ)).mpr h1
      simpa only [Nat.cast_pow, Nat.cast_mul, Nat.cast_ofNat] using this
    have h2' : (10 : ℝ) ^ 305 * ((10000000 : ℕ) : ℝ) ^ 512 ≤ ((39418776 : ℕ) : ℝ) ^ 512 := by
      have := (Nat.cast_le (α := ℝ)).mpr h2
      simpa only [Nat.cast_pow, Nat.cast_mul, Nat.cast_ofNat] using this
    have hb : (0 : ℝ) < ((10000000 : ℕ) : ℝ) := by norm_num
    simp only [gainLo, gainHi, if_true]
    exact ⟨root_lower _ _ _ _ 512 (by norm_num) hb hpos.le hp h1',
           root_upper _ _ _ _ 512 (by norm_num) hb (by norm_num) hp h2', by norm_num, by norm_num⟩

/-- The integer entry test is the real inequality at the rational point `a/b`. -/
theorem entryOk_real (a b : Nat) (hb : 0 < b) (p : Int) (diag : Bool) (h : entryOk a b p diag = true) :
    |(p : ℝ) * ((a : ℝ) / b) - (if diag then (2 : ℝ) ^ 30 else 0)| ≤ 3 / 10000 * (2 : ℝ) ^ 30 := by
  unfold entryOk at h
  simp only [decide_eq_true_eq] at h
  have hbR : (0 : ℝ) < b := by exact_mod_cast hb
  have h' := (Nat.cast_le (α := ℝ)).mpr h
  rw [Nat.cast_mul, Nat.cast_natAbs] at h'
  cases diag
  · simp only [Bool.false_eq_true, if_false, Int.zero_mul, sub_zero] at h' ⊢
    push_cast at h'
    have key : (p : ℝ) * ((a : ℝ) / b) = ((p : ℝ) * a) / b := by ring
    rw [key, abs_div, abs_of_pos hbR, div_le_iff₀ hbR]
    norm_num at h' ⊢
    linarith
  · simp only [if_true] at h' ⊢
    push_cast at h'
    have key : (p : ℝ) * ((a : ℝ) / b) - 2 ^ 30 = ((p : ℝ) * a - 2 ^ 30 * b) / b := by
      field_simp
    rw [key, abs_div, abs_of_pos hbR, div_le_iff₀ hbR]
    norm_num at h' ⊢
    linarith

/-- A function linear in `G` that is within the tolerance at both ends of an interval is within
    the tolerance on the interval. -/
theorem abs_linear_le (p δ lo hi G tol : ℝ) (h1 : lo ≤ G) (h2 : G ≤ hi)
    (hlo : |p * lo - δ| ≤ tol) (hhi : |p * hi - δ| ≤ tol) : |p * G - δ| ≤ tol := by
  rw [abs_le] at hlo hhi ⊢
  rcases le_total 0 p with hp | hp
  · have a1 : p * lo ≤ p * G := mul_le_mul_of_nonneg_left h1 hp
    have a2 : p * G ≤ p * hi := mul_le_mul_of_nonneg_left h2 hp
    constructor <;> linarith [hlo.1, hhi.2]
  · have a1 : p * G ≤ p * lo := mul_le_mul_of_nonpos_left h1 hp
    have a2 : p * hi ≤ p * G := mul_le_mul_of_nonpos_left h2 hp
    constructor <;> linarith [hlo.2, hhi.1]

/-- Every checked `(order, channels)` pair. -/
theorem productOk_all : ∀ oc ∈ [(2, 6), (2, 4), (3, 11), (3, 9), (4, 18), (4, 16), (5, 27), (5, 25), (6, 38), (6, 36)],
    productOk oc.1 oc.2 = true := by
  intro oc h
  simp only [List.mem_cons, List.not_mem_nil, or_false] at h
  rcases h with h | h | h | h | h | h | h | h | h | h <;> subst h
  · exact productOk_foa.1
  · exact productOk_foa.2
  · exact productOk_soa.1
  · exact productOk_soa.2
  · exact productOk_toa.1
  · exact productOk_toa.2
  · exact productOk_fourthoa_nd
  · exact productOk_fourthoa
  · exact productOk_fifthoa_nd
  · exact productOk_fifthoa

/-- D·M is the identity up to the stated gain, to within 3·10⁻⁴, for every built-in order, with and
    without the non-diegetic pair. -/
theorem demix_inverts_mix_real (o ch : Nat)
    (hoc : (o, ch) ∈ [(2, 6), (2, 4), (3, 11), (3, 9), (4, 18), (4, 16), (5, 27), (5, 25), (6, 38), (6, 36)])
    (i j : Nat) (hi : i < ch) (hj : j < ch) :
    |(entry (product o ch) i j : ℝ) * gainLin (demixGain o) - (if i = j then (2 : ℝ) ^ 30 else 0)|
      ≤ 3 / 10000 * (2 : ℝ) ^ 30 := by
  have hok := productOk_all (o, ch) hoc
  simp only [productOk, Bool.and_eq_true, decide_eq_true_eq] at hok
  have ho : o ∈ [2, 3, 4, 5, 6] := by
    simp only [List.mem_cons, Prod.mk.injEq, List.not_mem_nil, or_false] at hoc ⊢
    omega
  obtain ⟨hlo, hhi, hb1, hb2⟩ := gain_enclosed (demixGain o) (gains_known o ho)
  obtain ⟨e1, e2⟩ := checkCols_entry _ _ ch (product o ch) hok.1 hok.2 i j hi hj
  have r1 := entryOk_real _ _ hb1 _ _ e1
  have r2 := entryOk_real _ _ hb2 _ _ e2
  simp only [decide_eq_true_eq] at r1 r2
  exact abs_linear_le _ _ _ _ _ _ hlo hhi r1 r2

end Opus.Matrix
