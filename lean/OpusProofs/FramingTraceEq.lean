import OpusModel.FramingTrace
import OpusProofs.FramingRange
/-
  OpusProofs.FramingTraceEq — the instrumented parser `parseImplT` (OpusModel.FramingTrace) computes `parseImpl` and
  logs exactly `implTrace` / `castStores`: the range theorems of OpusProofs.FramingRange are statements about the
  intermediates of the parser itself.
-/
namespace Opus.FramingProofs
open Opus Opus.Framing

theorem padChainT_eq : ∀ (data : Bytes) (len : Int) (pad : Nat),
    (padChainT data len pad).1 = padChain data len pad ∧
    (padChainT data len pad).2 = padChainTrace data len (pad : Int) := by
  intro data
  induction data with
  | nil =>
    intro len pad
    unfold padChainT padChain padChainTrace
    split <;> simp
  | cons p rest ih =>
    intro len pad
    unfold padChainT padChain padChainTrace
    by_cases hl : len ≤ 0
    · simp [hl]
    · simp only [hl, if_false]
      by_cases hp : p = 255
      · simp only [hp, if_true]
        have := ih (len - 1 - 254) (pad + 254)
        refine ⟨this.1, ?_⟩
        rw [this.2]; push_cast; rfl
      · simp only [hp, if_false]
        exact ⟨by simp, by push_cast; simp⟩

theorem vbrSizesT_eq : ∀ (n : Nat) (data : Bytes) (len last : Int),
    (vbrSizesT n data len last).1 = vbrSizes n data len last ∧
    (vbrSizesT n data len last).2 = vbrTrace n data len last := by
  intro n
  induction n with
  | zero => intro data len last; exact ⟨rfl, rfl⟩
  | succ n ih =>
    intro data len last
    unfold vbrSizesT vbrSizes vbrTrace
    cases hps : parseSize data len with
    | ok v =>
      obtain ⟨bytes, sz⟩ := v
      simp only
      by_cases hbad : sz < 0 ∨ sz > len - bytes
      · simp only [hbad, if_true]; exact ⟨by simp, by simp⟩
      · simp only [hbad, if_false]
        have := ih (data.drop bytes.toNat) (len - bytes) (last - (bytes + sz))
        rw [this.1, this.2]
        exact ⟨rfl, by simp⟩
    | err e => exact ⟨rfl, rfl⟩
    | oob => exact ⟨rfl, rfl⟩
    | abort => exact ⟨rfl, rfl⟩

theorem parseCode3T_eq (sd : Bool) (fs : Nat) (data : Bytes) (len : Int) :
    (parseCode3T sd fs data len).1 = parseCode3 sd fs data len ∧
    (parseCode3T sd fs data len).2.1 = code3Trace sd fs data len ∧
    (parseCode3T sd fs data len).2.2 =
      (match parseCode3 sd fs data len with
       | .ok h => if sd = false ∧ h.cbr then List.replicate (h.count - 1) h.lastSize else []
       | _ => []) := by
  unfold parseCode3T parseCode3 code3Trace
  by_cases hl : len < 1
  · simp [hl]
  · simp only [hl, if_false]
    cases data with
    | nil => simp
    | cons ch data1 =>
      simp only
      by_cases hc : ch % 64 = 0 ∨ fs * (ch % 64) > 5760
      · simp [hc]
      · simp only [hc, if_false]
        by_cases hp : ch / 64 % 2 = 1
        · simp only [hp, if_true]
          have hpc := padChainT_eq data1 (len - 1) 0
          rw [hpc.1, hpc.2]
          cases hpr : padChain data1 (len - 1) 0 with
          | ok v =>
            obtain ⟨data2, len2, pad⟩ := v
            simp only
            by_cases hn : len2 < 0
            · simp [hn]
            · simp only [hn, if_false]
              by_cases hv : ch / 128 % 2 = 1
              · simp only [hv, if_true]
                have hvb := vbrSizesT_eq (ch % 64 - 1) data2 len2 len2
                rw [hvb.1, hvb.2]
                cases hvr : vbrSizes (ch % 64 - 1) data2 len2 len2 with
                | ok w =>
                  obtain ⟨ss, d, l, last⟩ := w
                  simp only
                  by_cases hneg : last < 0
                  · simp [hneg]
                  · simp [hneg]
                | err e => simp
                | oob => simp
                | abort => simp
              · simp only [hv, if_false]
                cases sd with
                | true => simp
                | false =>
                  simp only [Bool.false_eq_true, if_false]
                  by_cases hd : len2 / ((ch % 64 : Nat) : Int) * ((ch % 64 : Nat) : Int) = len2
                  · rw [if_neg (not_not.mpr hd), if_neg (not_not.mpr hd)]; simp
                  · rw [if_pos hd, if_pos hd]; simp
          | err e => simp
          | oob => simp
          | abort => simp
        · simp only [hp, if_false]
          by_cases hn : len - 1 < 0
          · simp [hn]
          · simp only [hn, if_false]
            by_cases hv : ch / 128 % 2 = 1
            · simp only [hv, if_true]
              have hvb := vbrSizesT_eq (ch % 64 - 1) data1 (len - 1) (len - 1)
              rw [hvb.1, hvb.2]
              cases hvr : vbrSizes (ch % 64 - 1) data1 (len - 1) (len - 1) with
              | ok w =>
                obtain ⟨ss, d, l, last⟩ := w
                simp only
                by_cases hneg : last < 0
                · simp [hneg]
                · simp [hneg]
              | err e => simp
              | oob => simp
              | abort => simp
            · simp only [hv, if_false]
              cases sd with
              | true => simp
              | false =>
                simp only [Bool.false_eq_true, if_false]
                by_cases hd : (len - 1) / ((ch % 64 : Nat) : Int) * ((ch % 64 : Nat) : Int) = len - 1
                · rw [if_neg (not_not.mpr hd), if_neg (not_not.mpr hd)]; simp
                · rw [if_pos hd, if_pos hd]; simp

/-- Operands of the `(opus_int16)` casts inside the switch, as `castStores` lists them. -/
def hdrCasts (sd : Bool) (toc : Nat) (data : Bytes) (len : Int) : List Int :=
  if sd then []
  else match parseHdr false toc data len with
    | .ok h => if toc % 4 = 1 then [h.lastSize]
               else if toc % 4 = 3 ∧ h.cbr then List.replicate (h.count - 1) h.lastSize else []
    | _ => []

theorem parseHdrT_eq (sd : Bool) (toc : Nat) (data : Bytes) (len : Int) :
    (parseHdrT sd toc data len).1 = parseHdr sd toc data len ∧
    (parseHdrT sd toc data len).2.1 = hdrTrace sd toc data len ∧
    (parseHdrT sd toc data len).2.2 = hdrCasts sd toc data len := by
  unfold parseHdrT hdrTrace hdrCasts parseHdr
  by_cases h0 : toc % 4 = 0
  · cases sd <;> simp [h0]
  · simp only [h0, if_false]
    by_cases h1 : toc % 4 = 1
    · simp only [h1, if_true]
      cases sd with
      | true => simp
      | false =>
        simp only [Bool.false_eq_true, if_false]
        by_cases ho : len % 2 = 1
        · simp [ho]
        · simp [ho]
    · simp only [h1, if_false]
      by_cases h2 : toc % 4 = 2
      · simp only [h2, if_true]
        have h23 : ¬ ((2 : Nat) = 3) := by decide
        cases hps : parseSize data len with
        | ok v =>
          obtain ⟨bytes, sz⟩ := v
          simp only
          by_cases hbad : sz < 0 ∨ sz > len - bytes
          · cases sd <;> simp [hbad]
          · cases sd <;> simp [hbad]
        | err e => cases sd <;> simp
        | oob => cases sd <;> simp
        | abort => cases sd <;> simp
      · simp only [h2, if_false]
        have h3 : toc % 4 = 3 := by omega
        have hc := parseCode3T_eq sd (samplesPerFrame toc 48000) data len
        refine ⟨hc.1, hc.2.1, ?_⟩
        rw [hc.2.2]
        cases sd with
        | true => cases parseCode3 true (samplesPerFrame toc 48000) data len <;> simp
        | false =>
          cases parseCode3 false (samplesPerFrame toc 48000) data len <;> simp [h3]

theorem finishT_eq (sd : Bool) (total toc : Nat) (h : Hdr) :
    (finishT sd total toc h).1 = finish sd total toc h ∧
    (finishT sd total toc h).2.1 = finishTrace sd h ++
      (match finish sd total toc h with | .ok r => reportTrace r | _ => []) ∧
    (finishT sd total toc h).2.2 = (if sd then [] else if h.lastSize > 1275 then [] else [h.lastSize]) := by
  unfold finishT finish finishTrace
  cases sd with
  | true =>
    simp only [if_true]
    cases hps : parseSize h.data h.len with
    | ok v =>
      obtain ⟨bytes, sz⟩ := v
      simp only
      by_cases hbad : sz < 0 ∨ sz > h.len - bytes
      · simp [hbad]
      · simp only [hbad, if_false]
        cases hcbr : h.cbr with
        | true =>
          simp only [if_true]
          by_cases hp : sz * (h.count : Int) > h.len - bytes
          · simp [hp]
          · simp [hp, reportT, reportTrace]
        | false =>
          simp only [Bool.false_eq_true, if_false]
          by_cases hp : bytes + sz > h.lastSize
          · simp [hp]
          · simp [hp, reportT, reportTrace]
    | err e => simp
    | oob => simp
    | abort => simp
  | false =>
    simp only [Bool.false_eq_true, if_false]
    by_cases hbig : h.lastSize > 1275
    · simp [hbig]
    · simp only [hbig, if_false]
      cases hcbr : h.cbr <;> simp [reportT, reportTrace]

/-- The instrumented parser IS the parser, and its two logs ARE `implTrace` and `castStores`. -/
theorem parseImplT_eq (sd : Bool) (bs : Bytes) :
    (parseImplT sd bs).1 = parseImpl sd bs ∧
    (parseImplT sd bs).2.1 = implTrace sd bs ∧
    (parseImplT sd bs).2.2 = castStores sd bs := by
  unfold parseImplT parseImpl implTrace castStores
  cases bs with
  | nil => simp
  | cons toc data =>
    simp only
    have hh := parseHdrT_eq sd toc data data.length
    rw [hh.1, hh.2.1, hh.2.2]
    unfold hdrCasts
    cases hph : parseHdr sd toc data data.length with
    | ok h =>
      simp only
      have hf := finishT_eq sd (toc :: data).length toc h
      rw [hf.1, hf.2.1, hf.2.2]
      refine ⟨rfl, by simp; cases finish sd (data.length + 1) toc h <;> rfl, ?_⟩
      cases sd with
      | true => simp
      | false => simp only [Bool.false_eq_true, if_false]; rw [hph]
    | err e =>
      refine ⟨rfl, by simp, ?_⟩
      cases sd with
      | true => simp
      | false => simp only [Bool.false_eq_true, if_false]; rw [hph]
    | oob =>
      refine ⟨rfl, by simp, ?_⟩
      cases sd with
      | true => simp
      | false => simp only [Bool.false_eq_true, if_false]; rw [hph]
    | abort =>
      refine ⟨rfl, by simp, ?_⟩
      cases sd with
      | true => simp
      | false => simp only [Bool.false_eq_true, if_false]; rw [hph]

theorem parseImplLenT_fst (sd : Bool) (bs : Bytes) (len : Int) :
    (parseImplLenT sd bs len).1 = parseImplLen sd bs len := by
  unfold parseImplLenT parseImplLen
  split
  · rfl
  · exact (parseImplT_eq sd _).1

end Opus.FramingProofs
