import OpusModel.SilkPipe
/-
  OpusProofs.SilkPipeBasic — the pipeline is literally the composition of its parts (property C03, slice SilkPipe).
-/
namespace Opus.SilkPipeProofs
open Opus Opus.SilkCore Opus.SilkPipe

/-- `silkOnlyDecode` unfolded: parse ∘ symbols (`SilkSyms.decodePacket`, which calls `Framing.parseImpl` and the range decoder),
    then per Opus frame the frames of the event list through `silkFrames`. -/
theorem silkOnlyDecode_eq (apiHz : Nat) (S : PipeSt) (pkt : Bytes) :
    silkOnlyDecode apiHz S pkt =
      if !silkOnlyMono pkt then .err .unimplemented
      else match SilkSyms.decodePacket apiHz false false S.syms pkt with
        | .ok (some frs) => opusFrames S frs
        | .ok none => .err .unimplemented
        | .err e => .err e
        | .oob => .oob
        | .abort => .abort := rfl

/-- `decodePacket` is parse-then-symbols. -/
theorem decodePacket_eq (fs : Nat) (st : SilkSyms.SilkSt) (pkt : Bytes) :
    SilkSyms.decodePacket fs false false st pkt =
      if SilkSyms.packetPre fs false pkt then
        match Framing.parseImpl false pkt with
        | .ok p => SilkSyms.someRes (SilkSyms.framesLoop p.toc pkt false (SilkSyms.frameSpans p.payloadOffset p.sizes) st)
        | .err e => .err e
        | .oob => .oob
        | .abort => .abort
      else .err .invalidPacket := by
  unfold SilkSyms.decodePacket SilkSyms.decodeFrames
  split
  · cases Framing.parseImpl false pkt <;> simp
  · rfl

/-- One `silk_Decode` call is synthesis, then buffering, then resampling. -/
theorem silkFrameStep_eq (nb : Nat) (S : PipeSt) (fr : Nat × SilkSyms.Indices × List Int) :
    silkFrameStep nb S fr =
      (frameGood { S.dec with nbSubfr := nb } (frameIn fr.1 fr.2.1 fr.2.2)).bind fun o =>
        (SilkResamp.resampler S.rs (monoBuffer S.sMid o.core.xq).2).bind fun r =>
          .ok ({ S with dec := o.st, sMid := (monoBuffer S.sMid o.core.xq).1, rs := r.1 }, r.2) := rfl

end Opus.SilkPipeProofs
