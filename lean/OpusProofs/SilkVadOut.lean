import OpusProofs.SilkVadInv
/-
  OpusProofs.SilkVadOut — `silk_VAD_GetSA_Q8_c` on every int16 frame: band signals are int16, band
  energies fit 32 bits (with the documented `silk_ADD_POS_SAT32`), outputs in range, invariant kept.
-/
namespace Opus.SilkVad
open Opus Opus.SilkParams

/-! ### filter bank and differentiator: the band signals are int16 -/

theorem anaFilt_i16 (s : Int × Int) (l : List Int) :
    (∀ y ∈ (anaFilt s l).2.1, I16 y) ∧ (∀ y ∈ (anaFilt s l).2.2, I16 y) := by
  fun_induction anaFilt s l with
  | case1 s x0 x1 rest r t ih =>
    simp only [List.mem_cons, forall_eq_or_imp]
    exact ⟨⟨sat16_range _, ih.1⟩, ⟨sat16_range _, ih.2⟩⟩
  | case2 s l h =>
    exact ⟨fun y hy => (by cases hy), fun y hy => (by cases hy)⟩

theorem shr1_i16 (x : Int) (h : I16 x) : -16384 ≤ shrI x 1 ∧ shrI x 1 ≤ 16383 := by
  unfold I16 at h; unfold shrI; omega

theorem hpDiff_i16 (hp : Int) (l : List Int) (hhp : -16384 ≤ hp ∧ hp ≤ 16383) (hl : ∀ x ∈ l, I16 x) :
    (∀ y ∈ hpDiff hp l, I16 y) ∧ (-16384 ≤ hpLast hp l ∧ hpLast hp l ≤ 16383) := by
  induction l generalizing hp with
  | nil => exact ⟨fun y hy => (by cases hy), by simpa [hpLast] using hhp⟩
  | cons x rest ih =>
    have hx := shr1_i16 x (hl x (by simp))
    have := ih (shrI x 1) hx (fun y hy => hl y (by simp [hy]))
    refine ⟨?_, ?_⟩
    · intro y hy
      simp only [hpDiff, List.mem_cons] at hy
      rcases hy with rfl | hy
      · unfold I16; omega
      · exact this.1 y hy
    · cases rest with
      | nil => simp [hpLast]; omega
      | cons x' r' =>
        have h2 := this.2
        simp only [hpLast, List.getLast?_cons_cons] at h2 ⊢
        exact h2

/-! ### energies -/

theorem subEnergy_range (l : List Int) (hl : ∀ x ∈ l, I16 x) : 0 ≤ subEnergy l ∧ subEnergy l ≤ l.length * 16777216 := by
  induction l with
  | nil => simp [subEnergy]
  | cons x rest ih =>
    have hr := ih (fun y hy => hl y (by simp [hy]))
    have hx := hl x (by simp)
    unfold I16 at hx
    have hs : -4096 ≤ shrI x 3 ∧ shrI x 3 ≤ 4096 := by unfold shrI; omega
    have h1 : smulbb (shrI x 3) (shrI x 3) = shrI x 3 * shrI x 3 := by
      unfold smulbb; rw [wrap16_id _ (by omega)]
    have h2 := sq_nonneg (shrI x 3)
    have h3 := sq_le (shrI x 3) 4096 (by omega)
    simp only [subEnergy, List.length_cons, h1]
    generalize shrI x 3 * shrI x 3 = q at *
    push_cast
    omega

theorem subEnergy_take (x : List Int) (d n : Nat) (hl : ∀ y ∈ x, I16 y) (hn : n ≤ 64) :
    0 ≤ subEnergy ((x.drop d).take n) ∧ subEnergy ((x.drop d).take n) ≤ 1073741824 := by
  have h := subEnergy_range ((x.drop d).take n) (fun y hy => hl y (List.mem_of_mem_drop (List.mem_of_mem_take hy)))
  have hlen : ((x.drop d).take n).length ≤ n := List.length_take_le _ _
  have : (((x.drop d).take n).length : Int) ≤ 64 := by exact_mod_cast Nat.le_trans hlen hn
  omega

/-- Band energy: with an int16 band signal of decimated length at most 256 (`frame_length ≤ 512`) the
    sub-frame sums stay below 2^30 and the saturating accumulation stays in `[0, int32_MAX]`. -/
theorem bandEnergy_range (carry : Int) (x : List Int) (len : Nat) (hc : NonNeg32 carry) (hl : ∀ y ∈ x, I16 y)
    (hlen : len ≤ 256) :
    NonNeg32 (bandEnergy carry x len).1 ∧ (0 ≤ (bandEnergy carry x len).2 ∧ (bandEnergy carry x len).2 ≤ 1073741824) := by
  unfold NonNeg32 at *
  have hs : len / 4 ≤ 64 := by omega
  have e0 := subEnergy_take x 0 (len / 4) hl hs
  have e1 := subEnergy_take x (len / 4) (len / 4) hl hs
  have e2 := subEnergy_take x (2 * (len / 4)) (len / 4) hl hs
  have e3 := subEnergy_take x (3 * (len / 4)) (len / 4) hl hs
  unfold bandEnergy
  simp only
  generalize subEnergy ((x.drop 0).take (len / 4)) = a0 at *
  generalize subEnergy ((x.drop (len / 4)).take (len / 4)) = a1 at *
  generalize subEnergy ((x.drop (2 * (len / 4))).take (len / 4)) = a2 at *
  generalize subEnergy ((x.drop (3 * (len / 4))).take (len / 4)) = a3 at *
  have h1 := addPosSat32_range carry a0 hc (by omega)
  have h2 := addPosSat32_range _ a1 ⟨h1.1, h1.2.1⟩ (by omega)
  have h3 := addPosSat32_range _ a2 ⟨h2.1, h2.2.1⟩ (by omega)
  have hsh : 0 ≤ shrI a3 1 ∧ shrI a3 1 ≤ 2147483647 := by unfold shrI; omega
  have h4 := addPosSat32_range _ (shrI a3 1) ⟨h3.1, h3.2.1⟩ hsh
  exact ⟨⟨h4.1, h4.2.1⟩, e3⟩

/-! ### SNR per band -/

/-- `NrgToNoiseRatio_Q8` is a positive 32-bit value and both divisors are positive. -/
theorem snrBand_range (xnrg nl w tilt : Int) (hx : NonNeg32 xnrg) (hn : 0 ≤ nl ∧ nl ≤ 16777215) :
    Pos32 (snrBand xnrg nl w tilt).1 ∧ 0 ≤ (snrBand xnrg nl w tilt).2.1 ∧ (snrBand xnrg nl w tilt).2.1 ≤ 1073741824 ∧
      (-2147483648 ≤ (snrBand xnrg nl w tilt).2.2 ∨ tilt < -2147483648) := by
  unfold NonNeg32 Pos32 at *
  have hsq : ∀ v : Int, 0 ≤ smulbb v v ∧ smulbb v v ≤ 1073741824 := by
    intro v; unfold smulbb
    have := wrap16_range v
    exact ⟨sq_nonneg _, by have := sq_le (wrap16 v) 32768 (by omega); omega⟩
  by_cases hs : xnrg - nl > 0
  · simp only [snrBand, hs, ↓reduceIte]
    refine ⟨?_, (hsq _).1, (hsq _).2, Or.inl ?_⟩
    · by_cases hlt : 0 ≤ xnrg ∧ xnrg < 8388608
      · rw [if_pos hlt]
        have hl : lshift32 xnrg 8 = xnrg * 256 := by
          unfold lshift32; rw [wrap32_id _ (by simp only [Int.reducePow]; omega)]; simp
        rw [hl, Int.tdiv_eq_ediv_of_nonneg (by omega)]
        have h1 : 256 ≤ xnrg * 256 / (nl + 1) := Int.le_ediv_of_mul_le (by omega) (by omega)
        have h2 : xnrg * 256 / (nl + 1) ≤ xnrg * 256 := Int.ediv_le_self _ (by omega)
        omega
      · rw [if_neg hlt]
        rw [Int.tdiv_eq_ediv_of_nonneg (by omega)]
        have hd : 1 ≤ shrI nl 8 + 1 ∧ shrI nl 8 + 1 ≤ 65536 := by unfold shrI; omega
        have h1 : 128 ≤ xnrg / (shrI nl 8 + 1) := Int.le_ediv_of_mul_le (by omega) (by omega)
        have h2 : xnrg / (shrI nl 8 + 1) ≤ xnrg := Int.ediv_le_self _ (by omega)
        omega
    · unfold smlawb; exact (wrap32_range _).1
  · simp only [snrBand, hs, ↓reduceIte]
    refine ⟨by omega, by omega, by omega, ?_⟩
    omega

theorem snrBand_tilt32 (xnrg nl w tilt : Int) (ht : -2147483648 ≤ tilt ∧ tilt ≤ 2147483647) :
    -2147483648 ≤ (snrBand xnrg nl w tilt).2.2 ∧ (snrBand xnrg nl w tilt).2.2 ≤ 2147483647 := by
  by_cases hs : xnrg - nl > 0
  · simp only [snrBand, hs, ↓reduceIte]; unfold smlawb; exact wrap32_range _
  · simp only [snrBand, hs, ↓reduceIte]; exact ht

/-! ### speech activity -/

/-- The power scaling keeps the speech activity in `[0, 32767]`. -/
theorem powerScale_range (sa : Int) (nl xnrg : Q4) (b : Bool) (hsa : 0 ≤ sa ∧ sa ≤ 32767) :
    0 ≤ powerScale sa nl xnrg b ∧ powerScale sa nl xnrg b ≤ 32767 := by
  unfold powerScale
  simp only
  generalize (if b = true then _ else _ : Int) = sn
  split
  · unfold shrI; omega
  · split
    · rename_i h1 h2
      have hl : lshift32 sn 16 = sn * 65536 := by
        unfold lshift32; rw [wrap32_id _ (by simp only [Int.reducePow]; omega)]; simp
      rw [hl]
      have hq := (sqrtApprox_small (sn * 65536) 30 (by simp only [Int.reducePow]; omega) (by omega)).1
      have hq0 := sqrtApprox_nonneg (sn * 65536) (by omega)
      generalize sqrtApprox (sn * 65536) = r at *
      unfold smulwb
      rw [wrap16_id sa (by omega)]
      have hp0 : 0 ≤ (32768 + r) * sa := Int.mul_nonneg (by omega) hsa.1
      have hp1 : (32768 + r) * sa ≤ 65413 * 32767 := Int.mul_le_mul (by omega) hsa.2 hsa.1 (by omega)
      generalize (32768 + r) * sa = p at *
      rw [wrap32_id _ (by omega)]
      omega
    · exact hsa

/-- The smoothing coefficient of the ratio smoother lies in `[0, 1023]`. -/
theorem smoothCoef_range (sa : Int) (hsa : 0 ≤ sa ∧ sa ≤ 32767) (half : Bool) :
    0 ≤ smoothCoef sa half ∧ smoothCoef sa half ≤ 1023 := by
  unfold smoothCoef
  simp only
  rw [snrSmoothCoefQ18_eq]
  unfold smulwb
  rw [wrap16_id sa (by omega)]
  have hp0 := sq_nonneg sa
  have hp1 := sq_le sa 32767 (by omega)
  generalize sa * sa = p at *
  rw [wrap32_id (p / 65536) (by omega), wrap16_id (p / 65536) (by omega), wrap32_id _ (by omega)]
  cases half <;> simp [shrI] <;> omega

theorem qualityBand_range (smth ratio coef : Int) (hs : Pos32 smth) (hr : Pos32 ratio) (hc : 0 ≤ coef ∧ coef ≤ 1023) :
    Pos32 (qualityBand smth ratio coef).1 ∧ 0 ≤ (qualityBand smth ratio coef).2 ∧ (qualityBand smth ratio coef).2 ≤ 32767 := by
  unfold qualityBand
  simp only
  exact ⟨(smlawb_between smth ratio coef hs hr (by omega)).1, sigmQ15_range _⟩

/-! ### the whole call -/

/-- Output ranges of `silk_VAD_GetSA_Q8`. -/
structure OutOk (o : VadOut) : Prop where
  sa : 0 ≤ o.speechActivityQ8 ∧ o.speechActivityQ8 ≤ 255
  tilt : -32768 ≤ o.inputTiltQ15 ∧ o.inputTiltQ15 ≤ 32766
  quality : o.quality.all (fun x => 0 ≤ x ∧ x ≤ 32767)

theorem bands_inv (st : VadState) (hinv : VadInv st) (len : Nat) (hlen : len ≤ 512) (pIn : List Int) :
    VadInv (bands st len pIn).1 ∧ (bands st len pIn).2.all NonNeg32 ∧
      (bands st len pIn).1.xnrgSubfr.all (fun x => 0 ≤ x ∧ x ≤ 1073741824) ∧ (bands st len pIn).1.bias = st.bias ∧
      (bands st len pIn).1.nl = st.nl ∧ (bands st len pIn).1.invNl = st.invNl ∧ (bands st len pIn).1.counter = st.counter ∧
      (bands st len pIn).1.ratioSmth = st.ratioSmth := by
  have hx := hinv.xnrgSubfr
  unfold Q4.all at hx
  have f0 := anaFilt_i16 st.ana0 (pIn.take len)
  have f1 := anaFilt_i16 st.ana1 ((anaFilt st.ana0 (pIn.take len)).2.1.take (len / 2))
  have f2 := anaFilt_i16 st.ana2 ((anaFilt st.ana1 ((anaFilt st.ana0 (pIn.take len)).2.1.take (len / 2))).2.1.take (len / 4))
  have hd := hpDiff_i16 st.hp ((anaFilt st.ana2 ((anaFilt st.ana1 ((anaFilt st.ana0 (pIn.take len)).2.1.take (len / 2))).2.1.take (len / 4))).2.1.take (len / 8))
    hinv.hp (fun y hy => f2.1 y (List.mem_of_mem_take hy))
  have e0 := bandEnergy_range st.xnrgSubfr.b0 _ (len / 8) hx.1 hd.1 (by omega)
  have e1 := bandEnergy_range st.xnrgSubfr.b1 _ (len / 8) hx.2.1 f2.2 (by omega)
  have e2 := bandEnergy_range st.xnrgSubfr.b2 _ (len / 4) hx.2.2.1 f1.2 (by omega)
  have e3 := bandEnergy_range st.xnrgSubfr.b3 _ (len / 2) hx.2.2.2 f0.2 (by omega)
  refine ⟨⟨hinv.counter, hinv.bias, hinv.nl, hinv.invNl, ?_, hinv.ratioSmth, hd.2⟩, ⟨e0.1, e1.1, e2.1, e3.1⟩,
    ⟨e0.2, e1.2, e2.2, e3.2⟩, rfl, rfl, rfl, rfl, rfl⟩
  exact ⟨⟨e0.2.1, Int.le_trans e0.2.2 (by omega)⟩, ⟨e1.2.1, Int.le_trans e1.2.2 (by omega)⟩,
         ⟨e2.2.1, Int.le_trans e2.2.2 (by omega)⟩, ⟨e3.2.1, Int.le_trans e3.2.2 (by omega)⟩⟩

theorem snrStage_range (nl xnrg : Q4) (hn : nl.all (fun x => 0 ≤ x ∧ x ≤ 16777215)) (hx : xnrg.all NonNeg32) :
    (0 ≤ (snrStage nl xnrg).1 ∧ (snrStage nl xnrg).1 ≤ 32767) ∧
    (-32768 ≤ (snrStage nl xnrg).2.1 ∧ (snrStage nl xnrg).2.1 ≤ 32766) ∧ (snrStage nl xnrg).2.2.all Pos32 := by
  unfold Q4.all at hn hx
  unfold snrStage
  simp only
  refine ⟨sigmQ15_range _, ?_, ⟨(snrBand_range _ _ _ _ hx.1 hn.1).1, (snrBand_range _ _ _ _ hx.2.1 hn.2.1).1,
    (snrBand_range _ _ _ _ hx.2.2.1 hn.2.2.1).1, (snrBand_range _ _ _ _ hx.2.2.2 hn.2.2.2).1⟩⟩
  have := sigmQ15_range (snrBand xnrg.b3 nl.b3 tiltWeights.b3
    (snrBand xnrg.b2 nl.b2 tiltWeights.b2 (snrBand xnrg.b1 nl.b1 tiltWeights.b1 (snrBand xnrg.b0 nl.b0 tiltWeights.b0 0).2.2).2.2).2.2).2.2
  generalize sigmQ15 _ = v at *
  unfold lshift32
  rw [wrap32_id _ (by omega)]
  omega

theorem decision_ok (st2 : VadState) (xnrg : Q4) (fs len : Nat) (hinv : VadInv st2) (hx : xnrg.all NonNeg32) :
    VadInv (decision st2 xnrg fs len).st ∧ OutOk (decision st2 xnrg fs len) ∧ (decision st2 xnrg fs len).st.bias = st2.bias := by
  have hs := snrStage_range st2.nl xnrg hinv.nl hx
  have hp := powerScale_range (snrStage st2.nl xnrg).1 st2.nl xnrg (decide (len = 20 * fs)) hs.1
  have hc := smoothCoef_range _ hp (decide (len = 10 * fs))
  have hr := hinv.ratioSmth
  have hq := hs.2.2
  unfold Q4.all at hr hq
  have q0 := qualityBand_range st2.ratioSmth.b0 _ _ hr.1 hq.1 hc
  have q1 := qualityBand_range st2.ratioSmth.b1 _ _ hr.2.1 hq.2.1 hc
  have q2 := qualityBand_range st2.ratioSmth.b2 _ _ hr.2.2.1 hq.2.2.1 hc
  have q3 := qualityBand_range st2.ratioSmth.b3 _ _ hr.2.2.2 hq.2.2.2 hc
  refine ⟨⟨hinv.counter, hinv.bias, hinv.nl, hinv.invNl, hinv.xnrgSubfr, ⟨q0.1, q1.1, q2.1, q3.1⟩, hinv.hp⟩,
    ⟨?_, hs.2.1, ⟨q0.2, q1.2, q2.2, q3.2⟩⟩, rfl⟩
  show 0 ≤ min (shrI (powerScale _ _ _ _) 7) 255 ∧ min (shrI (powerScale _ _ _ _) 7) 255 ≤ 255
  generalize powerScale _ _ _ _ = sa at *
  unfold shrI
  omega

/-- **`silk_VAD_GetSA_Q8_c` is total and stays in range**: from any state satisfying the invariant, for
    any legal frame length and any frame (the band signals are saturated to int16 by the filter bank), the call returns (no assertion, no out-of-bounds read),
    every divisor is positive (part of `noiseBand_inv` / `snrBand_range`), the invariant holds again and
    the outputs are in their documented ranges; `NoiseLevelBias` never changes. -/
theorem getSA_ok (st : VadState) (hinv : VadInv st) (fs len : Nat) (hlen : len ≤ 512 ∧ len % 8 = 0) (pIn : List Int)
    (hp : len ≤ pIn.length) :
    ∃ o, getSA st fs len pIn = .ok o ∧ VadInv o.st ∧ OutOk o ∧ o.st.bias = st.bias := by
  unfold getSA
  rw [if_neg (by omega), if_neg (by omega)]
  simp only
  have hb := bands_inv st hinv len hlen.1 pIn
  have hn := getNoiseLevels_inv (bands st len pIn).2 (bands st len pIn).1 hb.1 hb.2.1
  have hd := decision_ok (getNoiseLevels (bands st len pIn).2 (bands st len pIn).1) (bands st len pIn).2 fs len hn.1 hb.2.1
  exact ⟨_, rfl, hd.1, hd.2.1, by rw [hd.2.2, hn.2.2.1, hb.2.2.2.1]⟩

end Opus.SilkVad
