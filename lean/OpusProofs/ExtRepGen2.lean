import OpusProofs.ExtRepGen1
/-
  C16 helper lemmas, part 19: the repeat detection loop of the generator computes `repCount` and moves the
  repeat pointers of all later frames past the repeated extensions.
-/
set_option linter.unusedVariables false
namespace Opus.ExtProofs
open Opus Opus.Ext

/-- What the detection loop for frame `f`, started at index `i` in state `s`, returns: `R` extensions
    (`pre`) of frame `f` are repeated. -/
structure DetSpec (exts : Array Ext) (mx : List Nat) (nbF f i hi : Nat) (s det : Det) (R : Nat) (pre : List Ext) : Prop where
  cnt : det.repeatCount = s.repeatCount + R
  len : det.rep.length = nbF
  lower : ∀ g, g < f → det.rep.getD g 0 = s.rep.getD g 0
  upper : ∀ g, f < g → g < nbF →
    Clean exts mx (det.rep.getD g 0) g ∧ s.rep.getD g 0 ≤ det.rep.getD g 0 ∧
    det.rep.getD g 0 ≤ max (s.rep.getD g 0) (mx.getD g 0) ∧
    remQ exts mx det.rep g = (remQ exts mx s.rep g).drop R ∧
    seg exts (s.rep.getD g 0) (det.rep.getD g 0) g = (remQ exts mx s.rep g).take R
  zero : R = 0 → det.rep.getD f 0 = s.rep.getD f 0 ∧ det.lastLong = s.lastLong
  pos : 0 < R → i ≤ det.rep.getD f 0 ∧ det.rep.getD f 0 < hi ∧
    (∃ e, exts[det.rep.getD f 0]? = some e ∧ e.frame.toNat = f) ∧ (seg exts i (det.rep.getD f 0) f).length + 1 = R
  ll : match lastLongPos pre with
    | none => det.lastLong = s.lastLong
    | some kL => ∃ jL, det.lastLong = some jL ∧ (∃ e, exts[jL]? = some e ∧ e.frame.toNat = nbF - 1) ∧
        s.rep.getD (nbF - 1) 0 ≤ jL ∧ jL < mx.getD (nbF - 1) 0 ∧ (seg exts (s.rep.getD (nbF - 1) 0) jL (nbF - 1)).length = kL

theorem headsMatch_remsFrom {exts : Array Ext} {mx rep : List Nat} {nbF g0 : Nat} {e : Ext}
    (h : headsMatch (remsFrom exts mx rep nbF g0) e = true) :
    ∀ g, g0 ≤ g → g < nbF → ∃ x, (remQ exts mx rep g).head? = some x ∧ matchB x e = true := by
  intro g h1 h2
  unfold headsMatch at h
  rw [List.all_eq_true] at h
  have := h (remQ exts mx rep g) (by
    unfold remsFrom; rw [List.mem_map]; exact ⟨g, by rw [List.mem_range'_1]; omega, rfl⟩)
  cases hh : (remQ exts mx rep g).head? with
  | none => rw [hh] at this; cases this
  | some x => rw [hh] at this; exact ⟨x, rfl, this⟩

theorem take_one_tail {α : Type} (l : List α) (k : Nat) : l.take 1 ++ l.tail.take k = l.take (k + 1) := by
  cases l with
  | nil => simp
  | cons x xs => simp

theorem drop_tail {α : Type} (l : List α) (k : Nat) : l.tail.drop k = l.drop (k + 1) := by
  cases l with
  | nil => simp
  | cons x xs => simp

end Opus.ExtProofs
