import OpusProofs.ExtRepGen1
/-
  C16 helper lemmas, part 19: the repeat detection loop of the generator computes `repCount` and moves the
  repeat pointers of all later frames past the repeated extensions.
-/
set_option linter.unusedVariables false
namespace Opus.ExtProofs
open Opus Opus.Ext

/-- What the detection loop for frame `f`, started at index `i` in state `s`, returns: `R` extensions
    (`pre`) of frame `f` are repeated. -/
structure DetSpec (exts : Array Ext) (mx : List Nat) (nbF f i hi : Nat) (s det : Det) (R : Nat) (pre : List Ext) : Prop where
  cnt : det.repeatCount = s.repeatCount + R
  len : det.rep.length = nbF
  lower : ∀ g, g < f → det.rep.getD g 0 = s.rep.getD g 0
  upper : ∀ g, f < g → g < nbF →
    Clean exts mx (det.rep.getD g 0) g ∧ s.rep.getD g 0 ≤ det.rep.getD g 0 ∧
    det.rep.getD g 0 ≤ max (s.rep.getD g 0) (mx.getD g 0) ∧
    remQ exts mx det.rep g = (remQ exts mx s.rep g).drop R ∧
    seg exts (s.rep.getD g 0) (det.rep.getD g 0) g = (remQ exts mx s.rep g).take R
  zero : R = 0 → det.rep = s.rep ∧ det.lastLong = s.lastLong
  pos : 0 < R → i ≤ det.rep.getD f 0 ∧ det.rep.getD f 0 < hi ∧
    (∃ e, exts[det.rep.getD f 0]? = some e ∧ e.frame.toNat = f) ∧ (seg exts i (det.rep.getD f 0) f).length + 1 = R
  ll : match lastLongPos pre with
    | none => det.lastLong = s.lastLong
    | some kL => ∃ jL, det.lastLong = some jL ∧ (∃ e, exts[jL]? = some e ∧ e.frame.toNat = nbF - 1) ∧
        s.rep.getD (nbF - 1) 0 ≤ jL ∧ jL < mx.getD (nbF - 1) 0 ∧ (seg exts (s.rep.getD (nbF - 1) 0) jL (nbF - 1)).length = kL

theorem headsMatch_remsFrom {exts : Array Ext} {mx rep : List Nat} {nbF g0 : Nat} {e : Ext}
    (h : headsMatch (remsFrom exts mx rep nbF g0) e = true) :
    ∀ g, g0 ≤ g → g < nbF → ∃ x, (remQ exts mx rep g).head? = some x ∧ matchB x e = true := by
  intro g h1 h2
  unfold headsMatch at h
  rw [List.all_eq_true] at h
  have := h (remQ exts mx rep g) (by
    unfold remsFrom; rw [List.mem_map]; exact ⟨g, by rw [List.mem_range'_1]; omega, rfl⟩)
  cases hh : (remQ exts mx rep g).head? with
  | none => rw [hh] at this; cases this
  | some x => rw [hh] at this; exact ⟨x, rfl, this⟩

theorem take_one_tail {α : Type} (l : List α) (k : Nat) : l.take 1 ++ l.tail.take k = l.take (k + 1) := by
  cases l with
  | nil => simp
  | cons x xs => simp

theorem drop_tail {α : Type} (l : List α) (k : Nat) : l.tail.drop k = l.drop (k + 1) := by
  cases l with
  | nil => simp
  | cons x xs => simp

theorem remsFrom_congr {exts : Array Ext} {mx rep rep' : List Nat} {nbF g0 : Nat} (F : List Ext → List Ext)
    (h : ∀ g, g0 ≤ g → g < nbF → remQ exts mx rep' g = F (remQ exts mx rep g)) :
    remsFrom exts mx rep' nbF g0 = (remsFrom exts mx rep nbF g0).map F := by
  unfold remsFrom
  rw [List.map_map]
  apply List.map_congr_left
  intro g hg
  rw [List.mem_range'_1] at hg
  exact h g hg.1 (by omega)

theorem rdE_some {exts : Array Ext} {i : Nat} {e : Ext} (h : rdE exts i = .ok e) : exts[i]? = some e := by
  simp only [rdE] at h; split at h
  · rename_i v hv; simp only [Res.ok.injEq] at h; subst h; exact hv
  · cases h

section
variable {exts : Array Ext} {nbF : Nat} {mx : List Nat}

theorem detect_aux (hv : AllIF exts nbF) (hmxl : mx.length = nbF) (hmx : ∀ g, g < nbF → mx.getD g 0 ≤ exts.size)
    (f : Nat) (hf : f + 1 < nbF) (s : Det) (e : Ext) (hrl : s.rep.length = nbF)
    (hc : ∀ g, f < g → g < nbF → Clean exts mx (s.rep.getD g 0) g)
    (hcr : canRepeat exts mx s.rep nbF e (f + 1) = .ok true) :
    (∃ rep', advanceRep exts mx nbF (f + 1) s.rep = .ok rep') ∧
    (∃ ll, (if h : 32 ≤ e.id then
        (match rdN s.rep (nbF - 1) with
         | Res.ok v => Res.ok (some v)
         | Res.err er => Res.err er
         | Res.oob => Res.oob
         | Res.abort => Res.abort)
      else Res.ok s.lastLong) = Res.ok ll) := by
  rw [canRepeat_spec hv hmxl hmx s.rep hrl e (f + 1) (fun g h1 h2 => hc g (by omega) h2)] at hcr
  simp only [Res.ok.injEq] at hcr
  have hheads := headsMatch_remsFrom hcr
  have hne : ∀ g, f + 1 ≤ g → g < nbF → s.rep.getD g 0 < mx.getD g 0 := by
    intro g h1 h2
    obtain ⟨x, hx, _⟩ := hheads g h1 h2
    apply Decidable.byContradiction; intro hcn
    unfold remQ at hx
    rw [seg_empty exts g (by omega)] at hx; cases hx
  obtain ⟨rep'', hA', _⟩ := advanceRep_spec hv hmxl hmx (f + 1) s.rep hrl
    (fun g h1 h2 => ⟨hc g (by omega) h2, hne g h1 h2⟩)
  refine ⟨⟨rep'', hA'⟩, ?_⟩
  split
  · rw [rdN_getD (by omega)]; exact ⟨_, rfl⟩
  · exact ⟨_, rfl⟩

theorem detectLoop_spec (hv : AllIF exts nbF) (hmxl : mx.length = nbF) (hmx : ∀ g, g < nbF → mx.getD g 0 ≤ exts.size)
    (f : Nat) (hf : f + 1 < nbF) (i hi : Nat) (s : Det) (hhi : hi ≤ exts.size) :
    s.rep.length = nbF → (∀ g, f < g → g < nbF → Clean exts mx (s.rep.getD g 0) g) →
    ∃ det, detectLoop exts mx nbF f i hi s = .ok det ∧
      DetSpec exts mx nbF f i hi s det (repCount (seg exts i hi f) (remsFrom exts mx s.rep nbF (f + 1)))
        ((seg exts i hi f).take (repCount (seg exts i hi f) (remsFrom exts mx s.rep nbF (f + 1)))) := by
  fun_induction detectLoop exts mx nbF f i hi s with
  | case1 i s hlt e he hfe hcr =>
    intro hrl hc
    have hget := rdE_some he
    have hfn : e.frame.toNat = f := by omega
    rw [canRepeat_spec hv hmxl hmx s.rep hrl e (f + 1) (fun g h1 h2 => hc g (by omega) h2)] at hcr
    simp only [Res.ok.injEq] at hcr
    have hR : repCount (seg exts i hi f) (remsFrom exts mx s.rep nbF (f + 1)) = 0 := by
      rw [seg_step exts i hi f e hlt hget]; simp [hfn, repCount, hcr]
    rw [hR]
    exact ⟨s, rfl, ⟨by omega, hrl, fun _ _ => rfl, fun g h1 h2 => ⟨hc g h1 h2, Nat.le_refl _, Nat.le_max_left _ _, by simp, by
      simp [seg_empty exts g (Nat.le_refl _)]⟩, fun _ => ⟨rfl, rfl⟩, fun h => by omega, by simp [lastLongPos]⟩⟩
  | case2 i s hlt e he hfe hcr ll rep' hA hL ih =>
    intro hrl hc
    have hget := rdE_some he
    have hfn : e.frame.toNat = f := by omega
    rw [canRepeat_spec hv hmxl hmx s.rep hrl e (f + 1) (fun g h1 h2 => hc g (by omega) h2)] at hcr
    simp only [Res.ok.injEq] at hcr
    have hheads := headsMatch_remsFrom hcr
    have hne : ∀ g, f + 1 ≤ g → g < nbF → s.rep.getD g 0 < mx.getD g 0 := by
      intro g h1 h2
      obtain ⟨x, hx, _⟩ := hheads g h1 h2
      apply Decidable.byContradiction; intro hcn
      unfold remQ at hx
      rw [seg_empty exts g (by omega)] at hx; cases hx
    obtain ⟨rep'', hA', hrl', hlow, hup⟩ := advanceRep_spec hv hmxl hmx (f + 1) s.rep hrl
      (fun g h1 h2 => ⟨hc g (by omega) h2, hne g h1 h2⟩)
    rw [hA] at hA'; cases hA'
    have hlast : nbF - 1 < s.rep.length := by omega
    have hLv : ll = if 32 ≤ e.id then some (s.rep.getD (nbF - 1) 0) else s.lastLong := by
      split at hL
      · rw [rdN_getD hlast] at hL; simp only [Res.ok.injEq] at hL
        rename_i h32; simp only [h32, if_true]; exact hL.symm
      · simp only [Res.ok.injEq] at hL
        rename_i h32; simp only [h32, if_false]; exact hL.symm
    have hset_ne : ∀ g, g ≠ f → (rep'.set f i).getD g 0 = rep'.getD g 0 := fun g hg => getD_set_ne' _ _ _ _ (fun h => hg h.symm)
    have hset_eq : (rep'.set f i).getD f 0 = i := getD_set_eq' _ _ _ (by omega)
    obtain ⟨det, hdet, hspec⟩ := ih (by simp [hrl']) (fun g h1 h2 => by rw [hset_ne g (by omega)]; exact (hup g (by omega) h2).1)
    -- the queues after one advance
    have hq' : ∀ g, f + 1 ≤ g → g < nbF → remQ exts mx (rep'.set f i) g = (remQ exts mx s.rep g).tail := by
      intro g h1 h2
      unfold remQ; rw [hset_ne g (by omega)]; exact (hup g h1 h2).2.2.2.1
    have hrems : remsFrom exts mx (rep'.set f i) nbF (f + 1) = (remsFrom exts mx s.rep nbF (f + 1)).map List.tail :=
      remsFrom_congr List.tail hq'
    have hseg : seg exts i hi f = e :: seg exts (i + 1) hi f := by
      rw [seg_step exts i hi f e hlt hget]; simp [hfn]
    have hR : repCount (seg exts i hi f) (remsFrom exts mx s.rep nbF (f + 1)) =
        repCount (seg exts (i + 1) hi f) (remsFrom exts mx (rep'.set f i) nbF (f + 1)) + 1 := by
      rw [hseg, hrems]; simp [repCount, hcr]
    simp only at hspec
    rw [hR, hseg, List.take_succ_cons]
    generalize hR' : repCount (seg exts (i + 1) hi f) (remsFrom exts mx (rep'.set f i) nbF (f + 1)) = R' at hspec ⊢
    refine ⟨det, hdet, ⟨?_, hspec.len, ?_, ?_, fun h => by omega, ?_, ?_⟩⟩
    · have := hspec.cnt; simp only at this; omega
    · intro g hg
      rw [hspec.lower g hg]; simp only; rw [hset_ne g (by omega), hlow g (by omega)]
    · intro g h1 h2
      obtain ⟨u1, u2, u3, u4, u5⟩ := hspec.upper g h1 h2
      obtain ⟨a1, a2, a3, a4, a5⟩ := hup g (by omega) h2
      simp only at u2 u3 u4 u5
      rw [hset_ne g (by omega)] at u2 u3 u5
      refine ⟨u1, by omega, by omega, ?_, ?_⟩
      · rw [u4, hq' g (by omega) h2, drop_tail]
      · rw [seg_split exts g (by omega : s.rep.getD g 0 ≤ rep'.getD g 0) u2, a5, u5]
        have : remQ exts mx (rep'.set f i) g = (remQ exts mx s.rep g).tail := hq' g (by omega) h2
        rw [this, take_one_tail]
    · intro _
      by_cases hR0 : R' = 0
      · have hz := hspec.zero hR0
        simp only at hz
        rw [hz.1, hset_eq]
        refine ⟨Nat.le_refl _, hlt, ⟨e, hget, hfn⟩, ?_⟩
        rw [seg_empty exts f (Nat.le_refl _), hR0]; rfl
      · obtain ⟨p1, p2, p3, p4⟩ := hspec.pos (by omega)
        refine ⟨by omega, p2, p3, ?_⟩
        rw [seg_split exts f (show i ≤ i + 1 by omega) p1]
        have : seg exts i (i + 1) f = [e] := by
          rw [seg_step exts i (i + 1) f e (by omega) hget, seg_empty exts f (Nat.le_refl _)]; simp [hfn]
        rw [this]; simp only [List.singleton_append, List.length_cons]; omega
    · have hll := hspec.ll
      simp only at hll
      simp only [lastLongPos]
      have hlf : nbF - 1 ≠ f := by omega
      obtain ⟨a1, a2, a3, a4, a5⟩ := hup (nbF - 1) (by omega) (by omega)
      cases hlp : lastLongPos (List.take R' (seg exts (i + 1) hi f)) with
      | some k =>
        rw [hlp] at hll
        obtain ⟨jL, j1, j2, j3, j4, j5⟩ := hll
        rw [hset_ne _ hlf] at j3 j5
        refine ⟨jL, j1, j2, by omega, j4, ?_⟩
        rw [seg_split exts (nbF - 1) (by omega : s.rep.getD (nbF - 1) 0 ≤ rep'.getD (nbF - 1) 0) j3, a5, List.length_append, j5]
        obtain ⟨x, hx, _⟩ := hheads (nbF - 1) (by omega) (by omega)
        cases hq : remQ exts mx s.rep (nbF - 1) with
        | nil => rw [hq] at hx; cases hx
        | cons y ys => simp; omega
      | none =>
        rw [hlp] at hll
        simp only at hll ⊢
        rw [hll, hLv]
        by_cases h32 : 32 ≤ e.id
        · simp only [h32, if_true]
          obtain ⟨e', he1, he2, _⟩ := clean_head (hc (nbF - 1) (by omega) (by omega)) (hne (nbF - 1) (by omega) (by omega))
            (hmx (nbF - 1) (by omega))
          exact ⟨_, rfl, ⟨e', he1, he2⟩, Nat.le_refl _, hne (nbF - 1) (by omega) (by omega), by
            rw [seg_empty exts (nbF - 1) (Nat.le_refl _)]; rfl⟩
        · simp only [h32, if_false]
  | case3 i s hlt e he hfe hcr h1 =>
    intro hrl hc; exfalso
    split at h1
    · rw [rdN_getD (by omega)] at h1; cases h1
    · cases h1
  | case4 i s hlt e he hfe hcr h1 h2 =>
    intro hrl hc; exfalso
    obtain ⟨⟨r, hr⟩, _⟩ := detect_aux hv hmxl hmx f hf s e hrl hc hcr
    rw [hr] at h1; cases h1
  | case5 i s hlt e he hfe hcr er h1 h2 =>
    intro hrl hc; exfalso
    split at h1
    · rw [rdN_getD (by omega)] at h1; cases h1
    · cases h1
  | case6 i s hlt e he hfe hcr er h1 h2 h3 =>
    intro hrl hc; exfalso
    obtain ⟨⟨r, hr⟩, _⟩ := detect_aux hv hmxl hmx f hf s e hrl hc hcr
    rw [hr] at h1; cases h1
  | case7 i s hlt e he hfe hcr h1 h2 h3 h4 h5 =>
    intro hrl hc; exfalso
    obtain ⟨⟨r, hr⟩, _⟩ := detect_aux hv hmxl hmx f hf s e hrl hc hcr
    refine h5 (if 32 ≤ e.id then some (s.rep.getD (nbF - 1) 0) else s.lastLong) r ?_ hr
    split
    · rw [rdN_getD (by omega)]
    · rfl
  | case8 i s hlt e he hfe er hcr =>
    intro hrl hc; exfalso
    rw [canRepeat_spec hv hmxl hmx s.rep hrl e (f + 1) (fun g h1 h2 => hc g (by omega) h2)] at hcr; cases hcr
  | case9 i s hlt e he hfe hcr =>
    intro hrl hc; exfalso
    rw [canRepeat_spec hv hmxl hmx s.rep hrl e (f + 1) (fun g h1 h2 => hc g (by omega) h2)] at hcr; cases hcr
  | case10 i s hlt e he hfe hcr =>
    intro hrl hc; exfalso
    rw [canRepeat_spec hv hmxl hmx s.rep hrl e (f + 1) (fun g h1 h2 => hc g (by omega) h2)] at hcr; cases hcr
  | case11 i s hlt e he hfe ih =>
    intro hrl hc
    have hget := rdE_some he
    have hfn : ¬ e.frame.toNat = f := by have := (hv _ _ hget).fr_lo; omega
    obtain ⟨det, hdet, hspec⟩ := ih hrl hc
    have hseg : seg exts i hi f = seg exts (i + 1) hi f := by
      rw [seg_step exts i hi f e hlt hget]; simp [hfn]
    rw [hseg]
    refine ⟨det, hdet, ⟨hspec.cnt, hspec.len, hspec.lower, hspec.upper, hspec.zero, ?_, hspec.ll⟩⟩
    intro hR
    obtain ⟨p1, p2, p3, p4⟩ := hspec.pos hR
    refine ⟨by omega, p2, p3, ?_⟩
    rw [seg_split exts f (show i ≤ i + 1 by omega) p1]
    have : seg exts i (i + 1) f = [] := by
      rw [seg_step exts i (i + 1) f e (by omega) hget, seg_empty exts f (Nat.le_refl _)]; simp [hfn]
    rw [this]; exact p4
  | case12 i s hlt er he =>
    intro _ _; exfalso
    simp only [rdE] at he
    rw [Array.getElem?_eq_getElem (by omega)] at he; cases he
  | case13 i s hlt he =>
    intro _ _; exfalso
    simp only [rdE] at he
    rw [Array.getElem?_eq_getElem (by omega)] at he; cases he
  | case14 i s hlt he =>
    intro _ _; exfalso
    simp only [rdE] at he
    rw [Array.getElem?_eq_getElem (by omega)] at he; cases he
  | case15 i s hge =>
    intro hrl hc
    have hR : repCount (seg exts i hi f) (remsFrom exts mx s.rep nbF (f + 1)) = 0 := by
      rw [seg_empty exts f (by omega)]; rfl
    rw [hR]
    exact ⟨s, rfl, ⟨by omega, hrl, fun _ _ => rfl, fun g h1 h2 => ⟨hc g h1 h2, Nat.le_refl _, Nat.le_max_left _ _, by simp, by
      simp [seg_empty exts g (Nat.le_refl _)]⟩, fun _ => ⟨rfl, rfl⟩, fun h => by omega, by simp [lastLongPos]⟩⟩

end
end Opus.ExtProofs
