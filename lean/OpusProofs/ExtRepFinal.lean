import OpusProofs.ExtRepGen5
import OpusProofs.ExtParseExt
/-
  C16 helper lemmas, part 23: the full round trip — the generator writes `serAll` of the queues, iteration
  over those bytes reports `expAll` of the queues, which is, frame by frame, the original array.
-/
set_option linter.unusedVariables false
namespace Opus.ExtProofs
open Opus Opus.Ext

/-! ### `expAll` is a frame-stable rearrangement of the queues -/

theorem filter_all {l : List Ext} {t : Nat} (h : ∀ e ∈ l, e.frame.toNat = t) : l.filter (fun e => e.frame.toNat = t) = l := by
  rw [List.filter_eq_self]; intro a ha; simpa using h a ha

theorem filter_none {l : List Ext} {t g : Nat} (h : ∀ e ∈ l, e.frame.toNat = g) (hne : g ≠ t) :
    l.filter (fun e => e.frame.toNat = t) = [] := by
  rw [List.filter_eq_nil_iff]; intro a ha; have := h a ha; simp; omega

/-- Frame `t` of a flattened list of per-frame lists (frames `g0, g0+1, …`). -/
theorem flatten_filter : ∀ (rs : List (List Ext)) (g0 : Nat),
    (∀ (j : Nat) (r : List Ext), rs[j]? = some r → ∀ e ∈ r, e.frame.toNat = g0 + j) →
    ∀ t, rs.flatten.filter (fun e => e.frame.toNat = t) = if g0 ≤ t then (rs[t - g0]?).getD [] else [] := by
  intro rs
  induction rs with
  | nil => intro g0 _ t; simp
  | cons r rs ih =>
    intro g0 h t
    have hr : ∀ e ∈ r, e.frame.toNat = g0 := by intro e he; have := h 0 r rfl e he; simpa using this
    have ih' := ih (g0 + 1) (fun j r' hj e he => by have := h (j + 1) r' (by simpa using hj) e he; omega) t
    rw [List.flatten_cons, List.filter_append, ih']
    by_cases h1 : g0 = t
    · subst h1
      rw [filter_all hr]
      have : ¬ (g0 + 1 ≤ g0) := by omega
      simp [this]
    · rw [filter_none hr h1]
      by_cases h2 : g0 ≤ t
      · have h3 : g0 + 1 ≤ t := by omega
        have h4 : t - g0 = (t - (g0 + 1)) + 1 := by omega
        simp only [h2, h3, if_true, List.nil_append]
        rw [h4]; simp
      · have h3 : ¬ (g0 + 1 ≤ t) := by omega
        simp [h2, h3]

theorem expAll_filter (nbF : Nat) : ∀ (m : Nat) (rems : List (List Ext)) (f : Nat), rems.length = m → QOk nbF f rems →
    ∀ t, (expAll rems).filter (fun e => e.frame.toNat = t) = if f ≤ t then (rems[t - f]?).getD [] else [] := by
  intro m
  induction m with
  | zero =>
    intro rems f h _ t
    have : rems = [] := List.eq_nil_of_length_eq_zero h
    subst this; rw [expAll]; simp
  | succ m ih =>
    intro rems f hlen hq t
    cases rems with
    | nil => simp at hlen
    | cons a later =>
      obtain ⟨hq1, hq2⟩ := hq
      have ha : ∀ e ∈ a, e.frame.toNat = f := by intro e he; have := (hq2 0 a rfl e he).2; simpa using this
      rw [expAll_cons]
      generalize blockR a later = R
      have hqt := QOk.tail ⟨hq1, hq2⟩ R
      have ih' := ih (later.map (List.drop R)) (f + 1) (by simpa using hlen) hqt t
      have hflat := flatten_filter (later.map (List.take R)) (f + 1) (fun j r hj e he => by
        rw [List.getElem?_map] at hj
        cases hl : later[j]? with
        | none => rw [hl] at hj; cases hj
        | some r0 =>
          rw [hl] at hj; simp only [Option.map_some, Option.some.injEq] at hj; subst hj
          have := (hq2 (j + 1) r0 (by simpa using hl) e (List.mem_of_mem_take he)).2
          omega) t
      simp only [List.filter_append, ih', hflat]
      by_cases h1 : f = t
      · subst h1
        rw [filter_all (fun e he => ha e (List.mem_of_mem_take he)), filter_all (fun e he => ha e (List.mem_of_mem_drop he))]
        have : ¬ (f + 1 ≤ f) := by omega
        simp [this]
      · rw [filter_none (fun e he => ha e (List.mem_of_mem_take he)) h1, filter_none (fun e he => ha e (List.mem_of_mem_drop he)) h1]
        by_cases h2 : f ≤ t
        · have h3 : f + 1 ≤ t := by omega
          have h4 : t - f = (t - (f + 1)) + 1 := by omega
          simp only [h2, h3, if_true, List.nil_append, List.append_nil]
          rw [h4]
          simp only [List.getElem?_cons_succ, List.getElem?_map]
          cases later[t - (f + 1)]? with
          | none => simp
          | some r => simp
        · have h3 : ¬ (f + 1 ≤ t) := by omega
          simp [h2, h3]

theorem expAll_length (nbF : Nat) : ∀ (m : Nat) (rems : List (List Ext)) (f : Nat), rems.length = m → QOk nbF f rems →
    (expAll rems).length = total rems := by
  intro m
  induction m with
  | zero => intro rems f h _; have : rems = [] := List.eq_nil_of_length_eq_zero h
            subst this; rw [expAll]; rfl
  | succ m ih =>
    intro rems f hlen hq
    cases rems with
    | nil => simp at hlen
    | cons a later =>
      rw [expAll_cons, total_cons]
      generalize blockR a later = R
      have ih' := ih (later.map (List.drop R)) (f + 1) (by simpa using hlen) (QOk.tail hq R)
      have hfl : ∀ (l : List (List Ext)), ((l.map (List.take R)).flatten).length + total (l.map (List.drop R)) = total l := by
        intro l
        induction l with
        | nil => rfl
        | cons r rs ihr =>
          simp only [List.map_cons, List.flatten_cons, List.length_append, total_cons, List.length_take, List.length_drop]
          omega
      simp only [List.length_append, ih', List.length_take, List.length_drop]
      have := hfl later
      omega

/-! ### The generator writes `serAll` of the queues -/

theorem queues_eq_remsFrom {exts : Array Ext} {nbF : Nat} {mn mx : List Nat} (hI : ScanInv exts nbF exts.size mn mx) :
    remsFrom exts mx mn nbF 0 = queues exts nbF := by
  unfold remsFrom queues
  rw [Nat.sub_zero, ← List.range_eq_range']
  apply List.map_congr_left
  intro g hg
  rw [List.mem_range] at hg
  exact seg_all hI hg

theorem total_queues (exts : Array Ext) (nbF : Nat) (hv : AllValid exts nbF) : total (queues exts nbF) = exts.size := by
  rw [← sortedFrom_length exts nbF hv]
  unfold sortedFrom queues total
  rw [Nat.sub_zero, ← List.range_eq_range', List.length_flatMap, List.map_map]
  rfl

theorem queues_QOk (exts : Array Ext) (nbF : Nat) (hv : AllValid exts nbF) : QOk nbF 0 (queues exts nbF) := by
  refine ⟨by simp [queues], ?_⟩
  intro i r hr e he
  unfold queues at hr
  rw [List.getElem?_map] at hr
  cases hg : (List.range nbF)[i]? with
  | none => rw [hg] at hr; cases hr
  | some g =>
    rw [hg] at hr; simp only [Option.map_some, Option.some.injEq] at hr; subst hr
    have hlt : i < (List.range nbF).length := by
      apply Decidable.byContradiction; intro hc
      rw [List.getElem?_eq_none (by omega)] at hg; cases hg
    rw [List.getElem?_eq_getElem hlt, List.getElem_range] at hg
    simp only [Option.some.injEq] at hg; subst hg
    unfold allOf at he
    rw [List.mem_filter] at he
    obtain ⟨j, hj⟩ := List.mem_iff_getElem?.mp he.1
    exact ⟨hv j e (by simpa using hj), by simpa using he.2⟩

theorem sortedFrom_lengthIF (exts : Array Ext) (nbF : Nat) (hv : AllIF exts nbF) : (sortedFrom exts nbF 0).length = exts.size := by
  have := sortedFrom_length_aux exts nbF nbF 0 (by omega)
  have h0 : (exts.toList.filter (fun e => e.frame.toNat < 0)).length = 0 := by
    rw [List.length_eq_zero_iff, List.filter_eq_nil_iff]
    intro a _; rw [decide_eq_true_eq]; omega
  have h1 : exts.toList.filter (fun e => e.frame.toNat < nbF) = exts.toList := by
    rw [List.filter_eq_self]
    intro a ha
    obtain ⟨j, hj⟩ := List.mem_iff_getElem?.mp ha
    have hva := hv j a (by simpa using hj)
    have := hva.fr_lo; have := hva.fr_hi
    rw [decide_eq_true_eq]; omega
  rw [h0, h1, Array.length_toList] at this
  omega

theorem total_queuesIF (exts : Array Ext) (nbF : Nat) (hv : AllIF exts nbF) : total (queues exts nbF) = exts.size := by
  rw [← sortedFrom_lengthIF exts nbF hv]
  unfold sortedFrom queues total
  rw [Nat.sub_zero, ← List.range_eq_range', List.length_flatMap, List.map_map]
  rfl

theorem seg_mem_idx {exts : Array Ext} {i hi g : Nat} {e : Ext} (he : e ∈ seg exts i hi g) : ∃ j : Nat, exts[j]? = some e := by
  unfold seg at he
  rw [List.mem_filter] at he
  obtain ⟨j, hj⟩ := List.mem_iff_getElem?.mp (List.mem_of_mem_take he.1)
  rw [List.getElem?_drop] at hj
  exact ⟨_, by simpa using hj⟩

/-- The action sequence of the generator for EVERY array whose IDs and frame indices are valid, both outcomes:
    with admissible payload lengths it ends normally and writes `serAll` of the per-frame queues;
    with an inadmissible payload length anywhere (negative, or more than 1 for a short ID) it ends in `OPUS_BAD_ARG`. -/
theorem genOps_gen (exts : Array Ext) (nbF : Nat) (hnf : nbF ≤ 48) (hv : AllIF exts nbF) (hD : ExtsOk exts) :
    ((∀ (j : Nat) (e : Ext), exts[j]? = some e → LenOk e) →
      (genOps exts nbF).res = .ok () ∧
      content false (genOps exts nbF).ops = serAll exts.size (queues exts nbF) 0 0) ∧
    ((∃ (j : Nat) (e : Ext), exts[j]? = some e ∧ ¬ LenOk e) → (genOps exts nbF).res = .err .badArg) := by
  obtain ⟨mn, mx, hscan, hI⟩ := scanLoop_specIF exts nbF hv 0 _ _ (scanInv_init exts nbF) (Nat.zero_le _)
  have hFI : FInv exts mx nbF 0 { written := 0, currFrame := 0, minIdx := mn, repIdx := mn } := by
    refine ⟨hI.lmn, hI.lmn, fun _ _ _ => rfl, ?_, ?_, Nat.le_refl _⟩
    · intro g _ hg e he hlt
      rcases hI.first g hg with h | ⟨_, e', he', hf'⟩
      · have := hI.mxle g hg; simp only at hlt; omega
      · simp only at he; rw [he'] at he; cases he; exact hf'
    · intro g _ hg
      rcases hI.first g hg with h | ⟨h, _⟩
      · simp only; omega
      · simp only; omega
  have hcount : (0 : Nat) + total (remsFrom exts mx mn nbF 0) = exts.size := by
    rw [queues_eq_remsFrom hI, total_queuesIF exts nbF hv]; omega
  unfold genOps
  rw [hscan, W.lift_ok_bind]
  simp only
  constructor
  · intro hL
    obtain ⟨sF, h1, h2, h3⟩ := wFramesLoop_spec hv hD hnf hI.lmx hI.mxle hI.lastp 0 _ hFI hcount
      (fun g _ _ x hx => by obtain ⟨j, hj⟩ := seg_mem_idx hx; exact hL j x hj)
    simp only at h3
    rw [queues_eq_remsFrom hI] at h3
    rw [W.bind_of_ok _ h1]
    have : ¬ (sF.written ≠ exts.size) := by omega
    simp only [this, if_false, W.pure_eq, List.append_nil]
    exact ⟨trivial, h3⟩
  · rintro ⟨j, e, he, hb⟩
    have hif := hv j e he
    have hg : e.frame.toNat < nbF := by have := hif.fr_lo; have := hif.fr_hi; omega
    refine W.bind_of_err _ (wFramesLoop_bad hv hD hnf hI.lmx hI.mxle hI.lastp 0 _ hFI hcount
      ⟨e.frame.toNat, Nat.zero_le _, hg, e, ?_, hb⟩)
    unfold remQ
    simp only
    rw [seg_all hI hg]
    unfold allOf
    rw [List.mem_filter]
    exact ⟨List.mem_iff_getElem?.mpr ⟨j, by simpa using he⟩, by simp⟩

/-- For EVERY array of valid extensions the action sequence of the generator ends normally and writes
    `serAll` of the per-frame queues. -/
theorem genOps_full (exts : Array Ext) (nbF : Nat) (hnf : nbF ≤ 48) (hv : AllValid exts nbF) :
    (genOps exts nbF).res = .ok () ∧
    content false (genOps exts nbF).ops = serAll exts.size (queues exts nbF) 0 0 :=
  (genOps_gen exts nbF hnf (fun j e h => (hv j e h).toIF) (allValid_extsOk hv)).1 (fun j e h => (hv j e h).lenOk)

/-- **Inadmissible payload length.**  IDs and frame indices valid, but some extension has a negative length or a
    short ID (3..31) with a length above 1: `generate` never succeeds.  It returns `OPUS_BAD_ARG`, unless one of the
    buffer checks made on the way to that extension fails first (`OPUS_BUFFER_TOO_SMALL`, as in C); if the buffer
    passes all those checks (`req … ≤ len`) the result is exactly `OPUS_BAD_ARG`. -/
theorem generate_badLen (dry : Bool) (len : Int) (exts : Array Ext) (nbF : Nat) (pad : Bool) (hl : 0 ≤ len)
    (hnf : nbF ≤ 48) (hv : AllIF exts nbF) (hD : ExtsOk exts)
    (hB : ∃ (j : Nat) (e : Ext), exts[j]? = some e ∧ ¬ LenOk e) :
    generate dry len exts nbF pad =
      (if needsPass len 0 (genOps exts nbF).ops then .err .badArg else .err .bufferTooSmall) ∧
    (req (genOps exts nbF).ops ≤ len → generate dry len exts nbF pad = .err .badArg) := by
  have hres := (genOps_gen exts nbF hnf hv hD).2 hB
  have heq : generate dry len exts nbF pad =
      (if needsPass len 0 (genOps exts nbF).ops then .err .badArg else .err .bufferTooSmall) := by
    rw [generate_eq dry len exts nbF pad hD hl (by omega)]
    simp only [Int.toNat_natCast, hres]
  refine ⟨heq, fun hr => ?_⟩
  rw [heq, if_pos (needsPass_of_req len _ 0 (by simpa using hr))]

theorem allIF_of_all (exts : Array Ext) (nbF : Nat)
    (h : ∀ e ∈ exts.toList, 3 ≤ e.id ∧ e.id ≤ 127 ∧ 0 ≤ e.frame ∧ e.frame < (nbF : Int)) : AllIF exts nbF := by
  intro j e he
  have := h e (List.mem_iff_getElem?.mpr ⟨j, by simpa using he⟩)
  exact ⟨this.1, this.2.1, this.2.2.1, this.2.2.2⟩

/-- `nb_repeated = repeat_count*(nb_frames - (f + 1))` and `written + nb_repeated` (extensions.c:588-589): with
    `w` extensions written before frame `f`, `a` the queue of frame `f`, `later` the queues of the later frames and
    `w + |a| + Σ|later| = nb_extensions`, the products and sums are at most `nb_extensions` (each repeated
    extension is a distinct, not yet written array entry). -/
theorem repeat_count_le (a : List Ext) (later : List (List Ext)) (w n : Nat) (h : w + a.length + total later = n) :
    blockR a later ≤ a.length ∧ blockR a later * later.length ≤ n ∧
    w + blockR a later + blockR a later * later.length ≤ n := by
  by_cases h0 : 0 < blockR a later
  · obtain ⟨_, hr⟩ := blockR_pos h0
    obtain ⟨h1, h2⟩ := repCount_spec a later
    rw [← hr] at h1 h2
    have := total_map_drop (blockR a later) later (fun r hr => (h2 r hr).1)
    omega
  · have : blockR a later = 0 := by omega
    rw [this]; omega

/-! ### The full round trip -/

theorem toExt_frame (bs : Bytes) (r : ExtRef) : (ExtRef.toExt bs r).frame.toNat = r.frame := by
  simp [ExtRef.toExt]

/-- Core of the round trip, with the iteration exposed. **Round trip through the repeat mechanism.**  For EVERY array of valid extensions and every buffer
    that is large enough, `generate` succeeds; `parse` on the bytes it wrote succeeds, returns one entry
    per extension, and — frame by frame — the entries are exactly the extensions of that frame, in
    array order, with identical IDs, lengths and payload bytes. -/
theorem generate_iter_full (exts : Array Ext) (nbF : Nat) (hnf : nbF ≤ 48) (hv : AllValid exts nbF) (len : Int)
    (hlen : ((serAll exts.size (queues exts nbF) 0 0).length : Int) ≤ len) (cap : Int) (hcap : (exts.size : Int) ≤ cap) :
    let bs := serAll exts.size (queues exts nbF) 0 0
    generate false len exts nbF false = .ok bs.toArray ∧
    ∃ it refs, iterInit bs bs.length nbF = .ok it ∧ iterAll it = .ok (refs, .done) ∧
      parse bs bs.length cap nbF = .ok refs ∧ refs.length = exts.size ∧
      refs.map (ExtRef.toExt bs) = (expAll (queues exts nbF)).map normExt ∧
      ∀ g, (refs.filter (fun r => r.frame = g)).map (ExtRef.toExt bs) = (allOf exts g).map normExt := by
  intro bs
  have hE := allValid_extsOk hv
  obtain ⟨hres, hcontent⟩ := genOps_full exts nbF hnf hv
  have hN := genOps_nice exts hE nbF
  have hsize : opsSize (genOps exts nbF).ops = bs.length := by
    rw [← content_length false _ (Or.inr hN.copy), hcontent]
  have hq := queues_QOk exts nbF hv
  have htq := total_queues exts nbF hv
  constructor
  · rw [generate_eq false len exts nbF false hE (by omega) (by omega)]
    simp only [Int.toNat_natCast]
    have hp : needsPass len 0 (genOps exts nbF).ops := by
      apply needsPass_of_req
      have := hN.hon () hres
      rw [hsize] at this
      have hbl : bs.length = (serAll exts.size (queues exts nbF) 0 0).length := rfl
      omega
    simp only [hp, if_true, hcontent, hres]
    rfl
  · -- iteration over the bytes
    have hinit : ∃ it, iterInit bs bs.length nbF = .ok it ∧ St bs.toArray nbF 0 0 it ∧ it.repeatData = 0 ∧ it.lastLong = none := by
      unfold iterInit
      have h1 : ¬ ((bs.length : Int) < 0) := by omega
      have h2 : ¬ ((nbF : Int) < 0 ∨ (nbF : Int) > 48) := by omega
      simp only [h1, h2, if_false]
      exact ⟨_, rfl, ⟨by simp, by simp, rfl, by simp, rfl, rfl, by simp, rfl⟩, rfl, rfl⟩
    obtain ⟨it, hit, hst, hrd, hll⟩ := hinit
    have hat : At bs.toArray 0 bs := by intro i hi; simp
    obtain ⟨it', cur', hsteps, hst'⟩ := serAll_steps (d := bs.toArray) (nbF := nbF) (n := exts.size) _ (queues exts nbF) 0 0 0 0 it rfl hq
      (by omega) (Nat.le_refl _) hst (fun _ => ⟨0, by rw [hrd], by intro i hi; simp at hi, hll⟩) hat (by simp; rfl)
    have hend := iterAll_end (by simpa using hst' : St bs.toArray nbF bs.toArray.size cur' it')
    obtain ⟨rs, hall, hmap⟩ := hsteps [] .done hend
    simp only [List.append_nil] at hall hmap
    have hrslen : rs.length = exts.size := by
      have := congrArg List.length hmap
      simp only [List.length_map] at this
      rw [this, expAll_length nbF _ (queues exts nbF) 0 rfl hq, htq]
    refine ⟨it, rs, hit, hall, ?_, hrslen, hmap, ?_⟩
    · unfold parse
      rw [hit]
      simp only
      rw [parseLoop_iterAll it _ _ hall cap #[] (by simp; omega)]
      have : ¬ (cap < ((#[] : Array ExtRef).size : Int) + (rs.length : Int)) := by rw [hrslen]; simp; omega
      rw [if_neg this]
      simp
    · intro g
      have h1 : (rs.filter (fun r => r.frame = g)).map (ExtRef.toExt bs) =
          (rs.map (ExtRef.toExt bs)).filter (fun e => e.frame.toNat = g) := by
        rw [List.filter_map]
        congr 1
      rw [h1, hmap]
      have h2 : ((expAll (queues exts nbF)).map normExt).filter (fun e => e.frame.toNat = g) =
          ((expAll (queues exts nbF)).filter (fun e => e.frame.toNat = g)).map normExt := by
        rw [List.filter_map]
        congr 1
      rw [h2, expAll_filter nbF _ (queues exts nbF) 0 rfl hq g]
      simp only [Nat.zero_le, if_true, Nat.sub_zero]
      unfold queues
      rw [List.getElem?_map]
      by_cases hg : g < nbF
      · rw [List.getElem?_eq_getElem (by simpa using hg)]; simp
      · rw [List.getElem?_eq_none (by simpa using hg)]
        simp only [Option.map_none, Option.getD_none, List.map_nil]
        symm
        rw [List.map_eq_nil_iff]
        unfold allOf
        rw [List.filter_eq_nil_iff]
        intro e he
        obtain ⟨j, hj⟩ := List.mem_iff_getElem?.mp he
        have hve := hv j e (by simpa using hj)
        have := hve.fr_lo; have := hve.fr_hi
        simp; omega

/-- **Round trip through the repeat mechanism.**  For EVERY array of valid extensions and every buffer
    that is large enough, `generate` succeeds; `parse` on the bytes it wrote succeeds, returns one entry
    per extension, and — frame by frame — the entries are exactly the extensions of that frame, in
    array order, with identical IDs, lengths and payload bytes. -/
theorem generate_parse_full (exts : Array Ext) (nbF : Nat) (hnf : nbF ≤ 48) (hv : AllValid exts nbF) (len : Int)
    (hlen : ((serAll exts.size (queues exts nbF) 0 0).length : Int) ≤ len) (cap : Int) (hcap : (exts.size : Int) ≤ cap) :
    let bs := serAll exts.size (queues exts nbF) 0 0
    generate false len exts nbF false = .ok bs.toArray ∧
    ∃ refs, parse bs bs.length cap nbF = .ok refs ∧ refs.length = exts.size ∧
      refs.map (ExtRef.toExt bs) = (expAll (queues exts nbF)).map normExt ∧
      ∀ g, (refs.filter (fun r => r.frame = g)).map (ExtRef.toExt bs) = (allOf exts g).map normExt := by
  intro bs
  obtain ⟨h1, it, refs, _, _, h2, h3, h4, h5⟩ := generate_iter_full exts nbF hnf hv len hlen cap hcap
  exact ⟨h1, refs, h2, h3, h4, h5⟩

/-- `parse_ext` on the generated bytes: all extensions, sorted by frame, in the original per-frame order. -/
theorem generate_parse_ext_full (exts : Array Ext) (nbF : Nat) (hnf : nbF ≤ 48) (hv : AllValid exts nbF) (len : Int)
    (hlen : ((serAll exts.size (queues exts nbF) 0 0).length : Int) ≤ len) (cap : Int) (hcap : (exts.size : Int) ≤ cap) :
    let bs := serAll exts.size (queues exts nbF) 0 0
    generate false len exts nbF false = .ok bs.toArray ∧
    ∃ (counts : List Nat) (out : List ExtRef), countExt bs bs.length nbF = .ok (exts.size, counts) ∧
      parseExt bs bs.length cap (counts.map Int.ofNat) nbF = .ok (out.map some) ∧
      out.map (ExtRef.toExt bs) = (sortedFrom exts nbF 0).map normExt := by
  intro bs
  obtain ⟨h1, it, refs, hit, hall, h2, h3, h4, h5⟩ := generate_iter_full exts nbF hnf hv len hlen exts.size (Int.le_refl _)
  refine ⟨h1, ?_⟩
  -- what the readers say about these bytes
  have hfr : ∀ e ∈ refs, e.frame < nbF := by
    have hbs : BytesOk bs ∨ True := Or.inr trivial
    intro e he
    -- from the decoded list: every entry decodes to a valid extension
    have hmem : ExtRef.toExt bs e ∈ (expAll (queues exts nbF)).map normExt := by rw [← h4]; exact List.mem_map_of_mem he
    rw [List.mem_map] at hmem
    obtain ⟨x, hx, hxe⟩ := hmem
    have hq := queues_QOk exts nbF hv
    -- `x` belongs to some queue, hence is valid
    have hxf : x.frame.toNat < nbF := by
      have hflt := expAll_filter nbF _ (queues exts nbF) 0 rfl hq x.frame.toNat
      have hxin : x ∈ (expAll (queues exts nbF)).filter (fun e => e.frame.toNat = x.frame.toNat) := by
        rw [List.mem_filter]; exact ⟨hx, by simp⟩
      rw [hflt] at hxin
      simp only [Nat.zero_le, if_true, Nat.sub_zero] at hxin
      apply Decidable.byContradiction; intro hc
      unfold queues at hxin
      rw [List.getElem?_eq_none (by simpa using hc)] at hxin
      simp at hxin
    have : (ExtRef.toExt bs e).frame.toNat = e.frame := toExt_frame bs e
    rw [← hxe] at this
    simp only [normExt] at this
    omega
  have hcx : countExt bs bs.length nbF = .ok (refs.length, (List.range nbF).map (frameCount refs)) := by
    unfold countExt; rw [hit]; simp only
    have hnb : it.nbFrames = nbF := by
      unfold iterInit at hit
      split at hit
      · cases hit
      · split at hit
        · cases hit
        · simp only [Res.ok.injEq] at hit; subst hit; simp
    rw [countExtLoop_iterAll it refs .done hall 0 _ (by intro e he; simp only [List.length_replicate, hnb]; exact hfr e he), hnb]
    have hbump : bump (List.replicate nbF 0) refs = (List.range nbF).map (frameCount refs) := by
      apply List.ext_getElem
      · simp [bump_length]
      · intro i hi1 hi2
        have hi : i < nbF := by simpa [bump_length] using hi1
        have := bump_getD (List.replicate nbF 0) refs i (by simpa using hi)
        simp only [List.getD, List.getElem?_eq_getElem hi1, Option.getD_some] at this
        rw [this]; simp [hi]
    rw [hbump]; simp
  have hpx := parseExt_sorted bs nbF hnf it refs .done hit hall hfr cap (by omega)
  simp only [if_true] at hpx
  refine ⟨_, sortByFrame refs nbF, by rw [← h3]; exact hcx, by rw [List.map_map]; exact hpx, ?_⟩
  unfold sortByFrame sortedFrom
  rw [Nat.sub_zero, ← List.range_eq_range', List.map_flatMap, List.map_flatMap]
  generalize List.range nbF = l
  induction l with
  | nil => rfl
  | cons g l ih =>
    simp only [List.flatMap_cons, ih]
    congr 1
    exact h5 g

/-- The same round trip when the extension block is preceded by `k` padding bytes `01` (what `generate`
    with `pad = 1` and the repacketizer's padding path produce): the reader skips them, also when it
    replays a repeat block whose source region starts at the first padding byte. -/
theorem parse_padded_full (exts : Array Ext) (nbF : Nat) (hnf : nbF ≤ 48) (hnf0 : 0 < nbF) (hv : AllValid exts nbF) (k : Nat)
    (cap : Int) (hcap : (exts.size : Int) ≤ cap) :
    let bs := serAll exts.size (queues exts nbF) 0 0
    let x := List.replicate k 1 ++ bs
    ∃ refs, parse x x.length cap nbF = .ok refs ∧ refs.length = exts.size ∧
      refs.map (ExtRef.toExt x) = (expAll (queues exts nbF)).map normExt ∧
      ∀ g, (refs.filter (fun r => r.frame = g)).map (ExtRef.toExt x) = (allOf exts g).map normExt := by
  intro bs x
  have hq := queues_QOk exts nbF hv
  have htq := total_queues exts nbF hv
  have hinit : ∃ it, iterInit x x.length nbF = .ok it ∧ St x.toArray nbF 0 0 it ∧ it.repeatData = 0 ∧ it.lastLong = none := by
    unfold iterInit
    have h1 : ¬ ((x.length : Int) < 0) := by omega
    have h2 : ¬ ((nbF : Int) < 0 ∨ (nbF : Int) > 48) := by omega
    simp only [h1, h2, if_false]
    exact ⟨_, rfl, ⟨by simp, by simp, rfl, by simp, rfl, rfl, by simp, rfl⟩, rfl, rfl⟩
  obtain ⟨it, hit, hst, hrd, hll⟩ := hinit
  have hatx : At x.toArray 0 x := by intro i hi; simp
  obtain ⟨hat1, hat2⟩ := hatx.append
  simp only [Nat.zero_add, List.length_replicate] at hat2
  have hxlen : x.length = k + bs.length := by simp [x]
  obtain ⟨it1, hs1, hst1, hr1, hl1⟩ := ones_steps k 0 it hst hnf0 hat1 (by simp [hxlen])
  simp only [Nat.zero_add] at hst1
  obtain ⟨it', cur', hsteps, hst'⟩ := serAll_steps (d := x.toArray) (nbF := nbF) (n := exts.size) _ (queues exts nbF) 0 0 0 k it1 rfl hq
    (by omega) (Nat.le_refl _) hst1 (fun _ => ⟨k, by rw [hr1, hrd]; omega, by rw [hr1, hrd]; exact hat1, by rw [hl1, hll]⟩) hat2
    (by simp [hxlen]; rfl)
  have hend := iterAll_end (by simpa using hst' : St x.toArray nbF x.toArray.size cur' it')
  obtain ⟨rs, hall, hmap⟩ := (hs1.trans hsteps) [] .done hend
  simp only [List.append_nil, List.nil_append] at hall hmap
  have hrslen : rs.length = exts.size := by
    have := congrArg List.length hmap
    simp only [List.length_map] at this
    rw [this, expAll_length nbF _ (queues exts nbF) 0 rfl hq, htq]
  refine ⟨rs, ?_, hrslen, hmap, ?_⟩
  · unfold parse
    rw [hit]
    simp only
    rw [parseLoop_iterAll it _ _ hall cap #[] (by simp; omega)]
    have : ¬ (cap < ((#[] : Array ExtRef).size : Int) + (rs.length : Int)) := by rw [hrslen]; simp; omega
    rw [if_neg this]
    simp
  · intro g
    have h1 : (rs.filter (fun r => r.frame = g)).map (ExtRef.toExt x) =
        (rs.map (ExtRef.toExt x)).filter (fun e => e.frame.toNat = g) := by
      rw [List.filter_map]
      congr 1
    rw [h1, hmap]
    have h2 : ((expAll (queues exts nbF)).map normExt).filter (fun e => e.frame.toNat = g) =
        ((expAll (queues exts nbF)).filter (fun e => e.frame.toNat = g)).map normExt := by
      rw [List.filter_map]
      congr 1
    rw [h2, expAll_filter nbF _ (queues exts nbF) 0 rfl hq g]
    simp only [Nat.zero_le, if_true, Nat.sub_zero]
    unfold queues
    rw [List.getElem?_map]
    by_cases hg : g < nbF
    · rw [List.getElem?_eq_getElem (by simpa using hg)]; simp
    · rw [List.getElem?_eq_none (by simpa using hg)]
      simp only [Option.map_none, Option.getD_none, List.map_nil]
      symm
      rw [List.map_eq_nil_iff]
      unfold allOf
      rw [List.filter_eq_nil_iff]
      intro e he
      obtain ⟨j, hj⟩ := List.mem_iff_getElem?.mp he
      have hve := hv j e (by simpa using hj)
      have := hve.fr_lo; have := hve.fr_hi
      simp; omega

/-- `generate` with the padding request: the block is preceded by `01` bytes up to `len`. -/
theorem generate_padded (exts : Array Ext) (nbF : Nat) (hnf : nbF ≤ 48) (hv : AllValid exts nbF) (len : Int)
    (hlen : ((serAll exts.size (queues exts nbF) 0 0).length : Int) ≤ len) :
    generate false len exts nbF true =
      .ok (List.replicate (len.toNat - (serAll exts.size (queues exts nbF) 0 0).length) 1 ++ serAll exts.size (queues exts nbF) 0 0).toArray := by
  have hE := allValid_extsOk hv
  obtain ⟨hres, hcontent⟩ := genOps_full exts nbF hnf hv
  have hN := genOps_nice exts hE nbF
  have hsize : opsSize (genOps exts nbF).ops = (serAll exts.size (queues exts nbF) 0 0).length := by
    rw [← content_length false _ (Or.inr hN.copy), hcontent]
  rw [generate_eq false len exts nbF true hE (by omega) (by omega)]
  simp only [Int.toNat_natCast]
  have hp : needsPass len 0 (genOps exts nbF).ops := by
    apply needsPass_of_req
    have := hN.hon () hres
    rw [hsize] at this
    omega
  simp only [hp, if_true, hcontent, hres, hsize, true_and]
  by_cases hlt : ((serAll exts.size (queues exts nbF) 0 0).length : Int) < len
  · simp only [hlt, if_true, Bool.false_eq_true, if_false]
    apply congrArg
    apply Array.ext'
    simp
  · simp only [hlt, if_false]
    have : len.toNat - (serAll exts.size (queues exts nbF) 0 0).length = 0 := by omega
    rw [this]; simp

/-! ### Fixed point: parse ∘ generate ∘ parse = parse -/

theorem toExt_valid {x : Bytes} {nbF : Nat} {e : ExtRef}
    (h : 3 ≤ e.id ∧ e.id ≤ 127 ∧ e.frame < nbF ∧ 0 ≤ e.len ∧ (e.off : Int) + e.len ≤ x.length) (hs : e.id < 32 → e.len ≤ 1) :
    ValidExt nbF (ExtRef.toExt x e) ∧ normExt (ExtRef.toExt x e) = ExtRef.toExt x e := by
  obtain ⟨h1, h2, h3, h4, h5⟩ := h
  have hlen : ((x.drop e.off).take e.len.toNat).length = e.len.toNat := by
    simp only [List.length_take, List.length_drop]; omega
  refine ⟨⟨by simp [ExtRef.toExt]; omega, by simp [ExtRef.toExt]; omega, by simp [ExtRef.toExt], by simp [ExtRef.toExt]; omega,
    by simp [ExtRef.toExt]; omega, fun h => by simp only [ExtRef.toExt] at h ⊢; exact hs (by omega), ?_⟩, ?_⟩
  · simp only [ExtRef.toExt, hlen]; omega
  · simp only [normExt, payload, ExtRef.toExt]
    congr 1
    rw [List.take_of_length_le (by rw [hlen]; exact Nat.le_refl _)]

/-- **Fixed point.**  Whatever bytes `x` are parsed successfully, generating from the parsed extensions
    and parsing again gives — frame by frame, in order — extensions with the same IDs, lengths and payload
    bytes. -/
theorem parse_generate_parse (x : Bytes) (hb : BytesOk x) (nbF : Nat) (hnf : nbF ≤ 48) (cap0 : Int) (hcap0 : 0 ≤ cap0)
    (l : List ExtRef) (hp : parse x x.length cap0 nbF = .ok l) (len : Int) (cap : Int) (hcap : (l.length : Int) ≤ cap) :
    let exts := (l.map (ExtRef.toExt x)).toArray
    let bs := serAll exts.size (queues exts nbF) 0 0
    (bs.length : Int) ≤ len →
    generate false len exts nbF false = .ok bs.toArray ∧
    ∃ refs, parse bs bs.length cap nbF = .ok refs ∧ refs.length = l.length ∧
      ∀ g, (refs.filter (fun r => r.frame = g)).map (ExtRef.toExt bs) = (l.filter (fun r => r.frame = g)).map (ExtRef.toExt x) := by
  intro exts bs hlen
  obtain ⟨it, l0, s, hit, hall, hs, hext, _, _, _, hp1, hp2⟩ := scan_agree x hb nbF hnf
  obtain ⟨hI, _, _, _⟩ := iterInit_inv hb (Int.le_refl _) hit
  have hshort := iterAll_short hI hall
  -- `l` is the iteration list and iteration ended normally
  have hl : l = l0 ∧ s = .done := by
    by_cases hc : (l0.length : Int) ≤ cap0
    · rw [hp1 cap0 hc] at hp
      by_cases hd : s = .done
      · simp only [hd, if_true, Res.ok.injEq] at hp; exact ⟨hp.symm, hd⟩
      · simp only [hd, if_false] at hp; cases hp
    · rw [hp2 cap0 hcap0 (by omega)] at hp; cases hp
  obtain ⟨rfl, _⟩ := hl
  have hv : AllValid exts nbF := by
    intro j e hj
    have : e ∈ l.map (ExtRef.toExt x) := by
      have := List.mem_of_getElem? (l := (l.map (ExtRef.toExt x))) (by simpa [exts] using hj)
      exact this
    rw [List.mem_map] at this
    obtain ⟨r, hr, rfl⟩ := this
    exact (toExt_valid (hext r hr) (hshort r hr)).1
  have hsz : exts.size = l.length := by simp [exts]
  obtain ⟨h1, refs, h2, h3, _, h5⟩ := generate_parse_full exts nbF hnf hv len hlen cap (by rw [hsz]; exact hcap)
  refine ⟨h1, refs, h2, by rw [h3, hsz], ?_⟩
  intro g
  rw [h5 g]
  unfold allOf
  simp only [exts]
  rw [List.filter_map, List.map_map]
  have : (List.filter ((fun e => decide (e.frame.toNat = g)) ∘ ExtRef.toExt x) l) = l.filter (fun r => r.frame = g) := by
    apply List.filter_congr
    intro r _
    simp [toExt_frame]
  rw [this]
  apply List.map_congr_left
  intro r hr
  have hr' : r ∈ l := (List.mem_filter.mp hr).1
  exact (toExt_valid (hext r hr') (hshort r hr')).2

end Opus.ExtProofs
