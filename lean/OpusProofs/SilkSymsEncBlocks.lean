import OpusProofs.SilkSymsEncBasic
/-
  C08 × C03 composition, part 3: what the preparation part of `silk_encode_pulses` computes for one
  16-sample block (`mkBlock`): the down-scaling loop terminates by its own exit test, the scaled block
  sums to at most 16 (so every `shell_code_table_offsets` lookup is inside the table), `nRshifts ≤ 8 < 10`
  (so the decoder's ten-iteration bound on the LSB-count loop never binds), and a block that was scaled
  down is not empty (so encoder and decoder agree on which blocks carry signs).  Pure list arithmetic.
-/
namespace Opus.SilkSymsEncProofs
open Opus Opus.RangeCoder Opus.SilkSyms Opus.SilkSymsEnc Opus.SilkSymsFrozen.Icdf

theorem len_succ {α : Type} {l : List α} {n : Nat} (h : l.length = n + 1) : ∃ a t, l = a :: t ∧ t.length = n := by
  cases l with
  | nil => simp at h
  | cons a t => exact ⟨a, t, rfl, by simpa using h⟩

theorem list4 {α : Type} {l : List α} (h : l.length = 4) : ∃ a b c d, l = [a, b, c, d] := by
  obtain ⟨a, t1, rfl, h1⟩ := len_succ h
  obtain ⟨b, t2, rfl, h2⟩ := len_succ h1
  obtain ⟨c, t3, rfl, h3⟩ := len_succ h2
  obtain ⟨d, t4, rfl, h4⟩ := len_succ h3
  rw [List.length_eq_zero_iff] at h4
  subst h4
  exact ⟨a, b, c, d, rfl⟩

theorem list16 {α : Type} {l : List α} (h : l.length = 16) :
    ∃ a0 a1 a2 a3 a4 a5 a6 a7 a8 a9 a10 a11 a12 a13 a14 a15,
      l = [a0, a1, a2, a3, a4, a5, a6, a7, a8, a9, a10, a11, a12, a13, a14, a15] := by
  obtain ⟨a0, t0, rfl, h0⟩ := len_succ h
  obtain ⟨a1, t1, rfl, h1⟩ := len_succ h0
  obtain ⟨a2, t2, rfl, h2⟩ := len_succ h1
  obtain ⟨a3, t3, rfl, h3⟩ := len_succ h2
  obtain ⟨a4, t4, rfl, h4⟩ := len_succ h3
  obtain ⟨a5, t5, rfl, h5⟩ := len_succ h4
  obtain ⟨a6, t6, rfl, h6⟩ := len_succ h5
  obtain ⟨a7, t7, rfl, h7⟩ := len_succ h6
  obtain ⟨a8, t8, rfl, h8⟩ := len_succ h7
  obtain ⟨a9, t9, rfl, h9⟩ := len_succ h8
  obtain ⟨a10, t10, rfl, h10⟩ := len_succ h9
  obtain ⟨a11, t11, rfl, h11⟩ := len_succ h10
  obtain ⟨a12, t12, rfl, h12⟩ := len_succ h11
  obtain ⟨a13, t13, rfl, h13⟩ := len_succ h12
  obtain ⟨a14, t14, rfl, h14⟩ := len_succ h13
  obtain ⟨a15, t15, rfl, h15⟩ := len_succ h14
  rw [List.length_eq_zero_iff] at h15
  subst h15
  exact ⟨a0, a1, a2, a3, a4, a5, a6, a7, a8, a9, a10, a11, a12, a13, a14, a15, rfl⟩

/-! ### The shell limits -/

theorem maxPulses_eq : Gen.SilkEncBits.silk_max_pulses_table = [8, 10, 12, 16] := by decide

theorem fits16 (a0 a1 a2 a3 a4 a5 a6 a7 a8 a9 a10 a11 a12 a13 a14 a15 : Nat) :
    fitsShell [a0, a1, a2, a3, a4, a5, a6, a7, a8, a9, a10, a11, a12, a13, a14, a15] = true ↔
    (a0 + a1 ≤ 8 ∧ a2 + a3 ≤ 8 ∧ a4 + a5 ≤ 8 ∧ a6 + a7 ≤ 8 ∧ a8 + a9 ≤ 8 ∧ a10 + a11 ≤ 8 ∧ a12 + a13 ≤ 8 ∧
     a14 + a15 ≤ 8) ∧
    (a0 + a1 + (a2 + a3) ≤ 10 ∧ a4 + a5 + (a6 + a7) ≤ 10 ∧ a8 + a9 + (a10 + a11) ≤ 10 ∧ a12 + a13 + (a14 + a15) ≤ 10) ∧
    (a0 + a1 + (a2 + a3) + (a4 + a5 + (a6 + a7)) ≤ 12 ∧ a8 + a9 + (a10 + a11) + (a12 + a13 + (a14 + a15)) ≤ 12) ∧
    a0 + a1 + (a2 + a3) + (a4 + a5 + (a6 + a7)) + (a8 + a9 + (a10 + a11) + (a12 + a13 + (a14 + a15))) ≤ 16 := by
  simp only [fitsShell, maxPulses_eq, pairSums, List.getD_cons_zero, List.getD_cons_succ, List.all_cons, List.all_nil,
    Bool.and_true, Bool.and_eq_true, decide_eq_true_eq, and_assoc]

theorem sum16 (a0 a1 a2 a3 a4 a5 a6 a7 a8 a9 a10 a11 a12 a13 a14 a15 : Nat) :
    [a0, a1, a2, a3, a4, a5, a6, a7, a8, a9, a10, a11, a12, a13, a14, a15].sum =
    a0 + a1 + (a2 + a3) + (a4 + a5 + (a6 + a7)) + (a8 + a9 + (a10 + a11) + (a12 + a13 + (a14 + a15))) := by
  simp only [List.sum_cons, List.sum_nil]
  omega

/-- The exit test bounds the block sum. -/
theorem fits_sum_le {a : List Nat} (hl : a.length = 16) (hf : fitsShell a = true) : a.sum ≤ 16 := by
  obtain ⟨a0, a1, a2, a3, a4, a5, a6, a7, a8, a9, a10, a11, a12, a13, a14, a15, rfl⟩ := list16 hl
  rw [fits16] at hf
  rw [sum16]
  exact hf.2.2.2

/-- A block that fails the exit test has an entry ≥ 2: halving it leaves something. -/
theorem not_fits_half_pos {a : List Nat} (hl : a.length = 16) (hf : fitsShell a = false) :
    0 < (a.map (· / 2)).sum := by
  obtain ⟨a0, a1, a2, a3, a4, a5, a6, a7, a8, a9, a10, a11, a12, a13, a14, a15, rfl⟩ := list16 hl
  have hn : ¬ fitsShell [a0, a1, a2, a3, a4, a5, a6, a7, a8, a9, a10, a11, a12, a13, a14, a15] = true := by
    rw [hf]; decide
  rw [fits16] at hn
  simp only [List.map_cons, List.map_nil]
  rw [sum16]
  omega

theorem pairSums_zero : ∀ (a : List Nat), (∀ x ∈ a, x = 0) → ∀ y ∈ pairSums a, y = 0
  | [], _, y, hy => by simp [pairSums] at hy
  | [_], _, y, hy => by simp [pairSums] at hy
  | a :: b :: t, h, y, hy => by
    simp only [pairSums, List.mem_cons] at hy
    rcases hy with hy | hy
    · rw [hy, h a (List.mem_cons_self ..), h b (List.mem_cons_of_mem _ (List.mem_cons_self ..))]
    · exact pairSums_zero t (fun x hx => h x (List.mem_cons_of_mem _ (List.mem_cons_of_mem _ hx))) y hy

theorem fits_zero {a : List Nat} (h : ∀ x ∈ a, x = 0) : fitsShell a = true := by
  have h1 := pairSums_zero a h
  have h2 := pairSums_zero _ h1
  have h3 := pairSums_zero _ h2
  have h4 := pairSums_zero _ h3
  simp only [fitsShell, Bool.and_eq_true, List.all_eq_true, decide_eq_true_eq]
  exact ⟨⟨⟨fun y hy => by rw [h1 y hy]; exact Nat.zero_le _, fun y hy => by rw [h2 y hy]; exact Nat.zero_le _⟩,
    fun y hy => by rw [h3 y hy]; exact Nat.zero_le _⟩, fun y hy => by rw [h4 y hy]; exact Nat.zero_le _⟩

/-! ### The down-scaling loop -/

theorem scaleDown_shape : ∀ (f : Nat) (a : List Nat) (n : Nat),
    n ≤ (scaleDown f a n).2 ∧ (scaleDown f a n).2 ≤ n + f ∧
    (scaleDown f a n).1 = a.map (· / 2 ^ ((scaleDown f a n).2 - n))
  | 0, a, n => by simp [scaleDown]
  | f + 1, a, n => by
    unfold scaleDown
    split
    · simp
    · have ih := scaleDown_shape f (a.map (· / 2)) (n + 1)
      refine ⟨by omega, by omega, ?_⟩
      rw [ih.2.2, List.map_map]
      apply List.map_congr_left
      intro x _
      simp only [Function.comp]
      have e : (scaleDown f (a.map (· / 2)) (n + 1)).2 - n = ((scaleDown f (a.map (· / 2)) (n + 1)).2 - (n + 1)) + 1 := by omega
      rw [e, Nat.pow_succ, Nat.mul_comm, Nat.div_div_eq_div_mul]

/-- The unrolling never stops the loop: with entries below `2^f` the exit test holds at the end. -/
theorem scaleDown_fits : ∀ (f : Nat) (a : List Nat) (n : Nat), (∀ x ∈ a, x < 2 ^ f) →
    fitsShell (scaleDown f a n).1 = true
  | 0, a, n, h => by
    simp only [scaleDown]
    exact fits_zero (fun x hx => by have := h x hx; omega)
  | f + 1, a, n, h => by
    unfold scaleDown
    split
    · assumption
    · apply scaleDown_fits f
      intro x hx
      rw [List.mem_map] at hx
      rcases hx with ⟨y, hy, rfl⟩
      have := h y hy
      rw [Nat.pow_succ] at this
      omega

theorem scaleDown_pos : ∀ (f : Nat) (a : List Nat) (n : Nat), a.length = 16 →
    n < (scaleDown f a n).2 → 0 < (scaleDown f a n).1.sum
  | 0, a, n, _, h => by simp [scaleDown] at h
  | f + 1, a, n, hl, h => by
    unfold scaleDown at h ⊢
    split
    · rename_i hf; simp [hf] at h
    · rename_i hf
      have hf' : fitsShell a = false := by simpa using hf
      by_cases h2 : n + 1 < (scaleDown f (a.map (· / 2)) (n + 1)).2
      · exact scaleDown_pos f _ _ (by simpa using hl) h2
      · have sh := scaleDown_shape f (a.map (· / 2)) (n + 1)
        have e : (scaleDown f (a.map (· / 2)) (n + 1)).2 - (n + 1) = 0 := by omega
        rw [sh.2.2, e]
        simp only [Nat.pow_zero, Nat.div_one, List.map_id']
        exact not_fits_half_pos hl hf'

/-! ### Blocks -/

/-- What the symbol-layer proofs need to know about one prepared block. -/
structure BlockOk (b : Block) : Prop where
  lenO : b.orig.length = 16
  scaled : b.scaled = (b.orig.map Int.natAbs).map (· / 2 ^ b.nR)
  sum : b.sum = b.scaled.sum
  le16 : b.sum ≤ 16
  nR : b.nR ≤ 8
  pos : 0 < b.nR → 0 < b.sum

theorem BlockOk.lenS {b : Block} (h : BlockOk b) : b.scaled.length = 16 := by
  rw [h.scaled]; simp [h.lenO]

theorem mkBlock_ok {p : List Int} (hl : p.length = 16) (hp : ∀ q ∈ p, -127 ≤ q ∧ q ≤ 127) : BlockOk (mkBlock p) := by
  have hl' : (p.map Int.natAbs).length = 16 := by simpa using hl
  have sh := scaleDown_shape 8 (p.map Int.natAbs) 0
  have hb : ∀ x ∈ p.map Int.natAbs, x < 2 ^ 8 := by
    intro x hx
    rw [List.mem_map] at hx
    rcases hx with ⟨q, hq, rfl⟩
    have := hp q hq
    omega
  have hf := scaleDown_fits 8 _ 0 hb
  have hls : (scaleDown 8 (p.map Int.natAbs) 0).1.length = 16 := by rw [sh.2.2]; simpa using hl
  refine ⟨hl, ?_, rfl, fits_sum_le hls hf, by simpa [mkBlock] using sh.2.1, fun h => scaleDown_pos 8 _ 0 hl' h⟩
  simp only [mkBlock]
  rw [sh.2.2]
  simp

theorem sum_zero_replicate : ∀ (l : List Nat), l.sum = 0 → l = List.replicate l.length 0
  | [], _ => rfl
  | x :: xs, h => by
    simp only [List.sum_cons] at h
    have hx : x = 0 := by omega
    have := sum_zero_replicate xs (by omega)
    simp only [List.length_cons, List.replicate_succ, hx]
    rw [← this]

/-- An empty block (no pulses after scaling, and hence never scaled) is all zeros. -/
theorem BlockOk.zero {b : Block} (h : BlockOk b) (h0 : b.sum = 0) :
    b.nR = 0 ∧ b.scaled = List.replicate 16 0 ∧ b.orig = List.replicate 16 0 := by
  have hn : b.nR = 0 := by
    have := h.pos
    omega
  have hs : b.scaled = List.replicate 16 0 := by
    have := sum_zero_replicate b.scaled (by rw [← h.sum]; exact h0)
    rw [h.lenS] at this
    exact this
  refine ⟨hn, hs, ?_⟩
  have hsc := h.scaled
  rw [hn, hs] at hsc
  simp only [Nat.pow_zero, Nat.div_one, List.map_id'] at hsc
  apply List.ext_getElem
  · simp [h.lenO]
  · intro i h1 h2
    have : (List.replicate 16 0)[i]'(by simpa using h2) = (b.orig.map Int.natAbs)[i]'(by simpa using h1) := by
      simp only [hsc]
    simp only [List.getElem_replicate, List.getElem_map] at this ⊢
    omega

/-! ### blocks16 / padPulses -/

theorem blocks16_length {α : Type} : ∀ (n : Nat) (l : List α), (blocks16 n l).length = n
  | 0, _ => rfl
  | n + 1, l => by simp [blocks16, blocks16_length n]

theorem blocks16_mem {α : Type} : ∀ (n : Nat) (l : List α), l.length = n * 16 →
    ∀ b ∈ blocks16 n l, b.length = 16 ∧ ∀ x ∈ b, x ∈ l
  | 0, _, _, b, hb => by simp [blocks16] at hb
  | n + 1, l, hl, b, hb => by
    simp only [blocks16, List.mem_cons] at hb
    rcases hb with hb | hb
    · subst hb
      refine ⟨by rw [List.length_take]; omega, fun x hx => List.mem_of_mem_take hx⟩
    · have := blocks16_mem n (l.drop 16) (by rw [List.length_drop]; omega) b hb
      exact ⟨this.1, fun x hx => List.mem_of_mem_drop (this.2 x hx)⟩

theorem blocks16_flatten {α : Type} : ∀ (n : Nat) (l : List α), l.length = n * 16 → (blocks16 n l).flatten = l
  | 0, l, hl => by
    have : l = [] := List.length_eq_zero_iff.mp (by omega)
    simp [blocks16, this]
  | n + 1, l, hl => by
    simp only [blocks16, List.flatten_cons]
    rw [blocks16_flatten n (l.drop 16) (by rw [List.length_drop]; omega), List.take_append_drop]

theorem shellBlocks_ge (frameLen : Nat) : frameLen ≤ shellBlocks frameLen * 16 := by
  unfold shellBlocks
  simp only
  split <;> omega

theorem padPulses_length {frameLen : Nat} {pulses : List Int} (hl : pulses.length = frameLen) :
    (padPulses frameLen pulses).length = shellBlocks frameLen * 16 := by
  have := shellBlocks_ge frameLen
  simp only [padPulses, List.length_append, List.length_take, List.length_replicate, hl, Nat.min_self]
  omega

theorem padPulses_bound {frameLen : Nat} {pulses : List Int} (hp : ∀ q ∈ pulses, -127 ≤ q ∧ q ≤ 127) :
    ∀ q ∈ padPulses frameLen pulses, -127 ≤ q ∧ q ≤ 127 := by
  intro q hq
  simp only [padPulses, List.mem_append, List.mem_replicate] at hq
  rcases hq with hq | hq
  · exact hp q (List.mem_of_mem_take hq)
  · rw [hq.2]; omega

theorem pulseBlocks_length (frameLen : Nat) (pulses : List Int) :
    (pulseBlocks frameLen pulses).length = shellBlocks frameLen := by
  simp [pulseBlocks, blocks16_length]

/-- Every block `silk_encode_pulses` prepares is well-formed. -/
theorem pulseBlocks_ok {frameLen : Nat} {pulses : List Int} (h : PulsesOk frameLen pulses) :
    ∀ b ∈ pulseBlocks frameLen pulses, BlockOk b := by
  intro b hb
  simp only [pulseBlocks, List.mem_map] at hb
  rcases hb with ⟨p, hp, rfl⟩
  have := blocks16_mem _ _ (padPulses_length h.len) p hp
  exact mkBlock_ok this.1 (fun q hq => padPulses_bound h.abs q (this.2 q hq))

theorem mkBlock_orig (p : List Int) : (mkBlock p).orig = p := rfl

/-- The blocks' original samples are the padded `pulses[]` array. -/
theorem pulseBlocks_orig {frameLen : Nat} {pulses : List Int} (h : PulsesOk frameLen pulses) :
    ((pulseBlocks frameLen pulses).map (·.orig)).flatten = padPulses frameLen pulses := by
  simp only [pulseBlocks, List.map_map]
  have : (fun b => b.orig) ∘ mkBlock = id := by funext p; rfl
  rw [this, List.map_id, blocks16_flatten _ _ (padPulses_length h.len)]

/-! ### Rate level -/

theorem rateLevelLoop_lt (sig : Nat) (bs : List Block) : ∀ (ks : List Nat) (acc : Nat × Nat),
    acc.2 < 9 → (∀ k ∈ ks, k < 9) → (rateLevelLoop sig bs ks acc).2 < 9
  | [], acc, h, _ => h
  | k :: ks, acc, h, hk => by
    simp only [rateLevelLoop]
    apply rateLevelLoop_lt sig bs ks
    · split
      · exact hk k (List.mem_cons_self ..)
      · exact h
    · exact fun k' hk' => hk k' (List.mem_cons_of_mem _ hk')

theorem rateLevel_lt (sig : Nat) (bs : List Block) : rateLevel sig bs < 9 := by
  unfold rateLevel
  apply rateLevelLoop_lt
  · decide
  · intro k hk
    rw [List.mem_range] at hk
    exact hk

end Opus.SilkSymsEncProofs
