import OpusProofs.DtxDecode
import OpusProps.C01
/-
  OpusProofs.DtxDecodeSkel — the decoder skeleton of C01 (read-only) applied to DTX packets.
-/
namespace Opus.Dtx
open Opus Opus.Framing Opus.DecSkel

theorem tocs_lt (t : Nat) (ht : t ∈ tocs) : t ≤ 252 := by
  unfold tocs at ht
  simp only [List.mem_map, List.mem_range] at ht
  obtain ⟨a, ha, rfl⟩ := ht
  omega

theorem dtxBytes_ok (t n : Nat) (ht : t ∈ tocs) (hn : n ∈ [1, 2, 3, 4, 5, 6]) :
    BytesOk (dtxBytes t n) ∧ dtxBytes t n ≠ [] := by
  have := tocs_lt t ht
  have hn' : n ≤ 6 := by simp only [List.mem_cons, List.not_mem_nil, or_false] at hn; omega
  unfold dtxBytes BytesOk
  split
  · exact ⟨by intro b hb; simp at hb; omega, by simp⟩
  · split
    · exact ⟨by intro b hb; simp at hb; omega, by simp⟩
    · exact ⟨by intro b hb; simp at hb; rcases hb with rfl | rfl <;> omega, by simp⟩

theorem dtxBytes_head (t n : Nat) : ∃ k ∈ [0, 1, 3], (dtxBytes t n).headD 0 = t + k := by
  unfold dtxBytes
  split
  · exact ⟨0, by simp, by simp⟩
  · split
    · exact ⟨1, by simp, by simp⟩
    · exact ⟨3, by simp, by simp⟩

theorem fs_mem (fs : Int) (h : FsOk fs) : fs.toNat ∈ [8000, 12000, 16000, 24000, 48000] := by
  rcases h with h | h | h | h | h <;> subst h <;> decide

/-- **A decoder fed a DTX packet as given** returns exactly the packet's duration `n` frames of the
    TOC's frame duration (when the caller's `frame_size` has room for it). -/
theorem decode_dtx_given (o : Oracle) (ho : OracleOk o) (r : Run) (hinv : DecInv r.st) (hlog : r.log = [])
    (t n : Nat) (ht : t ∈ tocs) (hn : n ∈ [1, 2, 3, 4, 5, 6]) (hdur : n * samplesPerFrame t 48000 ≤ 5760)
    (pcm : Ptr) (frame_size : Int) (sc : Bool) (hbuf : pcm.buf = .pcm)
    (hroom : 0 ≤ pcm.off ∧ pcm.off + frame_size * r.st.channels ≤ pcm.cap)
    (hfit : (n : Int) * (samplesPerFrame t r.st.Fs.toNat : Int) ≤ frame_size) :
    (decodeNative o (some (dtxBytes t n)) (dtxBytes t n).length pcm frame_size 0 false sc r).ret =
        .ret ((n : Int) * (samplesPerFrame t r.st.Fs.toNat : Int)) ∧
    (decodeNative o (some (dtxBytes t n)) (dtxBytes t n).length pcm frame_size 0 false sc r).run.st.last_packet_duration =
        (n : Int) * (samplesPerFrame t r.st.Fs.toNat : Int) := by
  obtain ⟨hb, hne⟩ := dtxBytes_ok t n ht hn
  have hp := dtx_parse_all t ht n hn hdur
  unfold parseOk at hp
  have hp := of_decide_eq_true hp
  obtain ⟨k, hk, hhead⟩ := dtxBytes_head t n
  have hspf : samplesPerFrame ((dtxBytes t n).headD 0) r.st.Fs.toNat = samplesPerFrame t r.st.Fs.toNat := by
    rw [hhead]; exact spf_code t ht k hk _ (fs_mem _ hinv.fs)
  have := OpusProps.C01.decodeNative_duration o ho r hinv hlog (dtxBytes t n) hb hne pcm frame_size false sc _ hp
    (by simp only; rw [hspf]; exact hfit) hbuf hroom
  simp only [hspf] at this
  exact ⟨this.1, this.2.1⟩

end Opus.Dtx
