import OpusProofs.RangeCoderDone
import OpusProofs.RangeCoderSym
import OpusProofs.RangeCoderStageA
/-
  OpusProofs.RangeCoderRun — C08 Stages B/C: one encoder operation preserves the run invariant
  and lets the two containment facts (range bytes: `Contains`, raw bits: `RawC`) travel backwards
  from the finished buffer to every intermediate encoder state.
-/
namespace Opus.RangeCoder

/-- Everything the proofs maintain about an encoder state along a run. -/
structure RunInv (c : Enc) : Prop where
  inv : EncInv c
  raw : RawInv c
  bytes : BytesOk c.buf

/-- Legality of an operation in a given encoder state.  `ec_enc_shrink` must keep the bytes
    already written (its `celt_assert`) and may only shrink.  `ec_enc_patch_initial_bits` is
    not part of the round-trip theorems. -/
def Op.LegalAt (c : Enc) : Op → Prop
  | .patchInitial _ _ => False
  | .shrink size => c.offs + c.endOffs ≤ size ∧ size ≤ c.storage
  | op => op.Legal

instance (c : Enc) (op : Op) : Decidable (op.LegalAt c) := by
  cases op <;> unfold Op.LegalAt <;> infer_instance

theorem take_eq_of_getD {l m : List Nat} (hl : l.length = m.length) (n : Nat)
    (h : ∀ i, i < n → l.getD i 0 = m.getD i 0) : l.take n = m.take n := by
  apply List.ext_getElem?
  intro i
  simp only [List.getElem?_take]
  split
  · rename_i hi
    have := h i hi
    simp only [List.getD_eq_getElem?_getD] at this
    by_cases hil : i < l.length
    · have him : i < m.length := by omega
      rw [List.getElem?_eq_getElem hil, List.getElem?_eq_getElem him] at this ⊢
      simpa using this
    · rw [List.getElem?_eq_none (by omega), List.getElem?_eq_none (by omega)]
  · rfl

theorem rawQ_lt (c : Enc) (ri : RawInv c) (hb : BytesOk c.buf) : rawQ c c.endWindow < 2 ^ rawN c := by
  unfold rawQ rawN
  have h1 : tailVal c.buf c.storage c.endOffs < 256 ^ c.endOffs := tailVal_lt _ (fun j _ => endByte_lt hb _ j)
  have h2 := ri.win_lt
  have e : 8 * c.endOffs + c.nendBits = c.nendBits + 8 * c.endOffs := by omega
  rw [e, two_pow_8mul]
  have : (c.endWindow + 1) * 256 ^ c.endOffs ≤ 2 ^ c.nendBits * 256 ^ c.endOffs := Nat.mul_le_mul_right _ h2
  rw [Nat.add_mul] at this
  omega

/-- Raw-bit containment goes back through an append to the queue. -/
theorem rawC_back {B : List Nat} {S : Nat} {c c' : Enc} (ri : RawInv c) (hb : BytesOk c.buf) (v n : Nat)
    (hq : rawQ c' c'.endWindow = rawQ c c.endWindow + v * 2 ^ rawN c) (hn : rawN c' = rawN c + n)
    (h : RawC B S c') : RawC B S c := by
  unfold RawC at h ⊢
  rw [hq, hn] at h
  have hd : 2 ^ rawN c ∣ 2 ^ (rawN c + n) := Nat.pow_dvd_pow 2 (by omega)
  have := congrArg (fun x => x % 2 ^ rawN c) h
  rw [Nat.mod_mod_of_dvd _ hd, Nat.add_mul_mod_self_right, Nat.mod_eq_of_lt (rawQ_lt c ri hb)] at this
  exact this

/-- What one successful encoder operation guarantees. -/
structure StepOk (c c' : Enc) : Prop where
  err0 : c.error = 0
  run : RunInv c'
  nbits : c.nbitsTotal ≤ c'.nbitsTotal
  sto : c'.storage ≤ c.storage
  cont : ∀ B S, (∀ i, byteAt B S i < 256) → Contains B S c' → Contains B S c
  rawc : ∀ B S, RawC B S c' → RawC B S c

theorem StepOk.trans {a b c : Enc} (h1 : StepOk a b) (h2 : StepOk b c) : StepOk a c :=
  ⟨h1.err0, h2.run, Nat.le_trans h1.nbits h2.nbits, Nat.le_trans h2.sto h1.sto,
   fun B S hB h => h1.cont B S hB (h2.cont B S hB h), fun B S h => h1.rawc B S (h2.rawc B S h)⟩

/-- A primitive range-coded operation. -/
theorem step_prim (c : Enc) (op : Op) (ri : RunInv c) (hl : op.Legal) {r a b : Nat} {first : Bool}
    (hsub : op.sub c.rng = some (r, a, b, first)) (hn : (encOp c op).nbitsTotal < 4294967296)
    (herr : (encOp c op).error = 0) : StepOk c (encOp c op) := by
  obtain ⟨inv, raw, bytes⟩ := ri
  obtain ⟨ok, heq⟩ := encOp_sub c op inv hl hsub
  rw [heq] at hn herr ⊢
  obtain ⟨pre, _, back1⟩ := encSub_spec c r a b first inv ok
  obtain ⟨n0, n1, n2, n3, n4, n5, n6, n7, n8, n9⟩ := encNormalize_spec (encSub c r a b first) pre hn herr
  have hnb := encNormalize_nbits_ge (encSub c r a b first)
  rw [encSub_nbitsTotal] at hnb
  rw [encSub_error] at n0
  rw [encSub_buf] at n3 n7
  rw [encSub_storage] at n5
  rw [encSub_endOffs] at n6
  rw [encSub_endWindow] at n8
  rw [encSub_nendBits] at n9
  have hb' : BytesOk (encNormalize (encSub c r a b first)).buf :=
    encNormalize_bytesOk _ (by rw [encSub_buf]; exact bytes)
  generalize encNormalize (encSub c r a b first) = c' at *
  refine ⟨n0, ⟨n1, ⟨by rw [n8, n9]; exact raw.win_lt, by rw [n9]; exact raw.nend_le⟩, hb'⟩, hnb, by omega,
    fun B S hB h => back1 B S (n2 B S hB h), ?_⟩
  intro B S h
  unfold RawC at h ⊢
  have e1 : rawN c' = rawN c := by unfold rawN; rw [n6, n9]
  have e2 : rawQ c' c'.endWindow = rawQ c c.endWindow := by
    unfold rawQ
    rw [n5, n6, n8]
    congr 1
    apply tailVal_congr
    intro j hj
    have h1 := n1.wf.offs_le
    rw [n5, n6] at h1
    unfold endByte
    rw [if_pos (by omega), if_pos (by omega)]
    exact getD_of_drop_eq n3 _ (by omega)
  rw [← e1, ← e2]; exact h

theorem encBitsFlush_bytesOk (c : Enc) (w u : Nat) (h : BytesOk c.buf) :
    BytesOk (encBitsFlush c w u).1.buf := by
  fun_induction encBitsFlush c w u with
  | case1 c w u c1 h' ih => exact ih (writeByteAtEnd_bytesOk _ _ h)
  | case2 c w u c1 h' => exact writeByteAtEnd_bytesOk _ _ h

theorem encBitsFlush_error_mono (c : Enc) (w u : Nat) (h : c.error ≠ 0) : (encBitsFlush c w u).1.error ≠ 0 := by
  fun_induction encBitsFlush c w u with
  | case1 c w u c1 h' ih => exact ih (writeByteAtEnd_error_mono h)
  | case2 c w u c1 h' => exact writeByteAtEnd_error_mono h

theorem encBits_error_mono (c : Enc) (v n : Nat) (h : c.error ≠ 0) : (encBits c v n).error ≠ 0 := by
  unfold encBits
  simp only
  split
  · exact encBitsFlush_error_mono _ _ _ h
  · exact h

/-- `ec_enc_bits`. -/
theorem step_bits (c : Enc) (v n : Nat) (ri : RunInv c) (hn2 : n ≤ 25) (hv : v < 2 ^ n)
    (herr : (encBits c v n).error = 0) : StepOk c (encBits c v n) := by
  obtain ⟨inv, raw, bytes⟩ := ri
  obtain ⟨⟨wf, rp, rh, sl, cs, eb⟩, rl⟩ := inv
  obtain ⟨k0, k1, k2, k3, k4, k5, k6, k7, k8, k9⟩ :=
    encBits_spec c v n raw hn2 hv wf.offs_le wf.storage_le herr
  have hb' : BytesOk (encBits c v n).buf := by
    unfold encBits
    simp only
    split
    · exact encBitsFlush_bytesOk _ _ _ bytes
    · exact bytes
  generalize encBits c v n = c' at *
  have f_offs : c'.offs = c.offs := by rw [k4]
  have f_sto : c'.storage = c.storage := by rw [k4]
  have f_rng : c'.rng = c.rng := by rw [k4]
  have f_val : c'.val = c.val := by rw [k4]
  have f_ext : c'.ext = c.ext := by rw [k4]
  have f_rem : c'.rem = c.rem := by rw [k4]
  have f_nb : c'.nbitsTotal = c.nbitsTotal + n := by rw [k4]
  have htake : c'.buf.take c.offs = c.buf.take c.offs :=
    take_eq_of_getD k7 _ (fun i hi => k8 i (by omega))
  have hdig : digitsVal c' = digitsVal c := by
    unfold digitsVal pendCount pendVal; rw [f_offs, f_rem, f_ext, htake]
  have hM : encM c' = encM c := by unfold encM pendCount; rw [f_offs, f_rem, f_ext]
  refine ⟨k0, ⟨⟨⟨⟨by rw [f_offs, f_sto]; exact k6, by rw [f_sto, k7]; exact wf.storage_le,
    by rw [f_rem]; exact wf.rem_lo, by rw [f_rem]; exact wf.rem_hi⟩, by rw [f_rng]; exact rp,
    by rw [f_rng]; exact rh, by rw [f_rng, f_val]; exact sl, by rw [f_rng, f_val, f_rem]; exact cs,
    by rw [f_ext, f_nb]; omega⟩, by rw [f_rng]; exact rl⟩, k1, hb'⟩, by omega, by omega, ?_, ?_⟩
  · intro B S _ h
    unfold Contains encLow at h ⊢
    rw [hdig, hM, f_val, f_rng] at h
    exact h
  · intro B S h
    exact rawC_back raw bytes v n k2 k3 h

/-- `ec_enc_bits` leaves the range coder's interval alone. -/
theorem encBits_range (c : Enc) (v n : Nat) (ri : RunInv c) (hn2 : n ≤ 25) (hv : v < 2 ^ n)
    (herr : (encBits c v n).error = 0) :
    encM (encBits c v n) = encM c ∧ encLow (encBits c v n) = encLow c ∧ (encBits c v n).rng = c.rng ∧
    (encBits c v n).nbitsTotal = c.nbitsTotal + n ∧
    rawQ (encBits c v n) (encBits c v n).endWindow = rawQ c c.endWindow + v * 2 ^ rawN c ∧
    rawN (encBits c v n) = rawN c + n := by
  obtain ⟨inv, raw, bytes⟩ := ri
  have wf := inv.wf
  obtain ⟨k0, k1, k2, k3, k4, k5, k6, k7, k8, k9⟩ :=
    encBits_spec c v n raw hn2 hv wf.offs_le wf.storage_le herr
  generalize encBits c v n = c' at *
  have f_offs : c'.offs = c.offs := by rw [k4]
  have f_rng : c'.rng = c.rng := by rw [k4]
  have f_val : c'.val = c.val := by rw [k4]
  have f_ext : c'.ext = c.ext := by rw [k4]
  have f_rem : c'.rem = c.rem := by rw [k4]
  have f_nb : c'.nbitsTotal = c.nbitsTotal + n := by rw [k4]
  have htake : c'.buf.take c.offs = c.buf.take c.offs :=
    take_eq_of_getD k7 _ (fun i hi => k8 i (by have := wf.offs_le; omega))
  have hdig : digitsVal c' = digitsVal c := by
    unfold digitsVal pendCount pendVal; rw [f_offs, f_rem, f_ext, htake]
  have hM : encM c' = encM c := by unfold encM pendCount; rw [f_offs, f_rem, f_ext]
  exact ⟨hM, by unfold encLow; rw [hdig, f_val], f_rng, f_nb, k2, k3⟩

/-- `ec_enc_shrink`. -/
theorem step_shrink (c : Enc) (size : Nat) (ri : RunInv c) (h1 : c.offs + c.endOffs ≤ size)
    (h2 : size ≤ c.storage) (herr : (encShrink c size).error = 0) :
    StepOk c (encShrink c size) ∧ encM (encShrink c size) = encM c ∧ encLow (encShrink c size) = encLow c := by
  obtain ⟨inv, raw, bytes⟩ := ri
  obtain ⟨⟨wf, rp, rh, sl, cs, eb⟩, rl⟩ := inv
  have hs := wf.storage_le
  have ho := wf.offs_le
  have hlen : (encShrink c size).buf.length = c.buf.length := by
    unfold encShrink
    simp only [List.length_append, List.length_take, List.length_drop]
    omega
  have hget : ∀ i, (encShrink c size).buf.getD i 0 =
      if i < size - c.endOffs then c.buf.getD i 0
      else if i < size then c.buf.getD (c.storage - c.endOffs + (i - (size - c.endOffs))) 0
      else c.buf.getD i 0 := by
    intro i
    unfold encShrink
    simp only [List.getD_eq_getElem?_getD]
    by_cases g1 : i < size - c.endOffs
    · rw [if_pos g1, List.append_assoc, List.getElem?_append_left (by simp; omega)]
      simp [List.getElem?_take, g1]
    · rw [if_neg g1]
      by_cases g2 : i < size
      · rw [if_pos g2, List.getElem?_append_left (by simp; omega),
          List.getElem?_append_right (by simp; omega)]
        simp only [List.length_take, List.getElem?_take, List.getElem?_drop]
        rw [if_pos (by omega)]
        congr 2
        omega
      · rw [if_neg g2, List.getElem?_append_right (by simp; omega)]
        simp only [List.length_append, List.length_take, List.length_drop, List.getElem?_drop]
        congr 2
        omega
  have hb' : BytesOk (encShrink c size).buf := by
    intro b hb
    unfold encShrink at hb
    simp only [List.mem_append] at hb
    rcases hb with (g | g) | g
    · exact bytes b (List.mem_of_mem_take g)
    · exact bytes b (List.mem_of_mem_drop (List.mem_of_mem_take g))
    · exact bytes b (List.mem_of_mem_drop g)
  have htake : (encShrink c size).buf.take c.offs = c.buf.take c.offs :=
    take_eq_of_getD hlen _ (fun i hi => by rw [hget i, if_pos (by omega)])
  have hdig : digitsVal (encShrink c size) = digitsVal c := by
    unfold digitsVal pendCount pendVal
    show bytesVal ((encShrink c size).buf.take c.offs) * _ + _ = _
    rw [htake]; rfl
  have hM : encM (encShrink c size) = encM c := rfl
  refine ⟨⟨herr, ⟨⟨⟨⟨h1, by rw [hlen]; show size ≤ _; omega, wf.rem_lo, wf.rem_hi⟩, rp, rh, sl, cs, eb⟩, rl⟩,
    ⟨raw.win_lt, raw.nend_le⟩, hb'⟩, Nat.le_refl _, h2, ?_, ?_⟩, ?_⟩
  · intro B S _ h
    unfold Contains encLow at h ⊢
    rw [hdig, hM] at h
    exact h
  · intro B S h
    unfold RawC at h ⊢
    have e1 : rawN (encShrink c size) = rawN c := rfl
    have e2 : rawQ (encShrink c size) (encShrink c size).endWindow = rawQ c c.endWindow := by
      unfold rawQ
      show tailVal (encShrink c size).buf size c.endOffs + _ = _
      congr 1
      apply tailVal_congr
      intro j hj
      unfold endByte
      rw [if_pos (by omega), if_pos (by omega), hget, if_neg (by omega), if_pos (by omega)]
      congr 1
      omega
    rw [← e1, ← e2]; exact h
  · exact ⟨hM, by unfold encLow; rw [hdig]; rfl⟩

/-- `ec_enc_uint`. -/
theorem step_uint (c : Enc) (v ft : Nat) (ri : RunInv c) (h1 : 2 ≤ ft) (h2 : ft ≤ 4294967295) (h3 : v < ft)
    (hn : (encUint c v ft).nbitsTotal < 4294967296) (herr : (encUint c v ft).error = 0) :
    StepOk c (encUint c v ft) := by
  unfold encUint at hn herr ⊢
  simp only at hn herr ⊢
  by_cases hb : ilog (ft - 1) > 8
  · rw [if_pos hb] at hn herr ⊢
    have hleg := uint_hi_legal h1 h2 h3 hb
    generalize hftb : ilog (ft - 1) - 8 = ftb at *
    have hftb24 : ftb ≤ 24 := by
      have : ilog (ft - 1) ≤ 32 := by rw [ilog_lt_iff]; omega
      omega
    have hlo : v % 2 ^ ftb < 2 ^ ftb := Nat.mod_lt _ (Nat.pow_pos (by decide))
    have hmono : ∀ e : Enc, e.nbitsTotal ≤ (encBits e (v % 2 ^ ftb) ftb).nbitsTotal := fun e => by
      have := (encBits_rn e (v % 2 ^ ftb) ftb).2; omega
    have herr1 : (encode c (v / 2 ^ ftb) (v / 2 ^ ftb + 1) ((ft - 1) / 2 ^ ftb + 1)).error = 0 := by
      apply Classical.byContradiction; intro hne
      exact encBits_error_mono _ _ _ hne herr
    have s1 := step_prim c (.encode (v / 2 ^ ftb) (v / 2 ^ ftb + 1) ((ft - 1) / 2 ^ ftb + 1)) ri hleg rfl
      (by have := hmono (encode c (v / 2 ^ ftb) (v / 2 ^ ftb + 1) ((ft - 1) / 2 ^ ftb + 1))
          simp only [encOp]; omega) herr1
    simp only [encOp] at s1
    exact s1.trans (step_bits _ _ _ s1.run (by omega) hlo herr)
  · rw [if_neg hb] at hn herr ⊢
    exact step_prim c (.encode v (v + 1) (ft - 1 + 1)) ri (uint_lo_legal h1 h3 hb) rfl hn herr

/-- Any operation of the round-trip theorems. -/
theorem step_op (c : Enc) (op : Op) (ri : RunInv c) (hl : op.LegalAt c)
    (hn : (encOp c op).nbitsTotal < 4294967296) (herr : (encOp c op).error = 0) : StepOk c (encOp c op) := by
  cases op with
  | encode fl fh ft => exact step_prim c _ ri hl rfl hn herr
  | encodeBin fl fh nb => exact step_prim c _ ri hl rfl hn herr
  | bitLogp v logp =>
    by_cases hv : v ≠ 0
    · exact step_prim c _ ri hl (r := c.rng / 2 ^ logp) (a := 1) (b := 0) (first := false)
        (by simp only [Op.sub]; rw [if_pos hv]) hn herr
    · exact step_prim c _ ri hl (r := c.rng / 2 ^ logp) (a := 2 ^ logp) (b := 1) (first := true)
        (by simp only [Op.sub]; rw [if_neg hv]) hn herr
  | icdf s tbl ftb => exact step_prim c _ ri hl rfl hn herr
  | icdf16 s tbl ftb => exact step_prim c _ ri hl rfl hn herr
  | uint v ft => exact step_uint c v ft ri hl.1 hl.2.1 hl.2.2 hn herr
  | bits v n => exact step_bits c v n ri hl.2.1 hl.2.2 herr
  | patchInitial v n => exact absurd hl (by simp [Op.LegalAt])
  | shrink size => exact (step_shrink c size ri hl.1 hl.2 herr).1

end Opus.RangeCoder
