import OpusProofs.LaplaceSeq
/-
  OpusProofs.LaplaceDomain — `LaplaceOk fs decay` for the WHOLE documented domain of celt/laplace.c
  ("decay is positive and at most 11456"; `fs ≤ 32768 − LAPLACE_MINP·2·LAPLACE_NMIN`), not only for the pairs of
  the energy model.

  Idea.  With `c = 16384 − decay`:  `16384·F(j+1) ≤ decay·F j`, hence by telescoping
        c·L m + 32768·F m ≤ c·(fs + 2m) + 32768·F 0 ≤ c·(32736 + 2m)          (`inv`, `getFreq1_le`)
  for every m.  Take m = the first index with `F m < 64`; m is at most the length k of the dominating sequence
  started at `16384 − decay ≥ F 0`.  The rest of the sequence depends only on `(F m, decay)`, `F m < 64`, and is
  evaluated: `L T = L m + tailG decay (F m)`.  So `L T ≤ 32766` follows from
        c·(2k + tailG decay f) ≤ 30·c + 32768·f        for all f < 64,
  which is checked by the kernel on 358 buckets of 32 consecutive `decay` values (everything is monotone in `decay`,
  so one evaluation with the extreme values of the bucket covers it).
-/
namespace OpusProofs.Laplace
open Opus Opus.Laplace
open Opus.Gen.CeltTables (laplaceLogMinP laplaceMinP laplaceNMin)

theorem nmin_eq : laplaceNMin = 16 := by decide

/-- one step of the frequency sequence -/
def stepF (d x : Nat) : Nat := x * 2 * d / 32768

theorem F_succ (fs decay j : Nat) : F fs decay (j + 1) = stepF decay (F fs decay j) := rfl

theorem stepF_mono {d d2 x x2 : Nat} (hd : d ≤ d2) (hx : x ≤ x2) : stepF d x ≤ stepF d2 x2 :=
  Nat.div_le_div_right (Nat.mul_le_mul (Nat.mul_le_mul hx (Nat.le_refl 2)) hd)

theorem stepF_lt {d x : Nat} (hd : d < 16384) (hx : 0 < x) : stepF d x < x := by
  unfold stepF
  apply Nat.div_lt_of_lt_mul
  have : x * 2 * d < x * 2 * 16384 := Nat.mul_lt_mul_of_pos_left hd (by omega)
  omega

theorem stepF_drop (d x : Nat) : 16384 * stepF d x ≤ x * d := by
  have h := Nat.div_mul_le_self (x * 2 * d) 32768
  have e : x * 2 * d = x * d * 2 := Nat.mul_right_comm x 2 d
  unfold stepF
  omega

theorem getFreq1_le {fs decay : Nat} (hfs : fs ≤ 32736) (hd : decay ≤ 16384) :
    32768 * getFreq1 fs decay ≤ (32736 - fs) * (16384 - decay) := by
  unfold getFreq1
  simp only [minP_eq, nmin_eq]
  have e1 : (4294967296 + 32768 - 1 * (2 * 16) - fs) % 4294967296 = 32736 - fs := by omega
  have e2 : (4294967296 + 16384 - decay) % 4294967296 = 16384 - decay := by omega
  rw [e1, e2]
  have hb : (32736 - fs) * (16384 - decay) ≤ 32736 * 16384 := Nat.mul_le_mul (by omega) (by omega)
  rw [Nat.mod_eq_of_lt (by omega)]
  exact Nat.mul_div_le _ _

/-- telescoped bound on `L m` -/
theorem inv (fs decay c : Nat) (hc : c + decay = 16384) : ∀ m,
    c * L fs decay m + 32768 * F fs decay m ≤ c * (fs + 2 * m) + 32768 * F fs decay 0 := by
  intro m
  induction m with
  | zero => simp only [L, Nat.mul_zero, Nat.add_zero]; exact Nat.le_refl _
  | succ m ih =>
    have h1 := stepF_drop decay (F fs decay m)
    rw [← F_succ] at h1
    have h2 : c * F fs decay m + decay * F fs decay m = 16384 * F fs decay m := by rw [← Nat.add_mul, hc]
    have h3 : F fs decay m * decay = decay * F fs decay m := Nat.mul_comm _ _
    have h4 : c * L fs decay (m + 1) = c * L fs decay m + c * F fs decay m * 2 + c * 2 := by
      simp only [L, Nat.mul_add, Nat.mul_assoc]
    have h5 : c * (fs + 2 * (m + 1)) = c * (fs + 2 * m) + c * 2 := by
      rw [show fs + 2 * (m + 1) = fs + 2 * m + 2 by omega, Nat.mul_add]
    omega

/-! ## The tail of the sequence as a function of its current value -/

/-- `Σ (2·f + 2)` over the remaining positive terms of the sequence started at `f`. -/
def tailG (d : Nat) : Nat → Nat → Nat
  | 0, _ => 0
  | fuel + 1, f => if f = 0 then 0 else f * 2 + 2 + tailG d fuel (stepF d f)

theorem tail_exists {fs decay : Nat} (hd : decay < 16384) : ∀ fuel m, F fs decay m < fuel →
    ∃ T, m ≤ T ∧ F fs decay T = 0 ∧ (∀ i, m ≤ i → i < T → 0 < F fs decay i) ∧
      L fs decay T = L fs decay m + tailG decay fuel (F fs decay m) := by
  intro fuel
  induction fuel with
  | zero => intro m h; omega
  | succ fuel ih =>
    intro m h
    by_cases h0 : F fs decay m = 0
    · exact ⟨m, Nat.le_refl _, h0, fun i h1 h2 => by omega, by simp [tailG, h0]⟩
    · have hlt := stepF_lt hd (Nat.pos_of_ne_zero h0)
      rw [← F_succ] at hlt
      obtain ⟨T, h1, h2, h3, h4⟩ := ih (m + 1) (by omega)
      refine ⟨T, by omega, h2, fun i hi1 hi2 => ?_, ?_⟩
      · by_cases e : i = m
        · subst e; exact Nat.pos_of_ne_zero h0
        · exact h3 i (by omega) hi2
      · rw [h4]
        simp only [tailG, h0, if_false, L, F_succ]
        omega

theorem tailG_mono {d d2 : Nat} (hd : d ≤ d2) : ∀ fuel f f2, f ≤ f2 → tailG d fuel f ≤ tailG d2 fuel f2 := by
  intro fuel
  induction fuel with
  | zero => intro f f2 _; exact Nat.le_refl _
  | succ fuel ih =>
    intro f f2 h
    simp only [tailG]
    by_cases h0 : f = 0
    · simp [h0]
    · have : f2 ≠ 0 := by omega
      rw [if_neg h0, if_neg this]
      have := ih (stepF d f) (stepF d2 f2) (stepF_mono hd h)
      omega

/-! ## The head: how long the sequence can stay ≥ 64 -/

/-- number of steps of the sequence started at `x` until it drops below 64 -/
def headK (d : Nat) : Nat → Nat → Option Nat
  | 0, _ => none
  | fuel + 1, x =>
    if x < 64 then some 0 else
      match headK d fuel (stepF d x) with
      | some k => some (k + 1)
      | none => none

theorem head_exists {fs decay d2 : Nat} (hd : decay ≤ d2) : ∀ fuel j x k, headK d2 fuel x = some k →
    F fs decay j ≤ x → ∃ m, j ≤ m ∧ m ≤ j + k ∧ F fs decay m < 64 := by
  intro fuel
  induction fuel with
  | zero => intro j x k h; simp [headK] at h
  | succ fuel ih =>
    intro j x k h hx
    simp only [headK] at h
    by_cases hlt : x < 64
    · exact ⟨j, Nat.le_refl _, by omega, by omega⟩
    · rw [if_neg hlt] at h
      split at h
      · rename_i k' hk'
        injection h with h
        have hstep : F fs decay (j + 1) ≤ stepF d2 x := by rw [F_succ]; exact stepF_mono hd hx
        obtain ⟨m, h1, h2, h3⟩ := ih (j + 1) (stepF d2 x) k' hk' hstep
        exact ⟨m, by omega, by omega, h3⟩
      · cases h

/-! ## The kernel-checked inequality -/

/-- For every `decay ∈ [d1, d2]` and every `f < 64`: `c·(2k + tailG decay f) ≤ 30·c + 32768·f`. -/
def bucketOk (d1 d2 : Nat) : Bool :=
  match headK d2 64 (16384 - d1) with
  | some k => (List.range 64).all fun f =>
      Nat.ble (2 * k + tailG d2 64 f) 30 || Nat.ble ((2 * k + tailG d2 64 f - 30) * (16384 - d1)) (32768 * f)
  | none => false

/-- buckets `a, a+1, …, a+n-1` of 32 consecutive `decay` values each -/
def bucketsFrom (a n : Nat) : Bool := (List.range n).all fun i => bucketOk (32 * (a + i) + 1) (32 * (a + i) + 32)

-- 358 buckets cover decay = 1 … 11456; checked in four chunks to keep each kernel evaluation small
theorem buckets_0 : bucketsFrom 0 90 = true := by decide +kernel
theorem buckets_1 : bucketsFrom 90 90 = true := by decide +kernel
theorem buckets_2 : bucketsFrom 180 90 = true := by decide +kernel
theorem buckets_3 : bucketsFrom 270 88 = true := by decide +kernel

theorem bucket_of_chunk {a n i : Nat} (h : bucketsFrom a n = true) (h1 : a ≤ i) (h2 : i < a + n) :
    bucketOk (32 * i + 1) (32 * i + 32) = true := by
  simp only [bucketsFrom, List.all_eq_true, List.mem_range] at h
  have := h (i - a) (by omega)
  rwa [show a + (i - a) = i by omega] at this

theorem bucket_ok {i : Nat} (h : i < 358) : bucketOk (32 * i + 1) (32 * i + 32) = true := by
  by_cases h0 : i < 90
  · exact bucket_of_chunk buckets_0 (by omega) (by omega)
  · by_cases h1 : i < 180
    · exact bucket_of_chunk buckets_1 (by omega) (by omega)
    · by_cases h2 : i < 270
      · exact bucket_of_chunk buckets_2 (by omega) (by omega)
      · exact bucket_of_chunk buckets_3 (by omega) (by omega)

/-- **The whole documented domain is fine.** -/
theorem par_of_domain {fs decay : Nat} (h1 : 0 < fs) (h2 : fs ≤ 32736) (h3 : 0 < decay) (h4 : decay ≤ 11456) :
    ∃ T, Par fs decay T := by
  -- the bucket of `decay`
  have hb := bucket_ok (i := (decay - 1) / 32) (by omega)
  generalize hd1 : 32 * ((decay - 1) / 32) + 1 = d1 at hb
  generalize hd2 : 32 * ((decay - 1) / 32) + 32 = d2 at hb
  have hlo : d1 ≤ decay := by omega
  have hhi : decay ≤ d2 := by omega
  unfold bucketOk at hb
  split at hb
  · rename_i k hk
    simp only [List.all_eq_true, List.mem_range, Bool.or_eq_true, Nat.ble_eq] at hb
    -- F 0 ≤ 16384 - d1
    have hg : 32768 * F fs decay 0 ≤ (32736 - fs) * (16384 - decay) := getFreq1_le (fs := fs) (decay := decay) h2 (by omega)
    have hF0 : F fs decay 0 ≤ 16384 - d1 := by
      have : (32736 - fs) * (16384 - decay) ≤ 32768 * (16384 - decay) := Nat.mul_le_mul_right _ (by omega)
      have : 32768 * F fs decay 0 ≤ 32768 * (16384 - decay) := Nat.le_trans hg this
      have := Nat.le_of_mul_le_mul_left this (by omega)
      omega
    obtain ⟨m, _, hmk, hFm⟩ := head_exists (fs := fs) hhi 64 0 (16384 - d1) k hk hF0
    obtain ⟨T, _, hz, hpos, hLT⟩ := tail_exists (fs := fs) (decay := decay) (by omega) 64 m hFm
    -- the first zero overall
    obtain ⟨T0, _, hz0, hpos0, _⟩ := tail_exists (fs := fs) (decay := decay) (by omega) (F fs decay 0 + 1) 0 (by omega)
    have hT0 : T0 ≤ T := by
      apply Decidable.byContradiction
      intro hlt
      have := hpos0 T (Nat.zero_le _) (by omega)
      omega
    have hLmono := L_mono fs decay hT0
    refine ⟨T0, h1, hz0, fun i hi => hpos0 i (Nat.zero_le _) hi, Nat.le_trans hLmono ?_⟩
    · -- L T ≤ 32766
      have hG := tailG_mono hhi 64 (F fs decay m) (F fs decay m) (Nat.le_refl _)
      have hchk := hb (F fs decay m) hFm
      obtain ⟨c, hc⟩ : ∃ c, c + decay = 16384 := ⟨16384 - decay, by omega⟩
      have hcpos : 0 < c := by omega
      have hinv := inv fs decay c hc m
      have hc' : 16384 - decay = c := by omega
      rw [hc'] at hg
      have hsum : c * (fs + 2 * m) + (32736 - fs) * c = c * (32736 + 2 * m) := by
        rw [Nat.mul_comm (32736 - fs) c, ← Nat.mul_add]; congr 1; omega
      generalize hLm : L fs decay m = Lm at *
      generalize hFmv : F fs decay m = Fm at *
      generalize hg1 : tailG decay 64 Fm = g at *
      generalize hg2 : tailG d2 64 Fm = G at *
      generalize hF0v : F fs decay 0 = F0 at *
      -- c·Lm + 32768·Fm ≤ c·(32736 + 2m)
      have hA : c * Lm + 32768 * Fm ≤ c * (32736 + 2 * m) := by omega
      have hgG : c * g ≤ c * G := Nat.mul_le_mul_left _ hG
      have hgoal : c * (Lm + g) ≤ c * 32766 := by
        rw [Nat.mul_add]
        rcases hchk with hA1 | hB1
        · have : c * (32736 + 2 * m) + c * G ≤ c * 32766 := by
            rw [← Nat.mul_add]; exact Nat.mul_le_mul_left _ (by omega)
          omega
        · by_cases hsmall : 2 * k + G ≤ 30
          · have : c * (32736 + 2 * m) + c * G ≤ c * 32766 := by
              rw [← Nat.mul_add]; exact Nat.mul_le_mul_left _ (by omega)
            omega
          · have hE : (2 * k + G - 30) * c ≤ (2 * k + G - 30) * (16384 - d1) := Nat.mul_le_mul_left _ (by omega)
            have h5 : c * (32736 + 2 * m) + c * G ≤ c * 32766 + c * (2 * k + G - 30) := by
              rw [← Nat.mul_add, ← Nat.mul_add]; exact Nat.mul_le_mul_left _ (by omega)
            have h6 : c * (2 * k + G - 30) = (2 * k + G - 30) * c := Nat.mul_comm _ _
            omega
      have := Nat.le_of_mul_le_mul_left hgoal hcpos
      omega
  · cases hb

/-! ## `Par` gives the decidable `LaplaceOk` -/

theorem L_ge (fs decay : Nat) : ∀ j, fs + 2 * j ≤ L fs decay j := by
  intro j
  induction j with
  | zero => simp [L]
  | succ j ih => simp only [L]; omega

theorem tailStart_of_par {fs decay T : Nat} (hp : Par fs decay T) : ∀ fuel j, j ≤ T → T - j < fuel →
    tailStart decay fuel j (L fs decay j) (F fs decay j) = some (T, L fs decay T) := by
  intro fuel
  induction fuel with
  | zero => intro j _ h; omega
  | succ fuel ih =>
    intro j hj hf
    simp only [tailStart]
    by_cases e : j = T
    · subst e; rw [if_pos hp.zero]
    · have := hp.pos j (by omega)
      rw [if_neg (by omega)]
      exact ih (j + 1) (by omega) (by omega)

theorem ok_of_par {fs decay T : Nat} (hp : Par fs decay T) : LaplaceOk fs decay = true := by
  have hT : T < 32768 := by have := L_ge fs decay T; have := hp.room; omega
  have h := tailStart_of_par hp 32768 0 (Nat.zero_le _) (by omega)
  simp only [L, F] at h
  simp only [LaplaceOk, h, Bool.and_eq_true, decide_eq_true_eq]
  exact ⟨hp.fs_pos, hp.room⟩

theorem laplaceOk_domain {fs decay : Nat} (h1 : 0 < fs) (h2 : fs ≤ 32736) (h3 : 0 < decay) (h4 : decay ≤ 11456) :
    LaplaceOk fs decay = true := by
  obtain ⟨T, hp⟩ := par_of_domain h1 h2 h3 h4
  exact ok_of_par hp

end OpusProofs.Laplace
