import OpusModel.SoftClip
/-
  OpusProofs.SoftClip — structural facts about the generic transcription of `opus_pcm_soft_clip`
  (OpusModel/SoftClip.lean), valid for EVERY instantiation of `ClipOps` (binary32 included): no
  arithmetic law is used.
    * degenerate arguments are ignored;
    * the work on channel `c` of a `C`-channel interleaved buffer is the single-channel algorithm on
      that channel's samples (`chan`), and leaves every other channel untouched.
-/
namespace Opus.SoftClip
variable {α : Type} [ClipOps α]
open ClipOps

/-- The samples of channel `c` of an interleaved `C`-channel buffer of `N` frames. -/
def chan (x : Array α) (C c N : Nat) : Array α := Array.ofFn (n := N) (fun i => rd x C c i.val)

omit [ClipOps α] in
theorem size_wr (x : Array α) (C c i : Nat) (v : α) : (wr x C c i v).size = x.size := by
  unfold wr; simp

theorem size_chan (x : Array α) (C c N : Nat) : (chan x C c N).size = N := by
  unfold chan; simp

theorem idx_lt {C c N i : Nat} (hc : c < C) (hi : i < N) : i * C + c < N * C := by
  have := Nat.mul_le_mul_right C (Nat.succ_le_of_lt hi); rw [Nat.succ_mul] at this; omega

theorem rd_chan (x : Array α) (C c N : Nat) (hsz : x.size = N * C) (i : Nat) :
    rd (chan x C c N) 1 0 i = rd x C c i := by
  by_cases h : i < N
  · simp [rd, chan, h]
  · have : x.size ≤ i * C + c := by
      rw [hsz]; have := Nat.mul_le_mul_right C (Nat.le_of_not_lt h); omega
    simp [rd, chan, h, this]

theorem chan_wr (x : Array α) (C c N : Nat) (hc : c < C) (hsz : x.size = N * C) (i : Nat) (v : α) :
    chan (wr x C c i v) C c N = wr (chan x C c N) 1 0 i v := by
  apply Array.ext
  · simp [chan, wr]
  · intro j h1 h2
    have hj : j < N := by simpa [chan] using h1
    have hiff : i * C + c = j * C + c ↔ i = j := by
      constructor
      · intro h; have : i * C = j * C := by omega
        exact Nat.eq_of_mul_eq_mul_right (by omega) this
      · intro h; rw [h]
    by_cases hij : i = j
    · subst hij
      have : i * C + c < x.size := by rw [hsz]; exact idx_lt hc hj
      simp [chan, wr, rd, this]
    · have hne : i * C + c ≠ j * C + c := fun h => hij (hiff.mp h)
      simp only [chan, wr, rd, Array.getElem_ofFn, Array.getD_eq_getD_getElem?, Array.getElem?_setIfInBounds_ne hne]
      rw [Array.getElem_setIfInBounds_ne (by simpa using hj) (by omega)]
      simp

theorem chan_wr_other (x : Array α) (C c c' N : Nat) (hc : c < C) (hc' : c' < C) (hne : c' ≠ c) (i : Nat) (v : α) :
    chan (wr x C c i v) C c' N = chan x C c' N := by
  apply Array.ext
  · simp [chan]
  · intro j h1 h2
    have hj : j < N := by simpa [chan] using h1
    have hne2 : i * C + c ≠ j * C + c' := by
      intro h
      have e1 : (i * C + c) % C = c := by rw [Nat.mul_comm, Nat.mul_add_mod, Nat.mod_eq_of_lt hc]
      have e2 : (j * C + c') % C = c' := by rw [Nat.mul_comm, Nat.mul_add_mod, Nat.mod_eq_of_lt hc']
      rw [h] at e1; omega
    simp [chan, wr, rd, Array.getElem?_setIfInBounds_ne hne2]

/-! ### channel `c` of the interleaved run = the mono run on `chan x C c N` -/

section sim
variable (C c N : Nat) (hc : c < C)
include hc

theorem contLoop_sim (x : Array α) (a : α) (i : Nat) (hsz : x.size = N * C) :
    (contLoop x C c N a i).size = N * C ∧
    chan (contLoop x C c N a i) C c N = contLoop (chan x C c N) 1 0 N a i ∧
    ∀ c', c' < C → c' ≠ c → chan (contLoop x C c N a i) C c' N = chan x C c' N := by
  fun_induction contLoop x C c N a i with
  | case1 x i h v hle =>
    refine ⟨hsz, ?_, fun _ _ _ => rfl⟩
    rw [contLoop.eq_def (chan x C c N)]
    simp only [h, if_true, rd_chan x C c N hsz]
    exact (if_pos hle).symm
  | case2 x i h v hle ih =>
    have hsz' : (wr x C c i (nl a v)).size = N * C := by rw [size_wr]; exact hsz
    obtain ⟨i1, i2, i3⟩ := ih hsz'
    refine ⟨i1, ?_, fun c' h1 h2 => ?_⟩
    · rw [i2, contLoop.eq_def (chan x C c N)]
      simp only [h, if_true, rd_chan x C c N hsz, chan_wr x C c N hc hsz]
      exact (if_neg hle).symm
    · rw [i3 c' h1 h2, chan_wr_other x C c c' N hc h1 h2]
  | case3 x i h =>
    refine ⟨hsz, ?_, fun _ _ _ => rfl⟩
    rw [contLoop.eq_def (chan x C c N)]
    simp only [h, if_false]

theorem applyLoop_sim (x : Array α) (a : α) (i e : Nat) (hsz : x.size = N * C) :
    (applyLoop x C c a i e).size = N * C ∧
    chan (applyLoop x C c a i e) C c N = applyLoop (chan x C c N) 1 0 a i e ∧
    ∀ c', c' < C → c' ≠ c → chan (applyLoop x C c a i e) C c' N = chan x C c' N := by
  fun_induction applyLoop x C c a i e with
  | case1 x i h ih =>
    have hsz' : (wr x C c i (nl a (rd x C c i))).size = N * C := by rw [size_wr]; exact hsz
    obtain ⟨i1, i2, i3⟩ := ih hsz'
    refine ⟨i1, ?_, fun c' h1 h2 => ?_⟩
    · rw [i2, applyLoop.eq_def (chan x C c N)]
      simp only [h, if_true, rd_chan x C c N hsz, chan_wr x C c N hc hsz]
    · rw [i3 c' h1 h2, chan_wr_other x C c c' N hc h1 h2]
  | case2 x i h =>
    refine ⟨hsz, ?_, fun _ _ _ => rfl⟩
    rw [applyLoop.eq_def (chan x C c N)]
    simp only [h, if_false]

theorem rampLoop_sim (x : Array α) (delta : α) (i peak : Nat) (hsz : x.size = N * C) :
    (rampLoop x C c delta i peak).size = N * C ∧
    chan (rampLoop x C c delta i peak) C c N = rampLoop (chan x C c N) 1 0 delta i peak ∧
    ∀ c', c' < C → c' ≠ c → chan (rampLoop x C c delta i peak) C c' N = chan x C c' N := by
  fun_induction rampLoop x C c delta i peak with
  | case1 x i h offset v ih =>
    have hsz' : (wr x C c i (sat1 v)).size = N * C := by rw [size_wr]; exact hsz
    obtain ⟨i1, i2, i3⟩ := ih hsz'
    refine ⟨i1, ?_, fun c' h1 h2 => ?_⟩
    · rw [i2, rampLoop.eq_def (chan x C c N)]
      simp only [h, if_true, rd_chan x C c N hsz, chan_wr x C c N hc hsz]
      rfl
    · rw [i3 c' h1 h2, chan_wr_other x C c c' N hc h1 h2]
  | case2 x i h =>
    refine ⟨hsz, ?_, fun _ _ _ => rfl⟩
    rw [rampLoop.eq_def (chan x C c N)]
    simp only [h, if_false]

omit hc in
theorem findExceed_sim (x : Array α) (i : Nat) (hsz : x.size = N * C) :
    findExceed x C c N i = findExceed (chan x C c N) 1 0 N i := by
  fun_induction findExceed x C c N i with
  | case1 i h v hcond =>
    rw [findExceed.eq_def (chan x C c N)]
    simp only [h, if_true, rd_chan x C c N hsz]
    exact (if_pos hcond).symm
  | case2 i h v hcond ih =>
    rw [findExceed.eq_def (chan x C c N)]
    simp only [h, if_true, rd_chan x C c N hsz]
    rw [ih]; exact (if_neg hcond).symm
  | case3 i h =>
    rw [findExceed.eq_def (chan x C c N)]
    simp only [h, if_false]

omit hc in
theorem startScan_sim (x : Array α) (xi : α) (s : Nat) (hsz : x.size = N * C) :
    startScan x C c xi s = startScan (chan x C c N) 1 0 xi s := by
  induction s with
  | zero => rfl
  | succ s ih => simp only [startScan, rd_chan x C c N hsz, ih]

omit hc in
theorem endScan_sim (x : Array α) (xi : α) (e : Nat) (maxval : α) (peak : Nat) (hsz : x.size = N * C) :
    endScan x C c N xi e maxval peak = endScan (chan x C c N) 1 0 N xi e maxval peak := by
  fun_induction endScan x C c N xi e maxval peak with
  | case1 e maxval peak h v h1 h2 ih =>
    rw [endScan.eq_def (chan x C c N)]
    simp only [h, if_true, rd_chan x C c N hsz]
    rw [ih]; exact ((if_pos h1).trans (if_pos h2)).symm
  | case2 e maxval peak h v h1 h2 ih =>
    rw [endScan.eq_def (chan x C c N)]
    simp only [h, if_true, rd_chan x C c N hsz]
    rw [ih]; exact ((if_pos h1).trans (if_neg h2)).symm
  | case3 e maxval peak h v h1 =>
    rw [endScan.eq_def (chan x C c N)]
    simp only [h, if_true, rd_chan x C c N hsz]
    exact (if_neg h1).symm
  | case4 e maxval peak h =>
    rw [endScan.eq_def (chan x C c N)]
    simp only [h, if_false]

theorem excursion_sim (x : Array α) (x0 : α) (curr i : Nat) (hsz : x.size = N * C) :
    (excursion x C c N x0 curr i).1.size = N * C ∧
    chan (excursion x C c N x0 curr i).1 C c N = (excursion (chan x C c N) 1 0 N x0 curr i).1 ∧
    (excursion x C c N x0 curr i).2 = (excursion (chan x C c N) 1 0 N x0 curr i).2 ∧
    ∀ c', c' < C → c' ≠ c → chan (excursion x C c N x0 curr i).1 C c' N = chan x C c' N := by
  unfold excursion
  simp only [rd_chan x C c N hsz, ← startScan_sim C c N x _ _ hsz, ← endScan_sim C c N x _ _ _ _ hsz]
  generalize rd x C c i = xi
  generalize startScan x C c xi i = start
  generalize endScan x C c N xi i (abs xi) i = r
  obtain ⟨e, maxval, peak⟩ := r
  simp only
  obtain ⟨a1, a2, a3⟩ := applyLoop_sim C c N hc x (coefA maxval xi) start e hsz
  split
  · obtain ⟨r1, r2, r3⟩ := rampLoop_sim C c N hc (applyLoop x C c (coefA maxval xi) start e)
      ((x0 - rd (applyLoop x C c (coefA maxval xi) start e) C c 0) / ofNat peak) curr peak a1
    refine ⟨r1, ?_, trivial, fun c' h1 h2 => ?_⟩
    · rw [r2, a2, ← a2, rd_chan _ C c N a1]
    · rw [r3 c' h1 h2, a3 c' h1 h2]
  · exact ⟨a1, a2, trivial, a3⟩

theorem outer_sim (x : Array α) (x0 : α) (curr : Nat) (hsz : x.size = N * C) :
    (outer x C c N x0 curr).1.size = N * C ∧
    chan (outer x C c N x0 curr).1 C c N = (outer (chan x C c N) 1 0 N x0 curr).1 ∧
    (outer x C c N x0 curr).2 = (outer (chan x C c N) 1 0 N x0 curr).2 ∧
    ∀ c', c' < C → c' ≠ c → chan (outer x C c N x0 curr).1 C c' N = chan x C c' N := by
  fun_induction outer x C c N x0 curr with
  | case1 x curr i h x' a hex =>
    obtain ⟨e1, e2, e3, e4⟩ := excursion_sim C c N hc x x0 curr i hsz
    rw [hex] at e1 e2 e3 e4
    have hm : excursion (chan x C c N) 1 0 N x0 curr (findExceed x C c N curr) = (chan x' C c N, a, N) :=
      Prod.ext e2.symm e3.symm
    have hi : findExceed x C c N curr < N := h
    rw [outer.eq_def (chan x C c N)]
    simp only [← findExceed_sim C c N x curr hsz, hi, if_true, hm]
    exact ⟨e1, trivial, trivial, e4⟩
  | case2 x curr i h x' a e hex he hg ih =>
    obtain ⟨e1, e2, e3, e4⟩ := excursion_sim C c N hc x x0 curr i hsz
    rw [hex] at e1 e2 e3 e4
    have hm : excursion (chan x C c N) 1 0 N x0 curr (findExceed x C c N curr) = (chan x' C c N, a, e) :=
      Prod.ext e2.symm e3.symm
    have hi : findExceed x C c N curr < N := h
    obtain ⟨o1, o2, o3, o4⟩ := ih e1
    rw [outer.eq_def (chan x C c N)]
    simp only [← findExceed_sim C c N x curr hsz, hi, if_true, hm, he, if_false, hg, and_self, dite_true]
    exact ⟨o1, o2, o3, fun c' h1 h2 => by rw [o4 c' h1 h2, e4 c' h1 h2]⟩
  | case3 x curr i h x' a e hex he hg =>
    obtain ⟨e1, e2, e3, e4⟩ := excursion_sim C c N hc x x0 curr i hsz
    rw [hex] at e1 e2 e3 e4
    have hm : excursion (chan x C c N) 1 0 N x0 curr (findExceed x C c N curr) = (chan x' C c N, a, e) :=
      Prod.ext e2.symm e3.symm
    have hi : findExceed x C c N curr < N := h
    rw [outer.eq_def (chan x C c N)]
    simp only [← findExceed_sim C c N x curr hsz, hi, if_true, hm, he, if_false, hg, dite_false]
    exact ⟨e1, trivial, trivial, e4⟩
  | case4 x curr i h =>
    have hi : ¬ findExceed x C c N curr < N := h
    rw [outer.eq_def (chan x C c N)]
    simp only [← findExceed_sim C c N x curr hsz, hi, if_false]
    exact ⟨hsz, trivial, trivial, fun _ _ _ => trivial⟩

theorem clipChannel_sim (x mem : Array α) (hsz : x.size = N * C) :
    (clipChannel x mem C c N).1.size = N * C ∧
    chan (clipChannel x mem C c N).1 C c N = (clipChannel (chan x C c N) #[mem.getD c zero] 1 0 N).1 ∧
    (clipChannel x mem C c N).2 =
      mem.setIfInBounds c ((clipChannel (chan x C c N) #[mem.getD c zero] 1 0 N).2.getD 0 zero) ∧
    ∀ c', c' < C → c' ≠ c → chan (clipChannel x mem C c N).1 C c' N = chan x C c' N := by
  unfold clipChannel
  obtain ⟨k1, k2, k3⟩ := contLoop_sim C c N hc x (mem.getD c zero) 0 hsz
  obtain ⟨o1, o2, o3, o4⟩ := outer_sim C c N hc (contLoop x C c N (mem.getD c zero) 0)
    (rd (contLoop x C c N (mem.getD c zero) 0) C c 0) 0 k1
  have hm0 : (#[mem.getD c zero] : Array α).getD 0 zero = mem.getD c zero := by simp
  simp only [hm0, ← k2, rd_chan _ C c N k1]
  refine ⟨o1, o2, ?_, fun c' h1 h2 => by rw [o4 c' h1 h2, k3 c' h1 h2]⟩
  rw [o3]; simp

end sim

/-! ### the saturation pre-pass is element-wise -/

theorem satLoop_spec (x : Array α) (i n : Nat) :
    (satLoop x i n).size = x.size ∧
    ∀ j, (satLoop x i n).getD j zero =
      if i ≤ j ∧ j < n ∧ j < x.size then sat2 (x.getD j zero) else x.getD j zero := by
  fun_induction satLoop x i n with
  | case1 x i h ih =>
    obtain ⟨s1, s2⟩ := ih
    refine ⟨by rw [s1]; simp, fun j => ?_⟩
    rw [s2 j]
    by_cases hij : i = j
    · subst hij
      have h1 : ¬ (i + 1 ≤ i) := by omega
      by_cases hb : i < x.size
      · simp [h1, h, hb]
      · simp [h1, hb]
    · have hne : i ≠ j := hij
      simp only [Array.size_setIfInBounds, Array.getD_eq_getD_getElem?, Array.getElem?_setIfInBounds_ne hne]
      by_cases hlt : i + 1 ≤ j
      · have : i ≤ j := by omega
        simp [hlt, this]
      · have : ¬ i ≤ j := by omega
        simp [hlt, this]
  | case2 x i h =>
    refine ⟨rfl, fun j => ?_⟩
    have : ¬ (i ≤ j ∧ j < n ∧ j < x.size) := by omega
    rw [if_neg this]

theorem chan_satLoop (x : Array α) (C c N : Nat) (hc : c < C) (hsz : x.size = N * C) :
    chan (satLoop x 0 (N * C)) C c N = satLoop (chan x C c N) 0 (N * 1) := by
  obtain ⟨s1, s2⟩ := satLoop_spec x 0 (N * C)
  obtain ⟨t1, t2⟩ := satLoop_spec (chan x C c N) 0 (N * 1)
  apply Array.ext
  · rw [size_chan, t1, size_chan]
  · intro j h1 h2
    have hj : j < N := by simpa [chan] using h1
    have hidx : j * C + c < N * C := idx_lt hc hj
    have e1 : (chan (satLoop x 0 (N * C)) C c N)[j] = (satLoop x 0 (N * C)).getD (j * C + c) zero := by
      simp [chan, rd]
    have e2 : (satLoop (chan x C c N) 0 (N * 1))[j] = (satLoop (chan x C c N) 0 (N * 1)).getD j zero := by
      rw [Array.getD_eq_getD_getElem?, Array.getElem?_eq_getElem h2]; rfl
    rw [e1, e2, s2, t2, size_chan]
    have c1 : 0 ≤ j * C + c ∧ j * C + c < N * C ∧ j * C + c < x.size := ⟨by omega, hidx, by omega⟩
    have c2 : 0 ≤ j ∧ j < N * 1 ∧ j < N := ⟨by omega, by omega, hj⟩
    rw [if_pos c1, if_pos c2]
    have : (chan x C c N).getD j zero = x.getD (j * C + c) zero := by simp [chan, rd, hj]
    rw [this]

/-! ### all channels -/

/-- The single-channel algorithm (after the saturation pre-pass) on samples `xs` with memory `m`. -/
def mono (xs : Array α) (m : α) (N : Nat) : Array α × α :=
  ((clipChannel xs #[m] 1 0 N).1, (clipChannel xs #[m] 1 0 N).2.getD 0 zero)

theorem chanLoop_spec (xs mem : Array α) (C N : Nat) (hsz : xs.size = N * C) (hm : mem.size = C)
    (y m : Array α) (k : Nat) (hy : y.size = N * C) (hms : m.size = C)
    (hdone : ∀ c, c < k → c < C → chan y C c N = (mono (chan xs C c N) (mem.getD c zero) N).1 ∧
        m.getD c zero = (mono (chan xs C c N) (mem.getD c zero) N).2)
    (htodo : ∀ c, k ≤ c → c < C → chan y C c N = chan xs C c N ∧ m.getD c zero = mem.getD c zero) :
    (chanLoop y m C N k).1.size = N * C ∧ (chanLoop y m C N k).2.size = C ∧
    ∀ c, c < C → chan (chanLoop y m C N k).1 C c N = (mono (chan xs C c N) (mem.getD c zero) N).1 ∧
        (chanLoop y m C N k).2.getD c zero = (mono (chan xs C c N) (mem.getD c zero) N).2 := by
  fun_induction chanLoop y m C N k with
  | case1 y m k h y' m' hcl ih =>
    obtain ⟨q1, q2, q3, q4⟩ := clipChannel_sim C k N h y m hy
    rw [hcl] at q1 q2 q3 q4
    obtain ⟨t1, t2⟩ := htodo k (Nat.le_refl _) h
    simp only at q1 q2 q3 q4
    rw [t1, t2] at q2
    rw [t1, t2] at q3
    have hm' : m'.size = C := by rw [q3]; simp [hms]
    apply ih q1 hm'
    · intro c hck hcC
      by_cases hk : c = k
      · subst hk
        refine ⟨q2, ?_⟩
        rw [q3]; simp [mono, hms, h]
      · obtain ⟨d1, d2⟩ := hdone c (by omega) hcC
        refine ⟨by rw [q4 c hcC hk, d1], ?_⟩
        rw [q3, ← d2]
        simp only [Array.getD_eq_getD_getElem?, Array.getElem?_setIfInBounds_ne (Ne.symm hk)]
    · intro c hck hcC
      have hk : c ≠ k := by omega
      obtain ⟨d1, d2⟩ := htodo c (by omega) hcC
      refine ⟨by rw [q4 c hcC hk, d1], ?_⟩
      rw [q3, ← d2]
      simp only [Array.getD_eq_getD_getElem?, Array.getElem?_setIfInBounds_ne (Ne.symm hk)]
  | case2 y m k h =>
    exact ⟨hy, hms, fun c hc => hdone c (by omega) hc⟩

omit [ClipOps α] in
theorem array_one (m : Array α) (h : m.size = 1) (z : α) : m = #[m.getD 0 z] := by
  apply Array.ext
  · simp [h]
  · intro j h1 h2
    have : j = 0 := by omega
    subst this
    simp [Array.getD, h]

theorem chanLoop_one (xs : Array α) (m : α) (N : Nat) :
    chanLoop xs #[m] 1 N 0 = ((mono xs m N).1, #[(mono xs m N).2]) := by
  rw [chanLoop.eq_def]
  simp only [Nat.lt_one_iff, if_true]
  rw [chanLoop.eq_def]
  simp only [Nat.zero_add, Nat.lt_irrefl, if_false]
  have hs : (clipChannel xs #[m] 1 0 N).2.size = 1 := by unfold clipChannel; simp
  unfold mono
  exact Prod.ext rfl (array_one _ hs zero)

/-- The `C`-channel call succeeds on buffers of the declared size, and its channel `c` (samples and
    memory) is exactly what the 1-channel call computes on that channel's samples and memory. -/
theorem softClip_channel (x mem : Array α) (N C : Nat) (hN : 1 ≤ N) (hC : 1 ≤ C)
    (hsz : x.size = N * C) (hm : mem.size = C) :
    ∃ y m', softClip false false x mem (N : Int) (C : Int) = .ok (y, m') ∧ y.size = N * C ∧ m'.size = C ∧
      ∀ c, c < C → softClip false false (chan x C c N) #[mem.getD c zero] (N : Int) 1 =
        .ok (chan y C c N, #[m'.getD c zero]) := by
  have hg : ¬ ((C : Int) < 1 ∨ (N : Int) < 1 ∨ false = true ∨ false = true) := by simp; omega
  have hg1 : ¬ ((1 : Int) < 1 ∨ (N : Int) < 1 ∨ false = true ∨ false = true) := by simp; omega
  have hb : ¬ (x.size < N * C ∨ mem.size < C) := by omega
  obtain ⟨s1, _⟩ := satLoop_spec x 0 (N * C)
  have hxs : (satLoop x 0 (N * C)).size = N * C := by rw [s1, hsz]
  obtain ⟨r1, r2, r3⟩ := chanLoop_spec (satLoop x 0 (N * C)) mem C N hxs hm (satLoop x 0 (N * C)) mem 0 hxs hm
    (fun c h _ => absurd h (Nat.not_lt_zero c)) (fun c _ _ => ⟨rfl, rfl⟩)
  refine ⟨(chanLoop (satLoop x 0 (N * C)) mem C N 0).1, (chanLoop (satLoop x 0 (N * C)) mem C N 0).2, ?_, r1, r2, ?_⟩
  · unfold softClip
    rw [if_neg hg]
    simp only [Int.toNat_natCast]
    rw [if_neg hb]
  · intro c hc
    obtain ⟨d1, d2⟩ := r3 c hc
    have hb1 : ¬ ((chan x C c N).size < N * 1 ∨ (#[mem.getD c zero] : Array α).size < 1) := by
      rw [size_chan]; simp
    unfold softClip
    rw [if_neg hg1]
    have e1 : (1 : Int).toNat = 1 := rfl
    simp only [Int.toNat_natCast, e1]
    rw [if_neg hb1, chanLoop_one, d1, d2, chan_satLoop x C c N hc hsz]

/-! ### degenerate arguments -/

theorem softClip_degenerate (xNull memNull : Bool) (x mem : Array α) (N C : Int)
    (h : C < 1 ∨ N < 1 ∨ xNull = true ∨ memNull = true) : softClip xNull memNull x mem N C = .ok (x, mem) := by
  unfold softClip; rw [if_pos h]

end Opus.SoftClip
