import OpusProofs.CeltAllocBisect
/-
  OpusProofs.CeltAllocSkip — one iteration of the band-skipping loop: the running sum stays within the budget and
  every bit is accounted for.
-/
namespace OpusProofs.CeltAlloc
open Opus Opus.CeltAlloc
open Opus.Gen.CeltTables

/-- cost in 1/8 bit the allocator itself charges for a coder call: a `bit_logp(…,1)` costs one bit, the intensity
    `uint` with `ft` values is charged `LOG2_FRAC_TABLE[ft-1]`. -/
def opCost : Op → Int
  | .bit _ => 8
  | .uint _ ft => (log2FracTable.getD (ft - 1) 0 : Int)

def opsCost : List Op → Int
  | [] => 0
  | o :: os => opCost o + opsCost os

def sumBits : List (Band × Int) → Int
  | [] => 0
  | x :: xs => x.2 + sumBits xs

theorem toS32_id {y : Int} (h0 : 0 ≤ y) (h1 : y < 2147483648) : toS32 y = y := by
  unfold toS32
  have : y % 4294967296 = y := Int.emod_eq_of_lt h0 (by omega)
  simp only [this]
  rw [if_neg (by omega)]

theorem udiv_eq {n d : Int} (h0 : 0 ≤ n) (h1 : n < 2147483648) (hd : 0 < d) : udiv n d = n / d := by
  unfold udiv
  have e : n % 4294967296 = n := Int.emod_eq_of_lt h0 (by omega)
  rw [e]
  have hq0 : 0 ≤ n / d := Int.ediv_nonneg h0 (by omega)
  have hq1 : n / d ≤ n := Int.ediv_le_self _ h0
  exact toS32_id hq0 (by omega)

theorem bandBits_bounds (b : Band) (bits psum total : Int) (h0 : 0 ≤ total - psum) (h1 : total - psum < 2147483648)
    (hw : 1 ≤ b.w) :
    bits ≤ bandBitsOf b bits psum total ∧ bandBitsOf b bits psum total ≤ bits + (total - psum) := by
  unfold bandBitsOf
  simp only []
  have hwa : (0 : Int) < ((b.lo + b.w : Nat) : Int) := by omega
  rw [udiv_eq h0 h1 hwa]
  generalize hL : total - psum = L at *
  generalize hW : ((b.lo + b.w : Nat) : Int) = W at *
  have hq0 : 0 ≤ L / W := Int.ediv_nonneg h0 (by omega)
  have hm0 : 0 ≤ L % W := Int.emod_nonneg _ (by omega)
  have hqw : L / W * (b.w : Int) ≤ L / W * W := Int.mul_le_mul_of_nonneg_left (by omega) hq0
  have hqw0 : 0 ≤ L / W * (b.w : Int) := Int.mul_nonneg hq0 (by omega)
  have hc : L / W * W = W * (L / W) := Int.mul_comm _ _
  have e : L - W * (L / W) = L % W := (Int.emod_def L W).symm
  rw [e]
  constructor <;> omega

/-- closes a conjunction of trivialities, absurd implications and linear facts -/
macro "fin_cases_goal" : tactic =>
  `(tactic| ((repeat' (first | apply And.intro | intro _)) <;>
      (first | trivial | contradiction | omega | (apply Or.inl; trivial) | (apply Or.inr; trivial))))

theorem opsCost_cons (o : Op) (os : List Op) : opsCost (o :: os) = opCost o + opsCost os := rfl

/-- Facts about one iteration (the part after the `j<=skip_start` test). -/
theorem skipStep_spec (p : Inp) (hp : Dom p) (b : Band) (bits psum total irsv : Int) (c : Coder)
    (hbits : 0 ≤ bits) (hle : psum ≤ total) (htot : total < 1073741824) (hps : -1073741824 < psum) (hw : 1 ≤ b.w)
    (hir : 0 ≤ irsv)
    (hmono : irsv > 0 → (log2FracTable.getD (b.j - p.start) 0 : Int) ≤ irsv) :
    let r := skipStep p b bits psum total irsv c
    (r.newBits = allocFloor p.C ∨ r.newBits = 0) ∧
    r.irsv = (if irsv > 0 then (log2FracTable.getD (b.j - p.start) 0 : Int) else irsv) ∧
    r.coder.encode = c.encode ∧
    (r.stop = false → r.psum ≤ total ∧
      r.psum - r.newBits - r.irsv - opsCost r.coder.ops = psum - bits - irsv - opsCost c.ops ∧
      r.psum - r.newBits ≥ psum - bits - (irsv - r.irsv)) ∧
    (r.stop = true → opsCost r.coder.ops = opsCost c.ops + 8 ∧
      allocFloor p.C + 8 ≤ bits + (total - psum)) := by
  intro r
  have hF := floor_pos hp
  have hB : (2 : Int) ^ BITRES = 8 := by decide
  obtain ⟨hb1, hb2⟩ := bandBits_bounds b bits psum total (by omega) (by omega) hw
  show (_ ∧ _ ∧ _ ∧ _ ∧ _)
  simp only [r, skipStep, hB]
  generalize hbb : bandBitsOf b bits psum total = bb at *
  generalize hir' : (if irsv > 0 then (log2FracTable.getD (b.j - p.start) 0 : Int) else irsv) = irsv' at *
  have hi' : irsv' ≤ irsv := by
    rw [← hir']; split
    · exact hmono (by assumption)
    · exact Int.le_refl _
  by_cases hc : bb ≥ max b.thresh (allocFloor p.C + 8)
  · simp only [hc, decide_true, if_true]
    have hge : bb - 8 ≥ allocFloor p.C := by omega
    simp only [hge, if_true]
    by_cases he : c.encode = true
    · simp only [he, if_true, Coder.encBit]
      generalize (decide (b.j + 1 ≤ p.start + 2) ||
        decide (bb > (if b.j + 1 > 17 then if (b.j : Int) < p.prev then 7 else 9 else 0) * (b.w : Int) * 2 ^ p.LM * 8 / 16) &&
          decide ((b.j : Int) ≤ p.signalBandwidth)) = st
      cases st
      · simp only [Bool.false_eq_true, if_false, opsCost_cons, opCost]
        fin_cases_goal
      · simp only [if_true, opsCost_cons, opCost]
        fin_cases_goal
    · simp only [he, Bool.false_eq_true, if_false, Coder.decBit, opsCost_cons, opCost]
      fin_cases_goal
  · simp only [hc, decide_false, Bool.false_eq_true, if_false]
    by_cases hge : bb ≥ allocFloor p.C
    · simp only [hge, if_true]
      fin_cases_goal
    · simp only [hge, if_false]
      fin_cases_goal

end OpusProofs.CeltAlloc
