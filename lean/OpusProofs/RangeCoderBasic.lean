import OpusModel.RangeCoder
/-
  OpusProofs.RangeCoderBasic — arithmetic helpers for the range-coder proofs (C08):
  32-bit wrappers on their no-wrap domain, `ilog`, and the fields that the
  output / normalisation loops preserve.
-/
namespace Opus.RangeCoder

/-! ### 32-bit helpers on the no-wrap domain -/

theorem u32_of_lt {x : Nat} (h : x < 4294967296) : u32 x = x := by unfold u32; omega
theorem add32_of_lt {a b : Nat} (h : a + b < 4294967296) : add32 a b = a + b := by unfold add32; omega
theorem sub32_of_le {a b : Nat} (ha : a < 4294967296) (h : b ≤ a) : sub32 a b = a - b := by
  unfold sub32; omega
theorem mul32_of_lt {a b : Nat} (h : a * b < 4294967296) : mul32 a b = a * b := by
  unfold mul32; omega
theorem u32_lt (x : Nat) : u32 x < 4294967296 := by unfold u32; omega
theorem sub32_lt (a b : Nat) : sub32 a b < 4294967296 := by unfold sub32; omega
theorem mul32_lt (a b : Nat) : mul32 a b < 4294967296 := by unfold mul32; omega
theorem add32_lt (a b : Nat) : add32 a b < 4294967296 := by unfold add32; omega

/-! ### ilog -/

theorem ilog_zero : ilog 0 = 0 := by simp [ilog]

/-- `ilog v = k` exactly when `2^(k-1) ≤ v < 2^k` (for `k > 0`). -/
theorem ilog_eq_of_bounds {v k : Nat} (hlo : 2 ^ k ≤ v) (hhi : v < 2 ^ (k + 1)) : ilog v = k + 1 := by
  have hv : v ≠ 0 := by
    have : 0 < 2 ^ k := Nat.pow_pos (by decide)
    omega
  unfold ilog
  rw [if_neg hv]
  have h1 : k ≤ v.log2 := (Nat.le_log2 hv).2 hlo
  have h2 : v.log2 < k + 1 := (Nat.log2_lt hv).2 hhi
  omega

theorem ilog_bounds {v : Nat} (hv : v ≠ 0) : 2 ^ (ilog v - 1) ≤ v ∧ v < 2 ^ ilog v := by
  unfold ilog
  rw [if_neg hv]
  exact ⟨by simpa using Nat.log2_self_le hv, Nat.lt_log2_self⟩

theorem ilog_pos {v : Nat} (hv : v ≠ 0) : 0 < ilog v := by unfold ilog; rw [if_neg hv]; omega

theorem ilog_mono {a b : Nat} (h : a ≤ b) : ilog a ≤ ilog b := by
  by_cases ha : a = 0
  · subst ha; simp [ilog]
  · have hb : b ≠ 0 := by omega
    unfold ilog
    rw [if_neg ha, if_neg hb]
    have : a.log2 ≤ b.log2 := by
      apply (Nat.le_log2 hb).2
      exact Nat.le_trans (Nat.log2_self_le ha) h
    omega

theorem ilog_lt_iff {v k : Nat} : ilog v ≤ k ↔ v < 2 ^ k := by
  by_cases hv : v = 0
  · subst hv; simp [ilog, Nat.pow_pos]
  · unfold ilog
    rw [if_neg hv]
    have := @Nat.log2_lt v k hv
    omega

/-- `ilog (256 * v) = ilog v + 8` for `v > 0`. -/
theorem ilog_mul_256 {v : Nat} (hv : v ≠ 0) : ilog (v * 256) = ilog v + 8 := by
  obtain ⟨h1, h2⟩ := ilog_bounds hv
  have hp := ilog_pos hv
  have e : ilog v + 8 = (ilog v - 1 + 8) + 1 := by omega
  rw [e]
  apply ilog_eq_of_bounds
  · rw [Nat.pow_add]; exact Nat.mul_le_mul h1 (by decide)
  · have : ilog v - 1 + 8 + 1 = ilog v + 8 := by omega
    rw [this, Nat.pow_add]
    exact Nat.mul_lt_mul_of_lt_of_le h2 (by decide) (by decide)

/-- The normalised range `2^23 < rng ≤ 2^31` has `24 ≤ ilog rng ≤ 32`. -/
theorem ilog_range {r : Nat} (h1 : 8388608 < r) (h2 : r ≤ 2147483648) : 24 ≤ ilog r ∧ ilog r ≤ 32 := by
  constructor
  · have : ¬ ilog r ≤ 23 := by rw [ilog_lt_iff]; omega
    omega
  · rw [ilog_lt_iff]; omega

end Opus.RangeCoder

namespace Opus.RangeCoder

/-- Field-wise equality of contexts. -/
theorem ctx_eq (x y : Ctx) (h1 : x.buf = y.buf) (h2 : x.storage = y.storage) (h3 : x.endOffs = y.endOffs)
    (h4 : x.endWindow = y.endWindow) (h5 : x.nendBits = y.nendBits) (h6 : x.nbitsTotal = y.nbitsTotal)
    (h7 : x.offs = y.offs) (h8 : x.rng = y.rng) (h9 : x.val = y.val) (h10 : x.ext = y.ext)
    (h11 : x.rem = y.rem) (h12 : x.error = y.error) : x = y := by
  cases x; cases y; simp_all

/-! ### Fields preserved by the byte-output helpers -/

section frame
variable (c : Enc) (v : Nat)

@[simp] theorem writeByte_val : (writeByte c v).val = c.val := by unfold writeByte; split <;> rfl
@[simp] theorem writeByte_rng' : (writeByte c v).rng = c.rng := by unfold writeByte; split <;> rfl
@[simp] theorem writeByte_nbitsTotal : (writeByte c v).nbitsTotal = c.nbitsTotal := by unfold writeByte; split <;> rfl
@[simp] theorem writeByte_storage : (writeByte c v).storage = c.storage := by unfold writeByte; split <;> rfl
@[simp] theorem writeByte_endOffs : (writeByte c v).endOffs = c.endOffs := by unfold writeByte; split <;> rfl
@[simp] theorem writeByte_endWindow : (writeByte c v).endWindow = c.endWindow := by unfold writeByte; split <;> rfl
@[simp] theorem writeByte_nendBits : (writeByte c v).nendBits = c.nendBits := by unfold writeByte; split <;> rfl
@[simp] theorem writeByte_ext : (writeByte c v).ext = c.ext := by unfold writeByte; split <;> rfl
@[simp] theorem writeByte_rem : (writeByte c v).rem = c.rem := by unfold writeByte; split <;> rfl
@[simp] theorem writeByte_buf_length : (writeByte c v).buf.length = c.buf.length := by
  unfold writeByte; split <;> simp

@[simp] theorem writeByteAtEnd_val : (writeByteAtEnd c v).val = c.val := by unfold writeByteAtEnd; split <;> rfl
@[simp] theorem writeByteAtEnd_rng : (writeByteAtEnd c v).rng = c.rng := by unfold writeByteAtEnd; split <;> rfl
@[simp] theorem writeByteAtEnd_nbitsTotal : (writeByteAtEnd c v).nbitsTotal = c.nbitsTotal := by unfold writeByteAtEnd; split <;> rfl
@[simp] theorem writeByteAtEnd_storage : (writeByteAtEnd c v).storage = c.storage := by unfold writeByteAtEnd; split <;> rfl
@[simp] theorem writeByteAtEnd_offs : (writeByteAtEnd c v).offs = c.offs := by unfold writeByteAtEnd; split <;> rfl
@[simp] theorem writeByteAtEnd_ext : (writeByteAtEnd c v).ext = c.ext := by unfold writeByteAtEnd; split <;> rfl
@[simp] theorem writeByteAtEnd_rem : (writeByteAtEnd c v).rem = c.rem := by unfold writeByteAtEnd; split <;> rfl
@[simp] theorem writeByteAtEnd_endWindow : (writeByteAtEnd c v).endWindow = c.endWindow := by unfold writeByteAtEnd; split <;> rfl
@[simp] theorem writeByteAtEnd_nendBits : (writeByteAtEnd c v).nendBits = c.nendBits := by unfold writeByteAtEnd; split <;> rfl
@[simp] theorem writeByteAtEnd_buf_length : (writeByteAtEnd c v).buf.length = c.buf.length := by
  unfold writeByteAtEnd; split <;> simp
end frame

/-- A projection of the context that `flushExt` leaves alone. -/
theorem flushExt_frame {α} (f : Enc → α) (hw : ∀ c v, f (writeByte c v) = f c)
    (he : ∀ (c : Enc) n, f { c with ext := n } = f c) (sym : Nat) :
    ∀ (n : Nat) (c : Enc), f (flushExt sym n c) = f c
  | 0, _ => rfl
  | n + 1, c => by unfold flushExt; rw [flushExt_frame f hw he sym n, he, hw]

/-- A projection of the context that `carryOut` leaves alone. -/
theorem carryOut_frame {α} (f : Enc → α) (hw : ∀ c v, f (writeByte c v) = f c)
    (he : ∀ (c : Enc) n, f { c with ext := n } = f c)
    (hr : ∀ (c : Enc) r, f { c with rem := r } = f c) (c : Enc) (cc : Nat) :
    f (carryOut c cc) = f c := by
  unfold carryOut
  split
  · simp only [hr]
    split <;> split <;> simp only [flushExt_frame f hw he, hw]
  · exact he _ _

@[simp] theorem carryOut_val (c : Enc) (cc : Nat) : (carryOut c cc).val = c.val :=
  carryOut_frame (·.val) (by simp) (by simp) (by simp) c cc
@[simp] theorem carryOut_rng' (c : Enc) (cc : Nat) : (carryOut c cc).rng = c.rng :=
  carryOut_frame (·.rng) (by simp) (by simp) (by simp) c cc
@[simp] theorem carryOut_nbitsTotal (c : Enc) (cc : Nat) : (carryOut c cc).nbitsTotal = c.nbitsTotal :=
  carryOut_frame (·.nbitsTotal) (by simp) (by simp) (by simp) c cc
@[simp] theorem carryOut_storage (c : Enc) (cc : Nat) : (carryOut c cc).storage = c.storage :=
  carryOut_frame (·.storage) (by simp) (by simp) (by simp) c cc
@[simp] theorem carryOut_endOffs (c : Enc) (cc : Nat) : (carryOut c cc).endOffs = c.endOffs :=
  carryOut_frame (·.endOffs) (by simp) (by simp) (by simp) c cc
@[simp] theorem carryOut_endWindow (c : Enc) (cc : Nat) : (carryOut c cc).endWindow = c.endWindow :=
  carryOut_frame (·.endWindow) (by simp) (by simp) (by simp) c cc
@[simp] theorem carryOut_nendBits (c : Enc) (cc : Nat) : (carryOut c cc).nendBits = c.nendBits :=
  carryOut_frame (·.nendBits) (by simp) (by simp) (by simp) c cc
@[simp] theorem carryOut_buf_length (c : Enc) (cc : Nat) : (carryOut c cc).buf.length = c.buf.length :=
  carryOut_frame (·.buf.length) (by simp) (by simp) (by simp) c cc

/-! ### The normalisation loops: effect on `rng` and `nbits_total` -/

/-- The pure `(rng, nbits_total)` part of both normalisation loops. -/
def normRN (rng nbits : Nat) : Nat × Nat :=
  if h : 0 < rng ∧ rng ≤ 8388608 then normRN (u32 (rng * 256)) (nbits + 8) else (rng, nbits)
termination_by 8388609 - rng
decreasing_by simp only [u32]; omega

theorem encNormalize_rn (c : Enc) :
    ((encNormalize c).rng, (encNormalize c).nbitsTotal) = normRN c.rng c.nbitsTotal := by
  fun_induction encNormalize c with
  | case1 c h c1 ih =>
    rw [ih]; conv => rhs; unfold normRN
    simp [h]
  | case2 c h =>
    unfold normRN; simp [h]

theorem readByte_rng (c : Dec) : (readByte c).2.rng = c.rng := by unfold readByte; split <;> rfl
theorem readByte_nbitsTotal (c : Dec) : (readByte c).2.nbitsTotal = c.nbitsTotal := by
  unfold readByte; split <;> rfl

theorem decNormalize_rn (c : Dec) :
    ((decNormalize c).rng, (decNormalize c).nbitsTotal) = normRN c.rng c.nbitsTotal := by
  fun_induction decNormalize c with
  | case1 c h b c1 hb sym ih =>
    rw [ih]; conv => rhs; unfold normRN
    simp [h]
  | case2 c h =>
    unfold normRN; simp [h]

/-- What the normalisation loop does to `(rng, nbits_total)`: either nothing (already
    normalised) or at least one byte is accounted; the result is normalised. -/
theorem normRN_spec (rng nbits : Nat) (h0 : 0 < rng) (h1 : rng ≤ 2147483648) :
    8388608 < (normRN rng nbits).1 ∧ (normRN rng nbits).1 ≤ 2147483648 ∧
    ((8388608 < rng ∧ normRN rng nbits = (rng, nbits)) ∨
     (rng ≤ 8388608 ∧ nbits + 8 ≤ (normRN rng nbits).2)) := by
  fun_induction normRN rng nbits with
  | case1 rng nbits h ih =>
    have e : u32 (rng * 256) = rng * 256 := by unfold u32; omega
    rw [e] at ih
    have := ih (by omega) (by omega)
    rw [e]
    refine ⟨this.1, this.2.1, Or.inr ⟨h.2, ?_⟩⟩
    rcases this.2.2 with ⟨_, h2⟩ | ⟨_, h2⟩
    · rw [h2]; simp
    · omega
  | case2 rng nbits h =>
    refine ⟨by omega, h1, Or.inl ⟨by omega, rfl⟩⟩

end Opus.RangeCoder
