import OpusProofs.DtxCall
/-
  OpusProofs.DtxBudget — the code's low-budget rule (src/opus_encoder.c:1267-1268) in
  bitrate / buffer terms, and how it compares with "bitrate and buffer allow three bytes per frame".
-/
namespace Opus.Dtx
open Opus.Gen.DtxConsts

/-- Packets per second, `frame_rate = st->Fs/frame_size` (src/opus_encoder.c:1251). -/
def frameRate (c : Cfg) : Nat := c.fs / frameSize c

/-- "Bitrate and buffer allow at least three bytes per frame": after the clamps of :1249-1261
    (`max_data_bytes = min(1276, out_data_bytes)`, CBR: the byte count of one packet at the bitrate),
    at least 3 bytes fit and the bitrate pays for 3 bytes per packet. -/
def ThreeBytes (c : Cfg) : Prop := 3 ≤ (budget c).1 ∧ 3 * frameRate c * 8 ≤ (budget c).2

/-- The extra demand of the code for packets longer than 20 ms: 300 bytes/s and 2400 bit/s. -/
def LongFrameFloor (c : Cfg) : Prop :=
  50 ≤ frameRate c ∨ (300 ≤ (budget c).1 * frameRate c ∧ 2400 ≤ (budget c).2)

theorem lowBudget_false_iff (c : Cfg) : lowBudget c = false ↔ ThreeBytes c ∧ LongFrameFloor c := by
  unfold lowBudget ThreeBytes LongFrameFloor frameRate
  generalize budget c = bud
  obtain ⟨maxData, br⟩ := bud
  simp only [Bool.or_eq_false_iff, Bool.and_eq_false_iff, decide_eq_false_iff_not, Nat.not_lt]

/-- **`Regular` in bitrate / buffer terms.** -/
theorem regular_iff (c : Cfg) : Regular c ↔ frameSize c ≠ 0 ∧ ThreeBytes c ∧ LongFrameFloor c := by
  unfold Regular; rw [lowBudget_false_iff]

/-- For packets of at most 20 ms the code's rule is exactly "three bytes per frame". -/
theorem regular_iff_short (c : Cfg) (h : 50 ≤ frameRate c) : Regular c ↔ frameSize c ≠ 0 ∧ ThreeBytes c := by
  rw [regular_iff]
  constructor
  · rintro ⟨h1, h2, _⟩; exact ⟨h1, h2⟩
  · rintro ⟨h1, h2⟩; exact ⟨h1, h2, Or.inl h⟩

/-- VBR: the budget is the clamped buffer and the bitrate as set. -/
theorem budget_vbr (c : Cfg) (h : c.useVbr = true) :
    budget c = (min 1276 c.outBytes, userBitrateToBitrate c (min 1276 c.outBytes)) := by
  unfold budget; simp [h]

theorem userBitrate_explicit (c : Cfg) (m : Nat) (b : Nat) (h : c.userBitrate = (b : Int)) :
    userBitrateToBitrate c m = b := by
  unfold userBitrateToBitrate
  have h1 : c.userBitrate ≠ opusAuto := by rw [h]; unfold opusAuto; omega
  have h2 : c.userBitrate ≠ opusBitrateMax := by rw [h]; unfold opusBitrateMax; omega
  rw [if_neg h1, if_neg h2, h]; rfl

namespace Ex
/-- The gray zone: 48 kHz mono, 60 ms packets, VBR 64 kb/s, 18-byte buffer, DTX off. -/
def cfgGray : Cfg :=
  { useDtx := false, fs := 48000, channels := 1, complexity := 5, useVbr := true, userBitrate := 64000, outBytes := 18, q := 24 }
end Ex

end Opus.Dtx
