import OpusProofs.CeltAllocSkip
/-
  OpusProofs.CeltAllocLoop — the invariant of the whole band-skipping loop and what it delivers at the break.
-/
namespace OpusProofs.CeltAlloc
open Opus Opus.CeltAlloc
open Opus.Gen.CeltTables

/-- consecutive bands, highest first: band numbers go down by one and the band edges fit together -/
def DescB : List Band → Prop
  | [] => True
  | [_] => True
  | a :: b :: t => (b.j + 1 = a.j ∧ b.lo + b.w = a.lo) ∧ DescB (b :: t)

def Desc (l : List (Band × Int)) : Prop := DescB (l.map (·.1))

theorem Desc_tail {a : Band × Int} {t : List (Band × Int)} (h : Desc (a :: t)) : Desc t := by
  cases t with
  | nil => trivial
  | cons b t => exact h.2

/-- total width of the bands of a list -/
def sumW : List (Band × Int) → Nat
  | [] => 0
  | x :: xs => x.1.w + sumW xs

theorem table_step : ∀ i, i < 23 → log2FracTable.getD i 0 ≤ log2FracTable.getD (i + 1) 0 := by decide

theorem table_pos : ∀ i, i < 24 → 1 ≤ i → 0 < log2FracTable.getD i 0 := by decide

theorem sumBits_append (a b : List (Band × Int)) : sumBits (a ++ b) = sumBits a + sumBits b := by
  induction a with
  | nil => simp [sumBits]
  | cons x t ih => simp only [List.cons_append, sumBits, ih]; omega

theorem sumBits_nonneg : ∀ (l : List (Band × Int)), (∀ x ∈ l, 0 ≤ x.2) → 0 ≤ sumBits l := by
  intro l
  induction l with
  | nil => intro _; simp [sumBits]
  | cons x t ih =>
    intro h
    have := ih (fun y hy => h y (by simp [hy]))
    have := h x (by simp)
    simp only [sumBits]; omega

/-- State of the loop before an iteration. `I` is the intensity reservation on entry. -/
structure LoopInv (p : Inp) (I : Int) (l : List (Band × Int)) (psum total irsv : Int) : Prop where
  desc : Desc l
  rng : ∀ x ∈ l, p.start ≤ x.1.j ∧ x.1.j < 22 ∧ 1 ≤ x.1.w
  bits_nn : ∀ x ∈ l, 0 ≤ x.2
  le : psum ≤ total
  totB : total < 1073741824 - 8
  low : sumBits l ≤ psum + (I - irsv)
  irB : 0 ≤ irsv ∧ irsv ≤ I ∧ I ≤ 1024
  irPos : 0 < I → 0 < irsv
  irHead : 0 < irsv → ∀ x, l.head? = some x → irsv = (log2FracTable.getD (x.1.j + 1 - p.start) 0 : Int)
  wsum : ∀ x, l.head? = some x → sumW l = x.1.lo + x.1.w

/-- What the loop delivers. -/
structure LoopOut (p : Inp) (I rsv : Int) (l acc : List (Band × Int)) (psum total irsv : Int) (c : Coder)
    (s : SkipOut) : Prop where
  spec : SkipSpec l acc s
  le : s.psum ≤ s.total
  totB : s.total < 1073741824
  kept_nn : ∀ x ∈ s.kept, 0 ≤ x.2
  skipped : ∀ x ∈ s.skipped, x ∈ acc ∨ x.2 = allocFloor p.C ∨ x.2 = 0
  /-- every 1/8 bit is accounted for: the reserved skip bit is either refunded or spent on the "stop" flag -/
  account : s.total - s.psum + sumBits s.kept + sumBits s.skipped + s.irsv + opsCost s.coder.ops =
    total - psum + sumBits l + sumBits acc + irsv + opsCost c.ops + rsv
  irB : 0 ≤ s.irsv ∧ s.irsv ≤ I
  irPos : 0 < I → 0 < s.irsv
  irCb : 0 < s.irsv → s.irsv = (log2FracTable.getD (s.codedBands - p.start) 0 : Int)
  enc : s.coder.encode = c.encode
  wsum : ∀ x, s.kept.head? = some x → sumW s.kept = x.1.lo + x.1.w
  kept_rng : ∀ x ∈ s.kept, p.start ≤ x.1.j ∧ x.1.j < 22 ∧ 1 ≤ x.1.w
  low : sumBits s.kept ≤ s.psum + (I - s.irsv)

theorem skipLoop_inv (p : Inp) (hp : Dom p) (I : Int) (ss : Nat) (rsv : Int)
    (hr : rsv = 8 ∨ (rsv = 0 ∧ I = 0)) :
    ∀ (l : List (Band × Int)) (psum total irsv : Int) (c : Coder) (acc : List (Band × Int)),
    (∃ x ∈ l, x.1.j ≤ ss) → LoopInv p I l psum total irsv → (rsv = 0 → total < 8) →
    ∃ s, skipLoop p ss rsv l psum total irsv c acc = .ok s ∧ LoopOut p I rsv l acc psum total irsv c s := by
  intro l
  induction l with
  | nil => intro _ _ _ _ _ ⟨x, hx, _⟩; simp at hx
  | cons hd rest ih =>
    intro psum total irsv c acc hex inv hsmall
    obtain ⟨b, bits⟩ := hd
    have hF := floor_pos hp
    have hb := inv.rng (b, bits) (by simp)
    simp only at hb
    have hbits := inv.bits_nn (b, bits) (by simp)
    simp only at hbits
    have hrest_nn : ∀ x ∈ rest, 0 ≤ x.2 := fun x hx => inv.bits_nn x (by simp [hx])
    have hsr := sumBits_nonneg rest hrest_nn
    have hrsv : rsv = 8 ∨ rsv = 0 := by rcases hr with h | h <;> omega
    rw [skipLoop]
    by_cases hj : b.j ≤ ss
    · -- break: j <= skip_start, the reserved bit is refunded
      simp only [hj, if_true]
      refine ⟨_, rfl, ⟨⟨[], by simp⟩, by simp, by simp⟩, ?_, ?_, ?_, ?_, ?_, ⟨inv.irB.1, inv.irB.2.1⟩, inv.irPos, ?_, rfl, inv.wsum, inv.rng, inv.low⟩
      · have := inv.le; simp only; omega
      · have := inv.totB; simp only; omega
      · exact inv.bits_nn
      · intro x hx; exact Or.inl hx
      · simp only; omega
      · intro hpos
        have := inv.irHead hpos (b, bits) rfl
        simp only at this ⊢
        exact this
    · simp only [hj, if_false]
      have hmono : irsv > 0 → (log2FracTable.getD (b.j - p.start) 0 : Int) ≤ irsv := by
        intro hpos
        have e := inv.irHead hpos (b, bits) rfl
        simp only at e
        have := table_step (b.j - p.start) (by omega)
        rw [e, show b.j + 1 - p.start = b.j - p.start + 1 by omega]
        omega
      have hlow := inv.low
      simp only [sumBits] at hlow
      obtain ⟨hnb, hirsv, henc, hcont, hstop⟩ := skipStep_spec p hp b bits psum total irsv c hbits inv.le
        (by have := inv.totB; omega) (by have := inv.irB; omega) hb.2.2 inv.irB.1 hmono
      generalize hr' : skipStep p b bits psum total irsv c = r at *
      by_cases hst : r.stop = true
      · -- break: the encoder / decoder stops skipping here; the reserved bit pays for the flag
        simp only [hst, if_true]
        obtain ⟨hcost, hroom⟩ := hstop hst
        have hr8 : rsv = 8 := by
          rcases hr with h | ⟨h0, hI⟩
          · exact h
          · have := hsmall h0
            have := inv.irB
            omega
        refine ⟨_, rfl, ⟨⟨[], by simp⟩, by simp, by simp⟩, inv.le, by have := inv.totB; simp only; omega,
          inv.bits_nn, fun x hx => Or.inl hx, ?_, ⟨inv.irB.1, inv.irB.2.1⟩, inv.irPos, ?_, henc, inv.wsum, inv.rng, inv.low⟩
        · simp only; omega
        · intro hpos
          have := inv.irHead hpos (b, bits) rfl
          simp only at this ⊢
          exact this
      · have hst' : r.stop = false := by simpa using hst
        simp only [hst, Bool.false_eq_true, if_false]
        obtain ⟨hle', hacc, hlow'⟩ := hcont hst'
        have hex' : ∃ x ∈ rest, x.1.j ≤ ss := by
          obtain ⟨x, hx, hxj⟩ := hex
          simp only [List.mem_cons] at hx
          rcases hx with rfl | hx
          · exact absurd hxj hj
          · exact ⟨x, hx, hxj⟩
        have hnb0 : 0 ≤ r.newBits := by rcases hnb with h | h <;> omega
        have hirle : r.irsv ≤ irsv := by
          rw [hirsv]; split
          · exact hmono (by assumption)
          · exact Int.le_refl _
        have hir0 : 0 ≤ r.irsv := by
          rw [hirsv]; split
          · omega
          · exact inv.irB.1
        have inv' : LoopInv p I rest r.psum total r.irsv := by
          refine ⟨Desc_tail inv.desc, fun x hx => inv.rng x (by simp [hx]), hrest_nn, hle', inv.totB, ?_,
            ⟨hir0, by have := inv.irB; omega, inv.irB.2.2⟩, ?_, ?_, ?_⟩
          · omega
          · intro hI
            have hpos := inv.irPos hI
            rw [hirsv, if_pos hpos]
            have hjs : p.start < b.j := by
              obtain ⟨x, hx, hxj⟩ := hex'
              have := (inv.rng x (by simp [hx])).1
              omega
            have := table_pos (b.j - p.start) (by omega) (by omega)
            omega
          · intro hpos x hx
            have hposI : 0 < irsv := by omega
            rw [hirsv, if_pos hposI]
            cases rest with
            | nil => simp at hx
            | cons y t =>
              simp only [List.head?_cons, Option.some.injEq] at hx
              subst hx
              have := inv.desc.1.1
              rw [this]
          · intro x hx
            have hws := inv.wsum (b, bits) rfl
            simp only [sumW] at hws
            cases rest with
            | nil => simp at hx
            | cons y t =>
              simp only [List.head?_cons, Option.some.injEq] at hx
              subst hx
              have := inv.desc.1.2
              simp only at this hws
              omega
        obtain ⟨s, hs, out⟩ := ih r.psum total r.irsv r.coder ((b, r.newBits) :: acc) hex' inv' hsmall
        refine ⟨s, hs, ?_⟩
        obtain ⟨⟨pre, hp1, hp2⟩, hk, hcb⟩ := out.spec
        refine ⟨⟨⟨(b, bits) :: pre, by simp [hp1], by rw [hp2]; simp⟩, hk, hcb⟩, out.le, out.totB, out.kept_nn, ?_, ?_,
          out.irB, out.irPos, out.irCb, by rw [out.enc, henc], out.wsum, out.kept_rng, out.low⟩
        · intro x hx
          rcases out.skipped x hx with h | h
          · simp only [List.mem_cons] at h
            rcases h with rfl | h
            · exact Or.inr hnb
            · exact Or.inl h
          · exact Or.inr h
        · have := out.account
          simp only [sumBits] at this ⊢
          omega

end OpusProofs.CeltAlloc
