import OpusModel.SilkApiSpec
/-! Proofs for the C01 `SilkApi` slice: configuration part of silk_Decode (state invariant, unreachable error exits). -/
namespace Opus.SilkApi

theorem sext16_id {x : Int} (h : -32768 ≤ x ∧ x < 32768) : sext16 x = x := by unfold sext16; omega

theorem smulbb_small {a b : Int} (ha : -32768 ≤ a ∧ a < 32768) (hb : -32768 ≤ b ∧ b < 32768) : smulbb a b = a * b := by
  unfold smulbb; rw [sext16_id ha, sext16_id hb]

theorem resamplerInitRet_ok {k api : Int} (hk : k = 8 ∨ k = 12 ∨ k = 16) (ha : ApiOk api) :
    resamplerInitRet (k * 1000) api = 0 := by
  unfold resamplerInitRet ApiOk at *
  split <;> omega

/-- A channel on which silk_decoder_set_fs is about to run: fresh, or configured for some sub-frame count `nb0`. -/
def PreOk (api : Int) (c : Chan) : Prop :=
  (c.fs_kHz = 0 ∧ c.fs_API_hz = 0 ∧ c.frame_length = 0) ∨ (∃ nb0, Cfg api c nb0)

theorem smulbb_nb {nb m : Int} (hnb : nb = 2 ∨ nb = 4) (hm : 0 ≤ m ∧ m < 8000) : smulbb nb m = nb * m :=
  smulbb_small (by omega) (by omega)

theorem setFs_ok {api k : Int} {c : Chan} (hk : k = 8 ∨ k = 12 ∨ k = 16) (ha : ApiOk api)
    (hnb : c.nb_subfr = 2 ∨ c.nb_subfr = 4) (hc : PreOk api c) :
    Cfg api (setFs c k api).1 c.nb_subfr ∧ (setFs c k api).2 = 0 ∧ (setFs c k api).1.fs_kHz = k ∧
    (setFs c k api).1.subfr_length = 5 * k ∧ (setFs c k api).1.nb_subfr = c.nb_subfr ∧
    (setFs c k api).1.nFramesPerPacket = c.nFramesPerPacket ∧ (setFs c k api).1.nFramesDecoded = c.nFramesDecoded := by
  have h5 : smulbb 5 k = 5 * k := smulbb_small (by omega) (by omega)
  have h20 : smulbb 20 k = 20 * k := smulbb_small (by omega) (by omega)
  have h1000 : smulbb k 1000 = k * 1000 := smulbb_small (by omega) (by omega)
  have hri := resamplerInitRet_ok hk ha
  have hfl : ∀ m, (0 ≤ m ∧ m < 8000) → smulbb c.nb_subfr m = c.nb_subfr * m := fun m hm => smulbb_nb hnb hm
  unfold setFs setFsResamp setFsTables setFsRate
  simp only [h5, h20, h1000, hri]
  unfold Cfg
  rcases hc with ⟨h1, h2, h3⟩ | ⟨nb0, hf, hn0, hfl0, hl, hlpc, hcb, hlow, hpc, hapi, hri', hro⟩
  · rcases hk with rfl | rfl | rfl <;> simp [h1, h2, h3, hfl _ (by omega : (0:Int) ≤ 40 ∧ (40:Int) < 8000), hfl _ (by omega : (0:Int) ≤ 60 ∧ (60:Int) < 8000), hfl _ (by omega : (0:Int) ≤ 80 ∧ (80:Int) < 8000)] <;> omega
  · rcases hk with rfl | rfl | rfl <;> rcases hf with hf | hf | hf <;> rcases hn0 with rfl | rfl <;>
      rcases hnb with hnb' | hnb' <;>
      simp [hf, hnb', hfl0, hl, hlpc, hcb, hlow, hpc, hapi, hri', hro, smulbb, sext16]

/-- What the loop body :179-:209 leaves in a channel. -/
def Cfgd (api : Int) (a : Args) (c c' : Chan) : Prop :=
  Cfg api c' c'.nb_subfr ∧ c'.subfr_length = 5 * c'.fs_kHz ∧
  (c'.nFramesPerPacket = 1 ∨ c'.nFramesPerPacket = 2 ∨ c'.nFramesPerPacket = 3) ∧
  c'.nFramesDecoded = c.nFramesDecoded ∧ c'.fs_kHz = a.internalSampleRate / 1024 + 1 ∧
  payloadCfg a.payloadSize_ms = some (c'.nFramesPerPacket, c'.nb_subfr)

theorem cfgChan_ok {api : Int} {a : Args} {c : Chan} (ha : ApiOk api) (hapi : a.API_sampleRate = api)
    (hp : a.payloadSize_ms = 0 ∨ a.payloadSize_ms = 10 ∨ a.payloadSize_ms = 20 ∨ a.payloadSize_ms = 40 ∨ a.payloadSize_ms = 60)
    (hr : a.internalSampleRate = 8000 ∨ a.internalSampleRate = 12000 ∨ a.internalSampleRate = 16000)
    (hc : PreOk api c) : ∃ c', cfgChan c a = .inr (c', 0, true) ∧ Cfgd api a c c' := by
  have key : ∀ (nf nb k : Int), (nb = 2 ∨ nb = 4) → (nf = 1 ∨ nf = 2 ∨ nf = 3) → (k = 8 ∨ k = 12 ∨ k = 16) →
      payloadCfg a.payloadSize_ms = some (nf, nb) → fsKHzDec a.internalSampleRate = some k → k = a.internalSampleRate / 1024 + 1 →
      ∃ c', cfgChan c a = .inr (c', 0, true) ∧ Cfgd api a c c' := by
    intro nf nb k hnb hnf hk hpc hfs hkk
    have hcfg : cfgChan c a = .inr ((setFs { c with nFramesPerPacket := nf, nb_subfr := nb } k api).1,
        (setFs { c with nFramesPerPacket := nf, nb_subfr := nb } k api).2,
        setFsPre { c with nFramesPerPacket := nf, nb_subfr := nb } k &&
          setFsPost (setFs { c with nFramesPerPacket := nf, nb_subfr := nb } k api).1) := by
      unfold cfgChan; simp only [hpc, hfs, hapi]
    rw [hcfg]
    have hc' : PreOk api { c with nFramesPerPacket := nf, nb_subfr := nb } := hc
    generalize hc0 : ({ c with nFramesPerPacket := nf, nb_subfr := nb } : Chan) = c0 at hc' ⊢
    have e1 : c0.nb_subfr = nb := by rw [← hc0]
    have e2 : c0.nFramesPerPacket = nf := by rw [← hc0]
    have e3 : c0.nFramesDecoded = c.nFramesDecoded := by rw [← hc0]
    obtain ⟨h1, h2, h3, h4, h5, h6, h7⟩ := setFs_ok (c := c0) hk ha (by rw [e1]; exact hnb) hc'
    have hpre : setFsPre c0 k = true := by
      unfold setFsPre; rw [e1]; rcases hk with rfl | rfl | rfl <;> rcases hnb with rfl | rfl <;> simp
    have hpost : setFsPost (setFs c0 k api).1 = true := by
      unfold setFsPost
      obtain ⟨hf, _, hfl, _⟩ := h1
      rw [e1] at hfl
      have : 0 < (setFs c0 k api).1.frame_length ∧ (setFs c0 k api).1.frame_length ≤ 320 := by
        rcases hf with hf | hf | hf <;> rcases hnb with rfl | rfl <;> rw [hf] at hfl <;> omega
      simp [this]
    refine ⟨(setFs c0 k api).1, by rw [h2, hpre, hpost]; rfl, ?_⟩
    unfold Cfgd
    refine ⟨by rw [h5]; exact h1, by rw [h4, h3], by rw [h6, e2]; exact hnf, by rw [h7, e3], by rw [h3]; exact hkk,
            by rw [h6, h5, e1, e2]; exact hpc⟩
  rcases hp with hp | hp | hp | hp | hp <;> rcases hr with hr | hr | hr
  all_goals first
    | exact key 1 2 8 (by omega) (by omega) (by omega) (by rw [hp]; rfl) (by rw [hr]; rfl) (by rw [hr]; rfl)
    | exact key 1 2 12 (by omega) (by omega) (by omega) (by rw [hp]; rfl) (by rw [hr]; rfl) (by rw [hr]; rfl)
    | exact key 1 2 16 (by omega) (by omega) (by omega) (by rw [hp]; rfl) (by rw [hr]; rfl) (by rw [hr]; rfl)
    | exact key 1 4 8 (by omega) (by omega) (by omega) (by rw [hp]; rfl) (by rw [hr]; rfl) (by rw [hr]; rfl)
    | exact key 1 4 12 (by omega) (by omega) (by omega) (by rw [hp]; rfl) (by rw [hr]; rfl) (by rw [hr]; rfl)
    | exact key 1 4 16 (by omega) (by omega) (by omega) (by rw [hp]; rfl) (by rw [hr]; rfl) (by rw [hr]; rfl)
    | exact key 2 4 8 (by omega) (by omega) (by omega) (by rw [hp]; rfl) (by rw [hr]; rfl) (by rw [hr]; rfl)
    | exact key 2 4 12 (by omega) (by omega) (by omega) (by rw [hp]; rfl) (by rw [hr]; rfl) (by rw [hr]; rfl)
    | exact key 2 4 16 (by omega) (by omega) (by omega) (by rw [hp]; rfl) (by rw [hr]; rfl) (by rw [hr]; rfl)
    | exact key 3 4 8 (by omega) (by omega) (by omega) (by rw [hp]; rfl) (by rw [hr]; rfl) (by rw [hr]; rfl)
    | exact key 3 4 12 (by omega) (by omega) (by omega) (by rw [hp]; rfl) (by rw [hr]; rfl) (by rw [hr]; rfl)
    | exact key 3 4 16 (by omega) (by omega) (by omega) (by rw [hp]; rfl) (by rw [hr]; rfl) (by rw [hr]; rfl)

end Opus.SilkApi
