import OpusProofs.SilkSymsTables
/-
  C03 range lemmas for `silk_decode_indices` and the stereo predictor: whatever the range-decoder state,
  every decoded index lies inside the table the decoder later indexes with it.
-/
namespace Opus.SilkSymsProofs
open Opus Opus.RangeCoder Opus.SilkSyms Opus.SilkSymsFrozen.Icdf

/-- Everything later code relies on about the output of `silk_decode_indices`. -/
structure IndicesOk (rate : Rate) (nbSubfr cc prevSig : Nat) (prevLag : Int) (ix : Indices) : Prop where
  /-- `signalType ∈ {0,1,2}` indexes `silk_gain_iCDF`, `silk_rate_levels_iCDF[·>>1]`, the sign table, the
      quantisation-offset table -/
  sig : ix.signalType ≤ 2
  qoff : ix.quantOffsetType ≤ 1
  gainsLen : ix.gains.length = nbSubfr
  /-- first gain index: `< N_LEVELS_QGAIN = 64` when coded independently, a delta symbol `< 41` otherwise -/
  gainsHead : ∀ g, ix.gains.head? = some g → g < 64 ∧ (cc = 2 → g < 41)
  gainsTail : ∀ g ∈ ix.gains.tail, g < 41
  /-- `NLSFIndices[0] < nVectors = 32`, so every `ec_sel` read of `silk_NLSF_unpack` is inside the array -/
  nlsf0 : ix.nlsf0 < (nlsfCB rate).nVectors
  ecSelIdx : ∀ j, j < (nlsfCB rate).order / 2 →
    ix.nlsf0 * (nlsfCB rate).order / 2 + j < (nlsfCB rate).ecSel.length
  nlsfLen : ix.nlsfRes.length = (nlsfCB rate).order
  /-- residuals after the extension rule lie in `[-NLSF_QUANT_MAX_AMPLITUDE_EXT, +…] = [-10, 10]` -/
  nlsfRes : ∀ r ∈ ix.nlsfRes, -10 ≤ r ∧ r ≤ 10
  interp : ix.interp ≤ 4
  /-- absolute lag index inside `[0, 32*fs_kHz/2)`, or a delta of −8…+11 on the previous one -/
  lag : ix.signalType = 2 →
    (0 ≤ ix.lagIndex ∧ ix.lagIndex < 32 * (rate.kHz / 2)) ∨
    (cc = 2 ∧ prevSig = 2 ∧ prevLag - 8 ≤ ix.lagIndex ∧ ix.lagIndex ≤ prevLag + 11)
  contour : ix.signalType = 2 → ix.contourIndex < (pitchContour rate nbSubfr).length
  per : ix.perIndex ≤ 2
  ltpLen : ix.signalType = 2 → ix.ltp.length = nbSubfr
  /-- `LTPIndex[k] < silk_LTP_vq_sizes[PERIndex] = 8 << PERIndex` -/
  ltp : ∀ l ∈ ix.ltp, l < 8 * 2 ^ ix.perIndex
  ltpScale : ix.ltpScale ≤ 2
  seed : ix.seed ≤ 3

theorem zp_contour_lt (rate : Rate) (nb : Nat) :
    zeroPos (pitchContour rate nb) < (pitchContour rate nb).length := by
  unfold pitchContour
  cases rate <;> by_cases h : nb = 4 <;> simp [h] <;> decide

/-- `ec_ix[]` entries are `9*k`, `k < 8`, whatever byte `ec_sel` holds. -/
theorem nlsfUnpackEcIx_mem (cb : NlsfCB) (i : Nat) : ∀ e ∈ nlsfUnpackEcIx cb i, ∃ k, k < 8 ∧ e = 9 * k := by
  intro e he
  unfold nlsfUnpackEcIx at he
  simp only [List.mem_flatMap, List.mem_range, List.mem_cons, List.mem_nil_iff, or_false] at he
  obtain ⟨j, _, h⟩ := he
  rcases h with h | h
  · exact ⟨cb.ecSel.getD (i * cb.order / 2 + j) 0 / 2 % 8, Nat.mod_lt _ (by omega), by omega⟩
  · exact ⟨cb.ecSel.getD (i * cb.order / 2 + j) 0 / 32 % 8, Nat.mod_lt _ (by omega), by omega⟩

theorem flatMap_pair_length {α} (f g : Nat → α) : ∀ (l : List Nat), (l.flatMap fun j => [f j, g j]).length = 2 * l.length
  | [] => rfl
  | _ :: t => by simp [List.flatMap_cons, flatMap_pair_length f g t]; omega

theorem nlsfUnpackEcIx_length (cb : NlsfCB) (i : Nat) : (nlsfUnpackEcIx cb i).length = 2 * (cb.order / 2) := by
  unfold nlsfUnpackEcIx
  rw [flatMap_pair_length]; simp

theorem nlsfResOne_bounds (rate : Rate) (k : Nat) (hk : k < 8) (c : Dec) :
    -6 ≤ (nlsfResOne (nlsfCB rate) (9 * k) c).1 ∧ (nlsfResOne (nlsfCB rate) (9 * k) c).1 ≤ 14 := by
  unfold nlsfResOne
  dsimp only
  have h1 := sym_le_of c _ (zp_ecIcdf rate k hk)
  generalize sym c ((nlsfCB rate).ecIcdf.drop (9 * k)) = r at h1 ⊢
  have h2 := sym_le_of r.2 _ zp_nlsfExt
  generalize sym r.2 silk_NLSF_EXT_iCDF = x at h2 ⊢
  split
  · simp only; omega
  · split
    · simp only; omega
    · simp only; omega

theorem nlsfResLoop_ok (rate : Rate) : ∀ (es : List Nat) (c : Dec), (∀ e ∈ es, ∃ k, k < 8 ∧ e = 9 * k) →
    (nlsfResLoop (nlsfCB rate) es c).1.length = es.length ∧
    ∀ r ∈ (nlsfResLoop (nlsfCB rate) es c).1, -10 ≤ r ∧ r ≤ 10
  | [], c, _ => by simp [nlsfResLoop]
  | e :: es, c, h => by
    obtain ⟨k, hk, he⟩ := h e (by simp)
    have ih := nlsfResLoop_ok rate es (nlsfResOne (nlsfCB rate) e c).2 (fun e' h' => h e' (by simp [h']))
    have hb := nlsfResOne_bounds rate k hk c
    rw [← he] at hb
    simp only [nlsfResLoop, List.length_cons, List.mem_cons]
    refine ⟨by omega, ?_⟩
    intro r hr
    rcases hr with hr | hr
    · rw [hr]; omega
    · exact ih.2 r hr

theorem decodeType_le (v : Bool) (c : Dec) : (decodeType v c).1 ≤ 5 := by
  unfold decodeType
  dsimp only
  split
  · have := sym_le_of c _ zp_typeVAD; simp only; omega
  · have := sym_le_of c _ zp_typeNoVAD; omega

theorem decodeGain0_lt (cc sig : Nat) (hs : sig ≤ 2) (c : Dec) :
    (decodeGain0 cc sig c).1 < 64 ∧ (cc = 2 → (decodeGain0 cc sig c).1 < 41) := by
  unfold decodeGain0
  dsimp only
  split
  · have := sym_le_of c _ zp_deltaGain
    exact ⟨by omega, fun _ => by omega⟩
  · rename_i h
    have h1 := sym_le_of c _ (zp_gain sig (by omega))
    generalize sym c (silk_gain_iCDF.getD sig []) = a at h1 ⊢
    have h2 := sym_le_of a.2 _ zp_uniform8
    exact ⟨by omega, fun h' => absurd h' h⟩

theorem decodeNlsf_ok (rate : Rate) (sig : Nat) (hs : sig ≤ 2) (c : Dec) :
    (decodeNlsf rate sig c).1.1 < 32 ∧ (decodeNlsf rate sig c).1.2.length = (nlsfCB rate).order ∧
    ∀ r ∈ (decodeNlsf rate sig c).1.2, -10 ≤ r ∧ r ≤ 10 := by
  unfold decodeNlsf
  dsimp only
  have h1 := sym_le_of c _ (zp_cb1 rate (sig / 2) (by omega))
  generalize sym c ((nlsfCB rate).cb1.drop (sig / 2 * (nlsfCB rate).nVectors)) = n0 at h1 ⊢
  have hl := nlsfResLoop_ok rate (nlsfUnpackEcIx (nlsfCB rate) n0.1) n0.2 (nlsfUnpackEcIx_mem _ _)
  have hg := cb_geometry rate
  refine ⟨by omega, ?_, hl.2⟩
  rw [hl.1, nlsfUnpackEcIx_length]
  rcases hg.2.1 with h | h <;> rw [h]

theorem decodeLag_ok (rate : Rate) (cc prevSig : Nat) (prevLag : Int) (c : Dec) :
    (0 ≤ (decodeLag rate cc prevSig prevLag c).1 ∧ (decodeLag rate cc prevSig prevLag c).1 < 32 * (rate.kHz / 2)) ∨
    (cc = 2 ∧ prevSig = 2 ∧ prevLag - 8 ≤ (decodeLag rate cc prevSig prevLag c).1 ∧
      (decodeLag rate cc prevSig prevLag c).1 ≤ prevLag + 11) := by
  unfold decodeLag
  dsimp only
  have absLag : ∀ c' : Dec,
      (0 : Int) ≤ (((sym c' silk_pitch_lag_iCDF).1 * (rate.kHz / 2) +
        (sym (sym c' silk_pitch_lag_iCDF).2 (pitchLagLowBits rate)).1 : Nat) : Int) ∧
      ((((sym c' silk_pitch_lag_iCDF).1 * (rate.kHz / 2) +
        (sym (sym c' silk_pitch_lag_iCDF).2 (pitchLagLowBits rate)).1 : Nat) : Int)) < 32 * (rate.kHz / 2) := by
    intro c'
    have ha := sym_le_of c' _ zp_pitchLag
    generalize sym c' silk_pitch_lag_iCDF = a at ha ⊢
    have hb := sym_le a.2 (pitchLagLowBits rate)
    have hz := zp_pitchLow rate
    have : a.1 * (rate.kHz / 2) ≤ 31 * (rate.kHz / 2) := Nat.mul_le_mul_right _ ha
    constructor
    · exact Int.natCast_nonneg _
    · have h32 : ((32 * (rate.kHz / 2) : Nat) : Int) = 32 * ((rate.kHz : Int) / 2) := by
        cases rate <;> decide
      omega
  by_cases hd : cc = 2 ∧ prevSig = 2
  · rw [if_pos hd]
    have h1 := sym_le_of c _ zp_pitchDelta
    generalize sym c silk_pitch_delta_iCDF = d at h1 ⊢
    split
    · right; refine ⟨hd.1, hd.2, ?_, ?_⟩ <;> simp only <;> omega
    · left; exact absLag d.2
  · rw [if_neg hd]
    simp only [Nat.lt_irrefl, gt_iff_lt, if_false]
    left; exact absLag c

theorem ltpBound (per l : Nat) (hp : per ≤ 2)
    (h : l ≤ zeroPos ([silk_LTP_gain_iCDF_0, silk_LTP_gain_iCDF_1, silk_LTP_gain_iCDF_2].getD per [])) :
    l < 8 * 2 ^ per := by
  have hz := zp_ltpGain per (Nat.lt_succ_of_le hp)
  omega

theorem decodeLtp_per (nbSubfr cc : Nat) (c : Dec) : (decodeLtp nbSubfr cc c).1.1 ≤ 2 := by
  unfold decodeLtp
  dsimp only
  exact sym_le_of c _ zp_perIndex

theorem decodeLtp_len (nbSubfr cc : Nat) (c : Dec) : (decodeLtp nbSubfr cc c).1.2.1.length = nbSubfr := by
  unfold decodeLtp
  dsimp only
  exact symLoop_length _ _ _

theorem decodeLtp_ltp (nbSubfr cc : Nat) (c : Dec) :
    ∀ l ∈ (decodeLtp nbSubfr cc c).1.2.1, l < 8 * 2 ^ (decodeLtp nbSubfr cc c).1.1 := by
  unfold decodeLtp
  dsimp only
  intro l hl
  exact ltpBound _ l (sym_le_of c _ zp_perIndex) (symLoop_le _ _ _ l hl)

theorem decodeLtp_scale (nbSubfr cc : Nat) (c : Dec) : (decodeLtp nbSubfr cc c).1.2.2 ≤ 2 := by
  unfold decodeLtp
  dsimp only
  split
  · exact sym_le_of _ _ zp_ltpScale
  · simp

theorem decodeInterp_le (nb : Nat) (c : Dec) : (decodeInterp nb c).1 ≤ 4 := by
  unfold decodeInterp
  split
  · exact sym_le_of _ _ zp_interp
  · simp

/-- Bounds on the voiced-frame block of `silk_decode_indices`. -/
theorem decodePitchLtp_ok (rate : Rate) (nbSubfr cc prevSig : Nat) (prevLag : Int) (c : Dec)
    (lag : Int) (contour per : Nat) (ltp : List Nat) (scale : Nat) (c' : Dec)
    (h : decodePitchLtp rate nbSubfr cc prevSig prevLag c = ((lag, contour, per, ltp, scale), c')) :
    ((0 ≤ lag ∧ lag < 32 * (rate.kHz / 2)) ∨ (cc = 2 ∧ prevSig = 2 ∧ prevLag - 8 ≤ lag ∧ lag ≤ prevLag + 11)) ∧
    contour < (pitchContour rate nbSubfr).length ∧ per ≤ 2 ∧ ltp.length = nbSubfr ∧
    (∀ l ∈ ltp, l < 8 * 2 ^ per) ∧ scale ≤ 2 := by
  unfold decodePitchLtp at h
  have h1 := decodeLag_ok rate cc prevSig prevLag c
  generalize decodeLag rate cc prevSig prevLag c = x at h h1
  split at h
  rename_i _ lag0 c1
  dsimp only at h1
  have h2 := Nat.lt_of_le_of_lt (sym_le c1 (pitchContour rate nbSubfr)) (zp_contour_lt rate nbSubfr)
  generalize sym c1 (pitchContour rate nbSubfr) = y at h h2
  split at h
  rename_i _ ct0 c2
  dsimp only at h2
  have h3 := decodeLtp_per nbSubfr cc c2
  have h4 := decodeLtp_len nbSubfr cc c2
  have h5 := decodeLtp_ltp nbSubfr cc c2
  have h6 := decodeLtp_scale nbSubfr cc c2
  generalize decodeLtp nbSubfr cc c2 = z at h h3 h4 h5 h6
  split at h
  rename_i _ per0 ltp0 scale0 c3
  dsimp only at h3 h4 h5 h6
  simp only [Prod.mk.injEq] at h
  obtain ⟨⟨rfl, rfl, rfl, rfl, rfl⟩, rfl⟩ := h
  exact ⟨h1, h2, h3, h4, h5, h6⟩

theorem decodeVoiced_ok (rate : Rate) (nbSubfr sig cc prevSig : Nat) (prevLag : Int) (c : Dec)
    (lag : Int) (contour per : Nat) (ltp : List Nat) (scale : Nat) (c' : Dec)
    (h : decodeVoiced rate nbSubfr sig cc prevSig prevLag c = ((lag, contour, per, ltp, scale), c')) :
    (sig = 2 → ((0 ≤ lag ∧ lag < 32 * (rate.kHz / 2)) ∨
                (cc = 2 ∧ prevSig = 2 ∧ prevLag - 8 ≤ lag ∧ lag ≤ prevLag + 11))) ∧
    (sig = 2 → contour < (pitchContour rate nbSubfr).length) ∧ per ≤ 2 ∧ (sig = 2 → ltp.length = nbSubfr) ∧
    (∀ l ∈ ltp, l < 8 * 2 ^ per) ∧ scale ≤ 2 := by
  unfold decodeVoiced at h
  by_cases hv : sig = 2
  · rw [if_pos hv] at h
    have := decodePitchLtp_ok rate nbSubfr cc prevSig prevLag c lag contour per ltp scale c' h
    exact ⟨fun _ => this.1, fun _ => this.2.1, this.2.2.1, fun _ => this.2.2.2.1, this.2.2.2.2.1, this.2.2.2.2.2⟩
  · rw [if_neg hv] at h
    simp only [Prod.mk.injEq] at h
    obtain ⟨⟨rfl, rfl, rfl, rfl, rfl⟩, rfl⟩ := h
    exact ⟨fun h => absurd h hv, fun h => absurd h hv, by omega, fun h => absurd h hv, by simp, by omega⟩

/-- `silk_decode_indices` never produces an index outside the table it later addresses. -/
theorem decodeIndices_ok (rate : Rate) (nbSubfr : Nat) (hnb : 1 ≤ nbSubfr) (v : Bool) (cc prevSig : Nat)
    (prevLag : Int) (c : Dec) (ix : Indices) (c' : Dec)
    (h : decodeIndices rate nbSubfr v cc prevSig prevLag c = (ix, c')) :
    IndicesOk rate nbSubfr cc prevSig prevLag ix := by
  unfold decodeIndices at h
  have ht := decodeType_le v c
  generalize decodeType v c = x at h ht
  obtain ⟨tix, c1⟩ := x
  dsimp only at h ht
  have hsig : tix / 2 ≤ 2 := by omega
  have hg0 := decodeGain0_lt cc (tix / 2) hsig c1
  generalize decodeGain0 cc (tix / 2) c1 = x at h hg0
  obtain ⟨g0, c2⟩ := x
  dsimp only at h hg0
  have hgl := symLoop_length silk_delta_gain_iCDF (nbSubfr - 1) c2
  have hgs := symLoop_le silk_delta_gain_iCDF (nbSubfr - 1) c2
  generalize symLoop silk_delta_gain_iCDF (nbSubfr - 1) c2 = x at h hgl hgs
  obtain ⟨gs, c3⟩ := x
  dsimp only at h hgl hgs
  have hnl := decodeNlsf_ok rate (tix / 2) hsig c3
  generalize decodeNlsf rate (tix / 2) c3 = x at h hnl
  obtain ⟨⟨n0, res⟩, c4⟩ := x
  dsimp only at h hnl
  have hip := decodeInterp_le nbSubfr c4
  generalize decodeInterp nbSubfr c4 = x at h hip
  obtain ⟨ip, c5⟩ := x
  dsimp only at h hip
  generalize hvx : decodeVoiced rate nbSubfr (tix / 2) cc prevSig prevLag c5 = x at h
  obtain ⟨⟨lag, contour, per, ltp, scale⟩, c6⟩ := x
  have hv := decodeVoiced_ok rate nbSubfr (tix / 2) cc prevSig prevLag c5 lag contour per ltp scale c6 hvx
  dsimp only at h
  have hsd := sym_le_of c6 _ zp_uniform4
  generalize sym c6 silk_uniform4_iCDF = x at h hsd
  obtain ⟨seed, c7⟩ := x
  dsimp only at h hsd
  simp only [Prod.mk.injEq] at h
  obtain ⟨rfl, rfl⟩ := h
  have hgeo := cb_geometry rate
  constructor <;> dsimp only
  · exact hsig
  · omega
  · simp only [List.length_cons]; omega
  · intro g hg; simp only [List.head?_cons, Option.some.injEq] at hg; rw [← hg]; exact hg0
  · intro g hg; simp only [List.tail_cons] at hg; have := hgs g hg; rw [zp_deltaGain] at this; omega
  · rw [hgeo.1]; exact hnl.1
  · intro j hj
    rw [hgeo.2.2.1]
    have : n0 * (nlsfCB rate).order / 2 = n0 * ((nlsfCB rate).order / 2) := by
      rcases hgeo.2.1 with h | h <;> rw [h] <;> omega
    rw [this]
    have := Nat.mul_le_mul_right ((nlsfCB rate).order / 2) (Nat.le_of_lt_succ hnl.1)
    omega
  · exact hnl.2.1
  · exact hnl.2.2
  · exact hip
  · exact hv.1
  · exact hv.2.1
  · exact hv.2.2.1
  · exact hv.2.2.2.1
  · exact hv.2.2.2.2.1
  · exact hv.2.2.2.2.2
  · exact hsd

end Opus.SilkSymsProofs
