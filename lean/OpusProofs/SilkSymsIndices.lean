import OpusProofs.SilkSymsTables
/-
  C03 range lemmas for `silk_decode_indices` and the stereo predictor: whatever the range-decoder state,
  every decoded index lies inside the table the decoder later indexes with it.
-/
set_option profiler true
namespace Opus.SilkSymsProofs
open Opus Opus.RangeCoder Opus.SilkSyms Opus.Gen.SilkIcdf

/-- Everything later code relies on about the output of `silk_decode_indices`. -/
structure IndicesOk (rate : Rate) (nbSubfr cc prevSig : Nat) (prevLag : Int) (ix : Indices) : Prop where
  /-- `signalType ∈ {0,1,2}` indexes `silk_gain_iCDF`, `silk_rate_levels_iCDF[·>>1]`, the sign table, the
      quantisation-offset table -/
  sig : ix.signalType ≤ 2
  qoff : ix.quantOffsetType ≤ 1
  gainsLen : ix.gains.length = nbSubfr
  /-- first gain index: `< N_LEVELS_QGAIN = 64` when coded independently, a delta symbol `< 41` otherwise -/
  gainsHead : ∀ g, ix.gains.head? = some g → g < 64 ∧ (cc = 2 → g < 41)
  gainsTail : ∀ g ∈ ix.gains.tail, g < 41
  /-- `NLSFIndices[0] < nVectors = 32`, so every `ec_sel` read of `silk_NLSF_unpack` is inside the array -/
  nlsf0 : ix.nlsf0 < (nlsfCB rate).nVectors
  ecSelIdx : ∀ j, j < (nlsfCB rate).order / 2 →
    ix.nlsf0 * (nlsfCB rate).order / 2 + j < (nlsfCB rate).ecSel.length
  nlsfLen : ix.nlsfRes.length = (nlsfCB rate).order
  /-- residuals after the extension rule lie in `[-NLSF_QUANT_MAX_AMPLITUDE_EXT, +…] = [-10, 10]` -/
  nlsfRes : ∀ r ∈ ix.nlsfRes, -10 ≤ r ∧ r ≤ 10
  interp : ix.interp ≤ 4
  /-- absolute lag index inside `[0, 32*fs_kHz/2)`, or a delta of −8…+11 on the previous one -/
  lag : ix.signalType = 2 →
    (0 ≤ ix.lagIndex ∧ ix.lagIndex < 32 * (rate.kHz / 2)) ∨
    (cc = 2 ∧ prevSig = 2 ∧ prevLag - 8 ≤ ix.lagIndex ∧ ix.lagIndex ≤ prevLag + 11)
  contour : ix.signalType = 2 → ix.contourIndex < (pitchContour rate nbSubfr).length
  per : ix.perIndex ≤ 2
  ltpLen : ix.signalType = 2 → ix.ltp.length = nbSubfr
  /-- `LTPIndex[k] < silk_LTP_vq_sizes[PERIndex] = 8 << PERIndex` -/
  ltp : ∀ l ∈ ix.ltp, l < 8 * 2 ^ ix.perIndex
  ltpScale : ix.ltpScale ≤ 2
  seed : ix.seed ≤ 3

theorem zp_contour_lt (rate : Rate) (nb : Nat) :
    zeroPos (pitchContour rate nb) < (pitchContour rate nb).length := by
  unfold pitchContour
  cases rate <;> by_cases h : nb = 4 <;> simp [h] <;> decide

/-- `ec_ix[]` entries are `9*k`, `k < 8`, whatever byte `ec_sel` holds. -/
theorem nlsfUnpackEcIx_mem (cb : NlsfCB) (i : Nat) : ∀ e ∈ nlsfUnpackEcIx cb i, ∃ k, k < 8 ∧ e = 9 * k := by
  intro e he
  unfold nlsfUnpackEcIx at he
  simp only [List.mem_flatMap, List.mem_range, List.mem_cons, List.mem_nil_iff, or_false] at he
  obtain ⟨j, _, h⟩ := he
  rcases h with h | h
  · exact ⟨cb.ecSel.getD (i * cb.order / 2 + j) 0 / 2 % 8, Nat.mod_lt _ (by omega), by omega⟩
  · exact ⟨cb.ecSel.getD (i * cb.order / 2 + j) 0 / 32 % 8, Nat.mod_lt _ (by omega), by omega⟩

theorem flatMap_pair_length {α} (f g : Nat → α) : ∀ (l : List Nat), (l.flatMap fun j => [f j, g j]).length = 2 * l.length
  | [] => rfl
  | _ :: t => by simp [List.flatMap_cons, flatMap_pair_length f g t]; omega

theorem nlsfUnpackEcIx_length (cb : NlsfCB) (i : Nat) : (nlsfUnpackEcIx cb i).length = 2 * (cb.order / 2) := by
  unfold nlsfUnpackEcIx
  rw [flatMap_pair_length]; simp

theorem nlsfResOne_bounds (rate : Rate) (k : Nat) (hk : k < 8) (c : Dec) :
    -6 ≤ (nlsfResOne (nlsfCB rate) (9 * k) c).1 ∧ (nlsfResOne (nlsfCB rate) (9 * k) c).1 ≤ 14 := by
  unfold nlsfResOne
  dsimp only
  have h1 := sym_le_of c _ (zp_ecIcdf rate k hk)
  generalize sym c ((nlsfCB rate).ecIcdf.drop (9 * k)) = r at h1 ⊢
  have h2 := sym_le_of r.2 _ zp_nlsfExt
  generalize sym r.2 silk_NLSF_EXT_iCDF = x at h2 ⊢
  split
  · simp only; omega
  · split
    · simp only; omega
    · simp only; omega

theorem nlsfResLoop_ok (rate : Rate) : ∀ (es : List Nat) (c : Dec), (∀ e ∈ es, ∃ k, k < 8 ∧ e = 9 * k) →
    (nlsfResLoop (nlsfCB rate) es c).1.length = es.length ∧
    ∀ r ∈ (nlsfResLoop (nlsfCB rate) es c).1, -10 ≤ r ∧ r ≤ 10
  | [], c, _ => by simp [nlsfResLoop]
  | e :: es, c, h => by
    obtain ⟨k, hk, he⟩ := h e (by simp)
    have ih := nlsfResLoop_ok rate es (nlsfResOne (nlsfCB rate) e c).2 (fun e' h' => h e' (by simp [h']))
    have hb := nlsfResOne_bounds rate k hk c
    rw [← he] at hb
    simp only [nlsfResLoop, List.length_cons, List.mem_cons]
    refine ⟨by omega, ?_⟩
    intro r hr
    rcases hr with hr | hr
    · rw [hr]; omega
    · exact ih.2 r hr

theorem decodeType_le (v : Bool) (c : Dec) : (decodeType v c).1 ≤ 5 := by
  unfold decodeType
  dsimp only
  split
  · have := sym_le_of c _ zp_typeVAD; simp only; omega
  · have := sym_le_of c _ zp_typeNoVAD; omega

theorem decodeGain0_lt (cc sig : Nat) (hs : sig ≤ 2) (c : Dec) :
    (decodeGain0 cc sig c).1 < 64 ∧ (cc = 2 → (decodeGain0 cc sig c).1 < 41) := by
  unfold decodeGain0
  dsimp only
  split
  · have := sym_le_of c _ zp_deltaGain
    exact ⟨by omega, fun _ => by omega⟩
  · rename_i h
    have h1 := sym_le_of c _ (zp_gain sig (by omega))
    generalize sym c (silk_gain_iCDF.getD sig []) = a at h1 ⊢
    have h2 := sym_le_of a.2 _ zp_uniform8
    exact ⟨by omega, fun h' => absurd h' h⟩

theorem decodeNlsf_ok (rate : Rate) (sig : Nat) (hs : sig ≤ 2) (c : Dec) :
    (decodeNlsf rate sig c).1.1 < 32 ∧ (decodeNlsf rate sig c).1.2.length = (nlsfCB rate).order ∧
    ∀ r ∈ (decodeNlsf rate sig c).1.2, -10 ≤ r ∧ r ≤ 10 := by
  unfold decodeNlsf
  dsimp only
  have h1 := sym_le_of c _ (zp_cb1 rate (sig / 2) (by omega))
  generalize sym c ((nlsfCB rate).cb1.drop (sig / 2 * (nlsfCB rate).nVectors)) = n0 at h1 ⊢
  have hl := nlsfResLoop_ok rate (nlsfUnpackEcIx (nlsfCB rate) n0.1) n0.2 (nlsfUnpackEcIx_mem _ _)
  have hg := cb_geometry rate
  refine ⟨by omega, ?_, hl.2⟩
  rw [hl.1, nlsfUnpackEcIx_length]
  rcases hg.2.1 with h | h <;> rw [h]

theorem decodeLag_ok (rate : Rate) (cc prevSig : Nat) (prevLag : Int) (c : Dec) :
    (0 ≤ (decodeLag rate cc prevSig prevLag c).1 ∧ (decodeLag rate cc prevSig prevLag c).1 < 32 * (rate.kHz / 2)) ∨
    (cc = 2 ∧ prevSig = 2 ∧ prevLag - 8 ≤ (decodeLag rate cc prevSig prevLag c).1 ∧
      (decodeLag rate cc prevSig prevLag c).1 ≤ prevLag + 11) := by
  unfold decodeLag
  dsimp only
  have absLag : ∀ c' : Dec,
      (0 : Int) ≤ (((sym c' silk_pitch_lag_iCDF).1 * (rate.kHz / 2) +
        (sym (sym c' silk_pitch_lag_iCDF).2 (pitchLagLowBits rate)).1 : Nat) : Int) ∧
      ((((sym c' silk_pitch_lag_iCDF).1 * (rate.kHz / 2) +
        (sym (sym c' silk_pitch_lag_iCDF).2 (pitchLagLowBits rate)).1 : Nat) : Int)) < 32 * (rate.kHz / 2) := by
    intro c'
    have ha := sym_le_of c' _ zp_pitchLag
    generalize sym c' silk_pitch_lag_iCDF = a at ha ⊢
    have hb := sym_le a.2 (pitchLagLowBits rate)
    have hz := zp_pitchLow rate
    have : a.1 * (rate.kHz / 2) ≤ 31 * (rate.kHz / 2) := Nat.mul_le_mul_right _ ha
    constructor
    · exact Int.natCast_nonneg _
    · have h32 : ((32 * (rate.kHz / 2) : Nat) : Int) = 32 * ((rate.kHz : Int) / 2) := by
        cases rate <;> decide
      omega
  by_cases hd : cc = 2 ∧ prevSig = 2
  · rw [if_pos hd]
    have h1 := sym_le_of c _ zp_pitchDelta
    generalize sym c silk_pitch_delta_iCDF = d at h1 ⊢
    split
    · right; refine ⟨hd.1, hd.2, ?_, ?_⟩ <;> simp only <;> omega
    · left; exact absLag d.2
  · rw [if_neg hd]
    simp only [Nat.lt_irrefl, gt_iff_lt, if_false]
    left; exact absLag c

theorem ltpBound (per l : Nat) (hp : per ≤ 2)
    (h : l ≤ zeroPos ([silk_LTP_gain_iCDF_0, silk_LTP_gain_iCDF_1, silk_LTP_gain_iCDF_2].getD per [])) :
    l < 8 * 2 ^ per := by
  have hz := zp_ltpGain per (Nat.lt_succ_of_le hp)
  omega

theorem decodeLtp_per (nbSubfr cc : Nat) (c : Dec) : (decodeLtp nbSubfr cc c).1.1 ≤ 2 := by
  unfold decodeLtp
  dsimp only
  exact sym_le_of c _ zp_perIndex

theorem decodeLtp_len (nbSubfr cc : Nat) (c : Dec) : (decodeLtp nbSubfr cc c).1.2.1.length = nbSubfr := by
  unfold decodeLtp
  dsimp only
  exact symLoop_length _ _ _

theorem decodeLtp_ltp (nbSubfr cc : Nat) (c : Dec) :
    ∀ l ∈ (decodeLtp nbSubfr cc c).1.2.1, l < 8 * 2 ^ (decodeLtp nbSubfr cc c).1.1 := by
  unfold decodeLtp
  dsimp only
  intro l hl
  exact ltpBound _ l (sym_le_of c _ zp_perIndex) (symLoop_le _ _ _ l hl)

theorem decodeLtp_scale (nbSubfr cc : Nat) (c : Dec) : (decodeLtp nbSubfr cc c).1.2.2 ≤ 2 := by
  unfold decodeLtp
  dsimp only
  split
  · exact sym_le_of _ _ zp_ltpScale
  · simp

theorem decodePitchLtp_lag (rate : Rate) (nbSubfr cc prevSig : Nat) (prevLag : Int) (c : Dec) :
    (0 ≤ (decodePitchLtp rate nbSubfr cc prevSig prevLag c).1.1 ∧
      (decodePitchLtp rate nbSubfr cc prevSig prevLag c).1.1 < 32 * (rate.kHz / 2)) ∨
    (cc = 2 ∧ prevSig = 2 ∧ prevLag - 8 ≤ (decodePitchLtp rate nbSubfr cc prevSig prevLag c).1.1 ∧
      (decodePitchLtp rate nbSubfr cc prevSig prevLag c).1.1 ≤ prevLag + 11) := by
  unfold decodePitchLtp
  dsimp only
  exact decodeLag_ok rate cc prevSig prevLag c

theorem decodePitchLtp_contour (rate : Rate) (nbSubfr cc prevSig : Nat) (prevLag : Int) (c : Dec) :
    (decodePitchLtp rate nbSubfr cc prevSig prevLag c).1.2.1 < (pitchContour rate nbSubfr).length := by
  unfold decodePitchLtp
  dsimp only
  exact Nat.lt_of_le_of_lt (sym_le _ _) (zp_contour_lt rate nbSubfr)

theorem decodePitchLtp_per (rate : Rate) (nbSubfr cc prevSig : Nat) (prevLag : Int) (c : Dec) :
    (decodePitchLtp rate nbSubfr cc prevSig prevLag c).1.2.2.1 ≤ 2 := by
  unfold decodePitchLtp
  dsimp only
  exact decodeLtp_per _ _ _

theorem decodePitchLtp_len (rate : Rate) (nbSubfr cc prevSig : Nat) (prevLag : Int) (c : Dec) :
    (decodePitchLtp rate nbSubfr cc prevSig prevLag c).1.2.2.2.1.length = nbSubfr := by
  unfold decodePitchLtp
  dsimp only
  exact decodeLtp_len _ _ _

theorem decodePitchLtp_ltp (rate : Rate) (nbSubfr cc prevSig : Nat) (prevLag : Int) (c : Dec) :
    ∀ l ∈ (decodePitchLtp rate nbSubfr cc prevSig prevLag c).1.2.2.2.1,
      l < 8 * 2 ^ (decodePitchLtp rate nbSubfr cc prevSig prevLag c).1.2.2.1 := by
  unfold decodePitchLtp
  dsimp only
  exact decodeLtp_ltp _ _ _

theorem decodePitchLtp_scale (rate : Rate) (nbSubfr cc prevSig : Nat) (prevLag : Int) (c : Dec) :
    (decodePitchLtp rate nbSubfr cc prevSig prevLag c).1.2.2.2.2 ≤ 2 := by
  unfold decodePitchLtp
  dsimp only
  exact decodeLtp_scale _ _ _

/-- `silk_decode_indices` never produces an index outside the table it later addresses. -/
theorem decodeIndices_ok (rate : Rate) (nbSubfr : Nat) (hnb : 1 ≤ nbSubfr) (v : Bool) (cc prevSig : Nat)
    (prevLag : Int) (c : Dec) :
    IndicesOk rate nbSubfr cc prevSig prevLag (decodeIndices rate nbSubfr v cc prevSig prevLag c).1 := by
  unfold decodeIndices
  dsimp only
  have ht := decodeType_le v c
  generalize decodeType v c = t at ht ⊢
  have hsig : t.1 / 2 ≤ 2 := by omega
  have hg0 := decodeGain0_lt cc (t.1 / 2) hsig t.2
  generalize decodeGain0 cc (t.1 / 2) t.2 = g0 at hg0 ⊢
  have hgl := symLoop_length silk_delta_gain_iCDF (nbSubfr - 1) g0.2
  have hgs := symLoop_le silk_delta_gain_iCDF (nbSubfr - 1) g0.2
  generalize symLoop silk_delta_gain_iCDF (nbSubfr - 1) g0.2 = gs at hgl hgs ⊢
  have hnl := decodeNlsf_ok rate (t.1 / 2) hsig gs.2
  generalize decodeNlsf rate (t.1 / 2) gs.2 = nl at hnl ⊢
  have hip : (if nbSubfr = 4 then sym nl.2 silk_NLSF_interpolation_factor_iCDF else (4, nl.2)).1 ≤ 4 := by
    split
    · exact sym_le_of _ _ zp_interp
    · simp
  generalize (if nbSubfr = 4 then sym nl.2 silk_NLSF_interpolation_factor_iCDF else (4, nl.2)) = ip at hip ⊢
  have hgeo := cb_geometry rate
  by_cases hv : t.1 / 2 = 2
  · have hp1 := decodePitchLtp_lag rate nbSubfr cc prevSig prevLag ip.2
    have hp2 := decodePitchLtp_contour rate nbSubfr cc prevSig prevLag ip.2
    have hp3 := decodePitchLtp_per rate nbSubfr cc prevSig prevLag ip.2
    have hp4 := decodePitchLtp_len rate nbSubfr cc prevSig prevLag ip.2
    have hp5 := decodePitchLtp_ltp rate nbSubfr cc prevSig prevLag ip.2
    have hp6 := decodePitchLtp_scale rate nbSubfr cc prevSig prevLag ip.2
    simp only [hv, if_true]
    generalize decodePitchLtp rate nbSubfr cc prevSig prevLag ip.2 = pl at hp1 hp2 hp3 hp4 hp5 hp6 ⊢
    have hsd := sym_le_of pl.2 _ zp_uniform4
    constructor <;> simp only
    · omega
    · omega
    · simp only [List.length_cons]; omega
    · intro g hg; simp only [List.head?_cons, Option.some.injEq] at hg; rw [← hg]; exact hg0
    · intro g hg; simp only [List.tail_cons] at hg; have := hgs g hg; rw [zp_deltaGain] at this; omega
    · rw [hgeo.1]; exact hnl.1
    · intro j hj
      rw [hgeo.2.2.1]
      have : nl.1.1 * (nlsfCB rate).order / 2 = nl.1.1 * ((nlsfCB rate).order / 2) := by
        rcases hgeo.2.1 with h | h <;> rw [h] <;> omega
      rw [this]
      have := Nat.mul_le_mul_right ((nlsfCB rate).order / 2) (Nat.le_of_lt_succ hnl.1)
      omega
    · exact hnl.2.1
    · exact hnl.2.2
    · exact hip
    · intro _; exact hp1
    · intro _; exact hp2
    · exact hp3
    · intro _; exact hp4
    · exact hp5
    · exact hp6
    · exact hsd
  · simp only [hv, if_false]
    have hsd := sym_le_of ip.2 _ zp_uniform4
    constructor <;> simp only
    · omega
    · omega
    · simp only [List.length_cons]; omega
    · intro g hg; simp only [List.head?_cons, Option.some.injEq] at hg; rw [← hg]; exact hg0
    · intro g hg; simp only [List.tail_cons] at hg; have := hgs g hg; rw [zp_deltaGain] at this; omega
    · rw [hgeo.1]; exact hnl.1
    · intro j hj
      rw [hgeo.2.2.1]
      have : nl.1.1 * (nlsfCB rate).order / 2 = nl.1.1 * ((nlsfCB rate).order / 2) := by
        rcases hgeo.2.1 with h | h <;> rw [h] <;> omega
      rw [this]
      have := Nat.mul_le_mul_right ((nlsfCB rate).order / 2) (Nat.le_of_lt_succ hnl.1)
      omega
    · exact hnl.2.1
    · exact hnl.2.2
    · exact hip
    · intro h; exact absurd h hv
    · intro h; exact absurd h hv
    · omega
    · intro h; exact absurd h hv
    · intro l hl; simp at hl
    · omega
    · exact hsd

end Opus.SilkSymsProofs
