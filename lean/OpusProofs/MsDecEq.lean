import OpusModel.MsDecEq
/-
  OpusProofs.MsDecEq — non-interference of the streams of a multistream decoder: whatever the elementary machine is,
  every API call (decode / loss / FEC / ctl fan-out / direct ctl) changes stream `i` exactly as a stand-alone machine
  performing the requests that reached stream `i` would, and produces the same answers (return values, PCM).
  Core tactics only.
-/
namespace Opus.MsDecEq
open Opus Opus.Layout

variable {σ π : Type}

/-- `Thread m s pre post seen`: `post` arises from `pre` (the states of streams `s, s+1, …`) by letting some streams, in
    increasing order and each at most once, perform one request, and `seen` lists exactly these requests with the
    stand-alone machine's answers. -/
inductive Thread (m : Machine σ π) : Nat → List σ → List σ → List (Seen σ π) → Prop
  | nil (s : Nat) : Thread m s [] [] []
  | skip (s : Nat) (st : σ) {pre post : List σ} {seen : List (Seen σ π)} :
      Thread m (s + 1) pre post seen → Thread m s (st :: pre) (st :: post) seen
  | hit (s : Nat) (st : σ) (inp : In) {pre post : List σ} {seen : List (Seen σ π)} :
      Thread m (s + 1) pre post seen →
      Thread m s (st :: pre) ((m.step st inp).st :: post) (⟨s, inp, m.step st inp⟩ :: seen)

theorem Thread.refl (m : Machine σ π) : ∀ (l : List σ) (s : Nat), Thread m s l l []
  | [], s => .nil s
  | st :: rest, s => .skip s st (Thread.refl m rest (s + 1))

theorem Thread.length {m : Machine σ π} {s : Nat} {pre post : List σ} {seen : List (Seen σ π)}
    (h : Thread m s pre post seen) : post.length = pre.length := by
  induction h with
  | nil => rfl
  | skip _ _ _ ih => simp [ih]
  | hit _ _ _ _ ih => simp [ih]

theorem Thread.ge {m : Machine σ π} {s : Nat} {pre post : List σ} {seen : List (Seen σ π)}
    (h : Thread m s pre post seen) : ∀ x ∈ seen, s ≤ x.s := by
  induction h with
  | nil => intro x hx; cases hx
  | skip _ _ _ ih => intro x hx; have := ih x hx; omega
  | hit s _ _ _ ih =>
    intro x hx
    rcases List.mem_cons.mp hx with rfl | hx
    · exact Nat.le_refl _
    · have := ih x hx; omega

theorem filter_none {seen : List (Seen σ π)} {s : Nat} (h : ∀ x ∈ seen, s + 1 ≤ x.s) :
    seen.filter (fun x => x.s = s) = [] := by
  rw [List.filter_eq_nil_iff]
  intro x hx
  have := h x hx
  simp; omega

/-- The content of a thread, stream by stream: stream `s + j` went from `pre[j]` to `post[j]` exactly by replaying, on a
    stand-alone machine, the requests of `seen` addressed to it — and its recorded answers are the replay's answers. -/
theorem Thread.replay {m : Machine σ π} {s : Nat} {pre post : List σ} {seen : List (Seen σ π)}
    (h : Thread m s pre post seen) : ∀ (j : Nat) (st : σ), pre[j]? = some st →
      ∃ st', post[j]? = some st' ∧
        m.replay st ((seen.filter (fun x => x.s = s + j)).map (·.inp)) =
          (st', (seen.filter (fun x => x.s = s + j)).map (·.ans)) := by
  induction h with
  | nil => intro j st hj; simp at hj
  | skip s st0 hth ih =>
    intro j st hj
    cases j with
    | zero =>
      simp only [List.getElem?_cons_zero, Option.some.injEq] at hj
      subst hj
      refine ⟨st0, by simp, ?_⟩
      rw [Nat.add_zero, filter_none hth.ge]; rfl
    | succ j =>
      simp only [List.getElem?_cons_succ] at hj ⊢
      have := ih j st hj
      rw [show s + 1 + j = s + (j + 1) by omega] at this
      exact this
  | hit s st0 inp hth ih =>
    intro j st hj
    cases j with
    | zero =>
      simp only [List.getElem?_cons_zero, Option.some.injEq] at hj
      subst hj
      refine ⟨(m.step st0 inp).st, by simp, ?_⟩
      rw [Nat.add_zero, List.filter_cons_of_pos (by simp), filter_none hth.ge]
      rfl
    | succ j =>
      simp only [List.getElem?_cons_succ] at hj ⊢
      have := ih j st hj
      rw [show s + 1 + j = s + (j + 1) by omega] at this
      rw [List.filter_cons_of_neg (by simp)]
      exact this

/-! ### every API call is a thread -/

theorem msLoop_thread (m : Machine σ π) (l : ChannelLayout) (fec : Int) (sc doPlc : Bool) :
    ∀ (todo : List σ) (s : Nat) (bs : Bytes) (off len fsz : Int),
      Thread m s todo (msLoop m l fec sc doPlc todo s bs off len fsz).sts
        ((msLoop m l fec sc doPlc todo s bs off len fsz).recs.map Rec.seen)
  | [], s, _, _, _, _ => by unfold msLoop; exact .nil s
  | st :: rest, s, bs, off, len, fsz => by
    unfold msLoop
    by_cases h1 : ¬ doPlc = true ∧ len ≤ 0
    · rw [if_pos h1]; exact Thread.refl m _ s
    · rw [if_neg h1]
      dsimp only
      by_cases h2 : (m.run st (streamArgs l.nbStreams doPlc s bs len fsz fec sc)).ret ≤ 0
      · rw [if_pos h2]; exact .hit s st (.decode _) (Thread.refl m rest (s + 1))
      · rw [if_neg h2]; exact .hit s st (.decode _) (msLoop_thread m l fec sc doPlc rest (s + 1) _ _ _ _)

theorem msDecode_thread (m : Machine σ π) (l : ChannelLayout) (Fs : Nat) (sts : List σ) (bs : Bytes)
    (len frame_size fec : Int) (sc : Bool) :
    Thread m 0 sts (msDecode m l Fs sts bs len frame_size fec sc).sts
      ((msDecode m l Fs sts bs len frame_size fec sc).recs.map Rec.seen) := by
  unfold msDecode
  split
  · exact Thread.refl m sts 0
  · exact msLoop_thread m l fec sc _ sts 0 bs 0 len _

theorem ctlAll_thread (m : Machine σ π) (request arg : Int) : ∀ (todo : List σ) (s : Nat),
    Thread m s todo (ctlAll m request arg todo s).2.1 (ctlAll m request arg todo s).2.2
  | [], s => by unfold ctlAll; exact .nil s
  | st :: rest, s => by
    unfold ctlAll
    split
    · exact .hit s st (.ctl request arg) (Thread.refl m rest (s + 1))
    · exact .hit s st (.ctl request arg) (ctlAll_thread m request arg rest (s + 1))

theorem ctlXor_thread (m : Machine σ π) (request : Int) : ∀ (todo : List σ) (s acc : Nat),
    Thread m s todo (ctlXor m request todo s acc).2.2.1 (ctlXor m request todo s acc).2.2.2
  | [], s, _ => by unfold ctlXor; exact .nil s
  | st :: rest, s, acc => by
    unfold ctlXor
    split
    · exact .hit s st (.ctl request 0) (Thread.refl m rest (s + 1))
    · exact .hit s st (.ctl request 0) (ctlXor_thread m request rest (s + 1) _)

theorem msCtl_thread (m : Machine σ π) (sts : List σ) (request arg : Int) (nonNull : Bool) :
    Thread m 0 sts (msCtl m sts request arg nonNull).sts (msCtl m sts request arg nonNull).seen := by
  unfold msCtl
  split
  · split
    · exact .hit 0 _ (.ctl request 0) (Thread.refl m _ 1)
    · exact .nil 0
  · split
    · split
      · exact Thread.refl m sts 0
      · exact ctlXor_thread m request sts 0 0
    · split
      · exact ctlAll_thread m request _ sts 0
      · split
        · split
          · exact Thread.refl m sts 0
          · split
            · exact Thread.refl m sts 0
            · exact Thread.refl m sts 0
        · exact Thread.refl m sts 0

theorem directCtl_thread (m : Machine σ π) (request arg : Int) : ∀ (todo : List σ) (k s0 : Nat),
    Thread m s0 todo (directCtl m request arg todo k (s0 + k)).1 (directCtl m request arg todo k (s0 + k)).2
  | [], _, s0 => by unfold directCtl; exact .nil s0
  | st :: rest, 0, s0 => by unfold directCtl; exact .hit s0 st (.ctl request arg) (Thread.refl m rest (s0 + 1))
  | st :: rest, k + 1, s0 => by
    unfold directCtl
    have := directCtl_thread m request arg rest k (s0 + 1)
    rw [show s0 + 1 + k = s0 + (k + 1) by omega] at this
    exact .skip s0 st this

theorem apply_thread (m : Machine σ π) (l : ChannelLayout) (Fs : Nat) (sts : List σ) (e : Ev) :
    Thread m 0 sts (apply m l Fs sts e).sts (apply m l Fs sts e).seen := by
  cases e with
  | decode bs len frame_size fec sc => exact msDecode_thread m l Fs sts bs len frame_size fec sc
  | ctl request arg nonNull => exact msCtl_thread m sts request arg nonNull
  | direct s request arg =>
    have := directCtl_thread m request arg sts s 0
    rw [Nat.zero_add] at this
    exact this

/-! ### histories -/

theorem replay_append (m : Machine σ π) : ∀ (a b : List In) (st : σ),
    m.replay st (a ++ b) = ((m.replay (m.replay st a).1 b).1, (m.replay st a).2 ++ (m.replay (m.replay st a).1 b).2)
  | [], b, st => by simp [Machine.replay]
  | i :: a, b, st => by
    simp only [List.cons_append, Machine.replay]
    rw [replay_append m a b]

/-- **Stream `i` of a multistream decoder is a stand-alone decoder** — for every machine, layout, initial states and
    history: the final state of stream `i` and all its answers are those of one stand-alone machine replaying what
    stream `i` saw. -/
theorem runHist_stream (m : Machine σ π) (l : ChannelLayout) (Fs : Nat) : ∀ (evs : List Ev) (sts : List σ) (i : Nat) (st : σ),
    sts[i]? = some st →
    ∃ st', (runHist m l Fs sts evs).1[i]? = some st' ∧
      m.replay st ((seenBy i (runHist m l Fs sts evs).2).map (·.inp)) = (st', (seenBy i (runHist m l Fs sts evs).2).map (·.ans))
  | [], sts, i, st, h => ⟨st, h, by simp [runHist, seenBy, Machine.replay]⟩
  | e :: es, sts, i, st, h => by
    obtain ⟨st1, h1, hr1⟩ := (apply_thread m l Fs sts e).replay i st h
    obtain ⟨st2, h2, hr2⟩ := runHist_stream m l Fs es (apply m l Fs sts e).sts i st1 h1
    refine ⟨st2, h2, ?_⟩
    simp only [Nat.zero_add] at hr1
    simp only [runHist, seenBy, List.flatMap_cons, List.filter_append, List.map_append] at hr2 ⊢
    rw [replay_append, hr1]
    simp only
    rw [hr2]

/-- The number of streams never changes. -/
theorem runHist_length (m : Machine σ π) (l : ChannelLayout) (Fs : Nat) : ∀ (evs : List Ev) (sts : List σ),
    (runHist m l Fs sts evs).1.length = sts.length
  | [], _ => rfl
  | e :: es, sts => by
    simp only [runHist]
    rw [runHist_length m l Fs es, (apply_thread m l Fs sts e).length]

end Opus.MsDecEq
