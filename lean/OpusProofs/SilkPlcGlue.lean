import OpusModel.SilkPlcGlue
/-
  OpusProofs.SilkPlcGlue — silk_PLC_glue_frames (silk/PLC.c:433-493) on the value model `OpusModel.SilkPlcGlue`:
  identity when nothing was lost, the fade-in ramp keeps every sample an `opus_int16`, never amplifies and never
  flips a sign WHILE its Q16 gain is in [0, 1.0], and the gain ramps up monotonically (slope ≥ 0) in that case.
  That the start gain IS ≤ 1.0 is false for the code (see `glue_gain_above_one` in OpusProps/C09SilkPlc.lean).
-/
namespace Opus.SilkPlc
open Opus Opus.SilkParams

/-- `opus_int16` range. -/
def I16 (x : Int) : Prop := -32768 ≤ x ∧ x ≤ 32767

/-- "not amplified, sign kept": `y` lies between 0 and `x`. -/
def Damped (x y : Int) : Prop := (0 ≤ x → 0 ≤ y ∧ y ≤ x) ∧ (x ≤ 0 → x ≤ y ∧ y ≤ 0)

theorem damped_refl (x : Int) : Damped x x := ⟨fun h => ⟨h, Int.le_refl _⟩, fun h => ⟨Int.le_refl _, h⟩⟩

/-- Sample-by-sample `Damped` (same length). -/
inductive AllDamped : List Int → List Int → Prop
  | nil : AllDamped [] []
  | cons {x y : Int} {xs ys : List Int} : Damped x y → AllDamped xs ys → AllDamped (x :: xs) (y :: ys)

theorem forall2_damped_refl : ∀ xs : List Int, AllDamped xs xs
  | [] => .nil
  | x :: xs => .cons (damped_refl x) (forall2_damped_refl xs)

theorem AllDamped.get {xs ys : List Int} (h : AllDamped xs ys) :
    xs.length = ys.length ∧ ∀ i, Damped (xs.getD i 0) (ys.getD i 0) := by
  induction h with
  | nil => exact ⟨rfl, fun i => by simp [Damped]⟩
  | cons hd _ ih =>
    refine ⟨by simp [ih.1], fun i => ?_⟩
    cases i with
    | zero => simpa using hd
    | succ i => simpa using ih.2 i

theorem glue_identity (s : GlueSt) (frame : List Int) (h0 : s.lossCnt = 0) (h1 : s.lastFrameLost = 0) :
    glueFrames s frame = (frame, s) := by
  cases s
  simp_all [glueFrames]

theorem glue_lost_keeps_frame (s : GlueSt) (frame : List Int) (h0 : s.lossCnt ≠ 0) :
    (glueFrames s frame).1 = frame ∧ (glueFrames s frame).2.lastFrameLost = 1 := by
  simp [glueFrames, h0]

theorem glue_received_clears_flag (s : GlueSt) (frame : List Int) (h0 : s.lossCnt = 0) :
    (glueFrames s frame).2.lastFrameLost = 0 := by
  unfold glueFrames
  simp only [h0, ne_eq, not_true_eq_false, ↓reduceIte]
  split
  · split <;> rfl
  · rfl

theorem glueRamp_length (slope : Int) : ∀ (xs : List Int) (g : Int), (glueRamp slope xs g).length = xs.length
  | [], _ => rfl
  | x :: xs, g => by
    unfold glueRamp
    split
    · simp
    · simp [glueRamp_length slope xs]

theorem wrap16_range (x : Int) : I16 (wrap16 x) := by unfold I16 wrap16; omega

theorem glueRamp_int16 (slope : Int) : ∀ (xs : List Int) (g : Int), (∀ x ∈ xs, I16 x) →
    ∀ y ∈ glueRamp slope xs g, I16 y
  | [], _, _ => by simp [glueRamp]
  | x :: xs, g, h => by
    intro y hy
    unfold glueRamp at hy
    split at hy
    · rcases List.mem_cons.mp hy with rfl | hy
      · exact wrap16_range _
      · exact h y (List.mem_cons_of_mem _ hy)
    · rcases List.mem_cons.mp hy with rfl | hy
      · exact wrap16_range _
      · exact glueRamp_int16 slope xs _ (fun z hz => h z (List.mem_cons_of_mem _ hz)) y hy

/-- One faded sample: with a Q16 gain in [0, 1.0] the `opus_int16` store does not wrap and the sample is damped. -/
theorem glue_sample_damped (g x : Int) (hg : 0 ≤ g ∧ g ≤ 65536) (hx : I16 x) :
    Damped x (wrap16 (smulwb g x)) := by
  unfold I16 at hx
  have hw : wrap16 x = x := by unfold wrap16; omega
  unfold smulwb
  rw [hw]
  by_cases hp : 0 ≤ x
  · have h1 : 0 ≤ g * x := Int.mul_nonneg hg.1 hp
    have h2 : g * x ≤ 65536 * x := Int.mul_le_mul_of_nonneg_right hg.2 hp
    unfold Damped wrap16 wrap32
    constructor <;> intro _ <;> omega
  · have hn : x ≤ 0 := by omega
    have h1 : g * x ≤ 0 := Int.mul_nonpos_of_nonneg_of_nonpos hg.1 hn
    have h2 : 65536 * x ≤ g * x := Int.mul_le_mul_of_nonpos_right hg.2 hn
    unfold Damped wrap16 wrap32
    constructor <;> intro _ <;> omega

/-- The ramp PLC.c:481-487 started from a gain in [0, 1.0] with a non-negative slope: every sample is damped
    (never amplified, sign kept); the gains it applies are `g, g+slope, g+2·slope, …` (non-decreasing), all ≤ 1.0. -/
theorem glueRamp_damped (slope : Int) (hs : 0 ≤ slope) : ∀ (xs : List Int) (g : Int), 0 ≤ g ∧ g ≤ 65536 →
    (∀ x ∈ xs, I16 x) → AllDamped xs (glueRamp slope xs g)
  | [], _, _, _ => by unfold glueRamp; exact .nil
  | x :: xs, g, hg, h => by
    have hx := glue_sample_damped g x hg (h x (List.mem_cons_self))
    unfold glueRamp
    split
    · exact .cons hx (forall2_damped_refl xs)
    · exact .cons hx (glueRamp_damped slope hs xs (g + slope) ⟨by omega, by omega⟩
        (fun z hz => h z (List.mem_cons_of_mem _ hz)))

/-- `slope_Q16` (PLC.c:474-476) is non-negative — the gain ramps UP — whenever the start gain is in [0, 1.0]. -/
theorem glueGain_slope_nonneg (concE e length : Int) (hl : 0 < length)
    (hg : 0 ≤ (glueGain concE e length).1 ∧ (glueGain concE e length).1 ≤ 65536) :
    0 ≤ (glueGain concE e length).2.1 := by
  unfold glueGain at hg ⊢
  simp only at hg ⊢
  generalize lshift32 (sqrtApprox _) 4 = gain at hg ⊢
  have h1 : 0 ≤ Int.tdiv (65536 - gain) length := Int.tdiv_nonneg (by omega) (by omega)
  have h2 : Int.tdiv (65536 - gain) length ≤ 65536 - gain := by
    rw [Int.tdiv_eq_ediv_of_nonneg (by omega)]
    exact Int.ediv_le_self _ (by omega)
  unfold div32 lshift32 wrap32
  omega

/-- silk_PLC_glue_frames as a whole, fade-in branch included: the frame keeps its length and every sample stays
    an `opus_int16`. -/
theorem glue_frame_int16 (s : GlueSt) (frame : List Int) (h : ∀ x ∈ frame, I16 x) :
    (glueFrames s frame).1.length = frame.length ∧ ∀ y ∈ (glueFrames s frame).1, I16 y := by
  unfold glueFrames
  dsimp only
  split
  · exact ⟨rfl, h⟩
  · split
    · split
      · exact ⟨glueRamp_length _ _ _, glueRamp_int16 _ _ _ h⟩
      · exact ⟨rfl, h⟩
    · exact ⟨rfl, h⟩

/-- `silk_SQRT_APPROX` returns a value in [0, 65300]. -/
theorem sqrtApprox_range (x : Int) : 0 ≤ sqrtApprox x ∧ sqrtApprox x ≤ 65300 := by
  unfold sqrtApprox
  split
  · omega
  · dsimp only
    have hf : 0 ≤ (clzFrac x).2 ∧ (clzFrac x).2 < 128 := by unfold clzFrac; dsimp only; omega
    generalize (clzFrac x).2 = f at hf
    generalize (shrI (clzFrac x).1 1).toNat = k
    have hy : ∀ y0 : Int, 0 ≤ y0 → 0 ≤ shrI y0 k ∧ shrI y0 k ≤ y0 := fun y0 h0 => by
      unfold shrI
      have hp : (0 : Int) < 2 ^ k := Int.pow_pos (by omega)
      exact ⟨Int.ediv_nonneg h0 (by omega), Int.ediv_le_self _ h0⟩
    have hy' : 0 ≤ shrI (if (clzFrac x).1 % 2 = 1 then 32768 else 46214) k ∧
        shrI (if (clzFrac x).1 % 2 = 1 then 32768 else 46214) k ≤ 46214 := by
      split
      · have := hy 32768 (by omega); omega
      · exact hy 46214 (by omega)
    generalize shrI (if (clzFrac x).1 % 2 = 1 then 32768 else 46214) k = y at hy'
    have hw : wrap16 (smulbb 213 f) = 213 * f := by unfold smulbb wrap16; omega
    unfold smlawb
    rw [hw]
    have h1 : 0 ≤ y * (213 * f) := Int.mul_nonneg hy'.1 (by omega)
    have h2 : y * (213 * f) ≤ 46214 * (213 * f) := Int.mul_le_mul_of_nonneg_right hy'.2 (by omega)
    unfold wrap32
    omega

/-- The start gain `gain_Q16` of PLC.c:473 is never negative (and < 2^21). -/
theorem glueGain_nonneg (concE e length : Int) :
    0 ≤ (glueGain concE e length).1 ∧ (glueGain concE e length).1 ≤ 1044800 := by
  have key : ∀ v : Int, 0 ≤ v ∧ v ≤ 65300 → 0 ≤ lshift32 v 4 ∧ lshift32 v 4 ≤ 1044800 := by
    intro v hv; unfold lshift32 wrap32; omega
  unfold glueGain
  dsimp only
  exact key _ (sqrtApprox_range _)

/-- Never amplifies — proved for the case that the start gain computed at PLC.c:473 is ≤ 1.0 in Q16
    (which the code does NOT guarantee, see OpusProps.C09SilkPlc.glue_gain_above_one). -/
theorem glue_damped_of_gain_le_one (s : GlueSt) (frame : List Int) (h : ∀ x ∈ frame, I16 x)
    (hgain : (glueGain (glueNormalize s.concEnergy s.concEnergyShift (sumSqrShift frame).1 (sumSqrShift frame).2).1
                (glueNormalize s.concEnergy s.concEnergyShift (sumSqrShift frame).1 (sumSqrShift frame).2).2 frame.length).1 ≤ 65536) :
    AllDamped frame (glueFrames s frame).1 := by
  unfold glueFrames
  dsimp only
  split
  · exact forall2_damped_refl _
  · split
    · split
      · cases frame with
        | nil => unfold glueRamp; exact .nil
        | cons a t =>
          have hl : (0 : Int) < ((a :: t).length : Int) := by simp only [List.length_cons]; omega
          have hp := (glueGain_nonneg
            (glueNormalize s.concEnergy s.concEnergyShift (sumSqrShift (a :: t)).1 (sumSqrShift (a :: t)).2).1
            (glueNormalize s.concEnergy s.concEnergyShift (sumSqrShift (a :: t)).1 (sumSqrShift (a :: t)).2).2 (a :: t).length).1
          exact glueRamp_damped _ (glueGain_slope_nonneg _ _ _ hl ⟨hp, hgain⟩) _ _ ⟨hp, hgain⟩ h
      · exact forall2_damped_refl _
    · exact forall2_damped_refl _

end Opus.SilkPlc
