import OpusProofs.RangeCoderStageA
import OpusProofs.RangeCoderRaw
import OpusProofs.RangeCoderSym
/-
  OpusProofs.RangeCoderLockstep — C08 Stage A, decoder side: whenever the decoder returns the
  symbol the encoder coded, its `(rng, nbits_total)` makes the same transition `Op.rn` as the
  encoder's, whatever the buffer contents and errors.
-/
namespace Opus.RangeCoder

theorem decIcdfLoop_out (r d : Nat) : ∀ (tbl : List Nat) (t0 k0 : Nat),
    (decIcdfLoop r d tbl t0 k0).1 - k0 < tbl.length →
    k0 ≤ (decIcdfLoop r d tbl t0 k0).1 ∧
    (decIcdfLoop r d tbl t0 k0).2.2 = mul32 r (tbl.getD ((decIcdfLoop r d tbl t0 k0).1 - k0) 0) ∧
    (decIcdfLoop r d tbl t0 k0).2.1 =
      if (decIcdfLoop r d tbl t0 k0).1 = k0 then t0
      else mul32 r (tbl.getD ((decIcdfLoop r d tbl t0 k0).1 - k0 - 1) 0)
  | [], t0, k0, h => by simp [decIcdfLoop] at h
  | x :: xs, t0, k0, h => by
    by_cases hlt : d < mul32 r x
    · have e : decIcdfLoop r d (x :: xs) t0 k0 = decIcdfLoop r d xs (mul32 r x) (k0 + 1) := by
        simp only [decIcdfLoop, hlt, if_true]
      rw [e] at h ⊢
      have hk : k0 + 1 ≤ (decIcdfLoop r d xs (mul32 r x) (k0 + 1)).1 := by
        -- the index only grows
        have : ∀ (l : List Nat) (t k : Nat), k ≤ (decIcdfLoop r d l t k).1 := by
          intro l
          induction l with
          | nil => intro t k; simp [decIcdfLoop]
          | cons y ys ih =>
            intro t k; simp only [decIcdfLoop]; split
            · exact Nat.le_trans (Nat.le_succ k) (ih _ _)
            · exact Nat.le_refl _
        exact this _ _ _
      obtain ⟨i1, i2, i3⟩ := decIcdfLoop_out r d xs (mul32 r x) (k0 + 1) (by simp only [List.length_cons] at h; omega)
      generalize (decIcdfLoop r d xs (mul32 r x) (k0 + 1)) = res at *
      obtain ⟨k, t, s⟩ := res
      simp only at h hk i1 i2 i3 ⊢
      have e1 : k - k0 = (k - (k0 + 1)) + 1 := by omega
      refine ⟨by omega, ?_, ?_⟩
      · rw [i2, e1, List.getD_cons_succ]
      · rw [i3, if_neg (show ¬ k = k0 by omega)]
        by_cases hk1 : k = k0 + 1
        · rw [if_pos hk1, hk1]; simp
        · rw [if_neg hk1]
          have e2 : k - k0 - 1 = (k - (k0 + 1) - 1) + 1 := by omega
          rw [e2, List.getD_cons_succ]
    · have e : decIcdfLoop r d (x :: xs) t0 k0 = (k0, t0, mul32 r x) := by
        simp only [decIcdfLoop, hlt, if_false]
      rw [e]
      simp

theorem decBitsFill_rn (c : Dec) (w a : Nat) :
    (decBitsFill c w a).1.rng = c.rng ∧ (decBitsFill c w a).1.nbitsTotal = c.nbitsTotal ∧
    (decBitsFill c w a).1.error = c.error := by
  induction hm : 32 - a using Nat.strongRecOn generalizing c w a with
  | _ m ih =>
    rw [decBitsFill]
    have hrb : (readByteFromEnd c).2.rng = c.rng ∧ (readByteFromEnd c).2.nbitsTotal = c.nbitsTotal ∧
        (readByteFromEnd c).2.error = c.error := by
      unfold readByteFromEnd; split <;> exact ⟨rfl, rfl, rfl⟩
    generalize readByteFromEnd c = rb at *
    obtain ⟨b, c1⟩ := rb
    simp only at hrb ⊢
    by_cases h : a + 8 ≤ 24
    · rw [dif_pos h]
      obtain ⟨i1, i2, i3⟩ := ih (32 - (a + 8)) (by omega) c1 (w ||| u32 (b <<< a)) (a + 8) rfl
      exact ⟨by rw [i1, hrb.1], by rw [i2, hrb.2.1], by rw [i3, hrb.2.2]⟩
    · rw [dif_neg h]; exact hrb

theorem decBits_rn (c : Dec) (n : Nat) :
    (decBits c n).2.rng = c.rng ∧ (decBits c n).2.nbitsTotal = c.nbitsTotal + n ∧
    (decBits c n).2.error = c.error ∧ (decBits c n).1 < 2 ^ n := by
  unfold decBits
  simp only
  refine ⟨?_, ?_, ?_, Nat.mod_lt _ (Nat.pow_pos (by decide))⟩
  · split
    · exact (decBitsFill_rn _ _ _).1
    · rfl
  · split
    · rw [(decBitsFill_rn _ _ _).2.1]
    · rfl
  · split
    · exact (decBitsFill_rn _ _ _).2.2
    · rfl

/-- `ec_dec_update` makes the `(rng, nbits_total)` transition of the matching encoder call. -/
theorem decUpdate_rn (c : Dec) (fl fh ft : Nat) (hr : RngOk c) (hl : (Op.encode fl fh ft).Legal)
    (hext : c.ext = c.rng / ft) :
    ((decUpdate c fl fh ft).rng, (decUpdate c fl fh ft).nbitsTotal) =
      primRN (.encode fl fh ft) c.rng c.nbitsTotal := by
  obtain ⟨l1, l2, l3, l4⟩ := hl
  have ok : SubOk c.rng (c.rng / ft) (ft - fl) (ft - fh) := div_subOk (by omega) l4 hr.1 (by omega) (by omega)
  unfold primRN
  simp only [Op.sub, symRN, decUpdate]
  rw [decNormalize_rn, hext]
  simp only
  have e2 : sub32 fh fl = (ft - fl) - (ft - fh) := by rw [sub32_of_le (by omega) (by omega)]; omega
  have e3 : sub32 ft fh = ft - fh := sub32_of_le (by omega) (by omega)
  by_cases hfl : fl > 0
  · rw [if_pos hfl, e2, rho_nonfirst ok hr.2]
    have : decide (fl = 0) = false := by simp; omega
    rw [this]
  · rw [if_neg hfl, e3, rho_first ok hr.2]
    have : decide (fl = 0) = true := by simp; omega
    rw [this]

/-- `ec_dec_icdf` with the returned symbol `s`: same transition as `ec_enc_icdf` of `s`. -/
theorem decIcdf_rn (c : Dec) (s : Nat) (tbl : List Nat) (ftb : Nat) (hr : RngOk c) (hok : IcdfOk tbl ftb)
    (hs : s < tbl.length) (hftb : ftb ≤ 16) (hm : (decIcdf c tbl ftb).1 = s) :
    ((decIcdf c tbl ftb).2.rng, (decIcdf c tbl ftb).2.nbitsTotal) =
      primRN (.icdf s tbl ftb) c.rng c.nbitsTotal := by
  obtain ⟨g1, g2⟩ := icdf_facts hok hs
  have hp := two_pow_le_65536 hftb
  have hp0 : 0 < 2 ^ ftb := Nat.pow_pos (by decide)
  have ok := div_subOk (rng := c.rng) hp0 hp hr.1 g2 g1
  obtain ⟨f1, f2, f3⟩ := ok.facts
  have hfit : c.rng / 2 ^ ftb * 2 ^ ftb ≤ c.rng := Nat.div_mul_le_self _ _
  have hmul : ∀ y, y ≤ 2 ^ ftb → mul32 (c.rng / 2 ^ ftb) y = c.rng / 2 ^ ftb * y := fun y hy =>
    mul32_of_lt (by have := Nat.mul_le_mul_left (c.rng / 2 ^ ftb) hy; have := hr.2; omega)
  unfold primRN
  simp only [Op.sub, symRN]
  simp only [decIcdf] at hm ⊢
  have hout := decIcdfLoop_out (c.rng / 2 ^ ftb) c.val tbl c.rng 0 (by simpa [hm] using hs)
  generalize decIcdfLoop (c.rng / 2 ^ ftb) c.val tbl c.rng 0 = res at *
  obtain ⟨k, t, sv⟩ := res
  simp only at hm hout ⊢
  subst hm
  obtain ⟨_, o2, o3⟩ := hout
  simp only [Nat.sub_zero] at o2 o3
  rw [decNormalize_rn]
  simp only
  have hb : tbl.getD k 0 ≤ 2 ^ ftb := by omega
  congr 1
  rw [o2, o3, hmul _ hb]
  by_cases hk : k = 0
  · subst hk
    simp only [if_true, decide_true] at ok ⊢
    rw [← hmul _ hb]
    exact rho_first ok hr.2
  · simp only [hk, if_false, decide_false] at ok g1 g2 f2 ⊢
    rw [hmul _ g2, sub32_of_le (by have := Nat.mul_le_mul_left (c.rng / 2 ^ ftb) g2; have := hr.2; omega)
      (Nat.mul_le_mul_left _ (by omega))]
    unfold subRho
    simp only [Bool.false_eq_true, if_false]
    rw [f2]

theorem uint_hi_ft_le {ft : Nat} (h1 : 2 ≤ ft) (hb : ilog (ft - 1) > 8) :
    (ft - 1) / 2 ^ (ilog (ft - 1) - 8) + 1 ≤ 256 := by
  have hne : ft - 1 ≠ 0 := by omega
  obtain ⟨b1, b2⟩ := ilog_bounds hne
  have hp : 0 < 2 ^ (ilog (ft - 1) - 8) := Nat.pow_pos (by decide)
  have hdiv : (ft - 1) / 2 ^ (ilog (ft - 1) - 8) < 256 := by
    rw [Nat.div_lt_iff_lt_mul hp]
    have : 256 * 2 ^ (ilog (ft - 1) - 8) = 2 ^ ilog (ft - 1) := by
      have e : ilog (ft - 1) = 8 + (ilog (ft - 1) - 8) := by omega
      rw (config := {occs := .pos [2]}) [e]
      rw [Nat.pow_add]
    omega
  omega

/-- `ec_decode` returns a value below `ft` (for the small tables of `ec_dec_uint`). -/
theorem decode_lt (d : Dec) (ft : Nat) (hr : RngOk d) (hv : d.val < 4294967296) (h1 : 1 ≤ ft) (h2 : ft ≤ 256) :
    (decode d ft).1 < ft := by
  simp only [decode, udiv]
  have hext : 32768 ≤ d.rng / ft := by
    rw [Nat.le_div_iff_mul_le (by omega)]
    have := hr.1
    have : 32768 * ft ≤ 32768 * 256 := Nat.mul_le_mul_left _ h2
    omega
  have hq : d.val / (d.rng / ft) < 131072 := by
    rw [Nat.div_lt_iff_lt_mul (by omega)]
    have : 131072 * 32768 ≤ 131072 * (d.rng / ft) := Nat.mul_le_mul_left _ hext
    omega
  have e1 : u32 (d.val / (d.rng / ft)) = d.val / (d.rng / ft) := u32_of_lt (by omega)
  rw [e1]
  have e2 : u32 (d.val / (d.rng / ft) + 1) = d.val / (d.rng / ft) + 1 := u32_of_lt (by omega)
  rw [e2]
  unfold mini
  split
  · rw [sub32_of_le (by omega) (by omega)]; omega
  · rw [sub32_of_le (by omega) (by omega)]; omega

/-- The multi-byte branch of `ec_dec_uint`, with its intermediate results named. -/
def uintHi (d : Dec) (ft1 ftb : Nat) : Nat × Dec :=
  let ft' := ft1 / 2 ^ ftb + 1
  let s := (decode d ft').1
  let r := decBits (decUpdate (decode d ft').2 s (s + 1) ft') ftb
  if u32 (s <<< ftb) ||| r.1 ≤ ft1 then (u32 (s <<< ftb) ||| r.1, r.2) else (ft1, { r.2 with error := 1 })

theorem decUint_hi (d : Dec) (ft : Nat) (hb : ilog (ft - 1) > 8) :
    decUint d ft = uintHi d (ft - 1) (ilog (ft - 1) - 8) := by
  unfold decUint uintHi
  simp only [if_pos hb]

theorem decUint_lo (d : Dec) (ft : Nat) (hb : ¬ ilog (ft - 1) > 8) :
    decUint d ft = ((decode d (ft - 1 + 1)).1,
      decUpdate (decode d (ft - 1 + 1)).2 (decode d (ft - 1 + 1)).1 ((decode d (ft - 1 + 1)).1 + 1) (ft - 1 + 1)) := by
  unfold decUint
  simp only [if_neg hb]

theorem decUpdate_rn2 (c : Dec) (fl fh ft : Nat) (hr : RngOk c) (hl : (Op.encode fl fh ft).Legal)
    (hext : c.ext = c.rng / ft) :
    (decUpdate c fl fh ft).rng = (primRN (.encode fl fh ft) c.rng c.nbitsTotal).1 ∧
    (decUpdate c fl fh ft).nbitsTotal = (primRN (.encode fl fh ft) c.rng c.nbitsTotal).2 := by
  have := decUpdate_rn c fl fh ft hr hl hext
  exact ⟨congrArg Prod.fst this, congrArg Prod.snd this⟩

theorem uintHi_core (t ft1 v : Nat) (c3 : Dec) (h3 : c3.error = 0)
    (hm : (if t ≤ ft1 then (t, c3) else (ft1, { c3 with error := 1 })).1 = v)
    (he : (if t ≤ ft1 then (t, c3) else (ft1, { c3 with error := 1 })).2.error = 0) :
    t = v ∧ (if t ≤ ft1 then (t, c3) else (ft1, { c3 with error := 1 })).2 = c3 := by
  by_cases ht : t ≤ ft1
  · rw [if_pos ht] at hm ⊢; exact ⟨hm, rfl⟩
  · rw [if_neg ht] at he; exact absurd he Int.one_ne_zero

theorem uintHi_rn (d : Dec) (v ft1 ftb : Nat) (hr : RngOk d) (hv : d.val < 4294967296) (he0 : d.error = 0)
    (hftb : ftb ≤ 24) (hft' : ft1 / 2 ^ ftb + 1 ≤ 256)
    (hleg : (Op.encode (v / 2 ^ ftb) (v / 2 ^ ftb + 1) (ft1 / 2 ^ ftb + 1)).Legal)
    (hm : (uintHi d ft1 ftb).1 = v) (he : (uintHi d ft1 ftb).2.error = 0) :
    (uintHi d ft1 ftb).2.rng =
      (primRN (.encode (v / 2 ^ ftb) (v / 2 ^ ftb + 1) (ft1 / 2 ^ ftb + 1)) d.rng d.nbitsTotal).1 ∧
    (uintHi d ft1 ftb).2.nbitsTotal =
      (primRN (.encode (v / 2 ^ ftb) (v / 2 ^ ftb + 1) (ft1 / 2 ^ ftb + 1)) d.rng d.nbitsTotal).2 + ftb := by
  generalize hft : ft1 / 2 ^ ftb + 1 = ft' at *
  generalize hs : (decode d ft').1 = s
  generalize hc2 : decUpdate { d with ext := d.rng / ft' } s (s + 1) ft' = c2
  generalize hrb : decBits c2 ftb = rb
  have heq : uintHi d ft1 ftb =
      if u32 (s <<< ftb) ||| rb.1 ≤ ft1 then (u32 (s <<< ftb) ||| rb.1, rb.2) else (ft1, { rb.2 with error := 1 }) := by
    rw [← hrb, ← hc2, ← hs, ← hft]; rfl
  rw [heq] at hm he ⊢
  have hs256 : s < ft' := by rw [← hs]; exact decode_lt d ft' hr hv hleg.2.2.1 hft'
  obtain ⟨b1, b2, b3, b4⟩ := decBits_rn c2 ftb
  rw [hrb] at b1 b2 b3 b4
  have hupd_err : c2.error = 0 := by
    rw [← hc2]; simp only [decUpdate, decNormalize_error]; exact he0
  obtain ⟨k1, k2⟩ := uintHi_core _ ft1 v rb.2 (by rw [b3]; exact hupd_err) hm he
  rw [k2, b1, b2]
  have hsh : s <<< ftb < 4294967296 := by
    rw [Nat.shiftLeft_eq]
    have h1 : 2 ^ ftb ≤ 2 ^ 24 := Nat.pow_le_pow_right (by decide) hftb
    have h2 : s * 2 ^ ftb ≤ 255 * 2 ^ 24 := Nat.mul_le_mul (by omega) h1
    omega
  rw [u32_of_lt hsh, Nat.or_comm, or_shift _ _ _ b4] at k1
  have hsv : s = v / 2 ^ ftb := by
    rw [← k1, Nat.add_mul_div_right _ _ (Nat.pow_pos (by decide)), Nat.div_eq_of_lt b4, Nat.zero_add]
  obtain ⟨t1, t2⟩ := decUpdate_rn2 { d with ext := d.rng / ft' } s (s + 1) ft' ⟨hr.1, hr.2⟩ (by rw [hsv]; exact hleg) rfl
  rw [hc2] at t1 t2
  rw [← hsv]
  exact ⟨t1, by rw [t2]⟩

end Opus.RangeCoder
