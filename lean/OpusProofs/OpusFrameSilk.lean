import OpusModel.OpusFrameEnc
import OpusProofs.SilkSymsEncRoundTrip
import OpusProofs.RangeCoderTrunc
/-
  C08, frame level (1): a SILK-only Opus frame without redundancy.  The frame the encoder hands to the
  packet layer — the finished range-coder buffer cut at `(ec_tell+7)>>3` bytes, trailing zero bytes
  stripped — is decoded by C03's `decodeOpusFrame` to exactly what was encoded, no redundancy is
  inferred from the length, and the decoder's final range is the encoder's `rangeFinal`.
-/
namespace Opus.OpusFrameProofs
open Opus Opus.RangeCoder Opus.SilkSyms Opus.SilkSymsEnc Opus.SilkSymsEncProofs Opus.OpusFrameEnc

theorem stripZeros_spec (buf : List Nat) : ∀ (r : Nat),
    stripZeros buf r ≤ r ∧ (1 ≤ r → 1 ≤ stripZeros buf r) ∧
    (∀ i, stripZeros buf r ≤ i → i < r → buf.getD i 0 = 0)
  | 0 => ⟨Nat.le_refl _, fun h => absurd h (by decide), fun i _ hi => absurd hi (by omega)⟩
  | r + 1 => by
    unfold stripZeros
    have ih := stripZeros_spec buf r
    split
    · rename_i h
      refine ⟨by omega, fun _ => ih.2.1 (by omega), fun i h1 h2 => ?_⟩
      by_cases hir : i = r
      · rw [hir]; exact h.2
      · exact ih.2.2 i h1 (by omega)
    · exact ⟨Nat.le_refl _, fun h => h, fun i h1 h2 => absurd h2 (by omega)⟩

theorem icLegal_noRaw {ops : List Op} (h : IcLegal ops) : ∀ op ∈ ops, NoRawOp op := by
  intro op hop
  rcases h op hop with ⟨s, tbl, rfl, _, _⟩
  trivial

/-- The SILK payload round trip for ANY byte stream `(B, L)` that lies in the encoder's final interval:
    events, error flag, final range and bit count. -/
theorem silk_roundtrip_stream (buf : List Nat) (size : Nat) (cfg : Cfg) (pk : PacketIn) (st : SilkSt)
    (hs : size ≤ buf.length) (hb : BytesOk buf) (hok : PacketOk cfg pk)
    (hnF : (encRun (encInit buf size) (packetOps cfg pk)).nbitsTotal < 4294967296)
    (herrF : (encRun (encInit buf size) (packetOps cfg pk)).error = 0)
    (B : List Nat) (L : Nat) (hB : BytesOk B) (hL : 0 < L) (hBl : 0 < B.length)
    (hc : Contains B L (encRun (encInit buf size) (packetOps cfg pk)))
    (hr : RawC B L (encRun (encInit buf size) (packetOps cfg pk))) :
    (silkCalls cfg cfg.nfpp true st (decInit B L)).1 =
      packetEvs cfg pk (fun j => ((encRun (encInit buf size) (prefixOps cfg pk j)).rng,
        tell (encRun (encInit buf size) (prefixOps cfg pk j)))) ∧
    (silkCalls cfg cfg.nfpp true st (decInit B L)).2.2.error = 0 ∧
    (silkCalls cfg cfg.nfpp true st (decInit B L)).2.2.rng = (encRun (encInit buf size) (packetOps cfg pk)).rng ∧
    (silkCalls cfg cfg.nfpp true st (decInit B L)).2.2.nbitsTotal =
      (encRun (encInit buf size) (packetOps cfg pk)).nbitsTotal := by
  have hlen := headerBits_length hok
  have hbits := headerBits_bits hok
  have hk1 : 1 ≤ (cfg.nfpp + 1) * cfg.nCh := by
    have := hok.nfpp
    rcases hok.nCh with h | h <;> rw [h] <;> omega
  have hk8 : (cfg.nfpp + 1) * cfg.nCh ≤ 8 := by
    have := hok.nfpp
    rcases hok.nCh with h | h <;> rw [h] <;> omega
  have hleg := packetBody_legal hok
  have hw : bitsWord (headerBits cfg pk) 0 < 2 ^ ((cfg.nfpp + 1) * cfg.nCh) := by
    rw [← hlen]; exact bitsWord_lt _ hbits
  unfold packetOps at hnF herrF hc hr ⊢
  rw [placeholder_eq] at hnF herrF hc hr ⊢
  generalize hkk : (cfg.nfpp + 1) * cfg.nCh = k at *
  have hl : LegalRunP k (encOp (encInit buf size) (.icdf 0 (flagTable k) 8))
      (packetBody cfg pk ++ [.patchInitial (bitsWord (headerBits cfg pk) 0) k]) :=
    legalRunP_of_ic k _ hw _ _ hleg
  have k1 := decode_flags_stream buf size k (packetBody cfg pk ++ [.patchInitial (bitsWord (headerBits cfg pk) 0) k])
    hs hb hk1 hk8 hl hnF herrF B L hB hL hBl
  have k2 := k1 hc
  have key := k2 hr
  clear k1 k2
  have hbo : bitsOps (bitsWord (headerBits cfg pk) 0) k = flagOps (headerBits cfg pk) := by
    rw [← hlen]; exact bitsOps_word _ hbits
  rw [lastPatch_ic 0 _ k _ hleg, hbo] at key
  rcases key with ⟨hm, hall⟩
  rw [← reads_iff, ← List.append_assoc, reads_append] at hm
  rw [← after_eq, ← List.append_assoc, after_append, after_patch] at hall
  obtain ⟨q1, q2⟩ := silkCalls_any hok st (decInit B L) hm.1
  rw [q1, q2]
  refine ⟨?_, hall.err, hall.rc.rng_eq, hall.rc.nbits_eq⟩
  apply packetEvs_congr
  intro j hj
  obtain ⟨rest, hrest⟩ := callsPrefix_split cfg pk hj
  have hr' : Reads (decInit B L) (flagOps (headerBits cfg pk) ++ ((List.range (j + 1)).map (callOps cfg pk)).flatten) := by
    have := hm.1
    rw [hrest, ← List.append_assoc, reads_append] at this
    exact this.1
  have hlk := payload_lockstep buf size B L (headerBits cfg pk) _ hbits (by rw [hlen]; exact hk1) (by rw [hlen]; exact hk8)
    (callsPrefix_legal hok hj) hr'
  unfold decAt prefixOps
  rw [hkk, ← hlen]
  rw [hlk.1, hlk.2]

/-- Facts about the encoder state after the SILK payload: invariants, bit accounting, no raw bits. -/
theorem packet_run_facts (buf : List Nat) (size : Nat) (cfg : Cfg) (pk : PacketIn) (hs : size ≤ buf.length)
    (hb : BytesOk buf) (hok : PacketOk cfg pk)
    (hnF : (encRun (encInit buf size) (packetOps cfg pk)).nbitsTotal < 4294967296)
    (herrF : (encRun (encInit buf size) (packetOps cfg pk)).error = 0) :
    RunInv (encRun (encInit buf size) (packetOps cfg pk)) ∧ Acct (encRun (encInit buf size) (packetOps cfg pk)) ∧
    (encRun (encInit buf size) (packetOps cfg pk)).endOffs = 0 ∧
    (encRun (encInit buf size) (packetOps cfg pk)).nendBits = 0 ∧
    (encRun (encInit buf size) (packetOps cfg pk)).storage = size := by
  have hlen := headerBits_length hok
  have hbits := headerBits_bits hok
  have hk1 : 1 ≤ (cfg.nfpp + 1) * cfg.nCh := by
    have := hok.nfpp
    rcases hok.nCh with h | h <;> rw [h] <;> omega
  have hk8 : (cfg.nfpp + 1) * cfg.nCh ≤ 8 := by
    have := hok.nfpp
    rcases hok.nCh with h | h <;> rw [h] <;> omega
  have hleg := packetBody_legal hok
  have hw : bitsWord (headerBits cfg pk) 0 < 2 ^ ((cfg.nfpp + 1) * cfg.nCh) := by
    rw [← hlen]; exact bitsWord_lt _ hbits
  -- no raw bits, storage untouched: field-wise
  have hnr : ∀ op ∈ packetOps cfg pk, NoRawOp op := by
    intro op hop
    unfold packetOps at hop
    rcases List.mem_cons.mp hop with h | h
    · rw [h, placeholder_eq]; trivial
    · rcases List.mem_append.mp h with h | h
      · exact icLegal_noRaw hleg op h
      · rw [List.mem_singleton] at h; rw [h]; trivial
  obtain ⟨n1, n2, n3⟩ := noRaw_run (packetOps cfg pk) (encInit buf size) hnr
  unfold packetOps at hnF herrF n1 n2 n3 ⊢
  rw [placeholder_eq] at hnF herrF n1 n2 n3 ⊢
  generalize hkk : (cfg.nfpp + 1) * cfg.nCh = k at *
  have hl : LegalRunP k (encOp (encInit buf size) (.icdf 0 (flagTable k) 8))
      (packetBody cfg pk ++ [.patchInitial (bitsWord (headerBits cfg pk) 0) k]) :=
    legalRunP_of_ic k _ hw _ _ hleg
  simp only [encRun] at hnF herrF n1 n2 n3 ⊢
  rw [flag_placeholder_eq buf size k hk1 hk8] at hl hnF herrF n1 n2 n3 ⊢
  have hfl : 0 < 2 ^ k := Nat.pow_pos (by decide)
  generalize he1 : encOp (encInit buf size) (.encodeBin 0 (0 + 1) k) = e1 at *
  have herr1 : e1.error = 0 := by
    apply Classical.byContradiction; intro hne
    exact encRun_error_mono _ _ hne herrF
  have hn1' : e1.nbitsTotal < 4294967296 := Nat.lt_of_le_of_lt (encRun_nbits_mono _ _) hnF
  have ri0 := runInv_encInit buf size hs hb
  have hlegA : (Op.encodeBin 0 (0 + 1) k).LegalAt (encInit buf size) :=
    ⟨by omega, by omega, hk1, by omega⟩
  have ri1 : RunInv e1 := by
    rw [← he1]; exact (step_op _ _ ri0 hlegA (by rw [he1]; exact hn1') (by rw [he1]; exact herr1)).run
  have hcell1 : Cell k 0 e1 := by
    rw [← he1]; exact cell_first buf size k 0 hs hb hk1 hk8 hfl (by rw [he1]; exact hn1') (by rw [he1]; exact herr1)
  have ac1 : Acct e1 := by
    rw [← he1]; exact acct_op _ _ ri0 (acct_encInit buf size) hlegA (by rw [he1]; exact hn1') (by rw [he1]; exact herr1)
  obtain ⟨_, riF, _, _, _⟩ := run_backP k _ e1 0 ri1 hcell1 hl hnF herrF
  have acF := acct_runP k _ e1 0 ri1 hcell1 ac1 hl hnF herrF
  exact ⟨riF, acF, n1, n2, n3⟩

/-- `DecControl.internalSampleRate` of a SILK-only frame (opus_decoder.c:413-427). -/
def silkIr (bandwidth : Nat) : Nat := if bandwidth = 1101 then 8000 else if bandwidth = 1102 then 12000 else 16000

/-- For the SILK-only configurations, `decodeOpusFrame` is `decodeOpusFrameCfg` with `silkCfg`. -/
theorem decodeOpusFrame_silk (bandwidth nCh ms10 : Nat)
    (hbw : bandwidth = 1101 ∨ bandwidth = 1102 ∨ bandwidth = 1103)
    (hms : ms10 = 100 ∨ ms10 = 200 ∨ ms10 = 400 ∨ ms10 = 600) (st : SilkSt) (frame : Bytes) :
    decodeOpusFrame 1000 bandwidth nCh ms10 false st frame =
      .ok (decodeOpusFrameCfg 1000 (silkIr bandwidth) (ms10 / 10) false (silkCfg bandwidth nCh ms10) st frame) := by
  rcases hbw with rfl | rfl | rfl <;> rcases hms with rfl | rfl | rfl | rfl <;> rfl

/-- (1) SILK-only Opus frame without redundancy: the decoder model, run on the frame the encoder emits
    (buffer cut at `(ec_tell+7)>>3`, trailing zeros stripped), finds no redundancy, reports what was
    encoded and ends with the encoder's `rangeFinal`. -/
theorem opus_frame_lockstep_silk_all (buf : List Nat) (maxData bandwidth nCh ms10 : Nat) (pk : PacketIn) (st : SilkSt)
    (hbw : bandwidth = 1101 ∨ bandwidth = 1102 ∨ bandwidth = 1103)
    (hms : ms10 = 100 ∨ ms10 = 200 ∨ ms10 = 400 ∨ ms10 = 600)
    (hs : maxData - 1 ≤ buf.length) (hb : BytesOk buf) (hok : PacketOk (silkCfg bandwidth nCh ms10) pk)
    (hn : (encodeAll buf (maxData - 1) (packetOps (silkCfg bandwidth nCh ms10) pk)).nbitsTotal < 4294967296)
    (herr : (encodeAll buf (maxData - 1) (packetOps (silkCfg bandwidth nCh ms10) pk)).error = 0)
    (hfit : tell (encRun (encInit buf (maxData - 1)) (packetOps (silkCfg bandwidth nCh ms10) pk)) ≤
      8 * ((maxData - 1 : Nat) : Int)) :
    ∃ o, decodeOpusFrame 1000 bandwidth nCh ms10 false st
        (silkOnlyFrame buf maxData (silkCfg bandwidth nCh ms10) pk).payload = .ok o ∧
      o.redundancy = 0 ∧ o.dec.error = 0 ∧
      o.dec.rng = (silkOnlyFrame buf maxData (silkCfg bandwidth nCh ms10) pk).rangeFinal ∧
      (silkOnlyFrame buf maxData (silkCfg bandwidth nCh ms10) pk).rangeFinal =
        (encRun (encInit buf (maxData - 1)) (packetOps (silkCfg bandwidth nCh ms10) pk)).rng ∧
      o.evs = packetEvs (silkCfg bandwidth nCh ms10) pk (fun j =>
        ((encRun (encInit buf (maxData - 1)) (prefixOps (silkCfg bandwidth nCh ms10) pk j)).rng,
         tell (encRun (encInit buf (maxData - 1)) (prefixOps (silkCfg bandwidth nCh ms10) pk j)))) := by
  generalize hcfg : silkCfg bandwidth nCh ms10 = cfg at *
  generalize hsz : maxData - 1 = size at *
  unfold encodeAll at hn herr
  have hnF : (encRun (encInit buf size) (packetOps cfg pk)).nbitsTotal < 4294967296 := by
    rw [encDone_nbitsTotal] at hn; exact hn
  have herrF : (encRun (encInit buf size) (packetOps cfg pk)).error = 0 := by
    apply Classical.byContradiction; intro hne
    exact encDone_error_mono _ hne herr
  obtain ⟨riF, acF, h0, h1, hsto⟩ := packet_run_facts buf size cfg pk hs hb hok hnF herrF
  obtain ⟨_, d1, d2, d3, d4, d5⟩ := encDone_spec _ riF.inv riF.raw riF.bytes hnF herr
  have hrngD := encDone_rng (encRun (encInit buf size) (packetOps cfg pk))
  have hnbD := encDone_nbitsTotal (encRun (encInit buf size) (packetOps cfg pk))
  have htellD := (tell_eq_of_rn hrngD hnbD).1
  have hzt := encDone_zero_tail _ riF.inv acF h0 h1 hnF herr
  generalize he1 : encRun (encInit buf size) (packetOps cfg pk) = e1 at *
  generalize heD : encDone e1 = eD at *
  rw [hsto] at d1 d4 d5 hzt
  -- the length of the frame
  have hil : ilog e1.rng ≤ 32 := ilog_le_32 ⟨riF.inv.rng_lo, riF.inv.rng_hi⟩
  have htell1 : 1 ≤ tell e1 := by
    unfold Acct rawN at acF
    rw [h0, h1] at acF
    unfold tell; omega
  generalize hret : ((tell e1 + 7) / 8).toNat = ret0 at *
  have hret1 : 1 ≤ ret0 := by omega
  have hretS : ret0 ≤ size := by omega
  obtain ⟨sl, s1, sz⟩ := stripZeros_spec eD.buf ret0
  generalize hL : stripZeros eD.buf ret0 = L at *
  have hL1 : 0 < L := s1 hret1
  have hzero : ∀ i, L ≤ i → i < size → eD.buf.getD i 0 = 0 := by
    intro i hi1 hi2
    by_cases hir : i < ret0
    · exact sz i hi1 hir
    · exact hzt i (by omega) hi2
  have hc := contains_trunc eD.buf size L e1 (by omega) hzero d4
  have hr := rawC_noRaw eD.buf (eD.buf.take L) size L e1 h0 h1 d5
  have hwf : size ≤ e1.buf.length := by
    have := riF.inv.wf.storage_le; rw [hsto] at this; exact this
  have hlenT : (eD.buf.take L).length = L := by
    rw [List.length_take, d2]; omega
  obtain ⟨r1, r2, r3, r4⟩ := silk_roundtrip_stream buf size cfg pk st hs hb hok (by rw [he1]; exact hnF)
    (by rw [he1]; exact herrF) (eD.buf.take L) L (bytesOk_take d3 _) hL1 (by rw [hlenT]; exact hL1)
    (by rw [he1]; exact hc) (by rw [he1]; exact hr)
  rw [he1] at r3 r4
  -- the encoder's frame
  have hframe : silkOnlyFrame buf maxData cfg pk = { payload := eD.buf.take L, rangeFinal := eD.rng } := by
    unfold silkOnlyFrame
    simp only
    rw [hsz, he1, heD, htellD, if_neg (by omega), hret, hL]
  rw [hframe]
  -- the decoder
  rw [← hcfg, decodeOpusFrame_silk bandwidth nCh ms10 hbw hms, hcfg]
  refine ⟨_, rfl, ?_⟩
  rw [decodeOpusFrameCfg, hlenT]
  split
  rename_i evs st1 c1 hcalls
  have e1' : evs = (silkCalls cfg cfg.nfpp true st (decInit (eD.buf.take L) L)).1 := by rw [hcalls]
  have e2' : c1 = (silkCalls cfg cfg.nfpp true st (decInit (eD.buf.take L) L)).2.2 := by rw [hcalls]
  have htc : tell c1 = tell e1 := by rw [e2']; exact (tell_eq_of_rn r3 r4).1
  have hgate : ¬ (¬ (false = true) ∧ tell c1 + 17 + (if (1000 : Nat) = 1001 then 20 else 0) ≤ 8 * ((L : Nat) : Int)) := by
    intro hh
    have := hh.2
    simp only [show ¬ ((1000 : Nat) = 1001) by decide, if_false] at this
    omega
  rw [redundancyHeader, if_neg hgate]
  refine ⟨rfl, ?_, ?_, hrngD, ?_⟩
  · rw [e2']; exact r2
  · rw [e2', r3]; exact hrngD.symm
  · rw [e1']; exact r1

end Opus.OpusFrameProofs
