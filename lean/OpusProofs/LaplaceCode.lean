import OpusProofs.LaplaceSeq
/-
  OpusProofs.LaplaceCode — closed forms of `Opus.Laplace.encode` / `decode` (ec_laplace_encode / ec_laplace_decode at
  the interval level) in terms of the sequence `L`, `F` and the tail start `T`.
-/
namespace OpusProofs.Laplace
open Opus Opus.Laplace
open Opus.Gen.CeltTables (laplaceLogMinP laplaceMinP laplaceNMin)

variable {fs decay T : Nat}

theorem enc_run (hp : Par fs decay T) (n : Nat) :
    encLoop decay n fs (getFreq1 fs decay) 1 =
      (L fs decay (min n T), F fs decay (min n T), min n T + 1) := by
  have := encLoop_eq hp n 0 (Nat.zero_le _)
  simpa [L, F] using this

theorem room_le (hp : Par fs decay T) {J : Nat} (hJ : J < T) : L fs decay J + F fs decay J * 2 + 2 ≤ 32766 :=
  Nat.le_trans (L_succ_le fs decay hJ) hp.room

/-- Negative value in the decaying part. -/
theorem enc_A_neg (hp : Par fs decay T) {J : Nat} (hJ : J < T) :
    encode (-((J + 1 : Nat) : Int)) fs decay =
      .ok (L fs decay J, L fs decay J + (F fs decay J + 1), -((J + 1 : Nat) : Int)) := by
  have hv : (-((J + 1 : Nat) : Int)) ≠ 0 := by omega
  have ha : (-((J + 1 : Nat) : Int)).natAbs = J + 1 := by omega
  have hneg : (-((J + 1 : Nat) : Int)) < 0 := by omega
  have hpos := hp.pos J hJ
  have hroom := room_le hp hJ
  unfold encode
  rw [if_neg hv]
  simp only [ha, enc_run hp, Nat.add_sub_cancel, Nat.min_eq_left (Nat.le_of_lt hJ), minP_eq, hneg, decide_true,
    if_true]
  rw [if_neg (by omega), if_neg (by omega)]

/-- Positive value in the decaying part. -/
theorem enc_A_pos (hp : Par fs decay T) {J : Nat} (hJ : J < T) :
    encode (((J + 1 : Nat) : Int)) fs decay =
      .ok (L fs decay J + (F fs decay J + 1), L fs decay J + (F fs decay J + 1) + (F fs decay J + 1),
        ((J + 1 : Nat) : Int)) := by
  have hv : (((J + 1 : Nat) : Int)) ≠ 0 := by omega
  have ha : (((J + 1 : Nat) : Int)).natAbs = J + 1 := by omega
  have hneg : ¬ (((J + 1 : Nat) : Int)) < 0 := by omega
  have hpos := hp.pos J hJ
  have hroom := room_le hp hJ
  unfold encode
  rw [if_neg hv]
  simp only [ha, enc_run hp, Nat.add_sub_cancel, Nat.min_eq_left (Nat.le_of_lt hJ), minP_eq, hneg, decide_false,
    Bool.false_eq_true, if_false]
  rw [if_neg (by omega), if_neg (by omega)]

/-- Negative value in the tail: clamped to the last negative magnitude that fits. -/
theorem enc_B_neg (hp : Par fs decay T) {a : Nat} (ha1 : T + 1 ≤ a) :
    encode (-(a : Int)) fs decay =
      .ok (L fs decay T + 2 * min (a - (T + 1)) ((32767 - L fs decay T) / 2),
           L fs decay T + 2 * min (a - (T + 1)) ((32767 - L fs decay T) / 2) + 1,
           -((T + 1 + min (a - (T + 1)) ((32767 - L fs decay T) / 2) : Nat) : Int)) := by
  have hv : (-(a : Int)) ≠ 0 := by omega
  have ha : (-(a : Int)).natAbs = a := by omega
  have hneg : (-(a : Int)) < 0 := by omega
  have hroom := hp.room
  unfold encode
  rw [if_neg hv]
  simp only [ha, enc_run hp, Nat.min_eq_right (show T ≤ a - 1 by omega), minP_eq, logMinP_eq, hneg, decide_true,
    if_true, hp.zero]
  generalize L fs decay T = l at *
  rw [if_neg (by omega)]
  simp only [Res.ok.injEq, Prod.mk.injEq]
  refine ⟨by omega, by omega, by omega⟩

/-- Positive value in the tail. -/
theorem enc_B_pos (hp : Par fs decay T) {a : Nat} (ha1 : T + 1 ≤ a) :
    encode ((a : Int)) fs decay =
      .ok (L fs decay T + 2 * min (a - (T + 1)) ((32766 - L fs decay T) / 2) + 1,
           L fs decay T + 2 * min (a - (T + 1)) ((32766 - L fs decay T) / 2) + 2,
           ((T + 1 + min (a - (T + 1)) ((32766 - L fs decay T) / 2) : Nat) : Int)) := by
  have hv : ((a : Int)) ≠ 0 := by omega
  have ha : ((a : Int)).natAbs = a := by omega
  have hneg : ¬ ((a : Int)) < 0 := by omega
  have hroom := hp.room
  unfold encode
  rw [if_neg hv]
  simp only [ha, enc_run hp, Nat.min_eq_right (show T ≤ a - 1 by omega), minP_eq, logMinP_eq, hneg, decide_false,
    Bool.false_eq_true, if_false, if_true, hp.zero]
  generalize L fs decay T = l at *
  rw [if_neg (by omega)]
  simp only [Res.ok.injEq, Prod.mk.injEq]
  refine ⟨by omega, by omega, by omega⟩

/-! ## Decoder -/

theorem dec_run (hp : Par fs decay T) {fm J : Nat} (hT : J ≤ T) (hlo : L fs decay J ≤ fm)
    (hhi : J < T → fm < L fs decay (J + 1)) :
    decLoop decay fm fs (getFreq1 fs decay + 1) 1 = (L fs decay J, F fs decay J + 1, J + 1) := by
  have := decLoop_eq hp fm J 0 J (by omega) hT hlo hhi
  simpa [L, F] using this

theorem dec_zero (hp : Par fs decay T) {fm : Nat} (h : fm < fs) : decode fm fs decay = .ok (0, 0, fs) := by
  have h0 := hp.fs_pos
  have : fs ≤ 32766 := Nat.le_trans (L_mono fs decay (Nat.zero_le T)) hp.room
  unfold decode
  simp only [ge_iff_le, show ¬ fs ≤ fm by omega, if_false]
  rw [if_pos (by refine ⟨?_, ?_, ?_, ?_⟩ <;> omega), Nat.min_eq_left (by omega), Nat.zero_add]

/-- `fm` inside the pair of intervals of the decaying magnitude `J+1`. -/
theorem dec_A (hp : Par fs decay T) {fm J : Nat} (hJ : J < T) (hlo : L fs decay J ≤ fm)
    (hhi : fm < L fs decay (J + 1)) :
    decode fm fs decay =
      if fm < L fs decay J + (F fs decay J + 1) then
        .ok (-((J + 1 : Nat) : Int), L fs decay J, L fs decay J + (F fs decay J + 1))
      else .ok (((J + 1 : Nat) : Int), L fs decay J + (F fs decay J + 1),
        L fs decay J + (F fs decay J + 1) + (F fs decay J + 1)) := by
  have hpos := hp.pos J hJ
  have hroom := room_le hp hJ
  have hfs : fs ≤ fm := Nat.le_trans (L_mono fs decay (Nat.zero_le J)) hlo
  have hhi' := hhi
  simp only [L] at hhi'
  unfold decode
  simp only [ge_iff_le, hfs, if_true, minP_eq, logMinP_eq, dec_run hp (Nat.le_of_lt hJ) hlo (fun _ => hhi),
    show ¬ F fs decay J + 1 ≤ 1 by omega, if_false, Nat.mul_zero, Nat.zero_mul, Nat.add_zero]
  by_cases hlt : fm < L fs decay J + (F fs decay J + 1)
  · simp only [hlt, if_true]
    rw [if_pos (by refine ⟨?_, ?_, ?_, ?_⟩ <;> omega), Nat.min_eq_left (by omega)]
  · simp only [hlt, if_false]
    rw [if_pos (by refine ⟨?_, ?_, ?_, ?_⟩ <;> omega), Nat.min_eq_left (by omega)]

/-- `fm` in the tail. -/
theorem dec_B (hp : Par fs decay T) {fm : Nat} (hlo : L fs decay T ≤ fm) (hhi : fm < 32768) :
    decode fm fs decay =
      if (fm - L fs decay T) % 2 = 0 then
        .ok (-((T + 1 + (fm - L fs decay T) / 2 : Nat) : Int), fm, fm + 1)
      else .ok (((T + 1 + (fm - L fs decay T) / 2 : Nat) : Int), fm, fm + 1) := by
  have hroom := hp.room
  have hfs : fs ≤ fm := Nat.le_trans (L_mono fs decay (Nat.zero_le T)) hlo
  unfold decode
  simp only [ge_iff_le, hfs, if_true, minP_eq, logMinP_eq, dec_run hp (Nat.le_refl T) hlo (fun h => absurd h (Nat.lt_irrefl _)),
    hp.zero, Nat.zero_add, Nat.le_refl, Nat.mul_one, Nat.pow_one]
  generalize L fs decay T = l at *
  by_cases hev : (fm - l) % 2 = 0
  · have hlt : fm < l + 2 * ((fm - l) / 2) + 1 := by omega
    simp only [hev, hlt, if_true]
    rw [if_pos (by refine ⟨?_, ?_, ?_, ?_⟩ <;> omega)]
    simp only [Res.ok.injEq, Prod.mk.injEq]
    refine ⟨trivial, by omega, by omega⟩
  · have hlt : ¬ fm < l + 2 * ((fm - l) / 2) + 1 := by omega
    simp only [hev, hlt, if_false]
    rw [if_pos (by refine ⟨?_, ?_, ?_, ?_⟩ <;> omega)]
    simp only [Res.ok.injEq, Prod.mk.injEq]
    refine ⟨trivial, by omega, by omega⟩
