import OpusProofs.ExtRepGen4
import OpusProofs.ExtRepIter6
/-
  C16 helper lemmas, part 22: the generator writes `serAll` of the queues.
-/
set_option linter.unusedVariables false
namespace Opus.ExtProofs
open Opus Opus.Ext

theorem seg_mem_ne {exts : Array Ext} {lo j hi g : Nat} {e : Ext} (h1 : lo ≤ j) (h2 : j < hi) (he : exts[j]? = some e)
    (hf : e.frame.toNat = g) : seg exts lo hi g = seg exts lo j g ++ e :: seg exts (j + 1) hi g := by
  rw [seg_split exts g h1 (by omega : j ≤ hi), seg_step exts j hi g e h2 he]
  simp [hf]

/-- Two indices of frame `g` with the same number of frame-`g` extensions before them are equal. -/
theorem seg_pos_inj {exts : Array Ext} {lo j1 j2 g : Nat} {e1 e2 : Ext} (h1 : lo ≤ j1) (h2 : lo ≤ j2)
    (he1 : exts[j1]? = some e1) (he2 : exts[j2]? = some e2) (hf1 : e1.frame.toNat = g) (hf2 : e2.frame.toNat = g)
    (hlen : (seg exts lo j1 g).length = (seg exts lo j2 g).length) : j1 = j2 := by
  apply Decidable.byContradiction; intro hne
  rcases Nat.lt_or_gt_of_ne hne with h | h
  · have := seg_mem_ne (hi := j2) h1 h he1 hf1
    rw [this] at hlen; simp at hlen
  · have := seg_mem_ne (hi := j1) h2 h he2 hf2
    rw [this] at hlen; simp at hlen

theorem takeTotal_eq (R : Nat) : ∀ (rs : List (List Ext)), (∀ r ∈ rs, R ≤ r.length) → takeTotal R rs = R * rs.length := by
  intro rs
  induction rs with
  | nil => intro _; simp [takeTotal]
  | cons r rs ih =>
    intro h
    have h1 := h r (List.mem_cons_self ..)
    have := ih (fun x hx => h x (List.mem_cons_of_mem _ hx))
    simp only [takeTotal, List.map_cons, List.sum_cons, List.length_take, List.length_cons] at this ⊢
    rw [Nat.mul_add]; omega

theorem total_remsFrom_succ (exts : Array Ext) (mx idx : List Nat) {nbF g : Nat} (h : g < nbF) :
    total (remsFrom exts mx idx nbF g) = (remQ exts mx idx g).length + total (remsFrom exts mx idx nbF (g + 1)) := by
  rw [remsFrom_succ exts mx idx h, total_cons]

end Opus.ExtProofs
